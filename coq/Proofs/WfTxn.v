(* C01 proofs, part 4: the transaction invariant [wf_txn] and its preservation by the
   transaction operations of Model/Stack.v. *)
From Coq Require Import Lia Permutation.
From StgV Require Import Model.StackSpec Proofs.WfBasics Proofs.WfFrame.

Record wf_txn (t : txn) : Prop := mk_wf_txn {
  wt_store : store_ok (t_objs t);
  wt_stack : wf_state (t_objs t) (t_stack t);
  wt_names : names_ok (t_all t);
  wt_dom : forall n, In n (t_all t) <-> t_patch t n <> None;
  wt_patch : forall n o, t_patch t n = Some o -> is_patch_commit (t_objs t) o;
  wt_base : is_plain (t_objs t) (t_base_oid t);
  wt_head : forall h, t_head t = Some h -> is_plain (t_objs t) h
}.

Definition res_sat (Q : txn -> Prop) (r : tres) : Prop :=
  match r with
  | TOk t => Q t
  | THalt t _ => wf_txn t
  | TErr t => store_ok (t_objs t)
  | TPanic => True
  end.

Definition good : tres -> Prop := res_sat wf_txn.

Lemma res_sat_tbind : forall (Q Q' : txn -> Prop) r f,
  res_sat Q r -> (forall t, Q t -> res_sat Q' (f t)) -> res_sat Q' (tbind r f).
Proof. intros Q Q' [t|t h|t|] f H1 H2; cbn in *; auto. Qed.

Lemma res_sat_impl : forall (Q Q' : txn -> Prop) r,
  res_sat Q r -> (forall t, Q t -> Q' t) -> res_sat Q' r.
Proof. intros Q Q' [t|t h|t|] H1 H2; cbn in *; auto. Qed.

(* ---------------------------------------------------------------- derived projections *)

Lemma t_patch_upd : forall t u n,
  t_patch (set_updated t u) n =
  match up_get u n with Some v => v | None => pm_get (s_patches (t_stack t)) n end.
Proof. reflexivity. Qed.

Lemma t_patch_up_set : forall t k v n,
  t_patch (set_updated t (up_set (t_updated t) k v)) n = if name_eqb k n then v else t_patch t n.
Proof.
  intros t k v n. rewrite t_patch_upd, up_get_set. now destruct (name_eqb k n).
Qed.

Lemma t_patch_mark_deleted : forall t ns n,
  t_patch (set_updated t (mark_deleted (t_updated t) ns)) n = if mem n ns then None else t_patch t n.
Proof.
  intros t ns n. rewrite t_patch_upd, up_get_mark_deleted. now destruct (mem n ns).
Qed.

(* ---------------------------------------------------------------- generic preservation *)

(* same store, stack, base and head: only the lists and the patch map matter *)
Lemma wf_txn_change : forall t t',
  wf_txn t ->
  t_objs t' = t_objs t -> t_stack t' = t_stack t -> t_base_oid t' = t_base_oid t ->
  t_head t' = t_head t ->
  names_ok (t_all t') ->
  (forall n, In n (t_all t') <-> t_patch t' n <> None) ->
  (forall n o, t_patch t' n = Some o -> is_patch_commit (t_objs t) o) ->
  wf_txn t'.
Proof.
  intros t t' W E1 E2 E3 E4 Hn Hd Hp. destruct W. constructor; rewrite ?E1, ?E2, ?E3, ?E4; auto.
Qed.

Lemma wf_txn_lists : forall t a u h,
  wf_txn t -> Permutation (a ++ u ++ h) (t_all t) -> wf_txn (set_lists t a u h).
Proof.
  intros t a u h W Hp. apply (wf_txn_change t); try reflexivity; try exact W.
  - change (t_all (set_lists t a u h)) with (a ++ u ++ h). eapply names_ok_perm; [exact Hp|apply W].
  - intros n. change (t_all (set_lists t a u h)) with (a ++ u ++ h).
    change (t_patch (set_lists t a u h) n) with (t_patch t n). rewrite <- (wt_dom t W).
    split; apply Permutation_in; [exact Hp|now apply Permutation_sym].
  - intros n o. apply (wt_patch t W).
Qed.

Lemma wf_txn_core_eq : forall t t2, core_eq t t2 -> wf_txn t -> wf_txn t2.
Proof.
  intros t t2 [E1 [E2 [E3 [E4 [E5 [E6 [E7 [E8 E9]]]]]]]] W.
  assert (Ea : t_all t2 = t_all t) by (unfold t_all; congruence).
  assert (Ep : forall n, t_patch t2 n = t_patch t n) by (intros n; unfold t_patch; now rewrite E6, E1).
  apply (wf_txn_change t); auto.
  - unfold t_base_oid. now rewrite E8, E2.
  - rewrite Ea. apply W.
  - intros n. rewrite Ea, Ep. apply W.
  - intros n o. rewrite Ep. apply W.
Qed.

Lemma plain_new : forall objs ps t m sj, is_plain (objs ++ [plain ps t m sj]) (length objs).
Proof.
  intros objs ps t m sj. exists (plain ps t m sj). split; [apply get_put_new|].
  split; [reflexivity|discriminate].
Qed.

Lemma patch_commit_new : forall objs p t m sj, is_patch_commit (objs ++ [plain [p] t m sj]) (length objs).
Proof.
  intros objs p t m sj. split; [apply plain_new|]. exists p. unfold parents_of.
  now rewrite get_put_new.
Qed.

Lemma store_ok_put_plain : forall objs ps t m sj,
  store_ok objs -> (forall p, In p ps -> is_plain objs p) -> store_ok (objs ++ [plain ps t m sj]).
Proof.
  intros objs ps t m sj H Hp. apply store_ok_put; [exact H|now right|].
  intros s Hs. discriminate.
Qed.

Lemma wf_txn_put : forall t ps tr m sj,
  wf_txn t -> (forall p, In p ps -> is_plain (t_objs t) p) ->
  wf_txn (set_objs t (t_objs t ++ [plain ps tr m sj])).
Proof.
  intros t ps tr m sj W Hp. destruct W. constructor; rewrite ?t_objs_set_objs.
  - now apply store_ok_put_plain.
  - now apply wf_state_mono.
  - exact wt_names0.
  - exact wt_dom0.
  - intros n o H. apply is_patch_commit_mono. now apply (wt_patch0 n).
  - now apply is_plain_mono.
  - intros h H. apply is_plain_mono. now apply wt_head0.
Qed.

Lemma wf_txn_set_base : forall t b, wf_txn t -> is_plain (t_objs t) b -> wf_txn (set_base t (Some b)).
Proof. intros t b W Hb. destruct W. constructor; auto. Qed.

Lemma wf_txn_set_head : forall t h, wf_txn t -> is_plain (t_objs t) h -> wf_txn (set_head t (Some h)).
Proof.
  intros t h W Hh. destruct W. constructor; auto.
  intros h' E. rewrite t_head_set_head in E. injection E as <-. exact Hh.
Qed.

Lemma wf_txn_update : forall t n o,
  wf_txn t -> In n (t_all t) -> is_patch_commit (t_objs t) o ->
  wf_txn (set_updated t (up_set (t_updated t) n (Some o))).
Proof.
  intros t n o W Hn Ho. apply (wf_txn_change t); try reflexivity; try exact W.
  - apply W.
  - intros m. rewrite t_patch_up_set. change (t_all (set_updated t _)) with (t_all t).
    destruct (name_eqb_spec n m) as [<-|Hm].
    + split; [discriminate|auto].
    + apply W.
  - intros m o'. rewrite t_patch_up_set. destruct (name_eqb n m).
    + intros E. injection E as <-. exact Ho.
    + apply W.
Qed.

(* the top of a well-formed transaction is a plain commit *)
Lemma wf_top : forall t, wf_txn t -> exists top, t_top t = Some top /\ is_plain (t_objs t) top.
Proof.
  intros t W. unfold t_top. destruct (hd_error (rev (t_applied t))) as [n|] eqn:E.
  - apply last_error_In in E.
    assert (Hn : In n (t_all t)) by (unfold t_all; apply in_or_app; now left).
    apply (wt_dom t W) in Hn. destruct (t_patch t n) as [o|] eqn:Eo; [|congruence].
    exists o. split; [reflexivity|]. now apply (wt_patch t W) in Eo as [Hp _].
  - exists (t_base_oid t). split; [reflexivity|apply W].
Qed.

Lemma wf_head_oid : forall t, wf_txn t -> exists th, t_head_oid t = Some th /\ is_plain (t_objs t) th.
Proof.
  intros t W. unfold t_head_oid. destruct (t_head t) as [h|] eqn:E.
  - exists h. split; [reflexivity|now apply (wt_head t W)].
  - now apply wf_top.
Qed.

Lemma in_all_cases : forall t n,
  In n (t_all t) <-> In n (t_applied t) \/ In n (t_unapplied t) \/ In n (t_hidden t).
Proof. intros t n. unfold t_all. now rewrite !in_app_iff. Qed.

Lemma names_disjoint : forall t,
  names_ok (t_all t) ->
  NoDup (t_applied t) /\ NoDup (t_unapplied t) /\ NoDup (t_hidden t)
  /\ (forall x, In x (t_applied t) -> ~ In x (t_unapplied t) /\ ~ In x (t_hidden t))
  /\ (forall x, In x (t_unapplied t) -> ~ In x (t_hidden t)).
Proof.
  intros t [Hd _]. unfold t_all in Hd. apply NoDup_app_iff in Hd as [H1 [H2 H3]].
  apply NoDup_app_iff in H2 as [H4 [H5 H6]]. repeat split; auto.
  - intros Hi. apply (H3 x H). apply in_or_app. now left.
  - intros Hi. apply (H3 x H). apply in_or_app. now right.
Qed.

(* ---------------------------------------------------------------- list operations *)

Lemma position_split : forall f l i,
  position f l = Some i ->
  l = firstn i l ++ skipn i l /\ (forall x, In x (firstn i l) -> f x = false)
  /\ exists y, hd_error (skipn i l) = Some y /\ f y = true.
Proof.
  intros f. induction l as [|x l IH]; intros i H; cbn in H; [discriminate|].
  destruct (f x) eqn:Ef.
  - injection H as <-. cbn. split; [reflexivity|]. split; [tauto|eauto].
  - destruct (position f l) as [j|] eqn:Ej; [|discriminate]. injection H as <-.
    destruct (IH j eq_refl) as [H1 [H2 H3]]. cbn. split; [now f_equal|]. split; [|exact H3].
    intros y [<-|Hy]; auto.
Qed.

Lemma position_none : forall f l, position f l = None -> forall x, In x l -> f x = false.
Proof.
  intros f. induction l as [|x l IH]; intros H y Hy; [destruct Hy|]. cbn in H.
  destruct (f x) eqn:Ef; [discriminate|]. destruct (position f l); [discriminate|].
  destruct Hy as [<-|Hy]; auto.
Qed.

Lemma split_at_first_spec : forall f l k p,
  split_at_first f l = (k, p) ->
  l = k ++ p /\ (forall x, In x k -> f x = false)
  /\ (p = [] \/ exists y, hd_error p = Some y /\ f y = true).
Proof.
  intros f l k p H. unfold split_at_first in H. destruct (position f l) as [i|] eqn:E.
  - injection H as <- <-. destruct (position_split f l i E) as [H1 [H2 H3]]. auto.
  - injection H as <- <-. split; [now rewrite app_nil_r|]. split; [|now left].
    now apply position_none.
Qed.

Lemma position_char : forall f l k y,
  (forall x, In x (firstn k l) -> f x = false) -> hd_error (skipn k l) = Some y -> f y = true ->
  position f l = Some k.
Proof.
  intros f. induction l as [|a l IH]; intros k y H1 H2 H3.
  - destruct k; discriminate.
  - destruct k as [|k]; cbn in *.
    + injection H2 as ->. now rewrite H3.
    + rewrite (H1 a (or_introl eq_refl)). rewrite (IH k y); auto.
Qed.

Lemma position_none' : forall f l, (forall x, In x l -> f x = false) -> position f l = None.
Proof.
  intros f. induction l as [|a l IH]; intros H; cbn; [reflexivity|].
  rewrite (H a (or_introl eq_refl)). rewrite IH; [reflexivity|]. intros x Hx. apply H. now right.
Qed.

(* popping everything from index k on *)
Lemma split_at_first_skipn : forall l k,
  NoDup l -> split_at_first (fun n => mem n (skipn k l)) l = (firstn k l, skipn k l).
Proof.
  intros l k Hd. unfold split_at_first.
  destruct (NoDup_firstn_skipn _ k l Hd) as [_ [_ Hdis]].
  destruct (skipn k l) as [|y r] eqn:Es.
  - rewrite position_none' by reflexivity. f_equal.
    rewrite <- (firstn_skipn k l) at 1. rewrite Es. apply app_nil_r.
  - rewrite (position_char _ l k y).
    + now rewrite Es.
    + intros x Hx. apply mem_false. now apply Hdis.
    + now rewrite Es.
    + apply mem_In. now left.
Qed.

Lemma remove_first_filter : forall n l,
  NoDup l -> remove_first n l = filter (fun x => negb (name_eqb x n)) l.
Proof.
  intros n l H. induction H as [|x l Hn Hd IH]; cbn; [reflexivity|].
  destruct (name_eqb_spec x n) as [->|Hx]; cbn.
  - symmetry. apply filter_all. intros y Hy. apply negb_true_iff. apply name_eqb_neq. congruence.
  - now rewrite IH.
Qed.

Lemma remove_first_perm : forall n l, In n l -> Permutation (n :: remove_first n l) l.
Proof.
  intros n. induction l as [|x l IH]; intros H; [destruct H|]. cbn.
  destruct (name_eqb_spec x n) as [->|Hx]; [reflexivity|].
  destruct H as [->|H]; [congruence|]. eapply Permutation_trans; [apply perm_swap|].
  constructor. now apply IH.
Qed.

Lemma filter_filter : forall (A : Type) (f g : A -> bool) l,
  filter f (filter g l) = filter (fun x => g x && f x) l.
Proof.
  intros A f g l. induction l as [|x l IH]; cbn; [reflexivity|].
  destruct (g x); cbn; [destruct (f x)|]; now rewrite IH.
Qed.

Lemma cpl_firstn : forall a b,
  firstn (common_prefix_len a b) a = firstn (common_prefix_len a b) b.
Proof.
  induction a as [|x a IH]; intros [|y b]; cbn; try reflexivity.
  destruct (name_eqb_spec x y) as [->|H]; cbn; [now rewrite IH|reflexivity].
Qed.

Lemma cpl_le : forall a b, (common_prefix_len a b <= length b)%nat /\ (common_prefix_len a b <= length a)%nat.
Proof.
  induction a as [|x a IH]; intros [|y b]; cbn; try lia.
  destruct (name_eqb x y); cbn; [|lia]. destruct (IH b). lia.
Qed.

Lemma perm_filter_in : forall (ps l : list name),
  NoDup ps -> NoDup l -> incl ps l -> Permutation ps (filter (fun n => mem n ps) l).
Proof.
  intros ps l H1 H2 Hi. apply NoDup_Permutation; [exact H1|now apply NoDup_filter|].
  intros x. rewrite filter_In, mem_In. split; [|tauto]. intros Hx. split; [now apply Hi|exact Hx].
Qed.

(* ---------------------------------------------------------------- pop / delete *)

Lemma pop_spec : forall f t t' inc,
  pop_patches f t = (t', inc) ->
  exists keep popped,
    split_at_first f (t_applied t) = (keep, popped)
    /\ t_applied t = keep ++ popped
    /\ t' = set_lists t keep (filter (fun n => negb (f n)) popped ++ filter f popped ++ t_unapplied t)
                      (t_hidden t)
    /\ inc = filter (fun n => negb (f n)) popped.
Proof.
  intros f t t' inc H. unfold pop_patches in H.
  destruct (split_at_first f (t_applied t)) as [keep popped] eqn:E. injection H as <- <-.
  exists keep, popped. split; [reflexivity|]. split; [|split; reflexivity].
  now apply split_at_first_spec in E as [E _].
Qed.

Lemma pop_perm : forall (f : name -> bool) keep popped u h,
  Permutation (keep ++ (filter (fun n => negb (f n)) popped ++ filter f popped ++ u) ++ h)
              ((keep ++ popped) ++ u ++ h).
Proof.
  intros f keep popped u h. rewrite <- !app_assoc. apply Permutation_app_head.
  rewrite !app_assoc. do 2 apply Permutation_app_tail. apply filter_perm'.
Qed.

Lemma pop_wf : forall f t t' inc,
  wf_txn t -> pop_patches f t = (t', inc) -> wf_txn t' /\ Permutation (t_all t') (t_all t).
Proof.
  intros f t t' inc W H. apply pop_spec in H as [keep [popped [_ [Ha [-> _]]]]].
  assert (Hp : Permutation (keep ++ (filter (fun n => negb (f n)) popped ++ filter f popped ++ t_unapplied t)
                              ++ t_hidden t) (t_all t)).
  { unfold t_all. rewrite Ha. apply pop_perm. }
  split; [now apply wf_txn_lists|exact Hp].
Qed.

Lemma delete_spec : forall f t t' inc,
  delete_patches f t = (t', inc) ->
  exists keep popped,
    split_at_first f (t_applied t) = (keep, popped)
    /\ t_applied t = keep ++ popped
    /\ t' = set_updated
              (set_lists t keep (filter (fun n => negb (f n)) popped ++ filter (fun n => negb (f n)) (t_unapplied t))
                         (filter (fun n => negb (f n)) (t_hidden t)))
              (mark_deleted (t_updated t)
                 (filter f popped ++ filter f (t_unapplied t) ++ filter f (t_hidden t)))
    /\ inc = filter (fun n => negb (f n)) popped.
Proof.
  intros f t t' inc H. unfold delete_patches in H.
  destruct (split_at_first f (t_applied t)) as [keep popped] eqn:E. injection H as <- <-.
  exists keep, popped. split; [reflexivity|]. split; [|split; reflexivity].
  now apply split_at_first_spec in E as [E _].
Qed.

Lemma delete_wf : forall f t t' inc,
  wf_txn t -> delete_patches f t = (t', inc) ->
  wf_txn t' /\ NoDup inc /\ incl inc (t_unapplied t').
Proof.
  intros f t t' inc W H. apply delete_spec in H as [keep [popped [Es [Ha [-> ->]]]]].
  apply split_at_first_spec in Es as [_ [Hk _]].
  set (nf := fun n => negb (f n)).
  assert (Hall : keep ++ (filter nf popped ++ filter nf (t_unapplied t)) ++ filter nf (t_hidden t)
                 = filter nf (t_all t)).
  { unfold t_all. rewrite Ha, !filter_app. rewrite <- !app_assoc. f_equal.
    symmetry. apply filter_all. intros x Hx. unfold nf. now rewrite (Hk x Hx). }
  assert (Hdel : forall n, mem n (filter f popped ++ filter f (t_unapplied t) ++ filter f (t_hidden t)) = true
                           <-> In n (t_all t) /\ f n = true).
  { intros n. rewrite mem_In. unfold t_all. rewrite Ha, !in_app_iff, !filter_In. split.
    - tauto.
    - intros [[[H1|H1]|[H1|H1]] H2]; auto. rewrite (Hk n H1) in H2. discriminate. }
  pose proof (names_disjoint t (wt_names t W)) as [Hda _]. rewrite Ha in Hda.
  apply NoDup_app_iff in Hda as [_ [Hdp _]].
  split; [|split].
  - apply (wf_txn_change t); try reflexivity; try exact W.
    + unfold t_all. rewrite t_applied_set_updated, t_unapplied_set_updated, t_hidden_set_updated,
        t_applied_set_lists, t_unapplied_set_lists, t_hidden_set_lists. rewrite Hall.
      apply (names_ok_sub (t_all t)); [apply W|apply NoDup_filter; apply W|].
      intros x Hx. now apply filter_In in Hx.
    + intros n. unfold t_all at 1.
      rewrite t_applied_set_updated, t_unapplied_set_updated, t_hidden_set_updated,
        t_applied_set_lists, t_unapplied_set_lists, t_hidden_set_lists. rewrite Hall.
      match goal with |- _ <-> t_patch (set_updated ?t0 (mark_deleted _ ?d)) n <> None =>
        change (t_patch (set_updated t0 (mark_deleted (t_updated t) d)) n)
          with (t_patch (set_updated t (mark_deleted (t_updated t) d)) n) end.
      rewrite t_patch_mark_deleted, filter_In. unfold nf. rewrite negb_true_iff.
      destruct (mem n _) eqn:Em.
      * apply Hdel in Em as [_ Em]. rewrite Em. split; [intros [_ Hx]; discriminate|congruence].
      * rewrite <- (wt_dom t W). split; [tauto|]. intros Hi. split; [exact Hi|].
        destruct (f n) eqn:Ef; [|reflexivity]. rewrite <- Em. symmetry. apply Hdel. auto.
    + intros n o.
      match goal with |- t_patch (set_updated ?t0 (mark_deleted _ ?d)) n = _ -> _ =>
        change (t_patch (set_updated t0 (mark_deleted (t_updated t) d)) n)
          with (t_patch (set_updated t (mark_deleted (t_updated t) d)) n) end.
      rewrite t_patch_mark_deleted. destruct (mem n _); [discriminate|apply W].
  - now apply NoDup_filter.
  - rewrite t_unapplied_set_updated, t_unapplied_set_lists. intros x Hx. apply in_or_app. now left.
Qed.

(* ---------------------------------------------------------------- push *)

Definition same_lists (t t' : txn) : Prop :=
  t_applied t' = t_applied t /\ t_unapplied t' = t_unapplied t /\ t_hidden t' = t_hidden t.

Definition push_post (t : txn) (ns : list name) (t' : txn) : Prop :=
  wf_txn t' /\ t_applied t' = t_applied t ++ ns
  /\ t_hidden t' = filter (fun x => negb (mem x ns)) (t_hidden t)
  /\ Permutation (t_all t') (t_all t).

Lemma same_lists_all : forall t t', same_lists t t' -> t_all t' = t_all t.
Proof. intros t t' [H1 [H2 H3]]. unfold t_all. congruence. Qed.

Lemma push_post_lists : forall t t0 ns t',
  same_lists t t0 -> push_post t0 ns t' -> push_post t ns t'.
Proof.
  intros t t0 ns t' Hs [H1 [H2 [H3 H4]]]. pose proof (same_lists_all _ _ Hs) as Ea.
  destruct Hs as [E1 [E2 E3]]. unfold push_post. rewrite <- E1, <- E3, <- Ea. auto.
Qed.

Lemma move_wf : forall t n,
  wf_txn t -> In n (t_all t) -> ~ In n (t_applied t) -> push_post t [n] (move_to_applied t n).
Proof.
  intros t n W Hn Ha.
  pose proof (names_disjoint t (wt_names t W)) as [_ [Hdu [Hdh [_ Huh]]]].
  assert (Hf1 : forall l, ~ In n l -> filter (fun x => negb (mem x [n])) l = l).
  { intros l Hl. apply filter_all. intros x Hx. apply negb_mem_true. intros [->|[]]. contradiction. }
  assert (Hf2 : forall l, NoDup l -> filter (fun x => negb (mem x [n])) l = remove_first n l).
  { intros l Hl. rewrite remove_first_filter by exact Hl. apply filter_ext. intros x. cbn.
    now rewrite orb_false_r. }
  unfold move_to_applied, push_post. destruct (mem n (t_unapplied t)) eqn:Eu.
  - apply mem_In in Eu.
    assert (Hp : Permutation ((t_applied t ++ [n]) ++ remove_first n (t_unapplied t) ++ t_hidden t) (t_all t)).
    { unfold t_all. rewrite <- app_assoc. apply Permutation_app_head. cbn.
      rewrite app_comm_cons. apply Permutation_app_tail. now apply remove_first_perm. }
    split; [now apply wf_txn_lists|]. split; [reflexivity|]. split; [|exact Hp].
    rewrite t_hidden_set_lists. symmetry. apply Hf1. now apply Huh.
  - destruct (mem n (t_hidden t)) eqn:Eh.
    + apply mem_In in Eh.
      assert (Hp : Permutation ((t_applied t ++ [n]) ++ t_unapplied t ++ remove_first n (t_hidden t)) (t_all t)).
      { unfold t_all. rewrite <- app_assoc. apply Permutation_app_head. cbn.
        eapply Permutation_trans; [apply Permutation_middle|]. apply Permutation_app_head.
        now apply remove_first_perm. }
      split; [now apply wf_txn_lists|]. split; [reflexivity|]. split; [|exact Hp].
      rewrite t_hidden_set_lists. symmetry. now apply Hf2.
    + exfalso. apply mem_false in Eu, Eh. apply in_all_cases in Hn. tauto.
Qed.

Lemma wf_txn_conflict_mode : forall t m, wf_txn t -> wf_txn (set_conflict_mode t m).
Proof. intros t m W. apply (wf_txn_change t); try reflexivity; apply W. Qed.

Lemma push_fin_wf : forall n t2 pc ptree tr np op st,
  wf_txn t2 -> In n (t_all t2) -> ~ In n (t_applied t2) -> is_plain (t_objs t2) np ->
  res_sat (push_post t2 [n]) (push_fin n t2 pc ptree tr np op st).
Proof.
  intros n t2 pc ptree tr np op st W Hn Ha Hnp. unfold push_fin.
  assert (Hfin : forall t3, wf_txn t3 -> same_lists t2 t3 ->
    res_sat (push_post t2 [n])
      (match st with
       | PSConflict => THalt (move_to_applied (set_conflict_mode t3 CAllow) n) HConflict
       | _ => TOk (move_to_applied t3 n) end)).
  { intros t3 W3 Hs. pose proof (same_lists_all _ _ Hs) as Ea.
    assert (Hn3 : In n (t_all t3)) by now rewrite Ea.
    assert (Ha3 : ~ In n (t_applied t3)) by (destruct Hs as [-> _]; exact Ha).
    destruct st; cbn [res_sat].
    - eapply push_post_lists; [exact Hs|]. now apply move_wf.
    - eapply push_post_lists; [exact Hs|]. now apply move_wf.
    - apply (move_wf (set_conflict_mode t3 CAllow) n); [now apply wf_txn_conflict_mode|exact Hn3|exact Ha3]. }
  destruct (negb (tree_eqb tr ptree) || negb (Nat.eqb np op)).
  - unfold recommit, put. cbv beta iota zeta.
    set (c := plain [np] tr _ _).
    assert (W1 : wf_txn (set_objs t2 (t_objs t2 ++ [c]))).
    { apply wf_txn_put; [exact W|]. intros p [<-|[]]. exact Hnp. }
    assert (Ho : is_patch_commit (t_objs t2 ++ [c]) (length (t_objs t2))) by apply patch_commit_new.
    destruct st.
    + apply Hfin; [|repeat split]. now apply (wf_txn_update _ n _ W1).
    + apply Hfin; [|repeat split]. now apply (wf_txn_update _ n _ W1).
    + apply Hfin; [|repeat split].
      apply (wf_txn_update (set_head (set_objs t2 (t_objs t2 ++ [c])) (Some (length (t_objs t2)))) n);
        [|exact Hn|exact Ho].
      apply wf_txn_set_head; [exact W1|apply Ho].
  - destruct st; apply Hfin; try exact W; repeat split.
Qed.

Lemma push_patch_wf : forall n am t,
  wf_txn t -> In n (t_all t) -> ~ In n (t_applied t) ->
  res_sat (push_post t [n]) (push_patch n am t).
Proof.
  intros n am t W Hn Ha. rewrite push_patch_eq.
  destruct (t_patch t n) as [pc|]; [|exact I].
  destruct (wf_top t W) as [np [-> Hnp]].
  destruct (first_parent (t_objs t) pc) as [op|]; [|apply W].
  pose proof (push_sel_spec am t pc op np) as S.
  destruct (push_sel am t pc op np) as [[[t2 tr] st]|r].
  - pose proof (wf_txn_core_eq _ _ S W) as W2.
    destruct S as [_ [_ [E3 [E4 [E5 [_ [_ [_ E9]]]]]]]].
    assert (Hs : same_lists t t2) by (repeat split; assumption).
    eapply res_sat_impl; [apply push_fin_wf; auto|].
    + now rewrite (same_lists_all _ _ Hs).
    + now rewrite E3.
    + now rewrite E9.
    + intros t' Hp. eapply push_post_lists; [|exact Hp]. exact Hs.
  - destruct r; try contradiction. cbn. now apply (wf_txn_core_eq t).
Qed.

Lemma filter_notin_cons : forall n ns (l : list name),
  filter (fun x => negb (mem x ns)) (filter (fun x => negb (mem x [n])) l)
  = filter (fun x => negb (mem x (n :: ns))) l.
Proof.
  intros n ns l. rewrite filter_filter. apply filter_ext. intros x. cbn.
  rewrite orb_false_r. now rewrite negb_orb.
Qed.

Lemma push_list_wf : forall ns m t,
  wf_txn t -> NoDup ns -> (forall n, In n ns -> In n (t_all t) /\ ~ In n (t_applied t)) ->
  res_sat (push_post t ns) (push_list ns m t).
Proof.
  induction ns as [|n ns IH]; intros m t W Hd Hin; cbn [push_list].
  - cbn. unfold push_post. rewrite app_nil_r. split; [exact W|]. split; [reflexivity|].
    split; [|apply Permutation_refl]. symmetry. apply filter_all. reflexivity.
  - inversion Hd as [|? ? Hnn Hd']; subst.
    destruct (Hin n (or_introl eq_refl)) as [Hn Ha].
    eapply res_sat_tbind; [apply push_patch_wf; auto|].
    intros t1 [W1 [Ea [Eh Hp]]]. eapply res_sat_impl; [apply IH; auto|].
    + intros x Hx. destruct (Hin x (or_intror Hx)) as [Hx1 Hx2]. split.
      * eapply Permutation_in; [apply Permutation_sym; exact Hp|exact Hx1].
      * rewrite Ea. intros Hi. apply in_app_or in Hi as [Hi|[<-|[]]]; contradiction.
    + intros t' [W' [Ea' [Eh' Hp']]]. split; [exact W'|]. split; [|split].
      * rewrite Ea', Ea, <- app_assoc. reflexivity.
      * rewrite Eh', Eh. apply filter_notin_cons.
      * eapply Permutation_trans; eassumption.
Qed.

Lemma wf_txn_set_tmp : forall t id c, wf_txn t -> wf_txn (set_tmp t id c).
Proof. intros t id c W. apply (wf_txn_change t); try reflexivity; apply W. Qed.

Lemma push_patches_wf : forall ns cm t,
  wf_txn t -> NoDup ns -> (forall n, In n ns -> In n (t_all t) /\ ~ In n (t_applied t)) ->
  res_sat (push_post t ns) (push_patches ns cm t).
Proof.
  intros ns cm t W Hd Hin. unfold push_patches. destruct cm.
  - destruct (check_merged_loop _ _ _ _) as [[m c] id].
    apply (push_list_wf ns m (set_tmp (set_tmp t None []) id c)); auto.
    now do 2 apply wf_txn_set_tmp.
  - apply (push_list_wf ns [] (set_tmp t None [])); auto. now apply wf_txn_set_tmp.
Qed.

Lemma not_applied_of_mem : forall t n,
  names_ok (t_all t) -> mem n (t_unapplied t) || mem n (t_hidden t) = true -> ~ In n (t_applied t).
Proof.
  intros t n Hn E Ha. destruct (names_disjoint t Hn) as [_ [_ [_ [H _]]]].
  destruct (H n Ha) as [H1 H2]. apply orb_true_iff in E as [E|E]; apply mem_In in E; contradiction.
Qed.

Lemma push_tree_wf : forall n t, wf_txn t -> good (push_tree n t).
Proof.
  intros n t W. unfold push_tree.
  destruct (t_patch t n) as [pc|] eqn:Ep; [|exact I].
  assert (Hn : In n (t_all t)) by (apply (wt_dom t W); congruence).
  destruct (wf_top t W) as [top [-> Htop]].
  destruct (first_parent (t_objs t) pc) as [par|]; [|apply W].
  destruct (Nat.eqb par top).
  - destruct (mem n (t_unapplied t) || mem n (t_hidden t)) eqn:E; [|exact I].
    apply move_wf; [exact W|exact Hn|]. apply not_applied_of_mem; [apply W|exact E].
  - unfold recommit, put. cbv beta iota zeta. set (c := plain [top] _ _ _).
    match goal with |- good (if ?b then _ else _) => destruct b eqn:E end; [|exact I].
    assert (W1 : wf_txn (set_objs t (t_objs t ++ [c]))).
    { apply wf_txn_put; [exact W|]. intros p [<-|[]]. exact Htop. }
    apply move_wf; [|exact Hn|].
    + apply (wf_txn_update _ n _ W1); [exact Hn|apply patch_commit_new].
    + apply (not_applied_of_mem t); [apply W|exact E].
Qed.

Lemma push_tree_list_wf : forall ns t, wf_txn t -> good (push_tree_list ns t).
Proof.
  induction ns as [|n ns IH]; intros t W; cbn [push_tree_list]; [exact W|].
  eapply res_sat_tbind; [now apply push_tree_wf|]. intros t1 W1. now apply IH.
Qed.

(* ---------------------------------------------------------------- reorder *)

Lemma mem_ext : forall x (a b : list name), (In x a <-> In x b) -> mem x a = mem x b.
Proof.
  intros x a b H. destruct (mem x a) eqn:E1, (mem x b) eqn:E2; try reflexivity.
  - apply mem_In in E1. apply H in E1. apply mem_In in E1. congruence.
  - apply mem_In in E2. apply H in E2. apply mem_In in E2. congruence.
Qed.

Lemma wf_txn_relist : forall t t',
  wf_txn t ->
  t_objs t' = t_objs t -> t_stack t' = t_stack t -> t_base_oid t' = t_base_oid t ->
  t_head t' = t_head t -> t_updated t' = t_updated t ->
  Permutation (t_all t') (t_all t) -> wf_txn t'.
Proof.
  intros t t' W E1 E2 E3 E4 E5 Hp.
  assert (Ep : forall n, t_patch t' n = t_patch t n) by (intros n; unfold t_patch; now rewrite E5, E2).
  apply (wf_txn_change t); auto.
  - eapply names_ok_perm; [exact Hp|apply W].
  - intros n. rewrite Ep, <- (wt_dom t W). split; apply Permutation_in; [exact Hp|now apply Permutation_sym].
  - intros n o. rewrite Ep. apply W.
Qed.

Definition reorder_pre (a u h : option (list name)) (t : txn) : Prop :=
  match a with
  | Some al =>
      NoDup al /\ incl al (t_all t) /\
      exists ul, u = Some ul /\
        Permutation (al ++ ul ++ match h with
                                 | Some hl => hl
                                 | None => filter (fun x => negb (mem x al)) (t_hidden t)
                                 end) (t_all t)
  | None =>
      Permutation (t_applied t ++ (match u with Some ul => ul | None => t_unapplied t end)
                     ++ (match h with Some hl => hl | None => t_hidden t end)) (t_all t)
  end.

Lemma reorder_wf : forall a u h t, wf_txn t -> reorder_pre a u h t -> good (reorder_patches a u h t).
Proof.
  intros a u h t W Hpre. unfold reorder_patches. destruct a as [al|]; cbn [reorder_pre] in Hpre.
  - destruct Hpre as [Hdal [Hial [ul [-> Hperm]]]].
    set (k := common_prefix_len (t_applied t) al).
    pose proof (names_disjoint t (wt_names t W)) as [Hda [_ [_ [Hah _]]]].
    destruct (pop_patches (fun n => mem n (skipn k (t_applied t))) t) as [t1 inc] eqn:Epop.
    pose proof (pop_wf _ _ _ _ W Epop) as [W1 Hp1].
    apply pop_spec in Epop as [keep [popped [Es [_ [Et1 _]]]]].
    rewrite split_at_first_skipn in Es by exact Hda. injection Es as <- <-.
    assert (Ea1 : t_applied t1 = firstn k al) by (rewrite Et1; apply cpl_firstn).
    assert (Eh1 : t_hidden t1 = t_hidden t) by now rewrite Et1.
    destruct (NoDup_firstn_skipn _ k al Hdal) as [_ [Hds Hdis]].
    eapply res_sat_tbind.
    + eapply res_sat_tbind; [apply (push_patches_wf (skipn k al) false t1 W1 Hds)|].
      * intros x Hx. split.
        -- eapply Permutation_in; [apply Permutation_sym; exact Hp1|]. apply Hial. eapply In_skipn; exact Hx.
        -- rewrite Ea1. intros Hi. now apply (Hdis x Hi).
      * intros t2 P2. destruct (list_name_eqb (t_applied t2) al); [|exact I]. exact P2.
    + intros t2 [W2 [Ea2 [Eh2 Hp2]]]. cbn [res_sat].
      rewrite Ea1, firstn_skipn in Ea2. rewrite Eh1 in Eh2.
      assert (Eh2' : t_hidden t2 = filter (fun x => negb (mem x al)) (t_hidden t)).
      { rewrite Eh2. apply filter_ext_in. intros x Hx. f_equal. apply mem_ext.
        rewrite (firstn_skipn_In _ k al x). split; [tauto|]. intros [Hi|Hi]; [|exact Hi].
        exfalso. unfold k in Hi. rewrite <- cpl_firstn in Hi. apply In_firstn in Hi.
        destruct (Hah x Hi) as [_ Hn]. contradiction. }
      assert (Hall : Permutation (t_all t2) (t_all t)) by (eapply Permutation_trans; eassumption).
      destruct h as [hl|].
      * apply (wf_txn_relist t2); try reflexivity; [exact W2|].
        eapply Permutation_trans; [|apply Permutation_sym; exact Hall].
        unfold t_all. rewrite !t_applied_set_lists, !t_unapplied_set_lists, !t_hidden_set_lists.
        rewrite Ea2. exact Hperm.
      * apply (wf_txn_relist t2); try reflexivity; [exact W2|].
        eapply Permutation_trans; [|apply Permutation_sym; exact Hall].
        unfold t_all. rewrite !t_applied_set_lists, !t_unapplied_set_lists, !t_hidden_set_lists.
        rewrite Ea2, Eh2'. exact Hperm.
  - cbn [tbind res_sat]. destruct u as [ul|], h as [hl|];
      (apply (wf_txn_relist t); try reflexivity; try exact W; exact Hpre).
Qed.

(* ---------------------------------------------------------------- commit *)

Lemma split_at_first_k : forall f (l : list name) k,
  (forall x, In x (firstn k l) -> f x = false) ->
  (forall y, hd_error (skipn k l) = Some y -> f y = true) ->
  split_at_first f l = (firstn k l, skipn k l).
Proof.
  intros f l k H1 H2. unfold split_at_first. destruct (skipn k l) as [|y r] eqn:Es.
  - assert (El : firstn k l = l).
    { rewrite <- (firstn_skipn k l) at 2. rewrite Es. symmetry. apply app_nil_r. }
    rewrite position_none'; [now rewrite El|]. rewrite <- El. exact H1.
  - rewrite (position_char f l k y); [now rewrite Es|exact H1|now rewrite Es|].
    apply H2. reflexivity.
Qed.

Definition commit_pre (tc : list name) (t : txn) : Prop :=
  NoDup tc /\ incl tc (t_all t)
  /\ (forall x, hd_error (skipn (common_prefix_len (t_applied t) tc) (t_applied t)) = Some x -> ~ In x tc).

Lemma commit_wf : forall tc t, wf_txn t -> commit_pre tc t -> good (commit_patches tc t).
Proof.
  intros tc t W [Hdtc [Hitc Hhd]]. unfold commit_patches.
  set (k := common_prefix_len (t_applied t) tc) in *.
  pose proof (names_disjoint t (wt_names t W)) as [Hda _].
  set (to_push := if Nat.ltb k (length tc)
                  then filter (fun n => negb (mem n tc)) (skipn k (t_applied t)) else []).
  assert (Htp : NoDup to_push /\ forall x, In x to_push -> In x (t_all t) /\ ~ In x tc).
  { unfold to_push. destruct (Nat.ltb k (length tc)); [|split; [constructor|intros x []]].
    split; [apply NoDup_filter; now apply NoDup_firstn_skipn|].
    intros x Hx. apply filter_In in Hx as [Hx1 Hx2]. apply negb_mem_true in Hx2. split; [|exact Hx2].
    apply in_all_cases. left. eapply In_skipn; exact Hx1. }
  destruct Htp as [Hdtp Hintp].
  eapply (res_sat_tbind (fun t2 => wf_txn t2 /\ Permutation (t_all t2) (t_all t)
             /\ exists rest, t_applied t2 = tc ++ rest /\ forall x, In x to_push -> ~ In x rest)).
  - unfold to_push in *. clear to_push. destruct (Nat.ltb k (length tc)) eqn:Elt.
    + set (tp := filter (fun n => negb (mem n tc)) (skipn k (t_applied t))) in *.
      destruct (pop_patches (fun n => mem n tp) t) as [t1 inc] eqn:Epop.
      pose proof (pop_wf _ _ _ _ W Epop) as [W1 Hp1].
      apply pop_spec in Epop as [keep [popped [Es [_ [Et1 _]]]]].
      destruct (NoDup_firstn_skipn _ k (t_applied t) Hda) as [_ [_ Hdis]].
      rewrite (split_at_first_k _ _ k) in Es.
      * injection Es as <- <-.
        assert (Ea1 : t_applied t1 = firstn k tc) by (rewrite Et1; apply cpl_firstn).
        destruct (NoDup_firstn_skipn _ k tc Hdtc) as [_ [Hds Hdis2]].
        eapply res_sat_tbind; [apply (push_patches_wf (skipn k tc) false t1 W1 Hds)|].
        -- intros x Hx. split.
           ++ eapply Permutation_in; [apply Permutation_sym; exact Hp1|]. apply Hitc. eapply In_skipn; exact Hx.
           ++ rewrite Ea1. intros Hi. now apply (Hdis2 x Hi).
        -- intros t2 [W2 [Ea2 [_ Hp2]]]. cbn [res_sat]. split; [exact W2|]. split.
           ++ eapply Permutation_trans; eassumption.
           ++ exists []. rewrite Ea2, Ea1, firstn_skipn, app_nil_r. split; [reflexivity|]. intros x _ [].
      * intros x Hx. apply mem_false. unfold tp. rewrite filter_In. intros [Hi _]. now apply (Hdis x Hx).
      * intros y Hy. apply mem_In. unfold tp. apply filter_In. split; [now apply hd_error_In|].
        apply negb_mem_true. now apply Hhd.
    + cbn [res_sat]. split; [exact W|]. split; [apply Permutation_refl|].
      apply Nat.ltb_ge in Elt. pose proof (cpl_le (t_applied t) tc) as [Hle _]. fold k in Hle.
      exists (skipn k (t_applied t)). split; [|intros x []].
      rewrite <- (firstn_skipn k (t_applied t)) at 1. f_equal. unfold k. rewrite cpl_firstn. fold k.
      apply firstn_all2. lia.
  - intros t2 [W2 [Hp2 [rest [Ea2 Hrest]]]].
    destruct (hd_error (rev tc)) as [lastn|] eqn:El; [|exact I].
    apply last_error_In in El.
    destruct (t_patch t2 lastn) as [nb|] eqn:Enb; [|exact I].
    assert (Hnb : is_plain (t_objs t2) nb) by (now apply (wt_patch t2 W2) in Enb as [Hx _]).
    pose proof (wf_txn_set_base t2 nb W2 Hnb) as W3.
    match goal with |- res_sat _ (if ?b then _ else _) => destruct b end; [exact I|].
    rewrite t_applied_set_updated, t_applied_set_base, t_unapplied_set_updated, t_unapplied_set_base,
      t_hidden_set_updated, t_hidden_set_base.
    assert (Esk : skipn (length tc) (t_applied t2) = rest).
    { rewrite Ea2. rewrite skipn_app, skipn_all, Nat.sub_diag. reflexivity. }
    rewrite Esk.
    pose proof (wt_names t2 W2) as Hn2. unfold t_all in Hn2. rewrite Ea2, <- app_assoc in Hn2.
    assert (Hdd : NoDup (tc ++ rest ++ t_unapplied t2 ++ t_hidden t2)) by apply Hn2.
    apply NoDup_app_iff in Hdd as [_ [Hdr Hdisj]].
    assert (Hall2 : forall n, In n (t_all t2) <-> In n tc \/ In n (rest ++ t_unapplied t2 ++ t_hidden t2)).
    { intros n. unfold t_all. rewrite Ea2, <- app_assoc, in_app_iff. reflexivity. }
    set (t4 := set_updated (set_base t2 (Some nb)) (mark_deleted (t_updated (set_base t2 (Some nb))) tc)).
    assert (W5 : wf_txn (set_lists t4 rest (t_unapplied t2) (t_hidden t2))).
    { apply (wf_txn_change (set_base t2 (Some nb))); try reflexivity; try exact W3.
      - change (t_all (set_lists t4 rest (t_unapplied t2) (t_hidden t2)))
          with (rest ++ t_unapplied t2 ++ t_hidden t2).
        apply (names_ok_sub _ _ Hn2); [exact Hdr|]. intros x Hx. apply in_or_app. now right.
      - intros n.
        change (t_all (set_lists t4 rest (t_unapplied t2) (t_hidden t2)))
          with (rest ++ t_unapplied t2 ++ t_hidden t2).
        change (t_patch (set_lists t4 rest (t_unapplied t2) (t_hidden t2)) n)
          with (t_patch (set_updated (set_base t2 (Some nb)) (mark_deleted (t_updated (set_base t2 (Some nb))) tc)) n).
        rewrite t_patch_mark_deleted. change (t_patch (set_base t2 (Some nb)) n) with (t_patch t2 n).
        destruct (mem n tc) eqn:Em.
        + apply mem_In in Em. split; [|congruence]. intros Hi. exfalso. now apply (Hdisj n Em).
        + apply mem_false in Em. rewrite <- (wt_dom t2 W2), Hall2. tauto.
      - intros n o.
        change (t_patch (set_lists t4 rest (t_unapplied t2) (t_hidden t2)) n)
          with (t_patch (set_updated (set_base t2 (Some nb)) (mark_deleted (t_updated (set_base t2 (Some nb))) tc)) n).
        rewrite t_patch_mark_deleted. destruct (mem n tc); [discriminate|].
        change (t_patch (set_base t2 (Some nb)) n) with (t_patch t2 n). apply W2. }
    eapply res_sat_impl; [apply (push_patches_wf to_push false _ W5 Hdtp)|intros t' P; apply P].
    intros x Hx. destruct (Hintp x Hx) as [Hx1 Hx2]. split.
    + change (In x (rest ++ t_unapplied t2 ++ t_hidden t2)).
      assert (Hx3 : In x (t_all t2)) by (eapply Permutation_in; [apply Permutation_sym; exact Hp2|exact Hx1]).
      apply Hall2 in Hx3 as [Hx3|Hx3]; [contradiction|exact Hx3].
    + rewrite t_applied_set_lists. now apply Hrest.
Qed.

(* ---------------------------------------------------------------- new / uncommit / update *)

Lemma wf_txn_add : forall t n o a u h,
  wf_txn t -> names_ok (n :: t_all t) -> is_patch_commit (t_objs t) o ->
  Permutation (a ++ u ++ h) (n :: t_all t) ->
  wf_txn (set_updated (set_lists t a u h) (up_set (t_updated t) n (Some o))).
Proof.
  intros t n o a u h W Hn Ho Hp. apply (wf_txn_change t); try reflexivity; try exact W.
  - change (t_all (set_updated (set_lists t a u h) (up_set (t_updated t) n (Some o)))) with (a ++ u ++ h).
    eapply names_ok_perm; eassumption.
  - intros m.
    change (t_all (set_updated (set_lists t a u h) (up_set (t_updated t) n (Some o)))) with (a ++ u ++ h).
    change (t_patch (set_updated (set_lists t a u h) (up_set (t_updated t) n (Some o))) m)
      with (t_patch (set_updated t (up_set (t_updated t) n (Some o))) m).
    rewrite t_patch_up_set.
    assert (Hi : In m (a ++ u ++ h) <-> m = n \/ In m (t_all t)).
    { split; intros Hx.
      - apply (Permutation_in _ Hp) in Hx as [<-|Hx]; auto.
      - apply (Permutation_in _ (Permutation_sym Hp)). destruct Hx as [->|Hx]; [now left|now right]. }
    rewrite Hi. destruct (name_eqb_spec n m) as [<-|Hm].
    + split; [discriminate|auto].
    + rewrite <- (wt_dom t W). split; [intros [->|Hx]; [congruence|exact Hx]|auto].
  - intros m o'.
    change (t_patch (set_updated (set_lists t a u h) (up_set (t_updated t) n (Some o))) m)
      with (t_patch (set_updated t (up_set (t_updated t) n (Some o))) m).
    rewrite t_patch_up_set. destruct (name_eqb n m).
    + intros E. injection E as <-. exact Ho.
    + apply W.
Qed.

Lemma new_applied_wf : forall n o t,
  wf_txn t -> names_ok (n :: t_all t) -> is_patch_commit (t_objs t) o -> good (new_applied n o t).
Proof.
  intros n o t W Hn Ho. unfold new_applied.
  destruct (first_parent (t_objs t) o); [|exact I]. destruct (t_top t); [|exact I].
  destruct (Nat.eqb _ _); [|exact I]. cbn [good res_sat]. apply wf_txn_add; auto.
  unfold t_all. rewrite <- app_assoc. cbn. apply Permutation_sym. apply Permutation_middle.
Qed.

Lemma names_ok_tail : forall n l, names_ok (n :: l) -> names_ok l.
Proof.
  intros n l H. apply (names_ok_sub _ _ H).
  - destruct H as [H _]. now inversion H.
  - intros x Hx. now right.
Qed.

Lemma uncommit_gen : forall ps t a u h,
  wf_txn t -> names_ok (map fst ps ++ t_all t) ->
  (forall p, In p ps -> is_patch_commit (t_objs t) (snd p)) ->
  Permutation (a ++ u ++ h) (map fst ps ++ t_all t) ->
  wf_txn (set_updated (set_lists t a u h) (set_all ps (t_updated t))).
Proof.
  induction ps as [|[n o] ps IH]; intros t a u h W Hn Ho Hp.
  - cbn in *. apply (wf_txn_relist t); try reflexivity; auto.
  - cbn [map fst] in Hn, Hp.
    assert (Hn1 : names_ok (n :: t_all t)).
    { apply (names_ok_sub _ _ Hn).
      - destruct Hn as [Hd _]. cbn in Hd. inversion Hd as [|? ? Hx Hd']; subst.
        apply NoDup_app_iff in Hd' as [_ [Hd' _]]. constructor; [|exact Hd'].
        intros Hi. apply Hx. apply in_or_app. now right.
      - intros x [<-|Hx]; [now left|]. right. apply in_or_app. now right. }
    set (t1 := set_updated (set_lists t (n :: t_applied t) (t_unapplied t) (t_hidden t))
                           (up_set (t_updated t) n (Some o))).
    assert (W1 : wf_txn t1).
    { apply wf_txn_add; [exact W|exact Hn1|apply (Ho (n, o)); now left|reflexivity]. }
    change (wf_txn (set_updated (set_lists t1 a u h) (set_all ps (t_updated t1)))).
    apply IH; auto.
    + change (t_all t1) with (n :: t_all t). eapply names_ok_perm; [|exact Hn].
      apply Permutation_sym. apply Permutation_middle.
    + intros p Hi. apply (Ho p). now right.
    + change (t_all t1) with (n :: t_all t). eapply Permutation_trans; [exact Hp|]. apply Permutation_middle.
Qed.

Lemma uncommit_wf : forall ps t,
  wf_txn t -> names_ok (map fst ps ++ t_all t) ->
  (forall p, In p ps -> is_patch_commit (t_objs t) (snd p)) ->
  good (uncommit_patches ps t).
Proof.
  intros ps t W Hn Ho. unfold uncommit_patches. cbn [good res_sat].
  change (fold_left (fun u p => up_set u (fst p) (Some (snd p))) ps (t_updated t)) with (set_all ps (t_updated t)).
  assert (H := uncommit_gen ps t (map fst ps ++ t_applied t) (t_unapplied t) (t_hidden t) W Hn Ho).
  apply H. unfold t_all. now rewrite <- app_assoc.
Qed.

Lemma update_patch_wf : forall n o t,
  wf_txn t -> is_patch_commit (t_objs t) o -> good (update_patch n o t).
Proof.
  intros n o t W Ho. unfold update_patch. destruct (t_patch t n) eqn:E; [|exact I].
  cbn [good res_sat]. apply wf_txn_update; auto. apply (wt_dom t W). congruence.
Qed.

Lemma is_perm_of_perm : forall new old, is_perm_of new old = true -> Permutation new old.
Proof.
  induction new as [|n new IH]; intros old H; cbn in H.
  - destruct old; [constructor|discriminate].
  - apply andb_true_iff in H as [H1 H2]. apply mem_In in H1. apply IH in H2.
    eapply Permutation_trans; [apply perm_skip; exact H2|]. now apply remove_first_perm.
Qed.

Lemma repair_appliedness_wf : forall a u h t, wf_txn t -> good (repair_appliedness a u h t).
Proof.
  intros a u h t W. unfold repair_appliedness. destruct (is_perm_of _ _) eqn:E; [|exact I].
  cbn [good res_sat]. apply wf_txn_lists; [exact W|]. now apply is_perm_of_perm.
Qed.

(* ---------------------------------------------------------------- rename *)

Lemma replace_first_perm : forall old new l,
  In old l -> Permutation (old :: replace_first old new l) (new :: l).
Proof.
  intros old new. induction l as [|x l IH]; intros H; [destruct H|]. cbn.
  destruct (name_eqb_spec x old) as [->|Hx]; [apply perm_swap|].
  destruct H as [->|H]; [congruence|].
  eapply Permutation_trans; [apply perm_swap|]. eapply Permutation_trans; [apply perm_skip, IH, H|].
  apply perm_swap.
Qed.

Lemma rename_wf : forall old new t,
  wf_txn t -> validate new = true -> ~ In new (t_all t) ->
  (forall m, In m (t_all t) -> collides new m = true -> m = old) ->
  good (rename_patch old new t).
Proof.
  intros old new t W Hv Hnew Hcol. unfold rename_patch.
  destruct (name_eqb_spec new old) as [->|Hno]; [exact W|].
  match goal with |- good (if ?b then _ else _) => destruct b end; [apply W|].
  match goal with |- good (if ?b then _ else _) => destruct b end; [apply W|].
  set (lists := if mem old (t_applied t) then _ else _).
  assert (Hl : match lists with
               | Some (a, u, h) => Permutation (old :: a ++ u ++ h) (new :: t_all t) /\ In old (t_all t)
               | None => True end).
  { unfold lists. destruct (mem old (t_applied t)) eqn:E1; [|destruct (mem old (t_unapplied t)) eqn:E2;
      [|destruct (mem old (t_hidden t)) eqn:E3; [|exact I]]].
    - apply mem_In in E1. split; [|apply in_all_cases; auto]. unfold t_all.
      rewrite !app_comm_cons. apply Permutation_app_tail. now apply replace_first_perm.
    - apply mem_In in E2. split; [|apply in_all_cases; auto]. unfold t_all.
      eapply Permutation_trans; [apply Permutation_middle|].
      eapply Permutation_trans; [|apply Permutation_sym, Permutation_middle].
      apply Permutation_app_head. rewrite !app_comm_cons. apply Permutation_app_tail.
      now apply replace_first_perm.
    - apply mem_In in E3. split; [|apply in_all_cases; auto]. unfold t_all. rewrite !app_assoc.
      eapply Permutation_trans; [apply Permutation_middle|].
      eapply Permutation_trans; [|apply Permutation_sym, Permutation_middle].
      apply Permutation_app_head. now apply replace_first_perm. }
  destruct lists as [[[a u] h]|]; [|exact I]. destruct Hl as [Hp Hold].
  assert (Hpo : exists o0, t_patch t old = Some o0).
  { apply (wt_dom t W) in Hold. destruct (t_patch t old); [eauto|congruence]. }
  destruct Hpo as [o0 Eo0].
  assert (Eps : match up_get (t_updated t) old with
                | Some (Some o) => Some o
                | _ => pm_get (s_patches (t_stack t)) old end = Some o0).
  { unfold t_patch in Eo0. destruct (up_get (t_updated t) old) as [[o|]|]; [exact Eo0|discriminate|exact Eo0]. }
  rewrite Eps. cbn [good res_sat].
  set (L := a ++ u ++ h) in *.
  assert (HdL : NoDup (old :: L)).
  { apply (Permutation_NoDup (Permutation_sym Hp)). constructor; [exact Hnew|apply W]. }
  inversion HdL as [|? ? HoL HdL']; subst.
  assert (HinL : forall m, In m L <-> m = new \/ (In m (t_all t) /\ m <> old)).
  { intros m. split.
    - intros Hm. assert (Hm' : In m (old :: L)) by now right.
      apply (Permutation_in _ Hp) in Hm' as [<-|Hm']; [now left|]. right. split; [exact Hm'|].
      intros ->. contradiction.
    - intros [->|[Hm Hmo]].
      + assert (Hx : In new (old :: L)) by (apply (Permutation_in _ (Permutation_sym Hp)); now left).
        destruct Hx as [Hx|Hx]; [congruence|exact Hx].
      + assert (Hx : In m (old :: L)) by (apply (Permutation_in _ (Permutation_sym Hp)); now right).
        destruct Hx as [Hx|Hx]; [congruence|exact Hx]. }
  pose proof (wt_names t W) as [_ [Hval Hc]]. rewrite Forall_forall in Hval.
  apply (wf_txn_change t); try reflexivity; try exact W.
  - change (t_all (set_updated (set_lists t a u h) _)) with L. split; [exact HdL'|]. split.
    + apply Forall_forall. intros m Hm. apply HinL in Hm as [->|[Hm _]]; auto.
    + intros x y Hx Hy Exy. apply HinL in Hx, Hy.
      destruct Hx as [->|[Hx Hxo]], Hy as [->|[Hy Hyo]]; auto.
      * exfalso. apply Hyo. now apply Hcol.
      * exfalso. apply Hxo. apply Hcol; [exact Hx|]. now rewrite collides_sym.
  - intros m. change (t_all (set_updated (set_lists t a u h) _)) with L.
    rewrite t_patch_upd, !up_get_set. rewrite HinL.
    destruct (name_eqb_spec new m) as [<-|Hnm]; [split; [discriminate|auto]|].
    destruct (name_eqb_spec old m) as [<-|Hom].
    + split; [intros [E|[_ E]]; congruence|congruence].
    + change (match up_get (t_updated t) m with Some v => v | None => pm_get (s_patches (t_stack (set_lists t a u h))) m end)
        with (t_patch t m). rewrite <- (wt_dom t W).
      split; [intros [E|[Hm _]]; [congruence|exact Hm]|]. intros Hm. right. split; [exact Hm|congruence].
  - intros m o'. rewrite t_patch_upd, !up_get_set.
    destruct (name_eqb new m).
    + intros E. injection E as <-. now apply (wt_patch t W old).
    + destruct (name_eqb old m); [discriminate|]. apply (wt_patch t W m).
Qed.

(* ---------------------------------------------------------------- reset_to_state *)

Lemma first_parent_plain : forall objs o b,
  plain_closed objs -> is_plain objs o -> first_parent objs o = Some b -> is_plain objs b.
Proof.
  intros objs o b Hc Ho Hb. apply (Hc o b Ho). unfold first_parent in Hb. now apply hd_error_In.
Qed.

Lemma reset_wf : forall s t, wf_txn t -> wf_state (t_objs t) s -> good (reset_to_state s t).
Proof.
  intros s t W Hs. unfold reset_to_state.
  destruct Hs as [Hsn [Hsk [Hsd [Hsp Hsh]]]].
  match goal with |- good (match ?nb with Some _ => _ | None => _ end) =>
    assert (Hb : forall b, nb = Some b -> is_plain (t_objs t) b); [|destruct nb as [b|]; [|apply W]] end.
  { intros b E. destruct (s_applied s) as [|n l].
    - injection E as <-. exact Hsh.
    - destruct (pm_get (s_patches s) n) as [o|] eqn:Eo; [|discriminate].
      apply Hsp in Eo as [Ho _]. eapply first_parent_plain; [apply W|exact Ho|exact E]. }
  specialize (Hb b eq_refl). cbn [good res_sat].
  set (u1 := fold_left _ (s_patches s) _).
  assert (Ep : forall n, t_patch (set_updated t u1) n = pm_get (s_patches s) n).
  { intros n. rewrite t_patch_upd. unfold u1.
    change (fold_left (fun u p => up_set u (fst p) (Some (snd p))) (s_patches s)
              (mark_deleted (t_updated t) (t_all t)))
      with (set_all (s_patches s) (mark_deleted (t_updated t) (t_all t))).
    rewrite up_get_set_all. destruct (pm_get (rev (s_patches s)) n) as [o|] eqn:E.
    - apply pm_get_rev_In in E. symmetry. now apply In_pm_get.
    - apply pm_get_rev_None in E. apply pm_get_None in E. rewrite E.
      rewrite up_get_mark_deleted. destruct (mem n (t_all t)) eqn:Em; [reflexivity|].
      apply mem_false in Em. rewrite (wt_dom t W) in Em.
      change (match up_get (t_updated t) n with Some v => v | None => pm_get (s_patches (t_stack t)) n end)
        with (t_patch t n). destruct (t_patch t n); [exfalso; apply Em; discriminate|reflexivity]. }
  constructor.
  - apply W.
  - apply W.
  - exact Hsn.
  - intros n. change (t_patch _ n) with (t_patch (set_updated t u1) n). rewrite Ep. apply Hsd.
  - intros n o. change (t_patch _ n) with (t_patch (set_updated t u1) n). rewrite Ep. apply Hsp.
  - exact Hb.
  - intros h E. injection E as <-. exact Hsh.
Qed.

(* ---------------------------------------------------------------- begin / execute *)

Definition op_ok (op : opened) : Prop :=
  Inv (op_world op)
  /\ wf_state (w_objs (op_world op)) (op_state op)
  /\ is_plain (w_objs (op_world op)) (op_base op).

Lemma begin_wf : forall op o, op_ok op -> wf_txn (begin_txn op o).
Proof.
  intros op o [Hi [Hs Hb]]. apply Inv_iff in Hi as [Hok _].
  pose proof Hs as [Hsn [Hsk [Hsd [Hsp Hsh]]]].
  constructor; cbn; auto. discriminate.
Qed.

Lemma Inv_mk : forall objs br st p wt um b a,
  Inv' objs br st -> Inv (mkWorld objs br st p wt um b a).
Proof. intros. apply Inv_iff. assumption. Qed.

Lemma exec_w0_inv : forall w t,
  Inv w -> store_ok (t_objs t) -> store_extends (w_objs w) (t_objs t) -> Inv (exec_w0 w t).
Proof.
  intros w t Hi Hok He. apply Inv_iff in Hi. apply Inv_mk. eapply Inv'_ext; eauto.
Qed.

Lemma exec_logged_inv : forall w t w1 st1,
  Inv w -> wf_txn t -> store_extends (w_objs w) (t_objs t) ->
  exec_logged w t = Some (w1, st1) ->
  Inv w1 /\ store_extends (t_objs t) (w_objs w1) /\ s_patches st1 = s_patches (t_stack t)
  /\ NoDup (map fst (s_patches st1)).
Proof.
  intros w t w1 st1 Hi W He E. unfold exec_logged in E.
  pose proof (exec_w0_inv w t Hi (wt_store t W) He) as Hi0.
  pose proof (wt_stack t W) as [Hsn [Hsk [Hsd [Hsp Hsh]]]].
  destruct (Nat.eqb _ _).
  - injection E as <- <-. split; [exact Hi0|]. split; [apply store_extends_refl|]. split; [reflexivity|exact Hsk].
  - unfold log_external_mods in E. destruct (w_stack (exec_w0 w t)) as [so|] eqn:Es; [|discriminate].
    destruct (state_commit _ _ _) as [[objs' so']|] eqn:Ec; [|discriminate].
    injection E as <- <-. apply Inv_iff in Hi0 as [Hok [Hbr Hst]]. cbn in Hok, Hbr, Ec.
    apply state_commit_ok in Ec as [Hok' [He' Hs']]; [| exact Hok |].
    + split; [|split; [exact He'|split; [reflexivity|exact Hsk]]]. apply Inv_mk. split; [exact Hok'|]. split.
      * eapply is_plain_ext; eauto.
      * eauto.
    + split; [exact Hsn|]. split; [exact Hsk|]. split; [exact Hsd|]. split; [exact Hsp|exact Hbr].
Qed.

Lemma exec_body_inv : forall w t halted msg,
  Inv w -> wf_txn t -> store_extends (w_objs w) (t_objs t) ->
  Inv (fst (exec_body w t halted msg)).
Proof.
  intros w t halted msg Hi W He. unfold exec_body.
  destruct (negb _); [exact Hi|].
  destruct (wf_head_oid t W) as [th [-> Hth]].
  destruct (exec_logged w t) as [[w1 st1]|] eqn:El.
  - destruct (exec_logged_inv w t w1 st1 Hi W He El) as [Hi1 [He1 [Ep1 Hk1]]].
    destruct (exec_co t th w1 st1) as [[wt' um']|[[wt' um'] x]].
    + unfold exec_fin. destruct (w_stack w1) as [prev|] eqn:Es; [|exact Hi1].
      destruct (state_commit _ _ _) as [[objs' so]|] eqn:Ec; [|exact Hi1].
      apply Inv_iff in Hi1 as [Hok1 [Hbr1 _]].
      apply state_commit_ok in Ec as [Hok' [He' Hs']]; [|exact Hok1|].
      * assert (Hfin : forall x, Inv (mkWorld objs' (if o_set_head (t_opts t) then th else w_branch w1)
                                     (Some so) (exec_prefs (w_prefs w1) (t_updated t)) wt' um' x (w_apc w1))).
        { intros x. apply Inv_mk. split; [exact Hok'|]. split; [|eauto].
          destruct (o_set_head (t_opts t)).
          - eapply is_plain_ext; [exact He'|]. eapply is_plain_ext; eauto.
          - eapply is_plain_ext; eauto. }
        destruct halted; apply Hfin.
      * unfold exec_state. split; [|split; [|split; [|split]]]; cbn.
        -- apply W.
        -- apply NoDup_keys_apply. exact Hk1.
        -- intros n. rewrite pm_get_apply, Ep1. apply (wt_dom t W).
        -- intros n o. rewrite pm_get_apply, Ep1. intros E.
           eapply is_patch_commit_ext; [exact He1|]. now apply (wt_patch t W n).
        -- eapply is_plain_ext; eauto.
    + cbn [fst]. apply Inv_iff in Hi1. now apply Inv_mk.
  - cbn [fst]. apply exec_w0_inv; auto. apply W.
Qed.

Lemma execute_inv : forall w r msg,
  Inv w -> good r ->
  match r with
  | TOk t | THalt t _ | TErr t => store_extends (w_objs w) (t_objs t)
  | TPanic => True
  end ->
  Inv (fst (execute w r msg)).
Proof.
  intros w r msg Hi Hg He. rewrite execute_eq. destruct r as [t|t h|t|]; cbn in Hg.
  - now apply exec_body_inv.
  - now apply exec_body_inv.
  - cbn [fst]. now apply exec_w0_inv.
  - exact Hi.
Qed.

Lemma transact_inv : forall op o f msg,
  op_ok op ->
  (wf_txn (begin_txn op o) -> good (f (begin_txn op o))) ->
  frame (begin_txn op o) (f (begin_txn op o)) ->
  Inv (fst (transact op o f msg)).
Proof.
  intros op o f msg Hop Hg Hf. pose proof (begin_wf op o Hop) as W. specialize (Hg W).
  destruct Hop as [Hi _]. unfold transact. destruct (negb (op_initialized op)).
  - destruct (f (begin_txn op o)); exact Hi.
  - apply execute_inv; [exact Hi|exact Hg|].
    destruct (f (begin_txn op o)); cbn in *; try exact I; apply Hf.
Qed.
