(* C01 proofs: entry point.  The five lemmas used by Properties/C01.v are proved in the files
   below and re-exported here:

     open_mirror, step_mirror          Proofs/MirrorProofs.v
     init_inv, step_inv, run_inv       Proofs/WfCmd.v

   Proofs/WfProj.v    projection lemmas for the record updates of Model/Stack.v
   Proofs/WfBasics.v  names, patch maps, the object store, state commits, frames
   Proofs/WfFrame.v   push_patch / execute split into parts; frames of all operations
   Proofs/WfTxn.v     the transaction invariant wf_txn and its preservation; execute *)
From StgV Require Import Model.StackSpec.
From StgV Require Export Proofs.WfProj Proofs.WfBasics Proofs.WfFrame Proofs.MirrorProofs
  Proofs.WfTxn Proofs.WfCmd.

(* The statements, as pinned by Properties/C01.v (checked here, nothing is defined). *)
Section StatementCheck.
Let chk_init_inv : forall t, Inv (init_world t) := init_inv.
Let chk_step_inv : forall lower_s, LowerOK lower_s ->
  forall w c, in_scope c = true -> Inv w -> Inv (fst (step lower_s w c)) := step_inv.
Let chk_run_inv : forall lower_s, LowerOK lower_s ->
  forall cs w, forallb in_scope cs = true -> Inv w -> Inv (run lower_s w cs) := run_inv.
Let chk_open_mirror : forall p w op, open_stack p w = Some op -> mirror (op_world op) := open_mirror.
Let chk_step_mirror : forall lower_s w c, mirror w -> mirror (fst (step lower_s w c)) := step_mirror.
End StatementCheck.
