(* C14 proofs: entry point.  The seven lemmas used by Properties/C14.v are proved in the
   files below and re-exported here:

     validate_sound               Proofs/ValidateProofs.v
     make_valid, make_bounded     Proofs/MakeProofs.v
     uniquify_spec,
     uniquify_never_out_of_fuel   Proofs/UniquifyProofs.v
     parser_agrees                Proofs/ParserProofs.v
     table_sound                  Proofs/TableProofs.v

   Proofs/CharsProofs.v holds the generic string lemmas (segments, trims, prefixes). *)
From StgV Require Import Model.Chars Model.Name Model.NameSpec.
From StgV Require Export Proofs.CharsProofs Proofs.ValidateProofs Proofs.MakeProofs
  Proofs.UniquifyProofs Proofs.ParserProofs Proofs.TableProofs.

(* The statements, as pinned by Properties/C14.v (checked here, nothing is defined). *)
Section StatementCheck.
Let chk_validate_sound : forall n, validate n = true -> git_component_ok n = true := validate_sound.
Let chk_make_valid : forall lower_s, LowerOK lower_s ->
         forall raw lower limit,
           exists n, make lower_s raw lower limit = Ok n /\ validate n = true := make_valid.
Let chk_make_bounded : forall lower_s, LowerOK lower_s ->
         forall raw lower l n,
           0 < l -> make lower_s raw lower (Some l) = Ok n ->
           utf8_len n <= l \/ l < utf8_len (first_word (make_candidate lower_s raw lower)) := make_bounded.
Let chk_uniquify_spec : forall n allow dis r,
         validate n = true -> uniquify n allow dis = UOk r ->
         validate r = true
         /\ (name_in r allow = true \/ Forall (fun d => collides r d = false) dis) := uniquify_spec.
Let chk_uniquify_never_out_of_fuel : forall n allow dis, uniquify n allow dis <> UFuel := uniquify_never_out_of_fuel.
Let chk_parser_agrees : forall s n, patch_name_p s = POk n [] <-> from_str s = Some n := parser_agrees.
Let chk_table_sound : forall tbl choose,
         check_table tbl = true -> LowerOK (lower_of_table tbl choose) := table_sound.
End StatementCheck.
