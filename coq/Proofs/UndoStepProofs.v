(* C05, whole-command theorems: `stg undo` after an ordinary operation puts the stack back,
   `stg redo` after that brings the operation's result back. *)
From Coq Require Import List ZArith NArith Bool Arith Lia.
From StgV Require Import Model.UndoSpec.
From StgV Require Import Proofs.LogProofs Proofs.ChainBasics Proofs.ChainExec.
From StgV Require Import Proofs.ReachBase Proofs.ReachEvolve Proofs.ReachTxn Proofs.ReachStep
  Proofs.PickBasics.
From StgV Require Import Proofs.ReachFinal.
Import ListNotations.
Local Open Scope nat_scope.

(* ---------------------------------------------------------------- state commits *)

Lemma state_commit_get : forall objs s msg objs' so,
  state_commit objs s msg = Some (objs', so) ->
  store_extends objs objs' /\ length objs <= so
  /\ exists c, get objs' so = Some c /\ c_state c = Some s /\ c_msg c = msg.
Proof.
  intros objs s msg objs' so H.
  destruct (state_commit_strong _ _ _ _ _ H) as [E [Hle _]].
  destruct (state_commit_inv _ _ _ _ _ H) as [prev [sp [objs2 [grouped [_ [_ [E1 E2]]]]]]].
  split; [eapply ext_by_extends; exact E|]. split; [exact Hle|].
  eexists. split; [subst objs' so; apply get_new|]. split; reflexivity.
Qed.

(* ---------------------------------------------------------------- a successful transaction *)

(* what a transaction that ends with status 0 leaves behind, when no external modification
   had to be logged first (the recorded head is the branch) *)
Lemma execute_ok_nolog : forall w t msg w2 so,
  execute w (TOk t) msg = (w2, X0) ->
  s_head (t_stack t) = w_branch w -> w_stack w = Some so ->
  exists th objs' so2 c2,
    t_head_oid t = Some th
    /\ state_commit (t_objs t) (new_state t (t_stack t) so th) msg = Some (objs', so2)
    /\ w_objs w2 = objs' /\ w_stack w2 = Some so2
    /\ w_branch w2 = (if o_set_head (t_opts t) then th else w_branch w)
    /\ store_extends (t_objs t) objs' /\ length (t_objs t) <= so2
    /\ get objs' so2 = Some c2 /\ c_state c2 = Some (new_state t (t_stack t) so th)
    /\ c_msg c2 = msg.
Proof.
  intros w t msg w2 so H Hh Hs.
  apply (execute_spec w (TOk t) msg t w2 X0 (or_introl eq_refl)) in H
    as [[_ Ex]|[[_ [_ Ex]]|[w1 [st1 [Hl Hcases]]]]]; try discriminate.
  unfold logged_of in Hl. rewrite Hh, Nat.eqb_refl in Hl. injection Hl as <- <-.
  destruct Hcases as [[wt [um [_ [Hx|Hx]]]]|[[_ [Hx|Hx]]|Hfin]]; try discriminate.
  destruct Hfin as (th & prev & objs' & so2 & prefs' & wt & um & Hth & Hprev & Hsc & -> & _).
  cbn [world0 w_stack] in Hprev. rewrite Hs in Hprev. injection Hprev as <-.
  cbn [world0 w_objs] in Hsc.
  destruct (state_commit_get _ _ _ _ _ Hsc) as [E [Hle [c2 [G [C M]]]]].
  exists th, objs', so2, c2. cbn [w_objs w_stack w_branch world0].
  repeat split; assumption.
Qed.

Lemma reset_objs : forall st t t', reset_to_state st t = TOk t' ->
  t_objs t' = t_objs t /\ t_opts t' = t_opts t.
Proof.
  intros st t t' H. destruct (reset_ok_inv _ _ _ H) as (b & ->). split; reflexivity.
Qed.

(* ---------------------------------------------------------------- undo / redo, generically *)

Definition state_agrees (a b : sstate) : Prop :=
  s_applied a = s_applied b /\ s_unapplied a = s_unapplied b /\ s_hidden a = s_hidden b
  /\ s_head a = s_head b
  /\ (forall n, pm_get (s_patches a) n = pm_get (s_patches b) n).

Lemma run_undo_like_ok : forall w so st steps tgt hard msg w2,
  w_stack w = Some so -> state_of (w_objs w) so = Some st ->
  w_branch w = s_head st ->
  (forall n, pm_get (s_patches st) n <> None -> In n (all_of st)) ->
  find_undo_state (S (length (w_objs w))) (w_objs w) so steps = Some tgt ->
  NoDup (map fst (s_patches tgt)) ->
  run_undo_like w steps hard msg = (w2, X0) ->
  exists so2 c2 st2,
    w_stack w2 = Some so2 /\ get (w_objs w2) so2 = Some c2 /\ c_state c2 = Some st2
    /\ c_msg c2 = msg /\ s_prev st2 = Some so /\ same_stack st2 tgt
    /\ w_branch w2 = s_head tgt
    /\ store_extends (w_objs w) (w_objs w2) /\ length (w_objs w) <= so2.
Proof.
  intros w so st steps tgt hard msg w2 Hs Hst Hb Hcons Hf Hnd H.
  unfold run_undo_like in H.
  destruct (open_stack PRequire w) as [op0|] eqn:Eop; [|discriminate].
  destruct (open_stack_cases _ _ _ Eop)
    as [(so' & s' & Hso' & Hs' & _ & Hw & Hos & Hoi)|[(objs' & so' & [Hp|Hn] & _)|(Hn & _)]];
    [|discriminate|congruence|congruence].
  rewrite Hs in Hso'. injection Hso' as <-. rewrite Hst in Hs'. injection Hs' as <-.
  unfold log_extmods_first in H. rewrite Hw, Hos in H. cbn [ensure_patch_refs w_branch] in H.
  rewrite <- Hb, Nat.eqb_refl in H.
  unfold transact in H. rewrite Hoi in H. cbn [negb] in H.
  rewrite Hw in H. cbn [ensure_patch_refs w_stack w_apc] in H. rewrite Hs in H.
  set (t0 := begin_txn op0 (opts CDisallow (w_apc w) hard true true true)) in *.
  assert (Eo : t_objs t0 = w_objs w).
  { unfold t0, begin_txn. cbn [t_objs]. rewrite Hw. reflexivity. }
  assert (Est : t_stack t0 = st). { unfold t0, begin_txn. cbn [t_stack]. exact Hos. }
  assert (Eop' : o_set_head (t_opts t0) = true) by reflexivity.
  assert (Hall : t_all t0 = all_of st).
  { unfold t0, begin_txn, t_all, all_of. cbn [t_applied t_unapplied t_hidden]. now rewrite Hos. }
  assert (Hpat : forall n, t_patch t0 n = pm_get (s_patches st) n).
  { intros n. unfold t0, begin_txn, t_patch. cbn [t_updated up_get t_stack]. now rewrite Hos. }
  rewrite Eo, Hf in H.
  destruct (reset_to_state tgt t0) as [t'|t' h|t'|] eqn:Er.
  - (* the transaction succeeded *)
    destruct (reset_lists _ _ _ Er) as (Ra & Ru & Rh & Rhd & _ & Rstk).
    destruct (reset_objs _ _ _ Er) as [Ro Rop].
    destruct (reset_installs_state_consistent tgt t0 t') as (_ & _ & _ & _ & Rp); [|exact Er|].
    { intros n Hn. rewrite Hall. apply Hcons. now rewrite <- Hpat. }
    destruct (execute_ok_nolog _ _ _ _ so H) as
      (th & objs' & so2 & c2 & Hth & Hsc & Eobjs & Estack & Ebr & Eext & Hle & G & C & M).
    { rewrite Rstk, Est. cbn [ensure_patch_refs w_branch]. now symmetry. }
    { exact Hs. }
    unfold t_head_oid in Hth. rewrite Rhd in Hth. injection Hth as <-.
    rewrite Rop, Eop' in Ebr. rewrite Ro, Eo in Eext, Hle.
    exists so2, c2, (new_state t' (t_stack t') so (s_head tgt)).
    rewrite Eobjs.
    split; [exact Estack|]. split; [exact G|]. split; [exact C|]. split; [exact M|].
    split; [reflexivity|]. split; [|split; [exact Ebr|split; [exact Eext|exact Hle]]].
    unfold same_stack, new_state. cbn [s_applied s_unapplied s_hidden s_head s_patches].
    repeat (split; [assumption || reflexivity|]).
    intros n. rewrite pm_get_apply. rewrite <- (Rp n Hnd). reflexivity.
  - apply (execute_spec _ _ _ t' w2 X0) in H; [|right; eexists; reflexivity].
    destruct H as [[_ Ex]|[[_ [_ Ex]]|[w1 [st1 [Hl Hcases]]]]]; try discriminate.
    destruct Hcases as [[wt [um [_ [Hx|Hx]]]]|[[_ [Hx|Hx]]|Hfin]]; try discriminate.
    destruct Hfin as (th & prev & objs' & so2 & prefs' & wt & um & _ & _ & _ & _ & Hx).
    discriminate.
  - cbn [execute] in H. discriminate.
  - cbn [execute] in H. discriminate.
Qed.

(* ---------------------------------------------------------------- what Inv provides *)

Lemma inv_state_cons : forall w so s, Inv w -> state_of (w_objs w) so = Some s ->
  (forall n, pm_get (s_patches s) n <> None -> In n (all_of s))
  /\ NoDup (map fst (s_patches s)).
Proof.
  intros w so s (_ & Hwf & _) Hs. destruct (Hwf so s Hs) as (_ & Hk & Hiff & _).
  split; [|exact Hk]. intros n Hn. now apply Hiff.
Qed.

Lemma find_undo_one : forall objs so c st po pst,
  get objs so = Some c -> c_state c = Some st -> c_msg c = MOp ->
  s_prev st = Some po -> state_of objs po = Some pst ->
  find_undo_state (S (length objs)) objs so 1 = Some pst.
Proof.
  intros objs so c st po pst G C M P Hp.
  cbn [find_undo_state]. rewrite G, C, M, P. cbn [Z.eqb Z.ltb Z.compare].
  assert (Hlt : po < length objs) by (eapply state_of_lt; eauto).
  destruct (length objs) as [|k]; [lia|].
  cbn [find_undo_state]. unfold state_of in Hp.
  destruct (get objs po) as [c'|]; [|discriminate]. rewrite Hp. reflexivity.
Qed.

Lemma find_redo_one : forall objs so2 c2 st2 so st,
  get objs so2 = Some c2 -> c_state c2 = Some st2 -> c_msg c2 = MUndo 1 ->
  s_prev st2 = Some so -> state_of objs so = Some st ->
  find_undo_state (S (length objs)) objs so2 (-1) = Some st.
Proof.
  intros objs so2 c2 st2 so st G C M P Hp.
  cbn [find_undo_state]. rewrite G, C, M, P. cbn [Z.eqb Z.ltb Z.compare Z.add Z.pos_sub].
  assert (Hlt : so < length objs) by (eapply state_of_lt; eauto).
  destruct (length objs) as [|k]; [lia|].
  cbn [find_undo_state]. unfold state_of in Hp.
  destruct (get objs so) as [c'|]; [|discriminate]. rewrite Hp. reflexivity.
Qed.

(* ---------------------------------------------------------------- the pinned theorems *)

Lemma undo_step_full : forall w so st po pst hard w2,
    Inv6 w -> prev_decreasing (w_objs w) ->
    w_stack w = Some so -> state_of (w_objs w) so = Some st ->
    logged_as_op (w_objs w) so ->
    s_prev st = Some po -> state_of (w_objs w) po = Some pst ->
    w_branch w = s_head st ->
    run_undo w 1 hard = (w2, X0) ->
    exists so2 c2 st2,
      w_stack w2 = Some so2 /\ get (w_objs w2) so2 = Some c2 /\ c_state c2 = Some st2
      /\ c_msg c2 = MUndo 1 /\ s_prev st2 = Some so /\ same_stack st2 pst
      /\ w_branch w2 = s_head pst
      /\ store_extends (w_objs w) (w_objs w2) /\ length (w_objs w) <= so2.
Proof.
  intros w so st po pst hard w2 [[I _] _] PD Hs Hst [c [G M]] Hp Hpst Hb H.
  unfold run_undo in H. cbn [Z.ltb Z.compare Pos.compare Pos.compare_cont] in H.
  assert (C : c_state c = Some st). { unfold state_of in Hst. now rewrite G in Hst. }
  destruct (inv_state_cons _ _ _ I Hst) as [Hcons _].
  destruct (inv_state_cons _ _ _ I Hpst) as [_ Hnd].
  apply (run_undo_like_ok w so st 1%Z pst hard (MUndo 1) w2 Hs Hst Hb Hcons); [|exact Hnd|exact H].
  eapply find_undo_one; eassumption.
Qed.

Lemma undo_restores_logged_state :
  forall w so st po pst hard w2,
    Inv6 w -> prev_decreasing (w_objs w) ->
    w_stack w = Some so -> state_of (w_objs w) so = Some st ->
    logged_as_op (w_objs w) so ->
    s_prev st = Some po -> state_of (w_objs w) po = Some pst ->
    w_branch w = s_head st ->
    run_undo w 1 hard = (w2, X0) ->
    at_state w2 pst
    /\ (exists so2 st2, w_stack w2 = Some so2 /\ state_of (w_objs w2) so2 = Some st2 /\ s_prev st2 = Some so).
Proof.
  intros w so st po pst hard w2 I6 PD Hs Hst Hop Hp Hpst Hb H.
  destruct (undo_step_full _ _ _ _ _ _ _ I6 PD Hs Hst Hop Hp Hpst Hb H)
    as (so2 & c2 & st2 & E1 & G & C & M & P & SS & B & _).
  assert (S2 : state_of (w_objs w2) so2 = Some st2). { unfold state_of. now rewrite G. }
  split.
  - exists so2, st2. split; [exact E1|split; [exact S2|split; [exact SS|exact B]]].
  - exists so2, st2. split; [exact E1|split; [exact S2|exact P]].
Qed.

Lemma same_stack_cons : forall a b,
  same_stack a b ->
  (forall n, pm_get (s_patches b) n <> None -> In n (all_of b)) ->
  (forall n, pm_get (s_patches a) n <> None -> In n (all_of a)).
Proof.
  intros a b (Ea & Eu & Eh & _ & Ep) Hb n Hn. unfold all_of. rewrite Ea, Eu, Eh.
  apply Hb. now rewrite <- Ep.
Qed.

Lemma redo_restores_undone_state :
  forall w so st po pst hard hard' w2 w3,
    Inv6 w -> prev_decreasing (w_objs w) ->
    w_stack w = Some so -> state_of (w_objs w) so = Some st ->
    logged_as_op (w_objs w) so ->
    s_prev st = Some po -> state_of (w_objs w) po = Some pst ->
    w_branch w = s_head st ->
    run_undo w 1 hard = (w2, X0) ->
    run_redo w2 1 hard' = (w3, X0) ->
    at_state w3 st.
Proof.
  intros w so st po pst hard hard' w2 w3 I6 PD Hs Hst Hop Hp Hpst Hb H H'.
  destruct (undo_step_full _ _ _ _ _ _ _ I6 PD Hs Hst Hop Hp Hpst Hb H)
    as (so2 & c2 & st2 & E1 & G & C & M & P & SS & B & Ext & _).
  destruct I6 as [[I _] _].
  assert (S2 : state_of (w_objs w2) so2 = Some st2). { unfold state_of. now rewrite G. }
  destruct (inv_state_cons _ _ _ I Hpst) as [Hconsp _].
  destruct (inv_state_cons _ _ _ I Hst) as [_ Hnd].
  pose proof (same_stack_cons _ _ SS Hconsp) as Hcons2.
  assert (B2 : w_branch w2 = s_head st2).
  { destruct SS as (_ & _ & _ & Eh & _). now rewrite Eh. }
  unfold run_redo in H'.
  change ((1 =? 0)%N) with false in H'. cbv iota in H'.
  destruct (isize_max <? 1)%N eqn:Ei; [vm_compute in Ei; discriminate|].
  change (Z.opp (Z.of_N 1)) with (-1)%Z in H'. change (Z.of_N 1) with 1%Z in H'.
  destruct (run_undo_like_ok w2 so2 st2 (-1)%Z st hard' (MRedo 1) w3 E1 S2 B2 Hcons2)
    as (so3 & c3 & st3 & F1 & G3 & C3 & _ & _ & SS3 & B3 & _); [|exact Hnd|exact H'|].
  - eapply find_redo_one; try eassumption. eapply state_of_ext; eassumption.
  - exists so3, st3. split; [exact F1|]. split; [unfold state_of; now rewrite G3|].
    split; [exact SS3|exact B3].
Qed.

(* ================================================================ undo after a command *)

From StgV Require Import Proofs.UndoStepOpts.

(* [NC w w']: no state commit was written.  [CM w w']: at least one was; either exactly one, by
   an ordinary operation that left the branch on the recorded head, or the top entry's prev
   link points to an object the store of [w] does not have *)
Definition NC (w w' : world) : Prop :=
  store_extends (w_objs w) (w_objs w') /\ w_stack w' = w_stack w /\ w_branch w' = w_branch w.

Definition CM (w w' : world) : Prop :=
  store_extends (w_objs w) (w_objs w') /\
  exists so1 c1 st1,
    w_stack w' = Some so1 /\ get (w_objs w') so1 = Some c1 /\ c_state c1 = Some st1
    /\ length (w_objs w) <= so1
    /\ ((s_prev st1 = w_stack w /\ c_msg c1 = MOp /\ w_branch w' = s_head st1)
        \/ (forall p, s_prev st1 = Some p -> length (w_objs w) <= p)).

Definition Q (w w' : world) : Prop := NC w w' \/ CM w w'.

Definition R (w : world) (p : world * exitc) : Prop := snd p = X0 -> Q w (fst p).

Lemma NC_refl : forall w, NC w w.
Proof. intros w. split; [apply store_extends_refl|split; reflexivity]. Qed.

Lemma Q_refl : forall w, Q w w.
Proof. intros w. left. apply NC_refl. Qed.

Lemma NC_NC : forall a b c, NC a b -> NC b c -> NC a c.
Proof.
  intros a b c (E1 & S1 & B1) (E2 & S2 & B2). split; [eapply store_extends_trans; eauto|].
  split; congruence.
Qed.

Lemma NC_CM : forall a b c, NC a b -> CM b c -> CM a c.
Proof.
  intros a b c (E1 & S1 & B1) (E2 & so1 & c1 & st1 & F1 & G & C & Hle & D).
  pose proof (store_extends_len _ _ E1) as L.
  split; [eapply store_extends_trans; eauto|].
  exists so1, c1, st1. split; [exact F1|]. split; [exact G|]. split; [exact C|].
  split; [lia|].
  destruct D as [(P & M & Br)|D].
  - left. split; [congruence|]. split; assumption.
  - right. intros p Hp. specialize (D p Hp). lia.
Qed.

Lemma CM_NC : forall a b c, CM a b -> NC b c -> CM a c.
Proof.
  intros a b c (E1 & so1 & c1 & st1 & F1 & G & C & Hle & D) (E2 & S2 & B2).
  split; [eapply store_extends_trans; eauto|].
  exists so1, c1, st1. split; [congruence|]. split; [eapply get_ext; eauto|]. split; [exact C|].
  split; [exact Hle|].
  destruct D as [(P & M & Br)|D].
  - left. split; [exact P|]. split; [exact M|congruence].
  - right. exact D.
Qed.

(* a second commit on top of any commit *)
Lemma CM_after : forall a b c so,
  store_extends (w_objs a) (w_objs b) -> w_stack b = Some so -> length (w_objs a) <= so ->
  CM b c -> CM a c.
Proof.
  intros a b c so E1 Sb Hso (E2 & so1 & c1 & st1 & F1 & G & C & Hle & D).
  pose proof (store_extends_len _ _ E1) as L.
  split; [eapply store_extends_trans; eauto|].
  exists so1, c1, st1. split; [exact F1|]. split; [exact G|]. split; [exact C|].
  split; [lia|]. right. intros p Hp.
  destruct D as [(P & _)|D].
  - rewrite Sb in P. rewrite P in Hp. injection Hp as <-. exact Hso.
  - specialize (D p Hp). lia.
Qed.

Lemma CM_CM : forall a b c, CM a b -> CM b c -> CM a c.
Proof.
  intros a b c (E1 & so1 & c1 & st1 & F1 & G & C & Hle & D) H2.
  eapply CM_after; eauto.
Qed.

Lemma Q_CM : forall a b c, Q a b -> CM b c -> CM a c.
Proof. intros a b c [H|H] H2; [eapply NC_CM|eapply CM_CM]; eauto. Qed.

Lemma Q_trans : forall a b c, Q a b -> Q b c -> Q a c.
Proof.
  intros a b c H [H2|H2].
  - destruct H as [H|H]; [left; eapply NC_NC|right; eapply CM_NC]; eauto.
  - right. eapply Q_CM; eauto.
Qed.

Lemma Q_same : forall w w1 w2, Q w w1 -> w_objs w2 = w_objs w1 -> w_stack w2 = w_stack w1 ->
  w_branch w2 = w_branch w1 -> Q w w2.
Proof.
  intros w w1 w2 H E1 E2 E3. eapply Q_trans; [exact H|]. left.
  split; [rewrite E1; apply store_extends_refl|split; assumption].
Qed.

Lemma Q_ext : forall w w1 w2, Q w w1 -> plain_extends (w_objs w1) (w_objs w2) ->
  w_stack w2 = w_stack w1 -> w_branch w2 = w_branch w1 -> Q w w2.
Proof.
  intros w w1 w2 H E1 E2 E3. eapply Q_trans; [exact H|]. left.
  split; [eapply ext_by_extends; exact E1|split; assumption].
Qed.

(* ---------------------------------------------------------------- open_stack *)

Lemma open_stack_Q : forall p w op, open_stack p w = Some op -> Q w (op_world op).
Proof.
  intros p w op H.
  destruct (open_stack_cases _ _ _ H)
    as [(so & s & _ & _ & _ & Hw & _)|[(objs' & so & _ & Hsc & Hw & _)|(_ & Hw & _)]]; rewrite Hw.
  - left. split; [apply store_extends_refl|split; reflexivity].
  - right. destruct (state_commit_get _ _ _ _ _ Hsc) as [E [Hle [c [G [C M]]]]].
    split; [exact E|]. exists so, c, (empty_state (w_branch w)).
    cbn [ensure_patch_refs w_objs w_stack w_branch].
    split; [reflexivity|]. split; [exact G|]. split; [exact C|]. split; [exact Hle|].
    right. intros p0 Hp. discriminate.
  - left. split; [apply store_extends_refl|split; reflexivity].
Qed.

Lemma log_external_mods_CM : forall w s w1 s1,
  log_external_mods w s = Some (w1, s1) -> CM w w1.
Proof.
  intros w s w1 s1 H. unfold log_external_mods in H.
  destruct (w_stack w) as [so|] eqn:S; [|discriminate].
  destruct (state_commit _ _ _) as [[objs' so']|] eqn:Hsc; [|discriminate].
  injection H as <- <-.
  destruct (state_commit_get _ _ _ _ _ Hsc) as [E [Hle [c [G [C M]]]]].
  split; [exact E|]. eexists so', c, _. cbn [w_objs w_stack w_branch].
  split; [reflexivity|]. split; [exact G|]. split; [exact C|]. split; [exact Hle|].
  left. cbn [s_prev s_head]. rewrite S. split; [reflexivity|]. split; [exact M|reflexivity].
Qed.

Lemma log_extmods_first_Q : forall op0 op,
  log_extmods_first op0 = Some op -> Q (op_world op0) (op_world op).
Proof.
  intros op0 op H. unfold log_extmods_first in H.
  destruct (Nat.eqb _ _); [injection H as <-; apply Q_refl|].
  destruct (log_external_mods _ _) as [[w' s']|] eqn:L; [|discriminate].
  injection H as <-. right. cbn [op_world]. eapply log_external_mods_CM; exact L.
Qed.

(* ---------------------------------------------------------------- execute / transact *)

Lemma execute_X0_inv : forall w r msg w2,
  execute w r msg = (w2, X0) ->
  exists t w1 st1 th prev objs' so,
    r = TOk t /\ logged_of w t = Some (w1, st1) /\ t_head_oid t = Some th
    /\ w_stack w1 = Some prev
    /\ state_commit (w_objs w1) (new_state t st1 prev th) msg = Some (objs', so)
    /\ w_objs w2 = objs' /\ w_stack w2 = Some so
    /\ w_branch w2 = (if o_set_head (t_opts t) then th else w_branch w1).
Proof.
  intros w r msg w2 H. destruct r as [t|t h|t|].
  - apply (execute_spec w (TOk t) msg t w2 X0 (or_introl eq_refl)) in H
      as [[_ Ex]|[[_ [_ Ex]]|[w1 [st1 [Hl Hcases]]]]]; try discriminate.
    destruct Hcases as [[wt [um [_ [Hx|Hx]]]]|[[_ [Hx|Hx]]|Hfin]]; try discriminate.
    destruct Hfin as (th & prev & objs' & so2 & prefs' & wt & um & Hth & Hprev & Hsc & -> & _).
    exists t, w1, st1, th, prev, objs', so2. cbn [w_objs w_stack w_branch].
    repeat split; assumption.
  - apply (execute_spec _ _ _ t w2 X0) in H; [|right; eexists; reflexivity].
    destruct H as [[_ Ex]|[[_ [_ Ex]]|[w1 [st1 [Hl Hcases]]]]]; try discriminate.
    destruct Hcases as [[wt [um [_ [Hx|Hx]]]]|[[_ [Hx|Hx]]|Hfin]]; try discriminate.
    destruct Hfin as (th & prev & objs' & so2 & prefs' & wt & um & _ & _ & _ & _ & Hx).
    discriminate.
  - cbn [execute] in H. discriminate.
  - cbn [execute] in H. discriminate.
Qed.

Lemma transact_CM : forall op o f w',
  keeps f -> skeeps f ->
  (o_set_head o = true
   \/ forall t th, f (begin_txn op o) = TOk t -> t_head_oid t = Some th -> th = w_branch (op_world op)) ->
  transact op o f MOp = (w', X0) -> CM (op_world op) w'.
Proof.
  intros op o f w' K SK Hh H. unfold transact in H.
  destruct (negb (op_initialized op)).
  { destruct (f (begin_txn op o)); discriminate. }
  destruct (execute_X0_inv _ _ _ _ H)
    as (t & w1 & st1 & th & prev & objs' & so & Er & Hl & Hth & Hprev & Hsc & Eo & Es & Eb).
  set (w := op_world op) in *.
  assert (Ext : plain_extends (w_objs w) (t_objs t)).
  { pose proof (K (w_objs w) (begin_txn op o)) as K0. rewrite Er in K0. apply K0.
    apply ext_by_refl. }
  apply ext_by_extends in Ext.
  assert (Hsh : sh t = o_set_head o).
  { pose proof (SK (o_set_head o) (begin_txn op o) eq_refl) as S0. rewrite Er in S0. exact S0. }
  unfold sh in Hsh. rewrite Hsh in Eb.
  destruct (state_commit_get _ _ _ _ _ Hsc) as [E2 [Hle [c [G [C M]]]]].
  assert (Hbr : w_branch w' = th).
  { destruct Hh as [Hh|Hh].
    - now rewrite Hh in Eb.
    - destruct (o_set_head o); [exact Eb|]. rewrite Eb.
      apply logged_of_spec in Hl as (L1 & _). rewrite L1. symmetry. eapply Hh; eassumption. }
  unfold logged_of in Hl. destruct (Nat.eqb (s_head (t_stack t)) (w_branch w)).
  - injection Hl as <- <-. cbn [world0 w_objs w_stack] in *.
    split; [rewrite Eo; eapply store_extends_trans; eauto|].
    exists so, c, (new_state t (t_stack t) prev th). rewrite Eo.
    split; [exact Es|]. split; [exact G|]. split; [exact C|].
    pose proof (store_extends_len _ _ Ext) as L.
    split; [lia|]. left. cbn [new_state s_prev s_head]. split; [now symmetry|]. split; assumption.
  - pose proof Hl as Hl'. apply log_external_mods_CM in Hl'.
    destruct Hl' as (E1 & so1 & c1 & st1' & F1 & _ & _ & Hle1 & _).
    cbn [world0 w_objs] in E1, Hle1.
    rewrite Hprev in F1. injection F1 as <-.
    pose proof (store_extends_len _ _ Ext) as L.
    pose proof (store_extends_len _ _ E1) as L1.
    split; [rewrite Eo; eapply store_extends_trans; [exact Ext|eapply store_extends_trans; eauto]|].
    exists so, c, (new_state t st1 prev th). rewrite Eo.
    split; [exact Es|]. split; [exact G|]. split; [exact C|].
    split; [lia|]. right. cbn [new_state s_prev]. intros p Hp. injection Hp as <-. lia.
Qed.

Lemma transact_R : forall w op o f,
  Q w (op_world op) -> keeps f -> skeeps f ->
  (o_set_head o = true
   \/ forall t th, f (begin_txn op o) = TOk t -> t_head_oid t = Some th -> th = w_branch (op_world op)) ->
  R w (transact op o f MOp).
Proof.
  intros w op o f Hq K SK Hh HX.
  destruct (transact op o f MOp) as [w' x] eqn:E. cbn [snd fst] in *. subst x.
  right. eapply Q_CM; [exact Hq|]. eapply transact_CM; eauto.
Qed.

From StgV Require Import Proofs.ChainTxn Proofs.ChainStep Proofs.UncommitNames.

(* ---------------------------------------------------------------- the commands *)

Ltac skapply :=
  first [ apply push_patches_skeeps | apply push_tree_list_skeeps | apply reorder_patches_skeeps
        | apply commit_patches_skeeps | apply uncommit_patches_skeeps | apply hide_patches_skeeps
        | apply unhide_patches_skeeps | apply rename_patch_skeeps | apply new_applied_skeeps
        | apply update_patch_skeeps | apply reset_to_state_skeeps
        | apply reset_to_state_partially_skeeps ].

Ltac sksolve :=
  first [ apply delete_push_skeeps
        | let b := fresh "b" in let t := fresh "t" in let E := fresh "E" in
          intros b t E; cbv beta zeta; repeat sbrk;
          first [ exact I | exact E | skapply; exact E ] ].

Lemma R_fail : forall w w' x, x <> X0 -> R w (w', x).
Proof. intros w w' x Hx HX. cbn [snd] in HX. contradiction. Qed.

Lemma R_ok : forall w w', Q w w' -> R w (w', X0).
Proof. intros w w' Hq _. exact Hq. Qed.

Ltac leafR Hq :=
  unfold err2, ok0;
  first [ apply R_fail; discriminate
        | apply R_ok; exact Hq
        | apply R_ok; apply Q_refl
        | apply transact_R; [exact Hq|ksolve|sksolve|left; reflexivity] ].

Ltac open_thenR :=
  cbv zeta;
  lazymatch goal with
  | |- context [open_stack ?p ?w] =>
      let op := fresh "op" in let Hop := fresh "Hop" in let Hq := fresh "Hq" in
      destruct (open_stack p w) as [op|] eqn:Hop;
      [ assert (Hq : Q w (op_world op)) by (eapply open_stack_Q; exact Hop);
        unfold rres_bind; repeat (first [brk|brk2]; cbv beta); leafR Hq
      | repeat first [brk|brk2]; apply R_fail; discriminate ]
  end.

Lemma run_push_R : forall w r n al rv na st mg kp cf, R w (run_push w r n al rv na st mg kp cf).
Proof. intros. unfold run_push. open_thenR. Qed.

Lemma run_pop_R : forall w r n al kp sp, R w (run_pop w r n al kp sp).
Proof. intros. unfold run_pop. open_thenR. Qed.

Lemma run_goto_R : forall w l kp mg cf, R w (run_goto w l kp mg cf).
Proof. intros. unfold run_goto. destruct (parse_locator l); [|apply R_fail; discriminate]. open_thenR. Qed.

Lemma run_float_R : forall w r na kp, R w (run_float w r na kp).
Proof. intros. unfold run_float. destruct (parse_ranges r); [|apply R_fail; discriminate]. open_thenR. Qed.

Lemma run_sink_R : forall w r tg np kp, R w (run_sink w r tg np kp).
Proof. intros. unfold run_sink. open_thenR. Qed.

Lemma run_delete_R : forall w r tp al a u h sp cf, R w (run_delete w r tp al a u h sp cf).
Proof. intros. unfold run_delete. open_thenR. Qed.

Lemma run_hide_R : forall w r, R w (run_hide w r).
Proof. intros. unfold run_hide. open_thenR. Qed.

Lemma run_unhide_R : forall w r, R w (run_unhide w r).
Proof. intros. unfold run_unhide. open_thenR. Qed.

Lemma run_rename_R : forall w o n, R w (run_rename w o n).
Proof. intros. unfold run_rename. open_thenR. Qed.

Lemma run_commit_R : forall w r n al ae, R w (run_commit w r n al ae).
Proof. intros. unfold run_commit. open_thenR. Qed.

Lemma run_clean_R : forall w a u, R w (run_clean w a u).
Proof. intros. unfold run_clean. open_thenR. Qed.

Ltac open_manualR op Hop Hq :=
  lazymatch goal with
  | |- context [open_stack ?p ?w] =>
      destruct (open_stack p w) as [op|] eqn:Hop; [|apply R_fail; discriminate];
      assert (Hq : Q w (op_world op)) by (eapply open_stack_Q; exact Hop);
      cbv zeta
  end.

Ltac failR := apply R_fail; discriminate.

Lemma Q_with_objs_put : forall w w1 c, Q w w1 -> c_state c = None ->
  Q w (with_objs w1 (w_objs w1 ++ [c])).
Proof.
  intros w w1 c Hq Hc. eapply Q_ext; [exact Hq| |reflexivity|reflexivity].
  cbn [with_objs w_objs]. apply ext_by_put. exact Hc.
Qed.

Lemma run_new_R : forall w nm meta msg, R w (run_new w nm meta msg).
Proof.
  intros. unfold run_new. destruct (from_str nm) as [pn|]; [|failR].
  open_manualR op Hop Hq. unfold err2.
  destruct (w_unmerged _); [failR|]. destruct (negb _); [failR|].
  destruct (stack_collides _ _); [failR|].
  unfold put. cbv beta iota zeta.
  apply transact_R; [|ksolve|sksolve|left; reflexivity]. cbn [op_world].
  apply Q_with_objs_put; [exact Hq|reflexivity].
Qed.

Lemma run_spill_R : forall w, R w (run_spill w).
Proof.
  intros. unfold run_spill. open_manualR op Hop Hq. unfold err2.
  destruct (w_unmerged _); [failR|]. destruct (dirty _); [failR|].
  destruct (negb _); [failR|].
  destruct (last_error _) as [pn|]; [|failR].
  destruct (pm_get _ _) as [pc|]; [|failR].
  destruct (first_parent _ _) as [par|]; [|failR].
  unfold put. cbv beta iota zeta.
  apply transact_R; [|ksolve|sksolve|left; reflexivity]. cbn [op_world].
  apply Q_with_objs_put; [exact Hq|reflexivity].
Qed.

Lemma run_reset_R : forall w e r hard, R w (run_reset w e r hard).
Proof.
  intros. unfold run_reset. destruct e as [k|].
  - open_thenR.
  - destruct hard; [|failR]. apply R_ok.
    apply Q_same with (w1 := w); [apply Q_refl|reflexivity|reflexivity|reflexivity].
Qed.

Lemma run_repair_R : forall lower_s w, R w (run_repair lower_s w).
Proof.
  intros. unfold run_repair. open_manualR op Hop Hq.
  destruct (repair_walk _ _ _ _ _ _ _ _) as [[ar pr] x].
  apply transact_R; [exact Hq| | |left; reflexivity].
  - apply (keeps_tbind (repair_appliedness _ _ _)); [apply repair_appliedness_keeps|].
    intros objs t1 E1. cbv zeta.
    apply (fold_tbind_keeps _ (fun c t =>
             match make lower_s (subj_of (t_objs t) c) true (Some 30%N) with
             | Ok nm => match uniquify nm [] (t_all t) with
                        | UOk pn => new_applied pn c t
                        | UFuel => TPanic
                        end
             | _ => TPanic
             end)); [|exact E1].
    intros c objs' t' E'. destruct (make _ _ _ _); try exact I.
    destruct (uniquify _ _ _); [|exact I]. now apply new_applied_keeps.
  - intros b t E. apply sok_tbind; [now apply repair_appliedness_skeeps|].
    intros b1 t1 E1. cbv zeta.
    apply (fold_tbind_skeeps _ (fun c t =>
             match make lower_s (subj_of (t_objs t) c) true (Some 30%N) with
             | Ok nm => match uniquify nm [] (t_all t) with
                        | UOk pn => new_applied pn c t
                        | UFuel => TPanic
                        end
             | _ => TPanic
             end)); [|exact E1].
    intros c b' t' E'. destruct (make _ _ _ _); try exact I.
    destruct (uniquify _ _ _); [|exact I]. now apply new_applied_skeeps.
Qed.

Lemma run_log_clear_R : forall w, R w (run_log_clear w).
Proof.
  intros. unfold run_log_clear. open_manualR op Hop Hq.
  destruct (state_commit _ _ _) as [[objs' so]|] eqn:Hsc; [|failR].
  apply R_ok. right. eapply Q_CM; [exact Hq|].
  destruct (state_commit_get _ _ _ _ _ Hsc) as [E [Hle [c [G [C M]]]]].
  split; [exact E|]. eexists so, c, _. cbn [w_objs w_stack w_branch].
  split; [reflexivity|]. split; [exact G|]. split; [exact C|]. split; [exact Hle|].
  right. cbn [s_prev]. intros p Hp. discriminate.
Qed.

Lemma run_edit_R : forall w l m msg, R w (run_edit w l m msg).
Proof.
  intros. unfold run_edit.
  destruct (match l with Some o => _ | None => _ end) as [loc_l|]; [|failR].
  open_manualR op Hop Hq. unfold err2, ok0.
  destruct (negb _); [failR|].
  unfold rres_bind.
  match goal with |- R _ (match ?r with ROk _ => _ | RErr _ => _ | RPanic => _ end) =>
    destruct r as [pn| |]; [|failR|failR] end.
  destruct (pm_get _ _) as [pc|]; [|failR].
  destruct (get _ _) as [old|]; [|failR].
  destruct (_ && _); [apply R_ok; exact Hq|].
  unfold put. cbv beta iota zeta.
  apply transact_R; [|apply edit_body_keeps|apply edit_body_skeeps|left; reflexivity]. cbn [op_world].
  apply Q_with_objs_put; [exact Hq|reflexivity].
Qed.

Lemma run_refresh_R : forall w p, R w (run_refresh w p).
Proof.
  intros. unfold run_refresh.
  destruct (match p with Some o => _ | None => _ end) as [loc_l|]; [|failR].
  open_manualR op Hop Hq. unfold err2.
  destruct (negb _); [failR|].
  unfold rres_bind.
  match goal with |- R _ (match ?r with ROk _ => _ | RErr _ => _ | RPanic => _ end) =>
    destruct r as [pn| |]; [|failR|failR] end.
  destruct (w_unmerged _); [failR|].
  unfold put. cbv beta iota zeta.
  match goal with
  | |- R _ (match ?T with pair _ _ => _ end) =>
      assert (H1 : R w T);
      [ apply transact_R; [|ksolve|sksolve|left; reflexivity]; cbn [op_world];
        apply Q_with_objs_put; [exact Hq|reflexivity]
      | destruct T as [w2 x] ]
  end.
  destruct x; try (apply R_fail; discriminate).
  specialize (H1 eq_refl). cbn [fst] in H1.
  destruct (open_stack PAllow w2) as [op2|] eqn:Hop2; [|failR].
  apply transact_R; [|apply refresh_absorb_keeps|apply refresh_absorb_skeeps|left; reflexivity].
  eapply Q_trans; [exact H1|]. eapply open_stack_Q; exact Hop2.
Qed.

Lemma R_squash_exit : forall w (p : world * exitc) (b : bool),
  R w p -> R w (let '(w', x) := p in if b then (w', X3) else (w', x)).
Proof. intros w [w' x] b H. destruct b; [apply R_fail; discriminate|exact H]. Qed.

Lemma run_squash_R : forall w r nm meta msg, R w (run_squash w r nm meta msg).
Proof.
  intros. unfold run_squash.
  destruct (parse_ranges r) as [prs|]; [|failR].
  destruct (from_str nm) as [newn|]; [|failR].
  open_manualR op Hop Hq. unfold err2.
  destruct (w_unmerged _); [failR|].
  destruct (negb _); [failR|].
  unfold rres_bind.
  match goal with |- R _ (match ?r with ROk _ => _ | RErr _ => _ | RPanic => _ end) =>
    destruct r as [ps| |]; [|failR|failR] end.
  destruct (_ && _); [failR|].
  destruct (Nat.ltb _ _); [failR|].
  apply R_squash_exit.
  apply transact_R; [exact Hq|apply squash_closure_keeps|apply squash_closure_skeeps|left; reflexivity].
Qed.

Lemma run_pick_R : forall lower_s w src nm na, R w (run_pick lower_s w src nm na).
Proof.
  intros lower_s w src nm na.
  destruct (run_pick_case lower_s w src nm na) as
    [_|_|op Eo|op given o Eo _ _ _ _|op given o pn0 Eo _ _ _ _ _|op given o pn0 pn c par Eo _ _ _ _ _ _ _ _];
    try (apply R_fail; discriminate).
  assert (Hq : Q w (op_world op)) by (eapply open_stack_Q; exact Eo).
  apply transact_R; [|apply pick_body_keeps|apply pick_body_skeeps|left; reflexivity].
  unfold pick_op, pick_commit. cbn [op_world].
  apply Q_with_objs_put; [exact Hq|reflexivity].
Qed.

(* ---- rebase: two transactions with a `git reset --hard` in between ---- *)

Lemma run_rebase_R : forall w tg, R w (run_rebase w tg).
Proof.
  intros. unfold run_rebase. open_manualR op Hop Hq. unfold err2, ok0.
  destruct (resolve_gtarget _ _) as [target|]; [|failR].
  destruct (Nat.eqb _ _); [apply R_ok; exact Hq|].
  destruct (negb _); [failR|].
  destruct (dirty _); [failR|].
  match goal with
  | |- R _ (match ?T with pair _ _ => _ end) => destruct T as [w2 x] eqn:E1
  end.
  destruct x; try (apply R_fail; discriminate).
  apply transact_CM in E1; [| | |left; reflexivity].
  2:{ intros objs t E. cbn [texts].
      destruct (pop_patches _ t) as [t1 inc] eqn:PP. apply objs_pop_patches in PP. cbn [fst]. now rewrite PP. }
  2:{ intros b t E. cbn [sok].
      destruct (pop_patches _ t) as [t1 inc] eqn:PP. apply sh_pop_patches in PP. cbn [fst]. congruence. }
  destruct E1 as (Ext & so1 & c1 & st1 & F1 & _ & _ & Hle & _).
  match goal with |- context [open_stack PRequire ?ww] => set (w3 := ww) end.
  destruct (open_stack PRequire w3) as [op3|] eqn:Hop3; [|failR].
  pose proof (open_stack_Q _ _ _ Hop3) as Hq3.
  destruct (log_extmods_first op3) as [op4|] eqn:Hl; [|failR].
  pose proof (log_extmods_first_Q _ _ Hl) as Hq4.
  destruct (negb _); [failR|].
  intros HX.
  destruct (transact op4 _ _ MOp) as [w4 x4] eqn:E4. cbn [snd fst] in *. subst x4.
  apply transact_CM in E4; [|apply push_patches_keeps|apply push_patches_skeeps|left; reflexivity].
  right. eapply Q_CM; [exact Hq|].
  apply (CM_after (op_world op) w3 w4 so1); [exact Ext|exact F1|exact Hle|].
  eapply Q_CM; [exact Hq3|]. eapply Q_CM; [exact Hq4|exact E4].
Qed.

(* ---- uncommit: the only transaction that does not set the head ---- *)

Lemma walk_down_hd : forall objs o k c cs, walk_down objs o k = Some (c :: cs) -> c = o.
Proof.
  intros objs o k c cs H. destruct k as [|k]; cbn [walk_down] in H; [discriminate|].
  destruct (parents_of objs o) as [|p [|q ps]]; try discriminate.
  destruct (walk_down objs p k); [|discriminate]. now injection H as <- _.
Qed.

Lemma uncommit_head : forall op o pns commits t th,
  stack_base (w_objs (op_world op)) (w_branch (op_world op)) (op_state op) = Some (op_base op) ->
  head_top_ok op = true ->
  walk_down (w_objs (op_world op)) (op_base op) (length commits) = Some commits ->
  length commits = length pns ->
  (forall n, In n pns -> ~ In n (all_of (op_state op))) ->
  uncommit_patches (rev (combine pns commits)) (begin_txn op o) = TOk t ->
  t_head_oid t = Some th -> th = w_branch (op_world op).
Proof.
  intros op o pns commits t th Hb Hht Hw Hlen Hdis Hu Hth.
  unfold uncommit_patches in Hu. injection Hu as <-.
  set (ps := rev (combine pns commits)) in *.
  fold (install ps (t_updated (begin_txn op o))) in Hth.
  assert (E1 : map fst ps = rev pns).
  { unfold ps. rewrite map_rev, ChainStep.combine_map_fst by lia. reflexivity. }
  unfold t_head_oid, t_top in Hth.
  cbn [t_head set_lists set_updated begin_txn t_applied] in Hth.
  rewrite E1 in Hth.
  set (s := op_state op) in *.
  unfold head_top_ok in Hht. fold s in Hht.
  unfold stack_base in Hb.
  destruct (s_applied s) as [|a l] eqn:Ea.
  - (* nothing applied: the base is the branch head *)
    injection Hb as Hb. rewrite app_nil_r, rev_involutive in Hth.
    destruct pns as [|pn1 pns'].
    + cbn [hd_error] in Hth. unfold t_base_oid in Hth. cbn in Hth. congruence.
    + destruct commits as [|c1 cs]; [discriminate|].
      apply walk_down_hd in Hw. cbn [hd_error] in Hth.
      unfold t_patch in Hth. cbn [t_updated set_lists set_updated] in Hth.
      unfold ps in Hth. cbn [combine rev] in Hth.
      unfold install in Hth. rewrite fold_left_app in Hth. cbn [fold_left fst snd] in Hth.
      rewrite up_get_set_same in Hth. congruence.
  - (* the topmost applied patch stays on top, and it is the branch head *)
    assert (Hne : rev (a :: l) <> []).
    { intros E. apply (f_equal (@length name)) in E. rewrite rev_length in E. discriminate. }
    rewrite rev_app_distr in Hth.
    destruct (rev (a :: l)) as [|n r] eqn:Er; [congruence|].
    cbn [app hd_error] in Hth.
    assert (Hin : In n (s_applied s)).
    { rewrite Ea. apply in_rev. rewrite Er. now left. }
    unfold t_patch in Hth. cbn [t_updated set_lists set_updated t_stack begin_txn] in Hth.
    rewrite install_not_key in Hth.
    2:{ rewrite E1. intros Hi. apply in_rev in Hi. apply (Hdis n Hi).
        unfold all_of. apply in_or_app. now left. }
    cbn [up_get] in Hth. fold s in Hth.
    apply Nat.eqb_eq in Hht. unfold s_top, last_error in Hht. rewrite Ea, Er in Hht.
    cbn [hd_error] in Hht. rewrite Hth in Hht. exact Hht.
Qed.

Lemma open_stack_base : forall p w op, open_stack p w = Some op ->
  stack_base (w_objs (op_world op)) (w_branch (op_world op)) (op_state op) = Some (op_base op).
Proof.
  intros p w op H.
  destruct (open_stack_cases _ _ _ H)
    as [(so & s & _ & _ & Hb & Hw & Hs & _)|[(objs' & so & _ & _ & Hw & Hs & Hb & _)|(_ & Hw & Hs & Hb & _)]];
    rewrite Hw, Hs.
  - exact Hb.
  - rewrite Hb. reflexivity.
  - rewrite Hb. reflexivity.
Qed.

Lemma run_uncommit_R : forall lower_s w number names, R w (run_uncommit lower_s w number names).
Proof.
  intros lower_s w number names. unfold run_uncommit.
  match goal with |- R _ (match ?p with Some _ => _ | None => _ end) => destruct p as [pnames|] end;
    [|failR].
  destruct (open_stack PAuto w) as [op|] eqn:Hop; [|failR].
  assert (Hq : Q w (op_world op)) by (eapply open_stack_Q; exact Hop).
  pose proof (open_stack_base _ _ _ Hop) as Hbase.
  cbv zeta. unfold err2.
  set (s := op_state op) in *.
  destruct (head_top_ok op) eqn:Hht; cbn [negb]; [|failR].
  match goal with |- R _ (match ?P with inl r => r | inr l => _ end) =>
    assert (HP : match P with
                 | inl r => R w r
                 | inr (commits, pns) =>
                     walk_down (w_objs (op_world op)) (op_base op) (length commits) = Some commits
                     /\ (forall n, In n pns -> ~ In n (all_of s))
                 end);
    [|destruct P as [r|[commits pns]]; [exact HP|]] end.
  { destruct number as [k|].
    - destruct (walk_down _ _ (N.to_nat k)) as [commits|] eqn:Ew; [|failR].
      pose proof (walk_down_chain _ _ _ _ Ew) as [Hlen _].
      destruct pnames as [|prefix [|? ?]]; [| |failR].
      + destruct (make_patchnames _ _ _ _) as [gen|] eqn:Eg; [|failR].
        apply make_patchnames_nodup in Eg as [_ [Hnd Hdis]]. rewrite Hlen. auto.
      + destruct (forallb _ _); [|failR].
        destruct (check_patchnames s _) eqn:Ecp; [|failR].
        apply check_patchnames_spec in Ecp as [Hnd Hdis].
        rewrite Hlen. auto.
    - destruct pnames as [|pn0 pnames'].
      + destruct (walk_down _ _ 1) as [commits|] eqn:Ew; [|failR].
        pose proof (walk_down_chain _ _ _ _ Ew) as [Hlen _].
        destruct (make_patchnames _ _ _ _) as [gen|] eqn:Eg; [|failR].
        apply make_patchnames_nodup in Eg as [_ [Hnd Hdis]]. rewrite Hlen. auto.
      + destruct (check_patchnames s (pn0 :: pnames')) eqn:Ecp; [|failR]. cbn [negb].
        destruct (walk_down _ _ (length (pn0 :: pnames'))) as [commits|] eqn:Ew; [|failR].
        apply check_patchnames_spec in Ecp as [Hnd Hdis].
        pose proof (walk_down_chain _ _ _ _ Ew) as [Hlen _]. rewrite Hlen. auto. }
  destruct HP as (Hw & Hdis).
  destruct (Nat.eqb (length commits) (length pns)) eqn:El; [|failR]. cbn [negb].
  apply Nat.eqb_eq in El.
  apply transact_R; [exact Hq|apply uncommit_patches_keeps|apply uncommit_patches_skeeps|right].
  intros t th Hu Hth. eapply uncommit_head; eauto.
Qed.

(* ---- every command of the stg command line that logs a plain operation ---- *)

Lemma step_R : forall lower_s w c, logs_plain_op c = true -> R w (step lower_s w c).
Proof.
  intros lower_s w c Hc. destruct c; try discriminate Hc; cbn [step].
  - destruct (open_stack PMust w) as [op|] eqn:Hop; [|failR].
    apply R_ok. eapply open_stack_Q; exact Hop.
  - apply run_new_R.
  - apply run_refresh_R.
  - apply run_push_R.
  - apply run_pop_R.
  - apply run_goto_R.
  - apply run_float_R.
  - apply run_sink_R.
  - apply run_delete_R.
  - apply run_hide_R.
  - apply run_unhide_R.
  - apply run_rename_R.
  - apply run_commit_R.
  - apply run_uncommit_R.
  - apply run_clean_R.
  - apply run_spill_R.
  - apply run_reset_R.
  - apply run_repair_R.
  - apply run_log_clear_R.
  - apply run_edit_R.
  - apply run_rebase_R.
  - apply run_squash_R.
  - apply run_pick_R.
  - destruct (open_stack PAllow w) as [op|] eqn:Hop; [|failR].
    apply R_ok. eapply open_stack_Q; exact Hop.
Qed.

(* a successful command that recorded exactly one entry on top of the old log: the entry is an
   ordinary operation and the branch is on the recorded head *)
Lemma step_one_entry : forall lower_s w c w1 so0 st0 so1 st1,
  prev_decreasing (w_objs w) -> logs_plain_op c = true ->
  w_stack w = Some so0 -> state_of (w_objs w) so0 = Some st0 ->
  step lower_s w c = (w1, X0) ->
  w_stack w1 = Some so1 -> state_of (w_objs w1) so1 = Some st1 ->
  s_prev st1 = Some so0 ->
  logged_as_op (w_objs w1) so1 /\ w_branch w1 = s_head st1.
Proof.
  intros lower_s w c w1 so0 st0 so1 st1 PD Hc Hs0 Hst0 Hstep Hs1 Hst1 Hp.
  pose proof (step_R lower_s w c Hc) as HR. rewrite Hstep in HR. specialize (HR eq_refl).
  cbn [fst] in HR.
  pose proof (state_of_lt _ _ _ Hst0) as Hlt.
  destruct HR as [(E & S & B)|(E & so1' & c1 & st1' & F1 & G & C & Hle & D)].
  - exfalso. rewrite S, Hs0 in Hs1. injection Hs1 as <-.
    rewrite (state_of_ext_lt _ _ _ E Hlt), Hst0 in Hst1. injection Hst1 as <-.
    pose proof (PD _ _ _ Hst0 Hp). lia.
  - rewrite Hs1 in F1. injection F1 as <-.
    unfold state_of in Hst1. rewrite G, C in Hst1. injection Hst1 as <-.
    destruct D as [(P & M & Br)|D].
    + split; [exists c1; split; assumption|exact Br].
    + exfalso. specialize (D _ Hp). lia.
Qed.

Lemma undo_undoes_step :
  forall lower_s, LowerOK lower_s ->
  forall w c w1 so0 st0 so1 st1 hard w2,
    Inv6 w -> prev_decreasing (w_objs w) ->
    in_scope c = true -> logs_plain_op c = true ->
    w_stack w = Some so0 -> state_of (w_objs w) so0 = Some st0 ->
    step lower_s w c = (w1, X0) ->
    w_stack w1 = Some so1 -> state_of (w_objs w1) so1 = Some st1 ->
    s_prev st1 = Some so0 ->            (* the command recorded exactly one new entry on top of the old log *)
    run_undo w1 1 hard = (w2, X0) ->
    at_state w2 st0.
Proof.
  intros lower_s L w c w1 so0 st0 so1 st1 hard w2 I6 PD SC Hc Hs0 Hst0 Hstep Hs1 Hst1 Hp H.
  destruct (step_one_entry lower_s w c w1 so0 st0 so1 st1 PD Hc Hs0 Hst0 Hstep Hs1 Hst1 Hp)
    as [Hop Hbr].
  pose proof (step_reach lower_s L w c SC I6 PD) as SR. rewrite Hstep in SR. cbn [fst] in SR.
  destruct SR as [I6' PD'].
  assert (Hst0' : state_of (w_objs w1) so0 = Some st0).
  { pose proof (step_ev lower_s w c) as EV. rewrite Hstep in EV. cbn [fst] in EV.
    eapply state_of_ext; [|exact Hst0]. eapply evolve_extends; exact EV. }
  exact (proj1 (undo_restores_logged_state w1 so1 st1 so0 st0 hard w2 I6' PD' Hs1 Hst1 Hop Hp Hst0' Hbr H)).
Qed.

(* ---------------------------------------------------------------- non-vacuity *)

Lemma init_inv6 : forall t, Inv6 (init_world t) /\ prev_decreasing (w_objs (init_world t)).
Proof.
  intros t. split.
  - split; [split; [apply WfCmd.init_inv|apply init_chain]|exact I].
  - intros so s p H. unfold init_world, state_of, get in H. cbn in H.
    destruct so as [|so]; cbn in H; [discriminate|]. destruct so; discriminate.
Qed.

Lemma run_reach : forall lower_s, LowerOK lower_s -> forall cs w,
  forallb in_scope cs = true -> Inv6 w -> prev_decreasing (w_objs w) ->
  Inv6 (run lower_s w cs) /\ prev_decreasing (w_objs (run lower_s w cs)).
Proof.
  intros lower_s L. induction cs as [|c cs IH]; intros w Hs I6 PD; [now split|].
  cbn [forallb] in Hs. apply andb_true_iff in Hs as [Hc Hs].
  unfold run. cbn [fold_left]. fold (run lower_s (fst (step lower_s w c)) cs).
  destruct (step_reach lower_s L w c Hc I6 PD) as [I6' PD']. now apply IH.
Qed.

Definition nv_cmds : list cmd :=
  [CInit; CNew [112;48]%N 1%N [120]%N; GEdit 0 5%N; CRefresh None; CNew [112;49]%N 2%N [121]%N;
   CPop None None false false false].

Definition nv_w : world := run (fun s => s) (init_world [1;1;1;0]%N) nv_cmds.

Example undo_step_nonvacuous : exists w so st po pst w2,
    Inv6 w /\ prev_decreasing (w_objs w) /\
    w_stack w = Some so /\ state_of (w_objs w) so = Some st /\
    logged_as_op (w_objs w) so /\
    s_prev st = Some po /\ state_of (w_objs w) po = Some pst /\
    w_branch w = s_head st /\
    run_undo w 1 false = (w2, X0).
Proof.
  assert (L : LowerOK (fun s => s)) by (intros s H; exact H).
  destruct (init_inv6 [1;1;1;0]%N) as [I0 P0].
  assert (I6PD : Inv6 nv_w /\ prev_decreasing (w_objs nv_w))
    by (unfold nv_w; apply (run_reach _ L); [reflexivity|exact I0|exact P0]).
  destruct I6PD as [I6 PD].
  exists nv_w. do 5 eexists.
  split; [exact I6|]. split; [exact PD|].
  split; [vm_compute; reflexivity|].
  split; [vm_compute; reflexivity|].
  split; [eexists; split; vm_compute; reflexivity|].
  split; [vm_compute; reflexivity|].
  split; [vm_compute; reflexivity|].
  split; [vm_compute; reflexivity|].
  vm_compute; reflexivity.
Qed.
