(* plain_parents_older (the extra hypothesis of repair_consistent_noop_partial) as an invariant:
   a boolean checker with soundness (so the hypothesis is discharged by computation on any
   concrete world), the initial world, the two ways a store grows (one commit whose parents
   exist; a state commit), and the commands covered so far. *)
From Coq Require Import List NArith ZArith Bool Arith Lia.
From StgV Require Import Model.RepairSpec.
From StgV Require Import Proofs.ChainBasics Proofs.ReachBase.
From StgV Require Proofs.UndoStepProofs Proofs.ChainExec Proofs.CommitRoundTrip.
From StgV Require Import Proofs.RepairNoopProofs Proofs.RepairNoopIdem.
Import ListNotations.
Local Open Scope nat_scope.
Local Open Scope list_scope.

(* ---------------------------------------------------------------- a checker *)

Definition plain_b (c : commit) : bool :=
  match c_state c with
  | None => match c_msg c with MGroup => false | _ => true end
  | Some _ => false
  end.

Fixpoint ppo_from (i : nat) (l : store) : bool :=
  match l with
  | [] => true
  | c :: l' =>
      (if plain_b c then match c_parents c with [p] => Nat.ltb p i | _ => true end else true)
      && ppo_from (S i) l'
  end.

Definition ppo_check (objs : store) : bool := ppo_from 0 objs.

Lemma plain_b_true : forall c, c_state c = None -> c_msg c <> MGroup -> plain_b c = true.
Proof. intros c HS M. unfold plain_b. rewrite HS. destruct (c_msg c); try reflexivity. congruence. Qed.

Lemma ppo_from_sound : forall l i, ppo_from i l = true ->
  forall k c p, nth_error l k = Some c -> c_state c = None -> c_msg c <> MGroup ->
                c_parents c = [p] -> p < i + k.
Proof.
  induction l as [|c0 l IH]; intros i H k c p G HS M P; [destruct k; discriminate|].
  cbn [ppo_from] in H. apply andb_true_iff in H. destruct H as [H0 H1].
  destruct k as [|k]; cbn [nth_error] in G.
  - injection G as ->. rewrite (plain_b_true c HS M), P in H0. apply Nat.ltb_lt in H0. lia.
  - pose proof (IH (S i) H1 k c p G HS M P). lia.
Qed.

Lemma ppo_check_sound : forall objs, ppo_check objs = true -> plain_parents_older objs.
Proof.
  intros objs H o p [c [G [HS M]]] Hp. unfold parents_of in Hp. rewrite G in Hp.
  apply (ppo_from_sound objs 0 H o c p G HS M Hp).
Qed.

(* ---------------------------------------------------------------- the initial world *)

Lemma init_plain_parents_older : forall t, plain_parents_older (w_objs (init_world t)).
Proof. intros t. apply ppo_check_sound. reflexivity. Qed.

(* ---------------------------------------------------------------- how a store grows *)

Lemma older_put : forall objs c,
    plain_parents_older objs ->
    (forall p, c_parents c = [p] -> p < length objs) ->
    plain_parents_older (objs ++ [c]).
Proof.
  intros objs c A Hc o p [c' [G [HS M]]] Hp. unfold parents_of in Hp. rewrite G in Hp.
  unfold get in G. destruct (Nat.lt_ge_cases o (length objs)) as [Hlt|Hge].
  - rewrite nth_error_app1 in G by exact Hlt. apply A.
    + exists c'. split; [exact G|]. split; assumption.
    + unfold parents_of, get. rewrite G. exact Hp.
  - rewrite nth_error_app2 in G by exact Hge.
    destruct (o - length objs) as [|k] eqn:E; cbn [nth_error] in G.
    + injection G as ->. specialize (Hc p Hp). lia.
    + destruct k; discriminate.
Qed.

Lemma older_state_commit : forall objs s msg objs' so,
    state_commit objs s msg = Some (objs', so) ->
    plain_parents_older objs -> plain_parents_older objs'.
Proof.
  intros objs s msg objs' so H A. eapply older_ext; [|exact A].
  eapply state_commit_nonplain. exact H.
Qed.

Lemma plain_lt : forall objs o, is_plain objs o -> o < length objs.
Proof. intros objs o [c [G _]]. eapply get_lt. exact G. Qed.

(* ---------------------------------------------------------------- plain git *)

Lemma git_plain_parents_older : forall w c,
    is_stg c = false -> Inv w -> plain_parents_older (w_objs w) ->
    plain_parents_older (w_objs (fst (run_git w c))).
Proof.
  intros w c Hc I A. destruct I as [Hcl [_ [Hb _]]].
  destruct c; try discriminate Hc; cbn [run_git].
  - exact A.
  - cbn. apply older_put; [exact A|]. cbn. intros p E. injection E as <-. apply plain_lt. exact Hb.
  - cbn. apply older_put; [exact A|]. cbn. intros p E.
    pose proof (A _ _ Hb E). pose proof (plain_lt _ _ Hb). lia.
  - match goal with |- context [match ?x with _ => _ end] => destruct x end; exact A.
  - destruct (first_parent (w_objs w) (w_branch w)); [|exact A].
    cbn. apply older_put; [exact A|]. cbn. intros p E. discriminate.
  - exact A.
Qed.

(* ---------------------------------------------------------------- opening a stack *)

Lemma open_stack_older : forall p w op,
    open_stack p w = Some op -> plain_parents_older (w_objs w) ->
    plain_parents_older (w_objs (op_world op)).
Proof.
  intros p w op H A.
  destruct (ChainExec.open_stack_cases _ _ _ H)
    as [(so & s & _ & _ & _ & Hw & _)|[(objs' & so & _ & Hsc & Hw & _)|(_ & Hw & _)]]; rewrite Hw.
  - exact A.
  - cbn [ensure_patch_refs w_objs]. eapply older_state_commit; [exact Hsc|exact A].
  - exact A.
Qed.

(* the commands covered so far: plain git, init, inspection *)
Definition ppo_covered (c : cmd) : bool :=
  match c with
  | GEdit _ _ | GCommit _ _ | GAmend _ _ | GResetHard _ | GMerge _ | GConfigApc _
  | CInit | CInspect => true
  | _ => false
  end.

Lemma step_plain_parents_older_core : forall lower_s w c,
    ppo_covered c = true -> Inv w -> plain_parents_older (w_objs w) ->
    plain_parents_older (w_objs (fst (step lower_s w c))).
Proof.
  intros lower_s w c Hc I A.
  destruct c; try discriminate Hc; cbn [step];
    try (apply git_plain_parents_older; [reflexivity|exact I|exact A]).
  - destruct (open_stack PMust w) as [op|] eqn:E; [|exact A].
    cbn [fst]. eapply open_stack_older; [exact E|exact A].
  - destruct (open_stack PAllow w) as [op|] eqn:E; [|exact A].
    cbn [fst]. eapply open_stack_older; [exact E|exact A].
Qed.

(* a successful repair keeps it (from repair_result_settled) *)
Lemma repair_ok_plain_parents_older : forall lower_s w w1,
    Inv6 w -> Inv w1 -> plain_parents_older (w_objs w) ->
    run_repair lower_s w = (w1, X0) -> plain_parents_older (w_objs w1).
Proof.
  intros lower_s w w1 I6 I1 A H.
  destruct (repair_result_settled lower_s w w1 I6 A I1 H) as [st1 [_ [_ A1]]]. exact A1.
Qed.

(* ---------------------------------------------------------------- on a reachable world, by computation *)

Lemma rn_w_hyps :
  Inv6 rn_w /\ prev_decreasing (w_objs rn_w) /\ plain_parents_older (w_objs rn_w)
  /\ exists st, cur_state rn_w = Some st /\ repair_settled rn_w st.
Proof.
  assert (R : Inv6 rn_w /\ prev_decreasing (w_objs rn_w)).
  { unfold rn_w. apply (UndoStepProofs.run_reach (fun s => s)).
    - exact CommitRoundTrip.rt_lower_ok.
    - reflexivity.
    - apply UndoStepProofs.init_inv6.
    - apply UndoStepProofs.init_inv6. }
  destruct R as [I6 PD]. split; [exact I6|]. split; [exact PD|]. split.
  - apply ppo_check_sound. vm_compute. reflexivity.
  - destruct (cur_state rn_w) as [st|] eqn:Ec; [|vm_compute in Ec; discriminate].
    exists st. split; [reflexivity|]. vm_compute in Ec. injection Ec as <-.
    split; [vm_compute; reflexivity|]. split; [vm_compute; reflexivity|]. intros E. discriminate E.
Qed.
