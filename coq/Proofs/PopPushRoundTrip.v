(* C07 - whole-command composition: `stg pop -n k` followed by `stg push -n k` gives back exactly
   the stack there was: the same commits (every push is a fast-forward: the patch's parent is
   the current top, so nothing is re-created), the same three lists, the same work tree. *)
From Coq Require Import List NArith ZArith Bool Arith Lia.
From StgV Require Import Model.StackSpec Model.LogSpec.
From StgV Require Proofs.ChainBasics Proofs.ReachBase Proofs.CommitRoundTrip.
Import ListNotations.
Local Open Scope nat_scope.
Local Open Scope list_scope.

(* ---------------------------------------------------------------- tactics *)

Ltac psimp :=
  cbn [begin_txn op_world op_state op_base op_initialized ensure_patch_refs
       w_objs w_branch w_stack w_prefs w_wt w_unmerged w_base w_apc
       s_prev s_head s_applied s_unapplied s_hidden s_patches
       opts
       o_conflict_mode o_allow_push_conflicts o_discard_changes o_use_iw o_set_head o_allow_bad_head
       set_lists set_updated set_head set_base set_objs set_tmp set_wt
       t_stack t_stack_base t_branch_head t_opts t_applied t_unapplied t_hidden t_updated
       t_head t_base t_cur_tree t_objs t_tmp_id t_tmp_content t_wt t_wt_unmerged
       andb negb].

Tactic Notation "psimp" "in" hyp(H) :=
  cbn [begin_txn op_world op_state op_base op_initialized ensure_patch_refs
       w_objs w_branch w_stack w_prefs w_wt w_unmerged w_base w_apc
       s_prev s_head s_applied s_unapplied s_hidden s_patches
       opts
       o_conflict_mode o_allow_push_conflicts o_discard_changes o_use_iw o_set_head o_allow_bad_head
       set_lists set_updated set_head set_base set_objs set_tmp set_wt
       t_stack t_stack_base t_branch_head t_opts t_applied t_unapplied t_hidden t_updated
       t_head t_base t_cur_tree t_objs t_tmp_id t_tmp_content t_wt t_wt_unmerged
       andb negb] in H.

(* ---------------------------------------------------------------- lists *)

Lemma match_ne : forall (A B : Type) (l : list A) (x y : B),
    l <> [] -> match l with [] => x | _ :: _ => y end = y.
Proof. intros A B l x y H. destruct l; [contradiction H; reflexivity|reflexivity]. Qed.

Lemma firstn_app_exact : forall (A : Type) (a b : list A) k,
    length a = k -> firstn k (a ++ b) = a.
Proof.
  intros A a b k H. subst k. rewrite firstn_app, firstn_all, Nat.sub_diag.
  cbn [firstn]. apply app_nil_r.
Qed.

Lemma skipn_app_exact : forall (A : Type) (a b : list A), skipn (length a) (a ++ b) = b.
Proof. intros A a b. induction a as [|x a IH]; [reflexivity|exact IH]. Qed.

Lemma cpl_app : forall a b, common_prefix_len (a ++ b) a = length a.
Proof.
  induction a as [|x a IH]; intros b.
  - cbn [app common_prefix_len length]. destruct b; reflexivity.
  - cbn [app common_prefix_len length]. rewrite ChainBasics.name_eqb_refl, IH. reflexivity.
Qed.

Lemma filter_all : forall (f : name -> bool) l, (forall x, In x l -> f x = true) -> filter f l = l.
Proof.
  intros f. induction l as [|x l IH]; intros H; [reflexivity|].
  cbn [filter]. rewrite (H x (or_introl eq_refl)), IH; [reflexivity|].
  intros y Hy. apply H. right. exact Hy.
Qed.

Lemma filter_none : forall (f : name -> bool) l, (forall x, In x l -> f x = false) -> filter f l = [].
Proof.
  intros f. induction l as [|x l IH]; intros H; [reflexivity|].
  cbn [filter]. rewrite (H x (or_introl eq_refl)), IH; [reflexivity|].
  intros y Hy. apply H. right. exact Hy.
Qed.

Lemma filter_split : forall (a b ps : list name),
    NoDup (a ++ b) -> (forall x, In x ps <-> In x b) ->
    filter (fun n => mem n ps) (a ++ b) = b
    /\ filter (fun n => negb (mem n ps)) (a ++ b) = a.
Proof.
  intros a b ps Hnd Hps.
  assert (Ha : forall x, In x a -> mem x ps = false).
  { intros x Hx. apply ChainBasics.mem_false. intro Hp. apply Hps in Hp.
    exact (CommitRoundTrip.nodup_app_disjoint _ a b x Hnd Hp Hx). }
  assert (Hb : forall x, In x b -> mem x ps = true).
  { intros x Hx. apply ChainBasics.mem_In. apply Hps. exact Hx. }
  rewrite !filter_app. split.
  - rewrite (filter_none _ a Ha), (filter_all _ b Hb). reflexivity.
  - rewrite (filter_all _ a), (filter_none _ b).
    + apply app_nil_r.
    + intros x Hx. rewrite (Hb x Hx). reflexivity.
    + intros x Hx. rewrite (Ha x Hx). reflexivity.
Qed.

Lemma position_none : forall f l, (forall x, In x l -> f x = false) -> position f l = None.
Proof.
  intros f. induction l as [|x l IH]; intros H; [reflexivity|].
  cbn [position]. rewrite (H x (or_introl eq_refl)), IH; [reflexivity|].
  intros y Hy. apply H. right. exact Hy.
Qed.

Lemma position_app : forall f a x r,
    (forall y, In y a -> f y = false) -> f x = true -> position f (a ++ x :: r) = Some (length a).
Proof.
  intros f. induction a as [|y a IH]; intros x r Ha Hx.
  - cbn [app position length]. rewrite Hx. reflexivity.
  - cbn [app position length]. rewrite (Ha y (or_introl eq_refl)), IH; [reflexivity| |exact Hx].
    intros z Hz. apply Ha. right. exact Hz.
Qed.

Lemma split_at_first_app : forall f a b,
    (forall x, In x a -> f x = false) -> (forall x, In x b -> f x = true) ->
    split_at_first f (a ++ b) = (a, b).
Proof.
  intros f a b Ha Hb. unfold split_at_first. destruct b as [|x r].
  - rewrite app_nil_r, (position_none f a Ha). reflexivity.
  - rewrite (position_app f a x r Ha (Hb x (or_introl eq_refl))).
    rewrite skipn_app_exact, firstn_app_exact; reflexivity.
Qed.

(* ---------------------------------------------------------------- the work tree *)

Lemma concat_singletons : forall t : tree, concat (map (fun c => [c]) t) = t.
Proof. induction t as [|x t IH]; [reflexivity|]. cbn [map concat app]. rewrite IH. reflexivity. Qed.

Lemma concat_chunks : forall sizes t, concat (chunks sizes t) = t.
Proof.
  induction sizes as [|k sizes IH]; intros t.
  - cbn [chunks]. apply concat_singletons.
  - cbn [chunks]. destruct t as [|x t]; [reflexivity|].
    cbn [concat]. rewrite IH. apply firstn_skipn.
Qed.

Lemma twoway_files_clean_inv : forall hs ms r, twoway_files hs ms hs = Some r -> r = concat ms.
Proof.
  induction hs as [|h hs IH]; intros ms r H.
  - destruct ms; cbn [twoway_files] in H; [|discriminate]. inversion H. reflexivity.
  - destruct ms as [|m ms]; cbn [twoway_files] in H; [discriminate|].
    destruct (twoway_files hs ms hs) as [r'|] eqn:E; [|discriminate].
    rewrite ChainBasics.tree_eqb_refl in H. inversion H. cbn [concat].
    rewrite (IH ms r' E). reflexivity.
Qed.

Lemma twoway_clean_inv : forall cur target r, twoway cur target cur = Some r -> r = target.
Proof.
  intros cur target r H. unfold twoway in H. apply twoway_files_clean_inv in H.
  rewrite concat_chunks in H. exact H.
Qed.

Lemma checkout_clean : forall o st tt cur target wt' um',
    o_discard_changes o = false -> o_conflict_mode o = CDisallow ->
    checkout o st tt cur false cur target = Some (wt', um') ->
    wt' = target /\ um' = false.
Proof.
  intros o st tt cur target wt' um' Hd Hc H. unfold checkout in H. rewrite Hd, Hc in H.
  cbn [negb] in H. rewrite andb_true_r in H.
  destruct (tree_eqb cur target) eqn:E.
  - apply ChainBasics.tree_eqb_eq in E. inversion H. subst. split; reflexivity.
  - destruct (twoway cur target cur) as [r|] eqn:T; [|discriminate].
    apply twoway_clean_inv in T. inversion H. subst. split; reflexivity.
Qed.

(* ---------------------------------------------------------------- patch oids and tops *)

Definition po (P : list (name * oid)) (n : name) : oid :=
  match pm_get P n with Some o => o | None => O end.

Lemma patch_oid_po : forall s n, patch_oid s n = po (s_patches s) n.
Proof. reflexivity. Qed.

Lemma t_patch_noupd : forall t n, t_updated t = [] -> t_patch t n = pm_get (s_patches (t_stack t)) n.
Proof. intros t n H. unfold t_patch. rewrite H. reflexivity. Qed.

(* the top of a transaction whose applied patches are a chain from [base] to [mid] *)
Lemma t_top_chain : forall objs t a base mid,
    t_updated t = [] -> t_applied t = a ->
    (a = [] -> t_base_oid t = base) ->
    chain objs base (map (po (s_patches (t_stack t))) a) mid ->
    (forall n, In n a -> pm_get (s_patches (t_stack t)) n <> None) ->
    t_top t = Some mid.
Proof.
  intros objs t a base mid Hu Ha Hb Hch Hmap. unfold t_top. rewrite Ha.
  destruct a as [|x l _] using rev_ind.
  - cbn [rev hd_error]. cbn [map chain] in Hch. rewrite (Hb eq_refl). congruence.
  - rewrite ChainBasics.hd_error_rev_snoc. rewrite map_app in Hch.
    apply CommitRoundTrip.chain_app_inv in Hch. destruct Hch as [m [_ H2]].
    cbn [map chain] in H2. destruct H2 as [_ Hm].
    rewrite (t_patch_noupd t x Hu).
    assert (Hx : pm_get (s_patches (t_stack t)) x <> None).
    { apply Hmap. apply in_or_app. right. left. reflexivity. }
    unfold po in Hm. destruct (pm_get (s_patches (t_stack t)) x) as [o|]; [congruence|contradiction].
Qed.

(* ---------------------------------------------------------------- pop: reorder to a prefix *)

Lemma pop_reorder : forall t a b u,
    t_applied t = a ++ b -> NoDup (a ++ b) ->
    reorder_patches (Some a) (Some u) None t
    = TOk (set_lists (set_tmp t None []) a u (t_hidden t)).
Proof.
  intros t a b u Happ Hnd. unfold reorder_patches, pop_patches.
  rewrite Happ, cpl_app, skipn_app_exact.
  assert (Ha : forall x, In x a -> mem x b = false).
  { intros x Hx. apply ChainBasics.mem_false. intro Hb.
    exact (CommitRoundTrip.nodup_app_disjoint _ a b x Hnd Hb Hx). }
  assert (Hb : forall x, In x b -> mem x b = true).
  { intros x Hx. apply ChainBasics.mem_In. exact Hx. }
  rewrite (split_at_first_app (fun n => mem n b) a b Ha Hb).
  cbv beta iota zeta.
  rewrite skipn_all. unfold push_patches. cbn [push_list tbind]. psimp.
  assert (E : list_name_eqb a a = true) by (apply ChainBasics.list_name_eqb_eq; reflexivity).
  rewrite E. cbn [tbind]. psimp. reflexivity.
Qed.

(* ---------------------------------------------------------------- push: fast-forward *)

Lemma push_patch_ff : forall n t pc top rest,
    t_patch t n = Some pc -> t_top t = Some top -> parents_of (t_objs t) pc = [top] ->
    t_unapplied t = n :: rest ->
    push_patch n false t = TOk (set_lists t (t_applied t ++ [n]) rest (t_hidden t)).
Proof.
  intros n t pc top rest Hp Ht Hpar Hun. unfold push_patch. rewrite Hp, Ht.
  unfold first_parent. rewrite Hpar. cbn [hd_error]. cbv beta iota zeta.
  rewrite !ChainBasics.tree_eqb_refl. rewrite Nat.eqb_refl. cbn [negb orb].
  unfold move_to_applied. rewrite Hun. cbn [mem existsb remove_first].
  rewrite ChainBasics.name_eqb_refl. cbn [orb]. reflexivity.
Qed.

Lemma push_list_ff : forall objs P ps t base u,
    t_objs t = objs -> s_patches (t_stack t) = P ->
    t_updated t = [] ->
    t_unapplied t = ps ++ u ->
    t_top t = Some base ->
    ChainBasics.chainl objs base (map (po P) ps) ->
    (forall n, In n ps -> pm_get P n <> None) ->
    push_list ps [] t = TOk (set_lists t (t_applied t ++ ps) u (t_hidden t)).
Proof.
  intros objs P. induction ps as [|n ps IH]; intros t base u Ho HP Hu Hun Htop Hch Hmap.
  - cbn [push_list]. rewrite app_nil_r. cbn [app] in Hun. rewrite <- Hun.
    destruct t; reflexivity.
  - cbn [push_list mem existsb]. cbn [map ChainBasics.chainl] in Hch. destruct Hch as [Hpar Hch].
    assert (Hn : pm_get P n <> None) by (apply Hmap; left; reflexivity).
    destruct (pm_get P n) as [pc|] eqn:Epc; [|contradiction Hn; reflexivity].
    assert (Epo : po P n = pc) by (unfold po; rewrite Epc; reflexivity).
    rewrite Epo in Hpar, Hch.
    assert (Hpt : t_patch t n = Some pc) by (rewrite (t_patch_noupd t n Hu), HP; exact Epc).
    rewrite <- Ho in Hpar.
    rewrite (push_patch_ff n t pc base (ps ++ u) Hpt Htop Hpar Hun). cbn [tbind].
    rewrite (IH (set_lists t (t_applied t ++ [n]) (ps ++ u) (t_hidden t)) pc u).
    + psimp. rewrite <- app_assoc. reflexivity.
    + psimp. exact Ho.
    + psimp. exact HP.
    + psimp. exact Hu.
    + psimp. reflexivity.
    + unfold t_top. psimp. rewrite ChainBasics.hd_error_rev_snoc.
      unfold t_patch. psimp. fold (t_patch t n). exact Hpt.
    + exact Hch.
    + intros m Hm. apply Hmap. right. exact Hm.
Qed.

(* ---------------------------------------------------------------- facts about a well-formed state *)

Lemma firstn_rev_in : forall (l : list name) k x,
    k <= length l -> (In x (firstn k (rev l)) <-> In x (skipn (length l - k) l)).
Proof.
  intros l k x Hk. rewrite firstn_rev. rewrite <- in_rev. reflexivity.
Qed.

Lemma skipn_length_exact : forall (A : Type) (l : list A) k,
    k <= length l -> length (skipn (length l - k) l) = k.
Proof. intros A l k H. rewrite skipn_length. lia. Qed.

(* the stack base is the base of the chain of applied patches *)
Lemma stack_base_chain : forall objs br s ob base top,
    stack_base objs br s = Some ob ->
    s_applied s <> [] ->
    (forall n, In n (s_applied s) -> pm_get (s_patches s) n <> None) ->
    chain objs base (map (po (s_patches s)) (s_applied s)) top ->
    ob = base.
Proof.
  intros objs br s ob base top Hb Hne Hmap Hch. unfold stack_base in Hb.
  destruct (s_applied s) as [|n l]; [contradiction Hne; reflexivity|].
  cbn [map chain] in Hch. destruct Hch as [Hp _].
  assert (Hn : pm_get (s_patches s) n <> None) by (apply Hmap; left; reflexivity).
  unfold po in Hp. destruct (pm_get (s_patches s) n) as [o|]; [|contradiction Hn; reflexivity].
  unfold first_parent in Hb. rewrite Hp in Hb. cbn [hd_error] in Hb. congruence.
Qed.

(* ---------------------------------------------------------------- the pop side *)

Definition pop_opts (apc : bool) : topts := opts CDisallow apc false true true false.

Lemma pop_side : forall w st0 k w1 base,
    cur_state w = Some st0 ->
    NoDup (s_applied st0) ->
    (forall n, In n (s_applied st0) -> pm_get (s_patches st0) n <> None) ->
    chain (w_objs w) base (map (po (s_patches st0)) (s_applied st0)) (s_top st0) ->
    1 <= k -> k <= length (s_applied st0) ->
    run_pop w None (Some (Z.of_nat k)) false false false = (w1, X0) ->
    exists prev so1 mid,
      let j := length (s_applied st0) - k in
      chain (w_objs w) base (map (po (s_patches st0)) (firstn j (s_applied st0))) mid
      /\ chain (w_objs w) mid (map (po (s_patches st0)) (skipn j (s_applied st0))) (s_top st0)
      /\ store_extends (w_objs w) (w_objs w1)
      /\ w_stack w1 = Some so1
      /\ state_of (w_objs w1) so1
         = Some (mkState (Some prev) mid (firstn j (s_applied st0))
                         (skipn j (s_applied st0) ++ s_unapplied st0) (s_hidden st0)
                         (s_patches st0))
      /\ w_branch w1 = mid
      /\ s_top st0 = w_branch w
      /\ w_wt w = tree_of (w_objs w) (w_branch w).
Proof.
  intros w st0 k w1 base Hcur Hnd Hmap Hch Hk1 Hk2 H.
  set (A := s_applied st0) in *.
  set (j := length A - k).
  assert (HneA : A <> []).
  { intro E. rewrite E in Hk2. cbn [length] in Hk2. lia. }
  assert (EA : A = firstn j A ++ skipn j A) by (symmetry; apply firstn_skipn).
  assert (Hnd' : NoDup (firstn j A ++ skipn j A)) by (rewrite <- EA; exact Hnd).
  assert (Hps : forall x, In x (firstn k (rev A)) <-> In x (skipn j A)).
  { intro x. apply firstn_rev_in. exact Hk2. }
  destruct (filter_split (firstn j A) (skipn j A) (firstn k (rev A)) Hnd' Hps) as [F1 F2].
  rewrite <- EA in F1, F2.
  (* the chain splits *)
  pose proof Hch as Hch'. rewrite EA, map_app in Hch'.
  apply CommitRoundTrip.chain_app_inv in Hch'. destruct Hch' as [mid [Hc1 Hc2]].
  (* take the command apart *)
  unfold run_pop in H. cbv zeta in H.
  destruct (open_stack PAllow w) as [op|] eqn:Hop; [|discriminate].
  destruct (CommitRoundTrip.open_cur _ _ _ _ Hcur (or_introl eq_refl) Hop) as [Ew [Es [Ei Eb]]].
  destruct op as [ow os ob oi]. cbn [op_world op_state op_initialized op_base] in Ew, Es, Ei, Eb, H.
  subst ow os oi. fold A in H.
  assert (E0 : (Z.of_nat k =? 0)%Z = false) by (apply Z.eqb_neq; lia).
  rewrite E0 in H.
  rewrite (match_ne _ _ A _ _ HneA) in H.
  assert (En : num_to_take (Z.of_nat k) (length A) = Some k).
  { unfold num_to_take. assert (E1 : (0 <=? Z.of_nat k)%Z = true) by (apply Z.leb_le; lia).
    rewrite E1, Nat2Z.id, Nat.min_l by exact Hk2. reflexivity. }
  rewrite En in H.
  destruct (firstn k (rev A)) as [|p ps] eqn:Eps; [discriminate|].
  cbv beta iota in H. rewrite F1, F2 in H.
  destruct (w_unmerged (ensure_patch_refs w st0)) eqn:Eum; [discriminate|].
  destruct (head_top_ok _) eqn:Eht; [|discriminate].
  cbn [negb andb] in H.
  destruct (dirty (ensure_patch_refs w st0)) eqn:Edirty; [discriminate|].
  (* head = top, clean tree *)
  assert (Hbr : s_top st0 = w_branch w).
  { unfold head_top_ok in Eht. psimp in Eht. fold A in Eht.
    rewrite (match_ne _ _ A _ _ HneA) in Eht. apply Nat.eqb_eq in Eht. exact Eht. }
  assert (Hwt : w_wt w = tree_of (w_objs w) (w_branch w)).
  { unfold dirty, head_tree in Edirty. psimp in Edirty.
    apply orb_false_iff in Edirty. destruct Edirty as [Ed _].
    apply negb_false_iff in Ed. apply ChainBasics.tree_eqb_eq in Ed. exact Ed. }
  (* the transaction *)
  unfold transact in H. psimp in H.
  match type of H with
  | execute _ (reorder_patches (Some ?a) (Some ?u) None ?t) _ = _ =>
      rewrite (pop_reorder t a (skipn j A) u EA Hnd') in H
  end.
  destruct (CommitRoundTrip.exec_ok_inv _ _ _ _ H)
    as [th [prev [objsm [so1 [Hth [Hext [Hsc [Hst1 [Hb1 _]]]]]]]]].
  psimp in Hth. psimp in Hext. psimp in Hsc. psimp in Hb1.
  cbn [pm_apply] in Hsc.
  (* the new head is the middle of the chain *)
  assert (Eth : th = mid).
  { unfold t_head_oid in Hth. psimp in Hth.
    match type of Hth with
    | t_top ?t = _ =>
        assert (Ht : t_top t = Some mid)
    end.
    { eapply (t_top_chain (w_objs w) _ (firstn j A) base mid).
      - reflexivity.
      - reflexivity.
      - intros _. unfold t_base_oid. psimp.
        eapply (stack_base_chain (w_objs w) (w_branch w) st0 ob base (s_top st0) Eb HneA Hmap Hch).
      - psimp. exact Hc1.
      - psimp. intros n Hn. apply Hmap. apply (ChainBasics.in_firstn _ j). exact Hn. }
    congruence. }
  rewrite Eth in Hsc, Hb1.
  apply ReachBase.state_commit_strong in Hsc. destruct Hsc as [Hext2 [_ [Hso1 _]]].
  apply ReachBase.ext_by_extends in Hext2.
  exists prev, so1, mid. cbv zeta. fold A. fold j.
  split; [exact Hc1|]. split; [exact Hc2|].
  split; [exact (ReachBase.store_extends_trans _ _ _ Hext Hext2)|].
  split; [exact Hst1|]. split; [exact Hso1|]. split; [exact Hb1|].
  split; [exact Hbr|exact Hwt].
Qed.

(* ---------------------------------------------------------------- the push side *)

Lemma push_side : forall w1 w2 A1 A2 U Hd P prev mid top base k objs0,
    cur_state w1 = Some (mkState (Some prev) mid A1 (A2 ++ U) Hd P) ->
    w_branch w1 = mid ->
    store_extends objs0 (w_objs w1) ->
    (exists c, get objs0 top = Some c) ->
    chain (w_objs w1) base (map (po P) A1) mid ->
    chain (w_objs w1) mid (map (po P) A2) top ->
    (forall n, In n (A1 ++ A2) -> pm_get P n <> None) ->
    1 <= k -> length A2 = k ->
    run_push w1 None (Some (Z.of_nat k)) false false false false false false None = (w2, X0) ->
    (exists prev2 so2,
        w_stack w2 = Some so2
        /\ state_of (w_objs w2) so2 = Some (mkState (Some prev2) top (A1 ++ A2) U Hd P))
    /\ w_branch w2 = top /\ w_wt w2 = tree_of objs0 top /\ w_unmerged w2 = false.
Proof.
  intros w1 w2 A1 A2 U Hd P prev mid top base k objs0 Hcur Hbr Hext0 Htopc Hc1 Hc2 Hmap Hk1 Hlen H.
  assert (HneA2 : A2 <> []).
  { intro E. rewrite E in Hlen. cbn [length] in Hlen. lia. }
  unfold run_push in H. cbv zeta in H.
  destruct (open_stack PAllow w1) as [op|] eqn:Hop; [|discriminate].
  destruct (CommitRoundTrip.open_cur _ _ _ _ Hcur (or_introl eq_refl) Hop) as [Ew [Es [Ei Eb]]].
  destruct op as [ow os ob oi]. cbn [op_world op_state op_initialized op_base] in Ew, Es, Ei, Eb, H.
  subst ow os oi. psimp in H.
  assert (E0 : (Z.of_nat k =? 0)%Z = false) by (apply Z.eqb_neq; lia).
  rewrite E0 in H.
  assert (HneU : A2 ++ U <> []).
  { intro E. apply app_eq_nil in E. destruct E as [E _]. exact (HneA2 E). }
  rewrite (match_ne _ _ (A2 ++ U) _ _ HneU) in H.
  assert (En : num_to_take (Z.of_nat k) (length (A2 ++ U)) = Some k).
  { unfold num_to_take. assert (E1 : (0 <=? Z.of_nat k)%Z = true) by (apply Z.leb_le; lia).
    rewrite E1, Nat2Z.id, Nat.min_l; [reflexivity|]. rewrite app_length. lia. }
  rewrite En, (firstn_app_exact _ A2 U k Hlen) in H.
  destruct A2 as [|a2 A2'] eqn:EA2; [contradiction HneA2; reflexivity|].
  rewrite <- EA2 in *. clear HneA2.
  destruct (w_unmerged w1) eqn:Eum; [discriminate|].
  destruct (head_top_ok _) eqn:Eht; [|discriminate].
  cbn [negb andb] in H.
  destruct (dirty _) eqn:Edirty; [discriminate|].
  assert (Hwt1 : w_wt w1 = tree_of (w_objs w1) (w_branch w1)).
  { unfold dirty, head_tree in Edirty. psimp in Edirty.
    apply orb_false_iff in Edirty. destruct Edirty as [Ed _].
    apply negb_false_iff in Ed. apply ChainBasics.tree_eqb_eq in Ed. exact Ed. }
  unfold transact in H. psimp in H. unfold push_patches in H.
  (* the base of the opened stack *)
  assert (Hbase : A1 = [] -> ob = mid).
  { intro E. unfold stack_base in Eb. psimp in Eb. rewrite E in Eb. congruence. }
  assert (Hbase' : A1 <> [] -> ob = base).
  { intro Hne.
    eapply (stack_base_chain (w_objs w1) (w_branch w1) _ ob base mid Eb).
    - psimp. exact Hne.
    - psimp. intros n Hn. apply Hmap. apply in_or_app. left. exact Hn.
    - psimp. exact Hc1. }
  (* every push is a fast-forward *)
  match type of H with
  | execute _ (push_list _ [] ?t) _ = _ =>
      assert (Ept : push_list A2 [] t = TOk (set_lists t (t_applied t ++ A2) U (t_hidden t)))
  end.
  { eapply (push_list_ff (w_objs w1) P A2 _ mid U).
    - reflexivity.
    - reflexivity.
    - reflexivity.
    - reflexivity.
    - eapply (t_top_chain (w_objs w1) _ A1 base mid).
      + reflexivity.
      + reflexivity.
      + intros E. unfold t_base_oid. psimp. rewrite (Hbase E).
        rewrite E in Hc1. cbn [map chain] in Hc1. exact Hc1.
      + psimp. exact Hc1.
      + psimp. intros n Hn. apply Hmap. apply in_or_app. left. exact Hn.
    - apply ChainBasics.chain_iff in Hc2. destruct Hc2 as [Hc2 _]. exact Hc2.
    - intros n Hn. apply Hmap. apply in_or_app. right. exact Hn. }
  rewrite Ept in H. clear Ept. psimp in H.
  destruct (CommitRoundTrip.exec_ok_inv _ _ _ _ H)
    as [th [prev2 [objsm [so2 [Hth [Hext [Hsc [Hst2 [Hb2 [_ Hco]]]]]]]]]].
  psimp in Hth. psimp in Hext. psimp in Hsc. psimp in Hb2. psimp in Hco.
  cbn [pm_apply] in Hsc. specialize (Hco eq_refl).
  assert (Eth : th = top).
  { unfold t_head_oid in Hth. psimp in Hth.
    match type of Hth with
    | t_top ?t = _ => assert (Ht : t_top t = Some top)
    end.
    { eapply (t_top_chain (w_objs w1) _ (A1 ++ A2) base top).
      - reflexivity.
      - reflexivity.
      - intros E. apply app_eq_nil in E. destruct E as [_ E]. rewrite E in Hlen.
        cbn [length] in Hlen. lia.
      - psimp. rewrite map_app. eapply CommitRoundTrip.chain_app_intro; eassumption.
      - psimp. exact Hmap. }
    congruence. }
  rewrite Eth in Hsc, Hb2, Hco.
  rewrite Eum, Hwt1 in Hco.
  apply checkout_clean in Hco; [|reflexivity|reflexivity]. destruct Hco as [Hwt2 Hum2].
  apply ReachBase.state_commit_strong in Hsc. destruct Hsc as [_ [_ [Hso2 _]]].
  split.
  - exists prev2, so2. split; [exact Hst2|exact Hso2].
  - split; [exact Hb2|]. split; [|exact Hum2].
    rewrite Hwt2. destruct Htopc as [c Hc].
    apply (ChainBasics.tree_of_ext _ _ _ c Hext0 Hc).
Qed.

(* ---------------------------------------------------------------- the round trip *)

Lemma pop_push_roundtrip :
  forall lower_s w st0 k w1 w2,
    Inv6 w ->
    cur_state w = Some st0 ->
    (1 <= k)%nat -> (k <= length (s_applied st0))%nat ->
    step lower_s w (CPop None (Some (Z.of_nat k)) false false false) = (w1, X0) ->
    step lower_s w1 (CPush None (Some (Z.of_nat k)) false false false false false false None) = (w2, X0) ->
    (exists st2, cur_state w2 = Some st2
                 /\ s_applied st2 = s_applied st0 /\ s_unapplied st2 = s_unapplied st0
                 /\ s_hidden st2 = s_hidden st0
                 /\ s_head st2 = w_branch w
                 /\ (forall n, pm_get (s_patches st2) n = pm_get (s_patches st0) n))
    /\ w_branch w2 = w_branch w /\ w_wt w2 = w_wt w /\ w_unmerged w2 = false.
Proof.
  intros lower_s w st0 k w1 w2 I6 Hcur Hk1 Hk2 H1 H2.
  cbn [step] in H1, H2.
  destruct (CommitRoundTrip.cur_state_inv _ _ Hcur) as [so [Hso Hst]].
  destruct I6 as [[[_ [Hwf [Hbrp _]]] Hchain] _].
  specialize (Hwf so st0 Hst). specialize (Hchain so st0 Hst).
  destruct Hwf as [[Hnd _] [_ [Hmap _]]].
  assert (HndA : NoDup (s_applied st0)).
  { unfold all_of in Hnd. apply CommitRoundTrip.nodup_app_l in Hnd. exact Hnd. }
  assert (HmapA : forall n, In n (s_applied st0) -> pm_get (s_patches st0) n <> None).
  { intros n Hn. apply Hmap. unfold all_of. apply in_or_app. left. exact Hn. }
  destruct Hchain as [base Hch]. unfold applied_oids in Hch.
  assert (Hch' : chain (w_objs w) base (map (po (s_patches st0)) (s_applied st0)) (s_top st0))
    by exact Hch.
  destruct (pop_side w st0 k w1 base Hcur HndA HmapA Hch' Hk1 Hk2 H1)
    as [prev [so1 [mid Hpop]]].
  cbv zeta in Hpop.
  destruct Hpop as [Hc1 [Hc2 [Hext [Hst1 [Hso1 [Hb1 [Htop Hwt]]]]]]].
  set (j := length (s_applied st0) - k) in *.
  assert (Hcur1 : cur_state w1 = Some (mkState (Some prev) mid (firstn j (s_applied st0))
                         (skipn j (s_applied st0) ++ s_unapplied st0) (s_hidden st0)
                         (s_patches st0))).
  { unfold cur_state. rewrite Hst1. exact Hso1. }
  assert (Hmap' : forall n, In n (firstn j (s_applied st0) ++ skipn j (s_applied st0)) ->
                            pm_get (s_patches st0) n <> None).
  { rewrite firstn_skipn. exact HmapA. }
  assert (Htopc : exists c, get (w_objs w) (s_top st0) = Some c).
  { rewrite Htop. destruct Hbrp as [c [Hc _]]. exists c. exact Hc. }
  assert (Hlen : length (skipn j (s_applied st0)) = k).
  { unfold j. apply skipn_length_exact. exact Hk2. }
  destruct (push_side w1 w2 _ _ _ _ _ prev mid (s_top st0) base k (w_objs w)
                      Hcur1 Hb1 Hext Htopc
                      (CommitRoundTrip.chain_ext _ _ _ _ _ Hext Hc1)
                      (CommitRoundTrip.chain_ext _ _ _ _ _ Hext Hc2)
                      Hmap' Hk1 Hlen H2)
    as [[prev2 [so2 [Hst2 Hso2]]] [Hb2 [Hwt2 Hum2]]].
  rewrite firstn_skipn in Hso2.
  split.
  - eexists. split; [unfold cur_state; rewrite Hst2; exact Hso2|].
    cbn [s_applied s_unapplied s_hidden s_head s_patches].
    repeat split. exact Htop.
  - rewrite Hb2, Hwt2, Htop, <- Hwt. repeat split. exact Hum2.
Qed.

(* ---------------------------------------------------------------- non-vacuity *)

Definition pp_p0 : str := [112; 48]%N.      (* "p0" *)
Definition pp_p1 : str := [112; 49]%N.      (* "p1" *)
Definition pp_p2 : str := [112; 50]%N.      (* "p2" *)

Definition pp_cmds : list cmd :=
  [CInit; CNew pp_p0 1%N [120%N]; GEdit 0 5%N; CRefresh None;
   CNew pp_p1 2%N [121%N]; GEdit 1 6%N; CRefresh None;
   CNew pp_p2 3%N [122%N]; GEdit 2 7%N; CRefresh None].

Definition pp_world : world := run (fun s => s) (init_world [1; 1; 1; 0]%N) pp_cmds.

Example pop_push_nonvacuous : exists w st0 w1 w2,
    cur_state w = Some st0 /\ length (s_applied st0) = 3
    /\ step (fun s => s) w (CPop None (Some 2%Z) false false false) = (w1, X0)
    /\ step (fun s => s) w1 (CPush None (Some 2%Z) false false false false false false None) = (w2, X0).
Proof.
  exists pp_world.
  exists (match cur_state pp_world with Some s => s | None => empty_state 0 end).
  exists (fst (step (fun s => s) pp_world (CPop None (Some 2%Z) false false false))).
  exists (fst (step (fun s => s)
                    (fst (step (fun s => s) pp_world (CPop None (Some 2%Z) false false false)))
                    (CPush None (Some 2%Z) false false false false false false None))).
  split; [vm_compute; reflexivity|].
  split; [vm_compute; reflexivity|].
  split; vm_compute; reflexivity.
Qed.
