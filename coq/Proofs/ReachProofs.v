(* C06 - proofs.  ReachBase: reachability, grouping, state commits (+ counterexample to the
   originally pinned state_commit_reaches); ReachEvolve: the abstract evolution of
   (store, stack ref) and its consequences (gc_safe); ReachTxn/ReachStep: every command is such
   an evolution; ReachCore: step_reach_core (parametrised by C01/C02 preservation), append_only.
   ReachFinal (step_reach) needs Proofs/WfProofs.vo and Proofs/ChainProofs.vo; add
   `Proofs.ReachFinal` to the export below once they exist. *)
From StgV Require Export Proofs.ReachCore Proofs.ReachFinal.

(* Model/Cmd.v leaves N_scope open for its importers; the statements of Properties/C06.v are
   about nat (lengths, oids), so nat_scope is put back on top for files importing this one. *)
Global Open Scope nat_scope.
