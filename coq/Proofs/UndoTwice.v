(* C05, whole-command form of "undo -n 2 is two single undos". *)
From Coq Require Import List ZArith NArith Bool Arith Lia.
From StgV Require Import Model.UndoSpec.
From StgV Require Import Proofs.LogProofs Proofs.ChainBasics Proofs.ChainExec.
From StgV Require Import Proofs.ReachBase Proofs.ReachEvolve Proofs.ReachTxn Proofs.ReachStep
  Proofs.PickBasics.
From StgV Require Import Proofs.ReachFinal Proofs.UndoStepProofs.
Import ListNotations.
Local Open Scope nat_scope.

(* ---------------------------------------------------------------- the walk is stable *)

Lemma fus_stable : forall fuel fuel' objs objs' so steps,
  prev_decreasing objs -> store_extends objs objs' ->
  so < length objs -> so < fuel -> so < fuel' ->
  find_undo_state fuel objs so steps = find_undo_state fuel' objs' so steps.
Proof.
  induction fuel as [|fuel IH]; intros fuel' objs objs' so steps PD E Hl Hf Hf'; [lia|].
  destruct fuel' as [|fuel']; [lia|].
  cbn [find_undo_state]. rewrite (get_ext_lt _ _ _ E Hl).
  destruct (get objs so) as [c|] eqn:G; [|reflexivity].
  destruct (c_state c) as [st|] eqn:C; [|reflexivity].
  destruct (steps =? 0)%Z; [reflexivity|].
  match goal with |- match ?nx with _ => _ end = _ => destruct nx as [steps'|] end; [|reflexivity].
  destruct (s_prev st) as [p|] eqn:P; [|reflexivity].
  assert (Hp : p < so). { eapply PD; [|exact P]. unfold state_of. rewrite G. exact C. }
  apply IH; try assumption; lia.
Qed.

Lemma fus_in : forall fuel objs so steps st,
  find_undo_state fuel objs so steps = Some st -> exists so', state_of objs so' = Some st.
Proof.
  induction fuel as [|fuel IH]; intros objs so steps st H; cbn [find_undo_state] in H; [discriminate|].
  destruct (get objs so) as [c|] eqn:Eg; [|discriminate].
  destruct (c_state c) as [st0|] eqn:Ec; [|discriminate].
  destruct (steps =? 0)%Z.
  - injection H as <-. exists so. unfold state_of. now rewrite Eg.
  - match type of H with match ?nx with Some _ => _ | None => _ end = _ => destruct nx as [steps'|] end; [|discriminate].
    destruct (s_prev st0) as [prev|]; [|discriminate]. eapply IH. exact H.
Qed.

(* ---------------------------------------------------------------- the transaction of undo *)

Definition undo_body (wn : world) (steps : Z) (t : txn) : tres :=
  match w_stack wn with
  | None => TErr t
  | Some so =>
      match find_undo_state (S (length (t_objs t))) (t_objs t) so steps with
      | Some st => reset_to_state st t
      | None => TErr t
      end
  end.

Lemma undo_core : forall op so st steps hard msg w2,
  w_stack (op_world op) = Some so -> state_of (w_objs (op_world op)) so = Some st ->
  op_state op = st -> op_initialized op = true ->
  w_branch (op_world op) = s_head st ->
  (forall n, pm_get (s_patches st) n <> None -> In n (all_of st)) ->
  transact op (opts CDisallow (w_apc (op_world op)) hard true true true)
    (undo_body (op_world op) steps) msg = (w2, X0) ->
  exists tgt,
    find_undo_state (S (length (w_objs (op_world op)))) (w_objs (op_world op)) so steps = Some tgt
    /\ (NoDup (map fst (s_patches tgt)) ->
        exists so2 c2 st2,
          w_stack w2 = Some so2 /\ get (w_objs w2) so2 = Some c2 /\ c_state c2 = Some st2
          /\ c_msg c2 = msg /\ s_prev st2 = Some so /\ same_stack st2 tgt
          /\ w_branch w2 = s_head tgt
          /\ store_extends (w_objs (op_world op)) (w_objs w2)
          /\ length (w_objs (op_world op)) <= so2).
Proof.
  intros op so st steps hard msg w2 Hs Hst Hos Hoi Hb Hcons H.
  unfold transact in H. rewrite Hoi in H. cbn [negb] in H.
  unfold undo_body in H. rewrite Hs in H.
  set (t0 := begin_txn op (opts CDisallow (w_apc (op_world op)) hard true true true)) in *.
  assert (Eo : t_objs t0 = w_objs (op_world op)) by reflexivity.
  assert (Est : t_stack t0 = st) by exact Hos.
  assert (Eop' : o_set_head (t_opts t0) = true) by reflexivity.
  assert (Hall : t_all t0 = all_of st).
  { unfold t0, begin_txn, t_all, all_of. cbn [t_applied t_unapplied t_hidden]. now rewrite Hos. }
  assert (Hpat : forall n, t_patch t0 n = pm_get (s_patches st) n).
  { intros n. unfold t0, begin_txn, t_patch. cbn [t_updated up_get t_stack]. now rewrite Hos. }
  rewrite Eo in H.
  destruct (find_undo_state _ _ so steps) as [tgt|] eqn:Hf;
    [|cbn [execute] in H; discriminate].
  exists tgt. split; [reflexivity|]. intros Hnd.
  destruct (reset_to_state tgt t0) as [t'|t' h|t'|] eqn:Er.
  - destruct (reset_lists _ _ _ Er) as (Ra & Ru & Rh & Rhd & _ & Rstk).
    destruct (reset_objs _ _ _ Er) as [Ro Rop].
    destruct (reset_installs_state_consistent tgt t0 t') as (_ & _ & _ & _ & Rp); [|exact Er|].
    { intros n Hn. rewrite Hall. apply Hcons. now rewrite <- Hpat. }
    destruct (execute_ok_nolog _ _ _ _ so H) as
      (th & objs' & so2 & c2 & Hth & Hsc & Eobjs & Estack & Ebr & Eext & Hle & G & C & M).
    { rewrite Rstk, Est. now symmetry. }
    { exact Hs. }
    unfold t_head_oid in Hth. rewrite Rhd in Hth. injection Hth as <-.
    rewrite Rop, Eop' in Ebr. rewrite Ro, Eo in Eext, Hle.
    exists so2, c2, (new_state t' (t_stack t') so (s_head tgt)).
    rewrite Eobjs.
    split; [exact Estack|]. split; [exact G|]. split; [exact C|]. split; [exact M|].
    split; [reflexivity|]. split; [|split; [exact Ebr|split; [exact Eext|exact Hle]]].
    unfold same_stack, new_state. cbn [s_applied s_unapplied s_hidden s_head s_patches].
    repeat (split; [assumption || reflexivity|]).
    intros n. rewrite pm_get_apply. rewrite <- (Rp n Hnd). reflexivity.
  - apply (execute_spec _ _ _ t' w2 X0) in H; [|right; eexists; reflexivity].
    destruct H as [[_ Ex]|[[_ [_ Ex]]|[w1 [st1 [Hl Hcases]]]]]; try discriminate.
    destruct Hcases as [[wt [um [_ [Hx|Hx]]]]|[[_ [Hx|Hx]]|Hfin]]; try discriminate.
    destruct Hfin as (th & prev & objs' & so2 & prefs' & wt & um & _ & _ & _ & _ & Hx).
    discriminate.
  - cbn [execute] in H. discriminate.
  - cbn [execute] in H. discriminate.
Qed.

(* ---------------------------------------------------------------- the normalised world *)

(* the world the undo transaction starts from: the stack opened, external modifications logged *)
Definition norm (w : world) : option world :=
  match open_stack PRequire w with
  | None => None
  | Some op0 =>
      match log_extmods_first op0 with
      | None => None
      | Some op => Some (op_world op)
      end
  end.

Definition good_state (s : sstate) : Prop :=
  (forall n, pm_get (s_patches s) n <> None -> In n (all_of s))
  /\ NoDup (map fst (s_patches s)).

Lemma undo_like_norm : forall w steps hard msg w2,
  Inv w -> prev_decreasing (w_objs w) ->
  run_undo_like w steps hard msg = (w2, X0) ->
  exists wn son stn,
    norm w = Some wn
    /\ w_stack wn = Some son /\ state_of (w_objs wn) son = Some stn
    /\ prev_decreasing (w_objs wn)
    /\ (forall so s, state_of (w_objs wn) so = Some s -> good_state s)
    /\ exists tgt,
        find_undo_state (S (length (w_objs wn))) (w_objs wn) son steps = Some tgt
        /\ exists so2 c2 st2,
          w_stack w2 = Some so2 /\ get (w_objs w2) so2 = Some c2 /\ c_state c2 = Some st2
          /\ c_msg c2 = msg /\ s_prev st2 = Some son /\ same_stack st2 tgt
          /\ w_branch w2 = s_head tgt
          /\ store_extends (w_objs wn) (w_objs w2)
          /\ length (w_objs wn) <= so2.
Proof.
  intros w steps hard msg w2 I PD H.
  assert (Hgood : forall so s, state_of (w_objs w) so = Some s -> good_state s).
  { intros so s Hs. destruct (inv_state_cons _ _ _ I Hs). split; assumption. }
  unfold run_undo_like in H. unfold norm.
  destruct (open_stack PRequire w) as [op0|] eqn:Eop; [|discriminate].
  destruct (log_extmods_first op0) as [op|] eqn:El; [|discriminate].
  unfold open_stack in Eop. cbv beta zeta in Eop.
  destruct (w_stack w) as [so|] eqn:Hs; [|discriminate].
  destruct (state_of (w_objs w) so) as [st|] eqn:Hst; [|discriminate].
  destruct (stack_base (w_objs w) (w_branch w) st) as [b|]; [|discriminate].
  injection Eop as <-.
  unfold log_extmods_first in El. cbn [op_state op_world ensure_patch_refs w_branch] in El.
  destruct (Nat.eqb (s_head st) (w_branch w)) eqn:Eh.
  - (* no external modification *)
    injection El as <-. apply Nat.eqb_eq in Eh.
    match type of H with transact ?o _ _ _ = _ =>
      destruct (undo_core o so st steps hard msg w2 Hs Hst eq_refl eq_refl (eq_sym Eh)
                  (proj1 (Hgood _ _ Hst)) H) as (tgt & Hf & Hc) end.
    cbn [op_world] in Hf, Hc.
    exists (ensure_patch_refs w st), so, st.
    split; [reflexivity|]. split; [exact Hs|]. split; [exact Hst|]. split; [exact PD|].
    split; [exact Hgood|]. exists tgt. split; [exact Hf|].
    apply Hc. destruct (fus_in _ _ _ _ _ Hf) as [so' Hso'].
    apply (Hgood _ _ Hso').
  - (* an entry for the external modification is written first *)
    destruct (log_external_mods _ st) as [[w' s']|] eqn:Elm; [|discriminate].
    injection El as <-. cbn [op_world] in *.
    destruct (log_external_mods_spec _ _ _ _ Elm)
      as (Eb & _ & _ & _ & _ & Ea & Ep & Ehd & Eext & Hstates & Hcur).
    unfold log_external_mods in Elm. cbn [ensure_patch_refs w_stack w_objs w_branch] in Elm.
    rewrite Hs in Elm.
    destruct (state_commit _ _ _) as [[objs' so']|] eqn:Hsc; [|discriminate].
    injection Elm as <- <-. cbn [w_objs w_stack w_branch] in *.
    assert (PD' : prev_decreasing objs') by (eapply prev_decreasing_commit; eassumption).
    set (s' := mkState (Some so) (w_branch w) (s_applied st) (s_unapplied st) (s_hidden st)
                       (s_patches st)) in *.
    assert (Gs' : good_state s').
    { destruct (Hgood _ _ Hst) as [Hc Hn]. split; [exact Hc|exact Hn]. }
    assert (Hgood' : forall so0 s0, state_of objs' so0 = Some s0 -> good_state s0).
    { intros so0 s0 Hs0. destruct (Hstates _ _ Hs0) as [Ho| ->]; [eapply Hgood; exact Ho|exact Gs']. }
    unfold cur_state in Hcur. cbn [w_stack w_objs] in Hcur.
    match type of H with transact ?o _ _ _ = _ =>
      destruct (undo_core o so' s' steps hard msg w2 eq_refl Hcur eq_refl eq_refl eq_refl
                  (proj1 Gs') H) as (tgt & Hf & Hc) end.
    cbn [op_world w_objs] in Hf, Hc.
    eexists _, so', s'.
    split; [reflexivity|]. cbn [w_stack w_objs].
    split; [reflexivity|]. split; [exact Hcur|]. split; [exact PD'|].
    split; [exact Hgood'|]. exists tgt. split; [exact Hf|].
    apply Hc. destruct (fus_in _ _ _ _ _ Hf) as [so0 Hso0].
    apply (Hgood' _ _ Hso0).
Qed.

(* the same when the branch sits on the recorded head: only the current state need be consistent *)
Lemma undo_like_clean : forall w so st steps hard msg w2,
  w_stack w = Some so -> state_of (w_objs w) so = Some st -> w_branch w = s_head st ->
  (forall n, pm_get (s_patches st) n <> None -> In n (all_of st)) ->
  run_undo_like w steps hard msg = (w2, X0) ->
  exists tgt,
    find_undo_state (S (length (w_objs w))) (w_objs w) so steps = Some tgt
    /\ (NoDup (map fst (s_patches tgt)) ->
        exists so2 c2 st2,
          w_stack w2 = Some so2 /\ get (w_objs w2) so2 = Some c2 /\ c_state c2 = Some st2
          /\ c_msg c2 = msg /\ s_prev st2 = Some so /\ same_stack st2 tgt
          /\ w_branch w2 = s_head tgt
          /\ store_extends (w_objs w) (w_objs w2)
          /\ length (w_objs w) <= so2).
Proof.
  intros w so st steps hard msg w2 Hs Hst Hb Hcons H.
  unfold run_undo_like in H.
  destruct (open_stack PRequire w) as [op0|] eqn:Eop; [|discriminate].
  destruct (log_extmods_first op0) as [op|] eqn:El; [|discriminate].
  unfold open_stack in Eop. cbv beta zeta in Eop. rewrite Hs, Hst in Eop.
  destruct (stack_base (w_objs w) (w_branch w) st) as [b|]; [|discriminate].
  injection Eop as <-.
  unfold log_extmods_first in El. cbn [op_state op_world ensure_patch_refs w_branch] in El.
  rewrite Hb, Nat.eqb_refl in El. injection El as <-.
  match type of H with transact ?o _ _ _ = _ =>
    destruct (undo_core o so st steps hard msg w2 Hs Hst eq_refl eq_refl Hb Hcons H)
      as (tgt & Hf & Hc) end.
  cbn [op_world] in Hf, Hc. exists tgt. split; [exact Hf|exact Hc].
Qed.

Lemma same_stack_sym_trans : forall a b c, same_stack a c -> same_stack b c -> same_stack a b.
Proof.
  intros a b c (A1 & A2 & A3 & A4 & A5) (B1 & B2 & B3 & B4 & B5).
  repeat split; try congruence; intros n; now rewrite A5, B5.
Qed.

(* ---------------------------------------------------------------- the pinned theorem *)

Lemma undo_2_is_two_undos :
  forall w hard w1 w2 w3,
    Inv6 w -> prev_decreasing (w_objs w) ->
    run_undo w 1 hard = (w1, X0) ->
    run_undo w1 1 hard = (w2, X0) ->
    run_undo w 2 hard = (w3, X0) ->
    exists st2 st3, cur_state w2 = Some st2 /\ cur_state w3 = Some st3
                    /\ same_stack st2 st3 /\ w_branch w2 = w_branch w3.
Proof.
  intros w hard w1 w2 w3 [[I _] _] PD H1 H2 H3.
  unfold run_undo in H1, H2, H3.
  cbn [Z.ltb Z.compare Pos.compare Pos.compare_cont] in H1, H2, H3.
  destruct (undo_like_norm _ _ _ _ _ I PD H1)
    as (wn & son & stn & En & Sn & Stn & PDn & Gn & tgt1 & Hf1 & so1 & c1 & st1
        & F1 & G1 & C1 & M1 & P1 & SS1 & B1 & Ext1 & Hle1).
  destruct (undo_like_norm _ _ _ _ _ I PD H3)
    as (wn' & son' & stn' & En' & Sn' & Stn' & _ & _ & tgt3 & Hf3 & so3 & c3 & st3
        & F3 & G3 & C3 & _ & _ & SS3 & B3 & _).
  rewrite En in En'. injection En' as <-.
  rewrite Sn in Sn'. injection Sn' as <-.
  assert (Good1 : good_state tgt1).
  { destruct (fus_in _ _ _ _ _ Hf1) as [x Hx]. exact (Gn _ _ Hx). }
  assert (Good3 : good_state tgt3).
  { destruct (fus_in _ _ _ _ _ Hf3) as [x Hx]. exact (Gn _ _ Hx). }
  assert (S1 : state_of (w_objs w1) so1 = Some st1). { unfold state_of. now rewrite G1. }
  assert (Bh1 : w_branch w1 = s_head st1).
  { destruct SS1 as (_ & _ & _ & Eh & _). now rewrite Eh. }
  destruct (undo_like_clean w1 so1 st1 1%Z hard (MUndo 1) w2 F1 S1 Bh1
              (same_stack_cons _ _ SS1 (proj1 Good1)) H2) as (tgt2 & Hf2 & Hc2).
  assert (E23 : tgt2 = tgt3).
  { cbn [find_undo_state] in Hf2. rewrite G1, C1, M1, P1 in Hf2.
    cbn [Z.eqb Z.ltb Z.compare] in Hf2. change (1 + 1)%Z with 2%Z in Hf2.
    pose proof (state_of_lt _ _ _ Stn) as Ln. pose proof (get_lt _ _ _ G1) as L1.
    rewrite <- (fus_stable (S (length (w_objs wn))) (length (w_objs w1)) (w_objs wn) (w_objs w1)
                  son 2%Z PDn Ext1) in Hf2 by lia.
    congruence. }
  subst tgt2.
  destruct (Hc2 (proj2 Good3)) as (so2 & c2 & st2 & F2 & G2 & C2 & _ & _ & SS2 & B2 & _).
  exists st2, st3.
  split; [unfold cur_state, state_of; now rewrite F2, G2|].
  split; [unfold cur_state, state_of; now rewrite F3, G3|].
  split; [eapply same_stack_sym_trans; eassumption|congruence].
Qed.
