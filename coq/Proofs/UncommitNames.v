(* The names `stg uncommit` generates from commit messages (Model/Cmd.v make_patchnames):
   never a panic, one name per commit, every name valid and colliding neither with a patch of
   the stack nor with another generated name. *)
From Coq Require Import List NArith Bool Arith Lia.
From StgV Require Import Model.Chars Model.Name Model.NameSpec Model.Stack Model.Cmd.
From StgV Require Import Proofs.NameProofs.
Import ListNotations.
Local Open Scope nat_scope.

(* one step of the fold of make_patchnames *)
Definition mpn_step (lower_s : str -> str) (objs : store)
           (acc : option (list name * list name)) (c : oid) : option (list name * list name) :=
  match acc with
  | None => None
  | Some (taken, out) =>
      match make lower_s (subj_of objs c) true (Some 30%N) with
      | Ok nm => match uniquify nm [] taken with
                 | UOk pn => Some (taken ++ [pn], pn :: out)
                 | UFuel => None
                 end
      | _ => None
      end
  end.

Lemma make_patchnames_eq : forall lower_s objs s commits,
  make_patchnames lower_s objs s commits =
  match fold_left (mpn_step lower_s objs) (rev commits) (Some (all_of s, [])) with
  | Some (_, out) => Some out
  | None => None
  end.
Proof. reflexivity. Qed.

(* the state of the fold: everything of the stack and everything given out is taken; the
   names given out are valid, collide with nothing of the stack and not with one another *)
Definition mpn_ok (base taken out : list name) : Prop :=
  (forall d, In d base -> In d taken)
  /\ (forall d, In d out -> In d taken)
  /\ Forall (fun n => validate n = true
                      /\ forallb (fun d => negb (collides n d)) base = true) out
  /\ ForallOrdPairs (fun a b => collides a b = false) out.

Lemma mpn_step_ok : forall lower_s, LowerOK lower_s ->
  forall objs base taken out c,
    mpn_ok base taken out ->
    exists taken' pn,
      mpn_step lower_s objs (Some (taken, out)) c = Some (taken', pn :: out)
      /\ mpn_ok base taken' (pn :: out).
Proof.
  intros lower_s HL objs base taken out c [Hb [Ho [Hv Hp]]].
  unfold mpn_step.
  destruct (make_valid lower_s HL (subj_of objs c) true (Some 30%N)) as [nm [Em Hnm]].
  rewrite Em.
  destruct (uniquify nm [] taken) as [pn|] eqn:Eu;
    [|exfalso; exact (uniquify_never_out_of_fuel _ _ _ Eu)].
  destruct (uniquify_spec nm [] taken pn Hnm Eu) as [Hpv [Hin|Hfr]]; [discriminate Hin|].
  rewrite Forall_forall in Hfr.
  exists (taken ++ [pn]), pn. split; [reflexivity|].
  split; [|split; [|split]].
  - intros d Hd. apply in_or_app. left. now apply Hb.
  - intros d [<-|Hd]; apply in_or_app; [right; now left|left; now apply Ho].
  - constructor; [|exact Hv]. split; [exact Hpv|].
    apply forallb_forall. intros d Hd. apply negb_true_iff. apply Hfr. now apply Hb.
  - constructor; [|exact Hp]. apply Forall_forall. intros d Hd. apply Hfr. now apply Ho.
Qed.

Lemma mpn_fold_ok : forall lower_s, LowerOK lower_s ->
  forall objs base l taken out,
    mpn_ok base taken out ->
    exists taken' out',
      fold_left (mpn_step lower_s objs) l (Some (taken, out)) = Some (taken', out')
      /\ mpn_ok base taken' out'
      /\ length out' = length l + length out.
Proof.
  intros lower_s HL objs base. induction l as [|c l IH]; intros taken out Hok.
  - exists taken, out. split; [reflexivity|]. split; [exact Hok|reflexivity].
  - destruct (mpn_step_ok lower_s HL objs base taken out c Hok) as [taken1 [pn [E1 Hok1]]].
    destruct (IH taken1 (pn :: out) Hok1) as [taken' [out' [E2 [Hok' Hlen]]]].
    exists taken', out'. cbn [fold_left]. rewrite E1. split; [exact E2|]. split; [exact Hok'|].
    rewrite Hlen. cbn [length]. lia.
Qed.

Lemma uncommit_names_fresh :
  forall lower_s, LowerOK lower_s ->
  forall objs s commits,
    exists pns, make_patchnames lower_s objs s commits = Some pns
      /\ length pns = length commits
      /\ Forall (fun n => validate n = true
                          /\ forallb (fun d => negb (collides n d)) (all_of s) = true) pns
      /\ ForallOrdPairs (fun a b => collides a b = false) pns.
Proof.
  intros lower_s HL objs s commits.
  assert (H0 : mpn_ok (all_of s) (all_of s) []).
  { split; [auto|]. split; [intros d []|]. split; constructor. }
  destruct (mpn_fold_ok lower_s HL objs (all_of s) (rev commits) (all_of s) [] H0)
    as [taken' [out' [E [[_ [_ [Hv Hp]]] Hlen]]]].
  exists out'. rewrite make_patchnames_eq, E. split; [reflexivity|].
  split; [|split; assumption].
  rewrite Hlen, rev_length. cbn [length]. lia.
Qed.

(* ---------------------------------------------------------------- without LowerOK *)

(* whatever the lowercase function: names that were generated are fresh (validity is what
   needs LowerOK) *)
Definition mpn_fresh (base taken out : list name) : Prop :=
  (forall d, In d base -> In d taken)
  /\ (forall d, In d out -> In d taken)
  /\ Forall (fun n => forallb (fun d => negb (collides n d)) base = true) out
  /\ ForallOrdPairs (fun a b => collides a b = false) out.

Lemma uniquify_result_fresh : forall n dis r,
  uniquify n [] dis = UOk r -> forall d, In d dis -> collides r d = false.
Proof.
  intros n dis r H. unfold uniquify in H.
  assert (G : forall fuel m, uniquify_loop fuel m [] dis = UOk r -> uniquify_done r [] dis = true).
  { induction fuel as [|fuel IH]; intros m Hm; cbn [uniquify_loop] in Hm;
      destruct (uniquify_done m [] dis) eqn:E.
    - now injection Hm as <-.
    - discriminate.
    - now injection Hm as <-.
    - eapply IH; exact Hm. }
  apply G in H. unfold uniquify_done in H. cbn [name_in existsb orb] in H.
  rewrite forallb_forall in H. intros d Hd. apply H in Hd. now apply negb_true_iff in Hd.
Qed.

Lemma mpn_step_fresh : forall lower_s objs base taken out c acc',
  mpn_fresh base taken out ->
  mpn_step lower_s objs (Some (taken, out)) c = Some acc' ->
  exists taken' pn, acc' = (taken', pn :: out) /\ mpn_fresh base taken' (pn :: out).
Proof.
  intros lower_s objs base taken out c acc' [Hb [Ho [Hv Hp]]] E. unfold mpn_step in E.
  destruct (make lower_s (subj_of objs c) true (Some 30%N)) as [nm| |]; try discriminate.
  destruct (uniquify nm [] taken) as [pn|] eqn:Eu; [|discriminate].
  injection E as <-. pose proof (uniquify_result_fresh nm taken pn Eu) as Hfr.
  exists (taken ++ [pn]), pn. split; [reflexivity|].
  split; [|split; [|split]].
  - intros d Hd. apply in_or_app. left. now apply Hb.
  - intros d [<-|Hd]; apply in_or_app; [right; now left|left; now apply Ho].
  - constructor; [|exact Hv].
    apply forallb_forall. intros d Hd. apply negb_true_iff. apply Hfr. now apply Hb.
  - constructor; [|exact Hp]. apply Forall_forall. intros d Hd. apply Hfr. now apply Ho.
Qed.

Lemma mpn_fold_none : forall lower_s objs l,
  fold_left (mpn_step lower_s objs) l None = None.
Proof. intros lower_s objs. induction l as [|c l IH]; [reflexivity|exact IH]. Qed.

Lemma mpn_fold_fresh : forall lower_s objs base l taken out taken' out',
  mpn_fresh base taken out ->
  fold_left (mpn_step lower_s objs) l (Some (taken, out)) = Some (taken', out') ->
  mpn_fresh base taken' out' /\ length out' = length l + length out.
Proof.
  intros lower_s objs base. induction l as [|c l IH]; intros taken out taken' out' Hok E.
  - cbn [fold_left] in E. injection E as <- <-. split; [exact Hok|reflexivity].
  - cbn [fold_left] in E.
    destruct (mpn_step lower_s objs (Some (taken, out)) c) as [acc1|] eqn:E1;
      [|rewrite mpn_fold_none in E; discriminate].
    destruct (mpn_step_fresh _ _ _ _ _ _ _ Hok E1) as [taken1 [pn [-> Hok1]]].
    destruct (IH _ _ _ _ Hok1 E) as [Hok' Hlen]. split; [exact Hok'|].
    rewrite Hlen. cbn [length]. lia.
Qed.

Lemma make_patchnames_fresh : forall lower_s objs s commits pns,
  make_patchnames lower_s objs s commits = Some pns ->
  length pns = length commits
  /\ Forall (fun n => forallb (fun d => negb (collides n d)) (all_of s) = true) pns
  /\ ForallOrdPairs (fun a b => collides a b = false) pns.
Proof.
  intros lower_s objs s commits pns E. rewrite make_patchnames_eq in E.
  destruct (fold_left _ _ _) as [[taken' out']|] eqn:Ef; [|discriminate]. injection E as ->.
  assert (H0 : mpn_fresh (all_of s) (all_of s) []).
  { split; [auto|]. split; [intros d []|]. split; constructor. }
  destruct (mpn_fold_fresh _ _ _ _ _ _ _ _ H0 Ef) as [[_ [_ [Hv Hp]]] Hlen].
  split; [|split; assumption]. rewrite Hlen, rev_length. cbn [length]. lia.
Qed.

(* hence distinct, and none of them a name of the stack *)
Lemma make_patchnames_nodup : forall lower_s objs s commits pns,
  make_patchnames lower_s objs s commits = Some pns ->
  length pns = length commits
  /\ NoDup pns /\ (forall n, In n pns -> ~ In n (all_of s)).
Proof.
  intros lower_s objs s commits pns E.
  destruct (make_patchnames_fresh _ _ _ _ _ E) as [Hl [Hv Hp]]. split; [exact Hl|].
  assert (Hrefl : forall a, collides a a = true) by (intros a; unfold collides; apply str_eqb_refl).
  split.
  - clear Hv Hl E. induction Hp as [|a l Ha Hp IH]; constructor; [|exact IH].
    intros Hin. rewrite Forall_forall in Ha. apply Ha in Hin. rewrite Hrefl in Hin. discriminate.
  - intros n Hn Hin. rewrite Forall_forall in Hv. apply Hv in Hn.
    rewrite forallb_forall in Hn. apply Hn in Hin. rewrite Hrefl in Hin. discriminate.
Qed.
