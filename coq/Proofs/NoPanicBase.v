(* C20 proofs, part 1: exit statuses, name / locator totality, and the transaction operations
   never return TPanic from a well-formed transaction (complement of Proofs/WfTxn.v, where
   TPanic is an acceptable outcome).

   [uinv]  the part of execute's consistency assertion that [wf_txn] does not give:
           the keys of updated_patches are unique and every deletion mark names a patch of
           the stack the transaction was set up from.
   [nsat]  outcome predicate: TOk satisfies Q, THalt satisfies uinv, TErr is fine, TPanic is not. *)
From Coq Require Import List NArith ZArith Bool Arith Lia Permutation.
From StgV Require Import Model.ExitSpec Model.LocatorSpec Gen.Consts.
From StgV Require Import Proofs.NameProofs Proofs.LocatorProofs Proofs.WfProofs.
Import ListNotations.

(* ---------------------------------------------------------------- 1-3: statuses, make, resolve *)

Lemma exit_documented : forall x, x <> XPanic -> exists z, exit_status x = Some z /\ documented z.
Proof.
  intros x H. destruct x; try congruence; eexists; (split; [reflexivity|]);
    unfold documented; vm_compute; auto.
Qed.

Lemma make_no_panic : forall lower_s, LowerOK lower_s ->
  forall raw lower limit, make lower_s raw lower limit <> Panic.
Proof.
  intros lower_s HL raw lower limit E.
  destruct (make_valid lower_s HL raw lower limit) as [n [En _]]. congruence.
Qed.

Lemma resolve_no_panic : forall v l, wf_loc l -> resolve_name v l <> RPanic.
Proof. intros v l H E. pose proof (resolve_sound v l H) as Hs. rewrite E in Hs. exact Hs. Qed.

(* ---------------------------------------------------------------- updated_patches *)

Definition stack_has (t : txn) (n : name) : Prop := pm_get (s_patches (t_stack t)) n <> None.

Definition uinv (t : txn) : Prop :=
  NoDup (map fst (t_updated t)) /\ forall n, In (n, None) (t_updated t) -> stack_has t n.

(* every current name is a patch of the original stack (true at the start of a transaction) *)
Definition nis (t : txn) : Prop := forall n, In n (t_all t) -> stack_has t n.

Definition nsat (Q : txn -> Prop) (r : tres) : Prop :=
  match r with
  | TOk t => Q t
  | THalt t _ => uinv t
  | TErr _ => True
  | TPanic => False
  end.

Lemma nsat_tbind : forall (Q1 Q2 Q' : txn -> Prop) r f,
  res_sat Q1 r -> nsat Q2 r -> (forall t, Q1 t -> Q2 t -> nsat Q' (f t)) -> nsat Q' (tbind r f).
Proof. intros Q1 Q2 Q' [t|t h|t|] f H1 H2 H3; cbn in *; auto. Qed.

Lemma nsat_impl : forall (Q Q' : txn -> Prop) r, nsat Q r -> (forall t, Q t -> Q' t) -> nsat Q' r.
Proof. intros Q Q' [t|t h|t|] H1 H2; cbn in *; auto. Qed.

Lemma nsat_res : forall (Q1 Q2 : txn -> Prop) r,
  res_sat Q1 r -> nsat Q2 r -> nsat (fun t => Q1 t /\ Q2 t) r.
Proof. intros Q1 Q2 [t|t h|t|] H1 H2; cbn in *; auto. Qed.

Lemma nsat_frame : forall (Q : txn -> Prop) t r,
  frame t r -> nsat Q r -> nsat (fun t' => Q t' /\ t_stack t' = t_stack t) r.
Proof. intros Q t [t'|t' h|t'|] H1 H2; cbn in *; auto. split; [exact H2|apply H1]. Qed.

Lemma nsat_not_panic : forall Q r, nsat Q r -> r <> TPanic.
Proof. intros Q r H E. subst r. exact H. Qed.

(* --- membership in the association lists --- *)

Lemma in_up_remove : forall u n k (v : option oid),
  In (k, v) (up_remove u n) -> In (k, v) u /\ k <> n.
Proof.
  induction u as [|[a b] u IH]; intros n k v H; cbn in H; [destruct H|].
  destruct (name_eqb_spec a n) as [->|Hn].
  - apply IH in H as [H1 H2]. split; [now right|exact H2].
  - destruct H as [H|H].
    + injection H as -> ->. split; [now left|exact Hn].
    + apply IH in H as [H1 H2]. split; [now right|exact H2].
Qed.

Lemma keys_up_remove : forall u n k, In k (map fst (up_remove u n)) -> In k (map fst u) /\ k <> n.
Proof.
  induction u as [|[a b] u IH]; intros n k H; cbn in H; [destruct H|].
  destruct (name_eqb_spec a n) as [->|Hn].
  - apply IH in H as [H1 H2]. split; [now right|exact H2].
  - destruct H as [H|H].
    + cbn in H. subst k. split; [now left|exact Hn].
    + apply IH in H as [H1 H2]. split; [now right|exact H2].
Qed.

Lemma nodup_up_remove : forall u n, NoDup (map fst u) -> NoDup (map fst (up_remove u n)).
Proof.
  induction u as [|[a b] u IH]; intros n H; cbn; [constructor|].
  cbn in H. inversion H as [|? ? Hx Hd]; subst.
  destruct (name_eqb a n); [now apply IH|]. cbn. constructor; [|now apply IH].
  intros Hi. apply keys_up_remove in Hi as [Hi _]. contradiction.
Qed.

Lemma nodup_up_set : forall u n v, NoDup (map fst u) -> NoDup (map fst (up_set u n v)).
Proof.
  intros u n v H. unfold up_set. cbn. constructor; [|now apply nodup_up_remove].
  intros Hi. apply keys_up_remove in Hi as [_ Hi]. congruence.
Qed.

Lemma in_up_set : forall u n x k (v : option oid),
  In (k, v) (up_set u n x) -> (k = n /\ v = x) \/ (In (k, v) u /\ k <> n).
Proof.
  intros u n x k v [H|H].
  - injection H as -> ->. now left.
  - right. now apply in_up_remove.
Qed.

Lemma nodup_mark_deleted : forall ns u, NoDup (map fst u) -> NoDup (map fst (mark_deleted u ns)).
Proof.
  unfold mark_deleted. induction ns as [|n ns IH]; intros u H; cbn [fold_left]; [exact H|].
  apply IH. now apply nodup_up_set.
Qed.

Lemma in_mark_deleted : forall ns u k (v : option oid),
  In (k, v) (mark_deleted u ns) -> (In k ns /\ v = None) \/ In (k, v) u.
Proof.
  unfold mark_deleted. induction ns as [|n ns IH]; intros u k v H; cbn [fold_left] in H; [now right|].
  apply IH in H as [[H1 H2]|H].
  - left. split; [now right|exact H2].
  - apply in_up_set in H as [[-> ->]|[H _]]; [left; split; [now left|reflexivity]|now right].
Qed.

Lemma nodup_set_all : forall ps u, NoDup (map fst u) -> NoDup (map fst (set_all ps u)).
Proof.
  unfold set_all. induction ps as [|p ps IH]; intros u H; cbn [fold_left]; [exact H|].
  apply IH. now apply nodup_up_set.
Qed.

Lemma in_set_all_none : forall ps u k, In (k, None) (set_all ps u) -> In (k, None) u.
Proof.
  unfold set_all. induction ps as [|p ps IH]; intros u k H; cbn [fold_left] in H; [exact H|].
  apply IH in H. apply in_up_set in H as [[_ H]|[H _]]; [discriminate|exact H].
Qed.

Lemma up_get_in_nodup : forall u n (v : option oid),
  NoDup (map fst u) -> In (n, v) u -> up_get u n = Some v.
Proof.
  induction u as [|[a b] u IH]; intros n v Hd H; [destruct H|]. cbn in Hd.
  inversion Hd as [|? ? Hx Hd']; subst. cbn [up_get]. destruct H as [H|H].
  - injection H as -> ->. now rewrite name_eqb_refl.
  - destruct (name_eqb_spec a n) as [->|Hn]; [|now apply IH].
    exfalso. apply Hx. apply (in_map fst) in H. exact H.
Qed.

(* --- uinv --- *)

Lemma uinv_same : forall t t',
  t_updated t' = t_updated t -> t_stack t' = t_stack t -> uinv t -> uinv t'.
Proof. intros t t' E1 E2 [H1 H2]. unfold uinv, stack_has. rewrite E1, E2. split; assumption. Qed.

Lemma uinv_up_some : forall t t' n o,
  t_updated t' = up_set (t_updated t) n (Some o) -> t_stack t' = t_stack t -> uinv t -> uinv t'.
Proof.
  intros t t' n o E1 E2 [H1 H2]. unfold uinv, stack_has. rewrite E1, E2. split.
  - now apply nodup_up_set.
  - intros k Hk. apply in_up_set in Hk as [[_ Hk]|[Hk _]]; [discriminate|now apply H2].
Qed.

Lemma uinv_mark_deleted : forall t t' ns,
  t_updated t' = mark_deleted (t_updated t) ns -> t_stack t' = t_stack t ->
  (forall n, In n ns -> stack_has t n) -> uinv t -> uinv t'.
Proof.
  intros t t' ns E1 E2 Hns [H1 H2]. unfold uinv, stack_has. rewrite E1, E2. split.
  - now apply nodup_mark_deleted.
  - intros k Hk. apply in_mark_deleted in Hk as [[Hk _]|Hk]; [now apply Hns|now apply H2].
Qed.

Lemma uinv_set_all : forall t t' ps,
  t_updated t' = set_all ps (t_updated t) -> t_stack t' = t_stack t -> uinv t -> uinv t'.
Proof.
  intros t t' ps E1 E2 [H1 H2]. unfold uinv, stack_has. rewrite E1, E2. split.
  - now apply nodup_set_all.
  - intros k Hk. apply in_set_all_none in Hk. now apply H2.
Qed.

Lemma uinv_core_eq : forall t t2, core_eq t t2 -> uinv t -> uinv t2.
Proof.
  intros t t2 [E1 [_ [_ [_ [_ [E6 _]]]]]] H. now apply (uinv_same t).
Qed.

(* execute's consistency assertion *)
Lemma uinv_consistent : forall t, wf_txn t -> uinv t -> exec_consistent t = true.
Proof.
  intros t W [Hd Hn]. unfold exec_consistent. apply forallb_forall. intros [n [o|]] Hin; cbn [fst snd].
  - apply mem_In. apply (wt_dom t W). unfold t_patch.
    rewrite (up_get_in_nodup _ _ _ Hd Hin). discriminate.
  - specialize (Hn n Hin). unfold stack_has in Hn.
    destruct (pm_get (s_patches (t_stack t)) n); [reflexivity|congruence].
Qed.

(* ---------------------------------------------------------------- push *)

Lemma uinv_move : forall t n, uinv t -> uinv (move_to_applied t n).
Proof.
  intros t n H. unfold move_to_applied.
  destruct (mem n (t_unapplied t)); [|destruct (mem n (t_hidden t))];
    (eapply uinv_same; [| |exact H]; reflexivity).
Qed.

Lemma push_fin_np : forall n t2 pc ptree tr np op st,
  uinv t2 -> nsat uinv (push_fin n t2 pc ptree tr np op st).
Proof.
  intros n t2 pc ptree tr np op st H. unfold push_fin.
  assert (Hfin : forall t3, uinv t3 ->
    nsat uinv (match st with
               | PSConflict => THalt (move_to_applied (set_conflict_mode t3 CAllow) n) HConflict
               | _ => TOk (move_to_applied t3 n) end)).
  { intros t3 H3. destruct st; cbn [nsat]; apply uinv_move; exact H3. }
  destruct (negb (tree_eqb tr ptree) || negb (Nat.eqb np op)).
  - unfold recommit, put. cbv beta iota zeta.
    destruct st; apply Hfin; (eapply uinv_up_some; [reflexivity|reflexivity|]);
      (eapply uinv_same; [| |exact H]; reflexivity).
  - destruct st; apply Hfin; exact H.
Qed.

Lemma push_patch_np : forall n am t,
  wf_txn t -> uinv t -> In n (t_all t) -> nsat uinv (push_patch n am t).
Proof.
  intros n am t W U Hn. rewrite push_patch_eq.
  apply (wt_dom t W) in Hn. destruct (t_patch t n) as [pc|]; [|congruence].
  destruct (wf_top t W) as [np [-> _]].
  destruct (first_parent (t_objs t) pc) as [op|]; [|exact I].
  pose proof (push_sel_spec am t pc op np) as S.
  destruct (push_sel am t pc op np) as [[[t2 tr] st]|r].
  - apply push_fin_np. now apply (uinv_core_eq t).
  - destruct r; try contradiction. cbn. now apply (uinv_core_eq t).
Qed.

Lemma push_list_np : forall ns m t,
  wf_txn t -> uinv t -> NoDup ns -> (forall n, In n ns -> In n (t_all t) /\ ~ In n (t_applied t)) ->
  nsat uinv (push_list ns m t).
Proof.
  induction ns as [|n ns IH]; intros m t W U Hd Hin; cbn [push_list]; [exact U|].
  inversion Hd as [|? ? Hnn Hd']; subst.
  destruct (Hin n (or_introl eq_refl)) as [Hn Ha].
  eapply nsat_tbind; [apply (push_patch_wf n (mem n m) t W Hn Ha)|now apply push_patch_np|].
  intros t1 [W1 [Ea [Eh Hp]]] U1. apply IH; auto.
  intros x Hx. destruct (Hin x (or_intror Hx)) as [Hx1 Hx2]. split.
  - eapply Permutation_in; [apply Permutation_sym; exact Hp|exact Hx1].
  - rewrite Ea. intros Hi. apply in_app_or in Hi as [Hi|[<-|[]]]; contradiction.
Qed.

Lemma push_patches_np0 : forall ns cm t,
  wf_txn t -> uinv t -> NoDup ns -> (forall n, In n ns -> In n (t_all t) /\ ~ In n (t_applied t)) ->
  nsat uinv (push_patches ns cm t).
Proof.
  intros ns cm t W U Hd Hin. unfold push_patches. destruct cm.
  - destruct (check_merged_loop _ _ _ _) as [[m c] id].
    apply (push_list_np ns m (set_tmp (set_tmp t None []) id c)); auto.
    now do 2 apply wf_txn_set_tmp.
  - apply (push_list_np ns [] (set_tmp t None [])); auto.
    now apply wf_txn_set_tmp.
Qed.

(* all that is known after a push: the C01 postcondition, uinv, and the stack is kept *)
Definition ppost (t : txn) (ns : list name) (t' : txn) : Prop :=
  (push_post t ns t' /\ uinv t') /\ t_stack t' = t_stack t.

Lemma push_patches_np : forall ns cm t,
  wf_txn t -> uinv t -> NoDup ns -> (forall n, In n ns -> In n (t_all t) /\ ~ In n (t_applied t)) ->
  nsat (ppost t ns) (push_patches ns cm t).
Proof.
  intros ns cm t W U Hd Hin. unfold ppost. apply nsat_frame; [apply frame_push_patches|].
  apply nsat_res; [now apply push_patches_wf|now apply push_patches_np0].
Qed.

Lemma push_unapplied_np : forall ps m t,
  wf_txn t -> uinv t -> NoDup ps -> incl ps (t_unapplied t) -> nsat uinv (push_patches ps m t).
Proof.
  intros ps m t W U Hd Hi. apply push_patches_np0; auto.
  intros n Hn. apply Hi in Hn. split; [apply in_all_cases; auto|].
  pose proof (names_disjoint t (wt_names t W)) as [_ [_ [_ [Hah _]]]]. intros Ha.
  destruct (Hah n Ha) as [H1 _]. contradiction.
Qed.

(* --- push_tree (stg push --set-tree) --- *)

Lemma in_remove_first : forall n l x, In x l -> x <> n -> In x (remove_first n l).
Proof.
  intros n. induction l as [|y l IH]; intros x H Hx; [destruct H|]. cbn.
  destruct (name_eqb_spec y n) as [->|Hy].
  - destruct H as [<-|H]; [congruence|exact H].
  - destruct H as [<-|H]; [now left|right; now apply IH].
Qed.

Lemma move_unapplied : forall t n x,
  In n (t_unapplied t) -> In x (t_unapplied t) -> x <> n -> In x (t_unapplied (move_to_applied t n)).
Proof.
  intros t n x Hn Hx Hne. unfold move_to_applied. apply mem_In in Hn. rewrite Hn.
  rewrite t_unapplied_set_lists. now apply in_remove_first.
Qed.

Lemma push_tree_np : forall n t,
  wf_txn t -> uinv t -> In n (t_unapplied t) ->
  nsat (fun t' => uinv t' /\ forall x, In x (t_unapplied t) -> x <> n -> In x (t_unapplied t'))
       (push_tree n t).
Proof.
  intros n t W U Hn. unfold push_tree.
  assert (Hall : In n (t_all t)) by (apply in_all_cases; auto).
  apply (wt_dom t W) in Hall. destruct (t_patch t n) as [pc|]; [|congruence].
  destruct (wf_top t W) as [top [-> _]].
  destruct (first_parent (t_objs t) pc) as [par|]; [|exact I].
  destruct (Nat.eqb par top).
  - pose proof Hn as Hm. apply mem_In in Hm. rewrite Hm. cbn [orb nsat]. split.
    + now apply uinv_move.
    + intros x Hx Hne. now apply move_unapplied.
  - unfold recommit, put. cbv beta iota zeta.
    rewrite t_unapplied_set_updated, t_unapplied_set_objs.
    pose proof Hn as Hm. apply mem_In in Hm. rewrite Hm. cbn [orb nsat]. split.
    + apply uinv_move. eapply uinv_up_some; [reflexivity|reflexivity|].
      eapply uinv_same; [| |exact U]; reflexivity.
    + intros x Hx Hne. apply move_unapplied; auto.
Qed.

Lemma push_tree_list_np : forall ns t,
  wf_txn t -> uinv t -> NoDup ns -> incl ns (t_unapplied t) -> nsat uinv (push_tree_list ns t).
Proof.
  induction ns as [|n ns IH]; intros t W U Hd Hi; cbn [push_tree_list]; [exact U|].
  inversion Hd as [|? ? Hnn Hd']; subst.
  eapply nsat_tbind; [apply (push_tree_wf n t W)|apply (push_tree_np n t W U); apply Hi; now left|].
  intros t1 W1 [U1 Hu]. apply IH; auto.
  intros x Hx. apply Hu; [apply Hi; now right|]. intros ->. contradiction.
Qed.

(* ---------------------------------------------------------------- reorder *)

Lemma list_name_eqb_refl : forall l, list_name_eqb l l = true.
Proof. induction l as [|x l IH]; cbn; [reflexivity|]. now rewrite name_eqb_refl, IH. Qed.

Lemma uinv_pop : forall f t, uinv t -> uinv (fst (pop_patches f t)).
Proof.
  intros f t U. unfold pop_patches. destruct (split_at_first f (t_applied t)). cbn [fst].
  eapply uinv_same; [| |exact U]; reflexivity.
Qed.

Lemma reorder_np : forall a u h t,
  wf_txn t -> uinv t -> reorder_pre a u h t -> nsat uinv (reorder_patches a u h t).
Proof.
  intros a u h t W U Hpre. unfold reorder_patches. destruct a as [al|]; cbn [reorder_pre] in Hpre.
  - destruct Hpre as [Hdal [Hial [ul [-> Hperm]]]].
    set (k := common_prefix_len (t_applied t) al).
    pose proof (names_disjoint t (wt_names t W)) as [Hda _].
    pose proof (uinv_pop (fun n => mem n (skipn k (t_applied t))) t U) as U1.
    destruct (pop_patches (fun n => mem n (skipn k (t_applied t))) t) as [t1 inc] eqn:Epop.
    cbn [fst] in U1.
    pose proof (pop_wf _ _ _ _ W Epop) as [W1 Hp1].
    apply pop_spec in Epop as [keep [popped [Es [_ [Et1 _]]]]].
    rewrite split_at_first_skipn in Es by exact Hda. injection Es as <- <-.
    assert (Ea1 : t_applied t1 = firstn k al) by (rewrite Et1; apply cpl_firstn).
    destruct (NoDup_firstn_skipn _ k al Hdal) as [_ [Hds Hdis]].
    assert (Hpush : forall x, In x (skipn k al) -> In x (t_all t1) /\ ~ In x (t_applied t1)).
    { intros x Hx. split.
      - eapply Permutation_in; [apply Permutation_sym; exact Hp1|]. apply Hial. eapply In_skipn; exact Hx.
      - rewrite Ea1. intros Hi. now apply (Hdis x Hi). }
    pose proof (push_patches_np (skipn k al) false t1 W1 U1 Hds Hpush) as Hnp.
    destruct (push_patches (skipn k al) false t1) as [t2|t2 hh|t2|]; cbn [tbind nsat] in *;
      try exact Hnp; try exact I.
    destruct Hnp as [[[W2 [Ea2 _]] U2] _].
    rewrite Ea1, firstn_skipn in Ea2. rewrite Ea2, list_name_eqb_refl. cbn [tbind nsat].
    destruct h; (eapply uinv_same; [| |exact U2]; reflexivity).
  - cbn [tbind nsat]. destruct u, h; (eapply uinv_same; [| |exact U]; reflexivity).
Qed.

Lemma reorder_some_pre : forall al ul h t,
  wf_txn t ->
  Permutation (al ++ ul ++ match h with
                           | Some hl => hl
                           | None => filter (fun x => negb (mem x al)) (t_hidden t)
                           end) (t_all t) ->
  reorder_pre (Some al) (Some ul) h t.
Proof.
  intros al ul h t W Hp. cbn [reorder_pre].
  assert (Hd : NoDup (al ++ ul ++ match h with Some hl => hl | None => filter (fun x => negb (mem x al)) (t_hidden t) end)).
  { apply (Permutation_NoDup (Permutation_sym Hp)). apply W. }
  apply NoDup_app_iff in Hd as [Hd _]. split; [exact Hd|]. split.
  - intros x Hx. apply (Permutation_in _ Hp). apply in_or_app. now left.
  - exists ul. split; [reflexivity|exact Hp].
Qed.

Lemma reorder_visible_pre : forall al ul t,
  wf_txn t -> Permutation (al ++ ul) (t_applied t ++ t_unapplied t) ->
  reorder_pre (Some al) (Some ul) None t.
Proof.
  intros al ul t W Hp. apply reorder_some_pre; [exact W|].
  pose proof (names_disjoint t (wt_names t W)) as [_ [_ [_ [Hah Huh]]]].
  rewrite filter_all.
  - unfold t_all. rewrite !app_assoc. now apply Permutation_app_tail.
  - intros x Hx. apply negb_mem_true. intros Hi.
    assert (Hv : In x (t_applied t ++ t_unapplied t)).
    { apply (Permutation_in _ Hp). apply in_or_app. now left. }
    apply in_app_or in Hv as [Hv|Hv]; [now apply (Hah x Hv)|now apply (Huh x Hv)].
Qed.

(* ---------------------------------------------------------------- delete *)

Lemma delete_np : forall f t t' inc,
  uinv t -> nis t -> delete_patches f t = (t', inc) -> uinv t'.
Proof.
  intros f t t' inc U Hn H. apply delete_spec in H as [keep [popped [_ [Ha [-> _]]]]].
  eapply uinv_mark_deleted; [reflexivity|reflexivity| |].
  - intros n Hi. change (stack_has t n). apply Hn. unfold t_all. rewrite Ha.
    rewrite !in_app_iff in Hi. rewrite !in_app_iff.
    destruct Hi as [Hi|[Hi|Hi]]; apply filter_In in Hi as [Hi _]; auto.
  - eapply uinv_same; [| |exact U]; reflexivity.
Qed.

Lemma delete_push_np : forall f t,
  wf_txn t -> uinv t -> nis t ->
  nsat uinv (let '(t1, to_push) := delete_patches f t in push_patches to_push false t1).
Proof.
  intros f t W U Hn. destruct (delete_patches f t) as [t1 tp] eqn:E.
  destruct (delete_wf f t t1 tp W E) as [W1 [Hd Hi]].
  apply push_unapplied_np; auto. eapply delete_np; eauto.
Qed.

(* ---------------------------------------------------------------- commit *)

Lemma commit_np : forall tc t,
  wf_txn t -> uinv t -> commit_pre tc t -> tc <> [] -> (forall n, In n tc -> stack_has t n) ->
  nsat uinv (commit_patches tc t).
Proof.
  intros tc t W U [Hdtc [Hitc Hhd]] Hne Hst. unfold commit_patches.
  set (k := common_prefix_len (t_applied t) tc) in *.
  pose proof (names_disjoint t (wt_names t W)) as [Hda _].
  set (to_push := if Nat.ltb k (length tc)
                  then filter (fun n => negb (mem n tc)) (skipn k (t_applied t)) else []).
  assert (Htp : NoDup to_push /\ forall x, In x to_push -> In x (t_all t) /\ ~ In x tc).
  { unfold to_push. destruct (Nat.ltb k (length tc)); [|split; [constructor|intros x []]].
    split; [apply NoDup_filter; now apply NoDup_firstn_skipn|].
    intros x Hx. apply filter_In in Hx as [Hx1 Hx2]. apply negb_mem_true in Hx2. split; [|exact Hx2].
    apply in_all_cases. left. eapply In_skipn; exact Hx1. }
  destruct Htp as [Hdtp Hintp].
  set (Q2 := fun t2 : txn => wf_txn t2 /\ Permutation (t_all t2) (t_all t)
             /\ exists rest, t_applied t2 = tc ++ rest /\ forall x, In x to_push -> ~ In x rest).
  set (Q3 := fun t2 : txn => uinv t2 /\ t_stack t2 = t_stack t).
  match goal with |- nsat _ (tbind ?r1 _) => assert (H1 : res_sat Q2 r1 /\ nsat Q3 r1) end.
  { unfold to_push in *. clear to_push. destruct (Nat.ltb k (length tc)) eqn:Elt.
    - set (tp := filter (fun n => negb (mem n tc)) (skipn k (t_applied t))) in *.
      pose proof (uinv_pop (fun n => mem n tp) t U) as U1.
      assert (Es1 : t_stack (fst (pop_patches (fun n => mem n tp) t)) = t_stack t) by apply fr_pop.
      destruct (pop_patches (fun n => mem n tp) t) as [t1 inc] eqn:Epop. cbn [fst] in U1, Es1.
      pose proof (pop_wf _ _ _ _ W Epop) as [W1 Hp1].
      apply pop_spec in Epop as [keep [popped [Es [_ [Et1 _]]]]].
      destruct (NoDup_firstn_skipn _ k (t_applied t) Hda) as [_ [_ Hdis]].
      rewrite (split_at_first_k _ _ k) in Es.
      + injection Es as <- <-.
        assert (Ea1 : t_applied t1 = firstn k tc) by (rewrite Et1; apply cpl_firstn).
        destruct (NoDup_firstn_skipn _ k tc Hdtc) as [_ [Hds Hdis2]].
        assert (Hpush : forall x, In x (skipn k tc) -> In x (t_all t1) /\ ~ In x (t_applied t1)).
        { intros x Hx. split.
          - eapply Permutation_in; [apply Permutation_sym; exact Hp1|]. apply Hitc. eapply In_skipn; exact Hx.
          - rewrite Ea1. intros Hi. now apply (Hdis2 x Hi). }
        pose proof (push_patches_np (skipn k tc) false t1 W1 U1 Hds Hpush) as Hnp.
        pose proof (push_patches_wf (skipn k tc) false t1 W1 Hds Hpush) as Hwf.
        destruct (push_patches (skipn k tc) false t1) as [t2|t2 hh|t2|]; cbn [tbind nsat res_sat] in *;
          try (split; assumption); try (split; [exact I|exact Hnp]).
        destruct Hnp as [[[W2 [Ea2 [_ Hp2]]] U2] Es2]. split.
        * split; [exact W2|]. split; [eapply Permutation_trans; eassumption|].
          exists []. rewrite Ea2, Ea1, firstn_skipn, app_nil_r. split; [reflexivity|]. intros x _ [].
        * split; [exact U2|congruence].
      + intros x Hx. apply mem_false. unfold tp. rewrite filter_In. intros [Hi _]. now apply (Hdis x Hx).
      + intros y Hy. apply mem_In. unfold tp. apply filter_In. split; [now apply hd_error_In|].
        apply negb_mem_true. now apply Hhd.
    - cbn [res_sat nsat]. split; [|split; [exact U|reflexivity]].
      split; [exact W|]. split; [apply Permutation_refl|].
      apply Nat.ltb_ge in Elt. pose proof (cpl_le (t_applied t) tc) as [Hle _]. fold k in Hle.
      exists (skipn k (t_applied t)). split; [|intros x []].
      rewrite <- (firstn_skipn k (t_applied t)) at 1. f_equal. unfold k. rewrite cpl_firstn. fold k.
      apply firstn_all2. lia. }
  destruct H1 as [H1 H1'].
  eapply nsat_tbind; [exact H1|exact H1'|].
  intros t2 [W2 [Hp2 [rest [Ea2 Hrest]]]] [U2 Es2].
  destruct (hd_error (rev tc)) as [lastn|] eqn:El.
  2:{ exfalso. apply Hne. destruct tc as [|x tc] using rev_ind; [reflexivity|].
      rewrite rev_app_distr in El. discriminate. }
  apply last_error_In in El.
  assert (Hl2 : In lastn (t_all t2)).
  { eapply Permutation_in; [apply Permutation_sym; exact Hp2|]. now apply Hitc. }
  apply (wt_dom t2 W2) in Hl2.
  destruct (t_patch t2 lastn) as [nb|] eqn:Enb; [|congruence].
  assert (Hnb : is_plain (t_objs t2) nb) by (now apply (wt_patch t2 W2) in Enb as [Hx _]).
  pose proof (wf_txn_set_base t2 nb W2 Hnb) as W3.
  rewrite t_applied_set_updated, t_applied_set_base, t_unapplied_set_updated, t_unapplied_set_base,
    t_hidden_set_updated, t_hidden_set_base.
  assert (Hlen : Nat.ltb (length (t_applied t2)) (length tc) = false).
  { apply Nat.ltb_ge. rewrite Ea2, app_length. lia. }
  rewrite Hlen.
  assert (Esk : skipn (length tc) (t_applied t2) = rest).
  { rewrite Ea2. rewrite skipn_app, skipn_all, Nat.sub_diag. reflexivity. }
  rewrite Esk.
  pose proof (wt_names t2 W2) as Hn2. unfold t_all in Hn2. rewrite Ea2, <- app_assoc in Hn2.
  assert (Hdd : NoDup (tc ++ rest ++ t_unapplied t2 ++ t_hidden t2)) by apply Hn2.
  apply NoDup_app_iff in Hdd as [_ [Hdr Hdisj]].
  assert (Hall2 : forall n, In n (t_all t2) <-> In n tc \/ In n (rest ++ t_unapplied t2 ++ t_hidden t2)).
  { intros n. unfold t_all. rewrite Ea2, <- app_assoc, in_app_iff. reflexivity. }
  set (t4 := set_updated (set_base t2 (Some nb)) (mark_deleted (t_updated (set_base t2 (Some nb))) tc)).
  assert (W5 : wf_txn (set_lists t4 rest (t_unapplied t2) (t_hidden t2))).
  { apply (wf_txn_change (set_base t2 (Some nb))); try reflexivity; try exact W3.
    - change (t_all (set_lists t4 rest (t_unapplied t2) (t_hidden t2)))
        with (rest ++ t_unapplied t2 ++ t_hidden t2).
      apply (names_ok_sub _ _ Hn2); [exact Hdr|]. intros x Hx. apply in_or_app. now right.
    - intros n.
      change (t_all (set_lists t4 rest (t_unapplied t2) (t_hidden t2)))
        with (rest ++ t_unapplied t2 ++ t_hidden t2).
      change (t_patch (set_lists t4 rest (t_unapplied t2) (t_hidden t2)) n)
        with (t_patch (set_updated (set_base t2 (Some nb)) (mark_deleted (t_updated (set_base t2 (Some nb))) tc)) n).
      rewrite t_patch_mark_deleted. change (t_patch (set_base t2 (Some nb)) n) with (t_patch t2 n).
      destruct (mem n tc) eqn:Em.
      + apply mem_In in Em. split; [|congruence]. intros Hi. exfalso. now apply (Hdisj n Em).
      + apply mem_false in Em. rewrite <- (wt_dom t2 W2), Hall2. tauto.
    - intros n o.
      change (t_patch (set_lists t4 rest (t_unapplied t2) (t_hidden t2)) n)
        with (t_patch (set_updated (set_base t2 (Some nb)) (mark_deleted (t_updated (set_base t2 (Some nb))) tc)) n).
      rewrite t_patch_mark_deleted. destruct (mem n tc); [discriminate|].
      change (t_patch (set_base t2 (Some nb)) n) with (t_patch t2 n). apply W2. }
  assert (U5 : uinv (set_lists t4 rest (t_unapplied t2) (t_hidden t2))).
  { eapply (uinv_mark_deleted t2 _ tc); [reflexivity|reflexivity| |exact U2].
    intros n Hi. unfold stack_has. rewrite Es2. now apply Hst. }
  apply push_patches_np0; auto.
  intros x Hx. destruct (Hintp x Hx) as [Hx1 Hx2]. split.
  - change (In x (rest ++ t_unapplied t2 ++ t_hidden t2)).
    assert (Hx3 : In x (t_all t2)) by (eapply Permutation_in; [apply Permutation_sym; exact Hp2|exact Hx1]).
    apply Hall2 in Hx3 as [Hx3|Hx3]; [contradiction|exact Hx3].
  - rewrite t_applied_set_lists. now apply Hrest.
Qed.

(* ---------------------------------------------------------------- uncommit / new / update / rename / reset *)

Lemma uncommit_np : forall ps t, uinv t -> nsat uinv (uncommit_patches ps t).
Proof.
  intros ps t U. unfold uncommit_patches. cbn [nsat].
  eapply (uinv_set_all t _ ps); [reflexivity|reflexivity|exact U].
Qed.

Lemma update_patch_np : forall n o t,
  uinv t -> t_patch t n <> None -> nsat uinv (update_patch n o t).
Proof.
  intros n o t U Hn. unfold update_patch. destruct (t_patch t n); [|congruence]. cbn [nsat].
  eapply uinv_up_some; [reflexivity|reflexivity|exact U].
Qed.

Lemma new_applied_np : forall n o t top,
  uinv t -> t_top t = Some top -> first_parent (t_objs t) o = Some top ->
  nsat uinv (new_applied n o t).
Proof.
  intros n o t top U Ht Hp. unfold new_applied. rewrite Hp, Ht, Nat.eqb_refl. cbn [nsat].
  eapply uinv_up_some; [reflexivity|reflexivity|]. eapply uinv_same; [| |exact U]; reflexivity.
Qed.

Lemma rename_np : forall old new t,
  wf_txn t -> uinv t -> In old (t_all t) -> nsat uinv (rename_patch old new t).
Proof.
  intros old new t W U Hold. unfold rename_patch.
  destruct (name_eqb new old); [exact U|].
  match goal with |- nsat _ (if ?b then _ else _) => destruct b end; [exact I|].
  destruct (pm_get (s_patches (t_stack t)) old) as [so|] eqn:Eso; cbn [negb]; [|exact I].
  apply in_all_cases in Hold.
  assert (Hfin : forall o a u h,
    uinv (set_updated (set_lists t a u h) (up_set (up_set (t_updated t) old None) new (Some o)))).
  { intros o a u h. destruct U as [U1 U2]. split.
    - change (NoDup (map fst (up_set (up_set (t_updated t) old None) new (Some o)))).
      apply nodup_up_set. now apply nodup_up_set.
    - intros k Hk. change (In (k, None) (up_set (up_set (t_updated t) old None) new (Some o))) in Hk.
      change (stack_has t k).
      apply in_up_set in Hk as [[_ Hk]|[Hk _]]; [discriminate|].
      apply in_up_set in Hk as [[-> _]|[Hk _]].
      + unfold stack_has. rewrite Eso. discriminate.
      + now apply U2. }
  destruct (mem old (t_applied t)) eqn:E1;
    [|destruct (mem old (t_unapplied t)) eqn:E2; [|destruct (mem old (t_hidden t)) eqn:E3]];
    try (destruct (up_get (t_updated t) old) as [[o|]|]; apply Hfin).
  exfalso. apply mem_false in E1, E2, E3. tauto.
Qed.

Lemma reset_np : forall s t, uinv t -> nis t -> nsat uinv (reset_to_state s t).
Proof.
  intros s t U Hn. unfold reset_to_state.
  match goal with |- nsat _ (match ?nb with Some _ => _ | None => _ end) => destruct nb end; [|exact I].
  cbn [nsat].
  change (fold_left (fun u p => up_set u (fst p) (Some (snd p))) (s_patches s)
            (mark_deleted (t_updated t) (t_all t)))
    with (set_all (s_patches s) (mark_deleted (t_updated t) (t_all t))).
  eapply (uinv_set_all (set_updated t (mark_deleted (t_updated t) (t_all t))) _ (s_patches s));
    [reflexivity|reflexivity|].
  eapply (uinv_mark_deleted t _ (t_all t)); [reflexivity|reflexivity|exact Hn|exact U].
Qed.
