(* F37: the `--merged` heuristic of push / goto is evaluated for every selected patch against the
   tree checked out BEFORE any of them is pushed.  A patch that undoes part of an earlier patch
   of the same push which is NOT merged upstream is therefore taken for merged, emptied, and
   its change is lost.  A witness, reachable from the initial world by commands. *)
From Coq Require Import List NArith ZArith Bool.
From StgV Require Import Model.Chars Model.Name Model.Stack Model.Cmd Model.StackSpec Model.IdentSpec.
Import ListNotations.
Local Open Scope N_scope.

Definition f37_m4 : str := [109; 52].      (* "m4": cells 1 and 2 := 2 *)
Definition f37_n5 : str := [110; 53].      (* "n5": cell 2 := 1 again *)
Definition f37_lower (s : str) : str := s.

Definition f37_cmds : list cmd :=
  [CInit; CNew f37_m4 1 [120; 49]; GEdit 1%nat 2; GEdit 2%nat 2; CRefresh None;
   CNew f37_n5 2 [120; 50]; GEdit 2%nat 1; CRefresh None;
   CPop None None true false false;                      (* stg pop --all *)
   GEdit 11%nat 3; GCommit 3 [120; 51]].                 (* upstream: an unrelated change *)

Definition f37_world : world :=
  run f37_lower (init_world [1; 1; 1; 1; 1; 1; 1; 1; 1; 0; 0; 0]) f37_cmds.

(* stg push --merged --all *)
Definition f37_push : cmd := CPush None None true false false false true false None.

Lemma merged_heuristic_refuted :
  exists w' pc oldp pc' newp t,
    step f37_lower f37_world f37_push = (w', X0)
    /\ patch_commit f37_world f37_n5 = Some pc
    /\ first_parent (w_objs f37_world) pc = Some oldp
    /\ patch_commit w' f37_n5 = Some pc'
    /\ first_parent (w_objs w') pc' = Some newp
    /\ merge3 (tree_of (w_objs f37_world) oldp) (tree_of (w_objs w') newp) (tree_of (w_objs f37_world) pc) = Some t
    /\ tree_of (w_objs w') pc' <> t
    /\ tree_of (w_objs w') pc' = tree_of (w_objs w') newp.
Proof.
  eexists. exists 18%nat, 9%nat, 25%nat, 24%nat. eexists.
  split; [vm_compute; reflexivity|].
  split; [vm_compute; reflexivity|].
  split; [vm_compute; reflexivity|].
  split; [vm_compute; reflexivity|].
  split; [vm_compute; reflexivity|].
  split; [vm_compute; reflexivity|].
  split; [vm_compute; discriminate | vm_compute; reflexivity].
Qed.
