(* C12 - whole-command composition, the other direction of Proofs/CommitRoundTrip.v:
   `stg uncommit -n k` (generated names) followed by `stg commit -n k --allow-empty` gives back
   the stack there was: the three lists and every patch's commit are the same, the branch, the
   index and the work tree are untouched; the head recorded afterwards is the branch head. *)
From Coq Require Import List NArith ZArith Bool Arith Lia.
From StgV Require Import Model.StackSpec Model.LogSpec.
From StgV Require Proofs.ChainBasics Proofs.WfBasics Proofs.ReachBase Proofs.LogProofs
  Proofs.CommitProofs Proofs.UncommitNames Proofs.CommitRoundTrip.
Import ListNotations.
Local Open Scope nat_scope.
Local Open Scope list_scope.

(* ---------------------------------------------------------------- tactics *)

Ltac ucsimp :=
  cbn [CommitRoundTrip.committed begin_txn op_world op_state op_base op_initialized ensure_patch_refs
       w_objs w_branch w_stack w_prefs w_wt w_unmerged w_base w_apc
       s_prev s_head s_applied s_unapplied s_hidden s_patches
       opts CommitRoundTrip.commit_opts CommitRoundTrip.uncommit_opts
       o_conflict_mode o_allow_push_conflicts o_discard_changes o_use_iw o_set_head o_allow_bad_head
       set_lists set_updated set_head set_base set_objs set_tmp set_wt
       t_stack t_stack_base t_branch_head t_opts t_applied t_unapplied t_hidden t_updated
       t_head t_base t_cur_tree t_objs t_tmp_id t_tmp_content t_wt t_wt_unmerged
       andb negb].

Tactic Notation "ucsimp" "in" hyp(H) :=
  cbn [CommitRoundTrip.committed begin_txn op_world op_state op_base op_initialized ensure_patch_refs
       w_objs w_branch w_stack w_prefs w_wt w_unmerged w_base w_apc
       s_prev s_head s_applied s_unapplied s_hidden s_patches
       opts CommitRoundTrip.commit_opts CommitRoundTrip.uncommit_opts
       o_conflict_mode o_allow_push_conflicts o_discard_changes o_use_iw o_set_head o_allow_bad_head
       set_lists set_updated set_head set_base set_objs set_tmp set_wt
       t_stack t_stack_base t_branch_head t_opts t_applied t_unapplied t_hidden t_updated
       t_head t_base t_cur_tree t_objs t_tmp_id t_tmp_content t_wt t_wt_unmerged
       andb negb] in H.

(* ---------------------------------------------------------------- lists *)

Lemma uc_walk_down_length : forall objs k o l, walk_down objs o k = Some l -> length l = k.
Proof.
  intros objs. induction k as [|k IH]; intros o l H.
  - cbn [walk_down] in H. injection H as <-. reflexivity.
  - cbn [walk_down] in H. destruct (parents_of objs o) as [|p [|q r]]; try discriminate.
    destruct (walk_down objs p k) as [l'|] eqn:E; [|discriminate]. injection H as <-.
    cbn [length]. rewrite (IH p l' E). reflexivity.
Qed.

Lemma uc_map_fst_combine : forall (A B : Type) (a : list A) (b : list B),
    length a = length b -> map fst (combine a b) = a.
Proof.
  intros A B. induction a as [|x a IH]; intros b H; [reflexivity|].
  destruct b as [|y b]; [discriminate|]. cbn [combine map fst]. f_equal. apply IH.
  cbn [length] in H. lia.
Qed.

Lemma uc_keys : forall (pns : list name) (commits : list oid),
    length commits = length pns -> map fst (rev (combine pns commits)) = rev pns.
Proof.
  intros pns commits H. rewrite map_rev, uc_map_fst_combine by (symmetry; exact H). reflexivity.
Qed.

Lemma uc_firstn_app : forall (A : Type) (a b : list A), firstn (length a) (a ++ b) = a.
Proof.
  intros A a b. rewrite firstn_app, Nat.sub_diag, firstn_all. cbn [firstn]. apply app_nil_r.
Qed.

Lemma uc_skipn_app : forall (A : Type) (a b : list A), skipn (length a) (a ++ b) = b.
Proof.
  intros A a b. rewrite skipn_app, Nat.sub_diag, skipn_all. reflexivity.
Qed.

Lemma uc_nodup_app : forall (A : Type) (a b : list A),
    NoDup a -> NoDup b -> (forall x, In x a -> ~ In x b) -> NoDup (a ++ b).
Proof.
  intros A a. induction a as [|x a IH]; intros b Ha Hb Hd; [exact Hb|].
  inversion Ha as [|y ys Hx Ha']; subst. cbn [app]. constructor.
  - intro Hin. apply in_app_or in Hin. destruct Hin as [Hin|Hin]; [exact (Hx Hin)|].
    apply (Hd x); [left; reflexivity|exact Hin].
  - apply IH; [exact Ha'|exact Hb|]. intros z Hz. apply Hd. right. exact Hz.
Qed.

Lemma uc_pm_get_key : forall (ps : list (name * oid)) n,
    In n (map fst ps) -> exists o, pm_get ps n = Some o.
Proof.
  induction ps as [|[k v] ps IH]; intros n H; [destruct H|].
  cbn [pm_get]. destruct (name_eqb k n) eqn:E; [exists v; reflexivity|].
  cbn [map fst] in H. destruct H as [->|H]; [|exact (IH n H)].
  rewrite CommitRoundTrip.rt_name_eqb_refl in E. discriminate.
Qed.

(* ---------------------------------------------------------------- the shape of a successful uncommit -n k *)

Lemma run_uncommit_gen_inv : forall lower_s w k w',
    run_uncommit lower_s w (Some (N.of_nat k)) [] = (w', X0) ->
    exists op commits pns,
      open_stack PAuto w = Some op
      /\ head_top_ok op = true
      /\ walk_down (w_objs (op_world op)) (op_base op) k = Some commits
      /\ make_patchnames lower_s (w_objs (op_world op)) (op_state op) commits = Some pns
      /\ length commits = length pns
      /\ transact op (CommitRoundTrip.uncommit_opts (w_apc (op_world op)))
                  (uncommit_patches (rev (combine pns commits))) MOp = (w', X0).
Proof.
  intros lower_s w k w' H. unfold run_uncommit in H. cbv zeta in H. cbn [fold_right] in H.
  destruct (open_stack PAuto w) as [op|]; [|discriminate].
  destruct (head_top_ok op) eqn:Eh; cbn [negb] in H; [|discriminate].
  rewrite Nat2N.id in H.
  destruct (walk_down (w_objs (op_world op)) (op_base op) k) as [commits|] eqn:W; [|discriminate].
  destruct (make_patchnames lower_s (w_objs (op_world op)) (op_state op) commits) as [pns|] eqn:M;
    [|discriminate].
  destruct (Nat.eqb (length commits) (length pns)) eqn:El; cbn [negb] in H; [|discriminate].
  apply Nat.eqb_eq in El.
  exists op, commits, pns. repeat split; assumption.
Qed.

(* ---------------------------------------------------------------- the commit side, from list facts only *)

(* Proofs/CommitRoundTrip.v commit_side with the two facts it takes from Inv6 as hypotheses *)
Lemma commit_side_lists : forall w st0 k ae w1,
    NoDup (s_applied st0) ->
    (forall n, In n (s_applied st0) -> exists o, pm_get (s_patches st0) n = Some o) ->
    cur_state w = Some st0 ->
    1 <= k -> k <= length (s_applied st0) ->
    run_commit w None (Some (N.of_nat k)) false ae = (w1, X0) ->
    exists prev objsm so1,
      store_extends (w_objs w) objsm
      /\ state_commit objsm
           (mkState (Some prev) (w_branch w) (skipn k (s_applied st0)) (s_unapplied st0)
                    (s_hidden st0)
                    (pm_apply (s_patches st0) (mark_deleted [] (firstn k (s_applied st0))))) MOp
         = Some (w_objs w1, so1)
      /\ w_stack w1 = Some so1
      /\ w_branch w1 = w_branch w /\ w_wt w1 = w_wt w /\ w_unmerged w1 = w_unmerged w
      /\ s_top st0 = w_branch w.
Proof.
  intros w st0 k ae w1 HndA HmapA Hcur Hk1 Hk2 H.
  destruct (CommitRoundTrip.run_commit_n_inv _ _ _ _ Hk1 H) as [op [Hop [_ [Hht Htr]]]].
  destruct (CommitRoundTrip.open_cur _ _ _ _ Hcur (or_introl eq_refl) Hop) as [Ew [Es [Ei Eb]]].
  destruct op as [ow os ob oi]. cbn [op_world op_state op_initialized op_base] in Ew, Es, Ei, Eb.
  subst ow os oi.
  destruct (CommitRoundTrip.hd_rev_nonempty _ (firstn k (s_applied st0))
              (CommitRoundTrip.firstn_nonempty _ _ _ Hk1 Hk2))
    as [lastn [Hlast Hlastin]].
  assert (HlastA : In lastn (s_applied st0)).
  { rewrite <- (firstn_skipn k (s_applied st0)). apply in_or_app. left. exact Hlastin. }
  destruct (HmapA lastn HlastA) as [lasto Hlasto].
  assert (HneA : s_applied st0 <> []).
  { intro E. rewrite E in Hk2. cbn [length] in Hk2. lia. }
  destruct (CommitRoundTrip.hd_rev_nonempty _ (s_applied st0) HneA) as [ln [Hln Hlnin]].
  destruct (HmapA ln Hlnin) as [o Ho].
  pose proof (CommitRoundTrip.s_top_eq st0 ln o Hln Ho) as Htop.
  assert (Hbr : s_top st0 = w_branch w).
  { unfold head_top_ok in Hht. ucsimp in Hht.
    destruct (s_applied st0) as [|a A']; [contradiction HneA; reflexivity|].
    apply Nat.eqb_eq in Hht. exact Hht. }
  unfold transact in Htr. ucsimp in Htr.
  match type of Htr with
  | execute _ (commit_patches ?l ?t) _ = _ =>
      assert (Ecp : commit_patches l t = TOk (CommitRoundTrip.committed k lasto t))
        by exact (CommitRoundTrip.commit_bottom_explicit k t lastn lasto Hk1 Hk2 Hlast Hlasto);
      rewrite Ecp in Htr; clear Ecp;
      pose proof (CommitRoundTrip.committed_head k t lastn lasto ln o eq_refl eq_refl HndA Hlast
                    Hlasto Hln Ho) as Hth
  end.
  destruct (CommitRoundTrip.exec_ok_inv _ _ _ _ Htr)
    as [th [prev [objsm [so1 [Hth' [Hext [Hsc [Hst1 [Hb1 [_ Hco]]]]]]]]]].
  rewrite Hth in Hth'. injection Hth' as <-.
  ucsimp in Hext. ucsimp in Hsc. ucsimp in Hb1. ucsimp in Hco. ucsimp in Hst1.
  specialize (Hco eq_refl).
  rewrite Htop, Hbr in *.
  apply CommitRoundTrip.checkout_same_tree in Hco; [|reflexivity].
  injection Hco as Hwt Hum.
  exists prev, objsm, so1. repeat split; assumption.
Qed.

(* ---------------------------------------------------------------- the uncommit side *)

Lemma uncommit_patches_install : forall ps t,
    uncommit_patches ps t
    = TOk (set_lists (set_updated t (LogProofs.install ps (t_updated t)))
                     (map fst ps ++ t_applied t) (t_unapplied t) (t_hidden t)).
Proof. reflexivity. Qed.

Definition after_uncommit (st0 : sstate) (pns : list name) (ps : list (name * oid))
           (prev : option oid) (head : oid) : sstate :=
  mkState prev head (rev pns ++ s_applied st0) (s_unapplied st0) (s_hidden st0)
          (pm_apply (s_patches st0) (LogProofs.install ps [])).

Lemma uncommit_gen_side : forall lower_s w st0 k w1,
    cur_state w = Some st0 ->
    run_uncommit lower_s w (Some (N.of_nat k)) [] = (w1, X0) ->
    exists pns ps prev th,
      length pns = k /\ NoDup pns /\ (forall n, In n pns -> ~ In n (all_of st0))
      /\ map fst ps = rev pns
      /\ cur_state w1 = Some (after_uncommit st0 pns ps (Some prev) th).
Proof.
  intros lower_s w st0 k w1 Hcur H.
  destruct (run_uncommit_gen_inv _ _ _ _ H) as [op [commits [pns [Hop [_ [Hwd [Hmk [Hlen Htr]]]]]]]].
  destruct (CommitRoundTrip.open_cur _ _ _ _ Hcur (or_intror eq_refl) Hop) as [Ew [Es [Ei Eb]]].
  destruct op as [ow os ob oi]. cbn [op_world op_state op_initialized op_base] in Ew, Es, Ei, Eb, Hwd, Hmk.
  subst ow os oi.
  apply uc_walk_down_length in Hwd.
  destruct (UncommitNames.make_patchnames_nodup _ _ _ _ _ Hmk) as [_ [Hnd Hdis]].
  unfold transact in Htr. ucsimp in Htr. rewrite uncommit_patches_install in Htr.
  destruct (CommitRoundTrip.exec_ok_inv _ _ _ _ Htr) as [th [prev [objsm [so1 [_ [_ [Hsc [Hst1 _]]]]]]]].
  ucsimp in Hsc. rewrite (uc_keys pns commits Hlen) in Hsc.
  apply ReachBase.state_commit_strong in Hsc. destruct Hsc as [_ [_ [Hso1 _]]].
  exists pns, (rev (combine pns commits)), prev, th.
  split; [congruence|]. split; [exact Hnd|]. split; [exact Hdis|].
  split; [exact (uc_keys pns commits Hlen)|].
  unfold cur_state. rewrite Hst1. exact Hso1.
Qed.

(* ---------------------------------------------------------------- the patch map *)

Lemma after_uncommit_get_new : forall st0 pns ps prev th n,
    NoDup pns -> map fst ps = rev pns -> In n pns ->
    exists o, pm_get (s_patches (after_uncommit st0 pns ps prev th)) n = Some o.
Proof.
  intros st0 pns ps prev th n Hnd Hk Hin. unfold after_uncommit. cbn [s_patches].
  assert (Hkey : In n (map fst ps)) by (rewrite Hk; apply in_rev; rewrite rev_involutive; exact Hin).
  destruct (uc_pm_get_key ps n Hkey) as [o Ho]. exists o.
  rewrite WfBasics.pm_get_apply, (LogProofs.install_key ps [] n o); [reflexivity| |exact Ho].
  rewrite Hk. apply NoDup_rev. exact Hnd.
Qed.

Lemma after_uncommit_get_old : forall st0 pns ps prev th n,
    map fst ps = rev pns -> ~ In n pns ->
    pm_get (s_patches (after_uncommit st0 pns ps prev th)) n = pm_get (s_patches st0) n.
Proof.
  intros st0 pns ps prev th n Hk Hni. unfold after_uncommit. cbn [s_patches].
  rewrite WfBasics.pm_get_apply, LogProofs.install_not_key; [reflexivity|].
  rewrite Hk. intro Hin. apply Hni. apply in_rev. exact Hin.
Qed.

(* the patch map after uncommit then commit of the generated names *)
Lemma uc_roundtrip_patches : forall st0 pns ps prev th n,
    map fst ps = rev pns ->
    (forall m, In m pns -> pm_get (s_patches st0) m = None) ->
    pm_get (pm_apply (s_patches (after_uncommit st0 pns ps prev th)) (mark_deleted [] (rev pns))) n
    = pm_get (s_patches st0) n.
Proof.
  intros st0 pns ps prev th n Hk Hfresh.
  destruct (in_dec LogProofs.name_eq_dec n pns) as [Hin|Hni].
  - rewrite CommitRoundTrip.deleted_get_in by (apply -> in_rev; exact Hin).
    symmetry. apply Hfresh. exact Hin.
  - rewrite CommitRoundTrip.deleted_get_notin by (intro Hin; apply Hni; apply in_rev; exact Hin).
    apply after_uncommit_get_old; assumption.
Qed.

(* ---------------------------------------------------------------- the round trip *)

Lemma uncommit_commit_roundtrip :
  forall lower_s, LowerOK lower_s ->
  forall w st0 k w1 w2,
    Inv6 w ->
    cur_state w = Some st0 ->
    (1 <= k)%nat ->
    step lower_s w (CUncommit (Some (N.of_nat k)) []) = (w1, X0) ->
    step lower_s w1 (CCommit None (Some (N.of_nat k)) false true) = (w2, X0) ->
    (exists st2, cur_state w2 = Some st2
                 /\ s_applied st2 = s_applied st0 /\ s_unapplied st2 = s_unapplied st0
                 /\ s_hidden st2 = s_hidden st0
                 /\ s_head st2 = w_branch w
                 /\ (forall n, pm_get (s_patches st2) n = pm_get (s_patches st0) n))
    /\ w_branch w1 = w_branch w /\ w_branch w2 = w_branch w
    /\ w_wt w2 = w_wt w /\ w_unmerged w2 = w_unmerged w.
Proof.
  intros lower_s _ w st0 k w1 w2 I6 Hcur Hk1 H1 H2.
  cbn [step] in H1, H2.
  (* what the invariant says about st0 *)
  destruct (CommitRoundTrip.cur_state_inv _ _ Hcur) as [so [Hso Hst]].
  destruct I6 as [[[_ [Hwf _]] _] _]. specialize (Hwf so st0 Hst).
  destruct Hwf as [[Hnd _] [_ [Hmap _]]].
  assert (HndA : NoDup (s_applied st0)).
  { unfold all_of in Hnd. apply CommitRoundTrip.nodup_app_l in Hnd. exact Hnd. }
  (* the uncommit *)
  destruct (uncommit_gen_side _ _ _ _ _ Hcur H1)
    as [pns [ps [prev1 [th1 [Hlen [Hndp [Hdis [Hkeys Hcur1]]]]]]]].
  destruct (CommitProofs.uncommit_keeps_head _ _ _ _ _ _ H1) as [Hb1 [Hwt1 Hum1]].
  set (st1 := after_uncommit st0 pns ps (Some prev1) th1) in *.
  assert (Hfresh : forall m, In m pns -> pm_get (s_patches st0) m = None).
  { intros m Hm. destruct (pm_get (s_patches st0) m) as [o|] eqn:E; [|reflexivity].
    exfalso. apply (Hdis m Hm). apply Hmap. rewrite E. discriminate. }
  assert (Hlenr : length (rev pns) = k) by (rewrite rev_length; exact Hlen).
  assert (Happ1 : s_applied st1 = rev pns ++ s_applied st0) by reflexivity.
  assert (Hk2 : k <= length (s_applied st1)).
  { rewrite Happ1, app_length, Hlenr. lia. }
  assert (Hnd1 : NoDup (s_applied st1)).
  { rewrite Happ1. apply uc_nodup_app; [apply NoDup_rev; exact Hndp|exact HndA|].
    intros x Hx Hxa. apply in_rev in Hx. apply (Hdis x Hx). unfold all_of.
    apply in_or_app. left. exact Hxa. }
  assert (Hmap1 : forall n, In n (s_applied st1) -> exists o, pm_get (s_patches st1) n = Some o).
  { intros n Hn. destruct (in_dec LogProofs.name_eq_dec n pns) as [Hin|Hni].
    - unfold st1. apply after_uncommit_get_new; assumption.
    - unfold st1. rewrite (after_uncommit_get_old st0 pns ps (Some prev1) th1 n Hkeys Hni).
      rewrite Happ1 in Hn. apply in_app_or in Hn. destruct Hn as [Hn|Hn].
      + exfalso. apply Hni. apply in_rev. exact Hn.
      + assert (Hall : In n (all_of st0)) by (unfold all_of; apply in_or_app; left; exact Hn).
        apply Hmap in Hall. destruct (pm_get (s_patches st0) n) as [o|]; [exists o; reflexivity|congruence]. }
  (* the commit *)
  destruct (commit_side_lists _ _ _ _ _ Hnd1 Hmap1 Hcur1 Hk1 Hk2 H2)
    as [prev2 [objsm [so2 [_ [Hsc [Hst2 [Hb2 [Hwt2 [Hum2 _]]]]]]]]].
  apply ReachBase.state_commit_strong in Hsc. destruct Hsc as [_ [_ [Hso2 _]]].
  rewrite Happ1 in Hso2. rewrite <- Hlenr in Hso2 at 1 2.
  rewrite uc_firstn_app, uc_skipn_app in Hso2.
  split.
  - eexists. split; [unfold cur_state; rewrite Hst2; exact Hso2|].
    cbn [s_applied s_unapplied s_hidden s_head s_patches].
    split; [reflexivity|]. split; [reflexivity|]. split; [reflexivity|]. split; [exact Hb1|].
    intro n. unfold st1. apply uc_roundtrip_patches; assumption.
  - rewrite Hb2, Hwt2, Hum2. repeat split; assumption.
Qed.

(* ---------------------------------------------------------------- non-vacuity *)

(* two plain-git commits below the base of a stack with one applied patch *)
Definition uc_world : world :=
  run (fun s => s) (init_world [1; 1; 1; 0]%N)
      [GEdit 0 5%N; GCommit 1%N [120%N]; GEdit 1 6%N; GCommit 2%N [121%N];
       CInit; CNew [112; 48]%N 1%N [122%N]].

Example uncommit_commit_nonvacuous : exists w st0 w1 w2,
    cur_state w = Some st0
    /\ step (fun s => s) w (CUncommit (Some 2%N) []) = (w1, X0)
    /\ step (fun s => s) w1 (CCommit None (Some 2%N) false true) = (w2, X0).
Proof.
  exists uc_world.
  exists (match cur_state uc_world with Some s => s | None => empty_state 0 end).
  exists (fst (step (fun s => s) uc_world (CUncommit (Some 2%N) []))).
  exists (fst (step (fun s => s) (fst (step (fun s => s) uc_world (CUncommit (Some 2%N) [])))
                    (CCommit None (Some 2%N) false true))).
  split; [vm_compute; reflexivity|].
  split; vm_compute; reflexivity.
Qed.
