(* C16: opening a stack with a non-initialising policy does not change a repository whose
   patch refs already mirror the stack. *)
From StgV Require Import Model.StackSpec Proofs.WfProofs.

Definition readonly_policy (p : policy) : bool :=
  match p with PAllow | PRequire => true | _ => false end.

(* the world is unchanged except for the representation of the patch-ref map, which denotes
   the same map *)
Definition same_repository (a b : world) : Prop :=
  w_objs a = w_objs b /\ w_branch a = w_branch b /\ w_stack a = w_stack b
  /\ w_wt a = w_wt b /\ w_unmerged a = w_unmerged b
  /\ (forall n, pm_get (w_prefs a) n = pm_get (w_prefs b) n).

Lemma open_readonly :
  forall p w op,
    readonly_policy p = true -> mirror w -> w_prefs w = [] \/ cur_state w <> None ->
    open_stack p w = Some op -> same_repository w (op_world op).
Proof.
  intros p w op Hp Hm Hinit Ho.
  unfold open_stack in Ho.
  destruct p; try discriminate Hp.
  - (* PRequire *)
    destruct (w_stack w) as [so|] eqn:Es; [|discriminate].
    destruct (state_of (w_objs w) so) as [s|] eqn:Est; [|discriminate].
    destruct (stack_base _ _ s); [|discriminate]. injection Ho as <-. cbn.
    repeat split; try reflexivity; try (symmetry; exact Es).
    intros n. unfold mirror, cur_state in Hm. rewrite Es, Est in Hm. apply Hm.
  - (* PAllow *)
    destruct (w_stack w) as [so|] eqn:Es.
    + destruct (state_of (w_objs w) so) as [s|] eqn:Est; [|discriminate].
      destruct (stack_base _ _ s); [|discriminate]. injection Ho as <-. cbn.
      repeat split; try reflexivity; try (symmetry; exact Es).
      intros n. unfold mirror, cur_state in Hm. rewrite Es, Est in Hm. apply Hm.
    + injection Ho as <-. cbn.
      repeat split; try reflexivity; try (symmetry; exact Es).
      intros n. destruct Hinit as [Hn|Hc].
      * rewrite Hn. reflexivity.
      * exfalso. apply Hc. unfold cur_state. now rewrite Es.
Qed.

(* an inspection command is modelled as opening the stack only *)
Lemma inspect_readonly :
  forall lower_s w,
    mirror w -> w_prefs w = [] \/ cur_state w <> None ->
    same_repository w (fst (step lower_s w CInspect)).
Proof.
  intros lower_s w Hm Hi. cbn [step].
  destruct (open_stack PAllow w) as [op|] eqn:Eo.
  - cbn [fst]. apply (open_readonly PAllow w op eq_refl Hm Hi Eo).
  - cbn [fst]. repeat split; reflexivity.
Qed.

(* an inspection command never initialises a stack *)
Lemma inspect_never_initialises :
  forall lower_s w, w_stack w = None -> w_stack (fst (step lower_s w CInspect)) = None.
Proof.
  intros lower_s w Hs. cbn [step]. unfold open_stack. rewrite Hs. cbn. exact Hs.
Qed.
