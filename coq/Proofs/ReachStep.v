(* C06, part 4: every command changes (object store, stack ref) by an [evolve]. *)
From Coq Require Import Lia.
From StgV Require Import Model.StackSpec Model.LogSpec Proofs.ReachBase Proofs.ReachEvolve Proofs.ReachTxn
  Proofs.PickBasics.
Local Open Scope nat_scope.

Definition EV (b : bool) (w w' : world) : Prop :=
  evolve b (w_objs w) (w_stack w) (w_objs w') (w_stack w').

Lemma EV_refl : forall b w, EV b w w.
Proof. intros. apply ev_refl. Qed.

Lemma EV_trans : forall b w1 w2 w3, EV b w1 w2 -> EV b w2 w3 -> EV b w1 w3.
Proof. unfold EV. intros. eapply evolve_trans; eauto. Qed.

Lemma EV_same : forall b w w1 w2, EV b w w1 -> w_objs w2 = w_objs w1 -> w_stack w2 = w_stack w1 -> EV b w w2.
Proof. unfold EV. intros b w w1 w2 H E1 E2. now rewrite E1, E2. Qed.

Lemma EV_ext : forall b w w1 w2, EV b w w1 -> plain_extends (w_objs w1) (w_objs w2) ->
  w_stack w2 = w_stack w1 -> EV b w w2.
Proof.
  unfold EV. intros b w w1 w2 H E1 E2. rewrite E2. eapply evolve_trans; [exact H|].
  now apply evolve_ext.
Qed.

Lemma EV_commit : forall b w w1 w2 s msg so,
  EV b w w1 -> s_prev s = w_stack w1 -> state_commit (w_objs w1) s msg = Some (w_objs w2, so) ->
  w_stack w2 = Some so -> EV b w w2.
Proof.
  unfold EV. intros b w w1 w2 s msg so H P C E. rewrite E. eapply evolve_trans; [exact H|].
  apply evolve_one. eapply es_commit; eauto.
Qed.

(* ---------------------------------------------------------------- open_stack *)

Lemma open_stack_ev : forall p w op, open_stack p w = Some op -> p <> PForce -> EV false w (op_world op).
Proof.
  intros p w op H NF. unfold open_stack in H.
  assert (FR : forall so,
    match state_of (w_objs w) so with
    | None => None
    | Some s => match stack_base (w_objs w) (w_branch w) s with
                | None => None
                | Some b => Some (mkOpened (ensure_patch_refs w s) s b true)
                end
    end = Some op -> EV false w (op_world op)).
  { intros so F. destruct (state_of (w_objs w) so); [|discriminate].
    destruct (stack_base _ _ _); [|discriminate]. inversion F; subst.
    apply EV_same with (w1 := w); [apply EV_refl|reflexivity|reflexivity]. }
  assert (IN : w_stack w = None ->
    match state_commit (w_objs w) (empty_state (w_branch w)) MOp with
    | None => None
    | Some (objs', so) =>
        Some (mkOpened (ensure_patch_refs
                          (mkWorld objs' (w_branch w) (Some so) (w_prefs w) (w_wt w) (w_unmerged w) (w_base w) (w_apc w))
                          (empty_state (w_branch w)))
                       (empty_state (w_branch w)) (w_branch w) true)
    end = Some op -> EV false w (op_world op)).
  { intros N F. destruct (state_commit _ _ _) as [[objs' so]|] eqn:C; [|discriminate].
    inversion F; subst. eapply EV_commit; [apply EV_refl| |exact C|reflexivity].
    rewrite N. reflexivity. }
  destruct p; destruct (w_stack w) as [so|] eqn:S; try discriminate; try congruence;
    try (now apply (FR so)); try (now apply IN).
  inversion H; subst. apply EV_same with (w1 := w); [apply EV_refl|reflexivity|reflexivity].
Qed.

(* ---------------------------------------------------------------- execute *)

Lemma log_external_mods_ev : forall w s w1 s1,
  log_external_mods w s = Some (w1, s1) -> EV false w w1.
Proof.
  intros w s w1 s1 H. unfold log_external_mods in H.
  destruct (w_stack w) as [so|] eqn:S; [|discriminate].
  destruct (state_commit _ _ _) as [[objs' so']|] eqn:C; [|discriminate].
  inversion H; subst. eapply EV_commit; [apply EV_refl| |exact C|reflexivity].
  rewrite S. reflexivity.
Qed.

Definition exec_body (w : world) (t : txn) (halted : option halt) (msg : msgkind) : world * exitc :=
      let consistent :=
        forallb (fun p => match snd p with
                          | None => match pm_get (s_patches (t_stack t)) (fst p) with
                                    | Some _ => true | None => false end
                          | Some _ => mem (fst p) (t_all t)
                          end) (t_updated t) in
      if negb consistent then (w, XPanic)
      else
        match t_head_oid t with
        | None => (w, XPanic)
        | Some trans_head =>
            let trans_head_tree := tree_of (t_objs t) trans_head in
            let trans_top := hd_error (rev (t_applied t)) in
            let stack_top := hd_error (rev (s_applied (t_stack t))) in
            let w0 := mkWorld (t_objs t) (w_branch w) (w_stack w) (w_prefs w) (t_wt t)
                              (t_wt_unmerged t) (w_base w) (w_apc w) in
            (* log external modifications *)
            let logged :=
              if Nat.eqb (s_head (t_stack t)) (w_branch w) then Some (w0, t_stack t)
              else log_external_mods w0 (t_stack t) in
            match logged with
            | None => (w0, X2)
            | Some (w1, st1) =>
                let o := t_opts t in
                let co :=
                  if o_set_head o && o_use_iw o then
                    if negb (o_allow_bad_head o)
                       && negb (match s_applied st1 with [] => true | _ => false end)
                       && negb (Nat.eqb (s_top st1) (w_branch w1))
                    then inr (w_wt w1, w_unmerged w1, X2)
                    else
                      match checkout o stack_top trans_top (w_wt w1) (w_unmerged w1)
                                     (t_cur_tree t) trans_head_tree with
                      | Some (wt', um') => inl (wt', um')
                      | None =>
                          (* rollback(current_tree_id, e): check out the pre-transaction
                             tree again, then fail with a plain command error *)
                          let rollback_tree := tree_of (w_objs w1) (w_branch w1) in
                          match checkout o stack_top trans_top (w_wt w1) (w_unmerged w1)
                                         (t_cur_tree t) rollback_tree with
                          | Some (wt', um') => inr (wt', um', X2)
                          | None =>
                              inr (w_wt w1, w_unmerged w1,
                                   if tree_eqb (t_cur_tree t) rollback_tree then X2 else X3)
                          end
                      end
                  else inl (w_wt w1, w_unmerged w1) in
                match co with
                | inr (wt', um', x) =>
                    (mkWorld (w_objs w1) (w_branch w1) (w_stack w1) (w_prefs w1) wt' um' (w_base w1) (w_apc w1), x)
                | inl (wt', um') =>
                    match w_stack w1 with
                    | None => (w1, X2)                   (* find_reference fails *)
                    | Some prev =>
                        let patches' := pm_apply (s_patches st1) (t_updated t) in
                        let s' := mkState (Some prev) trans_head (t_applied t) (t_unapplied t)
                                          (t_hidden t) patches' in
                        match state_commit (w_objs w1) s' msg with
                        | None => (w1, XPanic)
                        | Some (objs', so) =>
                            let prefs' :=
                              fold_right (fun p prefs =>
                                            match snd p with
                                            | Some o' => pm_set prefs (fst p) o'
                                            | None => pm_remove prefs (fst p)
                                            end) (w_prefs w1) (t_updated t) in
                            let branch' := if o_set_head o then trans_head else w_branch w1 in
                            let w2 := mkWorld objs' branch' (Some so) prefs' wt' um'
                                              (match t_base t with Some b => b | None => w_base w1 end) (w_apc w1) in
                            match halted with
                            | Some _ => (w2, X3)
                            | None => (w2, X0)
                            end
                        end
                    end
                end
            end
        end.

Lemma exec_body_ev : forall w t halted msg,
  plain_extends (w_objs w) (t_objs t) -> EV false w (fst (exec_body w t halted msg)).
Proof.
  intros w t halted msg E. unfold exec_body.
  destruct (negb (forallb _ (t_updated t))); [apply EV_refl|].
  destruct (t_head_oid t) as [th|]; [|apply EV_refl].
  cbv zeta.
  match goal with
  | |- EV false ?w (fst (match ?lg with Some _ => _ | None => _ end)) =>
      assert (L : match lg with
                  | Some (w1, _) => EV false w w1
                  | None => True
                  end)
  end.
  { destruct (Nat.eqb (s_head (t_stack t)) (w_branch w)).
    - eapply EV_ext; [apply EV_refl|exact E|reflexivity].
    - match goal with |- match ?l with _ => _ end => destruct l as [[w1 s1]|] eqn:LE; [|exact I] end.
      eapply EV_trans; [|eapply log_external_mods_ev; exact LE].
      eapply EV_ext; [apply EV_refl|exact E|reflexivity]. }
  match goal with
  | |- EV false _ (fst (match ?lg with Some _ => _ | None => _ end)) =>
      destruct lg as [[w1 st1]|]
  end.
  2: { eapply EV_ext; [apply EV_refl|exact E|reflexivity]. }
  match goal with
  | |- EV false _ (fst (match ?co with inl _ => _ | inr _ => _ end)) =>
      destruct co as [[wt' um']|[[wt' um'] x]]
  end.
  2: { eapply EV_same; [exact L|reflexivity|reflexivity]. }
  destruct (w_stack w1) as [prev|] eqn:SP; [|exact L].
  match goal with
  | |- EV false _ (fst (match ?sc with Some _ => _ | None => _ end)) =>
      destruct sc as [[objs' so]|] eqn:SC; [|exact L]
  end.
  assert (F : forall x, EV false w (mkWorld objs' (if o_set_head (t_opts t) then th else w_branch w1) (Some so)
                    (fold_right (fun p prefs => match snd p with
                                                | Some o' => pm_set prefs (fst p) o'
                                                | None => pm_remove prefs (fst p)
                                                end) (w_prefs w1) (t_updated t))
                    wt' um' x (w_apc w1))).
  { intros x. eapply EV_commit; [exact L| |exact SC|reflexivity]. cbn [s_prev]. now rewrite SP. }
  destruct halted; apply F.
Qed.

Lemma execute_ev : forall w r msg, texts (w_objs w) r -> EV false w (fst (execute w r msg)).
Proof.
  intros w r msg E. destruct r as [t|t h|t|]; cbn [texts] in E.
  - exact (exec_body_ev w t None msg E).
  - exact (exec_body_ev w t (Some h) msg E).
  - eapply EV_ext; [apply EV_refl|exact E|reflexivity].
  - apply EV_refl.
Qed.

(* ---------------------------------------------------------------- transact *)

Lemma transact_ev : forall w op o f msg,
  EV false w (op_world op) -> keeps f -> EV false w (fst (transact op o f msg)).
Proof.
  intros w op o f msg H K. unfold transact. destruct (negb (op_initialized op)).
  - destruct (f (begin_txn op o)); exact H.
  - eapply EV_trans; [exact H|]. apply execute_ev. apply K. apply ext_by_refl.
Qed.

(* closures used by the commands *)

Lemma delete_push_keeps : forall g,
  keeps (fun t => let '(t1, to_push) := delete_patches g t in push_patches to_push false t1).
Proof.
  intros g objs t E. destruct (delete_patches g t) as [t1 tp] eqn:DP.
  apply objs_delete_patches in DP. apply push_patches_keeps. now rewrite DP.
Qed.

Ltac kapply :=
  first [ apply push_patches_keeps | apply push_tree_list_keeps | apply reorder_patches_keeps
        | apply commit_patches_keeps | apply uncommit_patches_keeps | apply hide_patches_keeps
        | apply unhide_patches_keeps | apply rename_patch_keeps | apply new_applied_keeps
        | apply update_patch_keeps | apply reset_to_state_keeps
        | apply reset_to_state_partially_keeps ].

Ltac ksolve :=
  first [ apply delete_push_keeps
        | let objs := fresh "objs" in let t := fresh "t" in let E := fresh "E" in
          intros objs t E; cbv beta zeta; repeat brk;
          first [ exact I | exact E | kapply; exact E ] ].

Ltac brk2 :=
  match goal with
  | |- context [match ?x with _ => _ end] =>
      lazymatch x with
      | match _ with _ => _ end => fail
      | _ => destruct x eqn:?
      end
  end.

Ltac leaf Hev :=
  cbn [fst err2 ok0];
  first [ apply EV_refl
        | exact Hev
        | apply transact_ev; [exact Hev|ksolve] ].

Ltac open_then :=
  cbv zeta;
  lazymatch goal with
  | |- context [open_stack ?p ?w] =>
      let op := fresh "op" in let Hop := fresh "Hop" in let Hev := fresh "Hev" in
      destruct (open_stack p w) as [op|] eqn:Hop;
      [ assert (Hev : EV false w (op_world op)) by (eapply open_stack_ev; [exact Hop|discriminate]);
        unfold rres_bind; repeat (first [brk|brk2]; cbv beta); leaf Hev
      | repeat first [brk|brk2]; apply EV_refl ]
  end.

Lemma run_push_ev : forall w r n al rv na st mg kp cf,
  EV false w (fst (run_push w r n al rv na st mg kp cf)).
Proof. intros. unfold run_push. open_then. Qed.

Lemma run_pop_ev : forall w r n al kp sp, EV false w (fst (run_pop w r n al kp sp)).
Proof. intros. unfold run_pop. open_then. Qed.

Lemma run_goto_ev : forall w l kp mg cf, EV false w (fst (run_goto w l kp mg cf)).
Proof. intros. unfold run_goto. destruct (parse_locator l); [|apply EV_refl]. open_then. Qed.

Lemma run_float_ev : forall w r na kp, EV false w (fst (run_float w r na kp)).
Proof. intros. unfold run_float. destruct (parse_ranges r); [|apply EV_refl]. open_then. Qed.

Lemma run_sink_ev : forall w r tg np kp, EV false w (fst (run_sink w r tg np kp)).
Proof. intros. unfold run_sink. open_then. Qed.

Lemma run_delete_ev : forall w r tp al a u h sp cf, EV false w (fst (run_delete w r tp al a u h sp cf)).
Proof. intros. unfold run_delete. open_then. Qed.

Lemma run_hide_ev : forall w r, EV false w (fst (run_hide w r)).
Proof. intros. unfold run_hide. open_then. Qed.

Lemma run_unhide_ev : forall w r, EV false w (fst (run_unhide w r)).
Proof. intros. unfold run_unhide. open_then. Qed.

Lemma run_rename_ev : forall w o n, EV false w (fst (run_rename w o n)).
Proof. intros. unfold run_rename. open_then. Qed.

Lemma run_commit_ev : forall w r n al ae, EV false w (fst (run_commit w r n al ae)).
Proof. intros. unfold run_commit. open_then. Qed.

Lemma run_uncommit_ev : forall lower_s w n names, EV false w (fst (run_uncommit lower_s w n names)).
Proof. intros. unfold run_uncommit. open_then. Qed.

Lemma run_clean_ev : forall w a u, EV false w (fst (run_clean w a u)).
Proof. intros. unfold run_clean. open_then. Qed.

Ltac open_manual op Hop Hev :=
  lazymatch goal with
  | |- context [open_stack ?p ?w] =>
      destruct (open_stack p w) as [op|] eqn:Hop; [|apply EV_refl];
      assert (Hev : EV false w (op_world op)) by (eapply open_stack_ev; [exact Hop|discriminate]);
      cbv zeta
  end.

Lemma run_new_ev : forall w nm meta msg, EV false w (fst (run_new w nm meta msg)).
Proof.
  intros. unfold run_new. destruct (from_str nm) as [pn|]; [|apply EV_refl].
  open_manual op Hop Hev.
  destruct (w_unmerged _); [exact Hev|]. destruct (negb _); [exact Hev|].
  destruct (stack_collides _ _); [exact Hev|].
  unfold put. cbv beta iota zeta.
  apply transact_ev; [|ksolve]. cbn [op_world].
  eapply EV_ext; [exact Hev| |reflexivity]. cbn [with_objs w_objs]. apply ext_by_put. reflexivity.
Qed.

Lemma run_spill_ev : forall w, EV false w (fst (run_spill w)).
Proof.
  intros. unfold run_spill. open_manual op Hop Hev.
  destruct (w_unmerged _); [exact Hev|]. destruct (dirty _); [exact Hev|].
  destruct (negb _); [exact Hev|].
  destruct (last_error _) as [pn|]; [|exact Hev].
  destruct (pm_get _ _) as [pc|]; [|exact Hev].
  destruct (first_parent _ _) as [par|]; [|exact Hev].
  unfold put. cbv beta iota zeta.
  apply transact_ev; [|ksolve]. cbn [op_world].
  eapply EV_ext; [exact Hev| |reflexivity]. cbn [with_objs w_objs]. apply ext_by_put. reflexivity.
Qed.

Lemma run_undo_like_ev : forall w steps hard msg, EV false w (fst (run_undo_like w steps hard msg)).
Proof.
  intros. unfold run_undo_like. open_manual op0 Hop Hev0.
  destruct (log_extmods_first op0) as [op|] eqn:Hl; [|exact Hev0].
  assert (Hev : EV false w (op_world op)).
  { unfold log_extmods_first in Hl. destruct (Nat.eqb _ _); [now inversion Hl; subst|].
    destruct (log_external_mods _ _) as [[w' s']|] eqn:L; [|discriminate].
    inversion Hl; subst. cbn [op_world].
    eapply EV_trans; [exact Hev0|eapply log_external_mods_ev; exact L]. }
  leaf Hev.
Qed.

Lemma run_undo_ev : forall w n hard, EV false w (fst (run_undo w n hard)).
Proof. intros. unfold run_undo. destruct (_ <? _)%Z; [apply EV_refl|apply run_undo_like_ev]. Qed.

Lemma run_redo_ev : forall w n hard, EV false w (fst (run_redo w n hard)).
Proof.
  intros. unfold run_redo. destruct (_ =? _)%N; [apply EV_refl|].
  destruct (_ <? _)%N; [apply EV_refl|apply run_undo_like_ev].
Qed.

Lemma run_reset_ev : forall w e r hard, EV false w (fst (run_reset w e r hard)).
Proof.
  intros. unfold run_reset. destruct e as [k|].
  - open_then.
  - destruct hard; [|apply EV_refl].
    apply EV_same with (w1 := w); [apply EV_refl|reflexivity|reflexivity].
Qed.

Lemma run_repair_ev : forall lower_s w, EV false w (fst (run_repair lower_s w)).
Proof.
  intros. unfold run_repair. open_manual op Hop Hev.
  destruct (repair_walk _ _ _ _ _ _ _ _) as [[ar pr] x].
  apply transact_ev; [exact Hev|].
  apply (keeps_tbind (repair_appliedness _ _ _)); [apply repair_appliedness_keeps|].
  intros objs t1 E1. cbv zeta.
  apply (fold_tbind_keeps _ (fun c t =>
           match make lower_s (subj_of (t_objs t) c) true (Some 30%N) with
           | Ok nm => match uniquify nm [] (t_all t) with
                      | UOk pn => new_applied pn c t
                      | UFuel => TPanic
                      end
           | _ => TPanic
           end)); [|exact E1].
  intros c objs' t' E'. destruct (make _ _ _ _); try exact I.
  destruct (uniquify _ _ _); [|exact I]. now apply new_applied_keeps.
Qed.

Lemma run_log_clear_ev : forall w, EV true w (fst (run_log_clear w)).
Proof.
  intros. unfold run_log_clear.
  destruct (open_stack PRequire w) as [op|] eqn:Hop; [|apply EV_refl].
  assert (Hev : EV true w (op_world op)).
  { apply evolve_weaken. eapply open_stack_ev; [exact Hop|discriminate]. }
  cbv zeta.
  destruct (state_commit _ _ _) as [[objs' so]|] eqn:C; [|exact Hev].
  eapply EV_trans; [exact Hev|]. apply evolve_one.
  eapply es_clear; [reflexivity| |exact C]. reflexivity.
Qed.

Lemma run_git_ev : forall w c, EV false w (fst (run_git w c)).
Proof.
  intros. unfold run_git. destruct c; try apply EV_refl.
  - apply EV_same with (w1 := w); [apply EV_refl|reflexivity|reflexivity].
  - unfold put. cbv beta iota. eapply EV_ext; [apply EV_refl| |reflexivity].
    cbn [fst with_branch w_objs]. apply ext_by_put. reflexivity.
  - unfold put. cbv beta iota. eapply EV_ext; [apply EV_refl| |reflexivity].
    cbn [fst with_branch w_objs]. apply ext_by_put. reflexivity.
  - match goal with |- context [match ?x with Some _ => _ | None => (w, X2) end] => destruct x end;
      [|apply EV_refl].
    apply EV_same with (w1 := w); [apply EV_refl|reflexivity|reflexivity].
  - destruct (first_parent _ _); [|apply EV_refl].
    unfold put. cbv beta iota. eapply EV_ext; [apply EV_refl| |reflexivity].
    cbn [fst w_objs]. apply ext_by_put. reflexivity.
  - apply EV_same with (w1 := w); [apply EV_refl|reflexivity|reflexivity].
Qed.

Lemma edit_body_keeps : forall pn o,
  keeps (fun t =>
           let above := after_name pn (t_applied t) in
           let '(t1, extra) := pop_patches (fun n => mem n above) t in
           match extra with
           | _ :: _ => TPanic
           | [] => tbind (update_patch pn o t1) (push_patches above false)
           end).
Proof.
  intros pn o objs t E. cbv zeta.
  destruct (pop_patches _ t) as [t1 extra] eqn:PP. apply objs_pop_patches in PP.
  destruct extra; [|exact I].
  apply texts_tbind; [|apply push_patches_keeps]. apply update_patch_keeps. now rewrite PP.
Qed.

Lemma refresh_commit_objs : forall objs t pc tr t2 newc,
  plain_extends objs (t_objs t) -> refresh_commit t pc tr = (t2, newc) -> plain_extends objs (t_objs t2).
Proof.
  intros objs t pc tr t2 newc E H. unfold refresh_commit in H. destruct (tree_eqb _ _).
  - inversion H; subst. exact E.
  - unfold put in H. inversion H; subst. rewrite objs_set_objs.
    eapply ext_by_trans; [exact E|]. apply ext_by_put. reflexivity.
Qed.

Lemma refresh_absorb_keeps : forall pn tmpname, keeps (refresh_absorb pn tmpname).
Proof.
  intros pn tmpname objs t E. unfold refresh_absorb. destruct (mem pn (t_applied t)).
  - cbv zeta. apply texts_tbind.
    + destruct (Nat.ltb _ _); [|exact E].
      destruct (pop_patches _ t) as [t1 extra] eqn:PP. apply objs_pop_patches in PP.
      destruct extra; [|exact I]. apply push_patches_keeps. now rewrite PP.
    + intros objs' t1 E1.
      destruct (t_patch t1 pn) as [pc|]; [|exact I].
      destruct (t_patch t1 tmpname) as [tc|]; [|exact I].
      destruct (last_error _) as [top|]; [|exact I]. destruct (negb _); [exact I|].
      destruct (refresh_commit t1 pc _) as [t2 newc] eqn:RC.
      apply (refresh_commit_objs objs' _ _ _ _ _ E1) in RC.
      destruct (delete_patches _ t2) as [t3 inc] eqn:DP. apply objs_delete_patches in DP.
      apply texts_tbind; [|apply push_patches_keeps].
      destruct newc; [apply update_patch_keeps|cbn [texts]]; now rewrite DP.
  - destruct (pop_patches _ t) as [t1 extra] eqn:PP. apply objs_pop_patches in PP.
    destruct extra; [|exact I].
    destruct (t_patch t1 pn) as [pc|]; [|exact I].
    destruct (t_patch t1 tmpname) as [tc|]; [|exact I].
    assert (E1 : plain_extends objs (t_objs t1)) by now rewrite PP.
    destruct (first_parent _ _) as [tpar|]; [|exact E1].
    destruct (apply3way _ _ _ _) as [tree'|]; [|exact E1].
    destruct (refresh_commit t1 pc tree') as [t2 newc] eqn:RC.
    apply (refresh_commit_objs objs _ _ _ _ _ E1) in RC.
    apply texts_tbind.
    + destruct newc; [now apply update_patch_keeps|exact RC].
    + intros objs' t3 E3. destruct (delete_patches _ t3) as [t4 inc] eqn:DP.
      apply objs_delete_patches in DP. cbn [fst texts]. now rewrite DP.
Qed.

Lemma run_refresh_ev : forall w p, EV false w (fst (run_refresh w p)).
Proof.
  intros. unfold run_refresh.
  destruct (match p with Some o => _ | None => _ end) as [loc_l|]; [|apply EV_refl].
  open_manual op Hop Hev.
  destruct (negb _); [exact Hev|].
  unfold rres_bind.
  match goal with |- EV false _ (fst (match ?r with ROk _ => _ | RErr _ => _ | RPanic => _ end)) =>
    destruct r as [pn| |]; [|exact Hev|exact Hev] end.
  destruct (w_unmerged _); [exact Hev|].
  unfold put. cbv beta iota zeta.
  match goal with
  | |- EV false _ (fst (match ?T with pair _ _ => _ end)) =>
      assert (H1 : EV false w (fst T));
      [ apply transact_ev; [|ksolve]; cbn [op_world];
        eapply EV_ext; [exact Hev| |reflexivity]; cbn [with_objs w_objs]; apply ext_by_put; reflexivity
      | destruct T as [w2 x] ]
  end.
  cbn [fst] in H1.
  destruct x; try exact H1.
  destruct (open_stack PAllow w2) as [op2|] eqn:Hop2; [|exact H1].
  apply transact_ev; [|apply refresh_absorb_keeps].
  eapply EV_trans; [exact H1|]. eapply open_stack_ev; [exact Hop2|discriminate].
Qed.

Lemma run_edit_ev : forall w l m msg, EV false w (fst (run_edit w l m msg)).
Proof.
  intros. unfold run_edit.
  destruct (match l with Some o => _ | None => _ end) as [loc_l|]; [|apply EV_refl].
  open_manual op Hop Hev.
  destruct (negb _); [exact Hev|].
  unfold rres_bind.
  match goal with |- EV false _ (fst (match ?r with ROk _ => _ | RErr _ => _ | RPanic => _ end)) =>
    destruct r as [pn| |]; [|exact Hev|exact Hev] end.
  destruct (pm_get _ _) as [pc|]; [|exact Hev].
  destruct (get _ _) as [old|]; [|exact Hev].
  destruct (_ && _); [exact Hev|].
  unfold put. cbv beta iota zeta.
  apply transact_ev; [|apply edit_body_keeps]. cbn [op_world].
  eapply EV_ext; [exact Hev| |reflexivity]. cbn [with_objs w_objs]. apply ext_by_put. reflexivity.
Qed.

Lemma log_extmods_first_ev : forall w op0 op,
  EV false w (op_world op0) -> log_extmods_first op0 = Some op -> EV false w (op_world op).
Proof.
  intros w op0 op Hev0 Hl.
  unfold log_extmods_first in Hl. destruct (Nat.eqb _ _); [now inversion Hl; subst|].
  destruct (log_external_mods _ _) as [[w' s']|] eqn:L; [|discriminate].
  inversion Hl; subst. cbn [op_world].
  eapply EV_trans; [exact Hev0|eapply log_external_mods_ev; exact L].
Qed.

Lemma run_rebase_ev : forall w tg, EV false w (fst (run_rebase w tg)).
Proof.
  intros. unfold run_rebase. open_manual op Hop Hev.
  destruct (resolve_gtarget _ _) as [target|]; [|exact Hev].
  destruct (Nat.eqb _ _); [exact Hev|].
  destruct (negb _); [exact Hev|].
  destruct (dirty _); [exact Hev|].
  match goal with
  | |- EV false _ (fst (match ?T with pair _ _ => _ end)) =>
      assert (H1 : EV false w (fst T)); [|destruct T as [w2 x]]
  end.
  { apply transact_ev; [exact Hev|]. intros objs t E. cbn [texts].
    destruct (pop_patches _ t) as [t1 inc] eqn:PP. apply objs_pop_patches in PP. cbn [fst]. now rewrite PP. }
  cbn [fst] in H1.
  destruct x; try exact H1.
  match goal with |- context [open_stack PRequire ?w3] =>
    assert (H3 : EV false w w3) by (apply EV_same with (w1 := w2); [exact H1|reflexivity|reflexivity]);
    destruct (open_stack PRequire w3) as [op3|] eqn:Hop3; [|exact H3] end.
  assert (Hev3 : EV false w (op_world op3)).
  { eapply EV_trans; [exact H3|]. eapply open_stack_ev; [exact Hop3|discriminate]. }
  destruct (log_extmods_first op3) as [op4|] eqn:Hl; [|exact Hev3].
  pose proof (log_extmods_first_ev _ _ _ Hev3 Hl) as Hev4.
  destruct (negb _); [exact Hev4|].
  apply transact_ev; [exact Hev4|apply push_patches_keeps].
Qed.

(* ---- squash ---- *)

Lemma new_unapplied_keeps : forall n o pos, keeps (new_unapplied n o pos).
Proof. intros n o pos objs t E. unfold new_unapplied. repeat brk; fin E. Qed.

Lemma try_squash_objs : forall objs t ps meta msg t1 o,
  plain_extends objs (t_objs t) -> try_squash t ps meta msg = Some (t1, o) ->
  plain_extends objs (t_objs t1).
Proof.
  intros objs t ps meta msg t1 o E H. unfold try_squash in H.
  destruct ps as [|b rest]; [discriminate|].
  destruct (t_patch t b) as [bc|]; [|discriminate].
  destruct (squash_tree (t_objs t) t rest (tree_of (t_objs t) bc)) as [tr|]; [|discriminate].
  unfold put in H. inversion H; subst. cbn [t_objs set_objs].
  eapply ext_by_trans; [exact E|apply ext_by_put; reflexivity].
Qed.

Lemma squash_finish_keeps : forall newn o to_push sp, keeps (squash_finish newn o to_push sp).
Proof.
  intros newn o to_push sp objs t E. unfold squash_finish.
  apply texts_tbind; [now apply new_unapplied_keeps|apply push_patches_keeps].
Qed.

Lemma squash_closure_keeps : forall ps newn meta msg sp, keeps (squash_closure ps newn meta msg sp).
Proof.
  intros ps newn meta msg sp objs t E. unfold squash_closure.
  destruct (try_squash t ps meta msg) as [[t1 o]|] eqn:Et.
  - apply (try_squash_objs objs) in Et; [|exact E].
    destruct (delete_patches _ t1) as [t2 tp] eqn:DP. apply objs_delete_patches in DP.
    apply squash_finish_keeps. now rewrite DP.
  - destruct (pop_patches _ t) as [t1 tp] eqn:PP. apply objs_pop_patches in PP.
    apply texts_tbind; [apply push_patches_keeps; now rewrite PP|].
    intros objs2 t2 E2. cbv beta.
    destruct (try_squash t2 ps meta msg) as [[t3 o]|] eqn:Et2; [|exact E2].
    apply (try_squash_objs objs2) in Et2; [|exact E2].
    destruct (delete_patches _ t3) as [t4 extra] eqn:DP. apply objs_delete_patches in DP.
    destruct extra; [|exact I]. apply squash_finish_keeps. now rewrite DP.
Qed.

Lemma squash_exit_fst_ev : forall (p : world * exitc) (b : bool),
  fst (let '(w', x) := p in if b then (w', X3) else (w', x)) = fst p.
Proof. intros [w' x] b. destruct b; reflexivity. Qed.

Lemma run_squash_ev : forall w r nm meta msg, EV false w (fst (run_squash w r nm meta msg)).
Proof.
  intros. unfold run_squash.
  destruct (parse_ranges r) as [prs|]; [|apply EV_refl].
  destruct (from_str nm) as [newn|]; [|apply EV_refl].
  open_manual op Hop Hev.
  destruct (w_unmerged _); [exact Hev|].
  destruct (negb _); [exact Hev|].
  unfold rres_bind.
  match goal with |- EV false _ (fst (match ?r with ROk _ => _ | RErr _ => _ | RPanic => _ end)) =>
    destruct r as [ps| |]; [|exact Hev|exact Hev] end.
  destruct (_ && _); [exact Hev|].
  destruct (Nat.ltb _ _); [exact Hev|].
  rewrite squash_exit_fst_ev.
  apply transact_ev; [exact Hev|apply squash_closure_keeps].
Qed.

Lemma pick_body_keeps : forall pn o na, keeps (pick_body pn o na).
Proof.
  intros pn o na objs t E. unfold pick_body.
  apply texts_tbind; [now apply new_unapplied_keeps|].
  intros objs2 t2 E2. destruct na; [exact E2|now apply push_patches_keeps].
Qed.

Lemma run_pick_ev : forall lower_s w src nm na, EV false w (fst (run_pick lower_s w src nm na)).
Proof.
  intros lower_s w src nm na.
  destruct (run_pick_case lower_s w src nm na) as
    [_|_|op Eo|op given o Eo _ _ _ _|op given o pn0 Eo _ _ _ _ _|op given o pn0 pn c par Eo _ _ _ _ _ _ _ _];
    cbn [fst]; try apply EV_refl;
    assert (Hev : EV false w (op_world op)) by (eapply open_stack_ev; [exact Eo|discriminate]);
    try exact Hev.
  apply transact_ev; [|apply pick_body_keeps]. unfold pick_op, pick_commit. cbn [op_world].
  eapply EV_ext; [exact Hev| |reflexivity]. cbn [with_objs w_objs]. apply ext_by_put. reflexivity.
Qed.

Lemma step_ev_noclear : forall lower_s w c, c <> CLogClear -> EV false w (fst (step lower_s w c)).
Proof.
  intros lower_s w c NC. destruct c; cbn [step].
  - destruct (open_stack PMust w) as [op|] eqn:Hop; [|apply EV_refl].
    eapply open_stack_ev; [exact Hop|discriminate].
  - apply run_new_ev.
  - apply run_refresh_ev.
  - apply run_push_ev.
  - apply run_pop_ev.
  - apply run_goto_ev.
  - apply run_float_ev.
  - apply run_sink_ev.
  - apply run_delete_ev.
  - apply run_hide_ev.
  - apply run_unhide_ev.
  - apply run_rename_ev.
  - apply run_commit_ev.
  - apply run_uncommit_ev.
  - apply run_clean_ev.
  - apply run_spill_ev.
  - apply run_undo_ev.
  - apply run_redo_ev.
  - apply run_reset_ev.
  - apply run_repair_ev.
  - congruence.
  - apply run_edit_ev.
  - apply run_rebase_ev.
  - apply run_squash_ev.
  - apply run_pick_ev.
  - destruct (open_stack PAllow w) as [op|] eqn:Hop; [|apply EV_refl].
    eapply open_stack_ev; [exact Hop|discriminate].
  - apply run_git_ev.
  - apply run_git_ev.
  - apply run_git_ev.
  - apply run_git_ev.
  - apply run_git_ev.
  - apply run_git_ev.
Qed.

Lemma step_ev : forall lower_s w c, EV true w (fst (step lower_s w c)).
Proof.
  intros lower_s w c. destruct c; try (apply evolve_weaken; apply step_ev_noclear; discriminate).
  apply run_log_clear_ev.
Qed.
