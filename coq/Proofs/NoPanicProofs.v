(* C20 proofs: entry point.

     exit_documented, make_no_panic, resolve_no_panic      Proofs/NoPanicBase.v
     stack_ref_has_parent, init_stack_ref_has_parent,
     step_stack_ref_has_parent                             Proofs/NoPanicExec.v
     ChainInvP, cmd_ok, step_no_panic                      here (per command: Proofs/NoPanicCmd.v)

   Proofs/NoPanicBase.v  the transaction operations do not return TPanic (uinv, nsat)
   Proofs/NoPanicExec.v  the stack reference invariant; execute / transact do not panic
   Proofs/NoPanicCmd.v   one lemma per run_* function *)
From Coq Require Import List NArith ZArith Bool Arith.
From StgV Require Import Model.ExitSpec Model.LocatorSpec.
From StgV Require Import Proofs.NameProofs Proofs.LocatorProofs.
From StgV Require Export Proofs.NoPanicBase Proofs.NoPanicExec Proofs.NoPanicCmd.
From StgV Require Proofs.ConflictProofs.
Import ListNotations.

(* the chain invariant of C02 (a premise of C20_step_no_panic; the proof does not use it) *)
Definition ChainInvP (w : world) : Prop :=
  forall so s, state_of (w_objs w) so = Some s -> chain_ok (w_objs w) s.

(* [in_scope] minus
   - CRepair: known finding F6 (new_applied asserts when a foreign commit lies below a patch
     commit on the first-parent path);
   - `stg pop` with an empty list of ranges and neither --all nor -n: not expressible on the
     command line (clap requires at least one value); the model reaches pop.rs's
     `assert!(!patches.is_empty())` (pop_empty_ranges_panics below). *)
Definition cmd_ok (c : cmd) : bool :=
  in_scope c
  && match c with
     | CRepair => false
     | CPop r n al _ _ => pop_ok r n al
     | _ => true
     end.

(* the excluded argument shape does panic in the model *)
Example pop_empty_ranges_panics :
  snd (step ConflictProofs.cex_idf ConflictProofs.cex_world_applied (CPop (Some []) None false false false))
  = XPanic.
Proof. vm_compute. reflexivity. Qed.

(* F6: p0 p1 applied; pop p1; refresh p0; git reset --hard <p1>; stg repair *)
Definition f6_world : world :=
  run ConflictProofs.cex_idf (init_world [1;1;0]%N)
    [CInit; CNew [112;48]%N 1%N [120]%N; GEdit 0 5%N; CRefresh None;
     CNew [112;49]%N 2%N [121]%N; GEdit 1 7%N; CRefresh None;
     CPop None None false false false; GEdit 0 9%N; CRefresh None; GResetHard (TPatch [112;49]%N)].

Example repair_foreign_below_patch_panics :
  snd (step ConflictProofs.cex_idf f6_world CRepair) = XPanic.
Proof. vm_compute. reflexivity. Qed.

Lemma run_git_np : forall w c, snd (run_git w c) <> XPanic.
Proof.
  intros w c. destruct c; cbn [run_git]; unfold put; try discriminate.
  - match goal with |- context [match ?x with Some _ => _ | None => _ end] => destruct x end; discriminate.
  - destruct (first_parent _ _); discriminate.
Qed.

Theorem step_no_panic : forall lower_s, LowerOK lower_s ->
  forall w c, Inv w -> ChainInvP w -> stack_ref_has_parent w -> cmd_ok c = true ->
    snd (step lower_s w c) <> XPanic.
Proof.
  intros lower_s HL w c Hi _ Hs Hok. unfold cmd_ok in Hok. apply andb_true_iff in Hok as [Hsc Hok].
  destruct c; cbn [step]; try discriminate Hok.
  - destruct (open_stack PMust w); discriminate.
  - now apply run_new_np.
  - now apply run_refresh_np.
  - now apply run_push_np.
  - now apply run_pop_np.
  - now apply run_goto_np.
  - now apply run_float_np.
  - now apply run_sink_np.
  - now apply run_delete_np.
  - now apply run_hide_np.
  - now apply run_unhide_np.
  - now apply run_rename_np.
  - now apply run_commit_np.
  - now apply run_uncommit_np.
  - now apply run_clean_np.
  - now apply run_spill_np.
  - now apply run_undo_np.
  - now apply run_redo_np.
  - destruct ranges; [discriminate|]. now apply run_reset_np.
  - now apply run_log_clear_np.
  - now apply run_edit_np.
  - now apply run_rebase_np.
  - now apply run_squash_np.
  - now apply run_pick_np.
  - destruct (open_stack PAllow w); discriminate.
  - apply run_git_np.
  - apply run_git_np.
  - apply run_git_np.
  - apply run_git_np.
  - apply run_git_np.
  - apply run_git_np.
Qed.

(* The statements, as pinned by Properties/C20.v (checked here, nothing is defined). *)
Section StatementCheck.
Let chk_exit_documented : forall x, x <> XPanic -> exists z, exit_status x = Some z /\ documented z
  := exit_documented.
Let chk_make_no_panic : forall lower_s, LowerOK lower_s ->
  forall raw lower limit, make lower_s raw lower limit <> Panic := make_no_panic.
Let chk_resolve_no_panic : forall v l, wf_loc l -> resolve_name v l <> RPanic := resolve_no_panic.
Let chk_init_sref : forall t, stack_ref_has_parent (init_world t) := init_stack_ref_has_parent.
Let chk_step_sref : forall lower_s w c,
  stack_ref_has_parent w -> stack_ref_has_parent (fst (step lower_s w c)) := step_stack_ref_has_parent.
Let chk_step_no_panic : forall lower_s, LowerOK lower_s ->
  forall w c, Inv w -> ChainInvP w -> stack_ref_has_parent w -> cmd_ok c = true ->
    snd (step lower_s w c) <> XPanic := step_no_panic.
End StatementCheck.
