(* C13, whole-command repair theorems specialised to the worlds reachable from the initial
   world by commands: there the side conditions (Inv6, prev_decreasing, plain_parents_older) are
   theorems (UndoStepProofs.run_reach, PlainOlderStep.reachable_plain_parents_older), so nothing
   is left to assume about the store. *)
From Coq Require Import List Bool Arith.
From StgV Require Import Model.RepairSpec.
From StgV Require Proofs.UndoStepProofs Proofs.RepairNoopProofs Proofs.RepairNoopIdem
  Proofs.PlainOlderStep.
Import ListNotations.

Lemma reachable_side_conditions :
  forall lower_s, LowerOK lower_s ->
  forall t cs, forallb in_scope cs = true ->
    Inv6 (run lower_s (init_world t) cs)
    /\ prev_decreasing (w_objs (run lower_s (init_world t) cs))
    /\ RepairNoopProofs.plain_parents_older (w_objs (run lower_s (init_world t) cs)).
Proof.
  intros lower_s L t cs Hs.
  destruct (UndoStepProofs.init_inv6 t) as [I0 P0].
  destruct (UndoStepProofs.run_reach lower_s L cs (init_world t) Hs I0 P0) as [I6 PD].
  split; [exact I6|]. split; [exact PD|].
  apply PlainOlderStep.reachable_plain_parents_older; assumption.
Qed.

Lemma repair_consistent_noop_reachable :
  forall lower_s, LowerOK lower_s ->
  forall t cs st w1,
    forallb in_scope cs = true ->
    cur_state (run lower_s (init_world t) cs) = Some st ->
    repair_consistent (run lower_s (init_world t) cs) st ->
    run_repair lower_s (run lower_s (init_world t) cs) = (w1, X0) ->
    (exists st1, cur_state w1 = Some st1 /\ same_stack st1 st)
    /\ w_branch w1 = w_branch (run lower_s (init_world t) cs)
    /\ w_wt w1 = w_wt (run lower_s (init_world t) cs)
    /\ w_unmerged w1 = w_unmerged (run lower_s (init_world t) cs)
    /\ (forall n, pm_get (w_prefs w1) n = pm_get (s_patches st) n).
Proof.
  intros lower_s L t cs st w1 Hs Hcur Hc Hr.
  destruct (reachable_side_conditions lower_s L t cs Hs) as [I6 [PD PO]].
  exact (RepairNoopProofs.repair_consistent_noop_partial lower_s _ st w1 I6 PD PO Hcur Hc Hr).
Qed.

Lemma repair_idempotent_reachable :
  forall lower_s, LowerOK lower_s ->
  forall t cs w1 w2,
    forallb in_scope cs = true ->
    run_repair lower_s (run lower_s (init_world t) cs) = (w1, X0) ->
    run_repair lower_s w1 = (w2, X0) ->
    exists st1 st2,
      cur_state w1 = Some st1 /\ cur_state w2 = Some st2 /\ same_stack st2 st1
      /\ w_branch w2 = w_branch w1.
Proof.
  intros lower_s L t cs w1 w2 Hs H1 H2.
  destruct (reachable_side_conditions lower_s L t cs Hs) as [I6 [PD PO]].
  destruct (RepairNoopIdem.repair_idempotent_partial lower_s L _ w1 w2 I6 PD PO H1 H2)
    as [w2' [st1 [st2 [H2' [Hc1 [Hc2 [Hs2 Hb]]]]]]].
  rewrite H2 in H2'. inversion H2' as [Hw]. subst w2'.
  exists st1, st2. split; [exact Hc1|]. split; [exact Hc2|]. split; [exact Hs2|exact Hb].
Qed.

(* idempotence with nothing left to assume: the second run succeeds and changes nothing *)
From StgV Require Proofs.RepairNoopTwice.

Lemma repair_idempotent_reachable_full :
  forall lower_s, LowerOK lower_s ->
  forall t cs w1,
    forallb in_scope cs = true ->
    run_repair lower_s (run lower_s (init_world t) cs) = (w1, X0) ->
    exists w2 st1 st2,
      run_repair lower_s w1 = (w2, X0)
      /\ cur_state w1 = Some st1 /\ cur_state w2 = Some st2 /\ same_stack st2 st1
      /\ w_branch w2 = w_branch w1.
Proof.
  intros lower_s L t cs w1 Hs H1.
  destruct (reachable_side_conditions lower_s L t cs Hs) as [I6 [PD PO]].
  exact (RepairNoopTwice.repair_idempotent lower_s L _ w1 I6 PD PO H1).
Qed.
