(* C06, final step: instantiate the section hypotheses of ReachCore.step_reach_core with the
   preservation lemmas of C01 (Proofs/WfProofs.v) and C02 (Proofs/ChainProofs.v). *)
From StgV Require Import Model.StackSpec Model.LogSpec.
From StgV Require Import Proofs.WfProofs Proofs.ChainProofs.
From StgV Require Export Proofs.ReachCore.

Lemma step_reach :
  forall lower_s, LowerOK lower_s ->
  forall w c, in_scope c = true -> Inv6 w -> prev_decreasing (w_objs w) ->
    let w' := fst (step lower_s w c) in
    Inv6 w' /\ prev_decreasing (w_objs w').
Proof.
  exact (StgV.Proofs.ReachCore.step_reach_core
           WfCmd.step_inv ChainStep.step_chain).
Qed.
