(* C02 proofs, part 1: names, patch maps, lists, the object store, chains, state commits. *)
From Coq Require Import List Arith Bool Lia.
From StgV Require Import Model.StackSpec Proofs.CharsProofs.
Import ListNotations.
Local Open Scope nat_scope.

(* ---------------------------------------------------------------- names *)

Lemma name_eqb_eq : forall a b, name_eqb a b = true <-> a = b.
Proof. exact str_eqb_eq. Qed.

Lemma name_eqb_refl : forall a, name_eqb a a = true.
Proof. exact str_eqb_refl. Qed.

Lemma name_eqb_neq : forall a b, a <> b -> name_eqb a b = false.
Proof.
  intros a b H. destruct (name_eqb a b) eqn:E; [|reflexivity].
  apply name_eqb_eq in E. contradiction.
Qed.

Lemma name_eqb_false : forall a b, name_eqb a b = false -> a <> b.
Proof. intros a b H ->. rewrite name_eqb_refl in H. discriminate. Qed.

Lemma name_eqb_sym : forall a b, name_eqb a b = name_eqb b a.
Proof.
  intros a b. destruct (name_eqb a b) eqn:E.
  - apply name_eqb_eq in E. subst. now rewrite name_eqb_refl.
  - symmetry. apply name_eqb_neq. intros ->. now rewrite name_eqb_refl in E.
Qed.

Lemma name_eq_dec : forall a b : name, {a = b} + {a <> b}.
Proof.
  intros a b. destruct (name_eqb a b) eqn:E.
  - left. now apply name_eqb_eq.
  - right. now apply name_eqb_false.
Qed.

Lemma mem_In : forall n l, mem n l = true <-> In n l.
Proof.
  intros n l. unfold mem. rewrite existsb_exists. split.
  - intros [x [Hx E]]. apply name_eqb_eq in E. now subst.
  - intros H. exists n. split; [exact H|apply name_eqb_refl].
Qed.

Lemma mem_false : forall n l, mem n l = false <-> ~ In n l.
Proof.
  intros n l. rewrite <- mem_In. destruct (mem n l); split; intros; congruence.
Qed.

Lemma collides_refl : forall n, collides n n = true.
Proof. intros n. unfold collides. apply str_eqb_refl. Qed.

(* ---------------------------------------------------------------- generic lists *)

Lemma nodup_app : forall (A : Type) (a b : list A),
  NoDup (a ++ b) <-> NoDup a /\ NoDup b /\ (forall x, In x a -> ~ In x b).
Proof.
  intros A a b. induction a as [|x a IH]; cbn.
  - split; [intros H; repeat split; [constructor|exact H|tauto]|tauto].
  - split.
    + intros H. inversion H as [|? ? Hn Hnd]; subst. apply IH in Hnd as [Ha [Hb Hd]].
      repeat split.
      * constructor; [|exact Ha]. intros Hi. apply Hn. apply in_or_app. now left.
      * exact Hb.
      * intros y [->|Hy]; [|now apply Hd]. intros Hi. apply Hn. apply in_or_app. now right.
    + intros [Ha [Hb Hd]]. inversion Ha as [|? ? Hn Hnd]; subst. constructor.
      * intros Hi. apply in_app_or in Hi as [Hi|Hi]; [contradiction|]. apply (Hd x); [now left|exact Hi].
      * apply IH. repeat split; [exact Hnd|exact Hb|]. intros y Hy. apply Hd. now right.
Qed.

Lemma nodup_app_comm : forall (A : Type) (a b : list A), NoDup (a ++ b) -> NoDup (b ++ a).
Proof.
  intros A a b H. apply nodup_app in H as [Ha [Hb Hd]]. apply nodup_app.
  repeat split; [exact Hb|exact Ha|]. intros x Hx Hx'. now apply (Hd x).
Qed.

Lemma nodup_sub_app : forall (A : Type) (a a' b b' : list A),
  NoDup (a ++ b) -> NoDup a' -> NoDup b' -> incl a' a -> incl b' b -> NoDup (a' ++ b').
Proof.
  intros A a a' b b' H Ha' Hb' Hia Hib. apply nodup_app in H as [Ha [Hb Hd]].
  apply nodup_app. repeat split; [exact Ha'|exact Hb'|].
  intros x Hx Hx'. apply (Hd x); [now apply Hia|now apply Hib].
Qed.

Lemma nodup_firstn : forall (A : Type) k (l : list A), NoDup l -> NoDup (firstn k l).
Proof.
  intros A k l H. rewrite <- (firstn_skipn k l) in H. now apply nodup_app in H as [H _].
Qed.

Lemma nodup_skipn : forall (A : Type) k (l : list A), NoDup l -> NoDup (skipn k l).
Proof.
  intros A k l H. rewrite <- (firstn_skipn k l) in H. now apply nodup_app in H as [_ [H _]].
Qed.

Lemma in_firstn : forall (A : Type) k (l : list A) x, In x (firstn k l) -> In x l.
Proof. intros A k l x H. rewrite <- (firstn_skipn k l). apply in_or_app. now left. Qed.

Lemma in_skipn : forall (A : Type) k (l : list A) x, In x (skipn k l) -> In x l.
Proof. intros A k l x H. rewrite <- (firstn_skipn k l). apply in_or_app. now right. Qed.

Lemma nodup_filter : forall (A : Type) (f : A -> bool) l, NoDup l -> NoDup (filter f l).
Proof.
  intros A f l H. induction H as [|x l Hn Hnd IH]; cbn; [constructor|].
  destruct (f x); [|exact IH]. constructor; [|exact IH].
  intros Hi. apply filter_In in Hi as [Hi _]. contradiction.
Qed.

Lemma firstn_firstn_le : forall (A : Type) j k (l : list A), j <= k -> firstn j (firstn k l) = firstn j l.
Proof. intros A j k l H. rewrite firstn_firstn. f_equal. lia. Qed.

Lemma last_snoc : forall (A : Type) (l : list A) x d, last (l ++ [x]) d = x.
Proof. intros A l x d. apply last_last. Qed.

Lemma hd_error_rev_snoc : forall (A : Type) (l : list A) x, hd_error (rev (l ++ [x])) = Some x.
Proof. intros A l x. rewrite rev_app_distr. reflexivity. Qed.

Lemma hd_error_rev_last : forall (A : Type) (l : list A) d,
  l <> [] -> hd_error (rev l) = Some (last l d).
Proof.
  intros A l d H. destruct (exists_last H) as [l' [x ->]].
  now rewrite hd_error_rev_snoc, last_snoc.
Qed.

Lemma hd_error_rev_none : forall (A : Type) (l : list A), hd_error (rev l) = None -> l = [].
Proof.
  intros A l H. destruct l as [|x l]; [reflexivity|].
  assert (Hne : x :: l <> []) by discriminate.
  rewrite (hd_error_rev_last _ _ x Hne) in H. discriminate.
Qed.

Lemma last_map : forall (A B : Type) (f : A -> B) l d, last (map f l) (f d) = f (last l d).
Proof.
  intros A B f l d. induction l as [|x l IH]; [reflexivity|].
  destruct l as [|y l]; [reflexivity|]. exact IH.
Qed.

Lemma last_nonempty_indep : forall (A : Type) (l : list A) d d', l <> [] -> last l d = last l d'.
Proof.
  intros A l d d' H. destruct (exists_last H) as [l' [x ->]]. now rewrite !last_snoc.
Qed.

Lemma last_cons_default : forall (A : Type) (l : list A) p d, last (p :: l) d = last l p.
Proof.
  intros A l. induction l as [|q l IH]; intros p d; [reflexivity|].
  change (last (p :: q :: l) d) with (last (q :: l) d). rewrite IH. symmetry. apply IH.
Qed.

Lemma last_map_ne : forall (A B : Type) (f : A -> B) l d d', l <> [] -> last (map f l) d' = f (last l d).
Proof.
  intros A B f l d d' H. rewrite (last_nonempty_indep _ (map f l) d' (f d)); [apply last_map|].
  destruct l; [congruence|discriminate].
Qed.

Lemma last_in : forall (A : Type) (l : list A) d, l <> [] -> In (last l d) l.
Proof.
  intros A l d H. destruct (exists_last H) as [l' [x ->]]. rewrite last_snoc.
  apply in_or_app. right. now left.
Qed.

Lemma tree_eqb_eq : forall a b, tree_eqb a b = true <-> a = b.
Proof.
  induction a as [|x a IH]; intros [|y b]; cbn; split; intros H; try reflexivity; try discriminate.
  - apply andb_true_iff in H as [H1 H2]. apply N.eqb_eq in H1. apply IH in H2. now subst.
  - injection H as -> ->. rewrite N.eqb_refl. cbn. now apply IH.
Qed.

Lemma tree_eqb_refl : forall a, tree_eqb a a = true.
Proof. intros a. now apply tree_eqb_eq. Qed.

(* ---------------------------------------------------------------- positions and prefixes *)

Lemma split_at_first_spec : forall f l keep popped,
  split_at_first f l = (keep, popped) ->
  l = keep ++ popped
  /\ Forall (fun x => f x = false) keep
  /\ (popped = [] \/ exists x r, popped = x :: r /\ f x = true).
Proof.
  intros f l. unfold split_at_first.
  assert (H : forall l, match position f l with
                        | Some i => l = firstn i l ++ skipn i l
                                    /\ Forall (fun x => f x = false) (firstn i l)
                                    /\ exists x r, skipn i l = x :: r /\ f x = true
                        | None => Forall (fun x => f x = false) l
                        end).
  { clear l. induction l as [|x l IH]; cbn [position]; [constructor|].
    destruct (f x) eqn:Ef.
    - cbn. repeat split; [constructor|]. now exists x, l.
    - destruct (position f l) as [i|]; cbn [option_map].
      + destruct IH as [E [Hf Hx]]. cbn [firstn skipn]. repeat split.
        * cbn. now rewrite <- E.
        * now constructor.
        * exact Hx.
      + now constructor. }
  intros keep popped E. specialize (H l). destruct (position f l) as [i|].
  - injection E as <- <-. destruct H as [E [Hf Hx]]. repeat split; [exact E|exact Hf|now right].
  - injection E as <- <-. rewrite app_nil_r. repeat split; [exact H|now left].
Qed.

Lemma cpl_firstn : forall a b, firstn (common_prefix_len a b) a = firstn (common_prefix_len a b) b.
Proof.
  induction a as [|x a IH]; intros [|y b]; cbn; try reflexivity.
  destruct (name_eqb x y) eqn:E; [|reflexivity].
  apply name_eqb_eq in E. subst. cbn. f_equal. apply IH.
Qed.

Lemma cpl_le_l : forall a b, common_prefix_len a b <= length a.
Proof.
  induction a as [|x a IH]; intros [|y b]; cbn; try lia.
  destruct (name_eqb x y); [|lia]. specialize (IH b). lia.
Qed.

Lemma cpl_le_r : forall a b, common_prefix_len a b <= length b.
Proof.
  induction a as [|x a IH]; intros [|y b]; cbn; try lia.
  destruct (name_eqb x y); [|lia]. specialize (IH b). lia.
Qed.

(* the element right after the common prefix differs *)
Lemma cpl_next : forall a b x ra y rb,
  skipn (common_prefix_len a b) a = x :: ra ->
  skipn (common_prefix_len a b) b = y :: rb -> x <> y.
Proof.
  induction a as [|a0 a IH]; intros [|b0 b] x ra y rb; cbn; try discriminate.
  destruct (name_eqb a0 b0) eqn:E.
  - cbn. apply IH.
  - cbn. intros H1 H2. injection H1 as <- _. injection H2 as <- _. now apply name_eqb_false.
Qed.

Lemma list_name_eqb_eq : forall a b, list_name_eqb a b = true <-> a = b.
Proof.
  induction a as [|x a IH]; intros [|y b]; cbn; split; intros H; try reflexivity; try discriminate.
  - apply andb_true_iff in H as [H1 H2]. apply name_eqb_eq in H1. apply IH in H2. now subst.
  - injection H as -> ->. rewrite name_eqb_refl. cbn. now apply IH.
Qed.

Lemma keep_prefix_len : forall (l keep popped : list name) k,
  l = keep ++ popped ->
  Forall (fun x => mem x (skipn k l) = false) keep ->
  length keep <= k \/ popped = [].
Proof.
  intros l keep popped k E Hf.
  destruct (le_lt_dec (length keep) k) as [Hle|Hlt]; [now left|]. exfalso.
  (* the element of keep at index k is in skipn k l *)
  assert (Hk : exists x, nth_error keep k = Some x).
  { destruct (nth_error keep k) eqn:En; [now eexists|]. apply nth_error_None in En. lia. }
  destruct Hk as [x Hx]. rewrite Forall_forall in Hf.
  specialize (Hf x (nth_error_In _ _ Hx)). apply mem_false in Hf. apply Hf.
  subst l. assert (Hx' : nth_error (keep ++ popped) k = Some x).
  { rewrite nth_error_app1 by lia. exact Hx. }
  clear -Hx'. revert k Hx'. generalize (keep ++ popped) as l.
  induction l as [|y l IH]; intros [|k] H; cbn in *; try discriminate.
  - injection H as ->. now left.
  - now apply IH.
Qed.

Lemma remove_first_incl : forall n l x, In x (remove_first n l) -> In x l.
Proof.
  intros n l x. induction l as [|y l IH]; cbn; [tauto|].
  destruct (name_eqb y n); cbn; [tauto|]. intros [->|H]; [now left|right; now apply IH].
Qed.

Lemma replace_first_notin : forall old new l, ~ In old l -> replace_first old new l = l.
Proof.
  intros old new l. induction l as [|x l IH]; cbn; [reflexivity|]. intros H.
  rewrite name_eqb_neq by (intros ->; apply H; now left). f_equal. apply IH. tauto.
Qed.

Lemma replace_first_split : forall old new l, In old l ->
  exists a b, l = a ++ old :: b /\ ~ In old a /\ replace_first old new l = a ++ new :: b.
Proof.
  intros old new l. induction l as [|x l IH]; cbn; [tauto|]. intros H.
  destruct (name_eqb x old) eqn:E.
  - apply name_eqb_eq in E. subst. exists [], l. cbn. tauto.
  - apply name_eqb_false in E. destruct H as [H|H]; [contradiction|].
    destruct (IH H) as [a [b [E1 [E2 E3]]]]. exists (x :: a), b. cbn. rewrite E1 at 1. rewrite E3.
    repeat split. intros [Hx|Hx]; [now subst|contradiction].
Qed.

(* ---------------------------------------------------------------- patch maps *)

Lemma pm_get_remove : forall m k n,
  pm_get (pm_remove m k) n = if name_eqb k n then None else pm_get m n.
Proof.
  induction m as [|[k' v] m IH]; intros k n; cbn.
  - now destruct (name_eqb k n).
  - destruct (name_eqb k' k) eqn:E1.
    + apply name_eqb_eq in E1. subst k'. rewrite IH. destruct (name_eqb k n); reflexivity.
    + cbn. rewrite IH. destruct (name_eqb k' n) eqn:E2; [|reflexivity].
      apply name_eqb_eq in E2. subst k'. rewrite name_eqb_sym in E1. now rewrite E1.
Qed.

Lemma pm_get_app : forall m1 m2 n,
  pm_get (m1 ++ m2) n = match pm_get m1 n with Some o => Some o | None => pm_get m2 n end.
Proof.
  induction m1 as [|[k v] m1 IH]; intros m2 n; cbn; [reflexivity|].
  destruct (name_eqb k n); [reflexivity|apply IH].
Qed.

Lemma pm_get_set : forall m k o n,
  pm_get (pm_set m k o) n = if name_eqb k n then Some o else pm_get m n.
Proof.
  intros m k o n. unfold pm_set. rewrite pm_get_app, pm_get_remove. cbn.
  destruct (name_eqb k n); [reflexivity|]. now destruct (pm_get m n).
Qed.

Lemma up_get_remove : forall u k n,
  up_get (up_remove u k) n = if name_eqb k n then None else up_get u n.
Proof.
  induction u as [|[k' v] u IH]; intros k n; cbn.
  - now destruct (name_eqb k n).
  - destruct (name_eqb k' k) eqn:E1.
    + apply name_eqb_eq in E1. subst k'. rewrite IH. destruct (name_eqb k n); reflexivity.
    + cbn. rewrite IH. destruct (name_eqb k' n) eqn:E2; [|reflexivity].
      apply name_eqb_eq in E2. subst k'. rewrite name_eqb_sym in E1. now rewrite E1.
Qed.

Lemma up_get_set : forall u k v n,
  up_get (up_set u k v) n = if name_eqb k n then Some v else up_get u n.
Proof.
  intros u k v n. unfold up_set. cbn. destruct (name_eqb k n) eqn:E; [reflexivity|].
  rewrite up_get_remove. now rewrite E.
Qed.

Lemma pm_get_apply : forall u m n,
  pm_get (pm_apply m u) n = match up_get u n with Some v => v | None => pm_get m n end.
Proof.
  induction u as [|[k [o|]] u IH]; intros m n; cbn; [reflexivity| |].
  - rewrite pm_get_set. destruct (name_eqb k n); [reflexivity|apply IH].
  - rewrite pm_get_remove. destruct (name_eqb k n); [reflexivity|apply IH].
Qed.

Lemma up_get_mark_deleted : forall ns u n,
  up_get (mark_deleted u ns) n = if mem n ns then Some None else up_get u n.
Proof.
  unfold mark_deleted. induction ns as [|x ns IH]; intros u n; cbn; [reflexivity|].
  rewrite IH, up_get_set. rewrite (name_eqb_sym n x). fold (mem n ns).
  destruct (mem n ns), (name_eqb x n); reflexivity.
Qed.

Lemma pm_get_in : forall m n o, pm_get m n = Some o -> In (n, o) m.
Proof.
  induction m as [|[k v] m IH]; intros n o; cbn; [discriminate|].
  destruct (name_eqb k n) eqn:E.
  - intros H. injection H as ->. apply name_eqb_eq in E. subst. now left.
  - intros H. right. now apply IH.
Qed.

Lemma pm_get_none_notin : forall m n, pm_get m n = None -> ~ In n (map fst m).
Proof.
  induction m as [|[k v] m IH]; intros n; cbn; [tauto|].
  destruct (name_eqb k n) eqn:E; [discriminate|]. intros H [Hk|Hk].
  - subst. now rewrite name_eqb_refl in E.
  - now apply (IH n).
Qed.

Lemma pm_get_notin : forall m n, ~ In n (map fst m) -> pm_get m n = None.
Proof.
  induction m as [|[k v] m IH]; intros n H; cbn; [reflexivity|].
  cbn in H. rewrite name_eqb_neq by tauto. apply IH. tauto.
Qed.

(* registering a list of (name, oid) pairs one by one *)
Definition reg_all (ps : list (name * oid)) (u : upd) : upd :=
  fold_left (fun u p => up_set u (fst p) (Some (snd p))) ps u.

Lemma up_get_reg_all : forall ps u n,
  NoDup (map fst ps) ->
  up_get (reg_all ps u) n = match pm_get ps n with Some o => Some (Some o) | None => up_get u n end.
Proof.
  unfold reg_all. induction ps as [|[k v] ps IH]; intros u n Hnd; cbn; [reflexivity|].
  cbn in Hnd. inversion Hnd as [|? ? Hn Hnd']; subst. rewrite IH by exact Hnd'.
  destruct (name_eqb k n) eqn:E.
  - apply name_eqb_eq in E. subst k. rewrite (pm_get_notin ps n Hn).
    rewrite up_get_set. now rewrite name_eqb_refl.
  - destruct (pm_get ps n); [reflexivity|]. rewrite up_get_set. now rewrite E.
Qed.

(* ---------------------------------------------------------------- the store *)

Lemma get_lt : forall objs o c, get objs o = Some c -> o < length objs.
Proof. intros objs o c H. unfold get in H. apply nth_error_Some. congruence. Qed.

Lemma get_app_old : forall objs ext o, o < length objs -> get (objs ++ ext) o = get objs o.
Proof. intros objs ext o H. unfold get. now apply nth_error_app1. Qed.

Lemma get_app_some : forall objs ext o c, get objs o = Some c -> get (objs ++ ext) o = Some c.
Proof. intros objs ext o c H. rewrite get_app_old; [exact H|]. now apply get_lt in H. Qed.

Lemma get_app_new : forall objs ext o, length objs <= o -> get (objs ++ ext) o = nth_error ext (o - length objs).
Proof. intros objs ext o H. unfold get. now apply nth_error_app2. Qed.

Lemma get_put_new : forall objs c, get (objs ++ [c]) (length objs) = Some c.
Proof. intros objs c. rewrite get_app_new by lia. now rewrite Nat.sub_diag. Qed.

Lemma store_extends_refl : forall a, store_extends a a.
Proof. intros a. exists []. now rewrite app_nil_r. Qed.

Lemma store_extends_trans : forall a b c, store_extends a b -> store_extends b c -> store_extends a c.
Proof. intros a b c [e1 ->] [e2 ->]. exists (e1 ++ e2). now rewrite app_assoc. Qed.

Lemma store_extends_app : forall a e, store_extends a (a ++ e).
Proof. intros a e. now exists e. Qed.

Lemma get_ext : forall a b o c, store_extends a b -> get a o = Some c -> get b o = Some c.
Proof. intros a b o c [e ->]. apply get_app_some. Qed.

Lemma parents_of_ext : forall a b o p ps,
  store_extends a b -> parents_of a o = p :: ps -> parents_of b o = p :: ps.
Proof.
  intros a b o p ps He H. unfold parents_of in *. destruct (get a o) as [c|] eqn:E; [|discriminate].
  now rewrite (get_ext _ _ _ _ He E).
Qed.

Lemma first_parent_ext : forall a b o p,
  store_extends a b -> first_parent a o = Some p -> first_parent b o = Some p.
Proof.
  intros a b o p He H. unfold first_parent in *. destruct (parents_of a o) as [|q qs] eqn:E; [discriminate|].
  now rewrite (parents_of_ext _ _ _ _ _ He E).
Qed.

Lemma state_of_ext : forall a b so s, store_extends a b -> state_of a so = Some s -> state_of b so = Some s.
Proof.
  intros a b so s He H. unfold state_of in *. destruct (get a so) as [c|] eqn:E; [|discriminate].
  now rewrite (get_ext _ _ _ _ He E).
Qed.

Lemma tree_of_ext : forall a b o c, store_extends a b -> get a o = Some c -> tree_of b o = tree_of a o.
Proof. intros a b o c He H. unfold tree_of. now rewrite H, (get_ext _ _ _ _ He H). Qed.

(* states of an extended store: old ones, or carried by a new object *)
Lemma state_of_app_inv : forall a e so s,
  state_of (a ++ e) so = Some s ->
  state_of a so = Some s \/ exists c, In c e /\ c_state c = Some s.
Proof.
  intros a e so s H. unfold state_of in *. destruct (le_lt_dec (length a) so) as [Hle|Hlt].
  - rewrite get_app_new in H by exact Hle.
    destruct (nth_error e (so - length a)) as [c|] eqn:E; [|discriminate].
    right. exists c. split; [now apply nth_error_In in E|exact H].
  - rewrite get_app_old in H by exact Hlt. now left.
Qed.

(* ---------------------------------------------------------------- chains *)

Fixpoint chainl (objs : store) (base : oid) (l : list oid) : Prop :=
  match l with
  | [] => True
  | p :: r => parents_of objs p = [base] /\ chainl objs p r
  end.

Lemma chain_iff : forall objs l base head,
  chain objs base l head <-> chainl objs base l /\ head = last l base.
Proof.
  intros objs. induction l as [|p l IH]; intros base head; cbn [chain chainl].
  - cbn. tauto.
  - rewrite IH. rewrite (last_cons_default _ l p base). tauto.
Qed.

Lemma chainl_ext : forall a b base l, store_extends a b -> chainl a base l -> chainl b base l.
Proof.
  intros a b base l He. revert base. induction l as [|p l IH]; intros base; cbn; [tauto|].
  intros [H1 H2]. split; [now apply (parents_of_ext a b)|now apply IH].
Qed.

Lemma chainl_app : forall objs l1 l2 base,
  chainl objs base (l1 ++ l2) <-> chainl objs base l1 /\ chainl objs (last l1 base) l2.
Proof.
  intros objs. induction l1 as [|p l1 IH]; intros l2 base; cbn [app chainl].
  - cbn. tauto.
  - rewrite IH. rewrite (last_cons_default _ l1 p base). tauto.
Qed.

Lemma chainl_snoc : forall objs l base p,
  chainl objs base l -> parents_of objs p = [last l base] -> chainl objs base (l ++ [p]).
Proof. intros objs l base p H1 H2. apply chainl_app. split; [exact H1|]. cbn. tauto. Qed.

Lemma chainl_firstn : forall objs k l base, chainl objs base l -> chainl objs base (firstn k l).
Proof.
  intros objs k l base H. rewrite <- (firstn_skipn k l) in H. now apply chainl_app in H as [H _].
Qed.

Lemma chainl_skipn : forall objs k l base,
  chainl objs base l -> chainl objs (last (firstn k l) base) (skipn k l).
Proof.
  intros objs k l base H. rewrite <- (firstn_skipn k l) in H. now apply chainl_app in H as [_ H].
Qed.

Lemma chain_ok_nil : forall objs s, s_applied s = [] -> chain_ok objs s.
Proof.
  intros objs s H. exists (s_top s). unfold applied_oids. rewrite H. reflexivity.
Qed.

Lemma chain_ok_ext : forall a b s, store_extends a b -> chain_ok a s -> chain_ok b s.
Proof.
  intros a b s He [base H]. exists base. apply chain_iff in H as [H1 H2].
  apply chain_iff. split; [now apply (chainl_ext a b)|exact H2].
Qed.

(* with every applied name mapped, chain_ok is the head-free chain property *)
Lemma s_top_last : forall s base,
  s_applied s <> [] ->
  (forall n, In n (s_applied s) -> pm_get (s_patches s) n <> None) ->
  s_top s = last (applied_oids s) base.
Proof.
  intros s base Hne Hhas. unfold s_top, last_error, applied_oids.
  destruct (s_applied s) as [|n l] eqn:E; [congruence|].
  rewrite (hd_error_rev_last _ (n :: l) n) by discriminate.
  assert (Hin : In (last (n :: l) n) (n :: l)).
  { destruct (@exists_last _ (n :: l)) as [l' [x Hx]]; [discriminate|]. rewrite Hx, last_snoc.
    apply in_or_app. right. now left. }
  specialize (Hhas _ Hin). destruct (pm_get (s_patches s) (last (n :: l) n)) as [o|] eqn:Eo; [|congruence].
  rewrite (last_nonempty_indep _ (map (patch_oid s) (n :: l)) base (patch_oid s n)) by discriminate.
  rewrite last_map. unfold patch_oid. now rewrite Eo.
Qed.

Lemma chain_ok_char : forall objs s,
  (forall n, In n (s_applied s) -> pm_get (s_patches s) n <> None) ->
  (chain_ok objs s <-> exists base, chainl objs base (applied_oids s)).
Proof.
  intros objs s Hhas. split.
  - intros [base H]. exists base. now apply chain_iff in H as [H _].
  - intros [base H]. destruct (s_applied s) as [|n l] eqn:E; [now apply chain_ok_nil|].
    exists base. apply chain_iff. split; [exact H|]. apply s_top_last; [congruence|now rewrite E].
Qed.

(* chain_ok only looks at the applied list and the patch map *)
Lemma chain_ok_same : forall objs s s',
  (forall n, In n (s_applied s) -> pm_get (s_patches s) n <> None) ->
  s_applied s' = s_applied s -> s_patches s' = s_patches s -> chain_ok objs s -> chain_ok objs s'.
Proof.
  intros objs s s' Hhas Ha Hp H. apply chain_ok_char in H; [|exact Hhas].
  apply chain_ok_char; [rewrite Ha, Hp; exact Hhas|].
  unfold applied_oids, patch_oid in *. now rewrite Ha, Hp.
Qed.

(* ---------------------------------------------------------------- state commits *)

Lemma group_parents_spec : forall fuel maxp objs tr ps objs' ps',
  group_parents fuel maxp objs tr ps = (objs', ps') ->
  exists ext, objs' = objs ++ ext /\ Forall (fun c => c_state c = None) ext.
Proof.
  induction fuel as [|fuel IH]; intros maxp objs tr ps objs' ps' H; cbn [group_parents] in H.
  - injection H as <- _. exists []. split; [now rewrite app_nil_r|constructor].
  - destruct (Nat.ltb maxp (length ps)).
    + unfold put in H. apply IH in H as [ext [-> Hf]].
      eexists (_ :: ext). split; [now rewrite <- app_assoc|]. constructor; [reflexivity|exact Hf].
    + injection H as <- _. exists []. split; [now rewrite app_nil_r|constructor].
Qed.

Lemma state_commit_spec : forall objs s msg objs' so,
  state_commit objs s msg = Some (objs', so) ->
  (exists ext, objs' = objs ++ ext /\ Forall (fun c => c_state c = None \/ c_state c = Some s) ext)
  /\ state_of objs' so = Some s.
Proof.
  intros objs s msg objs' so H. unfold state_commit in H.
  destruct (match s_prev s with
            | Some po => match state_of objs po with Some ps => Some (Some (po, ps)) | None => None end
            | None => Some None end) as [prev|]; [|discriminate].
  destruct (match prev with
            | Some (po, _) => match first_parent objs po with Some p => Some [p] | None => None end
            | None => Some [] end) as [sp|]; [|discriminate].
  unfold put in H.
  destruct (group_parents _ _ _ _ _) as [objs2 grouped] eqn:Eg.
  injection H as <- <-. apply group_parents_spec in Eg as [ext [-> Hf]].
  split.
  - eexists (_ :: ext ++ [_]). split.
    + rewrite <- !app_assoc. reflexivity.
    + constructor; [now right|]. apply Forall_app. split.
      * eapply Forall_impl; [|exact Hf]. cbn. intros c Hc. now left.
      * constructor; [now right|constructor].
  - unfold state_of. now rewrite get_put_new.
Qed.

Lemma state_commit_states : forall objs s msg objs' so so' s',
  state_commit objs s msg = Some (objs', so) ->
  state_of objs' so' = Some s' -> state_of objs so' = Some s' \/ s' = s.
Proof.
  intros objs s msg objs' so so' s' H Hs. apply state_commit_spec in H as [[ext [-> Hf]] _].
  apply state_of_app_inv in Hs as [Hs|[c [Hc Hs]]]; [now left|].
  rewrite Forall_forall in Hf. destruct (Hf c Hc) as [E|E]; rewrite E in Hs; [discriminate|].
  right. congruence.
Qed.

Lemma state_commit_extends : forall objs s msg objs' so,
  state_commit objs s msg = Some (objs', so) -> store_extends objs objs'.
Proof.
  intros objs s msg objs' so H. apply state_commit_spec in H as [[ext [-> _]] _]. apply store_extends_app.
Qed.

(* ---------------------------------------------------------------- extensions without states *)

(* the store grows by objects that are not stack state commits *)
Definition ns_extends (a b : store) : Prop :=
  exists ext, b = a ++ ext /\ Forall (fun c => c_state c = None) ext.

Lemma ns_store : forall a b, ns_extends a b -> store_extends a b.
Proof. intros a b [ext [-> _]]. apply store_extends_app. Qed.

Lemma ns_extends_refl : forall a, ns_extends a a.
Proof. intros a. exists []. split; [now rewrite app_nil_r|constructor]. Qed.

Lemma ns_extends_trans : forall a b c, ns_extends a b -> ns_extends b c -> ns_extends a c.
Proof.
  intros a b c [e1 [-> H1]] [e2 [-> H2]]. exists (e1 ++ e2). split; [now rewrite app_assoc|].
  apply Forall_app. now split.
Qed.

Lemma ns_extends_app1 : forall a c, c_state c = None -> ns_extends a (a ++ [c]).
Proof. intros a c H. exists [c]. split; [reflexivity|]. constructor; [exact H|constructor]. Qed.

Lemma ns_state_of : forall a b so s, ns_extends a b -> state_of b so = Some s -> state_of a so = Some s.
Proof.
  intros a b so s [ext [-> Hf]] H. apply state_of_app_inv in H as [H|[c [Hc Hs]]]; [exact H|].
  rewrite Forall_forall in Hf. rewrite (Hf c Hc) in Hs. discriminate.
Qed.
