(* C01 proofs, part 5: the command layer (one lemma per run_* function), step_inv and run_inv. *)
From Coq Require Import Lia Permutation.
From StgV Require Import Model.StackSpec Model.LocatorSpec Proofs.NameProofs Proofs.LocatorProofs.
From StgV Require Import Proofs.WfBasics Proofs.WfFrame Proofs.MirrorProofs Proofs.WfTxn.
From StgV Require Import Proofs.UncommitNames.

(* ---------------------------------------------------------------- init / open *)

Lemma store_ok_nil : store_ok [].
Proof.
  split.
  - intros o p [c [H _]]. destruct o; discriminate.
  - intros so s H. unfold state_of, get in H. destruct so; discriminate.
Qed.

Theorem init_inv : forall t, Inv (init_world t).
Proof.
  intros t. apply Inv_iff. cbn. split; [|split; [|exact I]].
  - apply (store_ok_put_plain [] [] t 0%N []); [apply store_ok_nil|intros p []].
  - apply (plain_new []).
Qed.

Lemma wf_state_empty : forall objs h, is_plain objs h -> wf_state objs (empty_state h).
Proof.
  intros objs h Hh. split; [apply names_ok_nil|]. split; [constructor|]. split; [|split].
  - intros n. cbn. split; [intros []|congruence].
  - intros n o E. discriminate.
  - exact Hh.
Qed.

Lemma stack_base_plain : forall objs br s b,
  store_ok objs -> wf_state objs s -> is_plain objs br ->
  stack_base objs br s = Some b -> is_plain objs b.
Proof.
  intros objs br s b [Hc _] [_ [_ [_ [Hp _]]]] Hbr E. unfold stack_base in E.
  destruct (s_applied s) as [|n l]; [now injection E as <-|].
  destruct (pm_get (s_patches s) n) as [o|] eqn:Eo; [|discriminate].
  apply Hp in Eo as [Ho _]. eapply first_parent_plain; eauto.
Qed.

Lemma Inv_prefs : forall w p, Inv w -> Inv (mkWorld (w_objs w) (w_branch w) (w_stack w) p (w_wt w) (w_unmerged w) (w_base w) (w_apc w)).
Proof. intros w p H. apply Inv_iff in H. now apply Inv_mk. Qed.

Lemma open_ok : forall p w op, Inv w -> open_stack p w = Some op -> op_ok op.
Proof.
  intros p w op Hi H. pose proof Hi as Hi'. apply Inv_iff in Hi' as [Hok [Hbr Hst]].
  unfold open_stack in H.
  assert (Href : forall so,
    match state_of (w_objs w) so with
    | None => None
    | Some s => match stack_base (w_objs w) (w_branch w) s with
                | None => None
                | Some b => Some (mkOpened (ensure_patch_refs w s) s b true) end
    end = Some op -> op_ok op).
  { intros so E. destruct (state_of (w_objs w) so) as [s|] eqn:Es; [|discriminate].
    destruct (stack_base _ _ s) as [b|] eqn:Eb; [|discriminate]. injection E as <-.
    pose proof (proj2 Hok so s Es) as Hs.
    split; [now apply Inv_prefs|]. split; [exact Hs|]. eapply stack_base_plain; eauto. }
  assert (Hini :
    match state_commit (w_objs w) (empty_state (w_branch w)) MOp with
    | None => None
    | Some (objs', so) =>
        Some (mkOpened (ensure_patch_refs
                 (mkWorld objs' (w_branch w) (Some so) (w_prefs w) (w_wt w) (w_unmerged w) (w_base w) (w_apc w))
                 (empty_state (w_branch w))) (empty_state (w_branch w)) (w_branch w) true)
    end = Some op -> op_ok op).
  { intros E. destruct (state_commit _ _ _) as [[objs' so]|] eqn:Ec; [|discriminate].
    injection E as <-. apply state_commit_ok in Ec as [Hok' [He' Hs']];
      [|exact Hok|now apply wf_state_empty].
    assert (Hbr' : is_plain objs' (w_branch w)) by (eapply is_plain_ext; eauto).
    split; [|split; [now apply wf_state_empty|exact Hbr']].
    apply Inv_mk. split; [exact Hok'|]. split; [exact Hbr'|cbn; eauto]. }
  destruct p, (w_stack w) as [so|] eqn:Es; try discriminate; eauto.
  injection H as <-. split; [now apply Inv_prefs|]. split; [now apply wf_state_empty|exact Hbr].
Qed.

Lemma op_ok_put : forall op ps tr m sj b,
  op_ok op -> (forall p, In p ps -> is_plain (w_objs (op_world op)) p) ->
  op_ok (mkOpened (with_objs (op_world op) (w_objs (op_world op) ++ [plain ps tr m sj]))
                  (op_state op) (op_base op) b).
Proof.
  intros op ps tr m sj b [Hi [Hs Hb]] Hp. apply Inv_iff in Hi.
  assert (Hok : store_ok (w_objs (op_world op) ++ [plain ps tr m sj])).
  { apply store_ok_put_plain; [apply Hi|exact Hp]. }
  split; [|split].
  - apply Inv_mk. eapply Inv'_ext; [exact Hi|exact Hok|apply store_extends_put].
  - now apply wf_state_mono.
  - now apply is_plain_mono.
Qed.

(* ---------------------------------------------------------------- parsing / resolution *)

Lemma parse_ranges_wf : forall l prs, parse_ranges l = Some prs -> Forall wf_range prs.
Proof.
  induction l as [|x l IH]; intros prs H; cbn in H.
  - injection H as <-. constructor.
  - destruct (parse_range x) as [r|] eqn:Er; [|discriminate].
    destruct (parse_ranges l) as [rs|]; [|discriminate]. injection H as <-.
    constructor; [now apply parsed_range_wf in Er|now apply IH].
Qed.

Lemma resolve_names_ok : forall l prs s rc ns,
  parse_ranges l = Some prs -> resolve_names (view_of s) rc prs = ROk ns ->
  NoDup ns /\ incl ns (allowed (view_of s) (lc_of rc)).
Proof.
  intros l prs s rc ns Hp Hr. apply parse_ranges_wf in Hp.
  pose proof (ranges_sound (view_of s) rc prs Hp) as H. now rewrite Hr in H.
Qed.

(* ---------------------------------------------------------------- driver *)

Ltac inv_leaf :=
  cbn [fst err2 ok0];
  first [ assumption
        | match goal with H : op_ok ?op |- Inv (op_world ?op) => exact (proj1 H) end ].

Ltac cmd_destruct :=
  match goal with
  | |- Inv (fst (rres_bind _ ?r _)) => destruct r eqn:?; cbn [rres_bind]
  | Hi : Inv ?w |- context [match open_stack ?p ?w with _ => _ end] =>
      let E := fresh "Eo" in destruct (open_stack p w) as [?op|] eqn:E; [apply (open_ok p w _ Hi) in E|]
  | |- context [match ?x with _ => _ end] =>
      lazymatch x with
      | context [match _ with _ => _ end] => fail
      | _ => destruct x eqn:?
      end
  | |- Inv (fst (if ?b then _ else _)) => destruct b eqn:?
  | |- Inv (fst (match ?x with _ => _ end)) => destruct x eqn:?
  end.

Ltac cmd_cases := repeat (first [inv_leaf | cmd_destruct]).

Ltac restore :=
  repeat match goal with
  | H : s_applied ?s = ?a :: ?r |- context [?a :: ?r] => rewrite <- H
  | H : s_unapplied ?s = ?a :: ?r |- context [?a :: ?r] => rewrite <- H
  | H : s_hidden ?s = ?a :: ?r |- context [?a :: ?r] => rewrite <- H
  end.

Ltac transact_leaf :=
  restore; apply transact_inv; [assumption | intros W; cbv beta | frame_auto].

(* ---------------------------------------------------------------- reorder helpers *)

Lemma reorder_some : forall al ul h t,
  wf_txn t ->
  Permutation (al ++ ul ++ match h with
                           | Some hl => hl
                           | None => filter (fun x => negb (mem x al)) (t_hidden t)
                           end) (t_all t) ->
  good (reorder_patches (Some al) (Some ul) h t).
Proof.
  intros al ul h t W Hp. apply reorder_wf; [exact W|]. cbn [reorder_pre].
  assert (Hd : NoDup (al ++ ul ++ match h with Some hl => hl | None => filter (fun x => negb (mem x al)) (t_hidden t) end)).
  { apply (Permutation_NoDup (Permutation_sym Hp)). apply W. }
  apply NoDup_app_iff in Hd as [Hd _]. split; [exact Hd|]. split.
  - intros x Hx. apply (Permutation_in _ Hp). apply in_or_app. now left.
  - exists ul. split; [reflexivity|exact Hp].
Qed.

Lemma reorder_visible : forall al ul t,
  wf_txn t -> Permutation (al ++ ul) (t_applied t ++ t_unapplied t) ->
  good (reorder_patches (Some al) (Some ul) None t).
Proof.
  intros al ul t W Hp. apply reorder_some; [exact W|].
  pose proof (names_disjoint t (wt_names t W)) as [_ [_ [_ [Hah Huh]]]].
  rewrite filter_all.
  - unfold t_all. rewrite !app_assoc. now apply Permutation_app_tail.
  - intros x Hx. apply negb_mem_true. intros Hi.
    assert (Hv : In x (t_applied t ++ t_unapplied t)).
    { apply (Permutation_in _ Hp). apply in_or_app. now left. }
    apply in_app_or in Hv as [Hv|Hv]; [now apply (Hah x Hv)|now apply (Huh x Hv)].
Qed.

Lemma perm_split : forall (ps l : list name),
  NoDup ps -> NoDup l -> incl ps l -> Permutation (ps ++ filter (fun n => negb (mem n ps)) l) l.
Proof.
  intros ps l H1 H2 Hi. eapply Permutation_trans; [|apply (filter_perm _ (fun n => mem n ps))].
  apply Permutation_app_tail. now apply perm_filter_in.
Qed.

(* ---------------------------------------------------------------- pop *)

Lemma pop_closure : forall ps t,
  wf_txn t ->
  good (reorder_patches (Some (filter (fun n => negb (mem n ps)) (t_applied t)))
          (Some (filter (fun n => mem n ps) (t_applied t) ++ t_unapplied t)) None t).
Proof.
  intros ps t W. apply reorder_visible; [exact W|]. rewrite app_assoc. apply Permutation_app_tail.
  apply (filter_perm' _ (fun n => mem n ps)).
Qed.

Lemma run_pop_inv : forall w r n al kp sp, Inv w -> Inv (fst (run_pop w r n al kp sp)).
Proof.
  intros w r n al kp sp Hi. unfold run_pop. cmd_cases.
  all: transact_leaf.
  all: apply pop_closure; exact W.
Qed.

(* ---------------------------------------------------------------- push / goto *)

Lemma push_unapplied_wf : forall ps m t,
  wf_txn t -> NoDup ps -> incl ps (t_unapplied t) -> good (push_patches ps m t).
Proof.
  intros ps m t W Hd Hi. eapply res_sat_impl; [apply push_patches_wf; [exact W|exact Hd|]|intros t' P; apply P].
  intros n Hn. apply Hi in Hn. split; [apply in_all_cases; auto|].
  pose proof (names_disjoint t (wt_names t W)) as [_ [_ [_ [Hah _]]]]. intros Ha. destruct (Hah n Ha) as [H1 _]. contradiction.
Qed.

Lemma noapply_closure : forall ps t,
  wf_txn t -> NoDup ps -> incl ps (t_unapplied t) ->
  good (reorder_patches None (Some (ps ++ filter (fun n => negb (mem n ps)) (t_unapplied t))) None t).
Proof.
  intros ps t W Hd Hi. apply reorder_wf; [exact W|]. cbn [reorder_pre]. unfold t_all.
  apply Permutation_app_head. apply Permutation_app_tail. apply perm_split; auto.
  now apply (names_disjoint t (wt_names t W)).
Qed.

Lemma state_lists : forall objs s, wf_state objs s ->
  NoDup (s_applied s) /\ NoDup (s_unapplied s) /\ NoDup (s_hidden s).
Proof.
  intros objs s [[Hd _] _]. unfold all_of in Hd. apply NoDup_app_iff in Hd as [H1 [H2 _]].
  apply NoDup_app_iff in H2 as [H2 [H3 _]]. auto.
Qed.

Lemma NoDup_firstn : forall (A : Type) n (l : list A), NoDup l -> NoDup (firstn n l).
Proof. intros A n l H. now apply NoDup_firstn_skipn. Qed.

Lemma incl_firstn : forall (A : Type) n (l : list A), incl (firstn n l) l.
Proof. intros A n l x. apply WfBasics.In_firstn. Qed.

Lemma NoDup_incl_rev : forall (A : Type) (l l' : list A),
  NoDup l /\ incl l l' -> NoDup (rev l) /\ incl (rev l) l'.
Proof.
  intros A l l' [H1 H2]. split; [now apply NoDup_rev|]. intros x Hx. apply H2. now apply in_rev.
Qed.

Lemma run_push_inv : forall w r n al rv na st mg kp cf,
  Inv w -> Inv (fst (run_push w r n al rv na st mg kp cf)).
Proof.
  intros w r n al rv na st mg kp cf Hi. unfold run_push.
  destruct (open_stack PAllow w) as [op|] eqn:Eo; [apply (open_ok _ _ _ Hi) in Eo|exact Hi].
  destruct (match n with Some z => (z =? 0)%Z | None => false end); [cmd_cases|].
  pose proof Eo as [_ [Hs _]]. destruct (state_lists _ _ Hs) as [_ [Hdu _]].
  match goal with |- Inv (fst (match ?p with inl _ => _ | inr _ => _ end)) =>
    assert (Hps : forall ps, p = inr ps -> NoDup ps /\ incl ps (s_unapplied (op_state op)));
    [|destruct p as [res|ps] eqn:Ep] end.
  { intros ps E. destruct r as [rs|].
    - destruct (parse_ranges rs) as [prs|] eqn:Epr; [|discriminate].
      destruct (resolve_names _ _ _) as [l| |] eqn:Er; try discriminate. injection E as <-.
      exact (resolve_names_ok _ _ _ _ _ Epr Er).
    - destruct (s_unapplied (op_state op)) as [|x xs] eqn:Eu; [discriminate|].
      destruct al; [injection E as <-; split; [exact Hdu|apply incl_refl]|].
      destruct n; injection E as <-; [|change [x] with (firstn 1 (x :: xs))];
        (split; [now apply NoDup_firstn|apply incl_firstn]). }
  - clear Hps. revert Ep. cmd_cases; intros Ep; first [discriminate|injection Ep as <-; inv_leaf].
  - destruct (Hps ps eq_refl) as [Hd Hin]. clear Hps Ep.
    assert (Hps' : NoDup (if rv then rev ps else ps) /\ incl (if rv then rev ps else ps) (s_unapplied (op_state op))).
    { destruct rv; [now apply NoDup_incl_rev|auto]. }
    destruct Hps' as [Hd' Hin'].
    destruct ps as [|p0 ps0]; [inv_leaf|]. set (ps := p0 :: ps0) in *.
    cmd_cases; transact_leaf;
      first [now apply push_tree_list_wf|now apply noapply_closure|now apply push_unapplied_wf].
Qed.

Lemma goto_closure : forall pn m t,
  wf_txn t ->
  good (match position (name_eqb pn) (t_applied t) with
        | Some pos =>
            reorder_patches (Some (firstn (S pos) (t_applied t)))
                            (Some (skipn (S pos) (t_applied t) ++ t_unapplied t)) None t
        | None =>
            match position (name_eqb pn) (t_unapplied t) with
            | Some pos => push_patches (firstn (S pos) (t_unapplied t)) m t
            | None => TPanic
            end
        end).
Proof.
  intros pn m t W. pose proof (names_disjoint t (wt_names t W)) as [_ [Hdu _]].
  destruct (position _ (t_applied t)) as [pos|].
  - apply reorder_visible; [exact W|]. now rewrite app_assoc, firstn_skipn.
  - destruct (position _ (t_unapplied t)) as [pos|]; [|exact I].
    apply push_unapplied_wf; [exact W|now apply NoDup_firstn|apply incl_firstn].
Qed.

Lemma run_goto_inv : forall w l kp mg cf, Inv w -> Inv (fst (run_goto w l kp mg cf)).
Proof.
  intros w l kp mg cf Hi. unfold run_goto.
  destruct (parse_locator l) as [pl|]; [|exact Hi].
  destruct (open_stack PAllow w) as [op|] eqn:Eo; [apply (open_ok _ _ _ Hi) in Eo|exact Hi].
  destruct (w_unmerged (op_world op)); [inv_leaf|].
  destruct (negb (head_top_ok op)); [inv_leaf|].
  destruct (negb kp && dirty (op_world op)); [inv_leaf|].
  destruct (resolve_constrained _ _ _) as [pn| |]; cbn [rres_bind]; try inv_leaf.
  transact_leaf. now apply goto_closure.
Qed.

(* ---------------------------------------------------------------- float / sink *)

Lemma float_perm : forall (ps a u : list name),
  NoDup ps -> NoDup (a ++ u) -> incl ps (a ++ u) ->
  Permutation (ps ++ filter (fun n => negb (mem n ps)) a ++ filter (fun n => negb (mem n ps)) u) (a ++ u).
Proof. intros ps a u H1 H2 H3. rewrite <- filter_app. now apply perm_split. Qed.

Lemma visible_nodup : forall t, wf_txn t -> NoDup (t_applied t ++ t_unapplied t).
Proof.
  intros t W. destruct (wt_names t W) as [Hd _]. unfold t_all in Hd. rewrite app_assoc in Hd.
  now apply NoDup_app_iff in Hd.
Qed.

Lemma float_closure : forall ps (na : bool) t,
  wf_txn t -> NoDup ps -> incl ps (t_applied t ++ t_unapplied t) ->
  good (let notin := fun n => negb (mem n ps) in
        let '(a, u) :=
          if na then (filter notin (t_applied t), ps ++ filter notin (t_unapplied t))
          else (filter notin (t_applied t) ++ ps, filter notin (t_unapplied t)) in
        reorder_patches (Some a) (Some u) None t).
Proof.
  intros ps na t W Hd Hi. cbv zeta. pose proof (float_perm ps _ _ Hd (visible_nodup t W) Hi) as Hp.
  destruct na; apply reorder_visible; try exact W.
  - eapply Permutation_trans; [|exact Hp]. rewrite !app_assoc. apply Permutation_app_tail.
    apply Permutation_app_comm.
  - eapply Permutation_trans; [|exact Hp]. rewrite (app_assoc ps). apply Permutation_app_tail.
    apply Permutation_app_comm.
Qed.

Lemma run_float_inv : forall w r na kp, Inv w -> Inv (fst (run_float w r na kp)).
Proof.
  intros w r na kp Hi. unfold run_float.
  destruct (parse_ranges r) as [prs|] eqn:Epr; [|exact Hi].
  destruct (open_stack PAllow w) as [op|] eqn:Eo; [apply (open_ok _ _ _ Hi) in Eo|exact Hi].
  destruct (w_unmerged (op_world op)); [inv_leaf|].
  destruct (negb (head_top_ok op)); [inv_leaf|].
  destruct (resolve_names _ _ _) as [ps| |] eqn:Er; cbn [rres_bind]; try inv_leaf.
  destruct (resolve_names_ok _ _ _ _ _ Epr Er) as [Hd Hin].
  destruct ps as [|p0 ps0]; [inv_leaf|]. set (ps := p0 :: ps0) in *.
  match goal with |- Inv (fst (if ?b then _ else _)) => destruct b end; [inv_leaf|].
  pose proof (float_closure ps na) as Hc. cbv zeta in Hc.
  destruct (if na then _ else _) as [a u] eqn:Eau.
  transact_leaf. specialize (Hc _ W Hd Hin). cbn [begin_txn t_applied t_unapplied] in Hc.
  destruct na; injection Eau as <- <-; exact Hc.
Qed.

Lemma sink_perm : forall ps (tp : nat) t,
  wf_txn t -> NoDup ps -> incl ps (t_all t) ->
  let notin := fun n => negb (mem n ps) in
  let R := filter notin (t_applied t) in
  let RU := filter notin (t_unapplied t) in
  forall al ul,
    Permutation (al ++ ul) (ps ++ R ++ RU) -> (forall x, In x al -> In x ps \/ In x (t_applied t)) ->
    (forall x, In x ps -> In x al) ->
    good (reorder_patches (Some al) (Some ul) None t).
Proof.
  intros ps tp t W Hd Hi notin R RU al ul Hp Hal Hps. apply reorder_some; [exact W|].
  pose proof (names_disjoint t (wt_names t W)) as [_ [_ [_ [Hah _]]]].
  assert (EH : filter (fun x => negb (mem x al)) (t_hidden t) = filter notin (t_hidden t)).
  { apply filter_ext_in. intros x Hx. unfold notin. f_equal. apply mem_ext. split; [|apply Hps].
    intros Hxa. destruct (Hal x Hxa) as [Hxp|Hxp]; [exact Hxp|]. destruct (Hah x Hxp). contradiction. }
  rewrite EH. rewrite app_assoc. eapply Permutation_trans; [apply Permutation_app_tail; exact Hp|].
  eapply Permutation_trans; [|apply (perm_split ps (t_all t) Hd (proj1 (wt_names t W)) Hi)].
  unfold t_all. rewrite !filter_app. now rewrite <- !app_assoc.
Qed.

Lemma sink_closure1 : forall ps tp t,
  wf_txn t -> NoDup ps -> incl ps (t_all t) ->
  good (reorder_patches
          (Some (firstn tp (filter (fun n => negb (mem n ps)) (t_applied t)) ++ ps))
          (Some (skipn tp (filter (fun n => negb (mem n ps)) (t_applied t))
                 ++ filter (fun n => negb (mem n ps)) (t_unapplied t))) None t).
Proof.
  intros ps tp t W Hd Hi. apply (sink_perm ps tp t W Hd Hi).
  - rewrite <- !app_assoc. rewrite (app_assoc _ ps). 
    eapply Permutation_trans; [apply Permutation_app_tail, Permutation_app_comm|].
    rewrite <- !app_assoc. apply Permutation_app_head. now rewrite app_assoc, firstn_skipn.
  - intros x Hx. apply in_app_or in Hx as [Hx|Hx]; [right|now left].
    apply WfBasics.In_firstn in Hx. now apply filter_In in Hx.
  - intros x Hx. apply in_or_app. now right.
Qed.

Lemma sink_closure2 : forall ps tp t,
  wf_txn t -> NoDup ps -> incl ps (t_all t) ->
  good (reorder_patches
          (Some (firstn tp (filter (fun n => negb (mem n ps)) (t_applied t)) ++ ps
                 ++ skipn tp (filter (fun n => negb (mem n ps)) (t_applied t))))
          (Some (filter (fun n => negb (mem n ps)) (t_unapplied t))) None t).
Proof.
  intros ps tp t W Hd Hi. apply (sink_perm ps tp t W Hd Hi).
  - rewrite <- !app_assoc. rewrite (app_assoc _ ps).
    eapply Permutation_trans; [apply Permutation_app_tail, Permutation_app_comm|].
    rewrite <- !app_assoc. apply Permutation_app_head. now rewrite app_assoc, firstn_skipn.
  - intros x Hx. apply in_app_or in Hx as [Hx|Hx].
    + right. apply WfBasics.In_firstn in Hx. now apply filter_In in Hx.
    + apply in_app_or in Hx as [Hx|Hx]; [now left|right].
      apply WfBasics.In_skipn in Hx. now apply filter_In in Hx.
  - intros x Hx. apply in_or_app. right. apply in_or_app. now left.
Qed.

Ltac names_facts :=
  match goal with
  | Hp : parse_ranges _ = Some ?prs, Hr : resolve_names _ _ ?prs = ROk ?ps |- _ =>
      destruct (resolve_names_ok _ _ _ _ _ Hp Hr) as [Hd Hin]
  end.

Lemma run_sink_inv : forall w r t np kp, Inv w -> Inv (fst (run_sink w r t np kp)).
Proof.
  intros w r t np kp Hi. unfold run_sink. cmd_cases.
  all: transact_leaf.
  all: try names_facts.
  all: first [apply sink_closure1|apply sink_closure2]; try exact W; try exact Hd; try exact Hin.
  all: match goal with
       | H : match last_error ?l with _ => _ end = ROk ?a |- _ =>
           destruct (last_error l) eqn:El; [injection H as <-|discriminate]
       end.
  all: match goal with
       | |- NoDup [_] => constructor; [intros []|constructor]
       | |- incl [_] _ =>
           intros x [<-|[]]; apply in_all_cases; left; cbn [begin_txn t_applied];
           match goal with H : last_error _ = Some _ |- _ => now apply last_error_In in H end
       end.
Qed.

(* ---------------------------------------------------------------- delete / clean *)

Lemma delete_push_wf : forall f t,
  wf_txn t -> good (let '(t1, to_push) := delete_patches f t in push_patches to_push false t1).
Proof.
  intros f t W. destruct (delete_patches f t) as [t1 tp] eqn:E.
  destruct (delete_wf f t t1 tp W E) as [W1 [Hd Hi]]. now apply push_unapplied_wf.
Qed.

Lemma run_delete_inv : forall w r tp al a u h sp cf, Inv w -> Inv (fst (run_delete w r tp al a u h sp cf)).
Proof.
  intros w r tp al a u h sp cf Hi. unfold run_delete.
  destruct (match r with Some rs => parse_ranges rs | None => Some [] end) as [prs|]; [|exact Hi].
  destruct (open_stack PAllow w) as [op|] eqn:Eo; [apply (open_ok _ _ _ Hi) in Eo|exact Hi].
  match goal with |- Inv (fst (rres_bind _ ?r _)) => destruct r as [ps| |] end; cbn [rres_bind]; try inv_leaf.
  repeat match goal with |- Inv (fst (if ?b then _ else _)) => destruct b end; try inv_leaf.
  transact_leaf. now apply delete_push_wf.
Qed.

Lemma run_clean_inv : forall w a u, Inv w -> Inv (fst (run_clean w a u)).
Proof.
  intros w a u Hi. unfold run_clean.
  destruct (open_stack PAllow w) as [op|] eqn:Eo; [apply (open_ok _ _ _ Hi) in Eo|exact Hi].
  destruct (negb (head_top_ok op)); [inv_leaf|].
  destruct (if negb a && negb u then (true, true) else (a, u)) as [ca cu].
  match goal with |- Inv (fst (match ?l with [] => _ | _ :: _ => _ end)) => destruct l end; [inv_leaf|].
  transact_leaf. now apply delete_push_wf.
Qed.

(* ---------------------------------------------------------------- hide / unhide *)

Lemma hide_wf : forall th t,
  wf_txn t -> NoDup th -> incl th (t_applied t ++ t_unapplied t) -> good (hide_patches th t).
Proof.
  intros th t W Hd Hi. unfold hide_patches. apply reorder_some; [exact W|]. unfold t_all.
  rewrite !app_assoc. apply Permutation_app_tail. rewrite <- filter_app.
  eapply Permutation_trans; [apply Permutation_app_comm|].
  apply perm_split; [exact Hd|now apply visible_nodup|exact Hi].
Qed.

Lemma unhide_wf : forall ps t,
  wf_txn t -> NoDup ps -> incl ps (t_hidden t) -> good (unhide_patches ps t).
Proof.
  intros ps t W Hd Hi. unfold unhide_patches. apply reorder_wf; [exact W|]. cbn [reorder_pre].
  unfold t_all. apply Permutation_app_head. rewrite <- app_assoc. apply Permutation_app_head.
  apply perm_split; [exact Hd| |exact Hi]. now apply (names_disjoint t (wt_names t W)).
Qed.

Lemma run_hide_inv : forall w r, Inv w -> Inv (fst (run_hide w r)).
Proof.
  intros w r Hi. unfold run_hide.
  destruct (parse_ranges r) as [prs|] eqn:Epr; [|exact Hi].
  destruct (open_stack PAllow w) as [op|] eqn:Eo; [apply (open_ok _ _ _ Hi) in Eo|exact Hi].
  destruct (negb (head_top_ok op)); [inv_leaf|].
  destruct (resolve_names _ _ _) as [ps| |] eqn:Er; cbn [rres_bind]; try inv_leaf.
  destruct (resolve_names_ok _ _ _ _ _ Epr Er) as [Hd Hin].
  transact_leaf. apply hide_wf; [exact W|now apply NoDup_filter|].
  intros x Hx. apply filter_In in Hx as [Hx1 Hx2]. apply negb_mem_true in Hx2.
  apply Hin in Hx1. cbn in Hx1. unfold v_all in Hx1. cbn in Hx1.
  rewrite app_assoc in Hx1. apply in_app_or in Hx1 as [Hx1|Hx1]; [exact Hx1|contradiction].
Qed.

Lemma run_unhide_inv : forall w r, Inv w -> Inv (fst (run_unhide w r)).
Proof.
  intros w r Hi. unfold run_unhide.
  destruct (parse_ranges r) as [prs|] eqn:Epr; [|exact Hi].
  destruct (open_stack PAllow w) as [op|] eqn:Eo; [apply (open_ok _ _ _ Hi) in Eo|exact Hi].
  destruct (negb (head_top_ok op)); [inv_leaf|].
  destruct (resolve_names _ _ _) as [ps| |] eqn:Er; cbn [rres_bind]; try inv_leaf.
  destruct (resolve_names_ok _ _ _ _ _ Epr Er) as [Hd Hin].
  transact_leaf. apply unhide_wf; [exact W|exact Hd|exact Hin].
Qed.

(* ---------------------------------------------------------------- rename *)

Lemma from_str_valid : forall s n, from_str s = Some n -> validate n = true.
Proof.
  intros s n H. unfold from_str in H. destruct (validate (unescape_dash s)) eqn:E; [|discriminate].
  now injection H as <-.
Qed.

Lemma stack_collides_none : forall s n,
  stack_collides s n = None -> forall m, In m (all_of s) -> collides n m = false.
Proof. intros s n H m Hm. unfold stack_collides in H. now apply (find_none _ _ H). Qed.

Lemma run_rename_inv : forall w o n, Inv w -> Inv (fst (run_rename w o n)).
Proof.
  intros w o n Hi. unfold run_rename.
  destruct (from_str n) as [newn|] eqn:En; [|exact Hi]. apply from_str_valid in En.
  match goal with |- Inv (fst (match ?x with Some _ => _ | None => _ end)) => destruct x as [old_l|] end;
    [|exact Hi].
  destruct (open_stack PAllow w) as [op|] eqn:Eo; [apply (open_ok _ _ _ Hi) in Eo|exact Hi].
  match goal with |- Inv (fst (rres_bind _ ?r _)) => destruct r as [oldn| |] end; cbn [rres_bind]; try inv_leaf.
  pose proof Eo as [_ [[Hn _] _]].
  destruct (stack_collides (op_state op) newn) as [c|] eqn:Ec.
  - destruct (mem newn (all_of (op_state op))) eqn:Em; [inv_leaf|].
    destruct (name_eqb_spec c oldn) as [->|Hc]; cbn [negb]; [|inv_leaf].
    transact_leaf. apply rename_wf; [exact W|exact En|now apply mem_false in Em|].
    intros m Hm Hcm. unfold stack_collides in Ec. apply find_some in Ec as [Hc1 Hc2].
    destruct Hn as [_ [_ Hcf]]. apply Hcf; auto. eapply collides_trans; [|exact Hc2].
    now rewrite collides_sym.
  - pose proof (stack_collides_none _ _ Ec) as Hnc.
    transact_leaf. apply rename_wf; [exact W|exact En| |].
    + intros Hin. apply Hnc in Hin. rewrite collides_refl in Hin. discriminate.
    + intros m Hm Hcm. rewrite (Hnc m Hm) in Hcm. discriminate.
Qed.

(* ---------------------------------------------------------------- commit *)

Lemma hd_skipn_In : forall (A : Type) k (l : list A) x, hd_error (skipn k l) = Some x -> In x l.
Proof. intros A k l x H. apply hd_error_In in H. eapply WfBasics.In_skipn; exact H. Qed.

Lemma cpl_filter_head : forall (f : name -> bool) a r,
  NoDup a -> (forall x, In x r -> ~ In x a) ->
  forall x, hd_error (skipn (common_prefix_len a (filter f a ++ r)) a) = Some x ->
            ~ In x (filter f a ++ r).
Proof.
  intros f a r Hd Hr. induction Hd as [|y a Hy Hd IH]; intros x Hx; [discriminate|].
  cbn [filter] in *. destruct (f y) eqn:Ef.
  - cbn in Hx. rewrite name_eqb_refl in Hx. cbn in Hx.
    assert (Hr' : forall z, In z r -> ~ In z a) by (intros z Hz Hi; apply (Hr z Hz); now right).
    specialize (IH Hr' x Hx). apply hd_skipn_In in Hx.
    cbn. intros [<-|Hi]; [contradiction|contradiction].
  - assert (Hny : ~ In y (filter f a ++ r)).
    { intros Hi. apply in_app_or in Hi as [Hi|Hi].
      - apply filter_In in Hi as [Hi _]. contradiction.
      - apply (Hr y Hi). now left. }
    assert (Ek : common_prefix_len (y :: a) (filter f a ++ r) = O).
    { destruct (filter f a ++ r) as [|z L]; [reflexivity|]. cbn.
      destruct (name_eqb_spec y z) as [->|Hz]; [|reflexivity]. exfalso. apply Hny. now left. }
    rewrite Ek in Hx. cbn in Hx. injection Hx as <-. exact Hny.
Qed.

Lemma cpl_firstn_head : forall a j,
  NoDup a ->
  forall x, hd_error (skipn (common_prefix_len a (firstn j a)) a) = Some x -> ~ In x (firstn j a).
Proof.
  intros a j Hd. revert j. induction Hd as [|y a Hy Hd IH]; intros j x Hx; [discriminate|].
  destruct j as [|j]; [intros []|]. cbn in Hx. rewrite name_eqb_refl in Hx. cbn in Hx.
  specialize (IH j x Hx). apply hd_skipn_In in Hx. cbn. intros [<-|Hi]; contradiction.
Qed.

Lemma commit_pre_prefix : forall j t, wf_txn t -> commit_pre (firstn j (t_applied t)) t.
Proof.
  intros j t W. pose proof (names_disjoint t (wt_names t W)) as [Hda _]. split; [|split].
  - now apply NoDup_firstn.
  - intros x Hx. apply in_all_cases. left. eapply WfBasics.In_firstn; exact Hx.
  - now apply cpl_firstn_head.
Qed.

Lemma commit_pre_sorted : forall l t,
  wf_txn t -> NoDup l -> incl l (t_applied t ++ t_unapplied t) ->
  commit_pre (sort_by_position (t_applied t ++ t_unapplied t) l) t.
Proof.
  intros l t W Hd Hi. unfold sort_by_position. rewrite filter_app.
  pose proof (names_disjoint t (wt_names t W)) as [Hda [_ [_ [Hau _]]]]. split; [|split].
  - rewrite <- filter_app. apply NoDup_filter. now apply visible_nodup.
  - rewrite <- filter_app. intros x Hx. apply filter_In in Hx as [Hx _]. unfold t_all.
    rewrite app_assoc. apply in_or_app. now left.
  - apply cpl_filter_head; [exact Hda|]. intros x Hx Ha. apply filter_In in Hx as [Hx _].
    destruct (Hau x Ha) as [H1 _]. contradiction.
Qed.

Lemma run_commit_inv : forall w r n al ae, Inv w -> Inv (fst (run_commit w r n al ae)).
Proof.
  intros w r n al ae Hi. unfold run_commit.
  destruct (match r with Some rs => parse_ranges rs | None => Some [] end) as [prs|] eqn:Epr; [|exact Hi].
  destruct (open_stack PAllow w) as [op|] eqn:Eo; [apply (open_ok _ _ _ Hi) in Eo|exact Hi].
  match goal with |- Inv (fst (match ?p with inl _ => _ | inr _ => _ end)) =>
    assert (Hps : forall ps o, p = inr ps -> wf_txn (begin_txn op o) -> commit_pre ps (begin_txn op o));
    [|destruct p as [res|ps] eqn:Ep] end.
  { intros ps o E W. destruct r as [rs|].
    - destruct (resolve_names _ _ _) as [l| |] eqn:Er; try discriminate. injection E as <-.
      destruct (resolve_names_ok _ _ _ _ _ Epr Er) as [Hd Hin].
      apply (commit_pre_sorted l (begin_txn op o) W Hd Hin).
    - destruct n as [k|].
      + destruct (k =? 0)%N; [discriminate|]. destruct (Nat.ltb _ _); [discriminate|].
        injection E as <-. apply (commit_pre_prefix _ (begin_txn op o) W).
      + destruct (s_applied (op_state op)) as [|x xs] eqn:Ea; [discriminate|].
        destruct al; injection E as <-.
        * rewrite <- Ea. rewrite <- (firstn_all (s_applied (op_state op))).
          apply (commit_pre_prefix _ (begin_txn op o) W).
        * pose proof (commit_pre_prefix 1 (begin_txn op o) W) as H. cbn [begin_txn t_applied] in H.
          rewrite Ea in H. exact H. }
  - clear Hps. revert Ep. cmd_cases; intros Ep; first [discriminate|injection Ep as <-; inv_leaf].
  - specialize (Hps ps). clear Ep.
    destruct ps as [|p0 ps0]; [inv_leaf|].
    repeat match goal with |- Inv (fst (if ?b then _ else _)) => destruct b end; try inv_leaf.
    transact_leaf. apply commit_wf; [exact W|]. now apply Hps.
Qed.

(* ---------------------------------------------------------------- uncommit *)

Lemma walk_down_patch : forall objs k o l,
  plain_closed objs -> is_plain objs o -> walk_down objs o k = Some l ->
  forall c, In c l -> is_patch_commit objs c.
Proof.
  intros objs. induction k as [|k IH]; intros o l Hc Ho H c Hin; cbn in H.
  - injection H as <-. destruct Hin.
  - destruct (parents_of objs o) as [|p [|q r]] eqn:Ep; try discriminate.
    destruct (walk_down objs p k) as [l'|] eqn:Ew; [|discriminate]. injection H as <-.
    destruct Hin as [<-|Hin].
    + split; [exact Ho|eauto].
    + apply (IH p l'); auto. apply (Hc o p Ho). rewrite Ep. now left.
Qed.

Lemma check_go_spec : forall s names taken,
  names_ok (taken ++ all_of s) -> Forall (fun n => validate n = true) names ->
  (fix go (taken names : list name) : bool :=
     match names with
     | [] => true
     | n :: rest =>
         match stack_collides s n with
         | Some _ => false
         | None => if existsb (fun m => collides n m) taken then false else go (taken ++ [n]) rest
         end
     end) taken names = true ->
  names_ok ((taken ++ names) ++ all_of s).
Proof.
  intros s. induction names as [|n rest IH]; intros taken Hn Hv H.
  - now rewrite app_nil_r.
  - inversion Hv as [|? ? Hvn Hv']; subst.
    destruct (stack_collides s n) eqn:Ec; [discriminate|].
    destruct (existsb (fun m => collides n m) taken) eqn:Ee; [discriminate|].
    replace (taken ++ n :: rest) with ((taken ++ [n]) ++ rest) by (now rewrite <- app_assoc).
    apply IH; [|exact Hv'|exact H].
    eapply names_ok_perm; [|apply (names_ok_cons n (taken ++ all_of s) Hn Hvn)].
    + rewrite <- app_assoc. apply Permutation_sym. apply Permutation_middle.
    + intros m Hm. apply in_app_or in Hm as [Hm|Hm].
      * destruct (collides n m) eqn:E; [|reflexivity].
        assert (existsb (fun m => collides n m) taken = true) by (apply existsb_exists; eauto). congruence.
      * now apply (stack_collides_none s n Ec).
Qed.

Lemma check_patchnames_ok : forall s names,
  names_ok (all_of s) -> Forall (fun n => validate n = true) names ->
  check_patchnames s names = true -> names_ok (names ++ all_of s).
Proof. intros s names Hn Hv H. exact (check_go_spec s names [] Hn Hv H). Qed.

Lemma parsed_names_valid : forall names l,
  fold_right (fun x acc => match from_str x, acc with
                           | Some n, Some l => Some (n :: l)
                           | _, _ => None end) (Some []) names = Some l ->
  Forall (fun n => validate n = true) l.
Proof.
  induction names as [|x names IH]; intros l H; cbn in H.
  - injection H as <-. constructor.
  - destruct (from_str x) as [n|] eqn:En; [|discriminate].
    destruct (fold_right _ _ names) as [l'|]; [|discriminate]. injection H as <-.
    constructor; [now apply from_str_valid in En|now apply IH].
Qed.

Lemma map_fst_combine : forall (A B : Type) (l : list A) (l' : list B),
  length l = length l' -> map fst (combine l l') = l.
Proof.
  intros A B. induction l as [|a l IH]; intros [|b l'] H; cbn in *; try discriminate; [reflexivity|].
  f_equal. apply IH. lia.
Qed.

Lemma uncommit_closure : forall pns commits t,
  wf_txn t -> names_ok (pns ++ t_all t) -> length commits = length pns ->
  (forall c, In c commits -> is_patch_commit (t_objs t) c) ->
  good (uncommit_patches (rev (combine pns commits)) t).
Proof.
  intros pns commits t W Hn Hl Hc. apply uncommit_wf; [exact W| |].
  - rewrite map_rev, map_fst_combine by lia. eapply names_ok_perm; [|exact Hn].
    apply Permutation_app_tail. apply Permutation_sym. apply Permutation_rev.
  - intros [n c] Hp. apply in_rev in Hp. apply in_combine_r in Hp. now apply Hc.
Qed.

(* generated names (make_patchnames) extend the names of the stack *)
Lemma fresh_names_ok : forall base pns,
  names_ok base ->
  Forall (fun n => validate n = true /\ forallb (fun d => negb (collides n d)) base = true) pns ->
  ForallOrdPairs (fun a b => collides a b = false) pns ->
  names_ok (pns ++ base).
Proof.
  intros base. induction pns as [|n pns IH]; intros Hb Hv Hp; [exact Hb|].
  inversion Hv as [|? ? [Hvn Hfn] Hv']; subst. inversion Hp as [|? ? Hpn Hp']; subst.
  cbn [app]. apply names_ok_cons; [now apply IH|exact Hvn|].
  intros m Hm. apply in_app_or in Hm as [Hm|Hm].
  - rewrite Forall_forall in Hpn. now apply Hpn.
  - rewrite forallb_forall in Hfn. apply negb_true_iff. now apply Hfn.
Qed.

Lemma gen_names_ok : forall lower_s, LowerOK lower_s -> forall objs s commits pns,
  make_patchnames lower_s objs s commits = Some pns ->
  length pns = length commits /\ (names_ok (all_of s) -> names_ok (pns ++ all_of s)).
Proof.
  intros lower_s HL objs s commits pns E.
  destruct (uncommit_names_fresh lower_s HL objs s commits) as [pns' [E' [Hl [Hv Hp]]]].
  rewrite E' in E. injection E as <-. split; [exact Hl|].
  intros Hn. now apply fresh_names_ok.
Qed.

Lemma run_uncommit_inv : forall lower_s, LowerOK lower_s ->
  forall w n names, Inv w -> Inv (fst (run_uncommit lower_s w n names)).
Proof.
  intros lower_s HL w n names Hi. unfold run_uncommit.
  destruct (fold_right _ _ names) as [pnames|] eqn:Ep; [|exact Hi]. apply parsed_names_valid in Ep.
  destruct (open_stack PAuto w) as [op|] eqn:Eo; [apply (open_ok _ _ _ Hi) in Eo|exact Hi].
  destruct (negb (head_top_ok op)); [inv_leaf|].
  pose proof Eo as [Hiw [Hs Hb]]. pose proof Hs as [Hn _]. apply Inv_iff in Hiw as [[Hcl _] _].
  cbv zeta.
  match goal with |- Inv (fst (match ?p with inl _ => _ | inr _ => _ end)) =>
    assert (Hplan : forall commits pns, p = inr (commits, pns) ->
              names_ok (pns ++ all_of (op_state op))
              /\ forall c, In c commits -> is_patch_commit (w_objs (op_world op)) c);
    [|destruct p as [res|[commits pns]] eqn:Epl] end.
  { intros commits pns E. destruct n as [k|].
    - destruct (walk_down _ _ _) as [cs|] eqn:Ew; [|discriminate].
      destruct pnames as [|prefix [|? ?]]; try discriminate.
      + destruct (make_patchnames _ _ _ _) as [gen|] eqn:Eg; [|discriminate]. injection E as <- <-.
        split; [|eapply walk_down_patch; eauto].
        now apply (proj2 (gen_names_ok lower_s HL _ _ _ _ Eg)).
      + destruct (forallb _ _) eqn:Ef; [|discriminate].
        destruct (check_patchnames _ _) eqn:Ec; [|discriminate]. injection E as <- <-.
        split; [|eapply walk_down_patch; eauto].
        apply check_patchnames_ok; [exact Hn| |exact Ec].
        apply Forall_forall. intros x Hx. now apply (proj1 (forallb_forall _ _) Ef).
    - destruct pnames as [|pn0 pnames'].
      + destruct (walk_down _ _ _) as [cs|] eqn:Ew; [|discriminate].
        destruct (make_patchnames _ _ _ _) as [gen|] eqn:Eg; [|discriminate]. injection E as <- <-.
        split; [|eapply walk_down_patch; eauto].
        now apply (proj2 (gen_names_ok lower_s HL _ _ _ _ Eg)).
      + destruct (check_patchnames _ _) eqn:Ec; [|discriminate]. cbn [negb] in E.
        destruct (walk_down _ _ _) as [cs|] eqn:Ew; [|discriminate]. injection E as <- <-.
        split; [|eapply walk_down_patch; eauto]. now apply check_patchnames_ok. }
  - clear Hplan. revert Epl. cmd_cases; intros Epl; first [discriminate|injection Epl as <-; inv_leaf].
  - destruct (Hplan commits pns eq_refl) as [Hnn Hcc]. clear Hplan Epl.
    destruct (Nat.eqb (length commits) (length pns)) eqn:El; cbn [negb]; [|inv_leaf].
    apply Nat.eqb_eq in El. transact_leaf. now apply uncommit_closure.
Qed.

(* ---------------------------------------------------------------- new / refresh / spill *)

Lemma run_new_inv : forall w nm meta msg, Inv w -> Inv (fst (run_new w nm meta msg)).
Proof.
  intros w nm meta msg Hi. unfold run_new.
  destruct (from_str nm) as [pn|] eqn:En; [|exact Hi]. apply from_str_valid in En.
  destruct (open_stack PAuto w) as [op|] eqn:Eo; [apply (open_ok _ _ _ Hi) in Eo|exact Hi].
  destruct (w_unmerged (op_world op)); [inv_leaf|].
  destruct (negb (head_top_ok op)); [inv_leaf|].
  destruct (stack_collides (op_state op) pn) eqn:Ec; [inv_leaf|].
  unfold put. cbv beta iota zeta.
  pose proof Eo as [Hiw [[Hn _] _]]. apply Inv_iff in Hiw as [_ [Hbr _]].
  apply transact_inv.
  - apply op_ok_put; [exact Eo|]. intros p [<-|[]]. exact Hbr.
  - intros W. apply new_applied_wf; [exact W| |apply patch_commit_new].
    apply names_ok_cons; [exact Hn|exact En|]. now apply stack_collides_none.
  - frame_auto.
Qed.

(* ---------------------------------------------------------------- refresh / spill *)

Lemma refresh_temp_valid : validate s_refresh_temp = true.
Proof. vm_compute. reflexivity. Qed.

Lemma uniquify_names_ok : forall nm l,
  names_ok l -> validate nm = true ->
  names_ok ((match uniquify nm [] l with UOk n => n | UFuel => nm end) :: l).
Proof.
  intros nm l Hl Hv. destruct (uniquify nm [] l) as [n|] eqn:E.
  - apply uniquify_spec in E as [Hvn [Hx|Hf]]; [discriminate| |exact Hv].
    apply names_ok_cons; [exact Hl|exact Hvn|]. rewrite Forall_forall in Hf. exact Hf.
  - exfalso. now apply (uniquify_never_out_of_fuel nm [] l).
Qed.

Lemma patch_parents_plain : forall objs pc,
  plain_closed objs -> is_patch_commit objs pc ->
  (forall p, In p (parents_of objs pc) -> is_plain objs p).
Proof. intros objs pc Hc [Hp _] p Hin. now apply (Hc pc p). Qed.

Lemma patch_commit_copy : forall objs pc tr m sj,
  is_patch_commit objs pc ->
  is_patch_commit (objs ++ [plain (parents_of objs pc) tr m sj]) (length objs).
Proof.
  intros objs pc tr m sj [_ [p Ep]]. rewrite Ep. apply patch_commit_new.
Qed.

Lemma delete_objs : forall f t, t_objs (fst (delete_patches f t)) = t_objs t.
Proof. intros f t. unfold delete_patches. now destruct (split_at_first f (t_applied t)). Qed.

Lemma run_spill_inv : forall w, Inv w -> Inv (fst (run_spill w)).
Proof.
  intros w Hi. unfold run_spill.
  destruct (open_stack PAllow w) as [op|] eqn:Eo; [apply (open_ok _ _ _ Hi) in Eo|exact Hi].
  destruct (w_unmerged (op_world op)); [inv_leaf|].
  destruct (dirty (op_world op)); [inv_leaf|].
  destruct (negb (head_top_ok op)); [inv_leaf|].
  destruct (last_error (s_applied (op_state op))) as [pn|]; [|inv_leaf].
  destruct (pm_get (s_patches (op_state op)) pn) as [pc|] eqn:Epc; [|inv_leaf].
  destruct (first_parent (w_objs (op_world op)) pc) as [par|]; [|inv_leaf].
  unfold put. cbv beta iota zeta.
  pose proof Eo as [Hiw [[_ [_ [_ [Hp _]]]] _]]. apply Inv_iff in Hiw as [[Hcl _] _].
  apply Hp in Epc.
  apply transact_inv.
  - apply op_ok_put; [exact Eo|]. now apply patch_parents_plain.
  - intros W. apply update_patch_wf; [exact W|]. now apply patch_commit_copy.
  - frame_auto.
Qed.

(* ---------------------------------------------------------------- undo / redo / reset *)

Lemma find_undo_state_logged : forall fuel objs so steps st,
  find_undo_state fuel objs so steps = Some st -> exists so', state_of objs so' = Some st.
Proof.
  induction fuel as [|fuel IH]; intros objs so steps st H; cbn in H; [discriminate|].
  destruct (get objs so) as [c|] eqn:Eg; [|discriminate].
  destruct (c_state c) as [st0|] eqn:Es; [|discriminate].
  destruct (steps =? 0)%Z.
  - injection H as <-. exists so. unfold state_of. now rewrite Eg.
  - match goal with H : match ?nx with _ => _ end = _ |- _ => destruct nx as [steps'|] end; [|discriminate].
    destruct (s_prev st0) as [prev|]; [|discriminate]. eapply IH; exact H.
Qed.

Lemma nth_prev_state_logged : forall fuel objs so k st,
  nth_prev_state fuel objs so k = Some st -> exists so', state_of objs so' = Some st.
Proof.
  induction fuel as [|fuel IH]; intros objs so k st H; cbn in H; [discriminate|].
  destruct (state_of objs so) as [st0|] eqn:Es; [|discriminate].
  destruct k as [|k].
  - injection H as <-. eauto.
  - destruct (s_prev st0) as [p|]; [|discriminate]. eapply IH; exact H.
Qed.

Lemma log_extmods_first_ok : forall op0 op,
  op_ok op0 -> log_extmods_first op0 = Some op -> op_ok op.
Proof.
  intros op0 op [Hi [Hs Hb]] E. unfold log_extmods_first in E.
  destruct (Nat.eqb _ _); [injection E as <-; split; [|split]; assumption|].
  unfold log_external_mods in E. destruct (w_stack (op_world op0)) as [so|] eqn:Es; [|discriminate].
  destruct (state_commit _ _ _) as [[objs' so']|] eqn:Ec; [|discriminate].
  injection E as <-. apply Inv_iff in Hi as [Hok [Hbr Hst]].
  pose proof Hs as [Hsn [Hsk [Hsd [Hsp Hsh]]]].
  apply state_commit_ok in Ec as [Hok' [He' Hs']]; [|exact Hok|].
  - split; [|split]; cbn [op_world op_state op_base w_objs].
    + apply Inv_mk. split; [exact Hok'|]. split; [eapply is_plain_ext; eauto|eauto].
    + eapply wf_state_ext; [exact He'|].
      split; [exact Hsn|]. split; [exact Hsk|]. split; [exact Hsd|]. split; [exact Hsp|exact Hbr].
    + eapply is_plain_ext; eauto.
  - split; [exact Hsn|]. split; [exact Hsk|]. split; [exact Hsd|]. split; [exact Hsp|exact Hbr].
Qed.

Lemma run_undo_like_inv : forall w s h m, Inv w -> Inv (fst (run_undo_like w s h m)).
Proof.
  intros w s h m Hi. unfold run_undo_like.
  destruct (open_stack PRequire w) as [op0|] eqn:Eo; [apply (open_ok _ _ _ Hi) in Eo|exact Hi].
  destruct (log_extmods_first op0) as [op|] eqn:El; [|inv_leaf].
  apply (log_extmods_first_ok _ _ Eo) in El. clear Eo. rename El into Eo.
  transact_leaf. destruct (w_stack (op_world op)) as [so|]; [|apply W].
  destruct (find_undo_state _ _ _ _) as [st|] eqn:Ef; [|apply W].
  apply find_undo_state_logged in Ef as [so' Hs]. apply reset_wf; [exact W|].
  now apply (proj2 (wt_store _ W) so').
Qed.

Lemma run_undo_inv : forall w n h, Inv w -> Inv (fst (run_undo w n h)).
Proof. intros. unfold run_undo. destruct (n <? 1)%Z; [assumption|now apply run_undo_like_inv]. Qed.

Lemma run_redo_inv : forall w n h, Inv w -> Inv (fst (run_redo w n h)).
Proof.
  intros. unfold run_redo. destruct (n =? 0)%N; [assumption|].
  destruct (isize_max <? n)%N; [assumption|now apply run_undo_like_inv].
Qed.

Lemma run_reset_inv : forall w e h, Inv w -> Inv (fst (run_reset w e None h)).
Proof.
  intros w e h Hi. unfold run_reset. destruct e as [k|].
  - destruct (open_stack PRequire w) as [op|] eqn:Eo; [apply (open_ok _ _ _ Hi) in Eo|exact Hi].
    destruct (w_stack (op_world op)) as [so|]; [|inv_leaf].
    destruct (nth_prev_state _ _ _ _) as [st|] eqn:Ef; [|inv_leaf].
    apply nth_prev_state_logged in Ef as [so' Hs].
    transact_leaf. apply reset_wf; [exact W|]. now apply (proj2 (wt_store _ W) so').
  - destruct h; cbn [fst]; [|exact Hi]. apply Inv_iff in Hi. now apply Inv_mk.
Qed.

(* ---------------------------------------------------------------- repair *)

Lemma repair_walk_ok : forall fuel objs s base commit applied patchify maybe a p stop,
  plain_closed objs -> is_plain objs commit ->
  (forall c, In c (patchify ++ maybe) -> is_patch_commit objs c) ->
  repair_walk fuel objs s base commit applied patchify maybe = (a, p, stop) ->
  (forall c, In c p -> is_patch_commit objs c) /\ is_plain objs stop.
Proof.
  induction fuel as [|fuel IH]; intros objs s base commit applied patchify maybe a p stop Hc Hp Hpm H;
    cbn [repair_walk] in H.
  - injection H as <- <- <-. split; [|exact Hp]. intros c Hi. apply Hpm. apply in_or_app. now left.
  - destruct (parents_of objs commit) as [|parent [|q r]] eqn:Epar.
    + injection H as <- <- <-. split; [|exact Hp]. intros c Hi. apply Hpm. apply in_or_app. now left.
    + assert (Hpar : is_plain objs parent) by (apply (Hc commit parent Hp); rewrite Epar; now left).
      assert (Hcm : is_patch_commit objs commit) by (split; [exact Hp|eauto]).
      destruct (patch_of_commit s commit) as [pn|].
      * destruct (Nat.eqb base parent).
        -- injection H as <- <- <-. split; [|exact Hpar]. intros c Hi. apply Hpm.
           now rewrite app_nil_r in Hi.
        -- eapply IH; [exact Hc|exact Hpar| |exact H]. intros c Hi. apply Hpm. now rewrite app_nil_r in Hi.
      * destruct (Nat.eqb base parent).
        -- injection H as <- <- <-. split; [|exact Hpar]. intros c Hi.
           rewrite app_assoc in Hi. apply in_app_or in Hi as [Hi|[<-|[]]]; [now apply Hpm|exact Hcm].
        -- eapply IH; [exact Hc|exact Hpar| |exact H]. intros c Hi.
           rewrite app_assoc in Hi. apply in_app_or in Hi as [Hi|[<-|[]]]; [now apply Hpm|exact Hcm].
    + injection H as <- <- <-. split; [|exact Hp]. intros c Hi. apply Hpm. apply in_or_app. now left.
Qed.

Lemma new_applied_objs : forall n o t t', new_applied n o t = TOk t' -> t_objs t' = t_objs t.
Proof.
  intros n o t t' H. unfold new_applied in H.
  destruct (first_parent _ _); [|discriminate]. destruct (t_top t); [|discriminate].
  destruct (Nat.eqb _ _); [|discriminate]. now injection H as <-.
Qed.

Lemma repair_fold_wf : forall lower_s, LowerOK lower_s -> forall objs patchify r,
  (forall c, In c patchify -> is_patch_commit objs c) ->
  res_sat (fun t => wf_txn t /\ t_objs t = objs) r ->
  res_sat (fun t => wf_txn t /\ t_objs t = objs)
    (fold_left
       (fun r c =>
          tbind r (fun t =>
            match make lower_s (subj_of (t_objs t) c) true (Some 30%N) with
            | Ok nm =>
                match uniquify nm [] (t_all t) with
                | UOk pn => new_applied pn c t
                | UFuel => TPanic
                end
            | _ => TPanic
            end))
       patchify r).
Proof.
  intros lower_s HL objs. induction patchify as [|c l IH]; intros r Hc Hr; cbn [fold_left]; [exact Hr|].
  apply IH; [intros c' Hi; apply Hc; now right|].
  eapply res_sat_tbind; [exact Hr|]. intros t [W Eo]. cbv beta.
  destruct (make_valid lower_s HL (subj_of (t_objs t) c) true (Some 30%N)) as [nm [-> Hv]].
  destruct (uniquify nm [] (t_all t)) as [pn|] eqn:Eu; [|exact I].
  assert (Hn : names_ok (pn :: t_all t)).
  { pose proof (uniquify_names_ok nm (t_all t) (wt_names t W) Hv) as H. now rewrite Eu in H. }
  assert (Hpc : is_patch_commit (t_objs t) c) by (rewrite Eo; apply Hc; now left).
  pose proof (new_applied_wf pn c t W Hn Hpc) as Hg.
  destruct (new_applied pn c t) as [t'| | |] eqn:En; cbn in *; try exact Hg; try exact I.
  split; [exact Hg|]. apply new_applied_objs in En. congruence.
Qed.

Lemma repair_appliedness_objs : forall a u h t t',
  repair_appliedness a u h t = TOk t' -> t_objs t' = t_objs t.
Proof.
  intros a u h t t' H. unfold repair_appliedness in H. destruct (is_perm_of _ _); [|discriminate].
  now injection H as <-.
Qed.

Lemma repair_base_plain : forall fuel objs s base commit nb m,
  plain_closed objs -> is_plain objs commit -> is_plain objs nb ->
  is_plain objs (repair_base fuel objs s base commit nb m).
Proof.
  induction fuel as [|fuel IH]; intros objs s base commit nb m Hcl Hc Hnb; cbn [repair_base]; [exact Hnb|].
  destruct (parents_of objs commit) as [|p [|q l]] eqn:E; try exact Hnb.
  assert (Hp : is_plain objs p) by (eapply Hcl; [exact Hc|rewrite E; now left]).
  destruct (patch_of_commit s commit); destruct (Nat.eqb base p); auto.
Qed.

Lemma run_repair_inv : forall lower_s, LowerOK lower_s -> forall w, Inv w -> Inv (fst (run_repair lower_s w)).
Proof.
  intros lower_s HL w Hi. unfold run_repair.
  destruct (open_stack PRequire w) as [op|] eqn:Eo; [apply (open_ok _ _ _ Hi) in Eo|exact Hi].
  destruct (repair_walk _ _ _ _ _ _ _ _) as [[ar pr] stop] eqn:Ew.
  pose proof Eo as [Hiw _]. apply Inv_iff in Hiw as [[Hcl _] [Hbr _]].
  apply repair_walk_ok in Ew as [Hpc _]; [|exact Hcl|exact Hbr|intros c []].
  assert (Hstop : is_plain (w_objs (op_world op))
            (repair_base (S (length (w_objs (op_world op)))) (w_objs (op_world op)) (op_state op)
               (op_base op) (w_branch (op_world op)) (w_branch (op_world op)) false))
    by (apply repair_base_plain; assumption).
  apply transact_inv; [exact Eo| |].
  - intros W. cbv beta.
    pose proof (repair_appliedness_wf (rev ar)
      (filter (fun n => negb (mem n (rev ar))) (s_applied (op_state op)) ++
       filter (fun n => negb (mem n (rev ar))) (s_unapplied (op_state op)))
      (filter (fun n => negb (mem n (rev ar))) (s_hidden (op_state op))) _ W) as Hr.
    destruct (repair_appliedness _ _ _ _) as [t0| | |] eqn:Er; cbn [tbind]; try exact Hr.
    apply repair_appliedness_objs in Er. cbn in Hr.
    eapply res_sat_impl; [apply (repair_fold_wf lower_s HL (w_objs (op_world op)))|intros t [H _]; exact H].
    + intros c Hi'. apply Hpc. now apply in_rev.
    + cbn [res_sat]. split; [|exact Er]. apply wf_txn_set_base; [exact Hr|]. now rewrite Er.
  - cbv beta. apply frame_tbind; [auto with frames|]. intros t0 _.
    eapply frame_fr; [|apply frame_fold_tbind].
    + instantiate (1 := set_base t0 (Some _)). fr_triv.
    + intros c t1. cbv beta. frame_auto.
    + apply fr_refl.
Qed.

(* ---------------------------------------------------------------- log --clear, init, git *)

Lemma run_log_clear_inv : forall w, Inv w -> Inv (fst (run_log_clear w)).
Proof.
  intros w Hi. unfold run_log_clear.
  destruct (open_stack PRequire w) as [op|] eqn:Eo; [apply (open_ok _ _ _ Hi) in Eo|exact Hi].
  destruct (state_commit _ _ _) as [[objs' so]|] eqn:Ec; [|inv_leaf].
  destruct Eo as [Hiw [Hs _]]. apply Inv_iff in Hiw as [Hok [Hbr _]].
  apply state_commit_ok in Ec as [Hok' [He' Hs']]; [|exact Hok|exact Hs].
  cbn [fst]. apply Inv_mk. split; [exact Hok'|]. split; [now apply (is_plain_ext _ _ _ He')|eauto].
Qed.

Lemma ancestor_plain : forall objs k o o',
  plain_closed objs -> is_plain objs o -> ancestor objs o k = Some o' -> is_plain objs o'.
Proof.
  intros objs. induction k as [|k IH]; intros o o' Hc Ho H; cbn in H.
  - now injection H as <-.
  - destruct (first_parent objs o) as [p|] eqn:Ep; [|discriminate].
    apply (IH p o' Hc); [|exact H]. eapply first_parent_plain; eauto.
Qed.

Lemma Inv_put_plain : forall w ps tr m sj wt um,
  Inv w -> (forall p, In p ps -> is_plain (w_objs w) p) ->
  Inv (mkWorld (w_objs w ++ [plain ps tr m sj]) (length (w_objs w)) (w_stack w) (w_prefs w) wt um (w_base w) (w_apc w)).
Proof.
  intros w ps tr m sj wt um Hi Hp. apply Inv_iff in Hi as [Hok [Hbr Hst]]. apply Inv_mk.
  split; [now apply store_ok_put_plain|]. split; [apply plain_new|].
  destruct (w_stack w) as [so|]; [|exact I]. destruct Hst as [s Hs]. exists s. now apply state_of_mono.
Qed.

Lemma run_git_inv : forall w c, Inv w -> Inv (fst (run_git w c)).
Proof.
  intros w c Hi. pose proof Hi as Hi'. apply Inv_iff in Hi' as [[Hcl Hst] [Hbr Hsk]].
  destruct c; cbn [run_git]; unfold put; cbn [fst]; try exact Hi.
  - unfold with_branch. apply Inv_put_plain; [exact Hi|]. intros p [<-|[]]. exact Hbr.
  - unfold with_branch. apply Inv_put_plain; [exact Hi|]. intros p Hp. now apply (Hcl (w_branch w) p).
  - match goal with |- context [match ?x with Some _ => _ | None => _ end] =>
      assert (Ht : forall o, x = Some o -> is_plain (w_objs w) o); [|destruct x as [o|]] end.
    { intros o E. destruct target as [n|k|k].
      - destruct (cur_state w) as [s|] eqn:Es; [|discriminate]. unfold cur_state in Es.
        destruct (w_stack w) as [so|]; [|discriminate]. apply Hst in Es as [_ [_ [_ [Hp _]]]].
        now apply Hp in E as [E _].
      - destruct (cur_state w) as [s|] eqn:Es; [|discriminate]. unfold cur_state in Es.
        destruct (w_stack w) as [so|]; [|discriminate]. apply Hst in Es.
        destruct (stack_base _ _ s) as [b|] eqn:Eb; [|discriminate].
        eapply ancestor_plain; [exact Hcl| |exact E]. eapply stack_base_plain; eauto. split; assumption.
      - eapply ancestor_plain; eauto. }
    + cbn [fst]. apply Inv_mk. split; [split; assumption|]. split; [now apply Ht|exact Hsk].
    + exact Hi.
  - destruct (first_parent _ _) as [p|] eqn:Ep; [|exact Hi]. cbn [fst].
    apply Inv_put_plain; [exact Hi|]. intros q [<-|[<-|[]]]; [exact Hbr|]. eapply first_parent_plain; eauto.
Qed.

(* ---------------------------------------------------------------- edit / rebase *)

Lemma after_name_skipn : forall n l, exists k, after_name n l = skipn k l.
Proof.
  intros n. induction l as [|x r IH]; [exists O; reflexivity|]. cbn [after_name].
  destruct (name_eqb x n); [exists 1%nat; reflexivity|]. destruct IH as [k IH]. exists (S k). exact IH.
Qed.

Lemma filter_mem_self : forall l, filter (fun n => mem n l) l = l.
Proof. intros l. apply filter_all. intros x Hx. now apply mem_In. Qed.

Lemma filter_negmem_self : forall l, filter (fun n => negb (mem n l)) l = [].
Proof. intros l. apply filter_none. intros x Hx. apply negb_false_iff. now apply mem_In. Qed.

(* popping exactly a suffix of the applied list *)
Lemma pop_suffix : forall t k,
  NoDup (t_applied t) ->
  pop_patches (fun n => mem n (skipn k (t_applied t))) t =
  (set_lists t (firstn k (t_applied t)) (skipn k (t_applied t) ++ t_unapplied t) (t_hidden t), []).
Proof.
  intros t k Hd. unfold pop_patches. rewrite (split_at_first_skipn _ k Hd).
  now rewrite filter_negmem_self, filter_mem_self.
Qed.

Definition edit_popped (t : txn) (k : nat) : txn :=
  set_lists t (firstn k (t_applied t)) (skipn k (t_applied t) ++ t_unapplied t) (t_hidden t).

Lemma edit_pop_facts : forall pn t,
  wf_txn t ->
  exists k,
    after_name pn (t_applied t) = skipn k (t_applied t)
    /\ pop_patches (fun n => mem n (skipn k (t_applied t))) t = (edit_popped t k, [])
    /\ wf_txn (edit_popped t k)
    /\ NoDup (skipn k (t_applied t))
    /\ (forall n, In n (skipn k (t_applied t)) ->
          In n (t_all (edit_popped t k)) /\ ~ In n (t_applied (edit_popped t k))).
Proof.
  intros pn t W.
  pose proof (names_disjoint t (wt_names t W)) as [Hda _].
  destruct (after_name_skipn pn (t_applied t)) as [k Hk]. exists k.
  split; [exact Hk|]. split; [apply (pop_suffix t k Hda)|].
  destruct (NoDup_firstn_skipn _ k _ Hda) as [_ [Hds Hdis]].
  split; [|split; [exact Hds|]].
  - apply wf_txn_lists; [exact W|]. unfold t_all. rewrite <- app_assoc, app_assoc.
    now rewrite firstn_skipn.
  - intros n Hn. split.
    + apply in_all_cases. right. left. cbn. apply in_or_app. now left.
    + cbn. intros Hf. exact (Hdis n Hf Hn).
Qed.

Lemma edit_closure : forall pn o t,
  wf_txn t -> is_patch_commit (t_objs t) o ->
  good (let above := after_name pn (t_applied t) in
        let '(t1, extra) := pop_patches (fun n => mem n above) t in
        match extra with
        | _ :: _ => TPanic
        | [] => tbind (update_patch pn o t1) (push_patches above false)
        end).
Proof.
  intros pn o t W Ho. cbv zeta.
  destruct (edit_pop_facts pn t W) as (k & -> & -> & W1 & Hds & Hin).
  pose proof (update_patch_wf pn o (edit_popped t k) W1 Ho) as Hu. unfold update_patch in *.
  destruct (t_patch (edit_popped t k) pn); [|exact I]. cbn [tbind]. cbn [good res_sat] in Hu.
  eapply res_sat_impl; [apply push_patches_wf; [exact Hu|exact Hds|exact Hin]|intros t' P; apply P].
Qed.

Lemma patch_commit_copy' : forall objs pc old m sj,
  is_patch_commit objs pc -> get objs pc = Some old ->
  is_patch_commit (objs ++ [plain (c_parents old) (c_tree old) m sj]) (length objs).
Proof.
  intros objs pc old m sj H E. pose proof (patch_commit_copy objs pc (c_tree old) m sj H) as H'.
  unfold parents_of in H'. now rewrite E in H'.
Qed.

Lemma run_edit_inv : forall w l m msg, Inv w -> Inv (fst (run_edit w l m msg)).
Proof.
  intros w l m msg Hi. unfold run_edit.
  destruct (match l with Some o => _ | None => _ end) as [loc_l|]; [|exact Hi].
  destruct (open_stack PAllow w) as [op|] eqn:Eo; [apply (open_ok _ _ _ Hi) in Eo|exact Hi].
  destruct (negb (head_top_ok op)); [inv_leaf|].
  match goal with |- Inv (fst (rres_bind _ ?r _)) => destruct r as [pn| |]; cbn [rres_bind]; [|inv_leaf|inv_leaf] end.
  destruct (pm_get (s_patches (op_state op)) pn) as [pc|] eqn:Epc; [|inv_leaf].
  destruct (get (w_objs (op_world op)) pc) as [old|] eqn:Eg; [|inv_leaf].
  destruct (_ && _); [inv_leaf|].
  unfold put. cbv beta iota zeta.
  pose proof Eo as [Hiw [[_ [_ [_ [Hp _]]]] _]]. apply Inv_iff in Hiw as [[Hcl _] _].
  apply Hp in Epc.
  apply transact_inv.
  - apply op_ok_put; [exact Eo|]. intros p Hin. apply (patch_parents_plain _ pc Hcl Epc).
    unfold parents_of. now rewrite Eg.
  - intros W. apply edit_closure; [exact W|]. eapply patch_commit_copy'; eassumption.
  - apply frame_edit_body.
Qed.

(* ---- what a successful transaction leaves behind ---- *)

Lemma exec_co_not_X0 : forall t th w1 st1 wt um x,
  exec_co t th w1 st1 = inr (wt, um, x) -> x <> X0.
Proof.
  intros t th w1 st1 wt um x H. unfold exec_co in H.
  destruct (o_set_head (t_opts t) && o_use_iw (t_opts t)); [|discriminate].
  destruct (negb _ && negb _ && negb _); [injection H as _ _ <-; discriminate|].
  destruct (checkout _ _ _ _ _ _ _) as [[a b]|]; [discriminate|].
  destruct (checkout _ _ _ _ _ _ _) as [[a b]|]; [injection H as _ _ <-; discriminate|].
  destruct (tree_eqb _ _); injection H as _ _ <-; discriminate.
Qed.

Lemma exec_body_extends : forall w t halted msg,
  store_extends (w_objs w) (t_objs t) ->
  store_extends (w_objs w) (w_objs (fst (exec_body w t halted msg))).
Proof.
  intros w t halted msg He. unfold exec_body.
  destruct (negb _); [apply store_extends_refl|].
  destruct (t_head_oid t) as [th|]; [|apply store_extends_refl].
  destruct (exec_logged w t) as [[w1 st1]|] eqn:El; [|exact He].
  assert (He1 : store_extends (w_objs w) (w_objs w1)).
  { unfold exec_logged in El. destruct (Nat.eqb _ _); [injection El as <- _; exact He|].
    unfold log_external_mods in El. destruct (w_stack _); [|discriminate].
    destruct (state_commit _ _ _) as [[objs' so']|] eqn:Ec; [|discriminate].
    injection El as <- _. apply state_commit_state in Ec as [Ec _]. cbn in *.
    eapply store_extends_trans; [exact He|exact Ec]. }
  destruct (exec_co t th w1 st1) as [[wt' um']|[[wt' um'] x]]; [|exact He1].
  unfold exec_fin. destruct (w_stack w1); [|exact He1].
  destruct (state_commit _ _ _) as [[objs' so]|] eqn:Ec; [|exact He1].
  apply state_commit_state in Ec as [Ec _].
  destruct halted; cbn; eapply store_extends_trans; eauto.
Qed.

Lemma transact_extends : forall op o f msg,
  frame (begin_txn op o) (f (begin_txn op o)) ->
  store_extends (w_objs (op_world op)) (w_objs (fst (transact op o f msg))).
Proof.
  intros op o f msg Hf. unfold transact. destruct (negb (op_initialized op)).
  - destruct (f (begin_txn op o)); apply store_extends_refl.
  - rewrite execute_eq. destruct (f (begin_txn op o)) as [t|t h|t|]; cbn [frame] in Hf.
    + apply exec_body_extends. apply Hf.
    + apply exec_body_extends. apply Hf.
    + apply Hf.
    + apply store_extends_refl.
Qed.

Lemma exec_body_X0_cur : forall w t halted msg w2,
  exec_body w t halted msg = (w2, X0) ->
  exists th prev st1, cur_state w2 = Some (exec_state t th prev st1) /\ halted = None.
Proof.
  intros w t halted msg w2 E. unfold exec_body in E.
  destruct (negb _); [discriminate|].
  destruct (t_head_oid t) as [th|]; [|discriminate].
  destruct (exec_logged w t) as [[w1 st1]|]; [|discriminate].
  destruct (exec_co t th w1 st1) as [[wt' um']|[[wt' um'] y]] eqn:Eco.
  - unfold exec_fin in E. destruct (w_stack w1) as [prev|]; [|discriminate].
    destruct (state_commit _ _ _) as [[objs' so]|] eqn:Ec; [|discriminate].
    apply state_commit_state in Ec as [_ Ec].
    destruct halted; [discriminate|]. injection E as <-.
    exists th, prev, st1. split; [|reflexivity]. unfold cur_state. cbn. exact Ec.
  - injection E as _ ->. exfalso. now apply exec_co_not_X0 in Eco.
Qed.

Lemma transact_X0_cur : forall op o f msg w2,
  transact op o f msg = (w2, X0) ->
  exists t' th prev st1,
    f (begin_txn op o) = TOk t' /\ cur_state w2 = Some (exec_state t' th prev st1).
Proof.
  intros op o f msg w2 E. unfold transact in E. destruct (negb (op_initialized op)).
  - destruct (f (begin_txn op o)); discriminate.
  - rewrite execute_eq in E. destruct (f (begin_txn op o)) as [t|t h|t|]; try discriminate.
    + apply exec_body_X0_cur in E as (th & prev & st1 & Hc & _). eauto 8.
    + apply exec_body_X0_cur in E as (th & prev & st1 & _ & Hh). discriminate.
Qed.

Lemma open_state_cur : forall p w op s,
  p <> PForce -> open_stack p w = Some op -> cur_state w = Some s -> op_state op = s.
Proof.
  intros p w op s Hp H Hc. unfold open_stack in H. unfold cur_state in Hc.
  destruct (w_stack w) as [so|]; [|discriminate]. rewrite Hc in H.
  destruct p; try discriminate; try (exfalso; now apply Hp);
    destruct (stack_base _ _ s); try discriminate; now injection H as <-.
Qed.

(* ---------------------------------------------------------------- refresh *)

Lemma split_at_last : forall (f : name -> bool) A x,
  (forall y, In y A -> f y = false) -> f x = true -> split_at_first f (A ++ [x]) = (A, [x]).
Proof.
  intros f A x HA Hx. unfold split_at_first. rewrite (position_char f (A ++ [x]) (length A) x).
  - rewrite firstn_app, Nat.sub_diag, firstn_all, skipn_app, skipn_all, Nat.sub_diag. cbn.
    now rewrite app_nil_r.
  - rewrite firstn_app, Nat.sub_diag, firstn_all. cbn. rewrite app_nil_r. exact HA.
  - rewrite skipn_app, skipn_all, Nat.sub_diag. reflexivity.
  - exact Hx.
Qed.

Lemma delete_last : forall t0 A x,
  t_applied t0 = A ++ [x] -> ~ In x A -> ~ In x (t_unapplied t0) -> ~ In x (t_hidden t0) ->
  delete_patches (fun n => name_eqb n x) t0 =
  (set_updated (set_lists t0 A (t_unapplied t0) (t_hidden t0)) (up_set (t_updated t0) x None), []).
Proof.
  intros t0 A x Ha HA HU HH. unfold delete_patches. rewrite Ha, split_at_last.
  - assert (Hf : forall l, ~ In x l -> filter (fun n => name_eqb n x) l = []
                           /\ filter (fun n => negb (name_eqb n x)) l = l).
    { intros l Hl. split; [apply filter_none|apply filter_all]; intros y Hy;
        destruct (name_eqb_spec y x) as [->|Hn]; try reflexivity; contradiction. }
    destruct (Hf _ HU) as [-> ->]. destruct (Hf _ HH) as [-> ->].
    cbn [filter]. rewrite name_eqb_refl. cbn [negb app]. reflexivity.
  - intros y Hy. apply name_eqb_neq. intros ->. contradiction.
  - apply name_eqb_refl.
Qed.

(* the applied list of a well-formed transaction that ends in x: x occurs nowhere else *)
Lemma last_applied_fresh : forall t A x,
  wf_txn t -> t_applied t = A ++ [x] ->
  NoDup A /\ ~ In x A /\ ~ In x (t_unapplied t) /\ ~ In x (t_hidden t).
Proof.
  intros t A x W Ha.
  pose proof (names_disjoint t (wt_names t W)) as [Hda [_ [_ [Hah _]]]].
  rewrite Ha in Hda. apply NoDup_app_iff in Hda as [HdA [_ Hdis]].
  assert (Hx : In x (t_applied t)) by (rewrite Ha; apply in_or_app; right; now left).
  destruct (Hah x Hx) as [Hu Hh]. repeat split; auto.
  intros Hin. apply (Hdis x Hin). now left.
Qed.

Lemma after_name_app : forall pn A r, In pn A -> after_name pn (A ++ r) = after_name pn A ++ r.
Proof.
  intros pn A r. induction A as [|x A IH]; intros Hin; [destruct Hin|]. cbn [after_name app].
  destruct (name_eqb_spec x pn) as [->|Hn]; [reflexivity|].
  destruct Hin as [->|Hin]; [congruence|]. now apply IH.
Qed.

Lemma after_name_incl : forall pn l x, In x (after_name pn l) -> In x l.
Proof.
  intros pn l x. destruct (after_name_skipn pn l) as [k ->]. apply In_skipn.
Qed.

Lemma removelast_snoc : forall (A : Type) (l : list A) x, removelast (l ++ [x]) = l.
Proof. intros A l x. apply removelast_last. Qed.

Lemma t_patch_set_objs : forall t o n, t_patch (set_objs t o) n = t_patch t n.
Proof. reflexivity. Qed.

(* the EditBuilder step *)
Lemma refresh_commit_wf : forall t pn pc tr t2 newc,
  wf_txn t -> t_patch t pn = Some pc -> refresh_commit t pc tr = (t2, newc) ->
  wf_txn t2 /\ same_lists t t2 /\ (forall n, t_patch t2 n = t_patch t n)
  /\ (forall o, newc = Some o -> is_patch_commit (t_objs t2) o).
Proof.
  intros t pn pc tr t2 newc W Epc E. unfold refresh_commit in E.
  destruct (tree_eqb _ _).
  - injection E as <- <-. split; [exact W|]. split; [repeat split|]. split; [reflexivity|discriminate].
  - unfold put in E. injection E as <- <-. apply (wt_patch t W) in Epc. split.
    + apply wf_txn_put; [exact W|]. apply patch_parents_plain; [apply W|exact Epc].
    + split; [repeat split|]. split; [reflexivity|]. intros o Eo. injection Eo as <-.
      rewrite t_objs_set_objs. now apply patch_commit_copy.
Qed.

Lemma pop_last : forall t0 A x,
  t_applied t0 = A ++ [x] -> ~ In x A ->
  pop_patches (fun n => name_eqb n x) t0 =
  (set_lists t0 A (x :: t_unapplied t0) (t_hidden t0), []).
Proof.
  intros t0 A x Ha HA. unfold pop_patches. rewrite Ha, split_at_last.
  - cbn [filter]. rewrite name_eqb_refl. cbn [negb app]. reflexivity.
  - intros y Hy. apply name_eqb_neq. intros ->. contradiction.
  - apply name_eqb_refl.
Qed.

Lemma refresh_commit_same : forall t pc tr t2 newc,
  refresh_commit t pc tr = (t2, newc) ->
  t_stack t2 = t_stack t /\ t_updated t2 = t_updated t /\ t_all t2 = t_all t.
Proof.
  intros t pc tr t2 newc E. unfold refresh_commit in E. destruct (tree_eqb _ _).
  - injection E as <- _. auto.
  - unfold put in E. injection E as <- _. auto.
Qed.

Lemma delete_tmp_facts : forall x K t t3 inc,
  wf_txn t -> t_applied t = K ++ [x] -> delete_patches (fun n => name_eqb n x) t = (t3, inc) ->
  wf_txn t3 /\ t_applied t3 = K /\ t_unapplied t3 = t_unapplied t /\ t_hidden t3 = t_hidden t
  /\ t_objs t3 = t_objs t.
Proof.
  intros x K t t3 inc W Ha E. destruct (delete_wf _ _ _ _ W E) as [W3 _].
  destruct (last_applied_fresh t K x W Ha) as [_ [HK [HU HH]]].
  rewrite (delete_last t K x Ha HK HU HH) in E. injection E as <- _. auto.
Qed.

Definition absorb_mid (tmpname : name) (R : list name) (t t1 : txn) : Prop :=
  wf_txn t1 /\ Permutation (t_all t1) (t_all t)
  /\ exists K, t_applied t1 = K ++ [tmpname]
       /\ forall n, In n R -> In n (t_all t1) /\ ~ In n K.

Lemma edit_popped_all : forall t k, t_all (edit_popped t k) = t_all t.
Proof.
  intros t k. unfold t_all, edit_popped.
  rewrite t_applied_set_lists, t_unapplied_set_lists, t_hidden_set_lists.
  rewrite <- app_assoc, app_assoc. now rewrite firstn_skipn.
Qed.

Lemma refresh_absorb_step1 : forall pn tmpname A t,
  wf_txn t -> t_applied t = A ++ [tmpname] -> In pn A ->
  res_sat (absorb_mid tmpname (after_name pn A) t)
    (if Nat.ltb 1 (length (after_name pn A ++ [tmpname])) then
       let '(t1, extra) := pop_patches (fun n => mem n (after_name pn A ++ [tmpname])) t in
       match extra with
       | _ :: _ => TPanic
       | [] => push_patches [tmpname] false t1
       end
     else TOk t).
Proof.
  intros pn tmpname A t W Ha Hin.
  destruct (edit_pop_facts pn t W) as (k & Hk & Hpop & W1 & Hds & Hin1).
  rewrite Ha, (after_name_app pn A [tmpname] Hin), <- Ha in Hk.
  destruct (Nat.ltb 1 _) eqn:El.
  - rewrite Hk, Hpop.
    assert (Htmp : In tmpname (skipn k (t_applied t))).
    { rewrite <- Hk. apply in_or_app. right. now left. }
    eapply res_sat_impl.
    + apply push_patches_wf; [exact W1|repeat constructor; intros []|].
      intros n [<-|[]]. now apply Hin1.
    + intros t1 [W1' [Ha1 [_ Hperm]]]. split; [exact W1'|].
      split; [now rewrite <- (edit_popped_all t k)|].
      exists (firstn k (t_applied t)). split; [exact Ha1|].
      intros n Hn. assert (Hn' : In n (skipn k (t_applied t))).
      { rewrite <- Hk. apply in_or_app. now left. }
      destruct (Hin1 n Hn') as [H1 H2]. split; [|exact H2].
      apply (Permutation_in _ (Permutation_sym Hperm)). exact H1.
  - cbn [res_sat]. split; [exact W|]. split; [apply Permutation_refl|]. exists A. split; [exact Ha|].
    destruct (after_name pn A) as [|y r]; [intros n []|].
    apply Nat.ltb_ge in El. rewrite app_length in El. cbn [length] in El. lia.
Qed.

Lemma refresh_absorb_wf : forall pn tmpname A t,
  wf_txn t -> t_applied t = A ++ [tmpname] -> pn <> tmpname ->
  good (refresh_absorb pn tmpname t).
Proof.
  intros pn tmpname A t W Ha Hne. unfold refresh_absorb.
  destruct (mem pn (t_applied t)) eqn:Em.
  - apply mem_In in Em. rewrite Ha in Em. apply in_app_or in Em as [Hin|[Hx|[]]]; [|congruence].
    cbv zeta. rewrite Ha, (after_name_app pn A [tmpname] Hin).
    set (R := after_name pn A).
    assert (HdR : NoDup R /\ ~ In tmpname R).
    { destruct (last_applied_fresh t A tmpname W Ha) as [HdA [HA _]].
      unfold R. destruct (after_name_skipn pn A) as [j ->]. split.
      - now apply (NoDup_firstn_skipn _ j A HdA).
      - intros Hi. apply HA. now apply In_skipn in Hi. }
    destruct HdR as [HdR HtR].
    eapply res_sat_tbind; [exact (refresh_absorb_step1 pn tmpname A t W Ha Hin)|].
    intros t1 [W1 [_ [K [Ha1 HR]]]]. fold R in HR.
    destruct (t_patch t1 pn) as [pc|] eqn:Epc; [|exact I].
    destruct (t_patch t1 tmpname) as [tc|]; [|exact I].
    unfold last_error. rewrite last_error_app. rewrite name_eqb_refl. cbn [negb].
    rewrite removelast_snoc.
    destruct (refresh_commit t1 pc (tree_of (t_objs t1) tc)) as [t2 newc] eqn:Erc.
    destruct (refresh_commit_wf t1 pn pc _ t2 newc W1 Epc Erc) as [W2 [[L1 [L2 L3]] [Hp2 Ho2]]].
    destruct (delete_patches _ t2) as [t3 inc] eqn:Ed.
    assert (Ha2 : t_applied t2 = K ++ [tmpname]) by congruence.
    destruct (delete_tmp_facts tmpname K t2 t3 inc W2 Ha2 Ed) as [W3 [A3 [U3 [H3 O3]]]].
    assert (Hpush : forall t4, wf_txn t4 -> same_lists t3 t4 -> good (push_patches R false t4)).
    { intros t4 W4 [M1 [M2 M3]].
      eapply res_sat_impl; [apply push_patches_wf; [exact W4|exact HdR|]|intros t' P; apply P].
      intros n Hn. destruct (HR n Hn) as [H1 H2]. rewrite M1, A3. split; [|exact H2].
      apply in_all_cases. rewrite M1, M2, M3, A3, U3, H3, L2, L3.
      apply in_all_cases in H1. rewrite Ha1 in H1. destruct H1 as [H1|H1]; [|now right].
      apply in_app_or in H1 as [H1|[<-|[]]]; [now left|contradiction]. }
    destruct newc as [o|]; cbn [tbind].
    + pose proof (update_patch_wf pn o t3 W3) as Hu. rewrite O3 in Hu. specialize (Hu (Ho2 o eq_refl)).
      unfold update_patch in *. destruct (t_patch t3 pn); [|exact I]. cbn [tbind]. cbn [good res_sat] in Hu.
      apply Hpush; [exact Hu|repeat split].
    + apply Hpush; [exact W3|repeat split].
  - destruct (pop_patches _ t) as [t1 extra] eqn:Ep.
    destruct (pop_wf _ _ _ _ W Ep) as [W1 _].
    destruct extra; [|exact I].
    destruct (t_patch t1 pn) as [pc|] eqn:Epc; [|exact I].
    destruct (t_patch t1 tmpname) as [tc|]; [|exact I].
    destruct (first_parent _ _) as [tpar|]; [|apply W1].
    destruct (apply3way _ _ _ _) as [tree'|]; [|exact W1].
    destruct (refresh_commit t1 pc tree') as [t2 newc] eqn:Erc.
    destruct (refresh_commit_wf t1 pn pc _ t2 newc W1 Epc Erc) as [W2 [_ [Hp2 Ho2]]].
    assert (Hdel : forall t3, wf_txn t3 ->
              good (TOk (fst (delete_patches (fun n => name_eqb n tmpname) t3)))).
    { intros t3 W3. destruct (delete_patches _ t3) as [t4 inc] eqn:Ed.
      now destruct (delete_wf _ _ _ _ W3 Ed) as [W4 _]. }
    destruct newc as [o|]; cbn [tbind].
    + pose proof (update_patch_wf pn o t2 W2 (Ho2 o eq_refl)) as Hu.
      unfold update_patch in *. destruct (t_patch t2 pn); [|exact I]. cbn [tbind]. cbn [good res_sat] in Hu.
      now apply Hdel.
    + now apply Hdel.
Qed.

(* the stack the second transaction of refresh is opened on *)
Lemma refresh_reopened : forall op o tmpname tmpc w2 op2,
  transact op o (new_applied tmpname tmpc) MOp = (w2, X0) ->
  open_stack PAllow w2 = Some op2 ->
  s_applied (op_state op2) = s_applied (op_state op) ++ [tmpname]
  /\ s_unapplied (op_state op2) = s_unapplied (op_state op)
  /\ s_hidden (op_state op2) = s_hidden (op_state op).
Proof.
  intros op o tmpname tmpc w2 op2 E Eo.
  apply transact_X0_cur in E as (t' & th & prev & st1 & Ef & Hc).
  rewrite (open_state_cur PAllow w2 op2 _ ltac:(discriminate) Eo Hc).
  unfold new_applied in Ef.
  destruct (first_parent _ _); [|discriminate]. destruct (t_top _); [|discriminate].
  destruct (Nat.eqb _ _); [|discriminate]. injection Ef as <-. auto.
Qed.

(* the locator of stg refresh -p is well-formed, and the patch it names is a visible one *)
Lemma refresh_loc_wf : forall (p : option str) loc_l,
  match p with
  | Some o => match parse_locator o with Some l => Some (Some l) | None => None end
  | None => Some None
  end = Some loc_l ->
  forall l, loc_l = Some l -> wf_loc l.
Proof.
  intros p loc_l E l ->. destruct p as [o|]; [|discriminate].
  destruct (parse_locator o) as [l'|] eqn:Epl; [|discriminate]. injection E as <-.
  now apply parsed_wf in Epl.
Qed.

Lemma refresh_target_in : forall s loc_l pn,
  (forall l, loc_l = Some l -> wf_loc l) ->
  match loc_l with
  | Some l => resolve_constrained (view_of s) LCVisible l
  | None => match last_error (s_applied s) with Some n => ROk n | None => RErr ENoLastPatch end
  end = ROk pn ->
  In pn (s_applied s ++ s_unapplied s).
Proof.
  intros s loc_l pn Hwf E. destruct loc_l as [l|].
  - pose proof (resolve_constrained_ok (view_of s) LCVisible l (Hwf l eq_refl)) as Hs.
    rewrite E in Hs. exact Hs.
  - destruct (last_error (s_applied s)) as [n|] eqn:El; [|discriminate].
    injection E as <-. apply in_or_app. left. now apply last_error_In in El.
Qed.

Lemma run_refresh_inv : forall w p, Inv w -> Inv (fst (run_refresh w p)).
Proof.
  intros w p Hi. unfold run_refresh.
  destruct (match p with Some o => _ | None => _ end) as [loc_l|] eqn:Ep; [|exact Hi].
  pose proof (refresh_loc_wf p loc_l Ep) as Hwf. clear Ep.
  destruct (open_stack PAllow w) as [op|] eqn:Eo; [apply (open_ok _ _ _ Hi) in Eo|exact Hi].
  destruct (negb (head_top_ok op)); [inv_leaf|].
  match goal with |- Inv (fst (rres_bind _ ?r _)) =>
    destruct r as [pn| |] eqn:Epn; cbn [rres_bind]; [|inv_leaf|inv_leaf] end.
  destruct (w_unmerged (op_world op)); [inv_leaf|].
  unfold put. cbv beta iota zeta.
  pose proof Eo as [Hiw [[Hn [_ [Hdom _]]] _]]. apply Inv_iff in Hiw as [_ [Hbr _]].
  set (tmpname := match uniquify s_refresh_temp [] (all_of (op_state op)) with
                  | UOk n => n | UFuel => s_refresh_temp end).
  assert (Hnm : names_ok (tmpname :: all_of (op_state op))).
  { apply uniquify_names_ok; [exact Hn|exact refresh_temp_valid]. }
  pose proof (refresh_target_in (op_state op) loc_l pn Hwf Epn) as Hpn.
  assert (Hne : pn <> tmpname).
  { intros ->. destruct Hnm as [Hnd _]. inversion Hnd as [|x l Hx _]. apply Hx.
    unfold all_of. rewrite app_assoc. apply in_or_app. now left. }
  match goal with |- context [transact ?o ?a ?f ?m] =>
    assert (Hm : Inv (fst (transact o a f m))); [|destruct (transact o a f m) as [w2 x] eqn:Et] end.
  { apply transact_inv.
    - apply op_ok_put; [exact Eo|]. intros q [<-|[]]. exact Hbr.
    - intros W. apply new_applied_wf; [exact W|exact Hnm|apply patch_commit_new].
    - frame_auto. }
  cbn [fst] in Hm. destruct x; try exact Hm.
  destruct (open_stack PAllow w2) as [op2|] eqn:Eo2; [|exact Hm].
  destruct (refresh_reopened _ _ _ _ _ _ Et Eo2) as [Ha2 _].
  apply (open_ok _ _ _ Hm) in Eo2.
  apply transact_inv; [exact Eo2| |apply frame_refresh_absorb].
  intros W. eapply refresh_absorb_wf; [exact W|exact Ha2|exact Hne].
Qed.


Lemma log_extmods_first_lists : forall op0 op,
  log_extmods_first op0 = Some op ->
  s_applied (op_state op) = s_applied (op_state op0)
  /\ s_unapplied (op_state op) = s_unapplied (op_state op0)
  /\ s_hidden (op_state op) = s_hidden (op_state op0)
  /\ s_patches (op_state op) = s_patches (op_state op0).
Proof.
  intros op0 op E. unfold log_extmods_first in E.
  destruct (Nat.eqb _ _); [injection E as <-; auto|].
  unfold log_external_mods in E. destruct (w_stack (op_world op0)) as [so|]; [|discriminate].
  destruct (state_commit _ _ _) as [[objs' so']|]; [|discriminate].
  injection E as <-. cbn. auto.
Qed.

(* the state recorded by the first (pop everything) transaction of rebase *)
Lemma rebase_popped_state : forall op o w2,
  transact op o (fun t => TOk (fst (pop_patches (fun n => mem n (s_applied (op_state op))) t))) MOp
    = (w2, X0) ->
  exists s2, cur_state w2 = Some s2 /\ s_applied s2 = []
    /\ s_unapplied s2 = s_applied (op_state op) ++ s_unapplied (op_state op)
    /\ s_hidden s2 = s_hidden (op_state op).
Proof.
  intros op o w2 E. apply transact_X0_cur in E as (t' & th & prev & st1 & Ef & Hc).
  injection Ef as <-. eexists. split; [exact Hc|].
  unfold pop_patches. change (t_applied (begin_txn op o)) with (s_applied (op_state op)).
  assert (Es : split_at_first (fun n => mem n (s_applied (op_state op))) (s_applied (op_state op))
               = ([], s_applied (op_state op))).
  { unfold split_at_first. destruct (s_applied (op_state op)) as [|x r] eqn:Ea; [reflexivity|].
    assert (Hm : mem x (x :: r) = true) by (apply mem_In; now left).
    cbn [position]. rewrite Hm. reflexivity. }
  rewrite Es. cbn. rewrite filter_negmem_self, filter_mem_self. auto.
Qed.

Lemma rebase_reopened : forall op o w2 target wt um op3 op4,
  transact op o (fun t => TOk (fst (pop_patches (fun n => mem n (s_applied (op_state op))) t))) MOp
    = (w2, X0) ->
  open_stack PRequire (mkWorld (w_objs w2) target (w_stack w2) (w_prefs w2) wt um (w_base w2) (w_apc w2)) = Some op3 ->
  log_extmods_first op3 = Some op4 ->
  s_applied (op_state op4) = []
  /\ s_unapplied (op_state op4) = s_applied (op_state op) ++ s_unapplied (op_state op)
  /\ s_hidden (op_state op4) = s_hidden (op_state op).
Proof.
  intros op o w2 target wt um op3 op4 Etr Eo3 El.
  apply rebase_popped_state in Etr as (s2 & Hc2 & Ha2 & Hu2 & Hh2).
  assert (Es3 : op_state op3 = s2) by (eapply open_state_cur; [|exact Eo3|exact Hc2]; discriminate).
  destruct (log_extmods_first_lists _ _ El) as [Ea4 [Eu4 [Eh4 _]]].
  rewrite Ea4, Eu4, Eh4, Es3. auto.
Qed.

Lemma rebase_push_pre : forall op4 o applied unapplied,
  s_applied (op_state op4) = [] -> s_unapplied (op_state op4) = applied ++ unapplied ->
  forall n, In n applied -> In n (t_all (begin_txn op4 o)) /\ ~ In n (t_applied (begin_txn op4 o)).
Proof.
  intros op4 o applied unapplied Ea Eu n Hn. cbn. rewrite Ea, Eu. split; [|intros []].
  cbn. apply in_or_app. left. apply in_or_app. now left.
Qed.

Lemma resolve_gtarget_plain : forall w tgt o,
  Inv w -> resolve_gtarget w tgt = Some o -> is_plain (w_objs w) o.
Proof.
  intros w tgt o Hi E. apply Inv_iff in Hi as [[Hcl Hst] [Hbr Hsk]]. destruct tgt as [n|k|k]; cbn in E.
  - destruct (cur_state w) as [s|] eqn:Es; [|discriminate]. unfold cur_state in Es.
    destruct (w_stack w) as [so|]; [|discriminate]. apply Hst in Es as [_ [_ [_ [Hp _]]]].
    now apply Hp in E as [E _].
  - destruct (cur_state w) as [s|] eqn:Es; [|discriminate]. unfold cur_state in Es.
    destruct (w_stack w) as [so|]; [|discriminate]. apply Hst in Es.
    destruct (stack_base _ _ s) as [b|] eqn:Eb; [|discriminate].
    eapply ancestor_plain; [exact Hcl| |exact E]. eapply stack_base_plain; eauto. split; assumption.
  - eapply ancestor_plain; eauto.
Qed.

Lemma Inv_reset_hard : forall w o wt um,
  Inv w -> is_plain (w_objs w) o -> Inv (mkWorld (w_objs w) o (w_stack w) (w_prefs w) wt um (w_base w) (w_apc w)).
Proof.
  intros w o wt um Hi Ho. apply Inv_iff in Hi as [Hok [_ Hsk]]. apply Inv_mk.
  split; [exact Hok|]. split; [exact Ho|exact Hsk].
Qed.

Lemma run_rebase_inv : forall w tg, Inv w -> Inv (fst (run_rebase w tg)).
Proof.
  intros w tg Hi. unfold run_rebase.
  destruct (open_stack PRequire w) as [op|] eqn:Eo; [apply (open_ok _ _ _ Hi) in Eo|exact Hi].
  destruct (resolve_gtarget (op_world op) tg) as [target|] eqn:Et; [|inv_leaf].
  apply (resolve_gtarget_plain _ _ _ (proj1 Eo)) in Et.
  destruct (Nat.eqb target (op_base op)); [inv_leaf|].
  destruct (negb (head_top_ok op)); [inv_leaf|].
  destruct (dirty (op_world op)); [inv_leaf|].
  pose proof Eo as [_ [Hs _]]. destruct (state_lists _ _ Hs) as [Hda _].
  match goal with |- context [transact ?o ?a ?f ?m] =>
    assert (Hm : Inv (fst (transact o a f m))
                 /\ store_extends (w_objs (op_world op)) (w_objs (fst (transact o a f m))));
    [|destruct (transact o a f m) as [w2 x] eqn:Etr] end.
  { split.
    - apply transact_inv; [exact Eo| |cbn [frame]; apply fr_pop].
      intros W. cbn [good res_sat].
      destruct (pop_patches _ _) as [t1 inc] eqn:Ep. cbn [fst].
      now apply (pop_wf _ _ _ _ W) in Ep as [W1 _].
    - apply transact_extends. cbn [frame]. apply fr_pop. }
  cbn [fst] in Hm. destruct Hm as [Hi2 He2]. destruct x; try exact Hi2.
  pose proof (Inv_reset_hard w2 target (tree_of (w_objs w2) target) false Hi2
                (is_plain_ext _ _ _ He2 Et)) as Hi3.
  set (w3 := mkWorld _ _ _ _ _ _ _ _) in *.
  destruct (open_stack PRequire w3) as [op3|] eqn:Eo3; [|exact Hi3].
  destruct (log_extmods_first op3) as [op4|] eqn:El; [|apply (open_ok _ _ _ Hi3) in Eo3; inv_leaf].
  destruct (rebase_reopened _ _ _ _ _ _ _ _ Etr Eo3 El) as [Ea4 [Eu4 _]].
  apply (open_ok _ _ _ Hi3) in Eo3.
  apply (log_extmods_first_ok _ _ Eo3) in El.
  destruct (negb (head_top_ok op4)); [inv_leaf|].
  apply transact_inv; [exact El| |apply frame_push_patches].
  intros W. eapply res_sat_impl; [apply push_patches_wf; [exact W|exact Hda|]|intros t' P; apply P].
  eapply rebase_push_pre; eassumption.
Qed.

(* ---------------------------------------------------------------- squash *)

Lemma delete_all_iff : forall f t t' inc,
  delete_patches f t = (t', inc) ->
  forall m, In m (t_all t') <-> In m (t_all t) /\ f m = false.
Proof.
  intros f t t' inc H m. apply delete_spec in H as [keep [popped [Es [Ha [-> _]]]]].
  apply split_at_first_spec in Es as [_ [Hk _]].
  unfold t_all. rewrite t_applied_set_updated, t_unapplied_set_updated, t_hidden_set_updated,
    t_applied_set_lists, t_unapplied_set_lists, t_hidden_set_lists.
  rewrite Ha, !in_app_iff, !filter_In, !negb_true_iff. split.
  - intros [Hm|[[Hm|Hm]|Hm]]; try tauto. split; [tauto|now apply Hk].
  - tauto.
Qed.

Lemma delete_applied_sub : forall f t t' inc,
  delete_patches f t = (t', inc) -> forall m, In m (t_applied t') -> In m (t_applied t).
Proof.
  intros f t t' inc H m Hm. apply delete_spec in H as [keep [popped [_ [Ha [-> _]]]]].
  rewrite t_applied_set_updated, t_applied_set_lists in Hm. rewrite Ha. apply in_or_app. now left.
Qed.

Lemma try_squash_spec : forall t ps meta msg t1 o,
  try_squash t ps meta msg = Some (t1, o) ->
  exists b bc tr, In b ps /\ t_patch t b = Some bc
    /\ t1 = set_objs t (t_objs t ++ [plain (parents_of (t_objs t) bc) tr meta msg])
    /\ o = length (t_objs t).
Proof.
  intros t ps meta msg t1 o H. unfold try_squash in H.
  destruct ps as [|b rest]; [discriminate|].
  destruct (t_patch t b) as [bc|] eqn:Eb; [|discriminate].
  destruct (squash_tree (t_objs t) t rest (tree_of (t_objs t) bc)) as [tr|]; [|discriminate].
  unfold put in H. injection H as <- <-. exists b, bc, tr. split; [now left|]. auto.
Qed.

Lemma try_squash_wf : forall t ps meta msg t1 o,
  wf_txn t -> try_squash t ps meta msg = Some (t1, o) ->
  wf_txn t1 /\ is_patch_commit (t_objs t1) o /\ same_lists t t1.
Proof.
  intros t ps meta msg t1 o W H. apply try_squash_spec in H as (b & bc & tr & _ & Eb & -> & ->).
  apply (wt_patch t W) in Eb. split; [|split].
  - apply wf_txn_put; [exact W|]. apply patch_parents_plain; [apply W|exact Eb].
  - rewrite t_objs_set_objs. now apply patch_commit_copy.
  - repeat split.
Qed.

Lemma squash_finish_pre : forall newn o to_push (sp : bool) t,
  wf_txn t -> names_ok (newn :: t_all t) -> is_patch_commit (t_objs t) o ->
  NoDup to_push -> (forall n, In n to_push -> In n (t_all t) /\ ~ In n (t_applied t)) ->
  exists t3, new_unapplied newn o 0 t = TOk t3 /\ wf_txn t3
    /\ t_updated t3 = up_set (t_updated t) newn (Some o) /\ t_stack t3 = t_stack t
    /\ NoDup (if sp then newn :: to_push else to_push)
    /\ (forall n, In n (if sp then newn :: to_push else to_push) ->
          In n (t_all t3) /\ ~ In n (t_applied t3)).
Proof.
  intros newn o to_push sp t W Hn Ho Hd Hin. unfold new_unapplied.
  cbn [Nat.ltb Nat.leb insert_at].
  set (t3 := set_updated _ _). exists t3. split; [reflexivity|].
  assert (W3 : wf_txn t3).
  { apply wf_txn_add; [exact W|exact Hn|exact Ho|]. apply Permutation_sym. apply Permutation_middle. }
  assert (Hnew : ~ In newn (t_all t)) by (destruct Hn as [Hnd _]; now inversion Hnd).
  assert (Hall3 : forall n, In n (t_all t3) <-> n = newn \/ In n (t_all t)).
  { intros n. unfold t3, t_all. rewrite t_applied_set_updated, t_unapplied_set_updated, t_hidden_set_updated,
      t_applied_set_lists, t_unapplied_set_lists, t_hidden_set_lists.
    rewrite !in_app_iff. cbn [In]. split; [intros [H|[[H|H]|H]]; auto|].
    intros [H|[H|[H|H]]]; auto. }
  assert (Ha3 : t_applied t3 = t_applied t) by reflexivity.
  split; [exact W3|]. split; [reflexivity|]. split; [reflexivity|]. split.
  - destruct sp; [|exact Hd]. constructor; [|exact Hd]. intros Hi. apply Hin in Hi as [Hi _]. contradiction.
  - intros n Hi. rewrite Hall3, Ha3.
    assert (Hc : n = newn \/ In n to_push) by (destruct sp; [destruct Hi as [<-|Hi]; auto|auto]).
    destruct Hc as [->|Hc].
    + split; [now left|]. intros Ha. apply Hnew. apply in_all_cases. now left.
    + destruct (Hin n Hc) as [H1 H2]. split; [now right|exact H2].
Qed.

Lemma squash_finish_wf : forall newn o to_push sp t,
  wf_txn t -> names_ok (newn :: t_all t) -> is_patch_commit (t_objs t) o ->
  NoDup to_push -> (forall n, In n to_push -> In n (t_all t) /\ ~ In n (t_applied t)) ->
  good (squash_finish newn o to_push sp t).
Proof.
  intros newn o to_push sp t W Hn Ho Hd Hin. unfold squash_finish.
  destruct (squash_finish_pre newn o to_push sp t W Hn Ho Hd Hin) as (t3 & -> & W3 & _ & _ & Hd3 & Hin3).
  cbn [tbind].
  eapply res_sat_impl; [apply push_patches_wf; [exact W3|exact Hd3|exact Hin3]|intros t' P; apply P].
Qed.

Definition squash_pre (ps : list name) (newn : name) (t : txn) : Prop :=
  NoDup ps /\ incl ps (t_all t) /\ validate newn = true
  /\ (forall m, In m (t_all t) -> collides newn m = true -> In m ps).

Lemma squash_names_ok : forall ps newn t t' inc,
  wf_txn t' -> validate newn = true ->
  (forall m, In m (t_all t) -> collides newn m = true -> In m ps) ->
  delete_patches (fun n => mem n ps) t = (t', inc) ->
  names_ok (newn :: t_all t').
Proof.
  intros ps newn t t' inc W' Hv Hcol Ed. apply names_ok_cons; [apply W'|exact Hv|].
  intros m Hm. apply (delete_all_iff _ _ _ _ Ed) in Hm as [Hm Hf].
  destruct (collides newn m) eqn:Ec; [|reflexivity].
  apply Hcol in Ec; [|exact Hm]. apply mem_In in Ec. cbv beta in Hf. congruence.
Qed.

(* after popping the patches to squash and pushing them back they sit on top, so deleting
   them pops nothing else *)
Lemma delete_top_no_extra : forall ps t t' inc keep,
  t_applied t = keep ++ ps -> (forall x, In x keep -> ~ In x ps) ->
  delete_patches (fun n => mem n ps) t = (t', inc) -> inc = [].
Proof.
  intros ps t t' inc keep Ha Hk Ed. unfold delete_patches in Ed.
  assert (Es : split_at_first (fun n => mem n ps) (t_applied t) = (keep, ps)).
  { rewrite Ha. replace keep with (firstn (length keep) (keep ++ ps)) at 2
      by (rewrite firstn_app, Nat.sub_diag, firstn_all; cbn; apply app_nil_r).
    replace ps with (skipn (length keep) (keep ++ ps)) at 3
      by (rewrite skipn_app, Nat.sub_diag, skipn_all; reflexivity).
    apply split_at_first_k.
    - rewrite firstn_app, Nat.sub_diag, firstn_all. cbn. rewrite app_nil_r.
      intros x Hx. apply mem_false. now apply Hk.
    - rewrite skipn_app, Nat.sub_diag, skipn_all. cbn. intros y Hy. apply mem_In. now apply hd_error_In. }
  rewrite Es in Ed. injection Ed as _ <-. apply filter_negmem_self.
Qed.

Lemma pop_keep_disjoint : forall f t t' inc,
  pop_patches f t = (t', inc) ->
  (forall x, In x (t_applied t') -> f x = false)
  /\ (forall x, In x inc -> f x = false /\ In x (t_unapplied t') /\ In x (t_applied t)).
Proof.
  intros f t t' inc H. apply pop_spec in H as [keep [popped [Es [Ha [-> ->]]]]].
  apply split_at_first_spec in Es as [_ [Hk _]]. split.
  - rewrite t_applied_set_lists. exact Hk.
  - intros x Hx. apply filter_In in Hx as [Hx Hf]. apply negb_true_iff in Hf. split; [exact Hf|]. split.
    + rewrite t_unapplied_set_lists. apply in_or_app. left. apply filter_In. split; [exact Hx|].
      now rewrite Hf.
    + rewrite Ha. apply in_or_app. now right.
Qed.

Lemma pop_inc_nodup : forall f t t' inc,
  NoDup (t_applied t) -> pop_patches f t = (t', inc) -> NoDup inc.
Proof.
  intros f t t' inc Hd H. apply pop_spec in H as [keep [popped [_ [Ha [_ ->]]]]].
  rewrite Ha in Hd. apply NoDup_app_iff in Hd as [_ [Hd _]]. now apply NoDup_filter.
Qed.

Lemma squash_closure_wf : forall ps newn meta msg sp t,
  wf_txn t -> squash_pre ps newn t -> good (squash_closure ps newn meta msg sp t).
Proof.
  intros ps newn meta msg sp t W (Hd & Hin & Hv & Hcol). unfold squash_closure.
  destruct (try_squash t ps meta msg) as [[t1 o]|] eqn:Et.
  - destruct (try_squash_wf _ _ _ _ _ _ W Et) as (W1 & Ho & Hs1).
    pose proof (same_lists_all _ _ Hs1) as Ea1.
    destruct (delete_patches (fun n => mem n ps) t1) as [t2 to_push] eqn:Ed.
    destruct (delete_wf _ _ _ _ W1 Ed) as (W2 & Hdp & Hip).
    pose proof (delete_objs (fun n => mem n ps) t1) as Eo. rewrite Ed in Eo. cbn [fst] in Eo.
    apply squash_finish_wf; [exact W2| |now rewrite Eo|exact Hdp|].
    + eapply squash_names_ok; [exact W2|exact Hv| |exact Ed]. now rewrite Ea1.
    + intros n Hn. apply Hip in Hn. split; [apply in_all_cases; auto|].
      pose proof (names_disjoint t2 (wt_names t2 W2)) as [_ [_ [_ [Hah _]]]].
      intros Ha. destruct (Hah n Ha) as [Hx _]. contradiction.
  - destruct (pop_patches (fun n => mem n ps) t) as [t1 to_push] eqn:Ep.
    destruct (pop_wf _ _ _ _ W Ep) as [W1 Hp1].
    destruct (pop_keep_disjoint _ _ _ _ Ep) as [Hk1 Hinc].
    pose proof (names_disjoint t (wt_names t W)) as [Hda _].
    pose proof (pop_inc_nodup _ _ _ _ Hda Ep) as Hdtp.
    pose proof (names_disjoint t1 (wt_names t1 W1)) as [_ [_ [_ [Hah1 Huh1]]]].
    eapply res_sat_tbind; [apply (push_patches_wf ps false t1 W1 Hd)|].
    + intros n Hn. split.
      * eapply Permutation_in; [apply Permutation_sym; exact Hp1|now apply Hin].
      * intros Ha. apply Hk1 in Ha. apply mem_In in Hn. cbv beta in Ha. congruence.
    + intros t2 (W2 & Ea2 & Eh2 & Hp2). cbv beta.
      destruct (try_squash t2 ps meta msg) as [[t3 o]|] eqn:Et2; [|apply W2].
      destruct (try_squash_wf _ _ _ _ _ _ W2 Et2) as (W3 & Ho & Hs3).
      pose proof (same_lists_all _ _ Hs3) as Ea3. destruct Hs3 as [Eap3 _].
      destruct (delete_patches (fun n => mem n ps) t3) as [t4 extra] eqn:Ed.
      destruct extra; [|exact I].
      destruct (delete_wf _ _ _ _ W3 Ed) as (W4 & _ & _).
      pose proof (delete_objs (fun n => mem n ps) t3) as Eo. rewrite Ed in Eo. cbn [fst] in Eo.
      assert (Hall2 : forall m, In m (t_all t2) <-> In m (t_all t)).
      { intros m. split; intros Hm.
        - eapply Permutation_in; [exact Hp1|]. eapply Permutation_in; [exact Hp2|exact Hm].
        - eapply Permutation_in; [apply Permutation_sym; exact Hp2|].
          eapply Permutation_in; [apply Permutation_sym; exact Hp1|exact Hm]. }
      apply squash_finish_wf; [exact W4| |now rewrite Eo|exact Hdtp|].
      * eapply squash_names_ok; [exact W4|exact Hv| |exact Ed].
        intros m Hm. rewrite Ea3 in Hm. apply Hall2 in Hm. now apply Hcol.
      * intros n Hn. destruct (Hinc n Hn) as (Hf & Hu1 & Ha0). split.
        -- apply (delete_all_iff _ _ _ _ Ed). split; [|exact Hf]. rewrite Ea3. apply Hall2.
           apply in_all_cases. now left.
        -- intros Ha4. apply (delete_applied_sub _ _ _ _ Ed) in Ha4. rewrite Eap3, Ea2 in Ha4.
           apply in_app_or in Ha4 as [Ha4|Ha4].
           ++ destruct (Hah1 n Ha4) as [Hx _]. contradiction.
           ++ apply mem_In in Ha4. cbv beta in Hf. congruence.
Qed.

Lemma squash_pre_begin : forall op o ps newn,
  op_ok op -> NoDup ps -> incl ps (all_of (op_state op)) -> validate newn = true ->
  negb (mem newn ps) && (match stack_collides (op_state op) newn with Some _ => true | None => false end) = false ->
  squash_pre ps newn (begin_txn op o).
Proof.
  intros op o ps newn [_ [[Hn _] _]] Hd Hin Hv Hg. split; [exact Hd|]. split; [exact Hin|]. split; [exact Hv|].
  change (t_all (begin_txn op o)) with (all_of (op_state op)). intros m Hm Hc.
  apply andb_false_iff in Hg as [Hg|Hg].
  - apply negb_false_iff in Hg. apply mem_In in Hg. destruct Hn as [_ [_ Hcf]].
    rewrite <- (Hcf newn m (Hin _ Hg) Hm Hc). exact Hg.
  - destruct (stack_collides (op_state op) newn) eqn:Ec; [discriminate|].
    rewrite (stack_collides_none _ _ Ec m Hm) in Hc. discriminate.
Qed.

Lemma run_squash_inv : forall w r nm meta msg, Inv w -> Inv (fst (run_squash w r nm meta msg)).
Proof.
  intros w r nm meta msg Hi. unfold run_squash.
  destruct (parse_ranges r) as [prs|] eqn:Epr; [|exact Hi].
  destruct (from_str nm) as [newn|] eqn:En; [|exact Hi]. apply from_str_valid in En.
  destruct (open_stack PAllow w) as [op|] eqn:Eo; [apply (open_ok _ _ _ Hi) in Eo|exact Hi].
  destruct (w_unmerged (op_world op)); [inv_leaf|].
  destruct (negb (head_top_ok op)); [inv_leaf|].
  destruct (resolve_names _ _ _) as [ps| |] eqn:Er; cbn [rres_bind]; try inv_leaf.
  destruct (resolve_names_ok _ _ _ _ _ Epr Er) as [Hd Hin].
  destruct (_ && _) eqn:Eg; [inv_leaf|].
  destruct (Nat.ltb _ _); [inv_leaf|].
  rewrite squash_exit_fst.
  apply transact_inv; [exact Eo| |apply frame_squash_closure].
  intros W. apply squash_closure_wf; [exact W|]. now apply squash_pre_begin.
Qed.

(* ---------------------------------------------------------------- pick *)

Lemma pick_given_valid : forall nm n, pick_given nm = Some (Some n) -> validate n = true.
Proof.
  intros [x|] n H; cbn [pick_given] in H; [|discriminate].
  destruct (from_str x) as [m|] eqn:E; [|discriminate]. injection H as <-. now apply from_str_valid in E.
Qed.

Lemma pick_source_plain : forall op src o,
  op_ok op -> pick_source op src = Some o -> is_plain (w_objs (op_world op)) o.
Proof.
  intros op src o [Hi [Hs Hb]] H. apply Inv_iff in Hi as [[Hcl _] [Hbr _]].
  destruct src as [n|k|k]; cbn [pick_source] in H.
  - destruct Hs as [_ [_ [_ [Hp _]]]]. now apply (Hp n o) in H as [H _].
  - eapply ancestor_plain; [exact Hcl|exact Hb|exact H].
  - eapply ancestor_plain; [exact Hcl|exact Hbr|exact H].
Qed.

Lemma pick_cand_valid : forall lower_s, LowerOK lower_s ->
  forall op src nm given o pn0,
  op_ok op -> pick_given nm = Some given -> pick_source op src = Some o ->
  pick_cand lower_s op src given o = Ok pn0 -> validate pn0 = true.
Proof.
  intros lower_s HL op src nm given o pn0 [_ [Hs _]] Hg Hsrc Hc. unfold pick_cand in Hc.
  destruct given as [n|].
  - injection Hc as <-. now apply (pick_given_valid nm).
  - assert (Hm : forall raw, make lower_s raw false (Some 30%N) = Ok pn0 -> validate pn0 = true).
    { intros raw E. destruct (make_valid lower_s HL raw false (Some 30%N)) as [n [En Hv]]. congruence. }
    destruct src as [n|k|k]; [|now apply Hm in Hc|now apply Hm in Hc].
    injection Hc as <-. cbn [pick_source] in Hsrc.
    destruct Hs as [[_ [Hv _]] [_ [Hall _]]]. rewrite Forall_forall in Hv. apply Hv.
    apply Hall. congruence.
Qed.

Lemma pick_op_ok : forall op src o c par,
  op_ok op -> pick_source op src = Some o -> first_parent (w_objs (op_world op)) o = Some par ->
  op_ok (pick_op op c par).
Proof.
  intros op src o c par Hop Hsrc Hpar. unfold pick_op, pick_commit. apply op_ok_put; [exact Hop|].
  intros p [<-|[]]. pose proof (pick_source_plain op src o Hop Hsrc) as Ho.
  destruct Hop as [Hi _]. apply Inv_iff in Hi as [[Hcl _] _]. eapply first_parent_plain; eauto.
Qed.

Lemma pick_body_wf : forall pn o na t,
  wf_txn t -> names_ok (pn :: t_all t) -> is_patch_commit (t_objs t) o -> good (pick_body pn o na t).
Proof.
  intros pn o na t W Hn Ho. unfold pick_body.
  destruct (squash_finish_pre pn o [] (negb na) t W Hn Ho (NoDup_nil _)) as (t3 & -> & W3 & _ & _ & Hd3 & Hin3).
  { intros n []. }
  cbn [tbind]. destruct na; cbn [negb] in *; [exact W3|].
  eapply res_sat_impl; [apply push_patches_wf; [exact W3|exact Hd3|exact Hin3]|intros t' P; apply P].
Qed.

Lemma pick_names_ok : forall pn0 pn s,
  names_ok (all_of s) -> validate pn0 = true -> uniquify pn0 [] (all_of s) = UOk pn ->
  names_ok (pn :: all_of s).
Proof.
  intros pn0 pn s Hn Hv E. pose proof (uniquify_names_ok pn0 (all_of s) Hn Hv) as H. now rewrite E in H.
Qed.

Lemma run_pick_inv : forall lower_s, LowerOK lower_s ->
  forall w src nm na, Inv w -> Inv (fst (run_pick lower_s w src nm na)).
Proof.
  intros lower_s HL w src nm na Hi.
  destruct (run_pick_case lower_s w src nm na) as
    [_|_|op Eo|op given o Eo _ _ _ _|op given o pn0 Eo _ _ _ _ _|op given o pn0 pn c par Eo Eg _ _ Es Ec Eu _ Ep];
    cbn [fst]; try exact Hi; apply (open_ok _ _ _ Hi) in Eo; try (destruct Eo as [Ho _]; exact Ho).
  pose proof Eo as [_ [[Hn _] _]].
  apply transact_inv; [eapply pick_op_ok; eauto| |apply frame_pick_body].
  intros W. apply pick_body_wf; [exact W| |].
  - change (t_all (begin_txn (pick_op op c par) (pick_opts (w_apc (op_world op))))) with (all_of (op_state op)).
    eapply pick_names_ok; [exact Hn| |exact Eu]. eapply pick_cand_valid; eauto.
  - apply patch_commit_new.
Qed.

(* ---------------------------------------------------------------- the theorems *)

Theorem step_inv : forall lower_s, LowerOK lower_s ->
  forall w c, in_scope c = true -> Inv w -> Inv (fst (step lower_s w c)).
Proof.
  intros lower_s HL w c Hs Hi. destruct c; cbn [step].
  - destruct (open_stack PMust w) as [op|] eqn:Eo; [|exact Hi]. now apply (open_ok _ _ _ Hi) in Eo as [H _].
  - now apply run_new_inv.
  - now apply run_refresh_inv.
  - now apply run_push_inv.
  - now apply run_pop_inv.
  - now apply run_goto_inv.
  - now apply run_float_inv.
  - now apply run_sink_inv.
  - now apply run_delete_inv.
  - now apply run_hide_inv.
  - now apply run_unhide_inv.
  - now apply run_rename_inv.
  - now apply run_commit_inv.
  - now apply run_uncommit_inv.
  - now apply run_clean_inv.
  - now apply run_spill_inv.
  - now apply run_undo_inv.
  - now apply run_redo_inv.
  - destruct ranges; [discriminate|]. now apply run_reset_inv.
  - now apply run_repair_inv.
  - now apply run_log_clear_inv.
  - now apply run_edit_inv.
  - now apply run_rebase_inv.
  - now apply run_squash_inv.
  - now apply run_pick_inv.
  - destruct (open_stack PAllow w) as [op|] eqn:Eo; [|exact Hi]. now apply (open_ok _ _ _ Hi) in Eo as [H _].
  - now apply run_git_inv.
  - now apply run_git_inv.
  - now apply run_git_inv.
  - now apply run_git_inv.
  - now apply run_git_inv.
  - now apply run_git_inv.
Qed.

Theorem run_inv : forall lower_s, LowerOK lower_s ->
  forall cs w, forallb in_scope cs = true -> Inv w -> Inv (run lower_s w cs).
Proof.
  intros lower_s HL. induction cs as [|c cs IH]; intros w Hs Hi; cbn in *; [exact Hi|].
  apply andb_true_iff in Hs as [H1 H2]. apply IH; [exact H2|]. now apply step_inv.
Qed.
