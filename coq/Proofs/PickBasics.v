(* `stg pick`: the paths of run_pick, once and for all.  Only Model definitions are used, so
   every per-command development (Wf, Chain, Reach, NoPanic, Ident, Conflict, ...) can start
   from [run_pick_case]. *)
From Coq Require Import List NArith Bool Arith.
From StgV Require Import Model.StackSpec Proofs.CharsProofs.
Import ListNotations.
Local Open Scope nat_scope.

Definition pick_opts (apc : bool) : topts := opts CDisallow apc false true true false.

(* the closure of the transaction *)
Definition pick_body (pn : name) (o : oid) (na : bool) (t : txn) : tres :=
  tbind (new_unapplied pn o 0 t) (fun t1 => if na then TOk t1 else push_patches [pn] false t1).

(* the copy of the source commit [c] on its first parent *)
Definition pick_commit (c : commit) (par : oid) : commit :=
  plain [par] (c_tree c) (c_meta c) (c_subj c).

Definition pick_op (op : opened) (c : commit) (par : oid) : opened :=
  mkOpened (with_objs (op_world op) (w_objs (op_world op) ++ [pick_commit c par]))
           (op_state op) (op_base op) (op_initialized op).

Definition pick_given (nm : option str) : option (option name) :=
  match nm with
  | Some x => match from_str x with Some n => Some (Some n) | None => None end
  | None => Some None
  end.

Definition pick_cand (lower_s : str -> str) (op : opened) (src : gtarget) (given : option name)
           (o : oid) : res name :=
  match given with
  | Some n => Ok n
  | None => match src with
            | TPatch n => Ok n
            | _ => make lower_s (subj_of (w_objs (op_world op)) o) false (Some 30%N)
            end
  end.

Inductive pick_case (lower_s : str -> str) (w : world) (src : gtarget) (nm : option str) (na : bool)
  : world * exitc -> Prop :=
| PkName : pick_given nm = None -> pick_case lower_s w src nm na (w, X1)
| PkOpen : open_stack PAuto w = None -> pick_case lower_s w src nm na (w, X2)
| PkErr : forall op, open_stack PAuto w = Some op -> pick_case lower_s w src nm na (op_world op, X2)
| PkMake : forall op given o,
    open_stack PAuto w = Some op -> pick_given nm = Some given ->
    negb na && dirty (op_world op) = false -> pick_source op src = Some o ->
    (forall pn0, pick_cand lower_s op src given o <> Ok pn0) ->
    pick_case lower_s w src nm na (op_world op, XPanic)
| PkFuel : forall op given o pn0,
    open_stack PAuto w = Some op -> pick_given nm = Some given ->
    negb na && dirty (op_world op) = false -> pick_source op src = Some o ->
    pick_cand lower_s op src given o = Ok pn0 ->
    uniquify pn0 [] (all_of (op_state op)) = UFuel ->
    pick_case lower_s w src nm na (op_world op, XPanic)
| PkTxn : forall op given o pn0 pn c par,
    open_stack PAuto w = Some op -> pick_given nm = Some given ->
    negb na && dirty (op_world op) = false ->
    negb na && negb (head_top_ok op) = false ->
    pick_source op src = Some o ->
    pick_cand lower_s op src given o = Ok pn0 ->
    uniquify pn0 [] (all_of (op_state op)) = UOk pn ->
    get (w_objs (op_world op)) o = Some c ->
    first_parent (w_objs (op_world op)) o = Some par ->
    pick_case lower_s w src nm na
      (transact (pick_op op c par) (pick_opts (w_apc (op_world op)))
                (pick_body pn (length (w_objs (op_world op))) na) MOp).

Lemma run_pick_case : forall lower_s w src nm na,
  pick_case lower_s w src nm na (run_pick lower_s w src nm na).
Proof.
  intros lower_s w src nm na. unfold run_pick. cbv zeta.
  change (match nm with
          | Some x => match from_str x with Some n => Some (Some n) | None => None end
          | None => Some None end) with (pick_given nm).
  destruct (pick_given nm) as [given|] eqn:Eg; [|now apply PkName].
  destruct (open_stack PAuto w) as [op|] eqn:Eo; [|now apply PkOpen].
  cbv zeta.
  destruct (negb na && dirty (op_world op)) eqn:Ed; [now apply PkErr|].
  destruct (negb na && negb (head_top_ok op)) eqn:Eh; [now apply PkErr|].
  destruct (pick_source op src) as [o|] eqn:Es; [|now apply PkErr].
  match goal with |- pick_case _ _ _ _ _ (match ?cd with Ok _ => _ | Err => _ | Panic => _ end) =>
    change cd with (pick_cand lower_s op src given o) end.
  destruct (pick_cand lower_s op src given o) as [pn0| |] eqn:Ec.
  - destruct (uniquify pn0 [] (all_of (op_state op))) as [pn|] eqn:Eu.
    + destruct (get (w_objs (op_world op)) o) as [c|] eqn:Eget;
        destruct (first_parent (w_objs (op_world op)) o) as [par|] eqn:Epar;
        try (now apply PkErr).
      unfold put. eapply PkTxn; eassumption.
    + eapply PkFuel; eassumption.
  - eapply PkMake; try eassumption. intros pn0. congruence.
  - eapply PkMake; try eassumption. intros pn0. congruence.
Qed.

(* the stored copy *)
Lemma pick_op_get : forall op c par,
  get (w_objs (op_world (pick_op op c par))) (length (w_objs (op_world op))) = Some (pick_commit c par).
Proof.
  intros op c par. unfold pick_op, with_objs, get. cbn [op_world w_objs].
  rewrite nth_error_app2 by apply Nat.le_refl. now rewrite Nat.sub_diag.
Qed.

(* ---------------------------------------------------------------- the name is fresh *)

(* whatever the candidate, a name returned by uniquify passed the test *)
Lemma uniquify_loop_done : forall allow dis r fuel n,
  uniquify_loop fuel n allow dis = UOk r -> uniquify_done r allow dis = true.
Proof.
  intros allow dis r. induction fuel as [|fuel IH]; intros n H; cbn [uniquify_loop] in H;
    destruct (uniquify_done n allow dis) eqn:E.
  - now injection H as <-.
  - discriminate.
  - now injection H as <-.
  - eapply IH; exact H.
Qed.

Lemma uniquify_fresh : forall n dis r,
  uniquify n [] dis = UOk r -> forall d, In d dis -> collides r d = false.
Proof.
  intros n dis r H d Hd. unfold uniquify in H. apply uniquify_loop_done in H.
  unfold uniquify_done in H. cbn [name_in existsb orb] in H.
  rewrite forallb_forall in H. apply H in Hd. now apply negb_true_iff in Hd.
Qed.

Lemma uniquify_notin : forall n dis r, uniquify n [] dis = UOk r -> ~ In r dis.
Proof.
  intros n dis r H Hi. apply (uniquify_fresh _ _ _ H) in Hi.
  unfold collides in Hi. now rewrite str_eqb_refl in Hi.
Qed.
