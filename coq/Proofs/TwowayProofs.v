(* C10: git's two-way merge as modelled in Model/Stack.v never touches a locally modified
   file: it either refuses (nothing changes) or keeps every dirty file as it is. *)
From StgV Require Import Model.Stack Proofs.MergeProofs.
From Coq Require Import Lia.

(* file-wise statement on the chunked trees *)
Lemma twoway_files_safe : forall hs ms is_ r,
  twoway_files hs ms is_ = Some r ->
  exists rs, r = concat rs /\ length rs = length is_
    /\ forall k h i x, nth_error hs k = Some h -> nth_error is_ k = Some i -> nth_error rs k = Some x ->
         (i = h -> nth_error ms k = Some x) /\ (i <> h -> x = i).
Proof.
  induction hs as [|h hs IH]; intros ms is_ r H.
  - destruct ms, is_; cbn in H; try discriminate. injection H as <-.
    exists []. split; [reflexivity|]. split; [reflexivity|]. intros k0 h0 i0 x0 Hh; destruct k0; discriminate.
  - destruct ms as [|m ms], is_ as [|i is_]; cbn [twoway_files] in H; try discriminate.
    destruct (twoway_files hs ms is_) as [r'|] eqn:E; [|discriminate].
    destruct (IH _ _ _ E) as (rs & -> & Hl & Hk).
    assert (Hcase : forall x, r = x ++ concat rs ->
              ((i = h -> x = m) /\ (i <> h -> x = i)) ->
              exists rs0, r = concat rs0 /\ length rs0 = length (i :: is_)
                /\ forall k h0 i0 x0, nth_error (h :: hs) k = Some h0 -> nth_error (i :: is_) k = Some i0 ->
                     nth_error rs0 k = Some x0 ->
                     (i0 = h0 -> nth_error (m :: ms) k = Some x0) /\ (i0 <> h0 -> x0 = i0)).
    { intros x -> [Hx1 Hx2]. exists (x :: rs). split; [reflexivity|]. split; [cbn; now rewrite Hl|].
      intros [|k] h0 i0 x0 Hh Hi Hx; cbn in *.
      - injection Hh as <-. injection Hi as <-. injection Hx as <-. split.
        + intros e. now rewrite (Hx1 e).
        + exact Hx2.
      - eapply Hk; eassumption. }
    destruct (tree_eqb i h) eqn:Eih.
    + apply tree_eqb_eq in Eih. injection H as <-. apply (Hcase m eq_refl). split; [reflexivity|]. intros n. now elim n.
    + assert (Hne : i <> h) by (intros e; subst; rewrite tree_eqb_refl in Eih; discriminate).
      destruct (tree_eqb h m) eqn:Ehm.
      * injection H as <-. apply (Hcase i eq_refl). split; [intros e; now elim Hne|reflexivity].
      * destruct (tree_eqb i m) eqn:Eim; [|discriminate].
        injection H as <-. apply (Hcase i eq_refl). split; [intros e; now elim Hne|reflexivity].
Qed.

(* a refusal changes nothing by construction: [checkout] / [execute] keep the old work tree
   when [twoway] returns None.  Locally modified files are kept verbatim: *)
Lemma twoway_keeps_dirty_files : forall cur target wt wt',
  twoway cur target wt = Some wt' ->
  exists files', wt' = concat files'
    /\ length files' = length (chunks file_sizes wt)
    /\ forall k h i x,
         nth_error (chunks file_sizes cur) k = Some h ->
         nth_error (chunks file_sizes wt) k = Some i ->
         nth_error files' k = Some x ->
         i <> h -> x = i.
Proof.
  intros cur target wt wt' H. unfold twoway in H.
  destruct (twoway_files_safe _ _ _ _ H) as (rs & -> & Hl & Hk).
  exists rs. split; [reflexivity|]. split; [exact Hl|].
  intros k h i x Hh Hi Hx Hne. now apply (Hk k h i x Hh Hi Hx).
Qed.

(* a clean work tree is simply replaced by the target tree, file by file *)
Lemma twoway_clean_files : forall hs ms, length hs = length ms ->
  twoway_files hs ms hs = Some (concat ms).
Proof.
  induction hs as [|h hs IH]; intros [|m ms] Hl; cbn in *; try discriminate; [reflexivity|].
  rewrite IH by lia. now rewrite tree_eqb_refl.
Qed.
