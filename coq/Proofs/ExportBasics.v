(* Generic facts about the byte-string functions of Model/Export.v used by the C18 proofs
   (Proofs/ExportProofs.v): lines, separator split, UTF-8 validity, Unicode trim,
   split_once, the template state machine. *)
From Coq Require Import List NArith Bool Lia ZifyBool PeanoNat.
From StgV Require Import Model.Chars Model.Export Model.ExportSpec Proofs.CharsProofs.
Import ListNotations.
Open Scope N_scope.

(* ---------------------------------------------------------------- small list facts *)

Lemma forallb_neg_existsb : forall (f : N -> bool) s,
  forallb (fun c => negb (f c)) s = true -> existsb f s = false.
Proof.
  intros f. induction s as [|c s IH]; cbn [forallb existsb]; [reflexivity|].
  intros H. apply andb_true_iff in H as [H1 H2]. rewrite (IH H2).
  destruct (f c); [discriminate|reflexivity].
Qed.

Lemma forallb_weaken : forall (f g : N -> bool) s,
  (forall c, f c = true -> g c = true) -> forallb f s = true -> forallb g s = true.
Proof.
  intros f g s Hfg. induction s as [|c s IH]; cbn [forallb]; [reflexivity|].
  intros H. apply andb_true_iff in H as [H1 H2]. rewrite (Hfg _ H1), (IH H2). reflexivity.
Qed.

Lemma no_nl_app : forall a b, no_nl (a ++ b) = no_nl a && no_nl b.
Proof. intros a b. unfold no_nl. apply forallb_app. Qed.

(* ---------------------------------------------------------------- lines *)

(* lines_wt without the accumulator *)
Fixpoint lines' (s : str) : list str :=
  match s with
  | [] => []
  | c :: s' => if c =? 10 then [10] :: lines' s'
               else match lines' s' with [] => [[c]] | l :: r => (c :: l) :: r end
  end.

Lemma lines_wt_aux_spec : forall s cur,
  lines_wt_aux s cur = match lines' s with
                       | [] => match cur with [] => [] | _ => [rev cur] end
                       | l :: r => (rev cur ++ l) :: r
                       end.
Proof.
  induction s as [|a s IH]; intros cur; cbn [lines_wt_aux lines']; [reflexivity|].
  destruct (a =? 10) eqn:E.
  - apply N.eqb_eq in E. subst a. rewrite (IH []). cbn [rev].
    destruct (lines' s); reflexivity.
  - rewrite IH. destruct (lines' s) as [|l r].
    + reflexivity.
    + cbn [rev]. rewrite <- app_assoc. reflexivity.
Qed.

Lemma lines_wt_eq : forall s, lines_wt s = lines' s.
Proof.
  intros s. unfold lines_wt. rewrite lines_wt_aux_spec. destruct (lines' s); reflexivity.
Qed.

Lemma no_nl_cons : forall c l, no_nl (c :: l) = true -> (c =? 10) = false /\ no_nl l = true.
Proof.
  intros c l H. unfold no_nl in *. cbn [forallb] in H. apply andb_true_iff in H as [H1 H2].
  split; [|exact H2]. destruct (c =? 10); [discriminate|reflexivity].
Qed.

Lemma lines'_nonl : forall l, no_nl l = true -> l <> [] -> lines' l = [l].
Proof.
  induction l as [|a l IH]; intros Hn Hne; [congruence|].
  apply no_nl_cons in Hn as [Ha Hl]. cbn [lines']. rewrite Ha.
  destruct l as [|b l]; [reflexivity|]. rewrite IH; [reflexivity|exact Hl|discriminate].
Qed.

Lemma lines'_line : forall l s, no_nl l = true -> lines' (l ++ 10 :: s) = (l ++ [10]) :: lines' s.
Proof.
  induction l as [|a l IH]; intros s Hn.
  - reflexivity.
  - apply no_nl_cons in Hn as [Ha Hl]. cbn [app lines']. rewrite Ha, (IH s Hl). reflexivity.
Qed.

Lemma lines'_nonempty : forall s, s <> [] -> lines' s <> [].
Proof.
  intros [|c s] H; [congruence|]. cbn [lines']. destruct (c =? 10); [discriminate|].
  destruct (lines' s); discriminate.
Qed.

Lemma lines'_app_nl : forall a b, lines' (a ++ 10 :: b) = lines' (a ++ [10]) ++ lines' b.
Proof.
  induction a as [|c a IH]; intros b.
  - reflexivity.
  - cbn [app lines']. destruct (c =? 10).
    + rewrite IH. reflexivity.
    + rewrite IH. destruct (lines' (a ++ [10])) as [|l r] eqn:E.
      * exfalso. revert E. apply lines'_nonempty. destruct a; discriminate.
      * reflexivity.
Qed.

Lemma concat_lines' : forall s, concat (lines' s) = s.
Proof.
  induction s as [|c s IH]; [reflexivity|]. cbn [lines'].
  destruct (c =? 10) eqn:E.
  - apply N.eqb_eq in E. subst c. cbn [concat app]. rewrite IH. reflexivity.
  - destruct (lines' s) as [|l r]; cbn [concat app] in *; rewrite <- IH; reflexivity.
Qed.

Lemma concat_lines_wt : forall s, concat (lines_wt s) = s.
Proof. intros s. rewrite lines_wt_eq. apply concat_lines'. Qed.

(* the shape of a list of lines: all terminated, except possibly the last *)
Inductive wf_lines : list str -> Prop :=
| wf_nil : wf_lines []
| wf_last : forall l, no_nl l = true -> l <> [] -> wf_lines [l]
| wf_cons : forall l r, no_nl l = true -> wf_lines r -> wf_lines ((l ++ [10]) :: r).

Lemma lines'_wf : forall s, wf_lines (lines' s).
Proof.
  induction s as [|c s IH]; [constructor|]. cbn [lines'].
  destruct (c =? 10) eqn:E.
  - apply N.eqb_eq in E. subst c. apply (wf_cons [] _); [reflexivity|exact IH].
  - assert (Hc : no_nl [c] = true) by (unfold no_nl; cbn [forallb]; rewrite E; reflexivity).
    destruct (lines' s) as [|l r].
    + apply wf_last; [exact Hc|discriminate].
    + inversion IH as [|l0 Hn Hne|l0 r0 Hn Hr]; subst.
      * apply wf_last; [|discriminate].
        change (c :: l) with ([c] ++ l). rewrite no_nl_app, Hc, Hn. reflexivity.
      * change (c :: l0 ++ [10]) with ((c :: l0) ++ [10]). apply wf_cons; [|exact Hr].
        change (c :: l0) with ([c] ++ l0). rewrite no_nl_app, Hc, Hn. reflexivity.
Qed.

Lemma lines'_of_wf : forall ls, wf_lines ls -> lines' (concat ls) = ls.
Proof.
  induction 1 as [|l Hn Hne|l r Hn Hr IH].
  - reflexivity.
  - cbn [concat]. rewrite app_nil_r. apply lines'_nonl; assumption.
  - cbn [concat]. rewrite <- app_assoc. cbn [app]. rewrite lines'_line by exact Hn.
    rewrite IH. reflexivity.
Qed.

Lemma wf_lines_app_inv : forall m d, wf_lines (m ++ d) -> wf_lines m /\ wf_lines d.
Proof.
  induction m as [|x m IH]; intros d H.
  - split; [constructor|exact H].
  - cbn [app] in H. inversion H as [|l Hn Hne E|l r Hn Hr]; subst.
    + destruct m; [|discriminate]. destruct d; [|discriminate].
      split; [apply wf_last; assumption|constructor].
    + destruct (IH d Hr) as [Hm Hd]. split; [apply wf_cons; assumption|exact Hd].
Qed.

(* ---------------------------------------------------------------- the separator split *)

Definition notsep (ln : str) : bool := negb (is_sep_line ln).

Lemma split_lines_spec : forall ls m d,
  split_lines ls = (m, d) ->
  ls = m ++ d /\ forallb (fun ln => negb (is_sep_line ln)) m = true
  /\ (d = [] \/ exists ln rest, d = ln :: rest /\ is_sep_line ln = true).
Proof.
  induction ls as [|l r IH]; intros m d H; cbn [split_lines] in H.
  - injection H as <- <-. repeat split. left. reflexivity.
  - destruct (is_sep_line l) eqn:E.
    + injection H as <- <-. repeat split. right. exists l, r. split; [reflexivity|exact E].
    + destruct (split_lines r) as [m' d'] eqn:Er. injection H as <- <-.
      destruct (IH m' d' eq_refl) as [H1 [H2 H3]]. split; [|split].
      * cbn [app]. rewrite <- H1. reflexivity.
      * cbn [forallb]. rewrite E, H2. reflexivity.
      * exact H3.
Qed.

Lemma split_lines_app_sep : forall a l r,
  forallb (fun ln => negb (is_sep_line ln)) a = true -> is_sep_line l = true ->
  split_lines (a ++ l :: r) = (a, l :: r).
Proof.
  induction a as [|x a IH]; intros l r Ha Hl.
  - cbn [app split_lines]. rewrite Hl. reflexivity.
  - cbn [forallb] in Ha. apply andb_true_iff in Ha as [Hx Ha].
    cbn [app split_lines]. destruct (is_sep_line x); [discriminate|].
    rewrite (IH l r Ha Hl). reflexivity.
Qed.

(* ---------------------------------------------------------------- split_once *)

Lemma split_once_app : forall sep a b,
  forallb (fun c => negb (c =? sep)) a = true -> split_once sep (a ++ sep :: b) = Some (a, b).
Proof.
  intros sep. induction a as [|c a IH]; intros b H.
  - cbn [app split_once]. rewrite N.eqb_refl. reflexivity.
  - cbn [forallb] in H. apply andb_true_iff in H as [Hc Ha].
    cbn [app split_once]. destruct (c =? sep); [discriminate|]. rewrite (IH b Ha). reflexivity.
Qed.

(* ---------------------------------------------------------------- UTF-8 validity *)

Lemma utf8_valid_app_n : forall n a b,
  (length a <= n)%nat -> utf8_valid a = true -> utf8_valid (a ++ b) = utf8_valid b.
Proof.
  induction n as [|n IH]; intros a b Hl Hv.
  - destruct a; [reflexivity|cbn [length] in Hl; lia].
  - destruct a as [|b0 r0]; [reflexivity|].
    cbn [length] in Hl. cbn [app]. cbn [utf8_valid] in Hv |- *.
    destruct (b0 <? 128).
    { apply IH; [lia|exact Hv]. }
    destruct r0 as [|b1 r1]; [discriminate|]. cbn [length] in Hl. cbn [app].
    destruct ((194 <=? b0) && (b0 <=? 223)).
    { apply andb_true_iff in Hv as [H1 H2]. rewrite H1. cbn [andb]. apply IH; [lia|exact H2]. }
    destruct r1 as [|b2 r2]; [discriminate|]. cbn [length] in Hl. cbn [app].
    destruct (b0 =? 224).
    { apply andb_true_iff in Hv as [H1 H2]. rewrite H1. cbn [andb]. apply IH; [lia|exact H2]. }
    destruct (((225 <=? b0) && (b0 <=? 236)) || (b0 =? 238) || (b0 =? 239)).
    { apply andb_true_iff in Hv as [H1 H2]. rewrite H1. cbn [andb]. apply IH; [lia|exact H2]. }
    destruct (b0 =? 237).
    { apply andb_true_iff in Hv as [H1 H2]. rewrite H1. cbn [andb]. apply IH; [lia|exact H2]. }
    destruct r2 as [|b3 r3]; [discriminate|]. cbn [length] in Hl. cbn [app].
    destruct (b0 =? 240).
    { apply andb_true_iff in Hv as [H1 H2]. rewrite H1. cbn [andb]. apply IH; [lia|exact H2]. }
    destruct ((241 <=? b0) && (b0 <=? 243)).
    { apply andb_true_iff in Hv as [H1 H2]. rewrite H1. cbn [andb]. apply IH; [lia|exact H2]. }
    destruct (b0 =? 244).
    { apply andb_true_iff in Hv as [H1 H2]. rewrite H1. cbn [andb]. apply IH; [lia|exact H2]. }
    discriminate.
Qed.

Lemma utf8_valid_app : forall a b,
  utf8_valid a = true -> utf8_valid b = true -> utf8_valid (a ++ b) = true.
Proof.
  intros a b Ha Hb. rewrite (utf8_valid_app_n (length a)); [exact Hb|lia|exact Ha].
Qed.

(* ---------------------------------------------------------------- Unicode trim *)

Lemma utrim_start_fuel_len : forall f s, (length (utrim_start_fuel f s) <= length s)%nat.
Proof.
  induction f as [|f IH]; intros s; cbn [utrim_start_fuel]; [lia|].
  destruct (uws_prefix_len s) as [|k]; [lia|].
  pose proof (IH (skipn (S k) s)) as H. rewrite skipn_length in H. lia.
Qed.

Lemma utrim_end_fuel_len : forall f s, (length (utrim_end_fuel f s) <= length s)%nat.
Proof.
  induction f as [|f IH]; intros s; cbn [utrim_end_fuel]; [lia|].
  destruct (uws_suffix_len s) as [|k]; [lia|].
  pose proof (IH (firstn (length s - S k) s)) as H. rewrite firstn_length in H. lia.
Qed.

Lemma utrim_start_fix : forall s, uws_prefix_len s = O -> utrim_start s = s.
Proof.
  intros s H. unfold utrim_start. destruct (length s); cbn [utrim_start_fuel]; [reflexivity|].
  rewrite H. reflexivity.
Qed.

Lemma utrim_end_fix : forall s, uws_suffix_len s = O -> utrim_end s = s.
Proof.
  intros s H. unfold utrim_end. destruct (length s); cbn [utrim_end_fuel]; [reflexivity|].
  rewrite H. reflexivity.
Qed.

Lemma utrim_start_shrinks : forall s,
  uws_prefix_len s <> O -> s <> [] -> (length (utrim_start s) < length s)%nat.
Proof.
  intros s H Hne. unfold utrim_start. destruct s as [|c s]; [congruence|].
  cbn [length utrim_start_fuel]. destruct (uws_prefix_len (c :: s)) as [|k]; [congruence|].
  pose proof (utrim_start_fuel_len (length s) (skipn (S k) (c :: s))) as H1.
  rewrite skipn_length in H1. cbn [length] in H1. lia.
Qed.

Lemma utrim_end_shrinks : forall s,
  uws_suffix_len s <> O -> s <> [] -> (length (utrim_end s) < length s)%nat.
Proof.
  intros s H Hne. unfold utrim_end. destruct s as [|c s]; [congruence|].
  cbn [length utrim_end_fuel]. destruct (uws_suffix_len (c :: s)) as [|k]; [congruence|].
  pose proof (utrim_end_fuel_len (length s) (firstn (S (length s) - S k) (c :: s))) as H1.
  rewrite firstn_length in H1. cbn [length] in H1. lia.
Qed.

Lemma uws_prefix_len_nil : uws_prefix_len [] = O.
Proof. reflexivity. Qed.
Lemma uws_suffix_len_nil : uws_suffix_len [] = O.
Proof. reflexivity. Qed.

Lemma utrim_end_fix_inv : forall s, utrim_end s = s -> uws_suffix_len s = O.
Proof.
  intros s H. destruct s as [|c s]; [reflexivity|].
  destruct (uws_suffix_len (c :: s)) eqn:E; [reflexivity|].
  assert (Hlt : (length (utrim_end (c :: s)) < length (c :: s))%nat).
  { apply utrim_end_shrinks; [rewrite E|]; discriminate. }
  rewrite H in Hlt. lia.
Qed.

Lemma utrim_fix_inv : forall s, utrim s = s -> uws_prefix_len s = O /\ uws_suffix_len s = O.
Proof.
  intros s H. unfold utrim in H.
  assert (Hp : uws_prefix_len s = O).
  { destruct s as [|c s]; [reflexivity|].
    destruct (uws_prefix_len (c :: s)) eqn:E; [reflexivity|].
    assert (Hlt : (length (utrim_start (c :: s)) < length (c :: s))%nat).
    { apply utrim_start_shrinks; [rewrite E|]; discriminate. }
    pose proof (utrim_end_fuel_len (length (utrim_start (c :: s))) (utrim_start (c :: s))) as H1.
    fold (utrim_end (utrim_start (c :: s))) in H1. rewrite H in H1. lia. }
  split; [exact Hp|]. rewrite (utrim_start_fix _ Hp) in H. apply utrim_end_fix_inv. exact H.
Qed.

(* a valid UTF-8 string never stops inside one of the white-space sequences *)
Lemma uws_prefix_len_app : forall s x,
  utf8_valid s = true -> s <> [] -> uws_prefix_len (s ++ x) = uws_prefix_len s.
Proof.
  intros s x Hv Hne. destruct s as [|a [|b [|c r]]]; [congruence| | |].
  - cbn [utf8_valid] in Hv. destruct (a <? 128) eqn:Ea; [|discriminate].
    assert (E1 : (194 =? a) = false) by lia. assert (E2 : (225 =? a) = false) by lia.
    assert (E3 : (226 =? a) = false) by lia. assert (E4 : (227 =? a) = false) by lia.
    unfold uws_prefix_len, uws_seqs. cbn [app find starts_with].
    rewrite E1, E2, E3, E4. cbn [andb]. reflexivity.
  - cbn [utf8_valid] in Hv.
    assert (E2 : (225 =? a) = false).
    { destruct (a <? 128) eqn:Ea; [lia|]. destruct ((194 <=? a) && (a <=? 223)) eqn:Eb; [lia|discriminate]. }
    assert (E3 : (226 =? a) = false).
    { destruct (a <? 128) eqn:Ea; [lia|]. destruct ((194 <=? a) && (a <=? 223)) eqn:Eb; [lia|discriminate]. }
    assert (E4 : (227 =? a) = false).
    { destruct (a <? 128) eqn:Ea; [lia|]. destruct ((194 <=? a) && (a <=? 223)) eqn:Eb; [lia|discriminate]. }
    unfold uws_prefix_len, uws_seqs. cbn [app find starts_with].
    rewrite E2, E3, E4. cbn [andb]. reflexivity.
  - unfold uws_prefix_len, uws_seqs. cbn [app find starts_with]. reflexivity.
Qed.

Lemma uws_prefix_head_not_ws : forall c t, uws_prefix_len (c :: t) = O -> is_ws c = false.
Proof.
  intros c t H. destruct (is_ws c) eqn:E; [|reflexivity]. exfalso.
  unfold is_ws, is_ascii_whitespace in E.
  repeat (apply orb_true_iff in E as [E|E]); apply N.eqb_eq in E; subst c; discriminate H.
Qed.

(* the reversed view of uws_suffix_len *)
Definition rsl (r : str) : nat :=
  match find (fun w => starts_with (rev w) r) uws_seqs with Some w => length w | None => O end.

Lemma uws_suffix_len_rsl : forall s, uws_suffix_len s = rsl (rev s).
Proof. reflexivity. Qed.

Lemma rsl_nl_ext : forall x r a, rsl ((x :: r) ++ 10 :: a) = rsl (x :: r).
Proof.
  intros x r a. unfold rsl, uws_seqs. destruct r as [|y [|z r]]; cbn; reflexivity.
Qed.

Lemma uws_suffix_len_after_nl : forall a l,
  l <> [] -> uws_suffix_len (a ++ 10 :: l) = uws_suffix_len l.
Proof.
  intros a l Hne. rewrite !uws_suffix_len_rsl. rewrite rev_app_distr. cbn [rev].
  rewrite <- app_assoc. cbn [app].
  destruct (rev l) as [|x r] eqn:E.
  - exfalso. apply Hne. rewrite <- (rev_involutive l), E. reflexivity.
  - apply rsl_nl_ext.
Qed.

Lemma uws_suffix_len_snoc_sp : forall s, uws_suffix_len (s ++ [32]) = 1%nat.
Proof. intros s. rewrite uws_suffix_len_rsl, rev_app_distr. reflexivity. Qed.

Lemma uws_suffix_len_snoc_nl : forall s, uws_suffix_len (s ++ [10]) = 1%nat.
Proof. intros s. rewrite uws_suffix_len_rsl, rev_app_distr. reflexivity. Qed.

Lemma utrim_end_snoc : forall s c,
  uws_suffix_len (s ++ [c]) = 1%nat -> utrim_end (s ++ [c]) = utrim_end s.
Proof.
  intros s c H. unfold utrim_end. rewrite app_length. cbn [length]. rewrite Nat.add_1_r.
  cbn [utrim_end_fuel]. rewrite H.
  replace (firstn (length (s ++ [c]) - 1) (s ++ [c])) with s; [reflexivity|].
  rewrite app_length. cbn [length].
  replace (length s + 1 - 1)%nat with (length s + 0)%nat by lia.
  rewrite firstn_app_2. cbn [firstn]. rewrite app_nil_r. reflexivity.
Qed.

(* trimming name ++ " " back to name *)
Lemma utrim_name_sp : forall name,
  utrim name = name -> utf8_valid name = true -> utrim (name ++ [32]) = name.
Proof.
  intros name Ht Hv. destruct (utrim_fix_inv _ Ht) as [Hp Hs].
  destruct name as [|c t]; [reflexivity|].
  unfold utrim. rewrite utrim_start_fix.
  - rewrite utrim_end_snoc by apply uws_suffix_len_snoc_sp. apply utrim_end_fix. exact Hs.
  - rewrite uws_prefix_len_app; [exact Hp|exact Hv|discriminate].
Qed.

(* ---------------------------------------------------------------- trimming one line *)

Lemma trim_by_line : forall s,
  s <> [] -> head_fails is_ws s -> last_fails is_ws s -> trim_by is_ws (s ++ [10]) = s.
Proof.
  intros s Hne Hh Hl. unfold trim_by, trim_start_by.
  destruct s as [|c t]; [congruence|]. cbn [head_fails] in Hh.
  cbn [app drop_while]. rewrite Hh. unfold trim_end_by.
  change (c :: t ++ [10]) with ((c :: t) ++ [10]). rewrite rev_app_distr.
  cbn [rev app drop_while]. change (is_ws 10) with true. cbv iota.
  unfold last_fails in Hl. cbn [rev] in Hl. rewrite (drop_while_id _ _ Hl).
  change (rev t ++ [c]) with (rev (c :: t)). apply rev_involutive.
Qed.

Lemma trim_by_line_fix : forall s,
  s <> [] -> trim_by is_ws s = s -> trim_by is_ws (s ++ [10]) = s.
Proof.
  intros s Hne H. apply trim_by_line; [exact Hne| |].
  - apply trim_by_fix_head. exact H.
  - apply trim_by_fix_last. exact H.
Qed.

Lemma trim_by_nl : trim_by is_ws [10] = [].
Proof. reflexivity. Qed.

(* ---------------------------------------------------------------- name <email> *)

Lemma no_angle_no60 : forall s, no_angle s = true -> forallb (fun c => negb (c =? 60)) s = true.
Proof.
  intros s. unfold no_angle. apply forallb_weaken. intros c H.
  destruct (c =? 60); [discriminate|reflexivity].
Qed.

Lemma no_angle_no62 : forall s, no_angle s = true -> forallb (fun c => negb (c =? 62)) s = true.
Proof.
  intros s. unfold no_angle. apply forallb_weaken. intros c H.
  destruct (c =? 62); [rewrite orb_true_r in H; discriminate|reflexivity].
Qed.

Lemma no_angle_existsb : forall s,
  no_angle s = true -> existsb (fun c => (c =? 60) || (c =? 62)) s = false.
Proof. intros s H. apply forallb_neg_existsb. exact H. Qed.

Lemma parse_ne_core : forall name email,
  no_angle name = true -> no_angle email = true ->
  utrim (name ++ [32]) = name -> utrim email = email ->
  parse_name_email (name ++ [32; 60] ++ email ++ [62]) = Some (name, email).
Proof.
  intros name email Hn He Htn Hte. unfold parse_name_email.
  replace (name ++ [32; 60] ++ email ++ [62]) with ((name ++ [32]) ++ 60 :: email ++ [62])
    by (rewrite <- app_assoc; reflexivity).
  rewrite split_once_app.
  2:{ rewrite forallb_app, (no_angle_no60 _ Hn). reflexivity. }
  rewrite split_once_app by (apply no_angle_no62; exact He).
  cbv zeta. rewrite Htn, Hte.
  rewrite (no_angle_existsb _ Hn), (no_angle_existsb _ He). reflexivity.
Qed.

Lemma parse_ne_empty_name : forall email,
  no_angle email = true -> utrim email = email ->
  parse_name_email (60 :: email ++ [62]) = Some ([], email).
Proof.
  intros email He Hte. unfold parse_name_email.
  change (split_once 60 (60 :: email ++ [62])) with (Some (@nil N, email ++ [62])).
  cbv iota beta. rewrite split_once_app by (apply no_angle_no62; exact He).
  cbv zeta. change (utrim []) with (@nil N). rewrite Hte.
  rewrite (no_angle_existsb _ He). reflexivity.
Qed.

Definition from_value (name email : str) : str := name ++ [32; 60] ++ email ++ [62].

Lemma from_value_parse : forall name email,
  good_ident name email ->
  utf8_valid (drop_while is_ws (32 :: from_value name email)) = true
  /\ parse_name_email (drop_while is_ws (32 :: from_value name email)) = Some (name, email).
Proof.
  intros name email [Hnn [Hne [Han [Hae [Htn [Hte [Hvn Hve]]]]]]].
  unfold from_value. cbn [drop_while]. change (is_ws 32) with true. cbv iota.
  destruct name as [|c t].
  - cbn [app drop_while]. change (is_ws 32) with true. change (is_ws 60) with false. cbv iota.
    split.
    + change (60 :: email ++ [62]) with ([60] ++ email ++ [62]).
      apply utf8_valid_app; [reflexivity|]. apply utf8_valid_app; [exact Hve|reflexivity].
    + apply parse_ne_empty_name; assumption.
  - destruct (utrim_fix_inv _ Htn) as [Hp _].
    pose proof (uws_prefix_head_not_ws _ _ Hp) as Hc.
    set (X := [32; 60] ++ email ++ [62]).
    cbn [app drop_while]. rewrite Hc.
    change (c :: t ++ X) with ((c :: t) ++ X). subst X.
    split.
    + apply utf8_valid_app; [exact Hvn|]. apply utf8_valid_app; [reflexivity|].
      apply utf8_valid_app; [exact Hve|reflexivity].
    + apply parse_ne_core; try assumption. apply utrim_name_sp; assumption.
Qed.

(* ---------------------------------------------------------------- header_step *)

Definition b_From_colon : str := [70; 114; 111; 109; 58].

Lemma header_step_from : forall rest h ne,
  utf8_valid (drop_while is_ws rest) = true ->
  parse_name_email (drop_while is_ws rest) = Some ne ->
  header_step (b_From_colon ++ rest) h
  = HTaken (mkH (h_patch h) (Some ne) (h_date h) (h_subject h) (h_msgid h)).
Proof.
  intros rest h ne Hv Hp. unfold header_step.
  change (split_once 58 (b_From_colon ++ rest)) with (Some ([70; 114; 111; 109], rest)).
  cbv iota beta zeta.
  change (eq_ci [70; 114; 111; 109] b_patch) with false.
  change (eq_ci [70; 114; 111; 109] b_from) with true.
  cbn [andb orb]. rewrite Hv, Hp. reflexivity.
Qed.

Lemma header_step_none_indep : forall line h h',
  header_step line h = HNone -> header_step line h' = HNone.
Proof.
  intros line h h'. unfold header_step.
  destruct (split_once 58 line) as [[hd after]|]; [|reflexivity].
  cbv zeta.
  destruct (eq_ci hd b_patch && negb match drop_while is_ws after with [] => true | _ :: _ => false end).
  { destruct (utf8_valid (drop_while is_ws after)); discriminate. }
  destruct (eq_ci hd b_from || eq_ci hd b_author).
  { destruct (utf8_valid (drop_while is_ws after)); [|discriminate].
    destruct (parse_name_email (drop_while is_ws after)); discriminate. }
  destruct (eq_ci hd b_date); [discriminate|].
  destruct (eq_ci hd b_subject); [discriminate|].
  destruct (eq_ci hd b_message_id); [discriminate|].
  reflexivity.
Qed.

Lemma header_like_none : forall line h, header_like line = false -> header_step line h = HNone.
Proof.
  intros line h H. unfold header_like in H. apply (header_step_none_indep line no_headers).
  destruct (header_step line no_headers); [discriminate|discriminate|reflexivity].
Qed.

(* ---------------------------------------------------------------- pm_loop, one line *)

Lemma pm_blank : forall raw rest h d,
  trim_by is_ws raw = [] -> pm_loop (raw :: rest) h d = pm_loop rest h d.
Proof. intros raw rest h d H. cbn [pm_loop]. rewrite H. reflexivity. Qed.

Lemma pm_taken : forall raw line rest h h' d,
  trim_by is_ws raw = line -> line <> [] -> header_step line h = HTaken h' ->
  pm_loop (raw :: rest) h d = pm_loop rest h' d.
Proof.
  intros raw line rest h h' d H Hne Hs. cbn [pm_loop]. rewrite H.
  destruct line as [|c t]; [congruence|]. rewrite Hs. reflexivity.
Qed.

Lemma pm_subject : forall raw line rest h d,
  trim_by is_ws raw = line -> line <> [] -> header_step line h = HNone ->
  h_subject h = None -> is_git_show_commit line = false -> utf8_valid line = true ->
  pm_loop (raw :: rest) h d
  = pm_loop rest (mkH (h_patch h) (h_author h) (h_date h) (Some line) (h_msgid h)) d.
Proof.
  intros raw line rest h d H Hne Hs Hsub Hg Hv. cbn [pm_loop]. rewrite H.
  destruct line as [|c t]; [congruence|]. rewrite Hs, Hsub, Hg, Hv. reflexivity.
Qed.

Lemma pm_body : forall raw line rest h s,
  trim_by is_ws raw = line -> line <> [] -> header_step line h = HNone ->
  h_subject h = Some s ->
  pm_loop (raw :: rest) h false = PMOk h (line ++ [10] ++ concat rest).
Proof.
  intros raw line rest h s H Hne Hs Hsub. cbn [pm_loop]. rewrite H.
  destruct line as [|c t]; [congruence|]. rewrite Hs, Hsub.
  unfold strip_dedent. cbn [andb]. rewrite map_id. reflexivity.
Qed.

