(* Helper for UndoHaltProofs: the set_head option of a transaction is unchanged by every
   transaction closure, also when the closure HALTS (UndoStepOpts covers TOk only). *)
From Coq Require Import List NArith Bool Arith Lia.
From StgV Require Import Model.StackSpec Proofs.PickBasics.
From StgV Require Export Proofs.UndoStepOpts.
Import ListNotations.
Local Open Scope nat_scope.

Definition sok3 (b : bool) (r : tres) : Prop :=
  match r with TOk t | THalt t _ => sh t = b | _ => True end.

Definition skeeps3 (f : txn -> tres) : Prop := forall b t, sh t = b -> sok3 b (f t).

Lemma sok3_tbind : forall b r f, sok3 b r -> skeeps3 f -> sok3 b (tbind r f).
Proof. intros b r f H K. destruct r; cbn [tbind]; try exact H. now apply K. Qed.

Lemma skeeps3_ok : skeeps3 TOk.
Proof. intros b t E. exact E. Qed.

Ltac sfin3 E :=
  cbn [sok3]; autorewrite with tsh;
  first [ exact I | exact E ].

(* ---- push ---- *)

Lemma push_patch_skeeps3 : forall n am, skeeps3 (push_patch n am).
Proof.
  intros n am b t E. unfold push_patch.
  destruct (t_patch t n) as [pc|]; [|exact I].
  destruct (t_top t) as [np|]; [|exact I].
  destruct (first_parent (t_objs t) pc) as [op|]; [|exact I].
  unfold recommit, put. cbv beta zeta.
  repeat sbrk; sfin3 E.
Qed.

Lemma push_list_skeeps3 : forall ns merged, skeeps3 (push_list ns merged).
Proof.
  induction ns as [|n ns IH]; intros merged b t E; cbn [push_list]; [exact E|].
  apply sok3_tbind; [now apply push_patch_skeeps3|apply IH].
Qed.

Lemma push_patches_skeeps3 : forall ns cm, skeeps3 (push_patches ns cm).
Proof.
  intros ns cm b t E. unfold push_patches. destruct cm.
  - destruct (check_merged_loop _ _ _ _) as [[m c] id]. apply push_list_skeeps3.
    autorewrite with tsh. exact E.
  - apply push_list_skeeps3. autorewrite with tsh. exact E.
Qed.

Lemma push_tree_skeeps3 : forall n, skeeps3 (push_tree n).
Proof.
  intros n b t E. unfold push_tree.
  destruct (t_patch t n) as [pc|]; [|exact I].
  destruct (t_top t) as [np|]; [|exact I].
  destruct (first_parent (t_objs t) pc) as [op|]; [|exact I].
  unfold recommit, put. cbv beta zeta.
  repeat sbrk; sfin3 E.
Qed.

Lemma push_tree_list_skeeps3 : forall ns, skeeps3 (push_tree_list ns).
Proof.
  induction ns as [|n ns IH]; intros b t E; cbn [push_tree_list]; [exact E|].
  apply sok3_tbind; [now apply push_tree_skeeps3|apply IH].
Qed.

(* ---- reorder and friends ---- *)

Lemma reorder_patches_skeeps3 : forall a u h, skeeps3 (reorder_patches a u h).
Proof.
  intros a u h b t E. unfold reorder_patches.
  apply sok3_tbind.
  - destruct a as [applied|]; [|exact E].
    destruct (pop_patches _ t) as [t1 inc] eqn:PP. apply sh_pop_patches in PP.
    apply sok3_tbind.
    + apply push_patches_skeeps3. now rewrite PP.
    + intros b2 t2 E2. destruct (list_name_eqb _ _); [exact E2|exact I].
  - intros b3 t3 E3. destruct u, h; sfin3 E3.
Qed.

Lemma commit_patches_skeeps3 : forall tc, skeeps3 (commit_patches tc).
Proof.
  intros tc b t E. unfold commit_patches. apply sok3_tbind.
  - destruct (Nat.ltb _ _); [|exact E].
    destruct (pop_patches _ t) as [t1 inc] eqn:PP. apply sh_pop_patches in PP.
    apply sok3_tbind; [|apply skeeps3_ok].
    apply push_patches_skeeps3. now rewrite PP.
  - intros b2 t2 E2. destruct (hd_error (rev tc)); [|exact I].
    destruct (t_patch t2 n); [|exact I].
    destruct (Nat.ltb _ _); [exact I|].
    apply push_patches_skeeps3. autorewrite with tsh. exact E2.
Qed.

Lemma uncommit_patches_skeeps3 : forall ps, skeeps3 (uncommit_patches ps).
Proof. intros ps b t E. unfold uncommit_patches. sfin3 E. Qed.

Lemma hide_patches_skeeps3 : forall th, skeeps3 (hide_patches th).
Proof. intros th b t E. unfold hide_patches. now apply reorder_patches_skeeps3. Qed.

Lemma unhide_patches_skeeps3 : forall tu, skeeps3 (unhide_patches tu).
Proof. intros tu b t E. unfold unhide_patches. now apply reorder_patches_skeeps3. Qed.

Lemma rename_patch_skeeps3 : forall old new, skeeps3 (rename_patch old new).
Proof.
  intros old new b t E. unfold rename_patch.
  repeat sbrk; sfin3 E.
Qed.

Lemma new_applied_skeeps3 : forall n o, skeeps3 (new_applied n o).
Proof. intros n o b t E. unfold new_applied. repeat sbrk; sfin3 E. Qed.

Lemma new_unapplied_skeeps3 : forall n o pos, skeeps3 (new_unapplied n o pos).
Proof. intros n o pos b t E. unfold new_unapplied. repeat sbrk; sfin3 E. Qed.

Lemma update_patch_skeeps3 : forall n o, skeeps3 (update_patch n o).
Proof. intros n o b t E. unfold update_patch. repeat sbrk; sfin3 E. Qed.

Lemma repair_appliedness_skeeps3 : forall a u h, skeeps3 (repair_appliedness a u h).
Proof. intros a u h b t E. unfold repair_appliedness. repeat sbrk; sfin3 E. Qed.

Lemma reset_to_state_skeeps3 : forall s, skeeps3 (reset_to_state s).
Proof.
  intros s b t E. unfold reset_to_state.
  match goal with |- sok3 _ (match ?x with _ => _ end) => destruct x end; sfin3 E.
Qed.

Lemma reset_to_state_partially_skeeps3 : forall s only, skeeps3 (reset_to_state_partially s only).
Proof.
  intros s only b t E. unfold reset_to_state_partially.
  destruct (pop_patches _ t) as [t1 inc1] eqn:PP. apply sh_pop_patches in PP.
  destruct (delete_patches _ t1) as [t2 inc2] eqn:DP. apply sh_delete_patches in DP.
  apply push_patches_skeeps3.
  rewrite sh_fold_left.
  - rewrite DP, PP. exact E.
  - intros t0 n. cbv zeta.
    repeat match goal with
           | |- context [match ?x with _ => _ end] => destruct x eqn:?
           end; autorewrite with tsh; reflexivity.
Qed.

Lemma fold_tbind_skeeps3 : forall (A : Type) (g : A -> txn -> tres) l b r,
  (forall a, skeeps3 (g a)) -> sok3 b r ->
  sok3 b (fold_left (fun r c => tbind r (g c)) l r).
Proof.
  intros A g l. induction l as [|a l IH]; intros b r K H; cbn [fold_left]; [exact H|].
  apply IH; [exact K|]. apply sok3_tbind; [exact H|apply K].
Qed.

(* ---- closures of the commands ---- *)

Lemma delete_push_skeeps3 : forall g,
  skeeps3 (fun t => let '(t1, to_push) := delete_patches g t in push_patches to_push false t1).
Proof.
  intros g b t E. destruct (delete_patches g t) as [t1 tp] eqn:DP.
  apply sh_delete_patches in DP. apply push_patches_skeeps3. now rewrite DP.
Qed.

Lemma edit_body_skeeps3 : forall pn o,
  skeeps3 (fun t =>
           let above := after_name pn (t_applied t) in
           let '(t1, extra) := pop_patches (fun n => mem n above) t in
           match extra with
           | _ :: _ => TPanic
           | [] => tbind (update_patch pn o t1) (push_patches above false)
           end).
Proof.
  intros pn o b t E. cbv zeta.
  destruct (pop_patches _ t) as [t1 extra] eqn:PP. apply sh_pop_patches in PP.
  destruct extra; [|exact I].
  apply sok3_tbind; [|apply push_patches_skeeps3]. apply update_patch_skeeps3. now rewrite PP.
Qed.

Lemma refresh_commit_sh3 : forall t pc tr t2 newc,
  refresh_commit t pc tr = (t2, newc) -> sh t2 = sh t.
Proof.
  intros t pc tr t2 newc H. unfold refresh_commit in H. destruct (tree_eqb _ _).
  - inversion H; subst. reflexivity.
  - unfold put in H. inversion H; subst. reflexivity.
Qed.

Lemma refresh_absorb_skeeps3 : forall pn tmpname, skeeps3 (refresh_absorb pn tmpname).
Proof.
  intros pn tmpname b t E. unfold refresh_absorb. destruct (mem pn (t_applied t)).
  - cbv zeta. apply sok3_tbind.
    + destruct (Nat.ltb _ _); [|exact E].
      destruct (pop_patches _ t) as [t1 extra] eqn:PP. apply sh_pop_patches in PP.
      destruct extra; [|exact I]. apply push_patches_skeeps3. now rewrite PP.
    + intros b' t1 E1.
      destruct (t_patch t1 pn) as [pc|]; [|exact I].
      destruct (t_patch t1 tmpname) as [tc|]; [|exact I].
      destruct (last_error _) as [top|]; [|exact I]. destruct (negb _); [exact I|].
      destruct (refresh_commit t1 pc _) as [t2 newc] eqn:RC.
      apply refresh_commit_sh3 in RC.
      destruct (delete_patches _ t2) as [t3 inc] eqn:DP. apply sh_delete_patches in DP.
      apply sok3_tbind; [|apply push_patches_skeeps3].
      destruct newc; [apply update_patch_skeeps3|cbn [sok3]]; congruence.
  - destruct (pop_patches _ t) as [t1 extra] eqn:PP. apply sh_pop_patches in PP.
    destruct extra; [|exact I].
    destruct (t_patch t1 pn) as [pc|]; [|exact I].
    destruct (t_patch t1 tmpname) as [tc|]; [|exact I].
    assert (E1 : sh t1 = b) by congruence.
    destruct (first_parent _ _) as [tpar|]; [|exact I].
    destruct (apply3way _ _ _ _) as [tree'|]; [|exact E1].
    destruct (refresh_commit t1 pc tree') as [t2 newc] eqn:RC.
    apply refresh_commit_sh3 in RC.
    apply sok3_tbind.
    + destruct newc; [apply update_patch_skeeps3|cbn [sok3]]; congruence.
    + intros b' t3 E3. destruct (delete_patches _ t3) as [t4 inc] eqn:DP.
      apply sh_delete_patches in DP. cbn [fst sok3]. congruence.
Qed.

Lemma try_squash_sh3 : forall t ps meta msg t1 o,
  try_squash t ps meta msg = Some (t1, o) -> sh t1 = sh t.
Proof.
  intros t ps meta msg t1 o H. unfold try_squash in H.
  destruct ps as [|b rest]; [discriminate|].
  destruct (t_patch t b) as [bc|]; [|discriminate].
  destruct (squash_tree (t_objs t) t rest (tree_of (t_objs t) bc)) as [tr|]; [|discriminate].
  unfold put in H. inversion H; subst. reflexivity.
Qed.

Lemma squash_finish_skeeps3 : forall newn o to_push sp, skeeps3 (squash_finish newn o to_push sp).
Proof.
  intros newn o to_push sp b t E. unfold squash_finish.
  apply sok3_tbind; [now apply new_unapplied_skeeps3|apply push_patches_skeeps3].
Qed.

Lemma squash_closure_skeeps3 : forall ps newn meta msg sp, skeeps3 (squash_closure ps newn meta msg sp).
Proof.
  intros ps newn meta msg sp b t E. unfold squash_closure.
  destruct (try_squash t ps meta msg) as [[t1 o]|] eqn:Et.
  - apply try_squash_sh3 in Et.
    destruct (delete_patches _ t1) as [t2 tp] eqn:DP. apply sh_delete_patches in DP.
    apply squash_finish_skeeps3. congruence.
  - destruct (pop_patches _ t) as [t1 tp] eqn:PP. apply sh_pop_patches in PP.
    apply sok3_tbind; [apply push_patches_skeeps3; congruence|].
    intros b2 t2 E2. cbv beta.
    destruct (try_squash t2 ps meta msg) as [[t3 o]|] eqn:Et2; [|exact I].
    apply try_squash_sh3 in Et2.
    destruct (delete_patches _ t3) as [t4 extra] eqn:DP. apply sh_delete_patches in DP.
    destruct extra; [|exact I]. apply squash_finish_skeeps3. congruence.
Qed.

Lemma pick_body_skeeps3 : forall pn o na, skeeps3 (pick_body pn o na).
Proof.
  intros pn o na b t E. unfold pick_body.
  apply sok3_tbind; [now apply new_unapplied_skeeps3|].
  intros b2 t2 E2. destruct na; [exact E2|now apply push_patches_skeeps3].
Qed.
