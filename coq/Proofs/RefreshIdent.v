(* C08 for `stg refresh -p <patch>`: what the [manip] restriction of Model/IdentSpec.v dropped.
   Whatever the exit status, every patch that existed before keeps its own identity, and a patch
   that did not exist before is the temporary patch `refresh-temp`, whose identity is
   (0, "Refresh of <pn>").  The predicate [Qrp] is [Qid] extended with that second alternative;
   it is monotone and closed under re-committing, so every transaction function keeps it
   (Proofs/IdentTxn.v), and so do the two transactions of [run_refresh]. *)
From Coq Require Import Lia List NArith Bool.
From StgV Require Import Model.StackSpec Model.IdentSpec.
From StgV Require Import Proofs.WfBasics Proofs.WfFrame Proofs.MirrorProofs Proofs.WfTxn Proofs.WfCmd.
From StgV Require Import Proofs.IdentTxn Proofs.IdentProofs.
Import ListNotations.
Local Open Scope nat_scope.

(* ---------------------------------------------------------------- the temporary identity *)

(* [o'] exists and carries the identity refresh gives its temporary patch *)
Definition is_temp (objs : store) (o' : oid) : Prop :=
  exists c pn, get objs o' = Some c /\ c_meta c = 0%N /\ c_subj c = List.app s_refresh_of pn.

Lemma is_temp_mono : forall a b o', store_extends a b -> is_temp a o' -> is_temp b o'.
Proof.
  intros a b o' [e ->] [c [pn [Hg Hrest]]]. exists c, pn. split; [now apply get_app_l|exact Hrest].
Qed.

Lemma is_temp_recommit : forall objs o' ps tr,
  is_temp objs o' ->
  is_temp (objs ++ [plain ps tr (match get objs o' with Some c => c_meta c | None => 0%N end)
                          (subj_of objs o')]) (length objs).
Proof.
  intros objs o' ps tr [c [pn [Hg [Hm Hs]]]]. eexists _, pn. split; [apply get_put_new|].
  unfold subj_of. rewrite Hg. cbn. auto.
Qed.

Lemma is_temp_new : forall objs ps tr pn,
  is_temp (objs ++ [plain ps tr 0%N (List.app s_refresh_of pn)]) (length objs).
Proof. intros objs ps tr pn. eexists _, pn. split; [apply get_put_new|]. cbn. auto. Qed.

Lemma is_temp_ident : forall objs o',
  is_temp objs o' -> exists pn, ident_of objs o' = Some (0%N, List.app s_refresh_of pn).
Proof.
  intros objs o' [c [pn [Hg [Hm Hs]]]]. exists pn. unfold ident_of. now rewrite Hg, Hm, Hs.
Qed.

(* ---------------------------------------------------------------- the predicate *)

Section RefreshP.
  Variable w : world.

  (* patch [n] keeps the identity it had in [w], or it is new and is the temporary patch *)
  Definition Qrp : pred := fun objs n o' =>
    Qid w objs n o' \/ (patch_commit w n = None /\ is_temp objs o').

  Lemma Qrp_mono : Qmono Qrp.
  Proof.
    intros a b n o' He [Hq|[Hn Ht]]; [left; now apply (Qid_mono w a b)|right].
    split; [exact Hn|now apply (is_temp_mono a b)].
  Qed.

  Lemma Qrp_ok : Qok Qrp.
  Proof.
    split; [exact Qrp_mono|].
    intros objs n o' ps tr [Hq|[Hn Ht]]; [left; now apply (q_recommit _ (Qid_ok w))|right].
    split; [exact Hn|now apply is_temp_recommit].
  Qed.

  Lemma Qrp_init : Inv w -> wsat Qrp w.
  Proof. intros Hi n o E. left. now apply (Qid_init w Hi). Qed.

  Lemma Qrp_ident : forall objs n o',
    Qrp objs n o' ->
    (exists o, patch_commit w n = Some o /\ ident_of objs o' = ident_of (w_objs w) o)
    \/ (patch_commit w n = None
        /\ exists pn, ident_of objs o' = Some (0%N, List.app s_refresh_of pn)).
  Proof.
    intros objs n o' [Hq|[Hn Ht]]; [left; now apply Qid_ident|right].
    split; [exact Hn|now apply is_temp_ident].
  Qed.
End RefreshP.

(* ---------------------------------------------------------------- refresh_commit / refresh_absorb *)

Lemma refresh_commit_sat : forall Q t pn pc tr t2 newc,
  Qok Q -> tsat Q t -> t_patch t pn = Some pc -> refresh_commit t pc tr = (t2, newc) ->
  tsat Q t2 /\ forall o, newc = Some o -> Q (t_objs t2) pn o.
Proof.
  intros Q t pn pc tr t2 newc HQ H Epc E. unfold refresh_commit in E. destruct (tree_eqb _ _).
  - injection E as <- <-. split; [exact H|discriminate].
  - unfold put in E. injection E as <- <-. split.
    + intros n o En. rewrite t_objs_set_objs.
      eapply (q_mono Q HQ); [apply store_extends_put|]. apply H. exact En.
    + intros o Eo. injection Eo as <-. rewrite t_objs_set_objs.
      apply (q_recommit Q HQ). now apply H.
Qed.

Lemma absorb_update_sat : forall Q pn newc t,
  tsat Q t -> (forall o, newc = Some o -> Q (t_objs t) pn o) ->
  rsat Q (match newc with Some o => update_patch pn o t | None => TOk t end).
Proof.
  intros Q pn newc t H Hn. destruct newc as [o|]; [|exact H].
  apply update_patch_sat; [exact H|now apply Hn].
Qed.

Lemma absorb_step1_sat : forall Q tmpname to_pop t,
  Qok Q -> tsat Q t ->
  rsat Q (if Nat.ltb 1 (length to_pop) then
            let '(t1, extra) := pop_patches (fun n => mem n to_pop) t in
            match extra with
            | _ :: _ => TPanic
            | [] => push_patches [tmpname] false t1
            end
          else TOk t).
Proof.
  intros Q tmpname to_pop t HQ H. destruct (Nat.ltb 1 (length to_pop)); [|exact H].
  pose proof (pop_sat Q (fun n => mem n to_pop) t H) as Hp.
  destruct (pop_patches _ t) as [t1 extra]. cbn [fst] in Hp.
  destruct extra; [|exact I]. now apply push_patches_sat.
Qed.

Lemma absorb_applied_sat : forall Q pn tmpname to_pop t1,
  Qok Q -> tsat Q t1 ->
  rsat Q (match t_patch t1 pn, t_patch t1 tmpname with
          | Some pc, Some tc =>
              match last_error to_pop with
              | Some top =>
                  if negb (name_eqb top tmpname) then TPanic
                  else
                    let '(t2, newc) := refresh_commit t1 pc (tree_of (t_objs t1) tc) in
                    let '(t3, _) := delete_patches (fun n => name_eqb n tmpname) t2 in
                    tbind (match newc with Some o => update_patch pn o t3 | None => TOk t3 end)
                          (push_patches (removelast to_pop) false)
              | None => TPanic
              end
          | _, _ => TPanic
          end).
Proof.
  intros Q pn tmpname to_pop t1 HQ H1.
  destruct (t_patch t1 pn) as [pc|] eqn:Epc; [|exact I].
  destruct (t_patch t1 tmpname) as [tc|]; [|exact I].
  destruct (last_error to_pop) as [top|]; [|exact I].
  destruct (negb (name_eqb top tmpname)); [exact I|].
  destruct (refresh_commit t1 pc (tree_of (t_objs t1) tc)) as [t2 newc] eqn:Erc.
  destruct (refresh_commit_sat Q t1 pn pc _ t2 newc HQ H1 Epc Erc) as [H2 Hn].
  pose proof (delete_sat Q (fun n => name_eqb n tmpname) t2 H2) as H3.
  pose proof (delete_objs (fun n => name_eqb n tmpname) t2) as Ho.
  destruct (delete_patches _ t2) as [t3 inc]. cbn [fst] in H3, Ho.
  apply rsat_tbind.
  - apply absorb_update_sat; [exact H3|]. rewrite Ho. exact Hn.
  - intros t4 H4. now apply push_patches_sat.
Qed.

Lemma absorb_unapplied_sat : forall Q pn tmpname t1,
  Qok Q -> tsat Q t1 ->
  rsat Q (match t_patch t1 pn, t_patch t1 tmpname with
          | Some pc, Some tc =>
              match first_parent (t_objs t1) tc with
              | None => TErr t1
              | Some tpar =>
                  match apply3way (t_wt t1) (tree_of (t_objs t1) tpar) (tree_of (t_objs t1) pc)
                                  (tree_of (t_objs t1) tc) with
                  | Some tree' =>
                      let '(t2, newc) := refresh_commit t1 pc tree' in
                      tbind (match newc with Some o => update_patch pn o t2 | None => TOk t2 end)
                            (fun t3 => TOk (fst (delete_patches (fun n => name_eqb n tmpname) t3)))
                  | None => TOk t1
                  end
              end
          | _, _ => TPanic
          end).
Proof.
  intros Q pn tmpname t1 HQ H1.
  destruct (t_patch t1 pn) as [pc|] eqn:Epc; [|exact I].
  destruct (t_patch t1 tmpname) as [tc|]; [|exact I].
  destruct (first_parent (t_objs t1) tc) as [tpar|]; [|exact I].
  destruct (apply3way _ _ _ _) as [tree'|]; [|exact H1].
  destruct (refresh_commit t1 pc tree') as [t2 newc] eqn:Erc.
  destruct (refresh_commit_sat Q t1 pn pc _ t2 newc HQ H1 Epc Erc) as [H2 Hn].
  apply rsat_tbind.
  - now apply absorb_update_sat.
  - intros t3 H3. cbn [rsat]. now apply delete_sat.
Qed.

Lemma refresh_absorb_sat : forall Q pn tmpname t,
  Qok Q -> tsat Q t -> rsat Q (refresh_absorb pn tmpname t).
Proof.
  intros Q pn tmpname t HQ H. unfold refresh_absorb. destruct (mem pn (t_applied t)).
  - cbv zeta. apply rsat_tbind; [now apply absorb_step1_sat|].
    intros t1 H1. now apply absorb_applied_sat.
  - pose proof (pop_sat Q (fun n => name_eqb n tmpname) t H) as Hp.
    destruct (pop_patches _ t) as [t1 extra]. cbn [fst] in Hp.
    destruct extra; [|exact I]. now apply absorb_unapplied_sat.
Qed.

(* ---------------------------------------------------------------- the command *)

(* the temporary name is the name of no patch *)
Lemma tmpname_fresh : forall s,
  names_ok (all_of s) -> (forall n, pm_get (s_patches s) n <> None -> In n (all_of s)) ->
  pm_get (s_patches s)
         (match uniquify s_refresh_temp [] (all_of s) with UOk n => n | UFuel => s_refresh_temp end)
  = None.
Proof.
  intros s Hn Hd.
  pose proof (uniquify_names_ok s_refresh_temp (all_of s) Hn refresh_temp_valid) as [Hnd _].
  set (tmpname := match uniquify s_refresh_temp [] (all_of s) with
                  | UOk n => n | UFuel => s_refresh_temp end) in *.
  destruct (pm_get (s_patches s) tmpname) as [o|] eqn:Eg; [|exact Eg].
  exfalso. inversion Hnd as [|x l Hx _]. apply Hx. apply Hd. congruence.
Qed.

Lemma run_refresh_sat : forall w p, Inv w -> wsat (Qrp w) (fst (run_refresh w p)).
Proof.
  intros w p Hi. pose proof (Qrp_init w Hi) as Hw. pose proof (Qrp_ok w) as HQ.
  unfold run_refresh.
  destruct (match p with Some o => _ | None => _ end) as [loc_l|]; [|exact Hw].
  destruct (open_stack PAllow w) as [op|] eqn:Eo; [|exact Hw].
  pose proof (open_sat _ _ _ _ (Qrp_mono w) Eo ltac:(discriminate) Hw) as Hw1.
  destruct (open_patches _ _ _ Eo ltac:(discriminate)) as [_ Hk].
  pose proof (open_ok _ _ _ Hi Eo) as [_ [[Hn [_ [Hd _]]] _]].
  pose proof (open_op_mir _ _ _ Eo) as Hm.
  destruct (negb (head_top_ok op)); [exact Hw1|].
  match goal with |- wsat _ (fst (rres_bind _ ?r _)) =>
    destruct r as [pn| |]; cbn [rres_bind]; [|exact Hw1|exact Hw1] end.
  destruct (w_unmerged (op_world op)); [exact Hw1|].
  unfold put. cbv beta iota zeta.
  pose proof (tmpname_fresh (op_state op) Hn) as Hfresh.
  set (tmpname := match uniquify s_refresh_temp [] (all_of (op_state op)) with
                  | UOk n => n | UFuel => s_refresh_temp end) in *.
  match goal with |- context [transact ?o ?a ?f ?m] =>
    assert (Hw2 : wsat (Qrp w) (fst (transact o a f m)));
      [|destruct (transact o a f m) as [w2 x]] end.
  { apply transact_sat.
    - exact (Qrp_mono w).
    - apply op_mir_with_objs; [exact Hm|apply store_extends_put].
    - apply frame_new_applied.
    - cbn [op_world]. now apply wsat_put_plain; [apply Qrp_mono|].
    - cbn [op_world op_state]. intros Hc T. rewrite cur_put_plain in Hc.
      apply new_applied_sat; [exact T|]. cbn [begin_txn t_objs op_world with_objs w_objs].
      right. split; [|apply is_temp_new].
      rewrite <- Hk, (patch_commit_cur _ _ Hc). apply Hfresh.
      intros n Hne. apply Hd. exact Hne. }
  cbn [fst] in Hw2. destruct x; try exact Hw2.
  destruct (open_stack PAllow w2) as [op2|] eqn:Eo2; [|exact Hw2].
  pose proof (open_sat _ _ _ _ (Qrp_mono w) Eo2 ltac:(discriminate) Hw2) as Hw3.
  apply open_op_mir in Eo2.
  apply transact_sat; [exact (Qrp_mono w)|exact Eo2|apply frame_refresh_absorb|exact Hw3|].
  intros _ T. now apply refresh_absorb_sat.
Qed.

(* ---------------------------------------------------------------- the theorem *)

Lemma refresh_p_identity :
  forall lower_s, LowerOK lower_s ->
  forall w p w' x n o',
    Inv w -> step lower_s w (CRefresh (Some p)) = (w', x) -> patch_commit w' n = Some o' ->
    (exists o, patch_commit w n = Some o /\ ident_of (w_objs w') o' = ident_of (w_objs w) o)
    \/ (patch_commit w n = None
        /\ exists pn, ident_of (w_objs w') o' = Some (0%N, s_refresh_of ++ pn)).
Proof.
  intros lower_s _ w p w' x n o' Hi E En. cbn [step] in E.
  pose proof (run_refresh_sat w (Some p) Hi) as H. rewrite E in H. cbn [fst] in H.
  exact (Qrp_ident w (w_objs w') n o' (H n o' En)).
Qed.

Print Assumptions refresh_p_identity.
