(* C18 - export followed by import: proofs of the theorems stated in Properties/C18.v.
   Generic byte-string facts are in Proofs/ExportBasics.v. *)
From Coq Require Import List NArith Bool Lia ZifyBool PeanoNat.
From StgV Require Import Model.Chars Model.Export Model.ExportSpec Proofs.CharsProofs.
From StgV Require Export Proofs.ExportBasics.
Import ListNotations.
Open Scope N_scope.

(* ---------------------------------------------------------------- the splitter *)

Lemma split_partition :
  forall content, fst (split_patch content) ++ snd (split_patch content) = content.
Proof.
  intros content. unfold split_patch.
  destruct (split_lines (lines_wt content)) as [m d] eqn:E. cbn [fst snd].
  destruct (split_lines_spec _ _ _ E) as [H _].
  rewrite <- concat_app. transitivity (concat (lines_wt content)); [|apply concat_lines_wt].
  rewrite H. reflexivity.
Qed.

Lemma split_at_first_separator :
  forall content,
    forallb (fun ln => negb (is_sep_line ln)) (lines_wt (fst (split_patch content))) = true
    /\ (snd (split_patch content) = []
        \/ exists ln rest, lines_wt (snd (split_patch content)) = ln :: rest /\ is_sep_line ln = true).
Proof.
  intros content. unfold split_patch.
  destruct (split_lines (lines_wt content)) as [m d] eqn:E. cbn [fst snd].
  destruct (split_lines_spec _ _ _ E) as [H [Hm Hd]].
  assert (Hwf : wf_lines (m ++ d)) by (rewrite <- H, lines_wt_eq; apply lines'_wf).
  apply wf_lines_app_inv in Hwf as [Wm Wd].
  rewrite !lines_wt_eq, !lines'_of_wf by assumption.
  split; [exact Hm|].
  destruct Hd as [->|[ln [rest [-> Hs]]]]; [left; reflexivity|right; eauto].
Qed.

(* ---------------------------------------------------------------- templates *)

Lemma specialize_aux_plain : forall t name out repl,
  forallb (fun c => negb (c =? 37)) t = true -> specialize_aux t TStart name out repl = out ++ t.
Proof.
  induction t as [|c t IH]; intros name out repl H.
  - cbn [specialize_aux]. rewrite app_nil_r. reflexivity.
  - cbn [forallb] in H. apply andb_true_iff in H as [Hc Ht].
    cbn [specialize_aux]. destruct (c =? 37); [discriminate|].
    rewrite IH by exact Ht. rewrite <- app_assoc. reflexivity.
Qed.

Lemma specialize_plain :
  forall t repl, forallb (fun c => negb (c =? 37)) t = true -> specialize t repl = t.
Proof. intros t repl H. unfold specialize. rewrite specialize_aux_plain by exact H. reflexivity. Qed.

Lemma default_template_renders :
  forall p short long,
    descr_split (pi_description p) = (short, long) ->
    export_file default_template p =
      short ++ [10; 10] ++ [70; 114; 111; 109; 58; 32] ++ pi_authname p ++ [32; 60] ++ pi_authemail p
            ++ [62; 10; 10] ++ long ++ [10; 45; 45; 45; 10] ++ pi_diffstat p ++ [10] ++ pi_diff p.
Proof.
  intros p short long H. unfold export_file, specialize, replacements. rewrite H.
  unfold default_template. cbn. repeat rewrite <- app_assoc. reflexivity.
Qed.

(* ---------------------------------------------------------------- the round trip *)

(* importing a file whose lines are [head], then a separator line, then [tl] *)
Lemma import_of_lines : forall content head sepl tl,
  lines' content = head ++ sepl :: lines' tl ->
  wf_lines head -> forallb (fun ln => negb (is_sep_line ln)) head = true ->
  is_sep_line sepl = true ->
  import_file content =
    match pm_loop head no_headers false with
    | PMErr => None
    | PMOk h body =>
        Some (mkImp h (match h_subject h with Some s => s ++ b_nlnl ++ body | None => body end)
                    (sepl ++ tl))
    end.
Proof.
  intros content head sepl tl Hl Hwf Hns Hsep.
  unfold import_file, split_patch. rewrite lines_wt_eq, Hl.
  rewrite (split_lines_app_sep head sepl (lines' tl) Hns Hsep).
  unfold parse_message. rewrite lines_wt_eq, (lines'_of_wf head Hwf).
  cbn [concat]. rewrite concat_lines'. reflexivity.
Qed.

(* the author line written by the default template, without its newline *)
Definition fromline (name email : str) : str := b_From_colon ++ 32 :: from_value name email.

Lemma fromline_snoc : forall name email,
  fromline name email = (b_From_colon ++ 32 :: name ++ [32; 60] ++ email) ++ [62].
Proof.
  intros name email. unfold fromline, from_value. rewrite <- !app_assoc. cbn [app].
  rewrite <- !app_assoc. reflexivity.
Qed.

Lemma fromline_no_nl : forall name email,
  no_nl name = true -> no_nl email = true -> no_nl (fromline name email) = true.
Proof.
  intros name email Hn He. unfold fromline, from_value.
  change (b_From_colon ++ 32 :: name ++ [32; 60] ++ email ++ [62])
    with ((b_From_colon ++ [32]) ++ name ++ [32; 60] ++ email ++ [62]).
  rewrite !no_nl_app, Hn, He. reflexivity.
Qed.

Lemma fromline_trim : forall name email,
  trim_by is_ws (fromline name email ++ [10]) = fromline name email.
Proof.
  intros name email. apply trim_by_line.
  - discriminate.
  - reflexivity.
  - rewrite fromline_snoc. unfold last_fails. rewrite rev_app_distr. reflexivity.
Qed.

Lemma fromline_not_sep : forall name email, is_sep_line (fromline name email ++ [10]) = false.
Proof. reflexivity. Qed.

Lemma fromline_step : forall name email h,
  good_ident name email ->
  header_step (fromline name email) h
  = HTaken (mkH (h_patch h) (Some (name, email)) (h_date h) (h_subject h) (h_msgid h)).
Proof.
  intros name email h Hi. destruct (from_value_parse name email Hi) as [Hv Hp].
  unfold fromline. apply header_step_from; assumption.
Qed.

(* the lines of the message part *)
Definition head_lines (short long name email : str) : list str :=
  (short ++ [10]) :: ([] ++ [10]) :: (fromline name email ++ [10]) :: ([] ++ [10])
  :: lines' (long ++ [10]).

Lemma rendered_assoc : forall short long name email tl,
  short ++ [10; 10] ++ [70; 114; 111; 109; 58; 32] ++ name ++ [32; 60] ++ email
        ++ [62; 10; 10] ++ long ++ [10; 45; 45; 45; 10] ++ tl
  = short ++ 10 :: ([] ++ 10 :: (fromline name email ++ 10 :: ([] ++ 10 ::
      (long ++ 10 :: ([45; 45; 45] ++ 10 :: tl))))).
Proof.
  intros. unfold fromline, from_value, b_From_colon. cbn [app].
  rewrite <- !app_assoc. cbn [app]. rewrite <- !app_assoc. cbn [app]. reflexivity.
Qed.

Lemma rendered_lines : forall short long name email tl,
  no_nl short = true -> no_nl name = true -> no_nl email = true ->
  lines' (short ++ 10 :: ([] ++ 10 :: (fromline name email ++ 10 :: ([] ++ 10 ::
      (long ++ 10 :: ([45; 45; 45] ++ 10 :: tl))))))
  = head_lines short long name email ++ [45; 45; 45; 10] :: lines' tl.
Proof.
  intros short long name email tl Hs Hn He. unfold head_lines.
  rewrite (lines'_line short) by exact Hs.
  rewrite (lines'_line []) by reflexivity.
  rewrite (lines'_line (fromline name email)) by (apply fromline_no_nl; assumption).
  rewrite (lines'_line []) by reflexivity.
  rewrite (lines'_app_nl long).
  rewrite (lines'_line [45; 45; 45]) by reflexivity.
  reflexivity.
Qed.

Lemma head_lines_wf : forall short long name email,
  no_nl short = true -> no_nl name = true -> no_nl email = true ->
  wf_lines (head_lines short long name email).
Proof.
  intros short long name email Hs Hn He. unfold head_lines.
  apply wf_cons; [exact Hs|]. apply wf_cons; [reflexivity|].
  apply wf_cons; [apply fromline_no_nl; assumption|]. apply wf_cons; [reflexivity|].
  apply lines'_wf.
Qed.

Lemma long_lines_notsep : forall long,
  good_long long ->
  forallb (fun ln => negb (is_sep_line ln)) (lines' (long ++ [10])) = true.
Proof.
  intros long [->|[_ [H _]]]; [reflexivity|]. rewrite <- lines_wt_eq. exact H.
Qed.

Lemma head_lines_notsep : forall short long name email,
  good_short short -> good_long long ->
  forallb (fun ln => negb (is_sep_line ln)) (head_lines short long name email) = true.
Proof.
  intros short long name email Hs Hl. unfold head_lines. cbn [forallb].
  destruct Hs as [_ [_ [_ [_ [_ [_ Hsep]]]]]]. rewrite Hsep, fromline_not_sep.
  rewrite (long_lines_notsep long Hl). reflexivity.
Qed.

(* parse_message on the message part *)
Lemma head_lines_parse : forall short long name email,
  good_short short -> good_long long -> good_ident name email ->
  pm_loop (head_lines short long name email) no_headers false
  = PMOk (mkH None (Some (name, email)) None (Some short) None) (body_of long).
Proof.
  intros short long name email Hs Hl Hi. unfold head_lines.
  destruct Hs as [Hne [Hnl [Htr [Hv [Hh [Hg _]]]]]].
  rewrite (pm_subject (short ++ [10]) short);
    [|apply trim_by_line_fix; assumption|exact Hne|apply header_like_none; exact Hh
     |reflexivity|exact Hg|exact Hv].
  rewrite pm_blank by reflexivity.
  cbn [h_patch h_author h_date h_subject h_msgid no_headers].
  rewrite (pm_taken (fromline name email ++ [10]) (fromline name email) _ _
             (mkH None (Some (name, email)) None (Some short) None));
    [|apply fromline_trim|discriminate|rewrite (fromline_step name email _ Hi); reflexivity].
  rewrite pm_blank by reflexivity.
  destruct long as [|c long'].
  - cbn [app lines']. change (10 =? 10) with true. cbv iota.
    rewrite pm_blank by reflexivity. reflexivity.
  - destruct Hl as [Hl|[_ [_ [first [rest [Hlines [Hfn [Hfne [Hft Hfh]]]]]]]]]; [discriminate|].
    rewrite lines_wt_eq in Hlines. rewrite Hlines.
    rewrite (pm_body (first ++ [10]) first rest _ short);
      [|apply trim_by_line_fix; assumption|exact Hfne|apply header_like_none; exact Hfh|reflexivity].
    unfold body_of. f_equal.
    rewrite <- (concat_lines' ((c :: long') ++ [10])), Hlines. cbn [concat].
    rewrite <- app_assoc. reflexivity.
Qed.

Lemma roundtrip_core : forall short long name email tl,
  good_short short -> good_long long -> good_ident name email ->
  import_file (short ++ [10; 10] ++ [70; 114; 111; 109; 58; 32] ++ name ++ [32; 60] ++ email
                     ++ [62; 10; 10] ++ long ++ [10; 45; 45; 45; 10] ++ tl)
  = Some (mkImp (mkH None (Some (name, email)) None (Some short) None)
                (short ++ [10; 10] ++ body_of long)
                ([45; 45; 45; 10] ++ tl)).
Proof.
  intros short long name email tl Hs Hl Hi.
  assert (Hns : no_nl short = true) by (destruct Hs as [_ [H _]]; exact H).
  assert (Hnn : no_nl name = true) by (destruct Hi as [H _]; exact H).
  assert (Hne : no_nl email = true) by (destruct Hi as [_ [H _]]; exact H).
  rewrite rendered_assoc.
  rewrite (import_of_lines _ (head_lines short long name email) [45; 45; 45; 10] tl).
  - rewrite (head_lines_parse short long name email Hs Hl Hi). reflexivity.
  - apply rendered_lines; assumption.
  - apply head_lines_wf; assumption.
  - apply head_lines_notsep; assumption.
  - reflexivity.
Qed.

Lemma export_import_roundtrip :
  forall p short long,
    descr_split (pi_description p) = (short, long) ->
    good_short short -> good_long long -> good_ident (pi_authname p) (pi_authemail p) ->
    import_file (export_file default_template p) =
      Some (mkImp (mkH None (Some (pi_authname p, pi_authemail p)) None (Some short) None)
                  (short ++ [10; 10] ++ body_of long)
                  ([45; 45; 45; 10] ++ pi_diffstat p ++ [10] ++ pi_diff p)).
Proof.
  intros p short long Hd Hs Hl Hi.
  rewrite (default_template_renders p short long Hd).
  apply roundtrip_core; assumption.
Qed.

(* ---------------------------------------------------------------- trailing blank lines *)

Lemma good_long_head : forall long,
  good_long long -> long <> [] -> exists c t, long = c :: t /\ (c =? 10) = false.
Proof.
  intros long Hl Hne. destruct long as [|c t]; [congruence|]. exists c, t. split; [reflexivity|].
  destruct Hl as [Hl|[_ [_ [first [rest [Hlines [Hfn [Hfne _]]]]]]]]; [discriminate|].
  apply (f_equal (@concat N)) in Hlines. rewrite concat_lines_wt in Hlines.
  cbn [concat] in Hlines. destruct first as [|f ft]; [congruence|].
  cbn [app] in Hlines. injection Hlines as -> _.
  apply no_nl_cons in Hfn as [H _]. exact H.
Qed.

Lemma message_up_to_trailing_blank_lines :
  forall short long,
    good_short short -> good_long long -> long <> [] ->
    utrim_end (short ++ [10; 10] ++ body_of long) = short ++ [10; 10] ++ long
    /\ descr_split (short ++ [10; 10] ++ long) = (short, long).
Proof.
  intros short long Hs Hl Hne.
  destruct (good_long_head long Hl Hne) as [c [t [-> Hc]]].
  assert (Hu : utrim_end (c :: t) = c :: t)
    by (destruct Hl as [Hl|[Hl _]]; [discriminate|exact Hl]).
  assert (Hnl : no_nl short = true) by (destruct Hs as [_ [H _]]; exact H).
  split.
  - unfold body_of.
    replace (short ++ [10; 10] ++ (c :: t) ++ [10]) with ((short ++ [10; 10] ++ c :: t) ++ [10])
      by (rewrite <- !app_assoc; reflexivity).
    rewrite utrim_end_snoc by apply uws_suffix_len_snoc_nl.
    apply utrim_end_fix.
    replace (short ++ [10; 10] ++ c :: t) with ((short ++ [10]) ++ 10 :: c :: t)
      by (rewrite <- app_assoc; reflexivity).
    rewrite uws_suffix_len_after_nl by discriminate.
    apply utrim_end_fix_inv. exact Hu.
  - unfold descr_split.
    change (short ++ [10; 10] ++ c :: t) with (short ++ 10 :: 10 :: c :: t).
    rewrite split_once_app by exact Hnl.
    cbn [drop_while]. change (10 =? 10) with true. cbv iota. rewrite Hc, Hu. reflexivity.
Qed.

(* ---------------------------------------------------------------- examples *)

Lemma good_short_check : forall s,
  match s with [] => false | _ => true end && no_nl s && str_eqb (trim_by is_ws s) s
  && utf8_valid s && negb (header_like s) && negb (is_git_show_commit s)
  && negb (is_sep_line (s ++ [10])) = true ->
  good_short s.
Proof.
  intros s H. repeat (apply andb_true_iff in H as [H ?]). unfold good_short.
  split; [destruct s; discriminate|]. split; [assumption|].
  split; [apply str_eqb_eq; assumption|]. split; [assumption|].
  repeat split; apply negb_true_iff; assumption.
Qed.

Lemma good_ident_check : forall name email,
  no_nl name && no_nl email && no_angle name && no_angle email
  && str_eqb (utrim name) name && str_eqb (utrim email) email
  && utf8_valid name && utf8_valid email = true ->
  good_ident name email.
Proof.
  intros name email H. repeat (apply andb_true_iff in H as [H ?]). unfold good_ident.
  repeat split; try apply str_eqb_eq; assumption.
Qed.

(* "Caf\xc3\xa9 fix" *)
Definition ex_short : str := [67; 97; 102; 195; 169; 32; 102; 105; 120].
(* "First para." *)
Definition ex_first : str := [70; 105; 114; 115; 116; 32; 112; 97; 114; 97; 46].
(* "Signed-off-by: A <a@b.c>" *)
Definition ex_trailer : str :=
  [83; 105; 103; 110; 101; 100; 45; 111; 102; 102; 45; 98; 121; 58; 32; 65; 32; 60; 97; 64; 98; 46; 99; 62].
Definition ex_long : str := ex_first ++ [10; 10] ++ ex_trailer.
(* "A \xc3\xa9", "a@b.c" *)
Definition ex_name : str := [65; 32; 195; 169].
Definition ex_email : str := [97; 64; 98; 46; 99].
Definition ex_patch (descr : str) : patch_info :=
  mkPI descr ex_name ex_email [49] ex_name ex_email [49] [32; 102; 10] [100; 10].

Lemma ex_ident : good_ident ex_name ex_email.
Proof. apply good_ident_check. vm_compute. reflexivity. Qed.

Lemma roundtrip_example :
  exists p short long,
    descr_split (pi_description p) = (short, long) /\ good_short short /\ good_long long
    /\ long <> [] /\ good_ident (pi_authname p) (pi_authemail p)
    /\ existsb (fun c => 128 <=? c) (pi_description p) = true
    /\ In [10] (lines_wt (long ++ [10])).
Proof.
  exists (ex_patch (ex_short ++ [10; 10] ++ ex_long)), ex_short, ex_long.
  split; [vm_compute; reflexivity|].
  split; [apply good_short_check; vm_compute; reflexivity|].
  split.
  { right. split; [vm_compute; reflexivity|]. split; [vm_compute; reflexivity|].
    exists ex_first, [[10]; ex_trailer ++ [10]].
    split; [vm_compute; reflexivity|]. split; [vm_compute; reflexivity|].
    split; [discriminate|]. split; vm_compute; reflexivity. }
  split; [discriminate|].
  split; [exact ex_ident|].
  split; [vm_compute; reflexivity|].
  vm_compute. right. left. reflexivity.
Qed.

(* F13: "subj\n\nbody\n---\nmore" *)
Lemma dash_line_refuted :
  exists p im,
    good_short (fst (descr_split (pi_description p)))
    /\ good_ident (pi_authname p) (pi_authemail p)
    /\ import_file (export_file default_template p) = Some im
    /\ utrim_end (im_message im) <> utrim_end (pi_description p).
Proof.
  exists (ex_patch [115; 117; 98; 106; 10; 10; 98; 111; 100; 121; 10; 45; 45; 45; 10; 109; 111; 114; 101]).
  eexists.
  split; [apply good_short_check; vm_compute; reflexivity|].
  split; [exact ex_ident|].
  split; [vm_compute; reflexivity|].
  vm_compute. discriminate.
Qed.

(* F14: "subj\n\nFrom: X <x@y>\nmore" *)
Lemma from_line_refuted :
  exists p im,
    good_short (fst (descr_split (pi_description p)))
    /\ good_ident (pi_authname p) (pi_authemail p)
    /\ import_file (export_file default_template p) = Some im
    /\ h_author (im_headers im) <> Some (pi_authname p, pi_authemail p).
Proof.
  exists (ex_patch [115; 117; 98; 106; 10; 10; 70; 114; 111; 109; 58; 32; 88; 32; 60; 120; 64; 121; 62; 10;
                    109; 111; 114; 101]).
  eexists.
  split; [apply good_short_check; vm_compute; reflexivity|].
  split; [exact ex_ident|].
  split; [vm_compute; reflexivity|].
  vm_compute. discriminate.
Qed.

(* F35: "subj\n\n  ind\nmore" *)
Lemma indent_refuted :
  exists p im,
    good_short (fst (descr_split (pi_description p)))
    /\ good_ident (pi_authname p) (pi_authemail p)
    /\ forallb (fun ln => negb (is_sep_line ln)) (lines_wt (pi_description p ++ [10])) = true
    /\ import_file (export_file default_template p) = Some im
    /\ h_author (im_headers im) = Some (pi_authname p, pi_authemail p)
    /\ utrim_end (im_message im) <> utrim_end (pi_description p).
Proof.
  exists (ex_patch [115; 117; 98; 106; 10; 10; 32; 32; 105; 110; 100; 10; 109; 111; 114; 101]).
  eexists.
  split; [apply good_short_check; vm_compute; reflexivity|].
  split; [exact ex_ident|].
  split; [vm_compute; reflexivity|].
  split; [vm_compute; reflexivity|].
  split; [vm_compute; reflexivity|].
  vm_compute. discriminate.
Qed.
