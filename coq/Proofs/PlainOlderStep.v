(* plain_parents_older is kept by every command. *)
From Coq Require Import List NArith ZArith Bool Arith Lia.
From StgV Require Import Model.StackSpec Model.LocatorSpec.
From StgV Require Import Proofs.RepairNoopProofs Proofs.RepairNoopInv.
From StgV Require Import Proofs.WfBasics Proofs.WfFrame Proofs.MirrorProofs Proofs.WfTxn Proofs.WfCmd.
From StgV Require Import Proofs.PlainOlderTxn.
Import ListNotations.
Local Open Scope nat_scope.
Local Open Scope list_scope.

Ltac brk :=
  match goal with
  | |- context [match ?x with _ => _ end] =>
      lazymatch x with
      | context [match _ with _ => _ end] => fail
      | _ => destruct x eqn:?
      end
  end.

Ltac brk2 :=
  match goal with
  | |- context [match ?x with _ => _ end] =>
      lazymatch x with
      | match _ with _ => _ end => fail
      | _ => destruct x eqn:?
      end
  end.

Lemma delete_push_ob : forall b g,
  okeeps b (fun t => let '(t1, to_push) := delete_patches g t in push_patches to_push false t1).
Proof.
  intros b g t H. destruct (delete_patches g t) as [t1 tp] eqn:DP.
  apply (ob_delete b) in DP; [|exact H]. now apply push_patches_ob.
Qed.

Ltac okapply :=
  first [ apply push_patches_ob | apply push_tree_list_ob | apply reorder_patches_ob
        | apply commit_patches_ob | apply hide_patches_ob | apply unhide_patches_ob
        | apply rename_patch_ob ].

Ltac oksolve :=
  first [ apply delete_push_ob
        | let t := fresh "t" in let H := fresh "H" in
          intros t H; cbv beta zeta; repeat brk;
          first [ exact I | exact H | okapply; exact H ] ].

Ltac oleaf A Aop Hok :=
  cbn [fst err2 ok0];
  first [ exact A | exact Aop | apply transact_ob; [exact Hok|exact Aop|oksolve] ].

Ltac open_then Hi A :=
  cbv zeta;
  lazymatch goal with
  | |- context [open_stack ?p ?w] =>
      let op := fresh "op" in let Hop := fresh "Hop" in
      let Hok := fresh "Hok" in let Aop := fresh "Aop" in
      destruct (open_stack p w) as [op|] eqn:Hop;
      [ pose proof (open_ok p w op Hi Hop) as Hok;
        pose proof (open_stack_older p w op Hop A) as Aop;
        unfold rres_bind; repeat (first [brk|brk2]; cbv beta); oleaf A Aop Hok
      | repeat first [brk|brk2]; exact A ]
  end.

Local Notation PPO w := (plain_parents_older (w_objs w)).

Lemma run_push_older : forall w r n al rv na st mg kp cf, Inv w -> PPO w ->
  PPO (fst (run_push w r n al rv na st mg kp cf)).
Proof. intros w r n al rv na st mg kp cf Hi A. unfold run_push. open_then Hi A. Qed.

Lemma run_pop_older : forall w r n al kp sp, Inv w -> PPO w -> PPO (fst (run_pop w r n al kp sp)).
Proof. intros w r n al kp sp Hi A. unfold run_pop. open_then Hi A. Qed.

Lemma run_goto_older : forall w l kp mg cf, Inv w -> PPO w -> PPO (fst (run_goto w l kp mg cf)).
Proof. intros w l kp mg cf Hi A. unfold run_goto. destruct (parse_locator l); [|exact A]. open_then Hi A. Qed.

Lemma run_float_older : forall w r na kp, Inv w -> PPO w -> PPO (fst (run_float w r na kp)).
Proof. intros w r na kp Hi A. unfold run_float. destruct (parse_ranges r); [|exact A]. open_then Hi A. Qed.

Lemma run_sink_older : forall w r tg np kp, Inv w -> PPO w -> PPO (fst (run_sink w r tg np kp)).
Proof. intros w r tg np kp Hi A. unfold run_sink. open_then Hi A. Qed.

Lemma run_delete_older : forall w r tp al a u h sp cf, Inv w -> PPO w ->
  PPO (fst (run_delete w r tp al a u h sp cf)).
Proof. intros w r tp al a u h sp cf Hi A. unfold run_delete. open_then Hi A. Qed.

Lemma run_hide_older : forall w r, Inv w -> PPO w -> PPO (fst (run_hide w r)).
Proof. intros w r Hi A. unfold run_hide. open_then Hi A. Qed.

Lemma run_unhide_older : forall w r, Inv w -> PPO w -> PPO (fst (run_unhide w r)).
Proof. intros w r Hi A. unfold run_unhide. open_then Hi A. Qed.

Lemma run_rename_older : forall w o n, Inv w -> PPO w -> PPO (fst (run_rename w o n)).
Proof. intros w o n Hi A. unfold run_rename. open_then Hi A. Qed.

Lemma run_commit_older : forall w r n al ae, Inv w -> PPO w -> PPO (fst (run_commit w r n al ae)).
Proof. intros w r n al ae Hi A. unfold run_commit. open_then Hi A. Qed.

Lemma run_clean_older : forall w a u, Inv w -> PPO w -> PPO (fst (run_clean w a u)).
Proof. intros w a u Hi A. unfold run_clean. open_then Hi A. Qed.

(* ---------------------------------------------------------------- new / spill / refresh *)

Lemma ppo_put_plain : forall objs ps tr m sj, plain_parents_older objs ->
  (forall p, In p ps -> is_plain objs p) -> plain_parents_older (objs ++ [plain ps tr m sj]).
Proof.
  intros objs ps tr m sj A Hp. apply older_put; [exact A|]. intros p E. cbn in E.
  apply plain_lt. apply Hp. rewrite E. now left.
Qed.

Lemma run_new_older : forall w nm meta msg, Inv w -> PPO w -> PPO (fst (run_new w nm meta msg)).
Proof.
  intros w nm meta msg Hi A. unfold run_new.
  destruct (from_str nm) as [pn|]; [|exact A].
  destruct (open_stack PAuto w) as [op|] eqn:Eo; [|exact A].
  pose proof (open_stack_older _ _ _ Eo A) as Aop. apply (open_ok _ _ _ Hi) in Eo.
  destruct (w_unmerged (op_world op)); [exact Aop|].
  destruct (negb (head_top_ok op)); [exact Aop|].
  destruct (stack_collides (op_state op) pn); [exact Aop|].
  unfold put. cbv beta iota zeta.
  pose proof Eo as [Hiw _]. apply Inv_iff in Hiw as [_ [Hbr _]].
  apply transact_ob.
  - apply op_ok_put; [exact Eo|]. intros p [<-|[]]. exact Hbr.
  - cbn [op_world with_objs w_objs]. apply ppo_put_plain; [exact Aop|]. intros p [<-|[]]. exact Hbr.
  - apply new_applied_ob. cbn [op_world with_objs w_objs]. apply plain_new.
Qed.

Lemma run_spill_older : forall w, Inv w -> PPO w -> PPO (fst (run_spill w)).
Proof.
  intros w Hi A. unfold run_spill.
  destruct (open_stack PAllow w) as [op|] eqn:Eo; [|exact A].
  pose proof (open_stack_older _ _ _ Eo A) as Aop. apply (open_ok _ _ _ Hi) in Eo.
  destruct (w_unmerged (op_world op)); [exact Aop|].
  destruct (dirty (op_world op)); [exact Aop|].
  destruct (negb (head_top_ok op)); [exact Aop|].
  destruct (last_error (s_applied (op_state op))) as [pn|]; [|exact Aop].
  destruct (pm_get (s_patches (op_state op)) pn) as [pc|] eqn:Epc; [|exact Aop].
  destruct (first_parent (w_objs (op_world op)) pc) as [par|]; [|exact Aop].
  unfold put. cbv beta iota zeta.
  pose proof Eo as [Hiw [[_ [_ [_ [Hp _]]]] _]]. apply Inv_iff in Hiw as [[Hcl _] _].
  apply Hp in Epc.
  apply transact_ob.
  - apply op_ok_put; [exact Eo|]. now apply patch_parents_plain.
  - cbn [op_world with_objs w_objs]. apply ppo_put_plain; [exact Aop|]. now apply patch_parents_plain.
  - apply update_patch_ob. cbn [op_world with_objs w_objs]. apply plain_new.
Qed.

Lemma refresh_commit_ob : forall b t pc tr t2 newc,
  refresh_commit t pc tr = (t2, newc) -> ob b t -> is_plain (t_objs t) pc ->
  ob b t2 /\ (forall o, newc = Some o -> is_plain (t_objs t2) o).
Proof.
  intros b t pc tr t2 newc E H Hpc. unfold refresh_commit in E. destruct (tree_eqb _ _).
  - injection E as <- <-. split; [exact H|discriminate].
  - unfold put in E. injection E as <- <-. split.
    + apply ob_put; [exact H|]. intros p Hp. exact (ob_closed b t H pc p Hpc Hp).
    + intros o E. injection E as <-. apply plain_new.
Qed.

Lemma delete_objs_eq : forall f t t3 inc, delete_patches f t = (t3, inc) -> t_objs t3 = t_objs t.
Proof. intros f t t3 inc E. pose proof (delete_objs f t) as D. now rewrite E in D. Qed.

Lemma refresh_absorb_ob : forall b pn tmpname, okeeps b (refresh_absorb pn tmpname).
Proof.
  intros b pn tmpname t H. unfold refresh_absorb. destruct (mem pn (t_applied t)).
  - cbv zeta. apply rs_tbind.
    + destruct (Nat.ltb _ _); [|exact H].
      destruct (pop_patches _ t) as [t1 extra] eqn:PP. apply (ob_pop b) in PP; [|exact H].
      destruct extra; [|exact I]. now apply push_patches_ob.
    + intros t1 H1.
      destruct (t_patch t1 pn) as [pc|] eqn:Epc; [|exact I].
      destruct (t_patch t1 tmpname) as [tc|]; [|exact I].
      destruct (last_error _) as [top|]; [|exact I]. destruct (negb _); [exact I|].
      destruct (refresh_commit t1 pc _) as [t2 newc] eqn:RC.
      destruct (refresh_commit_ob b _ _ _ _ _ RC H1 (ob_patch b _ _ _ H1 Epc)) as [H2 Hn].
      destruct (delete_patches _ t2) as [t3 inc] eqn:DP.
      pose proof (delete_objs_eq _ _ _ _ DP) as E3.
      apply (ob_delete b) in DP; [|exact H2].
      apply rs_tbind; [|apply push_patches_ob].
      destruct newc as [o|]; [|exact DP]. apply update_patch_ob'; [exact DP|]. rewrite E3. now apply Hn.
  - destruct (pop_patches _ t) as [t1 extra] eqn:PP. apply (ob_pop b) in PP; [|exact H].
    destruct extra; [|exact I].
    destruct (t_patch t1 pn) as [pc|] eqn:Epc; [|exact I].
    destruct (t_patch t1 tmpname) as [tc|]; [|exact I].
    destruct (first_parent _ _) as [tpar|]; [|exact PP].
    destruct (apply3way _ _ _ _) as [tree'|]; [|exact PP].
    destruct (refresh_commit t1 pc tree') as [t2 newc] eqn:RC.
    destruct (refresh_commit_ob b _ _ _ _ _ RC PP (ob_patch b _ _ _ PP Epc)) as [H2 Hn].
    apply rs_tbind.
    + destruct newc as [o|]; [|exact H2]. apply update_patch_ob'; [exact H2|now apply Hn].
    + intros t3 H3. cbn [rs]. destruct (delete_patches _ t3) as [t4 inc] eqn:DP. cbn [fst].
      eapply ob_delete; eauto.
Qed.

Lemma run_refresh_older : forall w p, Inv w -> PPO w -> PPO (fst (run_refresh w p)).
Proof.
  intros w p Hi A. unfold run_refresh.
  destruct (match p with Some o => _ | None => _ end) as [loc_l|] eqn:Ep; [|exact A].
  pose proof (refresh_loc_wf p loc_l Ep) as Hwf. clear Ep.
  destruct (open_stack PAllow w) as [op|] eqn:Eo; [|exact A].
  pose proof (open_stack_older _ _ _ Eo A) as Aop. apply (open_ok _ _ _ Hi) in Eo.
  destruct (negb (head_top_ok op)); [exact Aop|].
  match goal with |- PPO (fst (rres_bind _ ?r _)) =>
    destruct r as [pn| |] eqn:Epn; cbn [rres_bind]; [|exact Aop|exact Aop] end.
  destruct (w_unmerged (op_world op)); [exact Aop|].
  unfold put. cbv beta iota zeta.
  pose proof Eo as [Hiw [[Hn [_ [Hdom _]]] _]]. apply Inv_iff in Hiw as [_ [Hbr _]].
  set (tmpname := match uniquify s_refresh_temp [] (all_of (op_state op)) with
                  | UOk n => n | UFuel => s_refresh_temp end).
  assert (Hnm : names_ok (tmpname :: all_of (op_state op))).
  { apply uniquify_names_ok; [exact Hn|exact refresh_temp_valid]. }
  match goal with |- context [transact ?o ?a ?f ?m] =>
    assert (Hm : Inv (fst (transact o a f m)) /\ PPO (fst (transact o a f m)));
      [|destruct (transact o a f m) as [w2 x] eqn:Et] end.
  { split.
    - apply transact_inv.
      + apply op_ok_put; [exact Eo|]. intros q [<-|[]]. exact Hbr.
      + intros W. apply new_applied_wf; [exact W|exact Hnm|apply patch_commit_new].
      + frame_auto.
    - apply transact_ob.
      + apply op_ok_put; [exact Eo|]. intros q [<-|[]]. exact Hbr.
      + cbn [op_world with_objs w_objs]. apply ppo_put_plain; [exact Aop|]. intros q [<-|[]]. exact Hbr.
      + apply new_applied_ob. cbn [op_world with_objs w_objs]. apply plain_new. }
  cbn [fst] in Hm. destruct Hm as [Hm Am]. destruct x; try exact Am.
  destruct (open_stack PAllow w2) as [op2|] eqn:Eo2; [|exact Am].
  pose proof (open_stack_older _ _ _ Eo2 Am) as Aop2.
  apply (open_ok _ _ _ Hm) in Eo2.
  apply transact_ob; [exact Eo2|exact Aop2|apply refresh_absorb_ob].
Qed.

(* ---------------------------------------------------------------- undo / redo / reset *)

Lemma transact_ob_begin : forall op o f msg,
  op_ok op -> PPO (op_world op) ->
  (forall t, wf_txn t -> t_objs t = w_objs (op_world op) -> ob (w_objs (op_world op)) t ->
             rs (ob (w_objs (op_world op))) (f t)) ->
  PPO (fst (transact op o f msg)).
Proof.
  intros op o f msg Hop A K. apply transact_older; [exact A|].
  eapply rs_ob_ppo. apply K; [now apply begin_wf|reflexivity|now apply begin_ob].
Qed.

Lemma log_extmods_first_older : forall op0 op,
  log_extmods_first op0 = Some op -> PPO (op_world op0) -> PPO (op_world op).
Proof.
  intros op0 op E A. unfold log_extmods_first in E.
  destruct (Nat.eqb _ _); [injection E as <-; exact A|].
  destruct (log_external_mods _ _) as [[w' s']|] eqn:L; [|discriminate]. injection E as <-.
  cbn [op_world]. unfold log_external_mods in L. destruct (w_stack _); [|discriminate].
  destruct (state_commit _ _ _) as [[objs' so']|] eqn:C; [|discriminate].
  injection L as <- _. cbn [w_objs]. eapply older_state_commit; [exact C|exact A].
Qed.

Lemma run_undo_like_older : forall w s h m, Inv w -> PPO w -> PPO (fst (run_undo_like w s h m)).
Proof.
  intros w s h m Hi A. unfold run_undo_like.
  destruct (open_stack PRequire w) as [op0|] eqn:Eo; [|exact A].
  pose proof (open_stack_older _ _ _ Eo A) as Aop0. apply (open_ok _ _ _ Hi) in Eo.
  destruct (log_extmods_first op0) as [op|] eqn:El; [|exact Aop0].
  pose proof (log_extmods_first_older _ _ El Aop0) as Aop.
  apply (log_extmods_first_ok _ _ Eo) in El.
  apply transact_ob_begin; [exact El|exact Aop|].
  intros t W Et H. destruct (w_stack (op_world op)) as [so|]; [|exact H].
  destruct (find_undo_state _ _ _ _) as [st|] eqn:Ef; [|exact H].
  apply find_undo_state_logged in Ef as [so' Hs].
  pose proof (proj2 (wt_store _ W) so' st Hs) as Hst. rewrite Et in Hst.
  destruct (wf_state_patches_plain _ _ Hst) as [Hp Hh].
  now apply reset_to_state_ob.
Qed.

Lemma run_undo_older : forall w n h, Inv w -> PPO w -> PPO (fst (run_undo w n h)).
Proof. intros. unfold run_undo. destruct (n <? 1)%Z; [assumption|now apply run_undo_like_older]. Qed.

Lemma run_redo_older : forall w n h, Inv w -> PPO w -> PPO (fst (run_redo w n h)).
Proof.
  intros. unfold run_redo. destruct (n =? 0)%N; [assumption|].
  destruct (isize_max <? n)%N; [assumption|now apply run_undo_like_older].
Qed.

Lemma run_reset_older : forall w e h, Inv w -> PPO w -> PPO (fst (run_reset w e None h)).
Proof.
  intros w e h Hi A. unfold run_reset. destruct e as [k|].
  - destruct (open_stack PRequire w) as [op|] eqn:Eo; [|exact A].
    pose proof (open_stack_older _ _ _ Eo A) as Aop. apply (open_ok _ _ _ Hi) in Eo.
    destruct (w_stack (op_world op)) as [so|]; [|exact Aop].
    destruct (nth_prev_state _ _ _ _) as [st|] eqn:Ef; [|exact Aop].
    apply nth_prev_state_logged in Ef as [so' Hs].
    pose proof Eo as [[_ [Hst _]] _]. apply Hst in Hs.
    destruct (wf_state_patches_plain _ _ Hs) as [Hp Hh].
    apply transact_ob; [exact Eo|exact Aop|]. now apply reset_to_state_ob.
  - destruct h; exact A.
Qed.

(* ---------------------------------------------------------------- log --clear *)

Lemma run_log_clear_older : forall w, Inv w -> PPO w -> PPO (fst (run_log_clear w)).
Proof.
  intros w Hi A. unfold run_log_clear.
  destruct (open_stack PRequire w) as [op|] eqn:Eo; [|exact A].
  pose proof (open_stack_older _ _ _ Eo A) as Aop.
  destruct (state_commit _ _ _) as [[objs' so]|] eqn:Ec; [|exact Aop].
  cbn [fst w_objs]. eapply older_state_commit; [exact Ec|exact Aop].
Qed.

(* ---------------------------------------------------------------- uncommit *)

Lemma run_uncommit_older : forall lower_s w n names, Inv w -> PPO w ->
  PPO (fst (run_uncommit lower_s w n names)).
Proof.
  intros lower_s w n names Hi A. unfold run_uncommit.
  destruct (fold_right _ _ names) as [pnames|]; [|exact A].
  destruct (open_stack PAuto w) as [op|] eqn:Eo; [|exact A].
  pose proof (open_stack_older _ _ _ Eo A) as Aop. apply (open_ok _ _ _ Hi) in Eo.
  destruct (negb (head_top_ok op)); [exact Aop|].
  pose proof Eo as [Hiw [Hs Hb]]. apply Inv_iff in Hiw as [[Hcl _] _].
  cbv zeta.
  match goal with |- plain_parents_older (w_objs (fst (match ?p with inl _ => _ | inr _ => _ end))) =>
    assert (Hplan : forall commits pns, p = inr (commits, pns) ->
              forall c, In c commits -> is_patch_commit (w_objs (op_world op)) c);
    [|destruct p as [res|[commits pns]] eqn:Epl] end.
  { intros commits pns E. destruct n as [k|].
    - destruct (walk_down _ _ _) as [cs|] eqn:Ew; [|discriminate].
      destruct pnames as [|prefix [|? ?]]; try discriminate.
      + destruct (make_patchnames _ _ _ _) as [gen|]; [|discriminate]. injection E as <- <-.
        eapply walk_down_patch; eauto.
      + destruct (forallb _ _); [|discriminate].
        destruct (check_patchnames _ _); [|discriminate]. injection E as <- <-.
        eapply walk_down_patch; eauto.
    - destruct pnames as [|pn0 pnames'].
      + destruct (walk_down _ _ _) as [cs|] eqn:Ew; [|discriminate].
        destruct (make_patchnames _ _ _ _) as [gen|]; [|discriminate]. injection E as <- <-.
        eapply walk_down_patch; eauto.
      + destruct (check_patchnames _ _); [|discriminate]. cbn [negb] in E.
        destruct (walk_down _ _ _) as [cs|] eqn:Ew; [|discriminate]. injection E as <- <-.
        eapply walk_down_patch; eauto. }
  - clear Hplan. revert Epl. repeat brk; intros Epl;
      first [discriminate Epl|injection Epl as <-; first [exact Aop|exact A]].
  - pose proof (Hplan commits pns eq_refl) as Hcc. clear Hplan Epl.
    destruct (negb (Nat.eqb (length commits) (length pns))); [exact Aop|].
    apply transact_ob; [exact Eo|exact Aop|]. apply uncommit_patches_ob.
    intros nm c Hp. apply in_rev in Hp. apply in_combine_r in Hp. apply (Hcc c Hp).
Qed.

(* ---------------------------------------------------------------- repair *)

Lemma fold_tbind_ob : forall (A : Type) b (g : A -> txn -> tres) l r,
  (forall a, In a l -> okeeps b (g a)) -> rs (ob b) r ->
  rs (ob b) (fold_left (fun r c => tbind r (g c)) l r).
Proof.
  intros A b g l. induction l as [|a l IH]; intros r K H; cbn [fold_left]; [exact H|].
  apply IH; [intros a' Ha'; apply K; now right|]. apply rs_tbind; [exact H|apply K; now left].
Qed.

Lemma run_repair_older : forall lower_s w, Inv w -> PPO w -> PPO (fst (run_repair lower_s w)).
Proof.
  intros lower_s w Hi A. unfold run_repair.
  destruct (open_stack PRequire w) as [op|] eqn:Eo; [|exact A].
  pose proof (open_stack_older _ _ _ Eo A) as Aop. apply (open_ok _ _ _ Hi) in Eo.
  destruct (repair_walk _ _ _ _ _ _ _ _) as [[ar pr] stop] eqn:Ew.
  pose proof Eo as [Hiw _]. apply Inv_iff in Hiw as [[Hcl _] [Hbr _]].
  apply repair_walk_ok in Ew as [Hpc _]; [|exact Hcl|exact Hbr|intros c []].
  assert (Hstop : is_plain (w_objs (op_world op))
            (repair_base (S (length (w_objs (op_world op)))) (w_objs (op_world op)) (op_state op)
               (op_base op) (w_branch (op_world op)) (w_branch (op_world op)) false))
    by (apply repair_base_plain; assumption).
  apply transact_ob; [exact Eo|exact Aop|].
  intros t H. apply rs_tbind; [now apply repair_appliedness_ob|].
  intros t0 H0. cbv zeta.
  apply (fold_tbind_ob _ _ (fun c t =>
           match make lower_s (subj_of (t_objs t) c) true (Some 30%N) with
           | Ok nm => match uniquify nm [] (t_all t) with
                      | UOk pn => new_applied pn c t
                      | UFuel => TPanic
                      end
           | _ => TPanic
           end)).
  - intros c Hc t' H'. destruct (make _ _ _ _); try exact I.
    destruct (uniquify _ _ _); [|exact I]. apply new_applied_ob; [|exact H'].
    apply Hpc. now apply in_rev.
  - cbn [rs]. apply ob_set_base; [exact H0|]. exact (ob_plain_in _ _ _ H0 Hstop).
Qed.

(* ---------------------------------------------------------------- edit *)

Lemma edit_body_ob : forall b pn o, is_plain b o ->
  okeeps b (fun t =>
           let above := after_name pn (t_applied t) in
           let '(t1, extra) := pop_patches (fun n => mem n above) t in
           match extra with
           | _ :: _ => TPanic
           | [] => tbind (update_patch pn o t1) (push_patches above false)
           end).
Proof.
  intros b pn o Ho t H. cbv zeta.
  destruct (pop_patches _ t) as [t1 extra] eqn:PP. apply (ob_pop b) in PP; [|exact H].
  destruct extra; [|exact I].
  apply rs_tbind; [|apply push_patches_ob]. now apply update_patch_ob.
Qed.

Lemma run_edit_older : forall w l m msg, Inv w -> PPO w -> PPO (fst (run_edit w l m msg)).
Proof.
  intros w l m msg Hi A. unfold run_edit.
  destruct (match l with Some o => _ | None => _ end) as [loc_l|]; [|exact A].
  destruct (open_stack PAllow w) as [op|] eqn:Eo; [|exact A].
  pose proof (open_stack_older _ _ _ Eo A) as Aop. apply (open_ok _ _ _ Hi) in Eo.
  destruct (negb (head_top_ok op)); [exact Aop|].
  match goal with |- plain_parents_older (w_objs (fst (rres_bind _ ?r _))) =>
    destruct r as [pn| |]; cbn [rres_bind]; [|exact Aop|exact Aop] end.
  destruct (pm_get (s_patches (op_state op)) pn) as [pc|] eqn:Epc; [|exact Aop].
  destruct (get (w_objs (op_world op)) pc) as [old|] eqn:Eg; [|exact Aop].
  destruct (_ && _); [exact Aop|].
  unfold put. cbv beta iota zeta.
  pose proof Eo as [Hiw [[_ [_ [_ [Hp _]]]] _]]. apply Inv_iff in Hiw as [[Hcl _] _].
  apply Hp in Epc.
  assert (Hpar : forall p, In p (c_parents old) -> is_plain (w_objs (op_world op)) p).
  { intros p Hin. apply (patch_parents_plain _ pc Hcl Epc). unfold parents_of. now rewrite Eg. }
  apply transact_ob.
  - apply op_ok_put; [exact Eo|exact Hpar].
  - cbn [op_world with_objs w_objs]. apply ppo_put_plain; [exact Aop|exact Hpar].
  - apply edit_body_ob. cbn [op_world with_objs w_objs]. apply plain_new.
Qed.

(* ---------------------------------------------------------------- rebase *)

Lemma run_rebase_older : forall w tg, Inv w -> PPO w -> PPO (fst (run_rebase w tg)).
Proof.
  intros w tg Hi A. unfold run_rebase.
  destruct (open_stack PRequire w) as [op|] eqn:Eo; [|exact A].
  pose proof (open_stack_older _ _ _ Eo A) as Aop. apply (open_ok _ _ _ Hi) in Eo.
  destruct (resolve_gtarget (op_world op) tg) as [target|] eqn:Et; [|exact Aop].
  apply (resolve_gtarget_plain _ _ _ (proj1 Eo)) in Et.
  destruct (Nat.eqb target (op_base op)); [exact Aop|].
  destruct (negb (head_top_ok op)); [exact Aop|].
  destruct (dirty (op_world op)); [exact Aop|].
  match goal with |- context [transact ?o ?a ?f ?m] =>
    assert (Hm : (Inv (fst (transact o a f m))
                  /\ store_extends (w_objs (op_world op)) (w_objs (fst (transact o a f m))))
                 /\ PPO (fst (transact o a f m)));
    [|destruct (transact o a f m) as [w2 x] eqn:Etr] end.
  { split; [split|].
    - apply transact_inv; [exact Eo| |cbn [frame]; apply fr_pop].
      intros W. cbn [good res_sat].
      destruct (pop_patches _ _) as [t1 inc] eqn:Ep. cbn [fst].
      now apply (pop_wf _ _ _ _ W) in Ep as [W1 _].
    - apply transact_extends. cbn [frame]. apply fr_pop.
    - apply transact_ob; [exact Eo|exact Aop|]. intros t H. cbn [rs].
      destruct (pop_patches _ t) as [t1 inc] eqn:Ep. cbn [fst]. eapply ob_pop; eauto. }
  cbn [fst] in Hm. destruct Hm as [[Hi2 He2] A2]. destruct x; try exact A2.
  pose proof (Inv_reset_hard w2 target (tree_of (w_objs w2) target) false Hi2
                (is_plain_ext _ _ _ He2 Et)) as Hi3.
  match goal with |- context [open_stack PRequire ?w3'] => set (w3 := w3') in * end.
  assert (A3 : PPO w3) by exact A2.
  destruct (open_stack PRequire w3) as [op3|] eqn:Eo3; [|exact A3].
  pose proof (open_stack_older _ _ _ Eo3 A3) as Aop3.
  apply (open_ok _ _ _ Hi3) in Eo3.
  destruct (log_extmods_first op3) as [op4|] eqn:El; [|exact Aop3].
  pose proof (log_extmods_first_older _ _ El Aop3) as Aop4.
  apply (log_extmods_first_ok _ _ Eo3) in El.
  destruct (negb (head_top_ok op4)); [exact Aop4|].
  apply transact_ob; [exact El|exact Aop4|apply push_patches_ob].
Qed.

(* ---------------------------------------------------------------- squash *)

Lemma try_squash_ob : forall b t ps meta msg t1 o,
  try_squash t ps meta msg = Some (t1, o) -> ob b t -> ob b t1 /\ is_plain (t_objs t1) o.
Proof.
  intros b t ps meta msg t1 o E H. unfold try_squash in E.
  destruct ps as [|b0 rest]; [discriminate|].
  destruct (t_patch t b0) as [bc|] eqn:Eb; [|discriminate].
  destruct (squash_tree (t_objs t) t rest (tree_of (t_objs t) bc)) as [tr|]; [|discriminate].
  unfold put in E. injection E as <- <-. split.
  - apply ob_put; [exact H|]. intros p Hp.
    exact (ob_closed b t H bc p (ob_patch b t b0 bc H Eb) Hp).
  - cbn [t_objs set_objs]. apply plain_new.
Qed.

Lemma squash_finish_ob : forall b newn o to_push sp t,
  ob b t -> is_plain (t_objs t) o -> rs (ob b) (squash_finish newn o to_push sp t).
Proof.
  intros b newn o to_push sp t H Ho. unfold squash_finish.
  apply rs_tbind; [now apply new_unapplied_ob'|apply push_patches_ob].
Qed.

Lemma squash_closure_ob : forall b ps newn meta msg sp, okeeps b (squash_closure ps newn meta msg sp).
Proof.
  intros b ps newn meta msg sp t H. unfold squash_closure.
  destruct (try_squash t ps meta msg) as [[t1 o]|] eqn:Et.
  - destruct (try_squash_ob b _ _ _ _ _ _ Et H) as [H1 Ho].
    destruct (delete_patches _ t1) as [t2 tp] eqn:DP.
    pose proof (delete_objs_eq _ _ _ _ DP) as E2.
    apply (ob_delete b) in DP; [|exact H1].
    apply squash_finish_ob; [exact DP|now rewrite E2].
  - destruct (pop_patches _ t) as [t1 tp] eqn:PP. apply (ob_pop b) in PP; [|exact H].
    apply rs_tbind; [now apply push_patches_ob|].
    intros t2 H2. cbv beta.
    destruct (try_squash t2 ps meta msg) as [[t3 o]|] eqn:Et2; [|exact H2].
    destruct (try_squash_ob b _ _ _ _ _ _ Et2 H2) as [H3 Ho].
    destruct (delete_patches _ t3) as [t4 extra] eqn:DP.
    pose proof (delete_objs_eq _ _ _ _ DP) as E4.
    apply (ob_delete b) in DP; [|exact H3].
    destruct extra; [|exact I]. apply squash_finish_ob; [exact DP|now rewrite E4].
Qed.

Lemma run_squash_older : forall w r nm meta msg, Inv w -> PPO w -> PPO (fst (run_squash w r nm meta msg)).
Proof.
  intros w r nm meta msg Hi A. unfold run_squash.
  destruct (parse_ranges r) as [prs|]; [|exact A].
  destruct (from_str nm) as [newn|]; [|exact A].
  destruct (open_stack PAllow w) as [op|] eqn:Eo; [|exact A].
  pose proof (open_stack_older _ _ _ Eo A) as Aop. apply (open_ok _ _ _ Hi) in Eo.
  cbv zeta.
  destruct (w_unmerged _); [exact Aop|].
  destruct (negb _); [exact Aop|].
  unfold rres_bind.
  match goal with |- plain_parents_older (w_objs (fst (match ?r with ROk _ => _ | RErr _ => _ | RPanic => _ end))) =>
    destruct r as [ps| |]; [|exact Aop|exact Aop] end.
  destruct (_ && _); [exact Aop|].
  destruct (Nat.ltb _ _); [exact Aop|].
  rewrite squash_exit_fst.
  apply transact_ob; [exact Eo|exact Aop|apply squash_closure_ob].
Qed.

(* ---------------------------------------------------------------- pick *)

Lemma pick_body_ob : forall b pn o na, is_plain b o -> okeeps b (pick_body pn o na).
Proof.
  intros b pn o na Ho t H. unfold pick_body.
  apply rs_tbind; [now apply new_unapplied_ob|].
  intros t2 H2. destruct na; [exact H2|now apply push_patches_ob].
Qed.

Lemma run_pick_older : forall lower_s w src nm na, Inv w -> PPO w ->
  PPO (fst (run_pick lower_s w src nm na)).
Proof.
  intros lower_s w src nm na Hi A.
  destruct (run_pick_case lower_s w src nm na) as
    [_|_|op Eo|op given o Eo _ _ _ _|op given o pn0 Eo _ _ _ _ _|op given o pn0 pn c par Eo Eg _ _ Es Ec Eu _ Ep];
    cbn [fst]; try exact A;
    pose proof (open_stack_older _ _ _ Eo A) as Aop; try exact Aop.
  apply (open_ok _ _ _ Hi) in Eo.
  assert (Hpar : is_plain (w_objs (op_world op)) par).
  { pose proof (pick_source_plain op src o Eo Es) as Ho.
    destruct Eo as [Hiw _]. apply Inv_iff in Hiw as [[Hcl _] _]. eapply first_parent_plain; eauto. }
  apply transact_ob.
  - eapply pick_op_ok; eauto.
  - unfold pick_op, pick_commit. cbn [op_world with_objs w_objs].
    apply ppo_put_plain; [exact Aop|]. intros p [<-|[]]. exact Hpar.
  - apply pick_body_ob. unfold pick_op, pick_commit. cbn [op_world with_objs w_objs]. apply plain_new.
Qed.

(* ---------------------------------------------------------------- the theorems *)

Lemma step_plain_parents_older :
  forall lower_s, LowerOK lower_s ->
  forall w c, in_scope c = true -> Inv w -> plain_parents_older (w_objs w) ->
    plain_parents_older (w_objs (fst (step lower_s w c))).
Proof.
  intros lower_s HL w c SC Hi A.
  destruct c; try (apply step_plain_parents_older_core; [reflexivity|exact Hi|exact A]); cbn [step].
  - now apply run_new_older.
  - now apply run_refresh_older.
  - now apply run_push_older.
  - now apply run_pop_older.
  - now apply run_goto_older.
  - now apply run_float_older.
  - now apply run_sink_older.
  - now apply run_delete_older.
  - now apply run_hide_older.
  - now apply run_unhide_older.
  - now apply run_rename_older.
  - now apply run_commit_older.
  - now apply run_uncommit_older.
  - now apply run_clean_older.
  - now apply run_spill_older.
  - now apply run_undo_older.
  - now apply run_redo_older.
  - match goal with |- context [run_reset _ _ ?r _] => destruct r; [discriminate SC|] end.
    now apply run_reset_older.
  - now apply run_repair_older.
  - now apply run_log_clear_older.
  - now apply run_edit_older.
  - now apply run_rebase_older.
  - now apply run_squash_older.
  - now apply run_pick_older.
Qed.

Lemma run_plain_parents_older :
  forall lower_s, LowerOK lower_s ->
  forall cs w, forallb in_scope cs = true -> Inv w -> plain_parents_older (w_objs w) ->
    plain_parents_older (w_objs (run lower_s w cs)).
Proof.
  intros lower_s HL. induction cs as [|c cs IH]; intros w SC Hi A; cbn [run]; [exact A|].
  cbn [forallb] in SC. apply andb_true_iff in SC as [SC1 SC2].
  apply IH; [exact SC2| |].
  - now apply step_inv.
  - now apply step_plain_parents_older.
Qed.

Lemma reachable_plain_parents_older :
  forall lower_s, LowerOK lower_s ->
  forall t cs, forallb in_scope cs = true ->
    plain_parents_older (w_objs (run lower_s (init_world t) cs)).
Proof.
  intros lower_s HL t cs SC. apply run_plain_parents_older; [exact HL|exact SC|apply init_inv|].
  apply init_plain_parents_older.
Qed.
