(* C02: the two statements that were false as first pinned, on explicit data.
   (Not imported by Properties/C02.v; kept as a record of why the statements were amended.) *)
From StgV Require Import Model.StackSpec.
Local Open Scope nat_scope.

Definition cx_nm : name := [112%N].
Definition cx_objs : store :=
  [ plain [] [1%N] 0%N [];          (* 0: old parent of the patch, tree [1] *)
    plain [0] [2%N] 0%N [];         (* 1: the patch commit, tree [2] *)
    plain [0] [3%N] 0%N [] ].       (* 2: the stack base = new parent, tree [3] *)

(* (1) conflict_on_top without the premise on the temp-index cache: a cached id equal to the
   patch's own tree swaps ours/theirs, and the conflict commit gets the patch's tree. *)
Definition cx_t0 : txn :=
  mkTxn (mkState None 2 [] [cx_nm] [] [(cx_nm, 1)]) 2 2 (mkOpts CDisallow true false true true false)
        [] [cx_nm] [] [] None None [3%N] cx_objs (Some [2%N]) [2%N] [3%N] false.

Example conflict_on_top_unrestricted_refuted :
  match push_patch cx_nm false cx_t0 with
  | THalt t' HConflict =>
      match t_patch t' cx_nm with
      | Some o => t_top cx_t0 = Some 2 /\ parents_of (t_objs t') o = [2]
                  /\ tree_of (t_objs t') o = [2%N] /\ tree_of (t_objs cx_t0) 2 = [3%N]
      | None => False
      end
  | _ => False
  end.
Proof. vm_compute. repeat split. Qed.

(* (2) execute_head without the second disjunct: status 3 is also the failed roll-back, where
   no state is published. *)
Definition cx_w0 : world := mkWorld cx_objs 2 None [] [3%N] true 2 true.
Definition cx_t1 : txn :=
  mkTxn (mkState None 2 [] [] [] []) 2 2 (mkOpts CDisallow true false true true false)
        [] [] [] [] None None [7%N] cx_objs None [] [3%N] true.

Example execute_head_unrestricted_refuted :
  let '(w', x) := execute cx_w0 (TOk cx_t1) MOp in
  x = X3 /\ o_set_head (t_opts cx_t1) = true /\ cur_state w' = None.
Proof. vm_compute. repeat split. Qed.
