(* C06, part 1: reachability basics, parent grouping, parent sets, state commits. *)
From Coq Require Import Lia.
From StgV Require Import Model.StackSpec Model.LogSpec.
Local Open Scope nat_scope.

(* ---------------------------------------------------------------- store extension *)

Definition ext_by (P : commit -> Prop) (a b : store) : Prop :=
  exists ext, b = a ++ ext /\ Forall P ext.

Definition plainc (c : commit) : Prop := c_state c = None.

Definition plain_extends : store -> store -> Prop := ext_by plainc.

Lemma ext_by_refl : forall P a, ext_by P a a.
Proof. intros P a. exists []. split. now rewrite app_nil_r. constructor. Qed.

Lemma ext_by_trans : forall P a b c, ext_by P a b -> ext_by P b c -> ext_by P a c.
Proof.
  intros P a b c [e1 [E1 F1]] [e2 [E2 F2]]. exists (e1 ++ e2). split.
  - subst. now rewrite app_assoc.
  - apply Forall_app. now split.
Qed.

Lemma ext_by_weaken : forall (P Q : commit -> Prop) a b,
  (forall c, P c -> Q c) -> ext_by P a b -> ext_by Q a b.
Proof.
  intros P Q a b HPQ [e [E F]]. exists e. split; [exact E|].
  eapply Forall_impl; eauto.
Qed.

Lemma ext_by_put : forall (P : commit -> Prop) a c, P c -> ext_by P a (a ++ [c]).
Proof. intros P a c Hc. exists [c]. split; [reflexivity|]. constructor; [exact Hc|constructor]. Qed.

Lemma ext_by_extends : forall P a b, ext_by P a b -> store_extends a b.
Proof. intros P a b [e [E _]]. exists e. exact E. Qed.

Lemma store_extends_refl : forall a, store_extends a a.
Proof. intros a. exists []. now rewrite app_nil_r. Qed.

Lemma store_extends_trans : forall a b c, store_extends a b -> store_extends b c -> store_extends a c.
Proof. intros a b c [e1 E1] [e2 E2]. exists (e1 ++ e2). subst. now rewrite app_assoc. Qed.

Lemma store_extends_len : forall a b, store_extends a b -> length a <= length b.
Proof. intros a b [e E]. subst. rewrite app_length. lia. Qed.

Lemma get_ext : forall a b o c, store_extends a b -> get a o = Some c -> get b o = Some c.
Proof.
  intros a b o c [e E] H. subst. unfold get in *. rewrite nth_error_app1; [exact H|].
  apply nth_error_Some. congruence.
Qed.

Lemma get_ext_lt : forall a b o, store_extends a b -> o < length a -> get b o = get a o.
Proof. intros a b o [e E] H. subst. unfold get. now rewrite nth_error_app1. Qed.

Lemma get_lt : forall a o c, get a o = Some c -> o < length a.
Proof. intros a o c H. unfold get in H. apply nth_error_Some. congruence. Qed.

Lemma get_new : forall a c, get (a ++ [c]) (length a) = Some c.
Proof. intros a c. unfold get. rewrite nth_error_app2; [|lia]. now rewrite Nat.sub_diag. Qed.

Lemma get_ext_ge : forall (P : commit -> Prop) a b o c,
  ext_by P a b -> get b o = Some c -> length a <= o -> P c.
Proof.
  intros P a b o c [e [E F]] H Hle. subst. unfold get in H.
  rewrite nth_error_app2 in H; [|exact Hle].
  rewrite Forall_forall in F. apply F. eapply nth_error_In; eauto.
Qed.

Lemma state_of_ext : forall a b o s, store_extends a b -> state_of a o = Some s -> state_of b o = Some s.
Proof.
  intros a b o s E H. unfold state_of in *. destruct (get a o) eqn:G; [|discriminate].
  now rewrite (get_ext _ _ _ _ E G).
Qed.

Lemma state_of_lt : forall a o s, state_of a o = Some s -> o < length a.
Proof.
  intros a o s H. unfold state_of in H. destruct (get a o) eqn:G; [|discriminate].
  eapply get_lt; eauto.
Qed.

Lemma state_of_ext_lt : forall a b o, store_extends a b -> o < length a -> state_of b o = state_of a o.
Proof. intros a b o E H. unfold state_of. now rewrite (get_ext_lt _ _ _ E H). Qed.

Lemma state_of_plain_ext : forall a b o s,
  plain_extends a b -> state_of b o = Some s -> o < length a /\ state_of a o = Some s.
Proof.
  intros a b o s E H. destruct (Nat.lt_ge_cases o (length a)) as [Hlt|Hge].
  - split; [exact Hlt|]. rewrite <- H. symmetry. apply state_of_ext_lt; [|exact Hlt].
    eapply ext_by_extends; eauto.
  - exfalso. unfold state_of in H. destruct (get b o) eqn:G; [|discriminate].
    pose proof (get_ext_ge _ _ _ _ _ E G Hge) as Hp. unfold plainc in Hp. congruence.
Qed.

Lemma parents_of_ext : forall a b o p, store_extends a b -> In p (parents_of a o) -> In p (parents_of b o).
Proof.
  intros a b o p E H. unfold parents_of in *. destruct (get a o) eqn:G; [|destruct H].
  now rewrite (get_ext _ _ _ _ E G).
Qed.

(* ---------------------------------------------------------------- reach *)

Lemma reach_trans : forall objs a b c, reach objs a b -> reach objs b c -> reach objs a c.
Proof.
  intros objs a b c H. induction H as [a|a p b Hin Hr IH]; intros Hbc; [exact Hbc|].
  eapply reach_step; eauto.
Qed.

Lemma reach_ext : forall a b x y, store_extends a b -> reach a x y -> reach b x y.
Proof.
  intros a b x y E H. induction H as [x|x p y Hin Hr IH]; [constructor|].
  eapply reach_step; [|exact IH]. eapply parents_of_ext; eauto.
Qed.

Lemma reach_parent : forall objs a c p, get objs a = Some c -> In p (c_parents c) -> reach objs a p.
Proof.
  intros objs a c p G Hin. eapply reach_step; [|constructor].
  unfold parents_of. now rewrite G.
Qed.

(* ---------------------------------------------------------------- on_log *)

Lemma on_log_ext : forall a b top so, store_extends a b -> on_log a top so -> on_log b top so.
Proof.
  intros a b top so E H. induction H as [top|top s p so Hs Hp Hl IH]; [constructor|].
  eapply on_log_prev; eauto. eapply state_of_ext; eauto.
Qed.

Lemma on_log_trans : forall objs a b c, on_log objs a b -> on_log objs b c -> on_log objs a c.
Proof.
  intros objs a b c H. induction H as [top|top s p so Hs Hp Hl IH]; intros Hbc; [exact Hbc|].
  eapply on_log_prev; eauto.
Qed.

Lemma on_log_le : forall objs top so, prev_decreasing objs -> on_log objs top so -> so <= top.
Proof.
  intros objs top so PD H. induction H as [top|top s p so Hs Hp Hl IH]; [lia|].
  pose proof (PD _ _ _ Hs Hp). lia.
Qed.

(* the log of an old state commit does not change when the store grows *)
Lemma on_log_restrict : forall a b top so,
  store_extends a b -> prev_decreasing a -> top < length a ->
  on_log b top so -> on_log a top so.
Proof.
  intros a b top so E PD Hlt H. induction H as [top|top s p so Hs Hp Hl IH]; [constructor|].
  rewrite (state_of_ext_lt _ _ _ E Hlt) in Hs.
  pose proof (PD _ _ _ Hs Hp) as Hlt'.
  eapply on_log_prev; eauto. apply IH. lia.
Qed.

(* ---------------------------------------------------------------- group_parents *)

Lemma group_parents_ext : forall fuel maxp objs tree ps objs' ps',
  group_parents fuel maxp objs tree ps = (objs', ps') -> plain_extends objs objs'.
Proof.
  induction fuel as [|fuel IH]; intros maxp objs tree ps objs' ps' H; cbn [group_parents] in H.
  - inversion H; subst. apply ext_by_refl.
  - destruct (Nat.ltb maxp (length ps)).
    + unfold put in H. apply IH in H. eapply ext_by_trans; [|exact H].
      apply ext_by_put. reflexivity.
    + inversion H; subst. apply ext_by_refl.
Qed.

Lemma group_parents_len : forall fuel maxp objs tree ps objs' ps',
  2 <= maxp -> length ps <= fuel + maxp ->
  group_parents fuel maxp objs tree ps = (objs', ps') -> length ps' <= maxp.
Proof.
  induction fuel as [|fuel IH]; intros maxp objs tree ps objs' ps' Hm Hl H; cbn [group_parents] in H.
  - inversion H; subst. lia.
  - destruct (Nat.ltb maxp (length ps)) eqn:L.
    + apply Nat.ltb_lt in L. unfold put in H. eapply IH; [exact Hm| |exact H].
      rewrite app_length, firstn_length. cbn [length]. lia.
    + apply Nat.ltb_ge in L. inversion H; subst. exact L.
Qed.

Lemma group_parents_reach : forall fuel maxp objs tree ps objs' ps',
  group_parents fuel maxp objs tree ps = (objs', ps') ->
  forall p, In p ps -> exists q, In q ps' /\ reach objs' q p.
Proof.
  induction fuel as [|fuel IH]; intros maxp objs tree ps objs' ps' H p Hp; cbn [group_parents] in H.
  - inversion H; subst. exists p. split; [exact Hp|constructor].
  - destruct (Nat.ltb maxp (length ps)) eqn:L.
    + unfold put in H.
      set (k := length ps - maxp) in *.
      set (c := mkCommit (skipn k ps) tree 0%N [] None MGroup) in *.
      pose proof (group_parents_ext _ _ _ _ _ _ _ H) as E.
      apply ext_by_extends in E.
      rewrite <- (firstn_skipn k ps) in Hp. apply in_app_or in Hp. destruct Hp as [Hk|Hg].
      * eapply IH; [exact H|]. apply in_or_app. now left.
      * destruct (IH _ _ _ _ _ _ H (length objs)) as [q [Hq Hr]].
        { apply in_or_app. right. now left. }
        exists q. split; [exact Hq|]. eapply reach_trans; [exact Hr|].
        eapply reach_parent; [eapply get_ext; [exact E|apply get_new]|]. exact Hg.
    + inversion H; subst. exists p. split; [exact Hp|constructor].
Qed.

Lemma group_bound : forall objs tree ps objs' ps',
  group_parents (length ps) max_parents_nat objs tree ps = (objs', ps') ->
  length ps' <= max_parents_nat /\ store_extends objs objs'.
Proof.
  intros objs tree ps objs' ps' H. split.
  - eapply group_parents_len; [| |exact H]; unfold max_parents_nat; lia.
  - eapply ext_by_extends. eapply group_parents_ext; eauto.
Qed.

Lemma group_reach : forall objs tree ps objs' ps',
  group_parents (length ps) max_parents_nat objs tree ps = (objs', ps') ->
  (forall p, In p ps -> p < length objs) ->
  forall p, In p ps -> exists q, In q ps' /\ reach objs' q p.
Proof. intros objs tree ps objs' ps' H _. eapply group_parents_reach; eauto. Qed.

(* ---------------------------------------------------------------- ordered sets *)

Lemma oset_insert_in : forall l o x, In x (oset_insert l o) <-> In x l \/ x = o.
Proof.
  induction l as [|y l IH]; intros o x; cbn [oset_insert].
  - cbn. intuition.
  - destruct (Nat.eqb y o) eqn:E.
    + apply Nat.eqb_eq in E. subst. cbn. intuition.
    + cbn. rewrite IH. intuition.
Qed.

Lemma fold_insert_in : forall (f : name -> oid) ns l x,
  In x (fold_left (fun l n => oset_insert l (f n)) ns l) <-> In x l \/ exists n, In n ns /\ x = f n.
Proof.
  intros f. induction ns as [|n ns IH]; intros l x; cbn [fold_left].
  - split; [now left|]. intros [H|[n [[] _]]]. exact H.
  - rewrite IH, oset_insert_in. split.
    + intros [[H|H]|[m [Hm E]]].
      * now left.
      * right. exists n. split; [now left|exact H].
      * right. exists m. split; [now right|exact E].
    + intros [H|[m [[Hm|Hm] E]]].
      * left. now left.
      * subst. left. now right.
      * right. exists m. now split.
Qed.

Lemma oset_remove_in : forall l o x, In x (oset_remove l o) <-> In x l /\ x <> o.
Proof.
  intros l o x. unfold oset_remove. rewrite filter_In. split.
  - intros [H E]. split; [exact H|]. apply Bool.negb_true_iff in E. now apply Nat.eqb_neq in E.
  - intros [H E]. split; [exact H|]. apply Bool.negb_true_iff. now apply Nat.eqb_neq.
Qed.

Lemma fold_remove_in : forall (f : name -> oid) ns l x,
  In x (fold_left (fun l n => oset_remove l (f n)) ns l) <-> In x l /\ forall n, In n ns -> x <> f n.
Proof.
  intros f. induction ns as [|n ns IH]; intros l x; cbn [fold_left].
  - split; [intros H; split; [exact H|intros n []]|now intros [H _]].
  - rewrite IH, oset_remove_in. split.
    + intros [[H E] A]. split; [exact H|]. intros m [Hm|Hm]; [now subst|now apply A].
    + intros [H A]. split; [split; [exact H|apply A; now left]|]. intros m Hm. apply A. now right.
Qed.

Lemma in_image_dec : forall (f : name -> oid) ns x,
  (forall n, In n ns -> x <> f n) \/ (exists n, In n ns /\ x = f n).
Proof.
  intros f. induction ns as [|n ns IH]; intros x.
  - left. intros n [].
  - destruct (Nat.eq_dec x (f n)) as [E|NE].
    + right. exists n. split; [now left|exact E].
    + destruct (IH x) as [A|[m [Hm E]]].
      * left. intros m [Hm|Hm]; [now subst|now apply A].
      * right. exists m. split; [now right|exact E].
Qed.

(* ---------------------------------------------------------------- parent_set *)

Lemma parent_set_none_in : forall s x,
  In x (parent_set s None) <->
  x = s_head s \/ x = s_top s
  \/ (exists n, In n (s_unapplied s) /\ x = patch_oid s n)
  \/ (exists n, In n (s_hidden s) /\ x = patch_oid s n).
Proof.
  intros s x. unfold parent_set. rewrite !fold_insert_in, !oset_insert_in. cbn [In]. intuition.
Qed.

Lemma parent_set_some_in : forall s po ps x,
  In x (parent_set s (Some (po, ps))) <->
  (In x (parent_set s None) \/ x = po) /\ forall n, In n (all_of ps) -> x <> patch_oid ps n.
Proof.
  intros s po ps x. unfold parent_set at 1. rewrite fold_remove_in, oset_insert_in.
  unfold parent_set. reflexivity.
Qed.

Lemma parent_set_split : forall s po ps x,
  In x (parent_set s None) ->
  In x (parent_set s (Some (po, ps))) \/ exists n, In n (all_of ps) /\ patch_oid ps n = x.
Proof.
  intros s po ps x H. destruct (in_image_dec (patch_oid ps) (all_of ps) x) as [A|[n [Hn E]]].
  - left. apply parent_set_some_in. split; [now left|exact A].
  - right. exists n. split; [exact Hn|now symmetry].
Qed.

(* ---------------------------------------------------------------- state_commit *)

(* objects written by a state commit: grouping commits and (simplified / full) commits of [s] *)
Definition statec (s : sstate) (c : commit) : Prop := c_state c = None \/ c_state c = Some s.

Lemma state_commit_inv : forall objs s msg objs' so,
  state_commit objs s msg = Some (objs', so) ->
  exists prev sp objs2 grouped,
    (match s_prev s with
     | None => prev = None
     | Some po => exists ps, state_of objs po = Some ps /\ prev = Some (po, ps)
     end)
    /\ group_parents (length (parent_set s prev)) max_parents_nat
                     (objs ++ [mkCommit sp [] 0%N [] (Some s) msg]) [] (parent_set s prev)
       = (objs2, grouped)
    /\ objs' = objs2 ++ [mkCommit (length objs :: grouped) [] 0%N [] (Some s) msg]
    /\ so = length objs2.
Proof.
  intros objs s msg objs' so H. unfold state_commit in H.
  destruct (s_prev s) as [po|] eqn:P.
  - destruct (state_of objs po) as [ps|] eqn:S; [|discriminate].
    destruct (first_parent objs po) as [fp|]; [|discriminate].
    unfold put in H.
    destruct (group_parents _ _ _ _ _) as [objs2 grouped] eqn:G.
    inversion H; subst. exists (Some (po, ps)), [fp], objs2, grouped.
    split; [exists ps; now split|]. split; [exact G|]. now split.
  - unfold put in H.
    destruct (group_parents _ _ _ _ _) as [objs2 grouped] eqn:G.
    inversion H; subst. exists None, [], objs2, grouped.
    split; [reflexivity|]. split; [exact G|]. now split.
Qed.

Lemma state_commit_strong : forall objs s msg objs' so,
  state_commit objs s msg = Some (objs', so) ->
  ext_by (statec s) objs objs'
  /\ length objs <= so
  /\ state_of objs' so = Some s
  /\ (forall p, s_prev s = Some p -> exists ps, state_of objs p = Some ps)
  /\ (forall p, s_prev s = Some p ->
        (forall ps n, state_of objs p = Some ps -> In n (all_of ps) -> patch_oid ps n <> p) ->
        reach objs' so p)
  /\ (forall o, In o (parent_set s None) ->
        reach objs' so o
        \/ exists p ps n, s_prev s = Some p /\ state_of objs p = Some ps
                          /\ In n (all_of ps) /\ patch_oid ps n = o).
Proof.
  intros objs s msg objs' so H.
  destruct (state_commit_inv _ _ _ _ _ H) as [prev [sp [objs2 [grouped [Hprev [G [E1 E2]]]]]]].
  pose proof (group_parents_ext _ _ _ _ _ _ _ G) as PE.
  assert (Hso : get objs' so = Some (mkCommit (length objs :: grouped) [] 0%N [] (Some s) msg)).
  { subst. apply get_new. }
  assert (Hreach : forall o, In o (parent_set s prev) -> reach objs' so o).
  { intros o Ho. destruct (group_parents_reach _ _ _ _ _ _ _ G o Ho) as [q [Hq Hr]].
    eapply reach_trans.
    - eapply reach_parent; [exact Hso|]. cbn [c_parents]. right. exact Hq.
    - eapply reach_ext; [|exact Hr]. subst objs'. exists [mkCommit (length objs :: grouped) [] 0%N [] (Some s) msg].
      reflexivity. }
  split; [|split; [|split; [|split; [|split]]]].
  - subst objs'. apply (ext_by_trans _ _ objs2); [|apply ext_by_put; right; reflexivity].
    apply (ext_by_trans _ _ (objs ++ [mkCommit sp [] 0%N [] (Some s) msg]));
      [apply ext_by_put; right; reflexivity|].
    eapply ext_by_weaken; [|exact PE]. intros c Hc. left. exact Hc.
  - subst so. apply ext_by_extends, store_extends_len in PE. rewrite app_length in PE. lia.
  - unfold state_of. now rewrite Hso.
  - intros p Hp. rewrite Hp in Hprev. destruct Hprev as [ps [Hps _]]. now exists ps.
  - intros p Hp Hne. rewrite Hp in Hprev. destruct Hprev as [ps [Hps Eprev]].
    apply Hreach. subst prev. apply parent_set_some_in. split; [now right|].
    intros n Hn E. eapply Hne; eauto.
  - intros o Ho. destruct (s_prev s) as [po|] eqn:P.
    + destruct Hprev as [ps [Hps Eprev]]. subst prev.
      destruct (parent_set_split s po ps o Ho) as [Hin|[n [Hn En]]].
      * left. now apply Hreach.
      * right. exists po, ps, n. repeat split; assumption.
    + subst prev. left. now apply Hreach.
Qed.

Lemma state_commit_reaches_partial : forall objs s msg objs' so,
  state_commit objs s msg = Some (objs', so) ->
  (forall o, In o (parent_set s None) -> o < length objs) ->
  (forall p, s_prev s = Some p -> p < length objs) ->
  (* extra hypothesis: the previous state commit is not one of its own patch commits *)
  (forall p ps n, s_prev s = Some p -> state_of objs p = Some ps -> In n (all_of ps) ->
                  patch_oid ps n <> p) ->
  store_extends objs objs'
  /\ state_of objs' so = Some s
  /\ (forall p, s_prev s = Some p -> reach objs' so p)
  /\ (forall o, In o (parent_set s None) ->
        reach objs' so o
        \/ exists p ps n, s_prev s = Some p /\ state_of objs p = Some ps
                          /\ In n (all_of ps) /\ patch_oid ps n = o).
Proof.
  intros objs s msg objs' so H _ _ Hne.
  destruct (state_commit_strong _ _ _ _ _ H) as [E [_ [S [_ [R1 R2]]]]].
  split; [eapply ext_by_extends; eauto|]. split; [exact S|]. split; [|exact R2].
  intros p Hp. apply R1; [exact Hp|]. intros ps n. now apply Hne.
Qed.

(* The pinned statement (without the extra hypothesis) is false: the previous state commit
   (oid 0) records itself as the commit of its patch "n", so the new state commit leaves
   it out of its parents. *)
Module Counterexample.
  Definition ps : sstate := mkState None 1 [[110%N]] [] [] [([110%N], 0)].
  Definition c0 : commit := mkCommit [5] [] 0%N [] (Some ps) MOp.
  Definition c1 : commit := plain [] [] 0%N [].
  Definition objs : store := [c0; c1].
  Definition s : sstate := mkState (Some 0) 1 [] [] [] [].

  Definition result := state_commit objs s MOp.

  Lemma result_eq :
    result = Some ([c0; c1; mkCommit [5] [] 0%N [] (Some s) MOp;
                    mkCommit [2; 1] [] 0%N [] (Some s) MOp], 3).
  Proof. vm_compute. reflexivity. Qed.

  Lemma hyp1 : forall o, In o (parent_set s None) -> o < length objs.
  Proof. vm_compute. intros o [H|[]]. subst. lia. Qed.

  Lemma hyp2 : forall p, s_prev s = Some p -> p < length objs.
  Proof. vm_compute. intros p H. inversion H. lia. Qed.

  Lemma not_reached :
    forall objs' so, result = Some (objs', so) -> ~ reach objs' so 0.
  Proof.
    intros objs' so H. rewrite result_eq in H. inversion H; subst. clear H.
    intros R.
    inversion R as [|a p b Hin R1]; subst. cbn in Hin. destruct Hin as [E|[E|[]]]; subst.
    - inversion R1 as [|a p b Hin R2]; subst. cbn in Hin. destruct Hin as [E|[]]; subst.
      inversion R2 as [|a p b Hin R3]; subst. cbn in Hin. destruct Hin.
    - inversion R1 as [|a p b Hin R2]; subst. cbn in Hin. destruct Hin.
  Qed.

  (* hence the third conjunct of the pinned statement fails on this instance *)
  Lemma pinned_statement_false :
    ~ (forall objs s msg objs' so,
         state_commit objs s msg = Some (objs', so) ->
         (forall o, In o (parent_set s None) -> o < length objs) ->
         (forall p, s_prev s = Some p -> p < length objs) ->
         store_extends objs objs'
         /\ state_of objs' so = Some s
         /\ (forall p, s_prev s = Some p -> reach objs' so p)
         /\ (forall o, In o (parent_set s None) ->
               reach objs' so o
               \/ exists p ps n, s_prev s = Some p /\ state_of objs p = Some ps
                                 /\ In n (all_of ps) /\ patch_oid ps n = o)).
  Proof.
    intros C. destruct (C objs s MOp _ _ result_eq hyp1 hyp2) as [_ [_ [R _]]].
    eapply not_reached; [exact result_eq|]. apply R. reflexivity.
  Qed.
End Counterexample.
