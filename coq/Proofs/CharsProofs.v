(* Generic facts about the string model (Model/Chars.v) used by the C14 proofs. *)
From StgV Require Import Model.Chars Model.Name Model.NameSpec.
From Coq Require Import Lia ZifyBool.

Ltac unfold_chars :=
  unfold safe_out, okchar, git_bad_char, pn_break_char, forbidden_char, is_dash_or_dot, is_dot,
    is_ascii_alnum, is_ascii_hexdigit, is_ascii_digit, is_ascii_upper, is_ascii_lower,
    is_ascii, is_whitespace, is_control, is_ascii_whitespace,
    ch_nl, ch_cr, ch_space, ch_dash, ch_dot, ch_slash, ch_colon, ch_qmark, ch_at, ch_lbrack,
    ch_bslash, ch_caret, ch_uscore, ch_lbrace, ch_rbrace, ch_tilde, ch_del, ch_star, ch_plus in *.
Ltac charlia := unfold_chars; lia.

(* ---------------------------------------------------------------- equality, prefixes *)

Lemma str_eqb_eq : forall a b, str_eqb a b = true <-> a = b.
Proof.
  induction a as [|x a IH]; intros [|y b]; cbn; split; try congruence; try discriminate.
  - intros H. apply andb_true_iff in H as [H1 H2]. apply N.eqb_eq in H1.
    apply IH in H2. congruence.
  - intros H. injection H as -> ->. rewrite N.eqb_refl. apply IH. reflexivity.
Qed.

Lemma str_eqb_refl : forall a, str_eqb a a = true.
Proof. intros a. apply str_eqb_eq. reflexivity. Qed.

Lemma starts_with_iff : forall p s, starts_with p s = true <-> exists t, s = p ++ t.
Proof.
  induction p as [|x p IH]; intros s; cbn.
  - split; eauto.
  - destruct s as [|y s].
    + split; [discriminate|]. intros [t Ht]. discriminate.
    + rewrite andb_true_iff, N.eqb_eq, IH. split.
      * intros [-> [t ->]]. eauto.
      * intros [t Ht]. injection Ht as -> ->. eauto.
Qed.

Lemma ends_with_iff : forall p s, ends_with p s = true <-> exists t, s = t ++ p.
Proof.
  intros p s. unfold ends_with. rewrite starts_with_iff. split.
  - intros [t Ht]. exists (rev t). rewrite <- (rev_involutive s), Ht, rev_app_distr.
    now rewrite rev_involutive.
  - intros [t ->]. exists (rev t). apply rev_app_distr.
Qed.

Lemma ends_with_false_last : forall p k s d,
  k <> d -> ends_with (p ++ [k]) (s ++ [d]) = false.
Proof.
  intros p k s d Hkd. destruct (ends_with (p ++ [k]) (s ++ [d])) eqn:E; [|reflexivity].
  apply ends_with_iff in E as [t Ht]. rewrite app_assoc in Ht.
  apply app_inj_tail in Ht as [_ Ht]. congruence.
Qed.

(* ---------------------------------------------------------------- segments *)

Definition seg (r s : str) : Prop := exists a b, s = a ++ r ++ b.

Lemma seg_refl : forall s, seg s s.
Proof. intros s. exists [], []. now rewrite app_nil_r. Qed.

Lemma seg_trans : forall a b c, seg a b -> seg b c -> seg a c.
Proof.
  intros a b c [x [y ->]] [u [v ->]]. exists (u ++ x), (y ++ v).
  now rewrite !app_assoc.
Qed.

Lemma seg_prefix : forall a b, seg a (a ++ b).
Proof. intros a b. exists [], b. reflexivity. Qed.

Lemma seg_suffix : forall a b, seg b (a ++ b).
Proof. intros a b. exists a, []. now rewrite app_nil_r. Qed.

Lemma seg_length : forall r s, seg r s -> (length r <= length s)%nat.
Proof. intros r s [a [b ->]]. rewrite !app_length. lia. Qed.

Lemma seg_len_eq : forall r s, seg r s -> length r = length s -> r = s.
Proof.
  intros r s [a [b ->]] H. rewrite !app_length in H.
  destruct a; [|cbn in H; lia]. destruct b; [|cbn in H; lia].
  cbn. now rewrite app_nil_r.
Qed.

Lemma seg_rev : forall r s, seg r s -> seg (rev r) (rev s).
Proof.
  intros r s [a [b ->]]. exists (rev b), (rev a).
  now rewrite !rev_app_distr, app_assoc.
Qed.

Lemma seg_rev_l : forall r s, seg r (rev s) -> seg (rev r) s.
Proof. intros r s H. apply seg_rev in H. now rewrite rev_involutive in H. Qed.

Lemma utf8_len_app : forall a b, utf8_len (a ++ b) = utf8_len a + utf8_len b.
Proof. induction a as [|x a IH]; intros b; cbn [utf8_len app]; [|rewrite IH]; lia. Qed.

Lemma seg_utf8 : forall r s, seg r s -> utf8_len r <= utf8_len s.
Proof. intros r s [a [b ->]]. rewrite !utf8_len_app. lia. Qed.

Lemma seg_forallb : forall f r s, seg r s -> forallb f s = true -> forallb f r = true.
Proof.
  intros f r s [a [b ->]] H. rewrite !forallb_app in H.
  apply andb_true_iff in H as [_ H]. now apply andb_true_iff in H as [H _].
Qed.

Lemma seg_In : forall r s c, seg r s -> In c r -> In c s.
Proof. intros r s c [a [b ->]] H. apply in_or_app. right. apply in_or_app. now left. Qed.

(* ---------------------------------------------------------------- drop_while and trims *)

Definition head_fails (f : N -> bool) (s : str) : Prop :=
  match s with c :: _ => f c = false | [] => True end.

Definition last_fails (f : N -> bool) (s : str) : Prop := head_fails f (rev s).

Lemma drop_while_spec : forall f s,
  exists a, s = a ++ drop_while f s /\ forallb f a = true /\ head_fails f (drop_while f s).
Proof.
  intros f. induction s as [|c s IH]; cbn.
  - exists []. cbn. auto.
  - destruct (f c) eqn:E.
    + destruct IH as [a [H1 [H2 H3]]]. exists (c :: a). cbn. rewrite E, H2.
      split; [now rewrite <- H1|auto].
    + exists []. cbn. auto.
Qed.

Lemma drop_while_seg : forall f s, seg (drop_while f s) s.
Proof.
  intros f s. destruct (drop_while_spec f s) as [a [H _]].
  rewrite H at 2. apply seg_suffix.
Qed.

Lemma drop_while_id : forall f s, head_fails f s -> drop_while f s = s.
Proof. intros f [|c s]; cbn; [reflexivity|]. now intros ->. Qed.

Lemma drop_while_app_keep : forall f a b,
  b <> [] -> head_fails f b -> drop_while f (a ++ b) = drop_while f a ++ b.
Proof.
  intros f a b Hb Hf. induction a as [|c a IH]; cbn.
  - now apply drop_while_id.
  - destruct (f c); [exact IH|reflexivity].
Qed.

Lemma trim_end_by_spec : forall f s,
  exists b, s = trim_end_by f s ++ b /\ forallb f b = true /\ last_fails f (trim_end_by f s).
Proof.
  intros f s. unfold trim_end_by, last_fails.
  destruct (drop_while_spec f (rev s)) as [a [H1 [H2 H3]]].
  exists (rev a). rewrite rev_involutive. split; [|split; [|exact H3]].
  - rewrite <- rev_app_distr, <- H1. now rewrite rev_involutive.
  - rewrite forallb_forall in *. intros x Hx. apply H2. now apply in_rev.
Qed.

Lemma trim_end_by_seg : forall f s, seg (trim_end_by f s) s.
Proof.
  intros f s. destruct (trim_end_by_spec f s) as [b [H _]]. rewrite H at 2. apply seg_prefix.
Qed.

Lemma trim_by_seg : forall f s, seg (trim_by f s) s.
Proof.
  intros f s. unfold trim_by, trim_start_by.
  eapply seg_trans; [apply trim_end_by_seg|apply drop_while_seg].
Qed.

(* the result of trim_by starts and ends with a char failing f *)
Lemma trim_by_head : forall f s, head_fails f (trim_by f s).
Proof.
  intros f s. unfold trim_by, trim_start_by.
  destruct (drop_while_spec f s) as [a [_ [_ H3]]].
  destruct (trim_end_by_spec f (drop_while f s)) as [b [H4 _]].
  destruct (trim_end_by f (drop_while f s)) as [|c t]; cbn; [exact I|].
  rewrite H4 in H3. exact H3.
Qed.

Lemma trim_by_last : forall f s, last_fails f (trim_by f s).
Proof.
  intros f s. unfold trim_by.
  destruct (trim_end_by_spec f (trim_start_by f s)) as [b [_ [_ H]]]. exact H.
Qed.

(* a string already trimmed is untouched *)
Lemma trim_by_fix_head : forall f s, trim_by f s = s -> head_fails f s.
Proof. intros f s H. rewrite <- H. apply trim_by_head. Qed.

Lemma trim_by_fix_last : forall f s, trim_by f s = s -> last_fails f s.
Proof. intros f s H. rewrite <- H. apply trim_by_last. Qed.

Lemma trim_by_keep_head : forall f c t,
  f c = false -> exists t', trim_by f (c :: t) = c :: t'.
Proof.
  intros f c t Hc. unfold trim_by, trim_start_by, trim_end_by. cbn [drop_while]. rewrite Hc.
  cbn [rev]. rewrite drop_while_app_keep; [|discriminate|exact Hc].
  rewrite rev_app_distr. cbn. eauto.
Qed.

(* ---------------------------------------------------------------- trim_end_matches_str *)

Lemma strip_prefix_rep_seg : forall fuel p s, seg (strip_prefix_rep fuel p s) s.
Proof.
  induction fuel as [|fuel IH]; intros p s; cbn; [apply seg_refl|].
  destruct p as [|x p]; [apply seg_refl|].
  destruct (starts_with (x :: p) s); [|apply seg_refl].
  eapply seg_trans; [apply IH|].
  rewrite <- (firstn_skipn (length (x :: p)) s) at 2. apply seg_suffix.
Qed.

Lemma trim_end_matches_seg : forall p s, seg (trim_end_matches_str p s) s.
Proof. intros p s. unfold trim_end_matches_str. apply seg_rev_l, strip_prefix_rep_seg. Qed.

Lemma skipn_app_exact : forall (p t : str), skipn (length p) (p ++ t) = t.
Proof. induction p; cbn; auto. Qed.

(* if the pattern is a suffix, trimming strictly shortens *)
Lemma trim_end_matches_shortens : forall p s,
  p <> [] -> ends_with p s = true ->
  (length (trim_end_matches_str p s) < length s)%nat.
Proof.
  intros p s Hp He. unfold trim_end_matches_str, ends_with in *.
  rewrite rev_length. apply starts_with_iff in He as [t Ht].
  assert (Hl : length s = (length p + length t)%nat).
  { rewrite <- (rev_length s), Ht, app_length, rev_length. reflexivity. }
  destruct (length s) as [|n] eqn:El.
  - destruct p; [congruence|cbn in Hl; lia].
  - cbn [strip_prefix_rep]. destruct (rev p) as [|x rp] eqn:Erp.
    + apply (f_equal (@length N)) in Erp. rewrite rev_length in Erp.
      destruct p; [congruence|discriminate].
    + assert (Hs : starts_with (x :: rp) (rev s) = true) by (apply starts_with_iff; eauto).
      rewrite Hs, Ht, skipn_app_exact.
      pose proof (seg_length _ _ (strip_prefix_rep_seg n (x :: rp) t)) as H1.
      assert (length p = length (x :: rp)) by (rewrite <- Erp; now rewrite rev_length).
      cbn [length] in *. lia.
Qed.
