(* C06, part 3: transactions only append plain commits to the object store. *)
From Coq Require Import Lia.
From StgV Require Import Model.StackSpec Proofs.ReachBase.
Local Open Scope nat_scope.

Definition texts (objs : store) (r : tres) : Prop :=
  match r with
  | TOk t | THalt t _ | TErr t => plain_extends objs (t_objs t)
  | TPanic => True
  end.

Definition keeps (f : txn -> tres) : Prop :=
  forall objs t, plain_extends objs (t_objs t) -> texts objs (f t).

Lemma texts_tbind : forall objs r f, texts objs r -> keeps f -> texts objs (tbind r f).
Proof. intros objs r f H K. destruct r; cbn [tbind]; try exact H. now apply K. Qed.

Lemma keeps_tbind : forall f g, keeps f -> keeps g -> keeps (fun t => tbind (f t) g).
Proof. intros f g Kf Kg objs t E. apply texts_tbind; [now apply Kf|exact Kg]. Qed.

Lemma keeps_ok : keeps TOk.
Proof. intros objs t E. exact E. Qed.

(* ---- projections ---- *)

Lemma objs_set_lists : forall t a u h, t_objs (set_lists t a u h) = t_objs t.
Proof. reflexivity. Qed.
Lemma objs_set_updated : forall t u, t_objs (set_updated t u) = t_objs t.
Proof. reflexivity. Qed.
Lemma objs_set_head : forall t h, t_objs (set_head t h) = t_objs t.
Proof. reflexivity. Qed.
Lemma objs_set_base : forall t b, t_objs (set_base t b) = t_objs t.
Proof. reflexivity. Qed.
Lemma objs_set_objs : forall t o, t_objs (set_objs t o) = o.
Proof. reflexivity. Qed.
Lemma objs_set_tmp : forall t i c, t_objs (set_tmp t i c) = t_objs t.
Proof. reflexivity. Qed.
Lemma objs_set_wt : forall t c w u, t_objs (set_wt t c w u) = t_objs t.
Proof. reflexivity. Qed.
Lemma objs_set_conflict_mode : forall t m, t_objs (set_conflict_mode t m) = t_objs t.
Proof. reflexivity. Qed.
Lemma objs_move_to_applied : forall t n, t_objs (move_to_applied t n) = t_objs t.
Proof.
  intros t n. unfold move_to_applied.
  destruct (mem n (t_unapplied t)); [reflexivity|]. destruct (mem n (t_hidden t)); reflexivity.
Qed.

#[export] Hint Rewrite objs_set_lists objs_set_updated objs_set_head objs_set_base objs_set_objs
  objs_set_tmp objs_set_wt objs_set_conflict_mode objs_move_to_applied : tobjs.

Lemma objs_pop_patches : forall f t t1 inc, pop_patches f t = (t1, inc) -> t_objs t1 = t_objs t.
Proof.
  intros f t t1 inc H. unfold pop_patches in H. destruct (split_at_first f (t_applied t)).
  inversion H; subst. reflexivity.
Qed.

Lemma objs_delete_patches : forall f t t1 inc, delete_patches f t = (t1, inc) -> t_objs t1 = t_objs t.
Proof.
  intros f t t1 inc H. unfold delete_patches in H. destruct (split_at_first f (t_applied t)).
  inversion H; subst. reflexivity.
Qed.

Lemma objs_fold_left : forall (A : Type) (f : txn -> A -> txn) l t,
  (forall t a, t_objs (f t a) = t_objs t) -> t_objs (fold_left f l t) = t_objs t.
Proof.
  intros A f l. induction l as [|a l IH]; intros t H; cbn [fold_left]; [reflexivity|].
  rewrite IH by exact H. apply H.
Qed.

(* ---- tactics ---- *)

Ltac brk :=
  match goal with
  | |- context [match ?x with _ => _ end] =>
      lazymatch x with
      | context [match _ with _ => _ end] => fail
      | _ => destruct x eqn:?
      end
  end.

Ltac fin E :=
  cbn [texts]; autorewrite with tobjs;
  first [ exact I
        | exact E
        | eapply ext_by_trans; [exact E|apply ext_by_put; reflexivity] ].

(* ---- push ---- *)

Lemma push_patch_keeps : forall n am, keeps (push_patch n am).
Proof.
  intros n am objs t E. unfold push_patch.
  destruct (t_patch t n) as [pc|]; [|exact I].
  destruct (t_top t) as [np|]; [|exact I].
  destruct (first_parent (t_objs t) pc) as [op|]; [|exact E].
  unfold recommit, put. cbv beta zeta.
  repeat brk; fin E.
Qed.

Lemma push_list_keeps : forall ns merged, keeps (push_list ns merged).
Proof.
  induction ns as [|n ns IH]; intros merged objs t E; cbn [push_list]; [exact E|].
  apply texts_tbind; [now apply push_patch_keeps|apply IH].
Qed.

Lemma push_patches_keeps : forall ns cm, keeps (push_patches ns cm).
Proof.
  intros ns cm objs t E. unfold push_patches. destruct cm.
  - destruct (check_merged_loop _ _ _ _) as [[m c] id]. apply push_list_keeps.
    autorewrite with tobjs. exact E.
  - apply push_list_keeps. autorewrite with tobjs. exact E.
Qed.

Lemma push_tree_keeps : forall n, keeps (push_tree n).
Proof.
  intros n objs t E. unfold push_tree.
  destruct (t_patch t n) as [pc|]; [|exact I].
  destruct (t_top t) as [np|]; [|exact I].
  destruct (first_parent (t_objs t) pc) as [op|]; [|exact E].
  unfold recommit, put. cbv beta zeta.
  repeat brk; fin E.
Qed.

Lemma push_tree_list_keeps : forall ns, keeps (push_tree_list ns).
Proof.
  induction ns as [|n ns IH]; intros objs t E; cbn [push_tree_list]; [exact E|].
  apply texts_tbind; [now apply push_tree_keeps|apply IH].
Qed.

(* ---- reorder and friends ---- *)

Lemma reorder_patches_keeps : forall a u h, keeps (reorder_patches a u h).
Proof.
  intros a u h objs t E. unfold reorder_patches.
  apply texts_tbind.
  - destruct a as [applied|]; [|exact E].
    destruct (pop_patches _ t) as [t1 inc] eqn:PP. apply objs_pop_patches in PP.
    apply texts_tbind.
    + apply push_patches_keeps. now rewrite PP.
    + intros objs2 t2 E2. destruct (list_name_eqb _ _); [exact E2|exact I].
  - intros objs3 t3 E3. destruct u, h; fin E3.
Qed.

Lemma commit_patches_keeps : forall tc, keeps (commit_patches tc).
Proof.
  intros tc objs t E. unfold commit_patches. apply texts_tbind.
  - destruct (Nat.ltb _ _); [|exact E].
    destruct (pop_patches _ t) as [t1 inc] eqn:PP. apply objs_pop_patches in PP.
    apply texts_tbind; [|apply keeps_ok].
    apply push_patches_keeps. now rewrite PP.
  - intros objs2 t2 E2. destruct (hd_error (rev tc)); [|exact I].
    destruct (t_patch t2 n); [|exact I].
    destruct (Nat.ltb _ _); [exact I|].
    apply push_patches_keeps. autorewrite with tobjs. exact E2.
Qed.

Lemma uncommit_patches_keeps : forall ps, keeps (uncommit_patches ps).
Proof. intros ps objs t E. unfold uncommit_patches. fin E. Qed.

Lemma hide_patches_keeps : forall th, keeps (hide_patches th).
Proof. intros th objs t E. unfold hide_patches. now apply reorder_patches_keeps. Qed.

Lemma unhide_patches_keeps : forall tu, keeps (unhide_patches tu).
Proof. intros tu objs t E. unfold unhide_patches. now apply reorder_patches_keeps. Qed.

Lemma rename_patch_keeps : forall old new, keeps (rename_patch old new).
Proof.
  intros old new objs t E. unfold rename_patch.
  repeat brk; fin E.
Qed.

Lemma new_applied_keeps : forall n o, keeps (new_applied n o).
Proof. intros n o objs t E. unfold new_applied. repeat brk; fin E. Qed.

Lemma update_patch_keeps : forall n o, keeps (update_patch n o).
Proof. intros n o objs t E. unfold update_patch. repeat brk; fin E. Qed.

Lemma repair_appliedness_keeps : forall a u h, keeps (repair_appliedness a u h).
Proof. intros a u h objs t E. unfold repair_appliedness. repeat brk; fin E. Qed.

Lemma reset_to_state_keeps : forall s, keeps (reset_to_state s).
Proof.
  intros s objs t E. unfold reset_to_state.
  match goal with |- texts _ (match ?x with _ => _ end) => destruct x end; fin E.
Qed.

Lemma reset_to_state_partially_keeps : forall s only, keeps (reset_to_state_partially s only).
Proof.
  intros s only objs t E. unfold reset_to_state_partially.
  destruct (pop_patches _ t) as [t1 inc1] eqn:PP. apply objs_pop_patches in PP.
  destruct (delete_patches _ t1) as [t2 inc2] eqn:DP. apply objs_delete_patches in DP.
  apply push_patches_keeps.
  rewrite objs_fold_left.
  - rewrite DP, PP. exact E.
  - intros t0 n. cbv zeta.
    repeat match goal with
           | |- context [match ?x with _ => _ end] => destruct x eqn:?
           end; autorewrite with tobjs; reflexivity.
Qed.

Lemma fold_tbind_keeps : forall (A : Type) (g : A -> txn -> tres) l objs r,
  (forall a, keeps (g a)) -> texts objs r ->
  texts objs (fold_left (fun r c => tbind r (g c)) l r).
Proof.
  intros A g l. induction l as [|a l IH]; intros objs r K H; cbn [fold_left]; [exact H|].
  apply IH; [exact K|]. apply texts_tbind; [exact H|apply K].
Qed.
