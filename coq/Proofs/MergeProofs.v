(* C07, content part: the algebra of the cell-wise three-way merge (merge3), of
   `git apply --3way` (apply3way) and of apply_delta. *)
From Coq Require Import List NArith Bool Arith Lia.
From StgV Require Import Model.StackSpec.
Import ListNotations.

(* ---------------------------------------------------------------- tree_eqb *)

Lemma tree_eqb_eq : forall a b, tree_eqb a b = true <-> a = b.
Proof.
  induction a as [|x a IH]; intros [|y b]; cbn [tree_eqb]; split; intro H;
    try reflexivity; try discriminate.
  - apply andb_true_iff in H. destruct H as [Hx Hr].
    apply N.eqb_eq in Hx. apply IH in Hr. subst. reflexivity.
  - inversion H; subst. apply andb_true_iff. split.
    + apply N.eqb_refl.
    + apply IH. reflexivity.
Qed.

Lemma tree_eqb_refl : forall a, tree_eqb a a = true.
Proof. intro a. apply tree_eqb_eq. reflexivity. Qed.

(* ---------------------------------------------------------------- cells *)

Lemma merge_cell_sym : forall b o t, merge_cell b o t = merge_cell b t o.
Proof.
  intros b o t. unfold merge_cell.
  destruct (N.eqb_spec t b) as [Htb|Htb]; destruct (N.eqb_spec o b) as [Hob|Hob];
    destruct (N.eqb_spec o t) as [Hot|Hot]; destruct (N.eqb_spec t o) as [Hto|Hto];
    subst; try reflexivity; try congruence.
Qed.

Lemma merge_cell_base_ours : forall x z, merge_cell x x z = Some z.
Proof.
  intros x z. unfold merge_cell.
  destruct (N.eqb_spec z x) as [H|H]; [subst; reflexivity|].
  rewrite N.eqb_refl. reflexivity.
Qed.

Lemma merge_cell_base_theirs : forall x y, merge_cell x y x = Some y.
Proof. intros x y. unfold merge_cell. rewrite N.eqb_refl. reflexivity. Qed.

Lemma merge_cell_same : forall x y, merge_cell x y y = Some y.
Proof.
  intros x y. unfold merge_cell.
  destruct (N.eqb_spec y x) as [H|H]; [reflexivity|].
  rewrite N.eqb_refl. reflexivity.
Qed.

Lemma apply_cell_merge : forall s wc b o t r,
    apply_cell s wc b o t = Some r -> merge_cell b o t = Some r.
Proof.
  intros s wc b o t r. unfold apply_cell, merge_cell.
  destruct (N.eqb_spec t b) as [Htb|Htb]; [intro H; exact H|].
  destruct (s && N.eqb b 0) eqn:Hsb.
  - apply andb_true_iff in Hsb. destruct Hsb as [_ Hb0]. apply N.eqb_eq in Hb0. subst b.
    destruct (N.eqb_spec o 0) as [Ho0|Ho0]; [intro H; exact H|].
    destruct (N.eqb wc 0 && N.eqb o t) eqn:Hwo; [|discriminate].
    apply andb_true_iff in Hwo. destruct Hwo as [_ Hot]. rewrite Hot. apply N.eqb_eq in Hot.
    intro H. rewrite Hot. exact H.
  - destruct (s && N.eqb t 0).
    + destruct (N.eqb_spec o b) as [Hob|Hob]; [intro H; exact H|discriminate].
    + destruct (s && N.eqb o 0); [discriminate|]. intro H; exact H.
Qed.

(* ---------------------------------------------------------------- merge3 *)

Lemma merge_sym : forall o a b, merge3 o a b = merge3 o b a.
Proof.
  induction o as [|x o IH]; intros [|y a] [|z b]; cbn [merge3]; try reflexivity.
  rewrite (merge_cell_sym x y z), (IH a b). reflexivity.
Qed.

Lemma merge3_base_ours : forall o p, length o = length p -> merge3 o o p = Some p.
Proof.
  induction o as [|x o IH]; intros [|z p] Hl; cbn [length] in Hl; try discriminate.
  - reflexivity.
  - cbn [merge3]. rewrite merge_cell_base_ours, IH by lia. reflexivity.
Qed.

Lemma merge3_base_theirs : forall o n, length o = length n -> merge3 o n o = Some n.
Proof.
  induction o as [|x o IH]; intros [|y n] Hl; cbn [length] in Hl; try discriminate.
  - reflexivity.
  - cbn [merge3]. rewrite merge_cell_base_theirs, IH by lia. reflexivity.
Qed.

Lemma already_present_empty : forall o n, length o = length n -> merge3 o n n = Some n.
Proof.
  induction o as [|x o IH]; intros [|y n] Hl; cbn [length] in Hl; try discriminate.
  - reflexivity.
  - cbn [merge3]. rewrite merge_cell_same, IH by lia. reflexivity.
Qed.

Lemma shortcuts_sound :
  forall o n p, same_len o n p ->
    (o = n -> merge3 o n p = Some p)
    /\ (o = p -> merge3 o n p = Some n)
    /\ (n = p -> merge3 o n p = Some p).
Proof.
  intros o n p [H1 H2]. repeat split; intro He; subst.
  - apply merge3_base_ours. exact H2.
  - apply merge3_base_theirs. exact H1.
  - apply already_present_empty. exact H1.
Qed.

Lemma nonoverlap_merge :
  forall o n p, same_len o n p -> no_overlap o n p ->
    merge3 o n p = Some (apply_delta o n p).
Proof.
  unfold same_len.
  induction o as [|x o IH]; intros [|y n] [|z p] [H1 H2] Hno;
    cbn [length] in H1, H2; try discriminate.
  - reflexivity.
  - cbn [no_overlap] in Hno. destruct Hno as [Hc Hno].
    cbn [merge3 apply_delta]. rewrite (IH n p) by (try split; try lia; assumption).
    assert (Hcell : merge_cell x y z = Some (if N.eqb x z then y else z)).
    { destruct (N.eqb_spec x z) as [Hxz|Hxz].
      - subst. apply merge_cell_base_theirs.
      - destruct Hc as [Hc|Hc]; [congruence|]. subst. apply merge_cell_base_ours. }
    rewrite Hcell. reflexivity.
Qed.

(* ---------------------------------------------------------------- apply3way *)

Lemma apply3way_from_merge : forall o i w c t r,
    apply3way_from i w o c t = Some r -> merge3 o c t = Some r.
Proof.
  induction o as [|x o IH]; intros i [|wc w] [|y c] [|z t] r; cbn [apply3way_from merge3];
    try discriminate; try (intro H; exact H).
  destruct (apply_cell (Nat.leb multi_cells i) wc x y z) as [cl|] eqn:Hc; [|discriminate].
  destruct (apply3way_from (S i) w o c t) as [r'|] eqn:Hr; [|discriminate].
  intro H. rewrite (apply_cell_merge _ _ _ _ _ _ Hc), (IH _ _ _ _ _ Hr). exact H.
Qed.

Lemma apply_is_merge :
  forall w o c t r, apply3way w o c t = Some r -> merge3 o c t = Some r.
Proof. intros w o c t r. unfold apply3way. apply apply3way_from_merge. Qed.

(* ---------------------------------------------------------------- apply_delta *)

Lemma apply_delta_base : forall b p, length b = length p -> apply_delta b b p = p.
Proof.
  induction b as [|x b IH]; intros [|z p] Hl; cbn [length] in Hl; try discriminate.
  - reflexivity.
  - cbn [apply_delta]. rewrite IH by lia.
    destruct (N.eqb_spec x z) as [H|H]; subst; reflexivity.
Qed.

Lemma order_independent_aux :
  forall b p1 p2, same_len b p1 p2 -> no_overlap b p1 p2 ->
    apply_delta b p1 p2 = apply_delta b p2 p1.
Proof.
  unfold same_len.
  induction b as [|x b IH]; intros [|y p1] [|z p2] [H1 H2] Hno;
    cbn [length] in H1, H2; try discriminate.
  - reflexivity.
  - cbn [no_overlap] in Hno. destruct Hno as [Hc Hno].
    cbn [apply_delta]. rewrite (IH p1 p2) by (try split; try lia; assumption).
    f_equal.
    destruct (N.eqb_spec x z) as [Hxz|Hxz]; destruct (N.eqb_spec x y) as [Hxy|Hxy];
      subst; try reflexivity.
    destruct Hc; congruence.
Qed.

Lemma order_independent :
  forall b p1 p2, same_len b p1 p2 -> no_overlap b p1 p2 ->
    apply_delta b (apply_delta b b p1) p2 = apply_delta b (apply_delta b b p2) p1.
Proof.
  intros b p1 p2 Hs Hno. destruct Hs as [H1 H2].
  rewrite !apply_delta_base by lia.
  apply order_independent_aux; [split; assumption|assumption].
Qed.
