(* uniquify: keeps names valid, removes collisions, never runs out of fuel. *)
From Coq Require Import Lia ZifyBool PeanoNat ZArith.
From StgV Require Import Model.Chars Model.Name Model.NameSpec.
From StgV Require Import Proofs.CharsProofs Proofs.ValidateProofs.

(* lia extended with division/modulo by constants on N *)
Ltac dlia := zify; Z.to_euclidean_division_equations; lia.

(* ---------------------------------------------------------------- split_digits *)

Definition take_digits : str -> str :=
  fix take (s : str) : str :=
    match s with
    | c :: s' => if is_ascii_digit c then c :: take s' else []
    | [] => []
    end.

Lemma split_digits_eq : forall name,
  split_digits name =
  (rev (drop_while is_ascii_digit (rev name)), rev (take_digits (rev name))).
Proof. reflexivity. Qed.

Lemma take_drop : forall s, s = take_digits s ++ drop_while is_ascii_digit s.
Proof.
  induction s as [|c s IH]; [reflexivity|]. cbn [take_digits drop_while].
  destruct (is_ascii_digit c); [|reflexivity]. cbn [app]. now rewrite <- IH.
Qed.

Lemma take_digits_all : forall s, forallb is_ascii_digit (take_digits s) = true.
Proof.
  induction s as [|c s IH]; [reflexivity|]. cbn [take_digits].
  destruct (is_ascii_digit c) eqn:E; [|reflexivity]. cbn [forallb]. now rewrite E, IH.
Qed.

Lemma take_drop_uniq : forall d b,
  forallb is_ascii_digit d = true -> head_fails is_ascii_digit b ->
  take_digits (d ++ b) = d /\ drop_while is_ascii_digit (d ++ b) = b.
Proof.
  induction d as [|c d IH]; intros b Hd Hb.
  - cbn [app]. destruct b as [|x b]; [auto|]. cbn in Hb. cbn [take_digits drop_while].
    rewrite Hb. auto.
  - cbn [forallb] in Hd. apply andb_true_iff in Hd as [Hc Hd].
    destruct (IH b Hd Hb) as [H1 H2]. cbn [app take_digits drop_while].
    rewrite Hc, H1, H2. auto.
Qed.

Lemma forallb_rev : forall (f : N -> bool) s, forallb f (rev s) = forallb f s.
Proof.
  intros f s. destruct (forallb f s) eqn:E.
  - rewrite forallb_forall in *. intros x Hx. apply E. now apply in_rev.
  - destruct (forallb f (rev s)) eqn:E2; [|reflexivity].
    rewrite <- E. symmetry. rewrite forallb_forall in *. intros x Hx. apply E2.
    now apply in_rev in Hx.
Qed.

(* ---------------------------------------------------------------- decimal rendering *)

Definition pstep (acc c : N) : N := acc * 10 + (c - 48).

Lemma parse_dec_eq : forall s, parse_dec s = fold_left pstep s 0.
Proof. reflexivity. Qed.

Lemma dec_fold : forall fuel n acc,
  n < 2 ^ N.of_nat fuel ->
  fold_left pstep (dec_digits_fuel fuel n acc) 0 = fold_left pstep acc n.
Proof.
  induction fuel as [|fuel IH]; intros n acc Hn.
  - cbn in Hn. assert (n = 0) as -> by lia. reflexivity.
  - cbn [dec_digits_fuel]. rewrite Nat2N.inj_succ, N.pow_succ_r' in Hn.
    destruct (n <? 10) eqn:E.
    + cbn [fold_left]. f_equal. unfold pstep, digit_char. dlia.
    + rewrite IH.
      * cbn [fold_left]. f_equal. unfold pstep, digit_char. dlia.
      * generalize dependent (2 ^ N.of_nat fuel). intros P HP. dlia.
Qed.

Lemma parse_dec_dec : forall n, parse_dec (dec_of_N n) = n.
Proof.
  intros n. rewrite parse_dec_eq. unfold dec_of_N. rewrite dec_fold; [reflexivity|].
  rewrite Nat2N.inj_succ, N2Nat.id. destruct n as [|p]; [reflexivity|].
  apply N.log2_spec. lia.
Qed.

Lemma dec_digits_all : forall fuel n acc,
  forallb is_ascii_digit acc = true ->
  forallb is_ascii_digit (dec_digits_fuel fuel n acc) = true.
Proof.
  induction fuel as [|fuel IH]; intros n acc Ha; [exact Ha|]. cbn [dec_digits_fuel].
  assert (Hd : forallb is_ascii_digit (digit_char (n mod 10) :: acc) = true).
  { cbn [forallb]. rewrite Ha, andb_true_r. unfold digit_char, is_ascii_digit. dlia. }
  destruct (n <? 10); [exact Hd|]. now apply IH.
Qed.

Lemma dec_digits_nonempty : forall fuel n acc, acc <> [] -> dec_digits_fuel fuel n acc <> [].
Proof.
  induction fuel as [|fuel IH]; intros n acc Ha; [exact Ha|]. cbn [dec_digits_fuel].
  destruct (n <? 10); [discriminate|]. apply IH. discriminate.
Qed.

Lemma dec_of_N_all : forall n, forallb is_ascii_digit (dec_of_N n) = true.
Proof. intros n. now apply dec_digits_all. Qed.

Lemma dec_of_N_nonempty : forall n, dec_of_N n <> [].
Proof.
  intros n. unfold dec_of_N. cbn [dec_digits_fuel].
  destruct (n <? 10); [discriminate|]. apply dec_digits_nonempty. discriminate.
Qed.

(* ---------------------------------------------------------------- uniquify_next *)

Lemma uniquify_next_cases : forall name,
  uniquify_next name = name ++ s_dash1
  \/ exists base digits,
       name = base ++ digits /\ digits <> [] /\ forallb is_ascii_digit digits = true
       /\ last_fails is_ascii_digit base
       /\ uniquify_next name = base ++ dec_of_N (parse_dec digits + 1).
Proof.
  intros name. unfold uniquify_next. rewrite split_digits_eq.
  destruct (rev (take_digits (rev name))) as [|d ds] eqn:Ed; [now left|].
  destruct (usize_max <=? parse_dec (d :: ds)); [now left|]. right.
  exists (rev (drop_while is_ascii_digit (rev name))), (d :: ds).
  split; [|split; [discriminate|split; [|split; [|reflexivity]]]].
  - rewrite <- Ed, <- rev_app_distr, <- take_drop. now rewrite rev_involutive.
  - rewrite <- Ed, forallb_rev. apply take_digits_all.
  - unfold last_fails. rewrite rev_involutive.
    destruct (drop_while_spec is_ascii_digit (rev name)) as [a [_ [_ H]]]. exact H.
Qed.

(* ---------------------------------------------------------------- validity is preserved *)

Lemma validate_iff : forall n,
  validate n = true <->
  n <> [] /\ starts_dot n = false /\ validate_loop n = true
  /\ ends_with s_dotlock n = false /\ n <> s_base /\ n <> s_at.
Proof.
  intros [|c t].
  - split; [discriminate|]. intros [H _]. congruence.
  - unfold validate. cbn [starts_dot]. rewrite !andb_true_iff, !negb_true_iff. split.
    + intros [[[[H1 H2] H3] H4] H5]. repeat split; auto; try discriminate.
      * intros E. apply str_eqb_eq in E. congruence.
      * intros E. apply str_eqb_eq in E. congruence.
    + intros [_ [H1 [H2 [H3 [H4 H5]]]]]. repeat split; auto.
      * destruct (str_eqb (c :: t) s_base) eqn:E; [|reflexivity].
        apply str_eqb_eq in E. contradiction.
      * destruct (str_eqb (c :: t) s_at) eqn:E; [|reflexivity].
        apply str_eqb_eq in E. contradiction.
Qed.

Lemma last_neq : forall (p : str) k s d, k <> d -> p ++ [k] <> s ++ [d].
Proof. intros p k s d Hkd E. apply app_inj_tail in E as [_ E]. contradiction. Qed.

Lemma digit_step : forall d nx, is_ascii_digit d = true -> validate_step d nx = true.
Proof.
  intros d nx Hd. rewrite validate_step_eq.
  assert (d =? ch_dot = false) as -> by (revert Hd; charlia).
  assert (d =? ch_at = false) as -> by (revert Hd; charlia).
  cbn [andb negb]. revert Hd. unfold vchar. charlia.
Qed.

Lemma vl_all_digits : forall ds, forallb is_ascii_digit ds = true -> validate_loop ds = true.
Proof.
  induction ds as [|d ds IH]; [reflexivity|]. cbn [forallb validate_loop]. intros H.
  apply andb_true_iff in H as [H1 H2]. now rewrite digit_step, IH.
Qed.

Lemma step_digit_indep : forall c d d',
  is_ascii_digit d = true -> is_ascii_digit d' = true ->
  validate_step c (Some d) = true -> validate_step c (Some d') = true.
Proof.
  intros c d d' Hd Hd'. rewrite !validate_step_eq. unfold nx_is.
  assert (d =? ch_dot = false) as -> by (revert Hd; charlia).
  assert (d' =? ch_dot = false) as -> by (revert Hd'; charlia).
  assert (d =? ch_lbrace = false) as -> by (revert Hd; charlia).
  assert (d' =? ch_lbrace = false) as -> by (revert Hd'; charlia).
  auto.
Qed.

Lemma vl_digits_swap : forall base d ds d' ds',
  forallb is_ascii_digit (d :: ds) = true -> forallb is_ascii_digit (d' :: ds') = true ->
  validate_loop (base ++ d :: ds) = true -> validate_loop (base ++ d' :: ds') = true.
Proof.
  intros base d ds d' ds' Hd Hd'. induction base as [|c base IH]; intros H.
  - now apply vl_all_digits.
  - cbn [app validate_loop] in *. apply andb_true_iff in H as [H1 H2].
    rewrite (IH H2), andb_true_r. destruct base as [|x base]; cbn [app hd_error] in *.
    + cbn [forallb] in Hd, Hd'. apply andb_true_iff in Hd as [Hd _].
      apply andb_true_iff in Hd' as [Hd' _]. exact (step_digit_indep c d d' Hd Hd' H1).
    + exact H1.
Qed.

Lemma step_none_dash : forall c, validate_step c None = true -> validate_step c (Some ch_dash) = true.
Proof.
  intros c. rewrite !validate_step_eq. destruct (c =? ch_dot); [discriminate|].
  unfold nx_is. change (ch_dash =? ch_lbrace) with false. auto.
Qed.

Lemma vl_app_dash1 : forall a, validate_loop a = true -> validate_loop (a ++ s_dash1) = true.
Proof.
  induction a as [|c a IH]; intros H; [reflexivity|].
  cbn [app validate_loop] in *. apply andb_true_iff in H as [H1 H2].
  rewrite (IH H2), andb_true_r. destruct a as [|x a]; cbn [app hd_error] in *.
  - now apply step_none_dash.
  - exact H1.
Qed.

Lemma validate_app_dash1 : forall n, validate n = true -> validate (n ++ s_dash1) = true.
Proof.
  intros n H. apply validate_iff in H as [H1 [H2 [H3 [H4 [H5 H6]]]]]. apply validate_iff.
  split; [destruct n; discriminate|]. split; [destruct n; [congruence|exact H2]|].
  split; [now apply vl_app_dash1|].
  change s_dash1 with ([ch_dash] ++ [49]). rewrite app_assoc.
  split; [|split].
  - apply (ends_with_false_last [46; 108; 111; 99] 107). discriminate.
  - intros E. symmetry in E. revert E. apply (last_neq [123; 98; 97; 115; 101] 125). discriminate.
  - intros E. symmetry in E. revert E. apply (last_neq [] 64). discriminate.
Qed.

Lemma validate_digits_swap : forall base ds ds',
  ds <> [] -> forallb is_ascii_digit ds = true ->
  ds' <> [] -> forallb is_ascii_digit ds' = true ->
  validate (base ++ ds) = true -> validate (base ++ ds') = true.
Proof.
  intros base ds ds' Hne Hd Hne' Hd' H.
  apply validate_iff in H as [H1 [H2 [H3 _]]]. apply validate_iff.
  destruct ds as [|d ds]; [congruence|]. destruct ds' as [|d' ds']; [congruence|].
  split; [destruct base; discriminate|]. split.
  { destruct base as [|c base]; [|exact H2]. cbn [app starts_dot].
    cbn [forallb] in Hd'. apply andb_true_iff in Hd' as [Hd' _]. revert Hd'. charlia. }
  split; [exact (vl_digits_swap base d ds d' ds' Hd Hd' H3)|].
  destruct (exists_last Hne') as [u [k Hk]]. rewrite Hk, app_assoc.
  assert (Hkd : is_ascii_digit k = true).
  { rewrite Hk, forallb_app in Hd'. apply andb_true_iff in Hd' as [_ Hd'].
    cbn [forallb] in Hd'. now apply andb_true_iff in Hd' as [Hd' _]. }
  split; [|split].
  - apply (ends_with_false_last [46; 108; 111; 99] 107). revert Hkd. charlia.
  - intros E. symmetry in E. revert E. apply (last_neq [123; 98; 97; 115; 101] 125).
    revert Hkd. charlia.
  - intros E. symmetry in E. revert E. apply (last_neq [] 64). revert Hkd. charlia.
Qed.

Lemma uniquify_next_valid : forall n, validate n = true -> validate (uniquify_next n) = true.
Proof.
  intros n H. destruct (uniquify_next_cases n) as [->|[base [ds [Hn [Hne [Hd [_ ->]]]]]]].
  - now apply validate_app_dash1.
  - rewrite Hn in H. eapply validate_digits_swap; eauto.
    + apply dec_of_N_nonempty.
    + apply dec_of_N_all.
Qed.

(* ---------------------------------------------------------------- uniquify_spec *)

Lemma uniquify_loop_spec : forall allow dis r fuel n,
  validate n = true -> uniquify_loop fuel n allow dis = UOk r ->
  validate r = true /\ uniquify_done r allow dis = true.
Proof.
  intros allow dis r. induction fuel as [|fuel IH]; intros n Hv H; cbn [uniquify_loop] in H;
    destruct (uniquify_done n allow dis) eqn:E.
  - injection H as <-. auto.
  - discriminate.
  - injection H as <-. auto.
  - eapply IH; [|exact H]. now apply uniquify_next_valid.
Qed.

Theorem uniquify_spec : forall n allow dis r,
  validate n = true -> uniquify n allow dis = UOk r ->
  validate r = true
  /\ (name_in r allow = true \/ Forall (fun d => collides r d = false) dis).
Proof.
  intros n allow dis r Hv H. unfold uniquify in H.
  destruct (uniquify_loop_spec _ _ _ _ _ Hv H) as [H1 H2]. split; [exact H1|].
  unfold uniquify_done in H2. apply orb_true_iff in H2 as [H2|H2]; [now left|right].
  rewrite forallb_forall in H2. apply Forall_forall. intros d Hd.
  apply H2 in Hd. now apply negb_true_iff in Hd.
Qed.

(* ---------------------------------------------------------------- termination *)

Definition rank (s : str) : nat * N :=
  (length (drop_while is_ascii_digit (rev s)), parse_dec (rev (take_digits (rev s)))).

Definition rlt (a b : nat * N) : Prop :=
  (fst a < fst b)%nat \/ (fst a = fst b /\ snd a < snd b).

Lemma rlt_trans : forall a b c, rlt a b -> rlt b c -> rlt a c.
Proof. unfold rlt. intros [a1 a2] [b1 b2] [c1 c2]. cbn. lia. Qed.

Lemma rlt_irrefl : forall a, ~ rlt a a.
Proof. unfold rlt. intros [a1 a2]. cbn. lia. Qed.

Lemma rank_split : forall base ds,
  last_fails is_ascii_digit base -> forallb is_ascii_digit ds = true ->
  rank (base ++ ds) = (length base, parse_dec ds).
Proof.
  intros base ds Hb Hd. unfold rank. rewrite rev_app_distr.
  destruct (take_drop_uniq (rev ds) (rev base)) as [H1 H2];
    [now rewrite forallb_rev|exact Hb|].
  now rewrite H1, H2, rev_involutive, rev_length.
Qed.

Lemma rank_next : forall c, rlt (rank c) (rank (uniquify_next c)).
Proof.
  intros c. destruct (uniquify_next_cases c) as [->|[base [ds [Hn [_ [Hd [Hb ->]]]]]]].
  - left. unfold rank. rewrite rev_app_distr. cbn [s_dash1 rev app fst].
    change (take_digits (49 :: 45 :: rev c)) with [49].
    change (drop_while is_ascii_digit (49 :: 45 :: rev c)) with (45 :: rev c).
    pose proof (seg_length _ _ (drop_while_seg is_ascii_digit (rev c))) as Hl.
    cbn [length fst]. lia.
  - rewrite Hn, !rank_split; auto; [|apply dec_of_N_all].
    right. cbn [fst snd]. rewrite parse_dec_dec. split; [reflexivity|lia].
Qed.

Definition lowers (s : str) : str := map ascii_lower s.

Lemma lower_digit : forall c, is_ascii_digit (ascii_lower c) = is_ascii_digit c.
Proof.
  intros c. unfold ascii_lower. destruct (is_ascii_upper c) eqn:E; [|reflexivity].
  destruct (is_ascii_digit c) eqn:E1; destruct (is_ascii_digit (c + 32)) eqn:E2;
    try reflexivity; exfalso; revert E E1 E2; charlia.
Qed.

Lemma lower_digit_id : forall c, is_ascii_digit c = true -> ascii_lower c = c.
Proof.
  intros c H. unfold ascii_lower. destruct (is_ascii_upper c) eqn:E; [|reflexivity].
  exfalso. revert H E. charlia.
Qed.

Lemma take_digits_lower : forall s, take_digits (lowers s) = take_digits s.
Proof.
  induction s as [|c s IH]; [reflexivity|]. cbn [lowers map take_digits].
  rewrite lower_digit. destruct (is_ascii_digit c) eqn:E; [|reflexivity].
  rewrite (lower_digit_id _ E). f_equal. exact IH.
Qed.

Lemma drop_digits_lower : forall s,
  length (drop_while is_ascii_digit (lowers s)) = length (drop_while is_ascii_digit s).
Proof.
  induction s as [|c s IH]; [reflexivity|]. cbn [lowers map drop_while].
  rewrite lower_digit. destruct (is_ascii_digit c); [exact IH|].
  cbn [length]. now rewrite map_length.
Qed.

Lemma rank_lowers : forall s, rank (lowers s) = rank s.
Proof.
  intros s. unfold rank. unfold lowers at 1 2. rewrite <- map_rev.
  fold (lowers (rev s)). now rewrite take_digits_lower, drop_digits_lower.
Qed.

Lemma rank_lower_eq : forall a b, lowers a = lowers b -> rank a = rank b.
Proof. intros a b H. rewrite <- (rank_lowers a), <- (rank_lowers b), H. reflexivity. Qed.

Fixpoint cands (fuel : nat) (c : str) : list str :=
  match fuel with
  | O => [c]
  | S f => c :: cands f (uniquify_next c)
  end.

Lemma cands_length : forall f c, length (cands f c) = S f.
Proof. induction f as [|f IH]; intros c; cbn [cands length]; [reflexivity|now rewrite IH]. Qed.

Lemma loop_fuel_fails : forall allow dis f c,
  uniquify_loop f c allow dis = UFuel ->
  forall x, In x (cands f c) -> uniquify_done x allow dis = false.
Proof.
  intros allow dis. induction f as [|f IH]; intros c H x Hx; cbn [uniquify_loop cands] in *;
    destruct (uniquify_done c allow dis) eqn:E; try discriminate.
  - destruct Hx as [<-|[]]. exact E.
  - destruct Hx as [<-|Hx]; [exact E|]. eapply IH; eauto.
Qed.

Lemma cands_rank : forall f c x, In x (cands f (uniquify_next c)) -> rlt (rank c) (rank x).
Proof.
  induction f as [|f IH]; intros c x Hx; cbn [cands] in Hx.
  - destruct Hx as [<-|[]]. apply rank_next.
  - destruct Hx as [<-|Hx]; [apply rank_next|].
    eapply rlt_trans; [apply rank_next|]. now apply IH.
Qed.

Lemma cands_nodup : forall f c, NoDup (map lowers (cands f c)).
Proof.
  induction f as [|f IH]; intros c; cbn [cands map].
  - constructor; [intros []|constructor].
  - constructor; [|apply IH]. intros Hin. apply in_map_iff in Hin as [x [Hx1 Hx2]].
    apply cands_rank in Hx2. apply rank_lower_eq in Hx1. rewrite Hx1 in Hx2.
    now apply rlt_irrefl in Hx2.
Qed.

Lemma failed_collides : forall x allow dis,
  uniquify_done x allow dis = false -> In (lowers x) (map lowers dis).
Proof.
  intros x allow dis H. unfold uniquify_done in H. apply orb_false_iff in H as [_ H].
  induction dis as [|d dis IH]; [discriminate H|]. cbn [forallb map] in *.
  apply andb_false_iff in H as [H|H].
  - left. apply negb_false_iff in H. unfold collides in H. apply str_eqb_eq in H.
    symmetry. exact H.
  - right. now apply IH.
Qed.

Theorem uniquify_never_out_of_fuel : forall n allow dis, uniquify n allow dis <> UFuel.
Proof.
  intros n allow dis H. unfold uniquify in H.
  pose proof (loop_fuel_fails _ _ _ _ H) as Hf.
  pose proof (cands_nodup (S (length dis)) n) as Hnd.
  assert (Hincl : incl (map lowers (cands (S (length dis)) n)) (map lowers dis)).
  { intros y Hy. apply in_map_iff in Hy as [x [<- Hx]].
    eapply failed_collides. now apply Hf. }
  pose proof (NoDup_incl_length Hnd Hincl) as Hlen.
  rewrite !map_length, cands_length in Hlen. lia.
Qed.
