(* Groundwork for repair_idempotent (C13): state commits add no plain commit, so
   plain_parents_older and the walked path survive a repair; a walk that finds nothing means
   no patch below the head.  The composition into repair_idempotent_partial is NOT done yet. *)
From Coq Require Import List NArith ZArith Bool Arith Lia Permutation.
From StgV Require Import Model.RepairSpec.
From StgV Require Import Proofs.ChainBasics Proofs.ReachBase Proofs.RepairProofs Proofs.ChainExec.
From StgV Require Proofs.UndoStepProofs Proofs.ReachFinal Proofs.WfBasics.
From StgV Require Import Proofs.RepairNoopProofs.
Import ListNotations.
Local Open Scope nat_scope.
Local Open Scope list_scope.

(* ---------------------------------------------------------------- state commits add no plain commit *)

Definition nonplainc (c : commit) : Prop := c_state c <> None \/ c_msg c = MGroup.

Lemma group_parents_nonplain : forall fuel maxp objs tree ps objs' ps',
  group_parents fuel maxp objs tree ps = (objs', ps') -> ext_by nonplainc objs objs'.
Proof.
  induction fuel as [|fuel IH]; intros maxp objs tree ps objs' ps' H; cbn [group_parents] in H.
  - inversion H; subst. apply ext_by_refl.
  - destruct (Nat.ltb maxp (length ps)).
    + unfold put in H. apply IH in H. eapply ext_by_trans; [|exact H].
      apply ext_by_put. right. reflexivity.
    + inversion H; subst. apply ext_by_refl.
Qed.

Lemma state_commit_nonplain : forall objs s msg objs' so,
  state_commit objs s msg = Some (objs', so) -> ext_by nonplainc objs objs'.
Proof.
  intros objs s msg objs' so H.
  destruct (state_commit_inv _ _ _ _ _ H) as [prev [sp [objs2 [grouped [_ [G [E1 _]]]]]]].
  apply group_parents_nonplain in G. subst objs'.
  apply (ext_by_trans _ _ (objs ++ [mkCommit sp [] 0%N [] (Some s) msg]));
    [apply ext_by_put; left; intro HX; discriminate HX|].
  eapply ext_by_trans; [exact G|]. apply ext_by_put. left. intro HX. discriminate HX.
Qed.

Lemma nonplain_ext_plain : forall a b o, ext_by nonplainc a b -> is_plain b o ->
  is_plain a o /\ parents_of b o = parents_of a o.
Proof.
  intros a b o [ext [-> F]] [c [G [S M]]]. unfold get in G.
  destruct (Nat.lt_ge_cases o (length a)) as [Hlt|Hge].
  - rewrite nth_error_app1 in G by exact Hlt. split.
    + exists c. split; [exact G|]. split; assumption.
    + unfold parents_of, get. rewrite nth_error_app1 by exact Hlt. reflexivity.
  - exfalso. rewrite nth_error_app2 in G by exact Hge. apply nth_error_In in G.
    rewrite Forall_forall in F. destruct (F c G) as [N|N]; [apply N; exact S|apply M; exact N].
Qed.

Lemma older_ext : forall a b, ext_by nonplainc a b -> plain_parents_older a -> plain_parents_older b.
Proof.
  intros a b E A o p Ho Hp. destruct (nonplain_ext_plain a b o E Ho) as [Ho' Ep].
  rewrite Ep in Hp. exact (A o p Ho' Hp).
Qed.

Lemma walked_ext_back : forall a b, ext_by nonplainc a b -> plain_closed b ->
  forall c x, walked b c x -> is_plain b c -> walked a c x.
Proof.
  intros a b E Hcl c x H. induction H as [o p Hp|o p x Hp Hw IH]; intros Ho.
  - destruct (nonplain_ext_plain a b o E Ho) as [_ Ep]. rewrite Ep in Hp.
    eapply walked_here. exact Hp.
  - destruct (nonplain_ext_plain a b o E Ho) as [_ Ep]. pose proof Hp as Hp'. rewrite Ep in Hp'.
    eapply walked_down; [exact Hp'|]. apply IH. apply (Hcl o p Ho). rewrite Hp. left. reflexivity.
Qed.

(* ---------------------------------------------------------------- the walk that finds nothing *)

Lemma walk_mono : forall fuel objs s base c a p m a' p' stop,
    repair_walk fuel objs s base c a p m = (a', p', stop) ->
    (exists a2, a' = a ++ a2) /\ (exists p2, p' = p ++ p2).
Proof.
  induction fuel as [|fuel IH]; intros objs s base c a p m a' p' stop H; cbn [repair_walk] in H.
  - inversion H; subst. split; exists []; rewrite app_nil_r; reflexivity.
  - destruct (parents_of objs c) as [|q [|q' r]];
      try (inversion H; subst; split; exists []; rewrite app_nil_r; reflexivity).
    destruct (patch_of_commit s c) as [pn|].
    + destruct (Nat.eqb base q).
      * inversion H; subst. split; [exists [pn]; reflexivity|].
        exists m. rewrite app_nil_r. reflexivity.
      * apply IH in H. destruct H as [[a2 ->] [p2 ->]].
        split; [exists ([pn] ++ a2); rewrite app_assoc; reflexivity|].
        exists (m ++ p2). rewrite app_assoc. reflexivity.
    + destruct (Nat.eqb base q).
      * inversion H; subst. split; [exists []; rewrite app_nil_r; reflexivity|].
        exists (m ++ [c]). reflexivity.
      * apply IH in H. exact H.
Qed.

Lemma walk_empty_nopatch : forall objs s base,
    plain_parents_older objs -> plain_closed objs ->
    forall fuel c m stop,
      is_plain objs c -> c < fuel ->
      repair_walk fuel objs s base c [] [] m = ([], [], stop) ->
      nopatch_below objs s c.
Proof.
  intros objs s base Hacyc Hcl. induction fuel as [|fuel IH]; intros c m stop Hpl Hlt H; [lia|].
  cbn [repair_walk] in H.
  destruct (parents_of objs c) as [|q [|q' r]] eqn:Hp.
  - intros x Hx. inversion Hx; subst; congruence.
  - destruct (patch_of_commit s c) as [pn|] eqn:Hpc.
    + exfalso. destruct (Nat.eqb base q).
      * inversion H.
      * apply walk_mono in H. destruct H as [[a2 Ha] _]. destruct a2; discriminate.
    + destruct (Nat.eqb base q).
      * exfalso. inversion H as [[Hm]]. cbn [app] in Hm. destruct m; discriminate.
      * cbn [app] in H. pose proof (Hacyc c q Hpl Hp) as Hq.
        assert (Hnq : nopatch_below objs s q).
        { eapply IH; [|lia|exact H]. apply (Hcl c q Hpl). rewrite Hp. left. reflexivity. }
        intros x Hx. inversion Hx; subst.
        -- exact Hpc.
        -- match goal with Hq' : parents_of objs c = [?p0] |- _ =>
             rewrite Hp in Hq'; injection Hq' as <- end.
           apply Hnq. assumption.
  - intros x Hx. inversion Hx; subst; congruence.
Qed.

(* the new stack base when the walk finds nothing *)
Lemma base_empty : forall objs s base,
    forall fuel c m stop nb mb,
      repair_walk fuel objs s base c [] [] m = ([], [], stop) ->
      repair_base fuel objs s base c nb mb = nb.
Proof.
  intros objs s base. induction fuel as [|fuel IH]; intros c m stop nb mb H; [reflexivity|].
  cbn [repair_walk] in H. cbn [repair_base].
  destruct (parents_of objs c) as [|q [|q' r]] eqn:Hp; try reflexivity.
  destruct (patch_of_commit s c) as [pn|] eqn:Hpc.
  - exfalso. destruct (Nat.eqb base q).
    + inversion H.
    + apply walk_mono in H. destruct H as [[a2 Ha] _]. destruct a2; discriminate.
  - destruct (Nat.eqb base q).
    + exfalso. inversion H as [[Hm]]. cbn [app] in Hm. destruct m; discriminate.
    + cbn [app] in H. eapply IH. exact H.
Qed.

(* ---------------------------------------------------------------- the patchify loop *)

Definition pstep (lower_s : str -> str) (c : oid) (t : txn) : tres :=
  match make lower_s (subj_of (t_objs t) c) true (Some 30%N) with
  | Ok nm =>
      match uniquify nm [] (t_all t) with
      | UOk pn => new_applied pn c t
      | UFuel => TPanic
      end
  | _ => TPanic
  end.

Lemma fold_stuck : forall (g : oid -> txn -> tres) l r,
    (forall t, r <> TOk t) -> forall t, fold_left (fun r c => tbind r (g c)) l r <> TOk t.
Proof.
  intros g. induction l as [|c l IH]; intros r Hr t; cbn [fold_left]; [apply Hr|].
  apply IH. intros t'. destruct r as [t0|t0 h|t0|]; cbn [tbind]; try discriminate.
  exfalso. exact (Hr t0 eq_refl).
Qed.

Lemma pstep_inv : forall lower_s c t t', pstep lower_s c t = TOk t' ->
    t_opts t' = t_opts t /\ t_head t' = t_head t /\ t_objs t' = t_objs t
    /\ t_stack t' = t_stack t /\ t_applied t' <> [].
Proof.
  intros lower_s c t t' H. unfold pstep in H.
  destruct (make _ _ _ _); try discriminate.
  destruct (uniquify _ _ _); try discriminate.
  unfold new_applied in H.
  destruct (first_parent (t_objs t) c); [|discriminate].
  destruct (t_top t); [|discriminate].
  destruct (Nat.eqb _ _); [|discriminate].
  injection H as <-. cbn. repeat split. destruct (t_applied t); discriminate.
Qed.

Lemma fold_pstep : forall lower_s l t1 t,
    fold_left (fun r c => tbind r (pstep lower_s c)) l (TOk t1) = TOk t ->
    t_opts t = t_opts t1 /\ t_head t = t_head t1 /\ t_objs t = t_objs t1
    /\ t_stack t = t_stack t1
    /\ (t_applied t1 <> [] -> t_applied t <> [])
    /\ (t_applied t = [] -> l = [] /\ t = t1).
Proof.
  intros lower_s. induction l as [|c l IH]; intros t1 t H; cbn [fold_left] in H.
  - injection H as <-. repeat split; try reflexivity. intros Hne. exact Hne.
  - cbn [tbind] in H. destruct (pstep lower_s c t1) as [t1'|t0 h|t0|] eqn:E;
      try (exfalso; eapply fold_stuck; [|exact H]; intros; discriminate).
    apply pstep_inv in E. destruct E as (E1 & E2 & E3 & E4 & E5).
    apply IH in H. destruct H as (F1 & F2 & F3 & F4 & F5 & F6).
    split; [congruence|]. split; [congruence|]. split; [congruence|]. split; [congruence|].
    split; [intros _; apply F5; exact E5|]. intros Hn. exfalso. exact (F5 E5 Hn).
Qed.

(* ---------------------------------------------------------------- after a successful repair *)

Lemma repair_result_settled : forall lower_s w w1,
    Inv6 w -> plain_parents_older (w_objs w) -> Inv w1 ->
    run_repair lower_s w = (w1, X0) ->
    exists st1, cur_state w1 = Some st1 /\ repair_settled w1 st1
                /\ plain_parents_older (w_objs w1).
Proof.
  intros lower_s w w1 I6 Hacyc I1 H1.
  destruct I6 as [[I Hch] _]. destruct I as [Hcl [Hwf [Hbpl _]]].
  destruct I1 as [Hcl1 [_ [Hbpl1 _]]].
  destruct (open_stack PRequire w) as [op|] eqn:Hop.
  2:{ unfold run_repair in H1. rewrite Hop in H1. discriminate. }
  rewrite (run_repair_unfold _ _ _ Hop) in H1.
  unfold open_stack in Hop. destruct (w_stack w) as [so|] eqn:Es; [|discriminate].
  destruct (state_of (w_objs w) so) as [st|] eqn:Est; [|discriminate].
  destruct (stack_base (w_objs w) (w_branch w) st) as [b|] eqn:Hb; [|discriminate].
  injection Hop as <-.
  cbv zeta in H1.
  cbn [op_world op_state op_base ensure_patch_refs w_objs w_branch w_apc] in H1.
  destruct (repair_walk (S (length (w_objs w))) (w_objs w) st b (w_branch w) [] [] [])
    as [[ar pr] stop] eqn:Hwalk.
  unfold transact in H1. cbn [op_initialized negb] in H1.
  destruct (UndoStepProofs.execute_X0_inv _ _ _ _ H1)
    as (t & wl & stl & th & prev & objs' & so' & Er & Hl & Hth & Hprev & Hsc & Eo & Es' & Eb).
  unfold repair_body, repair_appliedness in Er.
  destruct (is_perm_of _ _); [|discriminate]. cbn [tbind] in Er.
  apply (fold_pstep lower_s) in Er.
  destruct Er as (Eopts & Ehead & Eobjs & Estack & _ & Eempty).
  cbn [set_base set_lists begin_txn t_opts t_head t_objs t_stack t_applied op_world op_state
       ensure_patch_refs w_objs] in Eopts, Ehead, Eobjs, Estack.
  assert (Hsh : o_set_head (t_opts t) = true) by (rewrite Eopts; reflexivity).
  rewrite Hsh in Eb.
  destruct (logged_of_spec _ _ _ _ Hl) as (_ & _ & _ & _ & _ & _ & Lp & _).
  (* the store: only state / grouping commits were added *)
  assert (Hext : ext_by nonplainc (w_objs w) (w_objs w1)).
  { rewrite Eo. eapply ext_by_trans; [|eapply state_commit_nonplain; exact Hsc].
    unfold logged_of in Hl. destruct (Nat.eqb _ _).
    - injection Hl as <- _. cbn [world0 w_objs]. rewrite Eobjs. apply ext_by_refl.
    - unfold log_external_mods in Hl. cbn [world0 w_stack w_objs] in Hl.
      destruct (w_stack _) as [so0|]; [|discriminate].
      destruct (state_commit _ _ _) as [[objs0 so1]|] eqn:C0; [|discriminate].
      injection Hl as <- _. cbn [w_objs]. rewrite Eobjs in C0.
      eapply state_commit_nonplain. exact C0. }
  destruct (UndoStepProofs.state_commit_get _ _ _ _ _ Hsc) as [_ [_ [c1 [G1 [C1 _]]]]].
  exists (new_state t stl prev th). split.
  { unfold cur_state. rewrite Es'. unfold state_of. rewrite Eo, G1. exact C1. }
  split; [|eapply older_ext; [exact Hext|exact Hacyc]].
  split; [exact Eb|]. split.
  - (* top = head *)
    unfold s_top, last_error. cbn [new_state s_applied s_patches s_head].
    destruct (hd_error (rev (t_applied t))) as [n|] eqn:El; [|reflexivity].
    unfold t_head_oid in Hth. rewrite Ehead in Hth. unfold t_top in Hth. rewrite El in Hth.
    rewrite Lp, WfBasics.pm_get_apply. unfold t_patch in Hth. rewrite Hth. reflexivity.
  - (* nothing applied afterwards: the walk had found nothing *)
    cbn [new_state s_applied]. intros Ea. destruct (Eempty Ea) as [Hpr Et]. subst t.
    cbn [set_base set_lists t_applied] in Ea.
    assert (Har : ar = []).
    { apply (f_equal (@rev name)) in Ea. rewrite rev_involutive in Ea. exact Ea. }
    assert (Hpr' : pr = []).
    { apply (f_equal (@rev oid)) in Hpr. rewrite rev_involutive in Hpr. exact Hpr. }
    subst ar pr.
    assert (Hbl : w_branch w < S (length (w_objs w))).
    { destruct Hbpl as [cb [Gb _]]. apply get_lt in Gb. lia. }
    pose proof (walk_empty_nopatch _ _ _ Hacyc Hcl _ _ _ _ Hbpl Hbl Hwalk) as Hnp.
    assert (Eth : th = w_branch w).
    { assert (Hnb : repair_base (S (length (w_objs w))) (w_objs w) st b (w_branch w)
                                 (w_branch w) false = w_branch w)
        by (eapply base_empty; exact Hwalk).
      rewrite Hnb in Hth. unfold t_head_oid, t_top, t_base_oid in Hth.
      cbn [set_base set_lists begin_txn t_head t_applied t_base rev hd_error] in Hth.
      injection Hth as <-. reflexivity. }
    rewrite Eb, Eth. intros x Hx.
    assert (Hx0 : walked (w_objs w) (w_branch w) x).
    { eapply walked_ext_back; [exact Hext|exact Hcl1|exact Hx|].
      rewrite <- Eth, <- Eb. exact Hbpl1. }
    specialize (Hnp x Hx0). unfold patch_of_commit in Hnp |- *.
    apply find_none_intro. intros n Hn.
    unfold all_of, new_state in Hn |- *.
    cbn [s_patches s_applied s_unapplied s_hidden set_base set_lists begin_txn t_updated pm_apply
         t_applied t_unapplied t_hidden op_state rev app] in Hn |- *.
    rewrite Lp. cbn [set_base set_lists begin_txn t_stack op_state].
    apply (find_none _ _ Hnp). unfold all_of.
    rewrite !filter_all in Hn by (intros; reflexivity).
    rewrite <- app_assoc in Hn. exact Hn.
Qed.

(* ---------------------------------------------------------------- repair is idempotent *)

(* the pinned repair_idempotent under two extra hypotheses: plain_parents_older (w_objs w), and
   the success of the second run *)
Lemma repair_idempotent_partial :
  forall lower_s, LowerOK lower_s ->
  forall w w1 w2h,
    Inv6 w -> prev_decreasing (w_objs w) ->
    plain_parents_older (w_objs w) ->
    run_repair lower_s w = (w1, X0) ->
    run_repair lower_s w1 = (w2h, X0) ->
    exists w2 st1 st2,
      run_repair lower_s w1 = (w2, X0)
      /\ cur_state w1 = Some st1 /\ cur_state w2 = Some st2 /\ same_stack st2 st1
      /\ w_branch w2 = w_branch w1.
Proof.
  intros lower_s L w w1 w2 I6 PD Hacyc H1 H2.
  assert (I61 : Inv6 w1 /\ prev_decreasing (w_objs w1)).
  { pose proof (ReachFinal.step_reach lower_s L w CRepair eq_refl I6 PD) as S1.
    cbn [step] in S1. rewrite H1 in S1. exact S1. }
  destruct I61 as [I61 _].
  assert (I1 : Inv w1) by (destruct I61 as [[I1 _] _]; exact I1).
  destruct (repair_result_settled lower_s w w1 I6 Hacyc I1 H1) as [st1 [Hc1 [Hset Hacyc1]]].
  destruct (repair_settled_noop lower_s w1 st1 w2 I61 Hacyc1 Hc1 Hset H2)
    as [[st2 [Hc2 Hsame]] [Hbr _]].
  exists w2, st1, st2. split; [exact H2|]. split; [exact Hc1|]. split; [exact Hc2|].
  split; [exact Hsame|exact Hbr].
Qed.
