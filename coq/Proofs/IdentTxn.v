(* C08 proofs, part 1: a per-patch predicate [Q objs n o] over the store ("patch n may be the
   commit o") that every transaction operation preserves when Q is monotone in the store and
   closed under re-committing with the same author/message; and what execute / transact
   publish as the new patch map. *)
From Coq Require Import Lia List NArith Bool.
From StgV Require Import Model.StackSpec Model.IdentSpec.
From StgV Require Import Proofs.WfBasics Proofs.WfFrame Proofs.MirrorProofs Proofs.WfTxn Proofs.WfCmd.
From StgV Require Proofs.NoPanicExec.
Import ListNotations.
Local Open Scope nat_scope.

(* ---------------------------------------------------------------- the predicate *)

Definition pred := store -> name -> oid -> Prop.

Definition Qmono (Q : pred) : Prop :=
  forall a b n o, store_extends a b -> Q a n o -> Q b n o.

Record Qok (Q : pred) : Prop := mkQok {
  q_mono : Qmono Q;
  q_recommit : forall objs n o ps tr,
    Q objs n o ->
    Q (objs ++ [plain ps tr (match get objs o with Some c => c_meta c | None => 0%N end)
                      (subj_of objs o)]) n (length objs)
}.

Definition tsat (Q : pred) (t : txn) : Prop :=
  forall n o, t_patch t n = Some o -> Q (t_objs t) n o.

Definition rsat (Q : pred) (r : tres) : Prop :=
  match r with
  | TOk t | THalt t _ => tsat Q t
  | TErr _ | TPanic => True
  end.

Definition wsat (Q : pred) (w : world) : Prop :=
  forall n o, patch_commit w n = Some o -> Q (w_objs w) n o.

Lemma rsat_tbind : forall Q r f,
  rsat Q r -> (forall t, tsat Q t -> rsat Q (f t)) -> rsat Q (tbind r f).
Proof. intros Q [t|t h|t|] f H1 H2; cbn in *; auto. Qed.

Lemma tsat_sub : forall Q t t',
  Qok Q -> store_extends (t_objs t) (t_objs t') ->
  (forall n o, t_patch t' n = Some o -> t_patch t n = Some o) ->
  tsat Q t -> tsat Q t'.
Proof.
  intros Q t t' HQ He Hp H n o E. eapply q_mono; [exact HQ|exact He|]. apply H. now apply Hp.
Qed.

Lemma tsat_same : forall Q t t',
  t_objs t' = t_objs t -> t_stack t' = t_stack t -> t_updated t' = t_updated t ->
  tsat Q t -> tsat Q t'.
Proof.
  intros Q t t' Ho Hs Hu H n o E. rewrite Ho. apply H.
  unfold t_patch in *. now rewrite Hs, Hu in E.
Qed.

Lemma core_eq_tsat : forall Q t t2, core_eq t t2 -> tsat Q t -> tsat Q t2.
Proof.
  intros Q t t2 [H1 [_ [_ [_ [_ [H6 [_ [_ H9]]]]]]]] H. now apply (tsat_same Q t).
Qed.

Ltac same_from H := eapply tsat_same; [| | |exact H]; reflexivity.

(* ---------------------------------------------------------------- pop / delete / move *)

Lemma pop_sat : forall Q f t, tsat Q t -> tsat Q (fst (pop_patches f t)).
Proof.
  intros Q f t H. unfold pop_patches. destruct (split_at_first f (t_applied t)).
  cbn [fst]. same_from H.
Qed.

Lemma delete_patch : forall f t n o,
  t_patch (fst (delete_patches f t)) n = Some o -> t_patch t n = Some o.
Proof.
  intros f t n o. unfold delete_patches. destruct (split_at_first f (t_applied t)) as [keep popped].
  cbn [fst]. set (t0 := set_lists t _ _ _).
  change (t_updated t) with (t_updated t0). rewrite t_patch_mark_deleted.
  destruct (mem n _); [discriminate|]. auto.
Qed.

Lemma delete_sat : forall Q f t, tsat Q t -> tsat Q (fst (delete_patches f t)).
Proof.
  intros Q f t H n o E. rewrite delete_objs. apply H. now apply delete_patch in E.
Qed.

Lemma move_sat : forall Q t n, tsat Q t -> tsat Q (move_to_applied t n).
Proof.
  intros Q t n H. unfold move_to_applied.
  destruct (mem n (t_unapplied t)); [|destruct (mem n (t_hidden t))]; same_from H.
Qed.

(* ---------------------------------------------------------------- recommit *)

Lemma recommit_sat : forall Q t n pc tr par,
  Qok Q -> tsat Q t -> t_patch t n = Some pc ->
  tsat Q (set_updated (fst (recommit t pc tr par))
                      (up_set (t_updated (fst (recommit t pc tr par))) n
                              (Some (snd (recommit t pc tr par))))).
Proof.
  intros Q t n pc tr par HQ H Epc. unfold recommit, put. cbn [fst snd].
  intros m o E. rewrite t_patch_up_set in E. rewrite t_objs_set_updated, t_objs_set_objs.
  destruct (name_eqb_spec n m) as [<-|Hn].
  - injection E as <-. apply (q_recommit Q HQ). now apply H.
  - eapply q_mono; [exact HQ|apply store_extends_put|]. apply H. exact E.
Qed.

(* ---------------------------------------------------------------- push_patch *)

Lemma push_fin_sat : forall Q n t2 pc ptree tr np op st,
  Qok Q -> tsat Q t2 -> t_patch t2 n = Some pc ->
  rsat Q (push_fin n t2 pc ptree tr np op st).
Proof.
  intros Q n t2 pc ptree tr np op st HQ H Epc. unfold push_fin.
  assert (K : forall t3, tsat Q t3 ->
            rsat Q (match st with
                    | PSConflict => THalt (move_to_applied (set_conflict_mode t3 CAllow) n) HConflict
                    | _ => TOk (move_to_applied t3 n) end)).
  { intros t3 H3. destruct st; cbn [rsat]; apply move_sat; exact H3. }
  destruct (negb (tree_eqb tr ptree) || negb (Nat.eqb np op)).
  - pose proof (recommit_sat Q t2 n pc tr np HQ H Epc) as Hr.
    destruct (recommit t2 pc tr np) as [t' o]. cbn [fst snd] in Hr.
    destruct st; apply K; exact Hr.
  - destruct st; apply K; exact H.
Qed.

Lemma push_patch_sat : forall Q n am t, Qok Q -> tsat Q t -> rsat Q (push_patch n am t).
Proof.
  intros Q n am t HQ H. rewrite push_patch_eq.
  destruct (t_patch t n) as [pc|] eqn:Epc; [|exact I].
  destruct (t_top t) as [np|]; [|exact I].
  destruct (first_parent (t_objs t) pc) as [op|]; [|exact I].
  pose proof (push_sel_spec am t pc op np) as S.
  destruct (push_sel am t pc op np) as [[[t2 tr] st]|r].
  - apply push_fin_sat; [exact HQ|now apply (core_eq_tsat Q t)|].
    destruct S as [S1 [_ [_ [_ [_ [S6 _]]]]]]. unfold t_patch in *. now rewrite S1, S6.
  - destruct r; try contradiction. cbn. now apply (core_eq_tsat Q t).
Qed.

Lemma push_list_sat : forall Q ns m t, Qok Q -> tsat Q t -> rsat Q (push_list ns m t).
Proof.
  intros Q ns m t HQ. revert t. induction ns as [|n ns IH]; intros t H; cbn [push_list]; [exact H|].
  apply rsat_tbind; [now apply push_patch_sat|]. intros t1 H1. now apply IH.
Qed.

Lemma push_patches_sat : forall Q ns cm t, Qok Q -> tsat Q t -> rsat Q (push_patches ns cm t).
Proof.
  intros Q ns cm t HQ H. unfold push_patches. destruct cm.
  - destruct (check_merged_loop _ _ _ _) as [[m c] id].
    apply push_list_sat; [exact HQ|]. same_from H.
  - apply push_list_sat; [exact HQ|]. same_from H.
Qed.

Lemma push_tree_sat : forall Q n t, Qok Q -> tsat Q t -> rsat Q (push_tree n t).
Proof.
  intros Q n t HQ H. unfold push_tree.
  destruct (t_patch t n) as [pc|] eqn:Epc; [|exact I].
  destruct (t_top t) as [top|]; [|exact I].
  destruct (first_parent (t_objs t) pc) as [par|]; [|exact I].
  destruct (Nat.eqb par top).
  - destruct (mem n (t_unapplied t) || mem n (t_hidden t)); [|exact I]. cbn. now apply move_sat.
  - pose proof (recommit_sat Q t n pc (tree_of (t_objs t) pc) top HQ H Epc) as Hr.
    destruct (recommit t pc (tree_of (t_objs t) pc) top) as [t' o]. cbn [fst snd] in Hr.
    match goal with |- rsat _ (if ?b then _ else _) => destruct b end; [|exact I].
    cbn. now apply move_sat.
Qed.

Lemma push_tree_list_sat : forall Q ns t, Qok Q -> tsat Q t -> rsat Q (push_tree_list ns t).
Proof.
  intros Q ns t HQ. revert t. induction ns as [|n ns IH]; intros t H; cbn [push_tree_list]; [exact H|].
  apply rsat_tbind; [now apply push_tree_sat|]. intros t1 H1. now apply IH.
Qed.

(* ---------------------------------------------------------------- reorder / commit / hide *)

Lemma reorder_sat : forall Q a u h t, Qok Q -> tsat Q t -> rsat Q (reorder_patches a u h t).
Proof.
  intros Q a u h t HQ H. unfold reorder_patches. apply rsat_tbind.
  - destruct a as [al|]; [|exact H].
    pose proof (pop_sat Q (fun n => mem n (skipn (common_prefix_len (t_applied t) al) (t_applied t))) t H) as Hp.
    destruct (pop_patches _ t) as [t1 inc]. cbn [fst] in Hp.
    apply rsat_tbind; [now apply push_patches_sat|].
    intros t2 H2. destruct (list_name_eqb (t_applied t2) al); [exact H2|exact I].
  - intros t3 H3. destruct u, h; cbn [rsat]; same_from H3.
Qed.

Lemma mark_deleted_sat : forall Q t ns,
  tsat Q t -> tsat Q (set_updated t (mark_deleted (t_updated t) ns)).
Proof.
  intros Q t ns H n o E. rewrite t_patch_mark_deleted in E. rewrite t_objs_set_updated.
  destruct (mem n ns); [discriminate|]. now apply H.
Qed.

Lemma commit_sat : forall Q tc t, Qok Q -> tsat Q t -> rsat Q (commit_patches tc t).
Proof.
  intros Q tc t HQ H. unfold commit_patches. apply rsat_tbind.
  - destruct (Nat.ltb _ _); [|exact H].
    match goal with |- context [pop_patches ?f t] =>
      pose proof (pop_sat Q f t H) as Hp; destruct (pop_patches f t) as [t1 inc] end.
    cbn [fst] in Hp. apply rsat_tbind; [now apply push_patches_sat|]. intros t2 H2. exact H2.
  - intros t2 H2. destruct (hd_error (rev tc)) as [lastn|]; [|exact I].
    destruct (t_patch t2 lastn) as [nb|]; [|exact I].
    match goal with |- rsat _ (if ?b then _ else _) => destruct b end; [exact I|].
    apply push_patches_sat; [exact HQ|].
    eapply tsat_same; [| | |apply (mark_deleted_sat Q (set_base t2 (Some nb)) tc)]; try reflexivity.
    same_from H2.
Qed.

Lemma hide_sat : forall Q l t, Qok Q -> tsat Q t -> rsat Q (hide_patches l t).
Proof. intros. now apply reorder_sat. Qed.

Lemma unhide_sat : forall Q l t, Qok Q -> tsat Q t -> rsat Q (unhide_patches l t).
Proof. intros. now apply reorder_sat. Qed.

Lemma delete_push_sat : forall Q f t,
  Qok Q -> tsat Q t ->
  rsat Q (let '(t1, to_push) := delete_patches f t in push_patches to_push false t1).
Proof.
  intros Q f t HQ H. pose proof (delete_sat Q f t H) as Hd.
  destruct (delete_patches f t) as [t1 tp]. cbn [fst] in Hd. now apply push_patches_sat.
Qed.

(* ---------------------------------------------------------------- operations naming a commit *)

Lemma update_patch_sat : forall Q n o t,
  tsat Q t -> Q (t_objs t) n o -> rsat Q (update_patch n o t).
Proof.
  intros Q n o t H Ho. unfold update_patch. destruct (t_patch t n); [|exact I].
  cbn. intros m o' E. rewrite t_patch_up_set in E. rewrite t_objs_set_updated.
  destruct (name_eqb_spec n m) as [<-|Hn]; [injection E as <-; exact Ho|now apply H].
Qed.

Lemma new_applied_sat : forall Q n o t,
  tsat Q t -> Q (t_objs t) n o -> rsat Q (new_applied n o t).
Proof.
  intros Q n o t H Ho. unfold new_applied.
  destruct (first_parent (t_objs t) o); [|exact I]. destruct (t_top t); [|exact I].
  destruct (Nat.eqb _ _); [|exact I]. cbn [rsat].
  intros m o' E. rewrite t_objs_set_updated, t_objs_set_lists.
  change (t_updated t) with (t_updated (set_lists t (t_applied t ++ [n]) (t_unapplied t) (t_hidden t))) in E.
  rewrite t_patch_up_set in E.
  destruct (name_eqb_spec n m) as [<-|Hn]; [injection E as <-; exact Ho|now apply H].
Qed.

Lemma uncommit_sat : forall Q ps t,
  tsat Q t -> (forall n o, In (n, o) ps -> Q (t_objs t) n o) -> rsat Q (uncommit_patches ps t).
Proof.
  intros Q ps t H Hps. unfold uncommit_patches. cbn [rsat].
  intros m o' E. rewrite t_objs_set_lists, t_objs_set_updated.
  unfold t_patch in E. rewrite t_stack_set_lists, t_updated_set_lists, t_stack_set_updated,
    t_updated_set_updated in E.
  change (fold_left _ ps (t_updated t)) with (set_all ps (t_updated t)) in E.
  rewrite up_get_set_all in E. destruct (pm_get (rev ps) m) as [o|] eqn:Eg.
  - injection E as <-. apply Hps. now apply pm_get_rev_In.
  - now apply H.
Qed.

Lemma repair_appliedness_sat : forall Q a u h t, tsat Q t -> rsat Q (repair_appliedness a u h t).
Proof.
  intros Q a u h t H. unfold repair_appliedness. destruct (is_perm_of _ _); [|exact I].
  cbn. same_from H.
Qed.

(* every patch after rename_patch is a commit some patch had before (in the transaction or,
   for a patch deleted in this transaction, in the stack it was set up from) *)
Lemma rename_patch_src : forall old new t t' n o,
  rename_patch old new t = TOk t' -> t_patch t' n = Some o ->
  exists a, t_patch t a = Some o \/ pm_get (s_patches (t_stack t)) a = Some o.
Proof.
  intros old new t t' n o H E. unfold rename_patch in H.
  destruct (name_eqb new old); [injection H as <-; eauto|].
  match type of H with (if ?b then _ else _) = _ => destruct b end; [discriminate|].
  destruct (negb _); [discriminate|].
  match type of H with match ?x with _ => _ end = _ => destruct x as [[[a u] h]|] end; [|discriminate].
  destruct (match up_get (t_updated t) old with Some (Some o0) => Some o0 | _ => _ end) as [po|] eqn:Eps;
    [|discriminate].
  injection H as <-.
  unfold t_patch in E. rewrite t_stack_set_updated, t_updated_set_updated, t_stack_set_lists in E.
  rewrite !up_get_set in E.
  destruct (name_eqb new n).
  - injection E as <-. exists old. unfold t_patch.
    destruct (up_get (t_updated t) old) as [[o0|]|]; auto.
  - destruct (name_eqb old n); [discriminate|]. exists n. left. exact E.
Qed.

(* ---------------------------------------------------------------- reset_to_state *)

Lemma reset_to_state_src : forall s t t' n o,
  reset_to_state s t = TOk t' -> t_patch t' n = Some o ->
  In (n, o) (s_patches s) \/ t_patch t n = Some o.
Proof.
  intros s t t' n o H E. unfold reset_to_state in H.
  destruct (match s_applied s with [] => _ | _ => _ end) as [b|]; [|discriminate].
  injection H as <-. unfold t_patch in E.
  rewrite t_stack_set_lists, t_updated_set_lists, t_stack_set_head, t_updated_set_head,
    t_stack_set_base, t_updated_set_base, t_stack_set_updated, t_updated_set_updated in E.
  change (fold_left _ (s_patches s) ?u) with (set_all (s_patches s) u) in E.
  rewrite up_get_set_all in E. destruct (pm_get (rev (s_patches s)) n) as [o1|] eqn:Eg.
  - injection E as <-. left. now apply pm_get_rev_In.
  - right. rewrite up_get_mark_deleted in E. destruct (mem n (t_all t)); [discriminate|exact E].
Qed.

(* ---------------------------------------------------------------- what execute publishes *)

Lemma patch_commit_cur : forall w s,
  cur_state w = Some s -> forall n, patch_commit w n = pm_get (s_patches s) n.
Proof. intros w s H n. unfold patch_commit. now rewrite H. Qed.

(* the new state carries exactly the transaction's patches; the store contains its objects *)
Definition published (t : txn) (w' : world) : Prop :=
  store_extends (t_objs t) (w_objs w') /\ forall n, patch_commit w' n = t_patch t n.

Definition kept (w w' : world) : Prop := forall n, patch_commit w' n = patch_commit w n.

Lemma kept_refl : forall w, kept w w.
Proof. intros w n. reflexivity. Qed.

Lemma kept_trans : forall a b c, kept a b -> kept b c -> kept a c.
Proof. intros a b c H1 H2 n. now rewrite H2, H1. Qed.

Lemma kept_cur : forall w w' s s',
  cur_state w = Some s -> cur_state w' = Some s' -> s_patches s' = s_patches s -> kept w w'.
Proof.
  intros w w' s s' H1 H2 E n. now rewrite (patch_commit_cur _ _ H1), (patch_commit_cur _ _ H2), E.
Qed.

Lemma exec_logged_patches : forall w t st w1 st1,
  cur_state w = Some st -> t_stack t = st -> store_extends (w_objs w) (t_objs t) ->
  exec_logged w t = Some (w1, st1) ->
  cur_state w1 = Some st1 /\ s_patches st1 = s_patches st /\ store_extends (t_objs t) (w_objs w1).
Proof.
  intros w t st w1 st1 Hc Hst He E. unfold exec_logged in E.
  pose proof (exec_w0_cur w t st Hc He) as Hc0. destruct (Nat.eqb _ _).
  - injection E as <- <-. rewrite Hst. split; [exact Hc0|]. split; [reflexivity|apply store_extends_refl].
  - unfold log_external_mods in E. destruct (w_stack (exec_w0 w t)) as [so|]; [|discriminate].
    destruct (state_commit _ _ _) as [[objs' so']|] eqn:Ec; [|discriminate].
    injection E as <- <-. apply state_commit_state in Ec as [Hx Ec].
    split; [unfold cur_state; cbn; exact Ec|]. split; [cbn; now rewrite Hst|exact Hx].
Qed.

Lemma exec_co_code : forall t th w1 st1 wt um x,
  exec_co t th w1 st1 = inr (wt, um, x) -> x <> X0.
Proof.
  intros t th w1 st1 wt um x H. unfold exec_co in H.
  destruct (o_set_head (t_opts t) && o_use_iw (t_opts t)); [|discriminate].
  destruct (negb _ && negb _ && negb _); [injection H as _ _ <-; discriminate|].
  destruct (checkout _ _ _ _ _ _ _) as [[a b]|]; [discriminate|].
  destruct (checkout _ _ _ _ _ _ _) as [[a b]|]; [injection H as _ _ <-; discriminate|].
  destruct (tree_eqb _ _); injection H as _ _ <-; discriminate.
Qed.

Lemma exec_body_patches : forall w t halted msg st w' x,
  cur_state w = Some st -> t_stack t = st -> store_extends (w_objs w) (t_objs t) ->
  exec_body w t halted msg = (w', x) ->
  store_extends (w_objs w) (w_objs w')
  /\ ((kept w w' /\ x <> X0)
      \/ (published t w' /\ x = match halted with Some _ => X3 | None => X0 end)).
Proof.
  intros w t halted msg st w' x Hc Hst He E. unfold exec_body in E.
  assert (Hsame : forall y, y <> X0 -> (w, y) = (w', x) ->
            store_extends (w_objs w) (w_objs w')
            /\ ((kept w w' /\ x <> X0)
                \/ (published t w' /\ x = match halted with Some _ => X3 | None => X0 end))).
  { intros y Hy Ey. injection Ey as <- <-. split; [apply store_extends_refl|]. left. split; [apply kept_refl|exact Hy]. }
  destruct (negb _); [apply (Hsame XPanic); [discriminate|exact E]|].
  destruct (t_head_oid t) as [th|]; [|apply (Hsame XPanic); [discriminate|exact E]].
  destruct (exec_logged w t) as [[w1 st1]|] eqn:El.
  - destruct (exec_logged_patches w t st w1 st1 Hc Hst He El) as [Hc1 [Ep1 He1]].
    assert (Hk1 : kept w w1) by (eapply kept_cur; eauto).
    assert (Hx1 : store_extends (w_objs w) (w_objs w1)) by (eapply store_extends_trans; eauto).
    destruct (exec_co t th w1 st1) as [[wt' um']|[[wt' um'] y]] eqn:Eco.
    + unfold exec_fin in E. destruct (w_stack w1) as [prev|] eqn:Es.
      2:{ injection E as <- <-. split; [exact Hx1|]. left. split; [exact Hk1|discriminate]. }
      destruct (state_commit _ _ _) as [[objs' so]|] eqn:Ec.
      2:{ injection E as <- <-. split; [exact Hx1|]. left. split; [exact Hk1|discriminate]. }
      apply state_commit_state in Ec as [Hx2 Ec].
      assert (Hfin : forall b bs, published t (mkWorld objs' b (Some so)
                                   (exec_prefs (w_prefs w1) (t_updated t)) wt' um' bs (w_apc w1))).
      { intros b bs. split; [cbn; eapply store_extends_trans; eauto|].
        intros n. unfold patch_commit, cur_state. cbn [w_stack w_objs]. rewrite Ec.
        unfold exec_state. cbn [s_patches]. rewrite pm_get_apply, Ep1, <- Hst. reflexivity. }
      assert (Hxx : store_extends (w_objs w) objs') by (eapply store_extends_trans; eauto).
      destruct halted; injection E as <- <-; (split; [exact Hxx|]); right; (split; [apply Hfin|reflexivity]).
    + injection E as <- <-. split; [exact Hx1|]. left. split; [|eapply exec_co_code; exact Eco].
      eapply kept_trans; [exact Hk1|]. intros n. reflexivity.
  - injection E as <- <-. split; [exact He|]. left. split; [|discriminate].
    eapply kept_cur; [exact Hc|apply (exec_w0_cur w t st Hc He)|reflexivity].
Qed.

Lemma transact_patches : forall op o f msg w' x,
  op_mir op -> frame (begin_txn op o) (f (begin_txn op o)) ->
  transact op o f msg = (w', x) ->
  store_extends (w_objs (op_world op)) (w_objs w')
  /\ ((kept (op_world op) w' /\ x <> X0)
      \/ exists t', published t' w'
                    /\ ((f (begin_txn op o) = TOk t' /\ x = X0)
                        \/ exists h, f (begin_txn op o) = THalt t' h /\ x = X3)).
Proof.
  intros op o f msg w' x [_ Hi] Hf E. unfold transact in E.
  assert (Hsame : forall y, y <> X0 -> (op_world op, y) = (w', x) ->
            store_extends (w_objs (op_world op)) (w_objs w') /\
            ((kept (op_world op) w' /\ x <> X0) \/
             exists t', published t' w'
                    /\ ((f (begin_txn op o) = TOk t' /\ x = X0)
                        \/ exists h, f (begin_txn op o) = THalt t' h /\ x = X3))).
  { intros y Hy Ey. injection Ey as <- <-. split; [apply store_extends_refl|]. left.
    split; [apply kept_refl|exact Hy]. }
  destruct (op_initialized op) eqn:Ei; cbn [negb] in E.
  - destruct Hi as [Hi|[_ Hi]]; [|discriminate]. rewrite execute_eq in E.
    destruct (f (begin_txn op o)) as [t|t h|t|] eqn:Er; cbn [frame] in Hf.
    + destruct Hf as [Hf1 Hf2].
      destruct (exec_body_patches _ _ _ _ (op_state op) _ _ Hi Hf1 Hf2 E) as [Hx [Hk|[Hp Hc]]];
        (split; [exact Hx|]); [left; exact Hk|right]. exists t. split; [exact Hp|]. left. auto.
    + destruct Hf as [Hf1 Hf2].
      destruct (exec_body_patches _ _ _ _ (op_state op) _ _ Hi Hf1 Hf2 E) as [Hx [Hk|[Hp Hc]]];
        (split; [exact Hx|]); [left; exact Hk|right]. exists t. split; [exact Hp|]. right. eauto.
    + destruct Hf as [Hf1 Hf2]. injection E as <- <-. split; [exact Hf2|]. left. split; [|discriminate].
      eapply kept_cur; [exact Hi|apply (exec_w0_cur _ t _ Hi Hf2)|reflexivity].
    + apply (Hsame XPanic); [discriminate|exact E].
  - destruct (f (begin_txn op o)); first [apply (Hsame X2); [discriminate|exact E]
                                         |apply (Hsame XPanic); [discriminate|exact E]].
Qed.

(* ---------------------------------------------------------------- world level *)

Lemma wsat_kept : forall Q w w',
  Qmono Q -> store_extends (w_objs w) (w_objs w') -> kept w w' -> wsat Q w -> wsat Q w'.
Proof.
  intros Q w w' HQ He Hk H n o E. rewrite Hk in E. eapply HQ; [exact He|]. now apply H.
Qed.

Lemma wsat_published : forall Q t w', Qmono Q -> published t w' -> tsat Q t -> wsat Q w'.
Proof.
  intros Q t w' HQ [He Hp] H n o E. rewrite Hp in E. eapply HQ; [exact He|]. now apply H.
Qed.

Lemma begin_sat : forall Q op o,
  cur_state (op_world op) = Some (op_state op) -> wsat Q (op_world op) -> tsat Q (begin_txn op o).
Proof.
  intros Q op o Hc H n p E. apply H. rewrite (patch_commit_cur _ _ Hc). exact E.
Qed.

Lemma transact_sat : forall Q op o f msg,
  Qmono Q -> op_mir op -> frame (begin_txn op o) (f (begin_txn op o)) ->
  wsat Q (op_world op) ->
  (cur_state (op_world op) = Some (op_state op) -> tsat Q (begin_txn op o) ->
   rsat Q (f (begin_txn op o))) ->
  wsat Q (fst (transact op o f msg)).
Proof.
  intros Q op o f msg HQ Hop Hf Hw Hr.
  destruct (transact op o f msg) as [w' x] eqn:E. cbn [fst].
  destruct (transact_patches op o f msg w' x Hop Hf E) as [Hx [[Hk _]|[t' [Hp Hc]]]].
  - now apply (wsat_kept Q (op_world op)).
  - destruct Hop as [_ [Hi|[_ Hi]]].
    + specialize (Hr Hi (begin_sat Q op o Hi Hw)). apply (wsat_published Q t'); [exact HQ|exact Hp|].
      destruct Hc as [[Hc _]|[h [Hc _]]]; rewrite Hc in Hr; exact Hr.
    + unfold transact in E. rewrite Hi in E. cbn [negb] in E.
      destruct (f (begin_txn op o)); injection E as <- _; exact Hw.
Qed.

(* ---------------------------------------------------------------- opening, adding an object *)

Lemma open_patches : forall p w op,
  open_stack p w = Some op -> p <> PForce ->
  store_extends (w_objs w) (w_objs (op_world op)) /\ kept w (op_world op).
Proof.
  intros p w op H Hp. unfold open_stack in H.
  assert (Href : forall so,
    match state_of (w_objs w) so with
    | None => None
    | Some s => match stack_base (w_objs w) (w_branch w) s with
                | None => None
                | Some b => Some (mkOpened (ensure_patch_refs w s) s b true) end
    end = Some op -> store_extends (w_objs w) (w_objs (op_world op)) /\ kept w (op_world op)).
  { intros so E. destruct (state_of (w_objs w) so) as [s|]; [|discriminate].
    destruct (stack_base _ _ s); [|discriminate]. injection E as <-.
    split; [cbn; apply store_extends_refl|intros n; reflexivity]. }
  assert (Hini : w_stack w = None ->
    match state_commit (w_objs w) (empty_state (w_branch w)) MOp with
    | None => None
    | Some (objs', so) =>
        Some (mkOpened (ensure_patch_refs
                 (mkWorld objs' (w_branch w) (Some so) (w_prefs w) (w_wt w) (w_unmerged w) (w_base w) (w_apc w))
                 (empty_state (w_branch w))) (empty_state (w_branch w)) (w_branch w) true)
    end = Some op -> store_extends (w_objs w) (w_objs (op_world op)) /\ kept w (op_world op)).
  { intros Hs E. destruct (state_commit _ _ _) as [[objs' so]|] eqn:Ec; [|discriminate].
    injection E as <-. apply state_commit_state in Ec as [Hx Ec]. split; [exact Hx|].
    intros n. unfold patch_commit, cur_state. cbn. rewrite Ec, Hs. reflexivity. }
  destruct p, (w_stack w) as [so|] eqn:Es; try discriminate; try congruence; eauto.
  injection H as <-. split; [cbn; apply store_extends_refl|intros n; reflexivity].
Qed.

Lemma open_sat : forall Q p w op,
  Qmono Q -> open_stack p w = Some op -> p <> PForce -> wsat Q w -> wsat Q (op_world op).
Proof.
  intros Q p w op HQ H Hp Hw. destruct (open_patches p w op H Hp) as [Hx Hk].
  now apply (wsat_kept Q w).
Qed.

Lemma kept_put_plain : forall w ps tr m sj,
  kept w (with_objs w (w_objs w ++ [plain ps tr m sj])).
Proof.
  intros w ps tr m sj n. unfold patch_commit, cur_state, with_objs. cbn.
  destruct (w_stack w); [|reflexivity]. now rewrite state_of_put_plain.
Qed.

Lemma wsat_put_plain : forall Q w ps tr m sj,
  Qmono Q -> wsat Q w -> wsat Q (with_objs w (w_objs w ++ [plain ps tr m sj])).
Proof.
  intros Q w ps tr m sj HQ H. apply (wsat_kept Q w); [exact HQ| |apply kept_put_plain|exact H].
  cbn. apply store_extends_put.
Qed.

(* ---------------------------------------------------------------- a successful execute, exactly *)

Lemma exec_logged_fields : forall w t w1 st1,
  exec_logged w t = Some (w1, st1) ->
  w_branch w1 = w_branch w /\ w_wt w1 = t_wt t /\ w_unmerged w1 = t_wt_unmerged t
  /\ s_applied st1 = s_applied (t_stack t) /\ s_unapplied st1 = s_unapplied (t_stack t)
  /\ s_hidden st1 = s_hidden (t_stack t) /\ s_patches st1 = s_patches (t_stack t)
  /\ store_extends (t_objs t) (w_objs w1).
Proof.
  intros w t w1 st1 E. unfold exec_logged in E. destruct (Nat.eqb _ _).
  - injection E as <- <-. cbn. repeat split. apply store_extends_refl.
  - unfold log_external_mods in E. destruct (w_stack (exec_w0 w t)); [|discriminate].
    destruct (state_commit _ _ _) as [[objs' so']|] eqn:Ec; [|discriminate].
    injection E as <- <-. cbn. repeat split. now apply state_commit_state in Ec as [Hx _].
Qed.

Lemma exec_ok_shape : forall w t halted msg w',
  exec_body w t halted msg = (w', X0) ->
  exists th w1 st1 wt' um' prev objs' so,
    exec_consistent t = true /\ t_head_oid t = Some th /\ exec_logged w t = Some (w1, st1)
    /\ exec_co t th w1 st1 = inl (wt', um') /\ w_stack w1 = Some prev
    /\ state_commit (w_objs w1) (exec_state t th prev st1) msg = Some (objs', so)
    /\ w' = mkWorld objs' (if o_set_head (t_opts t) then th else w_branch w1) (Some so)
                    (exec_prefs (w_prefs w1) (t_updated t)) wt' um'
                    (match t_base t with Some b => b | None => w_base w1 end) (w_apc w1)
    /\ halted = None.
Proof.
  intros w t halted msg w' E. unfold exec_body in E.
  destruct (exec_consistent t) eqn:Ecs; cbn [negb] in E; [|discriminate].
  destruct (t_head_oid t) as [th|]; [|discriminate].
  destruct (exec_logged w t) as [[w1 st1]|]; [|discriminate].
  destruct (exec_co t th w1 st1) as [[wt' um']|[[wt' um'] y]] eqn:Eco.
  - unfold exec_fin in E. destruct (w_stack w1) as [prev|] eqn:Es; [|discriminate].
    destruct (state_commit _ _ _) as [[objs' so]|] eqn:Ec; [|discriminate].
    destruct halted; [discriminate|]. injection E as <-.
    exists th, w1, st1, wt', um', prev, objs', so. repeat split; auto.
  - injection E as _ ->. exfalso. now apply exec_co_code in Eco.
Qed.

Lemma exec_body_succeeds : forall w t msg th wt' um' prev,
  exec_consistent t = true -> t_head_oid t = Some th -> s_head (t_stack t) = w_branch w ->
  exec_co t th (exec_w0 w t) (t_stack t) = inl (wt', um') -> w_stack w = Some prev ->
  state_of (t_objs t) prev <> None -> first_parent (t_objs t) prev <> None ->
  snd (exec_body w t None msg) = X0.
Proof.
  intros w t msg th wt' um' prev H1 H2 H3 H4 H5 H6 H7. unfold exec_body.
  rewrite H1. cbn [negb]. rewrite H2. unfold exec_logged. rewrite H3, Nat.eqb_refl, H4.
  unfold exec_fin. cbn [exec_w0 w_stack w_objs]. rewrite H5.
  destruct (state_commit _ _ _) as [[objs' so]|] eqn:Ec; [reflexivity|].
  exfalso. revert Ec. apply NoPanicExec.state_commit_some. intros po E. cbn in E. injection E as <-.
  split; assumption.
Qed.

Lemma transact_X0 : forall op o f msg w2,
  transact op o f msg = (w2, X0) ->
  exists t', f (begin_txn op o) = TOk t' /\ op_initialized op = true
             /\ exec_body (op_world op) t' None msg = (w2, X0).
Proof.
  intros op o f msg w2 E. unfold transact in E. destruct (op_initialized op); cbn [negb] in E.
  - rewrite execute_eq in E. destruct (f (begin_txn op o)) as [t|t h|t|]; try discriminate.
    + exists t. auto.
    + apply exec_ok_shape in E. destruct E as (? & ? & ? & ? & ? & ? & ? & ? & E). decompose [and] E. discriminate.
  - destruct (f (begin_txn op o)); discriminate.
Qed.

Lemma new_applied_ok : forall n o t t',
  new_applied n o t = TOk t' ->
  t' = set_updated (set_lists t (t_applied t ++ [n]) (t_unapplied t) (t_hidden t))
                   (up_set (t_updated t) n (Some o)).
Proof.
  intros n o t t' H. unfold new_applied in H.
  destruct (first_parent (t_objs t) o); [|discriminate]. destruct (t_top t); [|discriminate].
  destruct (Nat.eqb _ _); [|discriminate]. now injection H as <-.
Qed.
