(* C01 proofs, part 1: names, patch maps, update maps, the object store, state commits. *)
From Coq Require Import Lia Permutation.
From StgV Require Import Model.StackSpec Proofs.CharsProofs.
From StgV Require Export Proofs.WfProj.

(* ---------------------------------------------------------------- names *)

Lemma name_eqb_eq : forall a b, name_eqb a b = true <-> a = b.
Proof. exact str_eqb_eq. Qed.

Lemma name_eqb_refl : forall a, name_eqb a a = true.
Proof. exact str_eqb_refl. Qed.

Lemma name_eqb_neq : forall a b, name_eqb a b = false <-> a <> b.
Proof.
  intros a b. split.
  - intros H E. apply name_eqb_eq in E. congruence.
  - intros H. destruct (name_eqb a b) eqn:E; [|reflexivity]. apply name_eqb_eq in E. contradiction.
Qed.

Lemma name_eqb_spec : forall a b, reflect (a = b) (name_eqb a b).
Proof.
  intros a b. destruct (name_eqb a b) eqn:E; constructor.
  - now apply name_eqb_eq.
  - now apply name_eqb_neq.
Qed.

Lemma name_eqb_sym : forall a b, name_eqb a b = name_eqb b a.
Proof.
  intros a b. destruct (name_eqb_spec a b) as [->|H].
  - now rewrite name_eqb_refl.
  - symmetry. apply name_eqb_neq. congruence.
Qed.

Lemma mem_In : forall n l, mem n l = true <-> In n l.
Proof.
  intros n l. unfold mem. rewrite existsb_exists. split.
  - intros [x [Hx E]]. apply name_eqb_eq in E. now subst.
  - intros H. exists n. split; [exact H|apply name_eqb_refl].
Qed.

Lemma mem_false : forall n l, mem n l = false <-> ~ In n l.
Proof.
  intros n l. rewrite <- mem_In. destruct (mem n l); split; congruence.
Qed.

Lemma negb_mem_true : forall n l, negb (mem n l) = true <-> ~ In n l.
Proof. intros n l. rewrite negb_true_iff. apply mem_false. Qed.

Lemma name_dec : forall a b : name, {a = b} + {a <> b}.
Proof. intros a b. destruct (name_eqb_spec a b); auto. Qed.

Lemma In_name_dec : forall (n : name) l, {In n l} + {~ In n l}.
Proof. intros n l. apply in_dec. exact name_dec. Qed.

Lemma collides_refl : forall a, collides a a = true.
Proof. intros a. unfold collides. apply str_eqb_refl. Qed.

Lemma collides_sym : forall a b, collides a b = collides b a.
Proof.
  intros a b. unfold collides.
  destruct (str_eqb (map ascii_lower a) (map ascii_lower b)) eqn:E1;
    destruct (str_eqb (map ascii_lower b) (map ascii_lower a)) eqn:E2; try reflexivity.
  - apply str_eqb_eq in E1. rewrite E1, str_eqb_refl in E2. discriminate.
  - apply str_eqb_eq in E2. rewrite E2, str_eqb_refl in E1. discriminate.
Qed.

Lemma collides_trans : forall a b c, collides a b = true -> collides b c = true -> collides a c = true.
Proof.
  unfold collides. intros a b c H1 H2. apply str_eqb_eq in H1, H2. apply str_eqb_eq. congruence.
Qed.

(* ---------------------------------------------------------------- lists *)

Lemma NoDup_app_iff : forall (A : Type) (l l' : list A),
  NoDup (l ++ l') <-> NoDup l /\ NoDup l' /\ (forall x, In x l -> ~ In x l').
Proof.
  intros A l l'. induction l as [|a l IH]; cbn.
  - split.
    + intros H. repeat split; [constructor|exact H|tauto].
    + tauto.
  - split.
    + intros H. inversion H as [|? ? Hn Hd]; subst. apply IH in Hd as [H1 [H2 H3]].
      repeat split.
      * constructor; [|exact H1]. intros Hi. apply Hn. apply in_or_app. now left.
      * exact H2.
      * intros x [->|Hx]; [|now apply H3]. intros Hi. apply Hn. apply in_or_app. now right.
    + intros [H1 [H2 H3]]. inversion H1 as [|? ? Hn Hd]; subst. constructor.
      * intros Hi. apply in_app_or in Hi as [Hi|Hi]; [contradiction|]. apply (H3 a); auto.
      * apply IH. repeat split; auto.
Qed.

Lemma NoDup_filter : forall (A : Type) (f : A -> bool) l, NoDup l -> NoDup (filter f l).
Proof.
  intros A f l H. induction H as [|a l Hn Hd IH]; cbn; [constructor|].
  destruct (f a); [|exact IH]. constructor; [|exact IH].
  intros Hi. apply filter_In in Hi. tauto.
Qed.

Lemma filter_perm : forall (A : Type) (f : A -> bool) l,
  Permutation (filter f l ++ filter (fun x => negb (f x)) l) l.
Proof.
  intros A f l. induction l as [|a l IH]; cbn; [constructor|].
  destruct (f a); cbn.
  - now constructor.
  - apply Permutation_sym. apply Permutation_cons_app. now apply Permutation_sym.
Qed.

Lemma filter_perm' : forall (A : Type) (f : A -> bool) l,
  Permutation (filter (fun x => negb (f x)) l ++ filter f l) l.
Proof.
  intros A f l. eapply Permutation_trans; [apply Permutation_app_comm|apply filter_perm].
Qed.

Lemma filter_all : forall (A : Type) (f : A -> bool) l,
  (forall x, In x l -> f x = true) -> filter f l = l.
Proof.
  intros A f l H. induction l as [|a l IH]; cbn; [reflexivity|].
  rewrite (H a (or_introl eq_refl)). f_equal. apply IH. intros x Hx. apply H. now right.
Qed.

Lemma filter_none : forall (A : Type) (f : A -> bool) l,
  (forall x, In x l -> f x = false) -> filter f l = [].
Proof.
  intros A f l H. induction l as [|a l IH]; cbn; [reflexivity|].
  rewrite (H a (or_introl eq_refl)). apply IH. intros x Hx. apply H. now right.
Qed.

Lemma firstn_skipn_In : forall (A : Type) n (l : list A) x,
  In x l <-> In x (firstn n l) \/ In x (skipn n l).
Proof.
  intros A n l x. rewrite <- (firstn_skipn n l) at 1. rewrite in_app_iff. tauto.
Qed.

Lemma In_firstn : forall (A : Type) n (l : list A) x, In x (firstn n l) -> In x l.
Proof. intros A n l x H. apply (firstn_skipn_In A n l x). now left. Qed.

Lemma In_skipn : forall (A : Type) n (l : list A) x, In x (skipn n l) -> In x l.
Proof. intros A n l x H. apply (firstn_skipn_In A n l x). now right. Qed.

Lemma NoDup_firstn_skipn : forall (A : Type) n (l : list A),
  NoDup l -> NoDup (firstn n l) /\ NoDup (skipn n l) /\ (forall x, In x (firstn n l) -> ~ In x (skipn n l)).
Proof. intros A n l H. rewrite <- (firstn_skipn n l) in H. now apply NoDup_app_iff in H. Qed.

Lemma last_error_In : forall (A : Type) (l : list A) x, hd_error (rev l) = Some x -> In x l.
Proof.
  intros A l x H. apply in_rev. destruct (rev l) as [|y r]; [discriminate|].
  injection H as ->. now left.
Qed.

Lemma last_error_app : forall (A : Type) (l : list A) x, hd_error (rev (l ++ [x])) = Some x.
Proof. intros A l x. now rewrite rev_app_distr. Qed.

Lemma hd_error_In : forall (A : Type) (l : list A) x, hd_error l = Some x -> In x l.
Proof. intros A [|y l] x H; [discriminate|]. injection H as ->. now left. Qed.

(* ---------------------------------------------------------------- names_ok *)

Lemma names_ok_nil : names_ok [].
Proof. repeat split; [constructor|constructor|intros a b []]. Qed.

Lemma names_ok_sub : forall l l', names_ok l -> NoDup l' -> incl l' l -> names_ok l'.
Proof.
  intros l l' [H1 [H2 H3]] Hd Hi. repeat split; [exact Hd| |].
  - rewrite Forall_forall in *. intros x Hx. apply H2. now apply Hi.
  - intros a b Ha Hb. apply H3; now apply Hi.
Qed.

Lemma names_ok_perm : forall l l', Permutation l' l -> names_ok l -> names_ok l'.
Proof.
  intros l l' Hp H. apply (names_ok_sub l l' H).
  - apply (Permutation_NoDup (Permutation_sym Hp)). apply H.
  - intros x Hx. now apply (Permutation_in _ Hp).
Qed.

Lemma names_ok_cons : forall n l,
  names_ok l -> validate n = true -> (forall m, In m l -> collides n m = false) -> names_ok (n :: l).
Proof.
  intros n l [H1 [H2 H3]] Hv Hc. repeat split.
  - constructor; [|exact H1]. intros Hi. apply Hc in Hi. rewrite collides_refl in Hi. discriminate.
  - now constructor.
  - intros a b [<-|Ha] [<-|Hb] E; auto.
    + rewrite (Hc b Hb) in E. discriminate.
    + rewrite collides_sym, (Hc a Ha) in E. discriminate.
Qed.

(* ---------------------------------------------------------------- patch maps *)

Lemma pm_get_remove : forall m k n,
  pm_get (pm_remove m k) n = if name_eqb k n then None else pm_get m n.
Proof.
  induction m as [|[k' v] m IH]; intros k n; cbn.
  - now destruct (name_eqb k n).
  - destruct (name_eqb_spec k' k) as [->|Hk].
    + rewrite IH. destruct (name_eqb k n); reflexivity.
    + cbn. rewrite IH. destruct (name_eqb_spec k' n) as [->|Hn]; [|reflexivity].
      apply not_eq_sym in Hk. apply name_eqb_neq in Hk. now rewrite Hk.
Qed.

Lemma pm_get_app : forall m m' n,
  pm_get (m ++ m') n = match pm_get m n with Some o => Some o | None => pm_get m' n end.
Proof.
  induction m as [|[k v] m IH]; intros m' n; cbn; [reflexivity|].
  destruct (name_eqb k n); [reflexivity|apply IH].
Qed.

Lemma pm_get_set : forall m k o n,
  pm_get (pm_set m k o) n = if name_eqb k n then Some o else pm_get m n.
Proof.
  intros m k o n. unfold pm_set. rewrite pm_get_app, pm_get_remove. cbn.
  destruct (name_eqb k n); [reflexivity|]. now destruct (pm_get m n).
Qed.

Lemma pm_get_apply : forall u m n,
  pm_get (pm_apply m u) n = match up_get u n with Some v => v | None => pm_get m n end.
Proof.
  induction u as [|[k [o|]] u IH]; intros m n; cbn; [reflexivity| |].
  - rewrite pm_get_set. destruct (name_eqb k n); [reflexivity|apply IH].
  - rewrite pm_get_remove. destruct (name_eqb k n); [reflexivity|apply IH].
Qed.

Lemma keys_remove : forall m k x,
  In x (map fst (pm_remove m k)) <-> In x (map fst m) /\ x <> k.
Proof.
  induction m as [|[k' v] m IH]; intros k x; cbn; [tauto|].
  destruct (name_eqb_spec k' k) as [->|Hk].
  - rewrite IH. split; [tauto|]. intros [[->|H] Hn]; [contradiction|tauto].
  - cbn. rewrite IH. split.
    + intros [->|[H1 H2]]; auto.
    + intros [[->|H] Hn]; auto.
Qed.

Lemma NoDup_keys_remove : forall m k, NoDup (map fst m) -> NoDup (map fst (pm_remove m k)).
Proof.
  induction m as [|[k' v] m IH]; intros k H; cbn; [constructor|].
  cbn in H. inversion H as [|? ? Hn Hd]; subst.
  destruct (name_eqb k' k); [now apply IH|]. cbn. constructor; [|now apply IH].
  intros Hi. apply keys_remove in Hi. tauto.
Qed.

Lemma NoDup_keys_set : forall m k o, NoDup (map fst m) -> NoDup (map fst (pm_set m k o)).
Proof.
  intros m k o H. unfold pm_set. rewrite map_app. apply NoDup_app_iff. repeat split.
  - now apply NoDup_keys_remove.
  - cbn. constructor; [intros []|constructor].
  - intros x Hx [<-|[]]. apply keys_remove in Hx. now destruct Hx.
Qed.

Lemma NoDup_keys_apply : forall u m, NoDup (map fst m) -> NoDup (map fst (pm_apply m u)).
Proof.
  induction u as [|[k [o|]] u IH]; intros m H; cbn; [exact H| |].
  - apply NoDup_keys_set. now apply IH.
  - apply NoDup_keys_remove. now apply IH.
Qed.

Lemma pm_get_In : forall m n o, pm_get m n = Some o -> In (n, o) m.
Proof.
  induction m as [|[k v] m IH]; intros n o H; cbn in H; [discriminate|].
  destruct (name_eqb_spec k n) as [->|Hk].
  - injection H as ->. now left.
  - right. now apply IH.
Qed.

Lemma pm_get_None : forall m n, pm_get m n = None <-> ~ In n (map fst m).
Proof.
  induction m as [|[k v] m IH]; intros n; cbn; [tauto|].
  destruct (name_eqb_spec k n) as [->|Hk].
  - split; [discriminate|]. intros H. exfalso. apply H. now left.
  - rewrite IH. tauto.
Qed.

Lemma In_pm_get : forall m n o, NoDup (map fst m) -> In (n, o) m -> pm_get m n = Some o.
Proof.
  induction m as [|[k v] m IH]; intros n o Hd Hi; [destruct Hi|].
  cbn in Hd. inversion Hd as [|? ? Hn Hd']; subst. cbn. destruct Hi as [E|Hi].
  - injection E as -> ->. now rewrite name_eqb_refl.
  - destruct (name_eqb_spec k n) as [->|Hk].
    + exfalso. apply Hn. change n with (fst (n, o)). now apply in_map.
    + now apply IH.
Qed.

(* ---------------------------------------------------------------- update maps *)

Lemma up_get_remove : forall u k n,
  up_get (up_remove u k) n = if name_eqb k n then None else up_get u n.
Proof.
  induction u as [|[k' v] u IH]; intros k n; cbn.
  - now destruct (name_eqb k n).
  - destruct (name_eqb_spec k' k) as [->|Hk].
    + rewrite IH. destruct (name_eqb k n); reflexivity.
    + cbn. rewrite IH. destruct (name_eqb_spec k' n) as [->|Hn]; [|reflexivity].
      apply not_eq_sym in Hk. apply name_eqb_neq in Hk. now rewrite Hk.
Qed.

Lemma up_get_set : forall u k v n,
  up_get (up_set u k v) n = if name_eqb k n then Some v else up_get u n.
Proof.
  intros u k v n. unfold up_set. cbn. rewrite up_get_remove. now destruct (name_eqb k n).
Qed.

Lemma up_get_mark_deleted : forall ns u n,
  up_get (mark_deleted u ns) n = if mem n ns then Some None else up_get u n.
Proof.
  unfold mark_deleted. induction ns as [|k ns IH]; intros u n; cbn [fold_left]; [reflexivity|].
  rewrite IH. change (mem n (k :: ns)) with (name_eqb n k || mem n ns).
  destruct (mem n ns); [now rewrite orb_true_r|].
  rewrite orb_false_r, up_get_set, (name_eqb_sym n k). now destruct (name_eqb k n).
Qed.

Definition set_all (ps : list (name * oid)) (u : upd) : upd :=
  fold_left (fun u p => up_set u (fst p) (Some (snd p))) ps u.

Lemma up_get_set_all : forall ps u n,
  up_get (set_all ps u) n =
  match pm_get (rev ps) n with Some o => Some (Some o) | None => up_get u n end.
Proof.
  unfold set_all. induction ps as [|[k o] ps IH]; intros u n; cbn [fold_left rev fst snd]; [reflexivity|].
  rewrite IH, pm_get_app, up_get_set. cbn.
  destruct (pm_get (rev ps) n); [reflexivity|]. now destruct (name_eqb k n).
Qed.

Lemma pm_get_rev_In : forall ps n o, pm_get (rev ps) n = Some o -> In (n, o) ps.
Proof. intros ps n o H. apply pm_get_In in H. now apply in_rev. Qed.

Lemma pm_get_rev_None : forall ps n, pm_get (rev ps) n = None <-> ~ In n (map fst ps).
Proof.
  intros ps n. rewrite pm_get_None, map_rev. split; intros H Hi; apply H.
  - now apply -> in_rev.
  - now apply in_rev.
Qed.

(* ---------------------------------------------------------------- the store *)

Lemma get_app_l : forall objs ext o c, get objs o = Some c -> get (objs ++ ext) o = Some c.
Proof.
  unfold get. intros objs ext o c H. rewrite nth_error_app1; [exact H|].
  apply nth_error_Some. congruence.
Qed.

Lemma get_app_inv : forall objs ext o c,
  get (objs ++ ext) o = Some c -> get objs o = Some c \/ (get objs o = None /\ In c ext).
Proof.
  unfold get. intros objs ext o c H. destruct (Nat.lt_ge_cases o (length objs)) as [Hl|Hl].
  - left. now rewrite nth_error_app1 in H.
  - right. split; [now apply nth_error_None|]. rewrite nth_error_app2 in H by exact Hl.
    now apply nth_error_In in H.
Qed.

Lemma get_put_new : forall objs c, get (objs ++ [c]) (length objs) = Some c.
Proof. intros objs c. unfold get. rewrite nth_error_app2, Nat.sub_diag by lia. reflexivity. Qed.

Lemma store_extends_refl : forall a, store_extends a a.
Proof. intros a. exists []. now rewrite app_nil_r. Qed.

Lemma store_extends_trans : forall a b c, store_extends a b -> store_extends b c -> store_extends a c.
Proof. intros a b c [e1 ->] [e2 ->]. exists (e1 ++ e2). now rewrite app_assoc. Qed.

Lemma store_extends_put : forall a c, store_extends a (a ++ [c]).
Proof. intros a c. now exists [c]. Qed.

Lemma is_plain_mono : forall objs ext o, is_plain objs o -> is_plain (objs ++ ext) o.
Proof. intros objs ext o [c [H1 H2]]. exists c. split; [now apply get_app_l|exact H2]. Qed.

Lemma parents_of_mono : forall objs ext o c,
  get objs o = Some c -> parents_of (objs ++ ext) o = parents_of objs o.
Proof. intros objs ext o c H. unfold parents_of. now rewrite (get_app_l _ ext _ _ H), H. Qed.

Lemma is_plain_get : forall objs o, is_plain objs o -> exists c, get objs o = Some c.
Proof. intros objs o [c [H _]]. eauto. Qed.

Lemma is_patch_commit_mono : forall objs ext o,
  is_patch_commit objs o -> is_patch_commit (objs ++ ext) o.
Proof.
  intros objs ext o [Hp [p Hpar]]. split; [now apply is_plain_mono|].
  exists p. destruct (is_plain_get _ _ Hp) as [c Hc]. now rewrite (parents_of_mono _ _ _ _ Hc).
Qed.

Lemma state_of_mono : forall objs ext so s,
  state_of objs so = Some s -> state_of (objs ++ ext) so = Some s.
Proof.
  unfold state_of. intros objs ext so s H. destruct (get objs so) as [c|] eqn:E; [|discriminate].
  now rewrite (get_app_l _ ext _ _ E).
Qed.

Lemma wf_state_mono : forall objs ext s, wf_state objs s -> wf_state (objs ++ ext) s.
Proof.
  intros objs ext s [H1 [H2 [H3 [H4 H5]]]].
  split; [exact H1|]. split; [exact H2|]. split; [exact H3|]. split.
  - intros n o Hg. apply is_patch_commit_mono. eapply H4; eauto.
  - now apply is_plain_mono.
Qed.

Lemma is_plain_ext : forall a b o, store_extends a b -> is_plain a o -> is_plain b o.
Proof. intros a b o [e ->]. apply is_plain_mono. Qed.

Lemma is_patch_commit_ext : forall a b o, store_extends a b -> is_patch_commit a o -> is_patch_commit b o.
Proof. intros a b o [e ->]. apply is_patch_commit_mono. Qed.

Lemma state_of_ext : forall a b so s, store_extends a b -> state_of a so = Some s -> state_of b so = Some s.
Proof. intros a b so s [e ->]. apply state_of_mono. Qed.

Lemma wf_state_ext : forall a b s, store_extends a b -> wf_state a s -> wf_state b s.
Proof. intros a b s [e ->]. apply wf_state_mono. Qed.

Definition store_ok (objs : store) : Prop :=
  plain_closed objs /\ (forall so s, state_of objs so = Some s -> wf_state objs s).

Definition nonplain (c : commit) : Prop := c_state c <> None \/ c_msg c = MGroup.

(* one new object: either a plain commit on plain parents, or a state / grouping commit
   whose state (if any) is well formed *)
Lemma store_ok_put : forall objs c,
  store_ok objs ->
  (nonplain c \/ (forall p, In p (c_parents c) -> is_plain objs p)) ->
  (forall s, c_state c = Some s -> wf_state objs s) ->
  store_ok (objs ++ [c]).
Proof.
  intros objs c [Hc Hs] Hpar Hst. split.
  - intros o p [c' [Hg [Hn Hm]]] Hin. pose proof Hg as Hg0.
    apply get_app_inv in Hg as [Hg|[Hg Hi]].
    + apply is_plain_mono. apply (Hc o p).
      * exists c'. auto.
      * now rewrite (parents_of_mono _ _ _ _ Hg) in Hin.
    + destruct Hi as [<-|[]]. destruct Hpar as [[Hx|Hx]|Hx]; [contradiction|contradiction|].
      apply is_plain_mono. apply Hx. unfold parents_of in Hin. now rewrite Hg0 in Hin.
  - intros so s H. unfold state_of in H. destruct (get (objs ++ [c]) so) as [c'|] eqn:Hg; [|discriminate].
    apply get_app_inv in Hg as [Hg|[Hg Hi]].
    + apply wf_state_mono. apply (Hs so). unfold state_of. now rewrite Hg.
    + destruct Hi as [<-|[]]. apply wf_state_mono. now apply Hst.
Qed.

(* ---------------------------------------------------------------- state commits *)

Definition grp_only (ext : store) : Prop :=
  Forall (fun c => c_state c = None /\ c_msg c = MGroup) ext.

Lemma group_parents_shape : forall fuel maxp objs st ps objs' ps',
  group_parents fuel maxp objs st ps = (objs', ps') ->
  exists ext, objs' = objs ++ ext /\ grp_only ext.
Proof.
  induction fuel as [|fuel IH]; intros maxp objs st ps objs' ps' H; cbn [group_parents] in H.
  - injection H as <- <-. exists []. split; [now rewrite app_nil_r|constructor].
  - destruct (Nat.ltb maxp (length ps)).
    + unfold put in H. apply IH in H as [ext [-> Hg]].
      eexists (_ :: ext). split; [now rewrite <- app_assoc|].
      constructor; [split; reflexivity|exact Hg].
    + injection H as <- <-. exists []. split; [now rewrite app_nil_r|constructor].
Qed.

Lemma state_commit_shape : forall objs s msg objs' so,
  state_commit objs s msg = Some (objs', so) ->
  exists c1 ext c2, objs' = (objs ++ [c1] ++ ext) ++ [c2] /\ c_state c1 = Some s /\ c_state c2 = Some s
    /\ grp_only ext /\ so = length (objs ++ [c1] ++ ext).
Proof.
  intros objs s msg objs' so H. unfold state_commit in H.
  destruct (match s_prev s with Some _ => _ | None => _ end) as [prev|]; [|discriminate].
  destruct (match prev with Some _ => _ | None => _ end) as [sp|]; [|discriminate].
  unfold put in H. cbv beta iota zeta in H.
  destruct (group_parents _ _ _ _ _) as [objs2 grouped] eqn:G.
  apply group_parents_shape in G as [ext [-> Hg]]. injection H as <- <-.
  eexists _, ext, _. rewrite <- !app_assoc. cbn [app]. repeat split; try reflexivity; try exact Hg.
Qed.

Lemma state_commit_state : forall objs s msg objs' so,
  state_commit objs s msg = Some (objs', so) ->
  store_extends objs objs' /\ state_of objs' so = Some s.
Proof.
  intros objs s msg objs' so H. apply state_commit_shape in H as [c1 [ext [c2 [-> [H1 [H2 [Hg ->]]]]]]].
  split.
  - exists (([c1] ++ ext) ++ [c2]). now rewrite !app_assoc.
  - unfold state_of. now rewrite get_put_new.
Qed.

Lemma store_ok_app_grp : forall ext objs, store_ok objs -> grp_only ext -> store_ok (objs ++ ext).
Proof.
  induction ext as [|c ext IH]; intros objs H Hg; [now rewrite app_nil_r|].
  inversion Hg as [|? ? [Hc1 Hc2] Hg']; subst.
  change (c :: ext) with ([c] ++ ext). rewrite app_assoc. apply IH; [|exact Hg'].
  apply store_ok_put; [exact H| |].
  - left. now right.
  - intros s Hs. congruence.
Qed.

Lemma state_commit_ok : forall objs s msg objs' so,
  store_ok objs -> wf_state objs s ->
  state_commit objs s msg = Some (objs', so) ->
  store_ok objs' /\ store_extends objs objs' /\ state_of objs' so = Some s.
Proof.
  intros objs s msg objs' so Hok Hwf H. pose proof (state_commit_state _ _ _ _ _ H) as [He Hs].
  split; [|split; assumption].
  apply state_commit_shape in H as [c1 [ext [c2 [-> [H1 [H2 [Hg _]]]]]]].
  assert (Hok1 : store_ok (objs ++ [c1])).
  { apply store_ok_put; [exact Hok| |].
    - left. left. congruence.
    - intros s' Hs'. congruence. }
  rewrite app_assoc. apply store_ok_put.
  - now apply store_ok_app_grp.
  - left. left. congruence.
  - intros s' Hs'. assert (s' = s) by congruence. subst s'.
    rewrite <- app_assoc. now apply wf_state_mono.
Qed.

(* ---------------------------------------------------------------- the invariant, unfolded *)

Definition Inv' (objs : store) (branch : oid) (stack : option oid) : Prop :=
  store_ok objs /\ is_plain objs branch
  /\ match stack with Some so => exists s, state_of objs so = Some s | None => True end.

Lemma Inv_iff : forall w, Inv w <-> Inv' (w_objs w) (w_branch w) (w_stack w).
Proof. intros w. unfold Inv, Inv', store_ok. tauto. Qed.

Lemma Inv'_ext : forall a b br st,
  Inv' a br st -> store_ok b -> store_extends a b -> Inv' b br st.
Proof.
  intros a b br st [H1 [H2 H3]] Hok He. split; [exact Hok|]. split.
  - now apply (is_plain_ext a b).
  - destruct st as [so|]; [|exact I]. destruct H3 as [s Hs]. exists s. now apply (state_of_ext a b).
Qed.

(* ---------------------------------------------------------------- results of transactions *)

Lemma tbind_TOk : forall r f t', tbind r f = TOk t' -> exists t1, r = TOk t1 /\ f t1 = TOk t'.
Proof. intros [t| | |] f t' H; cbn in H; try discriminate. eauto. Qed.

(* the frame of every transaction operation: the stack it was set up from is kept and the
   store only grows *)
Definition fr (t t' : txn) : Prop :=
  t_stack t' = t_stack t /\ store_extends (t_objs t) (t_objs t').

Definition frame (t : txn) (r : tres) : Prop :=
  match r with
  | TOk t' | THalt t' _ | TErr t' => fr t t'
  | TPanic => True
  end.

Lemma fr_refl : forall t, fr t t.
Proof. intros t. split; [reflexivity|apply store_extends_refl]. Qed.

Lemma fr_trans : forall a b c, fr a b -> fr b c -> fr a c.
Proof.
  intros a b c [H1 H2] [H3 H4]. split; [congruence|]. eapply store_extends_trans; eauto.
Qed.

Lemma frame_fr : forall a b r, fr a b -> frame b r -> frame a r.
Proof. intros a b [t|t h|t|] H1 H2; cbn in *; try exact I; eapply fr_trans; eauto. Qed.

Lemma frame_tbind : forall t r f,
  frame t r -> (forall t1, fr t t1 -> frame t1 (f t1)) -> frame t (tbind r f).
Proof.
  intros t [t1|t1 h|t1|] f H1 H2; cbn in *; try assumption.
  eapply frame_fr; [exact H1|]. now apply H2.
Qed.
