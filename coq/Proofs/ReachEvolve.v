(* C06, part 2: an abstract description of how a command may change the object store and the
   stack ref ("evolve"), and what follows from it: prev links stay decreasing, every patch of
   every logged state stays reachable, the log is append-only. *)
From Coq Require Import Lia.
From StgV Require Import Model.StackSpec Model.LogSpec Proofs.ReachBase.
Local Open Scope nat_scope.

(* one step: the store grows by non-state commits (ref unchanged), or a state commit whose
   prev is the current ref is written and becomes the ref; with [b = true] also a state commit
   without prev (stg log --clear) *)
Inductive estep (b : bool) : store -> option oid -> store -> option oid -> Prop :=
| es_ext : forall objs st objs',
    plain_extends objs objs' -> estep b objs st objs' st
| es_commit : forall objs st s msg objs' so,
    s_prev s = st -> state_commit objs s msg = Some (objs', so) ->
    estep b objs st objs' (Some so)
| es_clear : forall objs st s msg objs' so,
    b = true -> s_prev s = None -> state_commit objs s msg = Some (objs', so) ->
    estep b objs st objs' (Some so).

Inductive evolve (b : bool) : store -> option oid -> store -> option oid -> Prop :=
| ev_refl : forall objs st, evolve b objs st objs st
| ev_step : forall objs st objs1 st1 objs2 st2,
    estep b objs st objs1 st1 -> evolve b objs1 st1 objs2 st2 -> evolve b objs st objs2 st2.

Lemma evolve_one : forall b objs st objs' st', estep b objs st objs' st' -> evolve b objs st objs' st'.
Proof. intros. eapply ev_step; [eassumption|apply ev_refl]. Qed.

Lemma evolve_trans : forall b o1 s1 o2 s2 o3 s3,
  evolve b o1 s1 o2 s2 -> evolve b o2 s2 o3 s3 -> evolve b o1 s1 o3 s3.
Proof.
  intros b o1 s1 o2 s2 o3 s3 H. induction H as [|objs st objs1 st1 objs2 st2 E H IH]; intros H2.
  - exact H2.
  - eapply ev_step; [exact E|]. now apply IH.
Qed.

Lemma estep_weaken : forall b objs st objs' st', estep false objs st objs' st' -> estep b objs st objs' st'.
Proof.
  intros b objs st objs' st' H. inversion H; subst.
  - now apply es_ext.
  - eapply es_commit; eauto.
  - discriminate.
Qed.

Lemma evolve_weaken : forall b objs st objs' st', evolve false objs st objs' st' -> evolve b objs st objs' st'.
Proof.
  intros b objs st objs' st' H. induction H; [apply ev_refl|].
  eapply ev_step; [apply estep_weaken; eassumption|assumption].
Qed.

Lemma evolve_ext : forall b objs st objs', plain_extends objs objs' -> evolve b objs st objs' st.
Proof. intros. apply evolve_one. now apply es_ext. Qed.

Lemma estep_extends : forall b objs st objs' st', estep b objs st objs' st' -> store_extends objs objs'.
Proof.
  intros b objs st objs' st' H. inversion H; subst.
  - eapply ext_by_extends; eauto.
  - match goal with H : state_commit _ _ _ = _ |- _ => apply state_commit_strong in H; destruct H as [E _] end.
    eapply ext_by_extends; eauto.
  - match goal with H : state_commit _ _ _ = _ |- _ => apply state_commit_strong in H; destruct H as [E _] end.
    eapply ext_by_extends; eauto.
Qed.

Lemma evolve_extends : forall b objs st objs' st', evolve b objs st objs' st' -> store_extends objs objs'.
Proof.
  intros b objs st objs' st' H. induction H; [apply store_extends_refl|].
  eapply store_extends_trans; [eapply estep_extends; eassumption|assumption].
Qed.

(* ---------------------------------------------------------------- prev_decreasing *)

Lemma prev_decreasing_plain : forall objs objs',
  plain_extends objs objs' -> prev_decreasing objs -> prev_decreasing objs'.
Proof.
  intros objs objs' E PD so s p Hs Hp.
  destruct (state_of_plain_ext _ _ _ _ E Hs) as [_ Hs']. eapply PD; eauto.
Qed.

Lemma state_of_commit_ext : forall s objs objs' x s0,
  ext_by (statec s) objs objs' -> state_of objs' x = Some s0 ->
  (x < length objs /\ state_of objs x = Some s0) \/ (length objs <= x /\ s0 = s).
Proof.
  intros s objs objs' x s0 E H. destruct (Nat.lt_ge_cases x (length objs)) as [Hlt|Hge].
  - left. split; [exact Hlt|]. rewrite <- H. symmetry. apply state_of_ext_lt; [|exact Hlt].
    eapply ext_by_extends; eauto.
  - right. split; [exact Hge|]. unfold state_of in H. destruct (get objs' x) eqn:G; [|discriminate].
    pose proof (get_ext_ge _ _ _ _ _ E G Hge) as [Hc|Hc]; congruence.
Qed.

Lemma prev_decreasing_commit : forall objs s msg objs' so,
  state_commit objs s msg = Some (objs', so) -> prev_decreasing objs -> prev_decreasing objs'.
Proof.
  intros objs s msg objs' so H PD x s0 p Hs Hp.
  destruct (state_commit_strong _ _ _ _ _ H) as [E [_ [_ [Hprev _]]]].
  destruct (state_of_commit_ext _ _ _ _ _ E Hs) as [[_ Hs']|[Hge Es]].
  - eapply PD; eauto.
  - subst s0. destruct (Hprev _ Hp) as [ps Hps]. apply state_of_lt in Hps. lia.
Qed.

Lemma estep_prev_decreasing : forall b objs st objs' st',
  estep b objs st objs' st' -> prev_decreasing objs -> prev_decreasing objs'.
Proof.
  intros b objs st objs' st' H PD. inversion H; subst.
  - eapply prev_decreasing_plain; eauto.
  - eapply prev_decreasing_commit; eauto.
  - eapply prev_decreasing_commit; eauto.
Qed.

Lemma evolve_prev_decreasing : forall b objs st objs' st',
  evolve b objs st objs' st' -> prev_decreasing objs -> prev_decreasing objs'.
Proof.
  intros b objs st objs' st' H. induction H; intros PD; [exact PD|].
  apply IHevolve. eapply estep_prev_decreasing; eauto.
Qed.

(* ---------------------------------------------------------------- reachability *)

Definition WFF (objs : store) : Prop :=
  forall so s, state_of objs so = Some s -> wf_state objs s /\ chain_ok objs s.

Lemma chain_reach : forall objs l base head,
  chain objs base l head -> reach objs head base /\ forall o, In o l -> reach objs head o.
Proof.
  intros objs. induction l as [|p rest IH]; intros base head H; cbn [chain] in H.
  - subst. split; [constructor|intros o []].
  - destruct H as [Hp Hc]. destruct (IH _ _ Hc) as [R1 R2]. split.
    + eapply reach_trans; [exact R1|]. eapply reach_step; [|constructor]. rewrite Hp. now left.
    + intros o [E|Hin]; [subst; exact R1|now apply R2].
Qed.

Lemma wf_patch_get : forall objs s n, wf_state objs s -> In n (all_of s) ->
  exists o, pm_get (s_patches s) n = Some o /\ patch_oid s n = o.
Proof.
  intros objs s n [_ [_ [Hiff _]]] Hin. apply Hiff in Hin. unfold patch_oid.
  destruct (pm_get (s_patches s) n) as [o|]; [|congruence]. now exists o.
Qed.

Lemma wf_patch_not_state : forall objs s n o s0, wf_state objs s ->
  pm_get (s_patches s) n = Some o -> state_of objs o = Some s0 -> False.
Proof.
  intros objs s n o s0 [_ [_ [_ [Hpc _]]]] Hg Hs. apply Hpc in Hg.
  destruct Hg as [[c [Gc [Sc _]]] _]. unfold state_of in Hs. rewrite Gc in Hs. congruence.
Qed.

Lemma on_log_inv : forall objs top s x, state_of objs top = Some s -> on_log objs top x ->
  x = top \/ exists p, s_prev s = Some p /\ on_log objs p x.
Proof.
  intros objs top s x Hs H. inversion H; subst; [now left|].
  right. match goal with H1 : state_of objs top = Some ?s', H2 : s_prev ?s' = Some ?p |- _ =>
    exists p; split; [congruence|assumption] end.
Qed.

Lemma commit_pr : forall objsF objs s msg objs' so,
  WFF objsF -> state_commit objs s msg = Some (objs', so) -> store_extends objs' objsF ->
  (forall top, s_prev s = Some top -> patches_reachable objsF top) ->
  patches_reachable objsF so.
Proof.
  intros objsF objs s msg objs' so W H EF Hold.
  destruct (state_commit_strong _ _ _ _ _ H) as [E [_ [Hso [Hprev [R1 R2]]]]].
  pose proof (ext_by_extends _ _ _ E) as E0.
  pose proof (store_extends_trans _ _ _ E0 EF) as E0F.
  pose proof (state_of_ext _ _ _ _ EF Hso) as HsoF.
  destruct (W _ _ HsoF) as [Wf Ch].
  (* the previous state commit is reachable *)
  assert (Rprev : forall p, s_prev s = Some p -> reach objsF so p).
  { intros p Hp. eapply reach_ext; [exact EF|]. apply R1; [exact Hp|].
    intros ps n Hps Hn Epo.
    pose proof (state_of_ext _ _ _ _ E0F Hps) as HpsF.
    destruct (W _ _ HpsF) as [Wps _].
    destruct (wf_patch_get _ _ _ Wps Hn) as [o [Hg Eo]].
    eapply wf_patch_not_state; [exact Wps|exact Hg|]. rewrite <- Eo, Epo. exact HpsF. }
  (* every member of the parent set is reachable *)
  assert (Rset : forall o, In o (parent_set s None) -> reach objsF so o).
  { intros o Ho. destruct (R2 o Ho) as [R|[p [ps [n [Hp [Hps [Hn Eo]]]]]]].
    - eapply reach_ext; [exact EF|exact R].
    - pose proof (state_of_ext _ _ _ _ E0F Hps) as HpsF.
      destruct (W _ _ HpsF) as [Wps _].
      destruct (wf_patch_get _ _ _ Wps Hn) as [o' [Hg Eo']].
      eapply reach_trans; [apply Rprev; exact Hp|].
      destruct (Hold _ Hp p ps (on_log_here _ _) HpsF) as [Rp _].
      apply (Rp n). congruence. }
  assert (Rtop : reach objsF so (s_top s)).
  { apply Rset. apply parent_set_none_in. right. now left. }
  assert (Rhead : reach objsF so (s_head s)).
  { apply Rset. apply parent_set_none_in. now left. }
  intros x sx Hlog Hsx.
  destruct (on_log_inv _ _ _ _ HsoF Hlog) as [Ex|[p [Hp Hlogp]]].
  - subst x. rewrite HsoF in Hsx. inversion Hsx; subst sx. clear Hsx.
    split; [|split; [exact Rhead|constructor]].
    intros n o Hg.
    assert (Hin : In n (all_of s)).
    { destruct Wf as [_ [_ [Hiff _]]]. apply Hiff. congruence. }
    assert (Eo : patch_oid s n = o) by (unfold patch_oid; now rewrite Hg).
    unfold all_of in Hin. apply in_app_or in Hin. destruct Hin as [Ha|Hin].
    + destruct Ch as [base Ch]. destruct (chain_reach _ _ _ _ Ch) as [_ Rc].
      eapply reach_trans; [exact Rtop|]. apply Rc. unfold applied_oids. rewrite <- Eo.
      now apply in_map.
    + apply Rset. apply parent_set_none_in. right. right.
      apply in_app_or in Hin. destruct Hin as [Hu|Hh].
      * left. exists n. now split.
      * right. exists n. now split.
  - destruct (Hold _ Hp x sx Hlogp Hsx) as [Rp [Rh Rx]].
    pose proof (Rprev _ Hp) as Rpp.
    split; [|split].
    + intros n o Hg. eapply reach_trans; [exact Rpp|]. eapply Rp; eauto.
    + eapply reach_trans; eauto.
    + eapply reach_trans; eauto.
Qed.

Lemma estep_pr : forall objsF b objs st objs' st',
  WFF objsF -> estep b objs st objs' st' -> store_extends objs' objsF ->
  (forall top, st = Some top -> patches_reachable objsF top) ->
  forall top', st' = Some top' -> patches_reachable objsF top'.
Proof.
  intros objsF b objs st objs' st' W H EF Hold top' Et. subst st'. inversion H; subst.
  - now apply Hold.
  - eapply commit_pr; eauto.
  - eapply commit_pr; eauto.
    intros top Hp. congruence.
Qed.

Lemma evolve_pr : forall objsF b objs st objs' st',
  WFF objsF -> evolve b objs st objs' st' -> store_extends objs' objsF ->
  (forall top, st = Some top -> patches_reachable objsF top) ->
  forall top', st' = Some top' -> patches_reachable objsF top'.
Proof.
  intros objsF b objs st objs' st' W H. induction H as [|objs st objs1 st1 objs2 st2 E H IH];
    intros EF Hold; [exact Hold|].
  apply IH; [exact EF|]. eapply estep_pr; eauto.
  eapply store_extends_trans; [eapply evolve_extends; eauto|exact EF].
Qed.

Lemma pr_lift : forall objs objsF top,
  store_extends objs objsF -> prev_decreasing objs -> top < length objs ->
  patches_reachable objs top -> patches_reachable objsF top.
Proof.
  intros objs objsF top E PD Hlt PR so s Hlog Hs.
  pose proof (on_log_restrict _ _ _ _ E PD Hlt Hlog) as Hlog0.
  pose proof (on_log_le _ _ _ PD Hlog0) as Hle.
  rewrite (state_of_ext_lt _ _ _ E) in Hs by lia.
  destruct (PR _ _ Hlog0 Hs) as [Rp [Rh Rx]].
  split; [|split].
  - intros n o Hg. eapply reach_ext; eauto.
  - eapply reach_ext; eauto.
  - eapply reach_ext; eauto.
Qed.

Theorem evolve_inv6 : forall b w w',
  evolve b (w_objs w) (w_stack w) (w_objs w') (w_stack w') ->
  Inv6 w -> prev_decreasing (w_objs w) -> Inv2 w' ->
  Inv6 w' /\ prev_decreasing (w_objs w').
Proof.
  intros b w w' H [[I Hch] PR] PD I2'. split; [|eapply evolve_prev_decreasing; eauto].
  split; [exact I2'|].
  destruct (w_stack w') as [top'|] eqn:St'; [|exact Logic.I].
  assert (W : WFF (w_objs w')).
  { destruct I2' as [[_ [Hwf _]] Hc]. intros so s Hs. split; eauto. }
  eapply evolve_pr; [exact W|exact H|apply store_extends_refl| |reflexivity].
  intros top Et. rewrite Et in PR. destruct I as [_ [_ [_ Hst]]]. rewrite Et in Hst.
  destruct Hst as [s0 Hs0].
  eapply pr_lift; [eapply evolve_extends; eauto|exact PD|eapply state_of_lt; eauto|exact PR].
Qed.

(* ---------------------------------------------------------------- append-only *)

Lemma estep_append : forall objs st objs' st' top,
  estep false objs st objs' st' -> st = Some top ->
  exists top', st' = Some top' /\ forall so, on_log objs top so -> on_log objs' top' so.
Proof.
  intros objs st objs' st' top H Et. inversion H; subst.
  - exists top. split; [reflexivity|]. intros so Hl. eapply on_log_ext; [|exact Hl].
    eapply ext_by_extends; eauto.
  - match goal with H : state_commit _ _ _ = _ |- _ =>
      destruct (state_commit_strong _ _ _ _ _ H) as [E [_ [Hso _]]] end.
    eexists. split; [reflexivity|]. intros x Hl.
    eapply on_log_prev; [exact Hso|eassumption|].
    eapply on_log_ext; [|exact Hl]. eapply ext_by_extends; eauto.
  - discriminate.
Qed.

Lemma evolve_append : forall objs st objs' st',
  evolve false objs st objs' st' -> forall top, st = Some top ->
  exists top', st' = Some top' /\ forall so, on_log objs top so -> on_log objs' top' so.
Proof.
  intros objs st objs' st' H. induction H as [|objs st objs1 st1 objs2 st2 E H IH]; intros top Et.
  - exists top. split; [exact Et|auto].
  - destruct (estep_append _ _ _ _ _ E Et) as [top1 [Et1 L1]].
    destruct (IH _ Et1) as [top2 [Et2 L2]].
    exists top2. split; [exact Et2|]. intros so Hl. apply L2, L1, Hl.
Qed.

Theorem evolve_append_only : forall w w' top so,
  evolve false (w_objs w) (w_stack w) (w_objs w') (w_stack w') ->
  Inv w -> prev_decreasing (w_objs w) ->
  w_stack w = Some top -> on_log (w_objs w) top so ->
  exists top', w_stack w' = Some top' /\ on_log (w_objs w') top' so
               /\ get (w_objs w') so = get (w_objs w) so.
Proof.
  intros w w' top so H I PD Et Hl.
  destruct (evolve_append _ _ _ _ H _ Et) as [top' [Et' L]].
  exists top'. split; [exact Et'|]. split; [now apply L|].
  apply get_ext_lt; [eapply evolve_extends; eauto|].
  destruct I as [_ [_ [_ Hst]]]. rewrite Et in Hst. destruct Hst as [s0 Hs0].
  apply state_of_lt in Hs0. pose proof (on_log_le _ _ _ PD Hl). lia.
Qed.

(* ---------------------------------------------------------------- gc *)

Theorem gc_safe : forall w top so s n o (kept : oid -> Prop),
  Inv6 w -> w_stack w = Some top ->
  (forall a b, kept a -> reach (w_objs w) a b -> kept b) -> kept top ->
  on_log (w_objs w) top so -> state_of (w_objs w) so = Some s ->
  pm_get (s_patches s) n = Some o -> kept o.
Proof.
  intros w top so s n o kept [_ PR] Et Hcl Hk Hl Hs Hg. rewrite Et in PR.
  destruct (PR _ _ Hl Hs) as [Rp _]. eapply Hcl; [exact Hk|]. eapply Rp; eauto.
Qed.
