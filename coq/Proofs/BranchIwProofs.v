(* C17, --branch part: a transaction set up with use_index_and_worktree(false) never changes
   the index or the work tree.  With use_iw = false push_patch stays on the tree-only path
   (shortcuts and temp index; a failed `git apply` halts instead of falling back to the work
   tree), no primitive of the closure touches t_wt / t_wt_unmerged or the options, and
   execute does no checkout.  The frame lemma for execute is Proofs/ConflictProofs.v
   (execute_frame); here the closures of delete / hide / unhide / rename. *)
From Coq Require Import List NArith Bool Arith.
From StgV Require Import Model.Stack Model.Cmd.
From StgV Require Import Proofs.ListOpsProofs Proofs.ReorderProofs Proofs.ConflictProofs.
Import ListNotations.

(* ---------------------------------------------------------------- the invariant *)

(* [t'] has the options and the (real) index / work tree of [t] *)
Definition iwk (t t' : txn) : Prop :=
  t_opts t' = t_opts t /\ t_wt t' = t_wt t /\ t_wt_unmerged t' = t_wt_unmerged t.

Lemma iwk_refl : forall t, iwk t t.
Proof. intro t. repeat split; reflexivity. Qed.

Lemma iwk_trans : forall a b c, iwk a b -> iwk b c -> iwk a c.
Proof.
  intros a b c [A1 [A2 A3]] [B1 [B2 B3]]. repeat split; congruence.
Qed.

Lemma iwk_use_iw : forall t t', iwk t t' -> o_use_iw (t_opts t') = o_use_iw (t_opts t).
Proof. intros t t' [H _]. rewrite H. reflexivity. Qed.

(* closures that, started without index and work tree, leave the options and the
   transaction's index / work tree alone - whatever the outcome *)
Definition keeps_noiw (f : txn -> tres) : Prop :=
  forall t t', o_use_iw (t_opts t) = false -> txn_of (f t) = Some t' -> iwk t t'.

Lemma keeps_noiw_tbind : forall f g,
    keeps_noiw f -> keeps_noiw g -> keeps_noiw (fun t => tbind (f t) g).
Proof.
  intros f g Kf Kg t t' Hiw H. destruct (f t) as [t1|t1 h|t1|] eqn:Ef; cbn [tbind] in H.
  - assert (K1 : iwk t t1) by (apply Kf; [exact Hiw|rewrite Ef; reflexivity]).
    apply (iwk_trans _ _ _ K1). apply Kg; [|exact H].
    rewrite (iwk_use_iw _ _ K1). exact Hiw.
  - apply Kf; [exact Hiw|]. rewrite Ef. exact H.
  - apply Kf; [exact Hiw|]. rewrite Ef. exact H.
  - discriminate.
Qed.

Lemma keeps_noiw_ok : forall g, (forall t, iwk t (g t)) -> keeps_noiw (fun t => TOk (g t)).
Proof.
  intros g Hg t t' _ H. cbn [txn_of] in H. inversion H; subst t'. apply Hg.
Qed.

(* ---------------------------------------------------------------- record updaters *)

Lemma iwk_set_lists : forall t a u h, iwk t (set_lists t a u h).
Proof. intros. repeat split; reflexivity. Qed.

Lemma iwk_set_updated : forall t u, iwk t (set_updated t u).
Proof. intros. repeat split; reflexivity. Qed.

Lemma iwk_set_head : forall t h, iwk t (set_head t h).
Proof. intros. repeat split; reflexivity. Qed.

Lemma iwk_set_objs : forall t o, iwk t (set_objs t o).
Proof. intros. repeat split; reflexivity. Qed.

Lemma iwk_set_tmp : forall t a b, iwk t (set_tmp t a b).
Proof. intros. repeat split; reflexivity. Qed.

Lemma iwk_of_wtc : forall t t', wtc t' = wtc t -> iwk t t'.
Proof. intros t t' H. apply wtc_inv in H. exact H. Qed.

(* ---------------------------------------------------------------- pop / delete *)

Lemma iwk_pop_patches : forall f t, iwk t (fst (pop_patches f t)).
Proof.
  intros f t. unfold pop_patches.
  destruct (split_at_first f (t_applied t)) as [keep popped]. cbn [fst].
  apply iwk_set_lists.
Qed.

Lemma iwk_delete_patches : forall f t, iwk t (fst (delete_patches f t)).
Proof.
  intros f t. unfold delete_patches.
  destruct (split_at_first f (t_applied t)) as [keep popped]. cbn [fst].
  eapply iwk_trans; [apply iwk_set_lists|apply iwk_set_updated].
Qed.

(* ---------------------------------------------------------------- push_patch *)

Lemma iwk_move_to_applied : forall t n, iwk t (move_to_applied t n).
Proof.
  intros t n. destruct (move_to_applied_set_lists t n) as [a [u [h H]]]. rewrite H.
  apply iwk_set_lists.
Qed.

Lemma iwk_recommit : forall t old nt par, iwk t (fst (recommit t old nt par)).
Proof.
  intros t old nt par. unfold recommit.
  destruct (put (t_objs t) _) as [objs' o]. cbn [fst]. apply iwk_set_objs.
Qed.

Lemma iwk_push_commit : forall n t2 nt ptree st pc np op,
    iwk t2 (push_commit n t2 nt ptree st pc np op).
Proof.
  intros n t2 nt ptree st pc np op. unfold push_commit.
  destruct (negb (tree_eqb nt ptree) || negb (Nat.eqb np op)); [|apply iwk_refl].
  pose proof (iwk_recommit t2 pc nt np) as Hr.
  destruct (recommit t2 pc nt np) as [t' o]. cbn [fst] in Hr.
  apply (iwk_trans _ _ _ Hr).
  destruct st.
  - apply iwk_set_updated.
  - apply iwk_set_updated.
  - eapply iwk_trans; [apply iwk_set_head|apply iwk_set_updated].
Qed.

(* the tree selection without index and work tree: shortcuts and temp index only; it never
   reports a conflict and a failed apply halts the transaction *)
Lemma push_sel_noiw : forall am t ptree otree ntree,
    o_use_iw (t_opts t) = false ->
    match push_sel am t ptree otree ntree with
    | inl (t2, _, st) => iwk t t2 /\ st <> PSConflict
    | inr r => exists t2, r = THalt t2 HNoConflict /\ iwk t t2
    end.
Proof.
  intros am t ptree otree ntree Hiw. rewrite push_sel_eq.
  destruct am; [split; [apply iwk_refl|discriminate]|].
  destruct (tree_eqb otree ntree); [split; [apply iwk_refl|discriminate]|].
  destruct (tree_eqb otree ptree); [split; [apply iwk_refl|discriminate]|].
  destruct (tree_eqb ntree ptree); [split; [apply iwk_refl|discriminate]|].
  cbv zeta.
  match goal with
  | |- context[tmp_prep ?t0 ?o] =>
      pose proof (wtc_tmp_prep t0 o) as Hw1; set (t1 := tmp_prep t0 o) in *
  end.
  apply iwk_of_wtc in Hw1.
  destruct (apply3way _ otree (t_tmp_content t1) _) as [merged|].
  - split; [|discriminate]. apply (iwk_trans _ _ _ Hw1). apply iwk_set_tmp.
  - assert (Ho : o_use_iw (t_opts (set_tmp t1 None (t_tmp_content t1))) = false).
    { rewrite (iwk_use_iw _ _ (iwk_set_tmp t1 None (t_tmp_content t1))).
      rewrite (iwk_use_iw _ _ Hw1). exact Hiw. }
    rewrite Ho. cbn [negb].
    eexists. split; [reflexivity|]. apply (iwk_trans _ _ _ Hw1). apply iwk_set_tmp.
Qed.

Lemma keeps_noiw_push_patch : forall n am, keeps_noiw (push_patch n am).
Proof.
  intros n am t t' Hiw H. rewrite push_patch_eq in H.
  destruct (t_patch t n) as [pc|]; [|discriminate].
  destruct (t_top t) as [np|]; [|discriminate].
  destruct (first_parent (t_objs t) pc) as [op|].
  2:{ cbn [txn_of] in H. inversion H; subst t'. apply iwk_refl. }
  cbv zeta in H.
  pose proof (push_sel_noiw am t (tree_of (t_objs t) pc) (tree_of (t_objs t) op)
                            (tree_of (t_objs t) np) Hiw) as Hsel.
  destruct (push_sel am t (tree_of (t_objs t) pc) (tree_of (t_objs t) op)
                     (tree_of (t_objs t) np)) as [[[t2 nt] st]|r].
  - destruct Hsel as [K2 Hst].
    assert (Ht' : t' = move_to_applied
                         (push_commit n t2 nt (tree_of (t_objs t) pc) st pc np op) n).
    { unfold push_fin in H. destruct st; [| |congruence]; cbn [txn_of] in H;
        inversion H; reflexivity. }
    subst t'. apply (iwk_trans _ _ _ K2).
    eapply iwk_trans; [apply iwk_push_commit|apply iwk_move_to_applied].
  - destruct Hsel as [t2 [Hr K2]]. subst r. cbn [txn_of] in H. inversion H; subst t'.
    exact K2.
Qed.

Lemma keeps_noiw_push_list : forall ns merged, keeps_noiw (push_list ns merged).
Proof.
  induction ns as [|n ns IH]; intros merged.
  - intros t t' _ H. cbn [push_list txn_of] in H. inversion H; subst t'. apply iwk_refl.
  - cbn [push_list].
    apply (keeps_noiw_tbind (push_patch n (mem n merged)) (push_list ns merged)).
    + apply keeps_noiw_push_patch.
    + apply IH.
Qed.

Lemma keeps_noiw_push_patches : forall ns cm, keeps_noiw (push_patches ns cm).
Proof.
  intros ns cm t t' Hiw H. unfold push_patches in H.
  destruct cm.
  - cbv zeta in H.
    destruct (check_merged_loop _ _ _ _) as [[merged content] id].
    apply keeps_noiw_push_list in H; [|exact Hiw].
    exact H.
  - apply keeps_noiw_push_list in H; [|exact Hiw]. exact H.
Qed.

(* a closure that first rearranges the lists, then pushes *)
Lemma keeps_noiw_pre : forall (g : txn -> txn) f,
    (forall t, iwk t (g t)) -> keeps_noiw f -> keeps_noiw (fun t => f (g t)).
Proof.
  intros g f Hg Kf t t' Hiw H.
  apply (iwk_trans _ _ _ (Hg t)). apply Kf; [|exact H].
  rewrite (iwk_use_iw _ _ (Hg t)). exact Hiw.
Qed.

(* ---------------------------------------------------------------- the closures *)

Lemma keeps_noiw_delete : forall sel,
    keeps_noiw (fun t => let '(t1, to_push) := delete_patches sel t in
                         push_patches to_push false t1).
Proof.
  intros sel t t' Hiw H.
  pose proof (iwk_delete_patches sel t) as Hd.
  destruct (delete_patches sel t) as [t1 to_push]. cbn [fst] in Hd.
  apply (iwk_trans _ _ _ Hd). apply (keeps_noiw_push_patches to_push false); [|exact H].
  rewrite (iwk_use_iw _ _ Hd). exact Hiw.
Qed.

Lemma keeps_noiw_reorder : forall a u h, keeps_noiw (reorder_patches a u h).
Proof.
  intros a u h. unfold reorder_patches.
  apply (keeps_noiw_tbind
           (fun t => match a with
                     | None => TOk t
                     | Some applied =>
                         let k := common_prefix_len (t_applied t) applied in
                         let to_pop := skipn k (t_applied t) in
                         let '(t1, _) := pop_patches (fun n => mem n to_pop) t in
                         tbind (push_patches (skipn k applied) false t1)
                               (fun t2 => if list_name_eqb (t_applied t2) applied
                                          then TOk t2 else TPanic)
                     end)).
  - destruct a as [applied|].
    + intros t t' Hiw H. cbv zeta in H.
      pose proof (iwk_pop_patches
                    (fun n => mem n (skipn (common_prefix_len (t_applied t) applied)
                                           (t_applied t))) t) as Hp.
      destruct (pop_patches _ t) as [t1 inc]. cbn [fst] in Hp.
      apply (iwk_trans _ _ _ Hp).
      refine (keeps_noiw_tbind
                (push_patches (skipn (common_prefix_len (t_applied t) applied) applied) false)
                (fun t2 => if list_name_eqb (t_applied t2) applied then TOk t2 else TPanic)
                _ _ t1 t' _ H).
      * apply keeps_noiw_push_patches.
      * intros t2 t2' _ H2. destruct (list_name_eqb (t_applied t2) applied);
          cbn [txn_of] in H2; [|discriminate]. inversion H2; subst t2'. apply iwk_refl.
      * rewrite (iwk_use_iw _ _ Hp). exact Hiw.
    + intros t t' _ H. cbn [txn_of] in H. inversion H; subst t'. apply iwk_refl.
  - intros t3 t' _ H. cbv zeta in H. cbn [txn_of] in H. inversion H; subst t'.
    destruct u as [ul|]; destruct h as [hl|];
      repeat (first [apply iwk_refl
                    |eapply iwk_trans; [apply iwk_set_lists|]
                    |apply iwk_set_lists]).
Qed.

Lemma keeps_noiw_hide : forall l, keeps_noiw (hide_patches l).
Proof.
  intros l t t' Hiw H. unfold hide_patches in H. cbv zeta in H.
  exact (keeps_noiw_reorder _ _ _ t t' Hiw H).
Qed.

Lemma keeps_noiw_unhide : forall l, keeps_noiw (unhide_patches l).
Proof.
  intros l t t' Hiw H. unfold unhide_patches in H. cbv zeta in H.
  exact (keeps_noiw_reorder _ _ _ t t' Hiw H).
Qed.

Lemma keeps_noiw_rename : forall a b, keeps_noiw (rename_patch a b).
Proof.
  intros a b t t' _ H. unfold rename_patch in H.
  destruct (name_eqb b a).
  { cbn [txn_of] in H. inversion H; subst t'. apply iwk_refl. }
  cbv zeta in H.
  match type of H with
  | txn_of (if ?c then _ else _) = _ => destruct c
  end.
  { cbn [txn_of] in H. inversion H; subst t'. apply iwk_refl. }
  match type of H with
  | txn_of (if ?c then _ else _) = _ => destruct c
  end.
  { cbn [txn_of] in H. inversion H; subst t'. apply iwk_refl. }
  match type of H with
  | txn_of (match ?c with Some _ => _ | None => _ end) = _ => destruct c as [[[la lu] lh]|]
  end; [|discriminate].
  match type of H with
  | txn_of (match ?c with Some _ => _ | None => _ end) = _ => destruct c as [oo|]
  end; [|discriminate].
  cbn [txn_of] in H. inversion H; subst t'.
  eapply iwk_trans; [apply iwk_set_lists|apply iwk_set_updated].
Qed.

(* ---------------------------------------------------------------- transact *)

Lemma transact_noiw : forall op o f msg w' x,
    o_use_iw o = false -> keeps_noiw f ->
    transact op o f msg = (w', x) ->
    w_wt w' = w_wt (op_world op) /\ w_unmerged w' = w_unmerged (op_world op).
Proof.
  intros op o f msg w' x Hiw Kf H. unfold transact in H.
  destruct (negb (op_initialized op)).
  - assert (E : w' = op_world op) by (destruct (f (begin_txn op o)); inversion H; reflexivity).
    subst w'. split; reflexivity.
  - apply execute_frame in H.
    + destruct H as [A [B _]]. split; [exact A|exact B].
    + intros t Ht. apply Kf in Ht; [|exact Hiw]. destruct Ht as [Ho [Hw Hu]].
      cbn [begin_txn t_opts t_wt t_wt_unmerged] in Ho, Hw, Hu.
      rewrite Ho, Hiw. split; [apply andb_false_r|]. split; [exact Hw|exact Hu].
Qed.

(* ---------------------------------------------------------------- the closures of the
   --branch-capable commands *)

Lemma no_iw_delete :
  forall op o sel msg w' x,
    o_use_iw o = false ->
    transact op o (fun t => let '(t1, to_push) := delete_patches sel t in
                            push_patches to_push false t1) msg = (w', x) ->
    w_wt w' = w_wt (op_world op) /\ w_unmerged w' = w_unmerged (op_world op).
Proof.
  intros op o sel msg w' x Hiw H.
  exact (transact_noiw _ _ _ _ _ _ Hiw (keeps_noiw_delete sel) H).
Qed.

Lemma no_iw_hide_unhide_rename :
  forall op o msg w' x,
    o_use_iw o = false ->
    (forall l, transact op o (hide_patches l) msg = (w', x) ->
               w_wt w' = w_wt (op_world op) /\ w_unmerged w' = w_unmerged (op_world op))
    /\ (forall l, transact op o (unhide_patches l) msg = (w', x) ->
                  w_wt w' = w_wt (op_world op) /\ w_unmerged w' = w_unmerged (op_world op))
    /\ (forall a b, transact op o (rename_patch a b) msg = (w', x) ->
                    w_wt w' = w_wt (op_world op) /\ w_unmerged w' = w_unmerged (op_world op)).
Proof.
  intros op o msg w' x Hiw. split; [|split].
  - intros l H. exact (transact_noiw _ _ _ _ _ _ Hiw (keeps_noiw_hide l) H).
  - intros l H. exact (transact_noiw _ _ _ _ _ _ Hiw (keeps_noiw_unhide l) H).
  - intros a b H. exact (transact_noiw _ _ _ _ _ _ Hiw (keeps_noiw_rename a b) H).
Qed.
