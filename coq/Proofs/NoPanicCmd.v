(* C20 proofs, part 3: the command layer.  One lemma per run_* function: from a world that
   satisfies Inv and stack_ref_has_parent the exit code is never XPanic. *)
From Coq Require Import List NArith ZArith Bool Arith Lia Permutation.
From StgV Require Import Model.ExitSpec Model.LocatorSpec.
From StgV Require Import Proofs.NameProofs Proofs.LocatorProofs Proofs.WfProofs.
From StgV Require Import Proofs.NoPanicBase Proofs.NoPanicExec Proofs.UncommitNames.
From StgV Require Proofs.ChainExec Proofs.ConflictProofs.
Import ListNotations.

(* ---------------------------------------------------------------- opening *)

Record opn (w : world) (op : opened) : Prop := mkOpn {
  on_ok : op_ok op;
  on_sref : stack_ref_has_parent (op_world op);
  on_base : s_applied (op_state op) = [] -> op_base op = w_branch (op_world op)
}.

Lemma open_base_empty : forall p w op,
  open_stack p w = Some op -> s_applied (op_state op) = [] -> op_base op = w_branch (op_world op).
Proof.
  intros p w op H. unfold open_stack in H.
  assert (Href : forall so,
    match state_of (w_objs w) so with
    | None => None
    | Some s => match stack_base (w_objs w) (w_branch w) s with
                | None => None
                | Some b => Some (mkOpened (ensure_patch_refs w s) s b true) end
    end = Some op -> s_applied (op_state op) = [] -> op_base op = w_branch (op_world op)).
  { intros so E. destruct (state_of (w_objs w) so) as [s|]; [|discriminate].
    destruct (stack_base _ _ s) as [b|] eqn:Eb; [|discriminate]. injection E as <-. cbn.
    intros Ea. unfold stack_base in Eb. rewrite Ea in Eb. congruence. }
  assert (Hini :
    match state_commit (w_objs w) (empty_state (w_branch w)) MOp with
    | None => None
    | Some (objs', so) =>
        Some (mkOpened (ensure_patch_refs
                 (mkWorld objs' (w_branch w) (Some so) (w_prefs w) (w_wt w) (w_unmerged w) (w_base w) (w_apc w))
                 (empty_state (w_branch w))) (empty_state (w_branch w)) (w_branch w) true)
    end = Some op -> s_applied (op_state op) = [] -> op_base op = w_branch (op_world op)).
  { intros E. destruct (state_commit _ _ _) as [[objs' so]|]; [|discriminate].
    injection E as <-. reflexivity. }
  destruct p, (w_stack w) as [so|] eqn:Es; try discriminate; eauto.
  injection H as <-. reflexivity.
Qed.

Lemma open_opn : forall p w op,
  Inv w -> stack_ref_has_parent w -> open_stack p w = Some op -> opn w op.
Proof.
  intros p w op Hi Hs H. constructor.
  - eapply open_ok; eassumption.
  - eapply open_sref; eassumption.
  - eapply open_base_empty; eassumption.
Qed.

Lemma open_cur_state : forall w op s,
  open_stack PAllow w = Some op -> cur_state w = Some s -> op_state op = s.
Proof.
  intros w op s H Hc. unfold open_stack in H. unfold cur_state in Hc.
  destruct (w_stack w) as [so|]; [|discriminate]. rewrite Hc in H.
  destruct (stack_base _ _ s); [|discriminate]. now injection H as <-.
Qed.

Ltac np_leaf := cbn [snd err2 ok0]; first [discriminate | assumption].

Ltac np_open :=
  match goal with
  | Hi : Inv ?w, Hs : stack_ref_has_parent ?w |- context [match open_stack ?p ?w with _ => _ end] =>
      let E := fresh "Eo" in
      destruct (open_stack p w) as [op|] eqn:E; [apply (open_opn p w _ Hi Hs) in E|np_leaf]
  end.

Lemma resolve_names_np : forall l prs s rc,
  parse_ranges l = Some prs -> resolve_names (view_of s) rc prs <> RPanic.
Proof.
  intros l prs s rc Hp E. apply parse_ranges_wf in Hp.
  pose proof (ranges_sound (view_of s) rc prs Hp) as H. rewrite E in H. exact H.
Qed.

Lemma last_error_some : forall (A : Type) (l : list A), l <> [] -> exists x, hd_error (rev l) = Some x.
Proof.
  intros A l H. destruct l as [|y l] using rev_ind; [congruence|].
  rewrite rev_app_distr. cbn. eauto.
Qed.

Lemma state_has : forall objs s n, wf_state objs s -> In n (all_of s) -> pm_get (s_patches s) n <> None.
Proof. intros objs s n [_ [_ [Hd _]]] H. now apply Hd. Qed.

Lemma in_applied_all : forall s n, In n (s_applied s) -> In n (all_of s).
Proof. intros s n H. unfold all_of. apply in_or_app. now left. Qed.

(* the top of a fresh transaction is the branch head once the head/top check has passed *)
Lemma begin_top : forall w op w' b o,
  opn w op -> head_top_ok op = true ->
  t_top (begin_txn (mkOpened w' (op_state op) (op_base op) b) o) = Some (w_branch (op_world op)).
Proof.
  intros w op w' b o [[_ [Hs _]] _ Hb] Hh. unfold t_top.
  change (t_applied (begin_txn (mkOpened w' (op_state op) (op_base op) b) o)) with (s_applied (op_state op)).
  unfold head_top_ok in Hh.
  destruct (s_applied (op_state op)) as [|x l] eqn:Ea.
  - cbn. now rewrite Hb by reflexivity.
  - rewrite <- Ea in *. apply Nat.eqb_eq in Hh.
    destruct (last_error_some _ (s_applied (op_state op))) as [n En]; [rewrite Ea; discriminate|].
    rewrite En. unfold t_patch. cbn.
    pose proof (state_has _ _ n Hs (in_applied_all _ _ (last_error_In _ _ _ En))) as Hn.
    unfold s_top, last_error in Hh. rewrite En in Hh.
    destruct (pm_get (s_patches (op_state op)) n); [congruence|congruence].
Qed.

(* ---------------------------------------------------------------- init / inspect / log --clear *)

Lemma run_log_clear_np : forall w, Inv w -> stack_ref_has_parent w -> snd (run_log_clear w) <> XPanic.
Proof.
  intros w Hi Hs. unfold run_log_clear. np_open.
  destruct (state_commit _ _ _) as [[objs' so]|] eqn:Ec; [discriminate|].
  exfalso. revert Ec. apply state_commit_some. intros po E. discriminate.
Qed.

(* ---------------------------------------------------------------- new / spill *)

Lemma first_parent_new : forall objs p ps tr m sj,
  first_parent (objs ++ [plain (p :: ps) tr m sj]) (length objs) = Some p.
Proof. intros. unfold first_parent, parents_of. now rewrite get_put_new. Qed.

Lemma run_new_np : forall w nm meta msg,
  Inv w -> stack_ref_has_parent w -> snd (run_new w nm meta msg) <> XPanic.
Proof.
  intros w nm meta msg Hi Hs. unfold run_new.
  destruct (from_str nm) as [pn|] eqn:En; [|discriminate]. apply from_str_valid in En.
  np_open.
  destruct (w_unmerged (op_world op)); [np_leaf|].
  destruct (head_top_ok op) eqn:Eh; cbn [negb]; [|np_leaf].
  destruct (stack_collides (op_state op) pn) eqn:Ec; [np_leaf|].
  unfold put. cbv beta iota zeta.
  pose proof (on_ok _ _ Eo) as Hop.
  pose proof Hop as [Hiw [[Hn _] _]]. apply Inv_iff in Hiw as [_ [Hbr _]].
  apply transact_np.
  - apply op_ok_put; [exact Hop|]. intros p [<-|[]]. exact Hbr.
  - apply sref_with_objs; [apply store_extends_put|apply Eo].
  - intros W. apply new_applied_wf; [exact W| |apply patch_commit_new].
    apply names_ok_cons; [exact Hn|exact En|]. now apply stack_collides_none.
  - intros W U _. eapply new_applied_np; [exact U| |].
    + eapply begin_top; eassumption.
    + apply first_parent_new.
  - frame_auto.
Qed.

Lemma run_spill_np : forall w, Inv w -> stack_ref_has_parent w -> snd (run_spill w) <> XPanic.
Proof.
  intros w Hi Hs. unfold run_spill. np_open.
  destruct (w_unmerged (op_world op)); [np_leaf|].
  destruct (dirty (op_world op)); [np_leaf|].
  destruct (negb (head_top_ok op)); [np_leaf|].
  destruct (last_error (s_applied (op_state op))) as [pn|] eqn:El; [|np_leaf].
  pose proof (on_ok _ _ Eo) as Hop. pose proof Hop as [Hiw [Hst _]].
  pose proof (state_has _ _ pn Hst (in_applied_all _ _ (last_error_In _ _ _ El))) as Hpn.
  destruct (pm_get (s_patches (op_state op)) pn) as [pc|] eqn:Epc; [|congruence].
  destruct (first_parent (w_objs (op_world op)) pc) as [par|]; [|np_leaf].
  unfold put. cbv beta iota zeta.
  pose proof Hst as [_ [_ [_ [Hp _]]]]. apply Inv_iff in Hiw as [[Hcl _] _].
  pose proof (Hp _ _ Epc) as Hpc.
  apply transact_np.
  - apply op_ok_put; [exact Hop|]. now apply patch_parents_plain.
  - apply sref_with_objs; [apply store_extends_put|apply Eo].
  - intros W. apply update_patch_wf; [exact W|]. now apply patch_commit_copy.
  - intros W U _. apply update_patch_np; [exact U|]. unfold t_patch. cbn. now rewrite Epc.
  - frame_auto.
Qed.

(* ---------------------------------------------------------------- push *)

Lemma noapply_pre : forall ps t,
  wf_txn t -> NoDup ps -> incl ps (t_unapplied t) ->
  reorder_pre None (Some (ps ++ filter (fun n => negb (mem n ps)) (t_unapplied t))) None t.
Proof.
  intros ps t W Hd Hi. cbn [reorder_pre]. unfold t_all.
  apply Permutation_app_head. apply Permutation_app_tail. apply perm_split; auto.
  now apply (names_disjoint t (wt_names t W)).
Qed.

Lemma run_push_np : forall w r n al rv na st mg kp cf,
  Inv w -> stack_ref_has_parent w -> snd (run_push w r n al rv na st mg kp cf) <> XPanic.
Proof.
  intros w r n al rv na st mg kp cf Hi Hs. unfold run_push. np_open.
  destruct (match n with Some z => (z =? 0)%Z | None => false end); [np_leaf|].
  pose proof (on_ok _ _ Eo) as Hop. pose proof Hop as [_ [Hst _]].
  destruct (state_lists _ _ Hst) as [_ [Hdu _]].
  match goal with |- snd (match ?p with inl _ => _ | inr _ => _ end) <> XPanic =>
    assert (Hps : (forall ps, p = inr ps -> NoDup ps /\ incl ps (s_unapplied (op_state op)))
                  /\ (forall res, p = inl res -> snd res <> XPanic));
    [|destruct p as [res|ps] eqn:Ep] end.
  { split.
    - intros ps E. destruct r as [rs|].
      + destruct (parse_ranges rs) as [prs|] eqn:Epr; [|discriminate].
        destruct (resolve_names _ _ _) as [l| |] eqn:Er; try discriminate. injection E as <-.
        exact (resolve_names_ok _ _ _ _ _ Epr Er).
      + destruct (s_unapplied (op_state op)) as [|x xs] eqn:Eu; [discriminate|].
        destruct al; [injection E as <-; split; [exact Hdu|apply incl_refl]|].
        destruct n; injection E as <-; [|change [x] with (firstn 1 (x :: xs))];
          (split; [now apply NoDup_firstn|apply incl_firstn]).
    - intros res E. destruct r as [rs|].
      + destruct (parse_ranges rs) as [prs|] eqn:Epr; [|injection E as <-; discriminate].
        destruct (resolve_names _ _ _) as [l| |] eqn:Er; try discriminate;
          try (injection E as <-; discriminate).
        exfalso. eapply resolve_names_np; eassumption.
      + destruct (s_unapplied (op_state op)); [injection E as <-; discriminate|].
        destruct al; [discriminate|]. destruct n; discriminate. }
  - apply Hps. reflexivity.
  - destruct Hps as [Hps _]. destruct (Hps ps eq_refl) as [Hd Hin]. clear Hps Ep.
    assert (Hps' : NoDup (if rv then rev ps else ps) /\ incl (if rv then rev ps else ps) (s_unapplied (op_state op))).
    { destruct rv; [now apply NoDup_incl_rev|auto]. }
    destruct Hps' as [Hd' Hin'].
    destruct ps as [|p0 ps0]; [np_leaf|]. set (ps := p0 :: ps0) in *.
    repeat match goal with |- snd (if ?b then _ else _) <> XPanic => destruct b end; try np_leaf.
    cbv zeta. apply transact_np; [exact Hop|apply Eo| | |frame_auto].
    + intros W. cbv beta. destruct st; [|destruct na];
        first [now apply push_tree_list_wf|now apply noapply_closure|now apply push_unapplied_wf].
    + intros W U _. cbv beta. destruct st; [|destruct na].
      * now apply push_tree_list_np.
      * apply reorder_np; [exact W|exact U|]. now apply noapply_pre.
      * now apply push_unapplied_np.
Qed.

(* ---------------------------------------------------------------- pop *)

Definition pop_ok (r : option (list str)) (n : option Z) (al : bool) : bool :=
  match r, n, al with
  | Some [], None, false => false
  | _, _, _ => true
  end.

Lemma pop_pre : forall ps t,
  wf_txn t ->
  reorder_pre (Some (filter (fun n => negb (mem n ps)) (t_applied t)))
              (Some (filter (fun n => mem n ps) (t_applied t) ++ t_unapplied t)) None t.
Proof.
  intros ps t W. apply reorder_visible_pre; [exact W|]. rewrite app_assoc. apply Permutation_app_tail.
  apply (filter_perm' _ (fun n => mem n ps)).
Qed.

Lemma num_to_take_nonzero : forall z avail k,
  (z =? 0)%Z = false -> (0 < avail)%nat -> num_to_take z avail = Some k -> (0 < k)%nat.
Proof.
  intros z avail k Hz Ha H. apply Z.eqb_neq in Hz. unfold num_to_take in H.
  destruct (0 <=? z)%Z eqn:E.
  - apply Z.leb_le in E. injection H as <-. apply Nat.min_glb_lt; lia.
  - destruct (Nat.ltb _ _) eqn:El; [|discriminate]. apply Nat.ltb_lt in El. injection H as <-. lia.
Qed.

Lemma firstn_nonempty : forall (A : Type) k (l : list A), (0 < k)%nat -> l <> [] -> firstn k l <> [].
Proof. intros A [|k] [|x l] Hk Hl; try lia; try congruence. discriminate. Qed.

Lemma rev_nonempty : forall (A : Type) (l : list A), l <> [] -> rev l <> [].
Proof. intros A l H E. apply H. rewrite <- (rev_involutive l), E. reflexivity. Qed.

Lemma resolve_names_nonempty : forall rs prs s rc l,
  parse_ranges rs = Some prs -> rs <> [] -> allowed (view_of s) (lc_of rc) <> [] ->
  resolve_names (view_of s) rc prs = ROk l -> l <> [].
Proof.
  intros rs prs s rc l Hp Hne Hal Hr.
  pose proof (ConflictProofs.parse_ranges_nonempty rs prs Hp Hne) as Hprs.
  unfold resolve_names in Hr. eapply ConflictProofs.names_loop_nonempty; [exact Hr|]. right.
  destruct prs as [|r0 prs]; [congruence|]. left. right. exact Hal.
Qed.

Lemma run_pop_np : forall w r n al kp sp,
  Inv w -> stack_ref_has_parent w -> pop_ok r n al = true -> snd (run_pop w r n al kp sp) <> XPanic.
Proof.
  intros w r n al kp sp Hi Hs Hok. unfold run_pop. np_open.
  destruct (match n with Some z => (z =? 0)%Z | None => false end) eqn:Ez; [np_leaf|].
  destruct (s_applied (op_state op)) as [|a0 l0] eqn:Ea; [np_leaf|].
  assert (Hne : s_applied (op_state op) <> []) by (rewrite Ea; discriminate).
  rewrite <- Ea in *. clear Ea.
  pose proof (on_ok _ _ Eo) as Hop.
  match goal with |- snd (match ?p with inl _ => _ | inr _ => _ end) <> XPanic =>
    assert (Hps : (forall ps, p = inr ps -> ps <> [])
                  /\ (forall res, p = inl res -> snd res <> XPanic));
    [|destruct p as [res|ps] eqn:Ep] end.
  { split.
    - intros ps E. destruct al; [injection E as <-; exact Hne|].
      destruct n as [z|].
      + destruct (num_to_take z _) as [k|] eqn:Ek; [|discriminate]. injection E as <-.
        apply firstn_nonempty; [|now apply rev_nonempty].
        eapply num_to_take_nonzero; [exact Ez| |exact Ek].
        destruct (s_applied (op_state op)); [congruence|cbn; lia].
      + destruct r as [rs|].
        * destruct (parse_ranges rs) as [prs|] eqn:Epr; [|discriminate].
          destruct (resolve_names _ _ _) as [l| |] eqn:Er; try discriminate. injection E as <-.
          apply (resolve_names_nonempty rs prs (op_state op) RCApplied l Epr); [|exact Hne|exact Er].
          destruct rs; [discriminate|discriminate].
        * injection E as <-. apply (firstn_nonempty _ 1 (rev (s_applied (op_state op)))); [lia|now apply rev_nonempty].
    - intros res E. destruct al; [discriminate|]. destruct n as [z|].
      + destruct (num_to_take z _); [discriminate|]. injection E as <-. discriminate.
      + destruct r as [rs|]; [|discriminate].
        destruct (parse_ranges rs) as [prs|] eqn:Epr; [|injection E as <-; discriminate].
        destruct (resolve_names _ _ _) as [l| |] eqn:Er; try discriminate;
          try (injection E as <-; discriminate).
        exfalso. eapply resolve_names_np; eassumption. }
  - apply Hps. reflexivity.
  - destruct Hps as [Hps _]. specialize (Hps ps eq_refl). clear Ep.
    destruct ps as [|p0 ps0]; [congruence|]. set (ps := p0 :: ps0) in *.
    repeat match goal with |- snd (if ?b then _ else _) <> XPanic => destruct b end; try np_leaf.
    cbv zeta. apply transact_np; [exact Hop|apply Eo| | |frame_auto].
    + intros W. apply pop_closure; exact W.
    + intros W U _. apply reorder_np; [exact W|exact U|]. exact (pop_pre ps _ W).
Qed.

(* ---------------------------------------------------------------- goto *)

Lemma goto_closure_np : forall pn m t,
  wf_txn t -> uinv t -> In pn (t_applied t ++ t_unapplied t) ->
  nsat uinv (match position (name_eqb pn) (t_applied t) with
             | Some pos =>
                 reorder_patches (Some (firstn (S pos) (t_applied t)))
                                 (Some (skipn (S pos) (t_applied t) ++ t_unapplied t)) None t
             | None =>
                 match position (name_eqb pn) (t_unapplied t) with
                 | Some pos => push_patches (firstn (S pos) (t_unapplied t)) m t
                 | None => TPanic
                 end
             end).
Proof.
  intros pn m t W U Hin. pose proof (names_disjoint t (wt_names t W)) as [_ [Hdu _]].
  destruct (position _ (t_applied t)) as [pos|] eqn:Ea.
  - apply reorder_np; [exact W|exact U|]. apply reorder_visible_pre; [exact W|].
    now rewrite app_assoc, firstn_skipn.
  - destruct (position _ (t_unapplied t)) as [pos|] eqn:Eu.
    + apply push_unapplied_np; [exact W|exact U|now apply NoDup_firstn|apply incl_firstn].
    + exfalso. apply in_app_or in Hin as [Hin|Hin].
      * pose proof (position_none _ _ Ea pn Hin) as H. now rewrite name_eqb_refl in H.
      * pose proof (position_none _ _ Eu pn Hin) as H. now rewrite name_eqb_refl in H.
Qed.

Lemma run_goto_np : forall w l kp mg cf,
  Inv w -> stack_ref_has_parent w -> snd (run_goto w l kp mg cf) <> XPanic.
Proof.
  intros w l kp mg cf Hi Hs. unfold run_goto.
  destruct (parse_locator l) as [pl|] eqn:Epl; [|discriminate]. apply parsed_wf in Epl.
  np_open.
  destruct (w_unmerged (op_world op)); [np_leaf|].
  destruct (negb (head_top_ok op)); [np_leaf|].
  destruct (negb kp && dirty (op_world op)); [np_leaf|].
  pose proof (resolve_constrained_ok (view_of (op_state op)) LCVisible pl Epl) as Hr.
  destruct (resolve_constrained _ _ _) as [pn| |]; cbn [rres_bind]; [|np_leaf|destruct Hr].
  apply transact_np; [apply Eo|apply Eo| | |frame_auto].
  - intros W. now apply goto_closure.
  - intros W U _. now apply goto_closure_np.
Qed.

(* ---------------------------------------------------------------- float *)

Lemma float_closure_np : forall ps (na : bool) t,
  wf_txn t -> uinv t -> NoDup ps -> incl ps (t_applied t ++ t_unapplied t) ->
  nsat uinv (let notin := fun n => negb (mem n ps) in
             let '(a, u) :=
               if na then (filter notin (t_applied t), ps ++ filter notin (t_unapplied t))
               else (filter notin (t_applied t) ++ ps, filter notin (t_unapplied t)) in
             reorder_patches (Some a) (Some u) None t).
Proof.
  intros ps na t W U Hd Hi. cbv zeta. pose proof (float_perm ps _ _ Hd (visible_nodup t W) Hi) as Hp.
  destruct na; (apply reorder_np; [exact W|exact U|]); apply reorder_visible_pre; try exact W.
  - eapply Permutation_trans; [|exact Hp]. rewrite !app_assoc. apply Permutation_app_tail.
    apply Permutation_app_comm.
  - eapply Permutation_trans; [|exact Hp]. rewrite (app_assoc ps). apply Permutation_app_tail.
    apply Permutation_app_comm.
Qed.

Lemma run_float_np : forall w r na kp,
  Inv w -> stack_ref_has_parent w -> snd (run_float w r na kp) <> XPanic.
Proof.
  intros w r na kp Hi Hs. unfold run_float.
  destruct (parse_ranges r) as [prs|] eqn:Epr; [|discriminate].
  np_open.
  destruct (w_unmerged (op_world op)); [np_leaf|].
  destruct (negb (head_top_ok op)); [np_leaf|].
  destruct (resolve_names _ _ _) as [ps| |] eqn:Er; cbn [rres_bind]; [|np_leaf|].
  2:{ exfalso. eapply resolve_names_np; eassumption. }
  destruct (resolve_names_ok _ _ _ _ _ Epr Er) as [Hd Hin].
  destruct ps as [|p0 ps0]; [np_leaf|]. set (ps := p0 :: ps0) in *.
  match goal with |- snd (if ?b then _ else _) <> XPanic => destruct b end; [np_leaf|].
  pose proof (float_closure ps na) as Hc. pose proof (float_closure_np ps na) as Hn. cbv zeta in Hc, Hn.
  destruct (if na then _ else _) as [a u] eqn:Eau.
  apply transact_np; [apply Eo|apply Eo| | |frame_auto].
  - intros W. specialize (Hc _ W Hd Hin). cbn [begin_txn t_applied t_unapplied] in Hc.
    destruct na; injection Eau as <- <-; exact Hc.
  - intros W U _. specialize (Hn _ W U Hd Hin). cbn [begin_txn t_applied t_unapplied] in Hn.
    destruct na; injection Eau as <- <-; exact Hn.
Qed.

(* ---------------------------------------------------------------- sink *)

Lemma sink_pre : forall ps t,
  wf_txn t -> NoDup ps -> incl ps (t_all t) ->
  let notin := fun n => negb (mem n ps) in
  let R := filter notin (t_applied t) in
  let RU := filter notin (t_unapplied t) in
  forall al ul,
    Permutation (al ++ ul) (ps ++ R ++ RU) -> (forall x, In x al -> In x ps \/ In x (t_applied t)) ->
    (forall x, In x ps -> In x al) ->
    reorder_pre (Some al) (Some ul) None t.
Proof.
  intros ps t W Hd Hi notin R RU al ul Hp Hal Hps. apply reorder_some_pre; [exact W|].
  pose proof (names_disjoint t (wt_names t W)) as [_ [_ [_ [Hah _]]]].
  assert (EH : filter (fun x => negb (mem x al)) (t_hidden t) = filter notin (t_hidden t)).
  { apply filter_ext_in. intros x Hx. unfold notin. f_equal. apply mem_ext. split; [|apply Hps].
    intros Hxa. destruct (Hal x Hxa) as [Hxp|Hxp]; [exact Hxp|]. destruct (Hah x Hxp). contradiction. }
  rewrite EH. rewrite app_assoc. eapply Permutation_trans; [apply Permutation_app_tail; exact Hp|].
  eapply Permutation_trans; [|apply (perm_split ps (t_all t) Hd (proj1 (wt_names t W)) Hi)].
  unfold t_all. rewrite !filter_app. now rewrite <- !app_assoc.
Qed.

Lemma sink_pre1 : forall ps tp t,
  wf_txn t -> NoDup ps -> incl ps (t_all t) ->
  reorder_pre
          (Some (firstn tp (filter (fun n => negb (mem n ps)) (t_applied t)) ++ ps))
          (Some (skipn tp (filter (fun n => negb (mem n ps)) (t_applied t))
                 ++ filter (fun n => negb (mem n ps)) (t_unapplied t))) None t.
Proof.
  intros ps tp t W Hd Hi. apply (sink_pre ps t W Hd Hi).
  - rewrite <- !app_assoc. rewrite (app_assoc _ ps).
    eapply Permutation_trans; [apply Permutation_app_tail, Permutation_app_comm|].
    rewrite <- !app_assoc. apply Permutation_app_head. now rewrite app_assoc, firstn_skipn.
  - intros x Hx. apply in_app_or in Hx as [Hx|Hx]; [right|now left].
    apply WfBasics.In_firstn in Hx. now apply filter_In in Hx.
  - intros x Hx. apply in_or_app. now right.
Qed.

Lemma sink_pre2 : forall ps tp t,
  wf_txn t -> NoDup ps -> incl ps (t_all t) ->
  reorder_pre
          (Some (firstn tp (filter (fun n => negb (mem n ps)) (t_applied t)) ++ ps
                 ++ skipn tp (filter (fun n => negb (mem n ps)) (t_applied t))))
          (Some (filter (fun n => negb (mem n ps)) (t_unapplied t))) None t.
Proof.
  intros ps tp t W Hd Hi. apply (sink_pre ps t W Hd Hi).
  - rewrite <- !app_assoc. rewrite (app_assoc _ ps).
    eapply Permutation_trans; [apply Permutation_app_tail, Permutation_app_comm|].
    rewrite <- !app_assoc. apply Permutation_app_head. now rewrite app_assoc, firstn_skipn.
  - intros x Hx. apply in_app_or in Hx as [Hx|Hx].
    + right. apply WfBasics.In_firstn in Hx. now apply filter_In in Hx.
    + apply in_app_or in Hx as [Hx|Hx]; [now left|right].
      apply WfBasics.In_skipn in Hx. now apply filter_In in Hx.
  - intros x Hx. apply in_or_app. right. apply in_or_app. now left.
Qed.

Lemma run_sink_np : forall w r t np kp,
  Inv w -> stack_ref_has_parent w -> snd (run_sink w r t np kp) <> XPanic.
Proof.
  intros w r t np kp Hi Hs. unfold run_sink.
  destruct (match r with Some rs => parse_ranges rs | None => Some [] end) as [prs|] eqn:Eprs;
    [|destruct t as [[? tl]|]; [destruct (parse_locator tl)|]; discriminate].
  lazymatch goal with |- snd (match ?x with Some _ => _ | None => _ end) <> XPanic =>
    destruct x as [tgt|] eqn:Etgt end; [|discriminate].
  assert (Hwf : match tgt with Some (_, l) => wf_loc l | None => True end).
  { destruct t as [[above tl]|]; [|injection Etgt as <-; exact I].
    destruct (parse_locator tl) eqn:Epl; [|discriminate]. injection Etgt as <-.
    now apply parsed_wf in Epl. }
  np_open.
  destruct (w_unmerged (op_world op)); [np_leaf|].
  destruct (negb (head_top_ok op)); [np_leaf|].
  set (s := op_state op) in *.
  match goal with |- snd (rres_bind _ ?tr _) <> XPanic =>
    assert (Ht : match tr with
                 | ROk (Some tn) => In tn (s_applied s)
                 | ROk None => True | RErr _ => True | RPanic => False end);
    [|destruct tr as [ot| |]; cbn [rres_bind]; [|np_leaf|destruct Ht]] end.
  { destruct tgt as [[ab l]|]; [|exact I].
    pose proof (resolve_sound (view_of s) l Hwf) as Hrs.
    destruct (resolve_name (view_of s) l) as [n0| |]; [|exact I|exact Hrs]. cbn in Hrs.
    destruct (constrain (view_of s) LCApplied n0) as [n1| |] eqn:Ec.
    - apply constrain_spec in Ec as [-> Hin]. exact Hin.
    - exact I.
    - now apply constrain_no_panic in Ec. }
  match goal with |- snd (rres_bind _ ?pr _) <> XPanic =>
    assert (Hp : match pr with
                 | ROk ps => NoDup ps /\ incl ps (all_of s)
                 | RErr _ => True | RPanic => False end);
    [|destruct pr as [ps| |]; cbn [rres_bind]; [|np_leaf|destruct Hp]] end.
  { destruct r as [rs|].
    - pose proof (ranges_sound (view_of s) RCAll prs (parse_ranges_wf _ _ Eprs)) as H.
      destruct (resolve_names (view_of s) RCAll prs); exact H.
    - destruct (last_error (s_applied s)) as [n0|] eqn:El; [|exact I]. split.
      + constructor; [intros []|constructor].
      + intros x [<-|[]]. apply in_applied_all. now apply last_error_In in El. }
  destruct Hp as [Hd Hin].
  destruct (match ot with Some tn => mem tn ps | None => false end) eqn:Em; [np_leaf|].
  match goal with |- snd (match ?tp with Some _ => _ | None => _ end) <> XPanic =>
    destruct tp as [tp0|] eqn:Etp end.
  2:{ exfalso. destruct ot as [tn|]; [|discriminate].
      destruct (position (name_eqb tn) _) as [p|] eqn:Epos; [discriminate|].
      pose proof (position_none _ _ Epos tn) as H. rewrite name_eqb_refl in H.
      assert (H' : true = false); [|discriminate]. apply H. apply filter_In. split; [exact Ht|].
      now rewrite Em. }
  destruct (if np then _ else _) as [a u] eqn:Eau.
  apply transact_np; [apply Eo|apply Eo| | |frame_auto].
  - intros W. destruct np; injection Eau as <- <-;
      [apply (sink_closure1 ps tp0 _ W Hd Hin)|apply (sink_closure2 ps tp0 _ W Hd Hin)].
  - intros W U _. apply reorder_np; [exact W|exact U|].
    destruct np; injection Eau as <- <-;
      [apply (sink_pre1 ps tp0 _ W Hd Hin)|apply (sink_pre2 ps tp0 _ W Hd Hin)].
Qed.

(* ---------------------------------------------------------------- delete / clean *)

Lemma run_delete_np : forall w r tp al a u h sp cf,
  Inv w -> stack_ref_has_parent w -> snd (run_delete w r tp al a u h sp cf) <> XPanic.
Proof.
  intros w r tp al a u h sp cf Hi Hs. unfold run_delete.
  destruct (match r with Some rs => parse_ranges rs | None => Some [] end) as [prs|] eqn:Eprs; [|discriminate].
  np_open.
  match goal with |- snd (rres_bind _ ?pr _) <> XPanic =>
    assert (Hp : pr <> RPanic); [|destruct pr as [ps| |]; cbn [rres_bind]; [|np_leaf|congruence]] end.
  { destruct tp; [destruct (last_error _); discriminate|].
    destruct r as [rs|]; [eapply resolve_names_np; eassumption|]. destruct al; discriminate. }
  repeat match goal with |- snd (if ?b then _ else _) <> XPanic => destruct b end; try np_leaf.
  apply transact_np; [apply Eo|apply Eo| | |frame_auto].
  - intros W. now apply delete_push_wf.
  - intros W U Hn. now apply delete_push_np.
Qed.

Lemma run_clean_np : forall w a u, Inv w -> stack_ref_has_parent w -> snd (run_clean w a u) <> XPanic.
Proof.
  intros w a u Hi Hs. unfold run_clean. np_open.
  destruct (negb (head_top_ok op)); [np_leaf|].
  destruct (if negb a && negb u then (true, true) else (a, u)) as [ca cu].
  match goal with |- snd (match ?l with [] => _ | _ :: _ => _ end) <> XPanic => destruct l end; [np_leaf|].
  apply transact_np; [apply Eo|apply Eo| | |frame_auto].
  - intros W. now apply delete_push_wf.
  - intros W U Hn. now apply delete_push_np.
Qed.

(* ---------------------------------------------------------------- hide / unhide *)

Lemma hide_np : forall th t,
  wf_txn t -> uinv t -> NoDup th -> incl th (t_applied t ++ t_unapplied t) -> nsat uinv (hide_patches th t).
Proof.
  intros th t W U Hd Hi. unfold hide_patches. apply reorder_np; [exact W|exact U|].
  apply reorder_some_pre; [exact W|]. unfold t_all.
  rewrite !app_assoc. apply Permutation_app_tail. rewrite <- filter_app.
  eapply Permutation_trans; [apply Permutation_app_comm|].
  apply perm_split; [exact Hd|now apply visible_nodup|exact Hi].
Qed.

Lemma unhide_np : forall ps t,
  wf_txn t -> uinv t -> NoDup ps -> incl ps (t_hidden t) -> nsat uinv (unhide_patches ps t).
Proof.
  intros ps t W U Hd Hi. unfold unhide_patches. apply reorder_np; [exact W|exact U|]. cbn [reorder_pre].
  unfold t_all. apply Permutation_app_head. rewrite <- app_assoc. apply Permutation_app_head.
  apply perm_split; [exact Hd| |exact Hi]. now apply (names_disjoint t (wt_names t W)).
Qed.

Lemma run_hide_np : forall w r, Inv w -> stack_ref_has_parent w -> snd (run_hide w r) <> XPanic.
Proof.
  intros w r Hi Hs. unfold run_hide.
  destruct (parse_ranges r) as [prs|] eqn:Epr; [|discriminate].
  np_open.
  destruct (negb (head_top_ok op)); [np_leaf|].
  destruct (resolve_names _ _ _) as [ps| |] eqn:Er; cbn [rres_bind]; [|np_leaf|].
  2:{ exfalso. eapply resolve_names_np; eassumption. }
  destruct (resolve_names_ok _ _ _ _ _ Epr Er) as [Hd Hin].
  assert (Hth : incl (filter (fun n => negb (mem n (s_hidden (op_state op)))) ps)
                     (s_applied (op_state op) ++ s_unapplied (op_state op))).
  { intros x Hx. apply filter_In in Hx as [Hx1 Hx2]. apply negb_mem_true in Hx2.
    apply Hin in Hx1. cbn in Hx1. unfold v_all in Hx1. cbn in Hx1.
    rewrite app_assoc in Hx1. apply in_app_or in Hx1 as [Hx1|Hx1]; [exact Hx1|contradiction]. }
  apply transact_np; [apply Eo|apply Eo| | |frame_auto].
  - intros W. apply hide_wf; [exact W|now apply NoDup_filter|exact Hth].
  - intros W U _. apply hide_np; [exact W|exact U|now apply NoDup_filter|exact Hth].
Qed.

Lemma run_unhide_np : forall w r, Inv w -> stack_ref_has_parent w -> snd (run_unhide w r) <> XPanic.
Proof.
  intros w r Hi Hs. unfold run_unhide.
  destruct (parse_ranges r) as [prs|] eqn:Epr; [|discriminate].
  np_open.
  destruct (negb (head_top_ok op)); [np_leaf|].
  destruct (resolve_names _ _ _) as [ps| |] eqn:Er; cbn [rres_bind]; [|np_leaf|].
  2:{ exfalso. eapply resolve_names_np; eassumption. }
  destruct (resolve_names_ok _ _ _ _ _ Epr Er) as [Hd Hin].
  apply transact_np; [apply Eo|apply Eo| | |frame_auto].
  - intros W. apply unhide_wf; [exact W|exact Hd|exact Hin].
  - intros W U _. apply unhide_np; [exact W|exact U|exact Hd|exact Hin].
Qed.

(* ---------------------------------------------------------------- rename *)

Lemma run_rename_np : forall w o n, Inv w -> stack_ref_has_parent w -> snd (run_rename w o n) <> XPanic.
Proof.
  intros w o n Hi Hs. unfold run_rename.
  destruct (from_str n) as [newn|] eqn:En; [|discriminate]. apply from_str_valid in En.
  lazymatch goal with |- snd (match ?x with Some _ => _ | None => _ end) <> XPanic =>
    destruct x as [old_l|] eqn:Eol end; [|discriminate].
  assert (Hwf : match old_l with Some l => wf_loc l | None => True end).
  { destruct o as [os|]; [|injection Eol as <-; exact I].
    destruct (parse_locator os) eqn:Epl; [|discriminate]. injection Eol as <-. now apply parsed_wf in Epl. }
  np_open. set (s := op_state op) in *.
  match goal with |- snd (rres_bind _ ?r _) <> XPanic =>
    assert (Hr : match r with ROk oldn => In oldn (all_of s) | RErr _ => True | RPanic => False end);
    [|destruct r as [oldn| |]; cbn [rres_bind]; [|np_leaf|destruct Hr]] end.
  { destruct old_l as [l|].
    - pose proof (resolve_sound (view_of s) l Hwf) as H.
      destruct (resolve_name (view_of s) l); exact H.
    - destruct (last_error (s_applied s)) as [n0|] eqn:El; [|exact I].
      apply in_applied_all. now apply last_error_In in El. }
  pose proof (on_ok _ _ Eo) as Hop. pose proof Hop as [_ [[Hn _] _]].
  destruct (stack_collides s newn) as [c|] eqn:Ec.
  - destruct (mem newn (all_of s)) eqn:Em; [np_leaf|].
    destruct (name_eqb_spec c oldn) as [->|Hc]; cbn [negb]; [|np_leaf].
    apply transact_np; [exact Hop|apply Eo| | |frame_auto].
    + intros W. apply rename_wf; [exact W|exact En|now apply mem_false in Em|].
      intros m Hm Hcm. unfold stack_collides in Ec. apply find_some in Ec as [Hc1 Hc2].
      destruct Hn as [_ [_ Hcf]]. apply Hcf; auto. eapply collides_trans; [|exact Hc2].
      now rewrite collides_sym.
    + intros W U _. apply rename_np; [exact W|exact U|exact Hr].
  - pose proof (stack_collides_none _ _ Ec) as Hnc.
    apply transact_np; [exact Hop|apply Eo| | |frame_auto].
    + intros W. apply rename_wf; [exact W|exact En| |].
      * intros Hin. apply Hnc in Hin. rewrite collides_refl in Hin. discriminate.
      * intros m Hm Hcm. rewrite (Hnc m Hm) in Hcm. discriminate.
    + intros W U _. apply rename_np; [exact W|exact U|exact Hr].
Qed.

(* ---------------------------------------------------------------- commit *)

Lemma run_commit_np : forall w r n al ae,
  Inv w -> stack_ref_has_parent w -> snd (run_commit w r n al ae) <> XPanic.
Proof.
  intros w r n al ae Hi Hs. unfold run_commit.
  destruct (match r with Some rs => parse_ranges rs | None => Some [] end) as [prs|] eqn:Epr; [|discriminate].
  np_open.
  match goal with |- snd (match ?p with inl _ => _ | inr _ => _ end) <> XPanic =>
    assert (Hps : (forall ps o, p = inr ps -> wf_txn (begin_txn op o) -> commit_pre ps (begin_txn op o))
                  /\ (forall res, p = inl res -> snd res <> XPanic));
    [|destruct p as [res|ps] eqn:Ep] end.
  { split.
    - intros ps o E W. destruct r as [rs|].
      + destruct (resolve_names _ _ _) as [l| |] eqn:Er; try discriminate. injection E as <-.
        destruct (resolve_names_ok _ _ _ _ _ Epr Er) as [Hd Hin].
        apply (commit_pre_sorted l (begin_txn op o) W Hd Hin).
      + destruct n as [k|].
        * destruct (k =? 0)%N; [discriminate|]. destruct (Nat.ltb _ _); [discriminate|].
          injection E as <-. apply (commit_pre_prefix _ (begin_txn op o) W).
        * destruct (s_applied (op_state op)) as [|x xs] eqn:Ea; [discriminate|].
          destruct al; injection E as <-.
          -- rewrite <- Ea. rewrite <- (firstn_all (s_applied (op_state op))).
             apply (commit_pre_prefix _ (begin_txn op o) W).
          -- pose proof (commit_pre_prefix 1 (begin_txn op o) W) as H. cbn [begin_txn t_applied] in H.
             rewrite Ea in H. exact H.
    - intros res E. destruct r as [rs|].
      + destruct (resolve_names _ _ _) as [l| |] eqn:Er; try discriminate;
          try (injection E as <-; discriminate).
        exfalso. eapply resolve_names_np; eassumption.
      + destruct n as [k|].
        * destruct (k =? 0)%N; [injection E as <-; discriminate|].
          destruct (Nat.ltb _ _); [injection E as <-; discriminate|discriminate].
        * destruct (s_applied (op_state op)); [injection E as <-; discriminate|].
          destruct al; discriminate. }
  - apply Hps. reflexivity.
  - destruct Hps as [Hps _]. specialize (Hps ps). clear Ep.
    destruct ps as [|p0 ps0]; [np_leaf|]. set (ps := p0 :: ps0) in *.
    repeat match goal with |- snd (if ?b then _ else _) <> XPanic => destruct b end; try np_leaf.
    apply transact_np; [apply Eo|apply Eo| | |frame_auto].
    + intros W. apply commit_wf; [exact W|]. now apply Hps.
    + intros W U Hn. pose proof (Hps _ eq_refl W) as Hpre.
      apply commit_np; [exact W|exact U|exact Hpre|discriminate|].
      intros x Hx. apply Hn. destruct Hpre as [_ [Hin _]]. now apply Hin.
Qed.

(* ---------------------------------------------------------------- uncommit *)

Lemma walk_down_length : forall objs k o l, walk_down objs o k = Some l -> length l = k.
Proof.
  intros objs. induction k as [|k IH]; intros o l H; cbn in H.
  - now injection H as <-.
  - destruct (parents_of objs o) as [|p [|q r]]; try discriminate.
    destruct (walk_down objs p k) as [l'|] eqn:Ew; [|discriminate]. injection H as <-.
    cbn. f_equal. eapply IH; exact Ew.
Qed.

Lemma run_uncommit_np : forall lower_s, LowerOK lower_s -> forall w n names,
  Inv w -> stack_ref_has_parent w -> snd (run_uncommit lower_s w n names) <> XPanic.
Proof.
  intros lower_s HL w n names Hi Hs. unfold run_uncommit.
  destruct (fold_right _ _ names) as [pnames|] eqn:Ep; [|discriminate]. apply parsed_names_valid in Ep.
  np_open.
  destruct (negb (head_top_ok op)); [np_leaf|].
  pose proof (on_ok _ _ Eo) as Hop.
  pose proof Hop as [Hiw [Hst Hb]]. pose proof Hst as [Hn _]. apply Inv_iff in Hiw as [[Hcl _] _].
  cbv zeta.
  match goal with |- snd (match ?p with inl _ => _ | inr _ => _ end) <> XPanic =>
    assert (Hplan : (forall commits pns, p = inr (commits, pns) ->
              names_ok (pns ++ all_of (op_state op))
              /\ (forall c, In c commits -> is_patch_commit (w_objs (op_world op)) c)
              /\ length commits = length pns)
              /\ (forall res, p = inl res -> snd res <> XPanic));
    [|destruct p as [res|[commits pns]] eqn:Epl] end.
  { split.
    - intros commits pns E. destruct n as [k|].
      + destruct (walk_down _ _ _) as [cs|] eqn:Ew; [|discriminate].
        destruct pnames as [|prefix [|? ?]]; try discriminate.
        * destruct (make_patchnames _ _ _ _) as [gen|] eqn:Eg; [|discriminate]. injection E as <- <-.
          destruct (gen_names_ok lower_s HL _ _ _ _ Eg) as [Hgl Hgn].
          split; [now apply Hgn|]. split; [eapply walk_down_patch; eauto|now symmetry].
        * destruct (forallb _ _) eqn:Ef; [|discriminate].
          destruct (check_patchnames _ _) eqn:Ec; [|discriminate]. injection E as <- <-.
          split; [|split; [eapply walk_down_patch; eauto|]].
          -- apply check_patchnames_ok; [exact Hn| |exact Ec].
             apply Forall_forall. intros x Hx. now apply (proj1 (forallb_forall _ _) Ef).
          -- apply walk_down_length in Ew. now rewrite map_length, rev_length, seq_length.
      + destruct pnames as [|pn0 pnames'].
        * destruct (walk_down _ _ _) as [cs|] eqn:Ew; [|discriminate].
          destruct (make_patchnames _ _ _ _) as [gen|] eqn:Eg; [|discriminate]. injection E as <- <-.
          destruct (gen_names_ok lower_s HL _ _ _ _ Eg) as [Hgl Hgn].
          split; [now apply Hgn|]. split; [eapply walk_down_patch; eauto|now symmetry].
        * destruct (check_patchnames _ _) eqn:Ec; [|discriminate]. cbn [negb] in E.
          destruct (walk_down _ _ _) as [cs|] eqn:Ew; [|discriminate]. injection E as <- <-.
          split; [|split; [eapply walk_down_patch; eauto|]].
          -- now apply check_patchnames_ok.
          -- now apply walk_down_length in Ew.
    - intros res E. destruct n as [k|].
      + destruct (walk_down _ _ _) as [cs|]; [|injection E as <-; discriminate].
        destruct pnames as [|prefix [|? ?]]; try (injection E as <-; discriminate).
        * destruct (uncommit_names_fresh lower_s HL (w_objs (op_world op)) (op_state op) cs)
            as [gen [Eg _]]. rewrite Eg in E. discriminate.
        * destruct (forallb _ _); [|injection E as <-; discriminate].
          destruct (check_patchnames _ _); [discriminate|injection E as <-; discriminate].
      + destruct pnames as [|pn0 pnames'].
        * destruct (walk_down _ _ _) as [cs|]; [|injection E as <-; discriminate].
          destruct (uncommit_names_fresh lower_s HL (w_objs (op_world op)) (op_state op) cs)
            as [gen [Eg _]]. rewrite Eg in E. discriminate.
        * destruct (check_patchnames _ _); cbn [negb] in E; [|injection E as <-; discriminate].
          destruct (walk_down _ _ _); [discriminate|injection E as <-; discriminate]. }
  - apply Hplan. reflexivity.
  - destruct Hplan as [Hplan _]. destruct (Hplan commits pns eq_refl) as [Hnn [Hcc Hlen]]. clear Hplan Epl.
    rewrite Hlen, Nat.eqb_refl. cbn [negb].
    apply transact_np; [exact Hop|apply Eo| | |frame_auto].
    + intros W. now apply uncommit_closure.
    + intros W U _. now apply uncommit_np.
Qed.

(* ---------------------------------------------------------------- undo / redo / reset *)

Lemma run_undo_like_np : forall w s h m,
  Inv w -> stack_ref_has_parent w -> snd (run_undo_like w s h m) <> XPanic.
Proof.
  intros w s h m Hi Hs. unfold run_undo_like.
  destruct (open_stack PRequire w) as [op0|] eqn:Eo0; [apply (open_opn _ w _ Hi Hs) in Eo0|np_leaf].
  (* logging external modifications first either fails (exit 2) or gives a good opened stack *)
  destruct (log_extmods_first op0) as [op|] eqn:El; [|np_leaf].
  pose proof (log_extmods_first_ok _ _ (on_ok _ _ Eo0) El) as Hok.
  pose proof (log_extmods_first_sref _ _ (on_sref _ _ Eo0) El) as Hsr.
  apply transact_np; [exact Hok|exact Hsr| | |frame_auto].
  - intros W. destruct (w_stack (op_world op)) as [so|]; [|apply W].
    destruct (find_undo_state _ _ _ _) as [st|] eqn:Ef; [|apply W].
    apply find_undo_state_logged in Ef as [so' Hs']. apply reset_wf; [exact W|].
    now apply (proj2 (wt_store _ W) so').
  - intros W U Hn. destruct (w_stack (op_world op)) as [so|]; [|exact I].
    destruct (find_undo_state _ _ _ _) as [st|]; [|exact I]. now apply reset_np.
Qed.

Lemma run_undo_np : forall w n h, Inv w -> stack_ref_has_parent w -> snd (run_undo w n h) <> XPanic.
Proof. intros. unfold run_undo. destruct (n <? 1)%Z; [discriminate|now apply run_undo_like_np]. Qed.

Lemma run_redo_np : forall w n h, Inv w -> stack_ref_has_parent w -> snd (run_redo w n h) <> XPanic.
Proof.
  intros. unfold run_redo. destruct (n =? 0)%N; [discriminate|].
  destruct (isize_max <? n)%N; [discriminate|now apply run_undo_like_np].
Qed.

Lemma run_reset_np : forall w e h, Inv w -> stack_ref_has_parent w -> snd (run_reset w e None h) <> XPanic.
Proof.
  intros w e h Hi Hs. unfold run_reset. destruct e as [k|].
  - np_open.
    destruct (w_stack (op_world op)) as [so|]; [|np_leaf].
    destruct (nth_prev_state _ _ _ _) as [st|] eqn:Ef; [|np_leaf].
    apply nth_prev_state_logged in Ef as [so' Hs'].
    apply transact_np; [apply Eo|apply Eo| | |frame_auto].
    + intros W. apply reset_wf; [exact W|]. now apply (proj2 (wt_store _ W) so').
    + intros W U Hn. now apply reset_np.
  - destruct h; discriminate.
Qed.

(* ---------------------------------------------------------------- refresh *)

Lemma transact_ok_state : forall op o f msg w2,
  transact op o f msg = (w2, X0) ->
  exists t' st1 prev th,
    f (begin_txn op o) = TOk t' /\ cur_state w2 = Some (ChainExec.new_state t' st1 prev th).
Proof.
  intros op o f msg w2 H. unfold transact in H. destruct (negb (op_initialized op)).
  - destruct (f (begin_txn op o)); discriminate.
  - destruct (f (begin_txn op o)) as [t'|t' h|t'|] eqn:Ef.
    + apply ChainExec.execute_ok_state in H as (st1 & prev & th & _ & _ & Hc & _). eauto 8.
    + apply ConflictProofs.halt_exit in H. congruence.
    + discriminate.
    + discriminate.
Qed.

Lemma nis_perm : forall t t1,
  nis t -> Permutation (t_all t1) (t_all t) -> t_stack t1 = t_stack t -> nis t1.
Proof.
  intros t t1 Hn Hp Hs n Hi. unfold stack_has. rewrite Hs. apply Hn.
  eapply Permutation_in; [exact Hp|exact Hi].
Qed.

(* step 1 of the applied case: pop what is above the patch, push the temporary patch alone *)
Lemma refresh_step1_np : forall pn tmpname A t,
  wf_txn t -> uinv t -> t_applied t = A ++ [tmpname] -> In pn A ->
  nsat (fun t1 => uinv t1 /\ t_stack t1 = t_stack t)
    (if Nat.ltb 1 (length (after_name pn A ++ [tmpname])) then
       let '(t1, extra) := pop_patches (fun n => mem n (after_name pn A ++ [tmpname])) t in
       match extra with
       | _ :: _ => TPanic
       | [] => push_patches [tmpname] false t1
       end
     else TOk t).
Proof.
  intros pn tmpname A t W U Ha Hin.
  destruct (edit_pop_facts pn t W) as (k & Hk & Hpop & W1 & Hds & Hin1).
  rewrite Ha, (after_name_app pn A [tmpname] Hin), <- Ha in Hk.
  destruct (Nat.ltb 1 _).
  - rewrite Hk, Hpop.
    assert (U1 : uinv (edit_popped t k)) by (eapply uinv_same; [| |exact U]; reflexivity).
    eapply nsat_impl.
    + apply push_patches_np; [exact W1|exact U1|repeat constructor; intros []|].
      intros n [<-|[]]. apply Hin1. rewrite <- Hk. apply in_or_app. right. now left.
    + intros t1 [[_ U1'] Hs]. split; [exact U1'|exact Hs].
  - cbn [nsat]. split; [exact U|reflexivity].
Qed.

Lemma refresh_absorb_np : forall pn tmpname A t,
  wf_txn t -> uinv t -> nis t -> t_applied t = A ++ [tmpname] -> pn <> tmpname -> In pn (t_all t) ->
  nsat uinv (refresh_absorb pn tmpname t).
Proof.
  intros pn tmpname A t W U Hn Ha Hne Hpn. unfold refresh_absorb.
  destruct (last_applied_fresh t A tmpname W Ha) as [HdA [HA [HU HH]]].
  destruct (mem pn (t_applied t)) eqn:Em.
  - apply mem_In in Em. rewrite Ha in Em. apply in_app_or in Em as [Hin|[Hx|[]]]; [|congruence].
    cbv zeta. rewrite Ha, (after_name_app pn A [tmpname] Hin).
    set (R := after_name pn A).
    assert (HdR : NoDup R).
    { unfold R. destruct (after_name_skipn pn A) as [j ->]. now apply (NoDup_firstn_skipn _ j A HdA). }
    eapply nsat_tbind;
      [exact (refresh_absorb_step1 pn tmpname A t W Ha Hin)
      |exact (refresh_step1_np pn tmpname A t W U Ha Hin)|].
    cbv beta. intros t1 [W1 [Hperm [K [Ha1 HR]]]] [U1 Hs1]. fold R in HR.
    pose proof (nis_perm t t1 Hn Hperm Hs1) as Hn1.
    assert (Hpn1 : In pn (t_all t1)) by (eapply Permutation_in; [apply Permutation_sym; exact Hperm|exact Hpn]).
    assert (Htn1 : In tmpname (t_all t1)).
    { apply in_all_cases. left. rewrite Ha1. apply in_or_app. right. now left. }
    apply (wt_dom t1 W1) in Htn1.
    pose proof (proj1 (wt_dom t1 W1 pn) Hpn1) as Hpc1.
    destruct (t_patch t1 pn) as [pc|] eqn:Epc; [|congruence].
    destruct (t_patch t1 tmpname) as [tc|]; [|congruence].
    unfold last_error. rewrite last_error_app. rewrite name_eqb_refl. cbn [negb].
    rewrite removelast_snoc.
    destruct (refresh_commit t1 pc (tree_of (t_objs t1) tc)) as [t2 newc] eqn:Erc.
    destruct (refresh_commit_wf t1 pn pc _ t2 newc W1 Epc Erc) as [W2 [[L1 [L2 L3]] [Hp2 Ho2]]].
    destruct (refresh_commit_same _ _ _ _ _ Erc) as [S2 [Up2 All2]].
    assert (U2 : uinv t2) by (eapply uinv_same; [exact Up2|exact S2|exact U1]).
    assert (Hn2 : nis t2).
    { intros n Hi. unfold stack_has. rewrite S2. apply Hn1. now rewrite <- All2. }
    destruct (delete_patches _ t2) as [t3 inc] eqn:Ed.
    assert (Ha2 : t_applied t2 = K ++ [tmpname]) by congruence.
    pose proof (delete_np _ _ _ _ U2 Hn2 Ed) as U3.
    destruct (delete_tmp_facts tmpname K t2 t3 inc W2 Ha2 Ed) as [W3 [A3 [U3' [H3 O3]]]].
    assert (Hall3 : forall n, n <> tmpname -> In n (t_all t1) -> In n (t_all t3)).
    { intros n Hnn Hi. apply in_all_cases. rewrite A3, U3', H3, L2, L3.
      apply in_all_cases in Hi. rewrite Ha1 in Hi. destruct Hi as [Hi|Hi]; [|now right].
      apply in_app_or in Hi as [Hi|[<-|[]]]; [now left|congruence]. }
    assert (HtR : ~ In tmpname R).
    { intros Hi. apply HA. unfold R in Hi. now apply after_name_incl in Hi. }
    assert (Hpush : forall t4, wf_txn t4 -> uinv t4 -> same_lists t3 t4 ->
              nsat uinv (push_patches R false t4)).
    { intros t4 W4 U4 [M1 [M2 M3]]. apply push_patches_np0; [exact W4|exact U4|exact HdR|].
      intros n Hi. destruct (HR n Hi) as [H1 H2]. rewrite M1, A3. split; [|exact H2].
      assert (Hi3 : In n (t_all t3)).
      { apply Hall3; [|exact H1]. intros ->. contradiction. }
      apply in_all_cases. rewrite M1, M2, M3. now apply in_all_cases. }
    destruct newc as [o|]; cbn [tbind].
    + assert (Hp3 : t_patch t3 pn <> None).
      { apply (wt_dom t3 W3). now apply Hall3. }
      pose proof (update_patch_wf pn o t3 W3) as Hw. rewrite O3 in Hw. specialize (Hw (Ho2 o eq_refl)).
      pose proof (update_patch_np pn o t3 U3 Hp3) as Hu.
      unfold update_patch in *. destruct (t_patch t3 pn); [|congruence].
      cbn [tbind good res_sat nsat] in *.
      apply Hpush; [exact Hw|exact Hu|repeat split].
    + apply Hpush; [exact W3|exact U3|repeat split].
  - rewrite (pop_last t A tmpname Ha HA).
    set (t1 := set_lists t A (tmpname :: t_unapplied t) (t_hidden t)).
    assert (W1 : wf_txn t1).
    { pose proof (pop_last t A tmpname Ha HA) as Ep. now apply (pop_wf _ _ _ _ W) in Ep as [W1 _]. }
    assert (U1 : uinv t1) by (eapply uinv_same; [| |exact U]; reflexivity).
    assert (Hn1 : nis t1).
    { pose proof (pop_last t A tmpname Ha HA) as Ep. apply (pop_wf _ _ _ _ W) in Ep as [_ Hp].
      now apply (nis_perm t). }
    assert (Htn : In tmpname (t_all t)).
    { apply in_all_cases. left. rewrite Ha. apply in_or_app. right. now left. }
    apply (wt_dom t W) in Htn. apply (wt_dom t W) in Hpn.
    change (t_patch t1 pn) with (t_patch t pn). change (t_patch t1 tmpname) with (t_patch t tmpname).
    destruct (t_patch t pn) as [pc|] eqn:Epc; [|congruence].
    destruct (t_patch t tmpname) as [tc|]; [|congruence].
    destruct (first_parent _ _) as [tpar|]; [|exact I].
    destruct (apply3way _ _ _ _) as [tree'|]; [|exact U1].
    destruct (refresh_commit t1 pc tree') as [t2 newc] eqn:Erc.
    destruct (refresh_commit_wf t1 pn pc _ t2 newc W1 Epc Erc) as [W2 [_ [Hp2 _]]].
    destruct (refresh_commit_same _ _ _ _ _ Erc) as [S2 [Up2 All2]].
    assert (U2 : uinv t2) by (eapply uinv_same; [exact Up2|exact S2|exact U1]).
    assert (Hn2 : nis t2).
    { intros n Hi. unfold stack_has. rewrite S2. apply Hn1. now rewrite <- All2. }
    assert (Hdel : forall t3, uinv t3 -> nis t3 ->
              nsat uinv (TOk (fst (delete_patches (fun n => name_eqb n tmpname) t3)))).
    { intros t3 U3 Hn3. destruct (delete_patches _ t3) as [t4 inc] eqn:Ed. cbn [fst nsat].
      eapply delete_np; eauto. }
    destruct newc as [o|]; cbn [tbind].
    + unfold update_patch. rewrite Hp2. change (t_patch t1 pn) with (t_patch t pn). rewrite Epc.
      cbn [tbind]. apply Hdel.
      * eapply uinv_up_some; [reflexivity|reflexivity|exact U2].
      * exact Hn2.
    + now apply Hdel.
Qed.

Lemma nodup_snoc_neq : forall (A : Type) (l r : list A) x y, NoDup ((l ++ [x]) ++ r) -> In y l -> y <> x.
Proof.
  intros A l r x y H Hy ->. apply NoDup_app_iff in H as [H _]. apply NoDup_app_iff in H as [_ [_ H]].
  apply (H x Hy). now left.
Qed.

Lemma run_refresh_np : forall w p, Inv w -> stack_ref_has_parent w -> snd (run_refresh w p) <> XPanic.
Proof.
  intros w p Hi Hs. unfold run_refresh.
  lazymatch goal with |- snd (match ?x with Some _ => _ | None => _ end) <> XPanic =>
    destruct x as [loc_l|] eqn:Eol end; [|discriminate].
  pose proof (refresh_loc_wf p loc_l Eol) as Hwf. clear Eol.
  np_open.
  destruct (head_top_ok op) eqn:Eh; cbn [negb]; [|np_leaf].
  match goal with |- snd (rres_bind _ ?r _) <> XPanic => destruct r as [pn| |] eqn:Epn; cbn [rres_bind] end;
    [|np_leaf|].
  2:{ exfalso. destruct loc_l as [l|].
      - pose proof (resolve_constrained_ok (view_of (op_state op)) LCVisible l (Hwf l eq_refl)) as Hk.
        now rewrite Epn in Hk.
      - destruct (last_error (s_applied (op_state op))); discriminate. }
  pose proof (refresh_target_in (op_state op) loc_l pn Hwf Epn) as Hpn.
  destruct (w_unmerged (op_world op)); [np_leaf|].
  unfold put. cbv beta iota zeta.
  pose proof (on_ok _ _ Eo) as Hop.
  pose proof Hop as [Hiw [[Hn _] _]]. apply Inv_iff in Hiw as [_ [Hbr _]].
  set (tmpname := match uniquify s_refresh_temp [] (all_of (op_state op)) with
                  | UOk n => n | UFuel => s_refresh_temp end).
  set (tmpc := length (w_objs (op_world op))).
  assert (Hnm : names_ok (tmpname :: all_of (op_state op))).
  { apply uniquify_names_ok; [exact Hn|exact refresh_temp_valid]. }
  match goal with |- context [transact ?o ?a ?f ?m] =>
    assert (Hm : Inv (fst (transact o a f m)) /\ stack_ref_has_parent (fst (transact o a f m))
                 /\ snd (transact o a f m) <> XPanic);
    [|destruct (transact o a f m) as [w2 x] eqn:Et] end.
  { split; [|split].
    - apply transact_inv.
      + apply op_ok_put; [exact Hop|]. intros q [<-|[]]. exact Hbr.
      + intros W. apply new_applied_wf; [exact W|exact Hnm|apply patch_commit_new].
      + frame_auto.
    - apply transact_sref; [|frame_auto]. apply sref_with_objs; [apply store_extends_put|apply Eo].
    - apply transact_np.
      + apply op_ok_put; [exact Hop|]. intros q [<-|[]]. exact Hbr.
      + apply sref_with_objs; [apply store_extends_put|apply Eo].
      + intros W. apply new_applied_wf; [exact W|exact Hnm|apply patch_commit_new].
      + intros W U _. eapply new_applied_np; [exact U| |].
        * eapply begin_top; eassumption.
        * apply first_parent_new.
      + frame_auto. }
  cbn [fst snd] in Hm. destruct Hm as [Hi2 [Hs2 Hx]]. destruct x; try exact Hx; try discriminate.
  destruct (open_stack PAllow w2) as [op2|] eqn:Eo2; [|np_leaf].
  destruct (refresh_reopened _ _ _ _ _ _ Et Eo2) as [Ha2 [Hu2 Hh2]].
  apply (open_opn _ _ _ Hi2 Hs2) in Eo2.
  pose proof (on_ok _ _ Eo2) as Hop2.
  assert (Hne : pn <> tmpname).
  { intros ->. destruct Hnm as [Hnd _]. inversion Hnd as [|x0 l0 Hfr _]. apply Hfr.
    unfold all_of. rewrite app_assoc. apply in_or_app. now left. }
  apply transact_np; [exact Hop2|apply Eo2| | |apply frame_refresh_absorb].
  - intros W. eapply refresh_absorb_wf; [exact W|exact Ha2|exact Hne].
  - intros W U Hnis. eapply refresh_absorb_np; [exact W|exact U|exact Hnis|exact Ha2|exact Hne|].
    apply in_all_cases. change (t_applied (begin_txn op2 _)) with (s_applied (op_state op2)).
    change (t_unapplied (begin_txn op2 _)) with (s_unapplied (op_state op2)).
    rewrite Ha2, Hu2. apply in_app_or in Hpn as [Hp|Hp]; [left; apply in_or_app; now left|right; now left].
Qed.

(* ---------------------------------------------------------------- edit / rebase *)

Lemma edit_closure_np : forall pn o t,
  wf_txn t -> uinv t -> is_patch_commit (t_objs t) o -> t_patch t pn <> None ->
  nsat uinv (let above := after_name pn (t_applied t) in
             let '(t1, extra) := pop_patches (fun n => mem n above) t in
             match extra with
             | _ :: _ => TPanic
             | [] => tbind (update_patch pn o t1) (push_patches above false)
             end).
Proof.
  intros pn o t W U Ho Hpn. cbv zeta.
  destruct (edit_pop_facts pn t W) as (k & -> & -> & W1 & Hds & Hin).
  assert (U1 : uinv (edit_popped t k)) by (eapply uinv_same; [| |exact U]; reflexivity).
  change (t_patch (edit_popped t k) pn <> None) in Hpn.
  pose proof (update_patch_wf pn o (edit_popped t k) W1 Ho) as Hw.
  pose proof (update_patch_np pn o (edit_popped t k) U1 Hpn) as Hu.
  unfold update_patch in *.
  destruct (t_patch (edit_popped t k) pn); [|congruence].
  cbn [tbind good res_sat nsat] in *.
  apply push_patches_np0; [exact Hw|exact Hu|exact Hds|exact Hin].
Qed.

Lemma run_edit_np : forall w l m msg,
  Inv w -> stack_ref_has_parent w -> snd (run_edit w l m msg) <> XPanic.
Proof.
  intros w l m msg Hi Hs. unfold run_edit.
  lazymatch goal with |- snd (match ?x with Some _ => _ | None => _ end) <> XPanic =>
    destruct x as [loc_l|] eqn:Eol end; [|discriminate].
  assert (Hwf : match loc_l with Some l0 => wf_loc l0 | None => True end).
  { destruct l as [os|]; [|injection Eol as <-; exact I].
    destruct (parse_locator os) eqn:Epl; [|discriminate]. injection Eol as <-. now apply parsed_wf in Epl. }
  np_open. set (s := op_state op) in *.
  destruct (negb (head_top_ok op)); [np_leaf|].
  match goal with |- snd (rres_bind _ ?r _) <> XPanic =>
    assert (Hr : match r with ROk pn => In pn (all_of s) | RErr _ => True | RPanic => False end);
    [|destruct r as [pn| |]; cbn [rres_bind]; [|np_leaf|destruct Hr]] end.
  { destruct loc_l as [l0|].
    - pose proof (resolve_sound (view_of s) l0 Hwf) as H.
      destruct (resolve_name (view_of s) l0); exact H.
    - destruct (last_error (s_applied s)) as [n0|] eqn:El; [|exact I].
      apply in_applied_all. now apply last_error_In in El. }
  subst s.
  pose proof (on_ok _ _ Eo) as Hop. pose proof Hop as [Hiw [Hst _]].
  pose proof (state_has _ _ pn Hst Hr) as Hpn.
  destruct (pm_get (s_patches (op_state op)) pn) as [pc|] eqn:Epc; [|congruence].
  pose proof Hst as [_ [_ [_ [Hp _]]]]. apply Inv_iff in Hiw as [[Hcl _] _].
  pose proof (Hp _ _ Epc) as Hpc.
  destruct (get (w_objs (op_world op)) pc) as [old|] eqn:Eg.
  2:{ exfalso. destruct Hpc as [[c [Hc _]] _]. congruence. }
  destruct (_ && _); [np_leaf|].
  unfold put. cbv beta iota zeta.
  apply transact_np.
  - apply op_ok_put; [exact Hop|]. intros p Hin. apply (patch_parents_plain _ pc Hcl Hpc).
    unfold parents_of. now rewrite Eg.
  - apply sref_with_objs; [apply store_extends_put|apply Eo].
  - intros W. apply edit_closure; [exact W|]. eapply patch_commit_copy'; eassumption.
  - intros W U _. apply edit_closure_np; [exact W|exact U| |].
    + eapply patch_commit_copy'; eassumption.
    + unfold t_patch. cbn. now rewrite Epc.
  - apply frame_edit_body.
Qed.

Lemma run_rebase_np : forall w tg,
  Inv w -> stack_ref_has_parent w -> snd (run_rebase w tg) <> XPanic.
Proof.
  intros w tg Hi Hs. unfold run_rebase. np_open.
  pose proof (on_ok _ _ Eo) as Hop.
  destruct (resolve_gtarget (op_world op) tg) as [target|] eqn:Et; [|np_leaf].
  apply (resolve_gtarget_plain _ _ _ (proj1 Hop)) in Et.
  destruct (Nat.eqb target (op_base op)); [np_leaf|].
  destruct (negb (head_top_ok op)); [np_leaf|].
  destruct (dirty (op_world op)); [np_leaf|].
  pose proof Hop as [_ [Hst _]]. destruct (state_lists _ _ Hst) as [Hda _].
  match goal with |- context [transact ?o ?a ?f ?m] =>
    assert (Hm : Inv (fst (transact o a f m))
                 /\ store_extends (w_objs (op_world op)) (w_objs (fst (transact o a f m)))
                 /\ stack_ref_has_parent (fst (transact o a f m))
                 /\ snd (transact o a f m) <> XPanic);
    [|destruct (transact o a f m) as [w2 x] eqn:Etr] end.
  { assert (Hg : forall t, wf_txn t ->
              good (TOk (fst (pop_patches (fun n => mem n (s_applied (op_state op))) t)))).
    { intros t W. cbn [good res_sat]. destruct (pop_patches _ t) as [t1 inc] eqn:Ep. cbn [fst].
      now apply (pop_wf _ _ _ _ W) in Ep as [W1 _]. }
    split; [|split; [|split]].
    - apply transact_inv; [exact Hop|apply Hg|cbn [frame]; apply fr_pop].
    - apply transact_extends. cbn [frame]. apply fr_pop.
    - apply transact_sref; [apply Eo|cbn [frame]; apply fr_pop].
    - apply transact_np; [exact Hop|apply Eo|apply Hg| |cbn [frame]; apply fr_pop].
      intros W U _. cbn [nsat]. now apply uinv_pop. }
  cbn [fst snd] in Hm. destruct Hm as [Hi2 [He2 [Hs2 Hx]]].
  destruct x; try exact Hx; try discriminate.
  pose proof (Inv_reset_hard w2 target (tree_of (w_objs w2) target) false Hi2
                (is_plain_ext _ _ _ He2 Et)) as Hi3.
  set (w3 := mkWorld _ _ _ _ _ _ _ _) in *.
  assert (Hs3 : stack_ref_has_parent w3)
    by (eapply sref_dep; [| |exact Hs2]; [apply store_extends_refl|reflexivity]).
  destruct (open_stack PRequire w3) as [op3|] eqn:Eo3; [|np_leaf].
  destruct (log_extmods_first op3) as [op4|] eqn:El; [|np_leaf].
  destruct (rebase_reopened _ _ _ _ _ _ _ _ Etr Eo3 El) as [Ea4 [Eu4 _]].
  apply (open_opn _ _ _ Hi3 Hs3) in Eo3.
  pose proof (log_extmods_first_ok _ _ (on_ok _ _ Eo3) El) as Hok4.
  pose proof (log_extmods_first_sref _ _ (on_sref _ _ Eo3) El) as Hsr4.
  destruct (negb (head_top_ok op4)); [np_leaf|].
  apply transact_np; [exact Hok4|exact Hsr4| | |apply frame_push_patches].
  - intros W. eapply res_sat_impl; [apply push_patches_wf; [exact W|exact Hda|]|intros t' P; apply P].
    eapply rebase_push_pre; eassumption.
  - intros W U _. apply push_patches_np0; [exact W|exact U|exact Hda|].
    eapply rebase_push_pre; eassumption.
Qed.

(* ---------------------------------------------------------------- squash *)

Lemma nis_same : forall t t',
  (forall n, In n (t_all t') -> In n (t_all t)) -> t_stack t' = t_stack t -> nis t -> nis t'.
Proof. intros t t' Ha Es H n Hn. unfold stack_has. rewrite Es. apply H. now apply Ha. Qed.

Lemma try_squash_uinv : forall t ps meta msg t1 o,
  try_squash t ps meta msg = Some (t1, o) -> uinv t -> uinv t1.
Proof.
  intros t ps meta msg t1 o H U. apply try_squash_spec in H as (b & bc & tr & _ & _ & -> & _).
  eapply uinv_same; [| |exact U]; reflexivity.
Qed.

Lemma try_squash_stack : forall t ps meta msg t1 o,
  try_squash t ps meta msg = Some (t1, o) -> t_stack t1 = t_stack t.
Proof. intros t ps meta msg t1 o H. now apply try_squash_fr in H as [H _]. Qed.

Lemma squash_finish_np : forall newn o to_push sp t,
  wf_txn t -> uinv t -> names_ok (newn :: t_all t) -> is_patch_commit (t_objs t) o ->
  NoDup to_push -> (forall n, In n to_push -> In n (t_all t) /\ ~ In n (t_applied t)) ->
  nsat uinv (squash_finish newn o to_push sp t).
Proof.
  intros newn o to_push sp t W U Hn Ho Hd Hin. unfold squash_finish.
  destruct (squash_finish_pre newn o to_push sp t W Hn Ho Hd Hin) as (t3 & -> & W3 & Eu3 & Es3 & Hd3 & Hin3).
  cbn [tbind]. apply push_patches_np0; [exact W3| |exact Hd3|exact Hin3].
  eapply uinv_up_some; [exact Eu3|exact Es3|exact U].
Qed.

Lemma squash_closure_np : forall ps newn meta msg sp t,
  wf_txn t -> uinv t -> nis t -> squash_pre ps newn t ->
  nsat uinv (squash_closure ps newn meta msg sp t).
Proof.
  intros ps newn meta msg sp t W U Hnis (Hd & Hin & Hv & Hcol). unfold squash_closure.
  destruct (try_squash t ps meta msg) as [[t1 o]|] eqn:Et.
  - destruct (try_squash_wf _ _ _ _ _ _ W Et) as (W1 & Ho & Hs1).
    pose proof (same_lists_all _ _ Hs1) as Ea1.
    pose proof (try_squash_uinv _ _ _ _ _ _ Et U) as U1.
    assert (N1 : nis t1).
    { eapply nis_same; [| |exact Hnis]; [intros n Hn; now rewrite <- Ea1|eapply try_squash_stack; exact Et]. }
    destruct (delete_patches (fun n => mem n ps) t1) as [t2 to_push] eqn:Ed.
    destruct (delete_wf _ _ _ _ W1 Ed) as (W2 & Hdp & Hip).
    pose proof (delete_np _ _ _ _ U1 N1 Ed) as U2.
    pose proof (delete_objs (fun n => mem n ps) t1) as Eo. rewrite Ed in Eo. cbn [fst] in Eo.
    apply squash_finish_np; [exact W2|exact U2| |now rewrite Eo|exact Hdp|].
    + eapply squash_names_ok; [exact W2|exact Hv| |exact Ed]. now rewrite Ea1.
    + intros n Hn. apply Hip in Hn. split; [apply in_all_cases; auto|].
      pose proof (names_disjoint t2 (wt_names t2 W2)) as [_ [_ [_ [Hah _]]]].
      intros Ha. destruct (Hah n Ha) as [Hx _]. contradiction.
  - pose proof (uinv_pop (fun n => mem n ps) t U) as U1.
    assert (Es1 : t_stack (fst (pop_patches (fun n => mem n ps) t)) = t_stack t) by apply fr_pop.
    destruct (pop_patches (fun n => mem n ps) t) as [t1 to_push] eqn:Ep. cbn [fst] in U1, Es1.
    destruct (pop_wf _ _ _ _ W Ep) as [W1 Hp1].
    destruct (pop_keep_disjoint _ _ _ _ Ep) as [Hk1 Hinc].
    pose proof (names_disjoint t (wt_names t W)) as [Hda _].
    pose proof (pop_inc_nodup _ _ _ _ Hda Ep) as Hdtp.
    pose proof (names_disjoint t1 (wt_names t1 W1)) as [_ [_ [_ [Hah1 Huh1]]]].
    assert (Hpush : forall n, In n ps -> In n (t_all t1) /\ ~ In n (t_applied t1)).
    { intros n Hn. split.
      - eapply Permutation_in; [apply Permutation_sym; exact Hp1|now apply Hin].
      - intros Ha. apply Hk1 in Ha. apply mem_In in Hn. cbv beta in Ha. congruence. }
    eapply nsat_tbind;
      [apply (push_patches_wf ps false t1 W1 Hd Hpush)|apply (push_patches_np ps false t1 W1 U1 Hd Hpush)|].
    intros t2 _ [[(W2 & Ea2 & Eh2 & Hp2) U2] Es2]. cbv beta.
    destruct (try_squash t2 ps meta msg) as [[t3 o]|] eqn:Et2; [|exact I].
    destruct (try_squash_wf _ _ _ _ _ _ W2 Et2) as (W3 & Ho & Hs3).
    pose proof (same_lists_all _ _ Hs3) as Ea3. destruct Hs3 as [Eap3 _].
    pose proof (try_squash_uinv _ _ _ _ _ _ Et2 U2) as U3.
    assert (Hall2 : forall m, In m (t_all t2) <-> In m (t_all t)).
    { intros m. split; intros Hm.
      - eapply Permutation_in; [exact Hp1|]. eapply Permutation_in; [exact Hp2|exact Hm].
      - eapply Permutation_in; [apply Permutation_sym; exact Hp2|].
        eapply Permutation_in; [apply Permutation_sym; exact Hp1|exact Hm]. }
    assert (N3 : nis t3).
    { eapply nis_same; [| |exact Hnis].
      - intros n Hn. rewrite Ea3 in Hn. now apply Hall2.
      - rewrite (try_squash_stack _ _ _ _ _ _ Et2). congruence. }
    destruct (delete_patches (fun n => mem n ps) t3) as [t4 extra] eqn:Ed.
    assert (Eex : extra = []).
    { eapply (delete_top_no_extra ps t3 t4 extra (t_applied t1)); [now rewrite Eap3| |exact Ed].
      intros x Hx Hps. apply Hk1 in Hx. apply mem_In in Hps. cbv beta in Hx. congruence. }
    subst extra.
    destruct (delete_wf _ _ _ _ W3 Ed) as (W4 & _ & _).
    pose proof (delete_np _ _ _ _ U3 N3 Ed) as U4.
    pose proof (delete_objs (fun n => mem n ps) t3) as Eo. rewrite Ed in Eo. cbn [fst] in Eo.
    apply squash_finish_np; [exact W4|exact U4| |now rewrite Eo|exact Hdtp|].
    + eapply squash_names_ok; [exact W4|exact Hv| |exact Ed].
      intros m Hm. rewrite Ea3 in Hm. apply Hall2 in Hm. now apply Hcol.
    + intros n Hn. destruct (Hinc n Hn) as (Hf & Hu1 & Ha0). split.
      * apply (delete_all_iff _ _ _ _ Ed). split; [|exact Hf]. rewrite Ea3. apply Hall2.
        apply in_all_cases. now left.
      * intros Ha4. apply (delete_applied_sub _ _ _ _ Ed) in Ha4. rewrite Eap3, Ea2 in Ha4.
        apply in_app_or in Ha4 as [Ha4|Ha4].
        -- destruct (Hah1 n Ha4) as [Hx _]. contradiction.
        -- apply mem_In in Ha4. cbv beta in Hf. congruence.
Qed.

Lemma squash_exit_np : forall (p : world * exitc) (b : bool),
  snd p <> XPanic -> snd (let '(w', x) := p in if b then (w', X3) else (w', x)) <> XPanic.
Proof. intros [w' x] b H. destruct b; [discriminate|exact H]. Qed.

Lemma run_squash_np : forall w r nm meta msg,
  Inv w -> stack_ref_has_parent w -> snd (run_squash w r nm meta msg) <> XPanic.
Proof.
  intros w r nm meta msg Hi Hs. unfold run_squash.
  destruct (parse_ranges r) as [prs|] eqn:Epr; [|discriminate].
  destruct (from_str nm) as [newn|] eqn:En; [|discriminate]. apply from_str_valid in En.
  np_open.
  destruct (w_unmerged (op_world op)); [np_leaf|].
  destruct (negb (head_top_ok op)); [np_leaf|].
  pose proof (resolve_names_np _ _ (op_state op) RCAll Epr) as Hnp.
  destruct (resolve_names _ _ _) as [ps| |] eqn:Er; cbn [rres_bind]; [|np_leaf|congruence].
  destruct (resolve_names_ok _ _ _ _ _ Epr Er) as [Hd Hin].
  destruct (_ && _) eqn:Eg; [np_leaf|].
  destruct (Nat.ltb _ _); [np_leaf|].
  pose proof (on_ok _ _ Eo) as Hop.
  apply squash_exit_np.
  apply transact_np; [exact Hop|apply Eo| | |apply frame_squash_closure].
  - intros W. apply squash_closure_wf; [exact W|]. now apply squash_pre_begin.
  - intros W U N. apply squash_closure_np; [exact W|exact U|exact N|]. now apply squash_pre_begin.
Qed.

(* ---------------------------------------------------------------- pick *)

Lemma pick_body_np : forall pn o na t,
  wf_txn t -> uinv t -> names_ok (pn :: t_all t) -> is_patch_commit (t_objs t) o ->
  nsat uinv (pick_body pn o na t).
Proof.
  intros pn o na t W U Hn Ho. unfold pick_body.
  destruct (squash_finish_pre pn o [] (negb na) t W Hn Ho (NoDup_nil _)) as (t3 & -> & W3 & Eu3 & Es3 & Hd3 & Hin3).
  { intros n []. }
  cbn [tbind].
  assert (U3 : uinv t3) by (eapply uinv_up_some; [exact Eu3|exact Es3|exact U]).
  destruct na; cbn [negb] in *; [exact U3|].
  apply push_patches_np0; [exact W3|exact U3|exact Hd3|exact Hin3].
Qed.

Lemma pick_cand_ok : forall lower_s, LowerOK lower_s ->
  forall op src given o, exists pn0, pick_cand lower_s op src given o = Ok pn0.
Proof.
  intros lower_s HL op src given o. unfold pick_cand.
  destruct given as [n|]; [now exists n|].
  destruct src as [n|k|k]; [now exists n| |];
    destruct (make_valid lower_s HL (subj_of (w_objs (op_world op)) o) false (Some 30%N)) as [n [En _]];
    now exists n.
Qed.

Lemma run_pick_np : forall lower_s, LowerOK lower_s ->
  forall w src nm na,
  Inv w -> stack_ref_has_parent w -> snd (run_pick lower_s w src nm na) <> XPanic.
Proof.
  intros lower_s HL w src nm na Hi Hs.
  destruct (run_pick_case lower_s w src nm na) as
    [_|_|op Eo|op given o Eo _ _ _ Hc|op given o pn0 Eo _ _ _ _ Eu|op given o pn0 pn c par Eo Eg _ _ Es Ec Eu _ Ep];
    cbn [snd]; try discriminate.
  - exfalso. destruct (pick_cand_ok lower_s HL op src given o) as [pn0 E]. exact (Hc pn0 E).
  - exfalso. exact (uniquify_never_out_of_fuel _ _ _ Eu).
  - apply (open_opn _ w _ Hi Hs) in Eo. pose proof (on_ok _ _ Eo) as Hop.
    pose proof Hop as [_ [[Hn _] _]].
    assert (Hnn : names_ok (pn :: t_all (begin_txn (pick_op op c par) (pick_opts (w_apc (op_world op)))))).
    { change (t_all (begin_txn (pick_op op c par) (pick_opts (w_apc (op_world op))))) with (all_of (op_state op)).
      eapply pick_names_ok; [exact Hn| |exact Eu]. eapply pick_cand_valid; eauto. }
    apply transact_np.
    + eapply pick_op_ok; eauto.
    + unfold pick_op. apply sref_with_objs; [apply store_extends_put|apply Eo].
    + intros W. apply pick_body_wf; [exact W|exact Hnn|apply patch_commit_new].
    + intros W U _. apply pick_body_np; [exact W|exact U|exact Hnn|apply patch_commit_new].
    + apply frame_pick_body.
Qed.
