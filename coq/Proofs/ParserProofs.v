(* The winnow parser patch_name agrees with FromStr. *)
From StgV Require Import Model.Chars Model.Name Model.NameSpec.
From StgV Require Import Proofs.CharsProofs Proofs.ValidateProofs.
From Coq Require Import Lia ZifyBool PeanoNat.

Definition pn_brk (z : bool) (c : N) (next : option N) : bool :=
  if c =? ch_bslash then
    negb (z && match next with Some n => n =? ch_dash | None => false end)
  else
    pn_break_char c
    || ((c =? ch_dot) && (z || match next with Some n => n =? ch_dot | None => true end))
    || ((c =? ch_at) && match next with Some n => n =? ch_lbrace | None => false end).

Lemma pn_scan_cons : forall i c s,
  pn_scan i (c :: s) =
  if pn_brk (Nat.eqb i 0) c (hd_error s) then O else S (pn_scan (S i) s).
Proof. reflexivity. Qed.

Lemma break_vchar : forall c, c <> ch_bslash -> pn_break_char c = negb (vchar c).
Proof.
  intros c Hc. unfold vchar.
  destruct (pn_break_char c) eqn:E1;
  destruct (is_ascii_whitespace c || is_control c || forbidden_char c) eqn:E2;
    try reflexivity; exfalso; revert Hc E1 E2; charlia.
Qed.

Lemma brk_false : forall c nx, pn_brk false c nx = negb (validate_step c nx).
Proof.
  intros c nx. rewrite validate_step_eq. unfold pn_brk.
  destruct (c =? ch_bslash) eqn:E.
  { apply N.eqb_eq in E. subst c. destruct nx; reflexivity. }
  apply N.eqb_neq in E. rewrite (break_vchar c E).
  destruct (c =? ch_dot) eqn:Ed.
  { apply N.eqb_eq in Ed. subst c. destruct nx as [n|]; [destruct (n =? ch_dot)|]; reflexivity. }
  unfold nx_is. cbn [andb orb]. rewrite orb_false_r.
  destruct (vchar c), ((c =? ch_at) && match nx with Some n => n =? ch_lbrace | None => false end);
    reflexivity.
Qed.

Lemma brk_true : forall c nx,
  (c =? ch_bslash) && nx_is nx ch_dash = false ->
  pn_brk true c nx = (c =? ch_dot) || negb (validate_step c nx).
Proof.
  intros c nx Hne. rewrite <- brk_false. unfold pn_brk, nx_is in *.
  destruct (c =? ch_bslash) eqn:E.
  { apply N.eqb_eq in E. subst c. cbn [andb] in *. rewrite Hne. reflexivity. }
  destruct (c =? ch_dot); cbn [andb orb]; [|reflexivity].
  now rewrite !orb_true_r.
Qed.

Lemma pn_scan_le : forall s i, (pn_scan i s <= length s)%nat.
Proof.
  induction s as [|c s IH]; intros i; [cbn; lia|]. rewrite pn_scan_cons.
  destruct (pn_brk _ _ _); cbn [length]; [lia|]. specialize (IH (S i)). lia.
Qed.

Lemma pn_scan_full : forall s i,
  pn_scan (S i) s = length s <-> validate_loop s = true.
Proof.
  induction s as [|c s IH]; intros i; [cbn; tauto|].
  rewrite pn_scan_cons. cbn [Nat.eqb validate_loop length]. rewrite brk_false.
  destruct (validate_step c (hd_error s)); cbn [negb andb].
  - rewrite <- (IH (S i)). split; [now intros [= ->]|now intros ->].
  - split; discriminate.
Qed.

Definition escaped (s : str) : bool :=
  match s with
  | b :: d :: _ => (b =? ch_bslash) && (d =? ch_dash)
  | _ => false
  end.

Definition finish (m : str) (p : nat) : pres str :=
  let split2 := if last_is_dot (firstn p m) then Nat.pred p else p in
  let name := firstn split2 m in
  let rest := skipn split2 m in
  match name with
  | [] => PBack
  | _ =>
      if ends_with s_dotlock name then PCut
      else if str_eqb name s_at || str_eqb name s_base then PBack
      else POk name rest
  end.

Lemma patch_name_p_eq : forall s,
  patch_name_p s =
  if escaped s then finish (tl s) (Nat.pred (pn_scan 0 s)) else finish s (pn_scan 0 s).
Proof.
  intros s. destruct s as [|b [|d rest]]; try reflexivity.
  all: unfold patch_name_p, escaped; destruct ((b =? ch_bslash) && (d =? ch_dash)); reflexivity.
Qed.

Lemma unescape_eq : forall s, unescape_dash s = if escaped s then tl s else s.
Proof.
  intros s. destruct s as [|b [|d rest]]; try reflexivity.
  all: unfold unescape_dash, escaped; destruct ((b =? ch_bslash) && (d =? ch_dash)); reflexivity.
Qed.

Lemma last_is_dot_valid : forall m, validate_loop m = true -> last_is_dot m = false.
Proof.
  intros m H. unfold last_is_dot. destruct (rev m) as [|c r] eqn:E; [reflexivity|].
  destruct (c =? ch_dot) eqn:Ec; [|reflexivity]. apply N.eqb_eq in Ec. subst c.
  apply (f_equal (@rev N)) in E. rewrite rev_involutive in E. cbn [rev] in E.
  rewrite E, vl_not_dot_last in H. discriminate.
Qed.

Lemma finish_spec : forall m p n,
  (p <= length m)%nat ->
  (p = length m <-> m = [] \/ (starts_dot m = false /\ validate_loop m = true)) ->
  (finish m p = POk n [] <-> validate m = true /\ n = m).
Proof.
  intros m p n Hle Hp. split.
  - unfold finish. set (split2 := if last_is_dot (firstn p m) then Nat.pred p else p).
    assert (H2 : split2 = p \/ split2 = Nat.pred p)
      by (unfold split2; destruct (last_is_dot _); auto).
    destruct (firstn split2 m) as [|x nm] eqn:En; [discriminate|].
    destruct (ends_with s_dotlock (x :: nm)) eqn:E1; [discriminate|].
    destruct (str_eqb (x :: nm) s_at || str_eqb (x :: nm) s_base) eqn:E2; [discriminate|].
    intros H. injection H as Hn Hrest.
    apply (f_equal (@length N)) in Hrest. rewrite skipn_length in Hrest. cbn in Hrest.
    assert (Hs : split2 = length m) by lia. assert (Hpl : p = length m) by lia.
    rewrite Hs, firstn_all in En. clear Hs H2. subst n. subst split2. subst m.
    apply Hp in Hpl as [Hnil|[Hd Hv]]; [discriminate Hnil|].
    split; [|reflexivity]. apply orb_false_iff in E2 as [E2 E3].
    unfold validate. cbn [starts_dot] in Hd. rewrite Hd, Hv, E1, E2, E3. reflexivity.
  - intros [Hv ->]. destruct m as [|c t]; [discriminate Hv|].
    unfold validate in Hv.
    apply andb_true_iff in Hv as [Hv H5]. apply andb_true_iff in Hv as [Hv H4].
    apply andb_true_iff in Hv as [Hv H3]. apply andb_true_iff in Hv as [H1 H2].
    assert (Hpl : p = length (c :: t)).
    { apply Hp. right. cbn [starts_dot]. split; [now apply negb_true_iff|exact H2]. }
    unfold finish. rewrite Hpl, firstn_all, (last_is_dot_valid _ H2), firstn_all, skipn_all.
    apply negb_true_iff in H3, H4, H5. rewrite H3, H4, H5. reflexivity.
Qed.

Theorem parser_agrees : forall s n, patch_name_p s = POk n [] <-> from_str s = Some n.
Proof.
  intros s n. rewrite patch_name_p_eq. unfold from_str. rewrite unescape_eq.
  assert (Hfin : forall m, (validate m = true /\ n = m) <->
                           (if validate m then Some m else None) = Some n).
  { intros m. destruct (validate m); split.
    - now intros [_ ->].
    - intros [= ->]. auto.
    - intros [H _]. discriminate.
    - discriminate. }
  destruct (escaped s) eqn:E.
  - destruct s as [|b [|d rest]]; try discriminate E. cbn [escaped] in E.
    apply andb_true_iff in E as [Eb Ed]. apply N.eqb_eq in Eb, Ed. subst b d.
    cbn [tl]. change (pn_scan 0 (ch_bslash :: ch_dash :: rest))
      with (S (pn_scan 1 (ch_dash :: rest))). cbn [Nat.pred].
    rewrite <- Hfin. apply finish_spec; [apply pn_scan_le|].
    rewrite pn_scan_full. split.
    + intros H. right. split; [reflexivity|exact H].
    + intros [H|[_ H]]; [discriminate H|exact H].
  - rewrite <- Hfin. apply finish_spec; [apply pn_scan_le|].
    destruct s as [|c t]; [cbn; tauto|].
    rewrite pn_scan_cons. cbn [Nat.eqb]. rewrite brk_true.
    + cbn [validate_loop starts_dot length].
      destruct (c =? ch_dot); cbn [orb].
      { split; [discriminate|]. intros [H|[H _]]; discriminate H. }
      destruct (validate_step c (hd_error t)); cbn [negb andb].
      * rewrite <- (pn_scan_full t 0). split.
        -- intros [= ->]. right. auto.
        -- intros [H|[_ ->]]; [discriminate H|reflexivity].
      * split; [discriminate|]. intros [H|[_ H]]; discriminate H.
    + destruct t as [|d rest]; cbn [hd_error nx_is]; [apply andb_false_r|exact E].
Qed.
