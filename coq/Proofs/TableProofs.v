(* A lowercase table accepted by check_table satisfies LowerOK. *)
From StgV Require Import Model.Chars Model.Name Model.NameSpec.
From StgV Require Import Proofs.CharsProofs Proofs.ValidateProofs.
From Coq Require Import Lia ZifyBool.

Lemma N_upto_In : forall n c, c < N.of_nat n -> In c (N_upto n).
Proof.
  induction n as [|n IH]; intros c Hc; [lia|]. cbn [N_upto]. apply in_or_app.
  destruct (N.eq_dec c (N.of_nat n)) as [->|Hne]; [right; now left|].
  left. apply IH. lia.
Qed.

Definition block_ok (c : N) (b : list N) : Prop :=
  (c = ch_dot /\ b = [ch_dot]) \/ (c <> ch_dot /\ b <> [] /\ forallb safe_out b = true).

Lemma ascii_lower_block : forall c, okchar c = true -> is_ascii c = true ->
  block_ok c [ascii_lower c].
Proof.
  intros c Hok Ha. unfold block_ok. destruct (N.eq_dec c ch_dot) as [->|Hne].
  - left. auto.
  - right. split; [exact Hne|]. split; [discriminate|]. cbn [forallb]. rewrite andb_true_r.
    unfold ascii_lower. destruct (is_ascii_upper c) eqn:E; revert Hok Ha Hne E; charlia.
Qed.

Lemma lookup_high : forall tbl c,
  forallb check_entry tbl = true -> okchar c = true -> is_ascii c = false ->
  block_ok c (lookup tbl c).
Proof.
  intros tbl c Ht Hok Ha.
  assert (Hne : c <> ch_dot) by (revert Ha; charlia).
  induction tbl as [|[k v] tbl IH]; cbn [lookup].
  - right. split; [exact Hne|]. split; [discriminate|]. cbn [forallb].
    unfold safe_out. rewrite Hok. apply N.eqb_neq in Hne. now rewrite Hne.
  - cbn [forallb] in Ht. apply andb_true_iff in Ht as [He Ht].
    destruct (k =? c) eqn:E; [|now apply IH].
    apply N.eqb_eq in E. subst k. right. split; [exact Hne|].
    unfold check_entry in He. destruct v as [|x v]; [discriminate He|].
    split; [discriminate|]. now rewrite Ha, Hok in He.
Qed.

Lemma lookup_ok : forall tbl c,
  check_table tbl = true -> okchar c = true -> block_ok c (lookup tbl c).
Proof.
  intros tbl c Ht Hok. unfold check_table in Ht. apply andb_true_iff in Ht as [H1 H2].
  destruct (is_ascii c) eqn:Ha; [|now apply lookup_high].
  rewrite forallb_forall in H2. specialize (H2 c).
  assert (Hin : In c (N_upto 128)) by (apply N_upto_In; revert Ha; charlia).
  apply H2, str_eqb_eq in Hin. rewrite Hin. now apply ascii_lower_block.
Qed.

Lemma safe_block_app : forall b r,
  forallb safe_out b = true -> forallb okchar r = true -> no_dotdot r = true ->
  forallb okchar (b ++ r) = true /\ no_dotdot (b ++ r) = true.
Proof.
  induction b as [|x b IH]; intros r Hb Hr Hd; [auto|].
  cbn [forallb] in Hb. apply andb_true_iff in Hb as [Hx Hb].
  destruct (IH r Hb Hr Hd) as [H1 H2]. unfold safe_out in Hx.
  apply andb_true_iff in Hx as [Hx1 Hx2]. apply negb_true_iff in Hx2.
  cbn [app forallb]. rewrite no_dotdot_cons, Hx1, Hx2, H1, H2. auto.
Qed.

Lemma lower_of_table_inv : forall tbl choose, check_table tbl = true ->
  forall s i, clean s = true ->
    forallb okchar (lower_of_table_from tbl choose i s) = true
    /\ no_dotdot (lower_of_table_from tbl choose i s) = true
    /\ (starts_dot (lower_of_table_from tbl choose i s) = true -> starts_dot s = true).
Proof.
  intros tbl choose Ht. induction s as [|c s IH]; intros i Hc; [cbn; auto|].
  unfold clean in Hc. apply andb_true_iff in Hc as [Hok Hdd].
  cbn [forallb] in Hok. apply andb_true_iff in Hok as [Hc Hok].
  rewrite no_dotdot_cons in Hdd. apply andb_true_iff in Hdd as [Hd Hdd].
  destruct (IH (S i)) as [I1 [I2 I3]]; [unfold clean; now rewrite Hok, Hdd|].
  cbn [lower_of_table_from].
  set (r := lower_of_table_from tbl choose (S i) s) in *.
  assert (Hb : block_ok c (if (c =? 931) && choose i then [962] else lookup tbl c)).
  { destruct ((c =? 931) && choose i) eqn:E; [|now apply lookup_ok].
    apply andb_true_iff in E as [E _]. apply N.eqb_eq in E. subst c.
    right. split; [discriminate|]. split; [discriminate|reflexivity]. }
  destruct Hb as [[-> ->]|[Hne [Hbne Hsafe]]].
  - cbn [app forallb starts_dot]. rewrite no_dotdot_cons, I1, I2.
    split; [reflexivity|]. split; [|reflexivity].
    destruct (starts_dot r) eqn:E; [|reflexivity].
    rewrite (I3 eq_refl) in Hd. discriminate Hd.
  - destruct (safe_block_app _ r Hsafe I1 I2) as [H1 H2]. split; [exact H1|].
    split; [exact H2|].
    destruct (if (c =? 931) && choose i then [962] else lookup tbl c) as [|x b];
      [congruence|].
    cbn [forallb] in Hsafe. apply andb_true_iff in Hsafe as [Hx _]. unfold safe_out in Hx.
    apply andb_true_iff in Hx as [_ Hx]. apply negb_true_iff in Hx.
    cbn [app starts_dot]. rewrite Hx. discriminate.
Qed.

Theorem table_sound : forall tbl choose,
  check_table tbl = true -> LowerOK (lower_of_table tbl choose).
Proof.
  intros tbl choose Ht s Hc. unfold lower_of_table.
  destruct (lower_of_table_inv tbl choose Ht s 0%nat Hc) as [H1 [H2 _]].
  unfold clean. now rewrite H1, H2.
Qed.
