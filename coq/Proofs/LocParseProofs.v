(* C15 parser-side proofs: every parsed locator is well formed (parsed_wf), and display
   followed by parse is the identity on the parse image (display_parse_loc,
   display_parse_range). *)
From Coq Require Import Lia ZifyBool PeanoNat ZArith.
From StgV Require Import Model.Chars Model.Name Model.NameSpec Model.Locator Model.LocatorSpec.
From StgV Require Import Proofs.CharsProofs Proofs.ValidateProofs Proofs.UniquifyProofs
  Proofs.ParserProofs Proofs.LocBasics.

Open Scope N_scope.

(* ---------------------------------------------------------------- list helpers *)

Lemma firstn_app_le : forall (k : nat) (m w : str),
  (k <= length m)%nat -> firstn k (m ++ w) = firstn k m.
Proof.
  intros k m w Hk. rewrite firstn_app.
  replace (k - length m)%nat with O by lia. cbn [firstn]. apply app_nil_r.
Qed.

Lemma skipn_app_le : forall (k : nat) (m w : str),
  (k <= length m)%nat -> skipn k (m ++ w) = skipn k m ++ w.
Proof.
  intros k m w Hk. rewrite skipn_app.
  replace (k - length m)%nat with O by lia. reflexivity.
Qed.

(* ---------------------------------------------------------------- patch_name_p pieces *)

Lemma finish_ok : forall m p n r, finish m p = POk n r -> n ++ r = m /\ n <> s_at.
Proof.
  intros m p n r H. unfold finish in H.
  set (split2 := if last_is_dot (firstn p m) then Nat.pred p else p) in H.
  destruct (firstn split2 m) as [|x nm] eqn:En; [discriminate|].
  destruct (ends_with s_dotlock (x :: nm)); [discriminate|].
  destruct (str_eqb (x :: nm) s_at || str_eqb (x :: nm) s_base) eqn:E2; [discriminate|].
  injection H as Hn Hr. subst n r. split.
  - rewrite <- En. apply firstn_skipn.
  - apply orb_false_iff in E2 as [E2 _]. intros Heq. rewrite Heq in E2. discriminate.
Qed.

Lemma pn_scan_succ_indep : forall s i j, pn_scan (S i) s = pn_scan (S j) s.
Proof.
  induction s as [|c s IH]; intros i j; [reflexivity|]. rewrite !pn_scan_cons.
  cbn [Nat.eqb]. destruct (pn_brk false c (hd_error s)); [reflexivity|].
  f_equal. apply IH.
Qed.

Lemma escaped_inv : forall s, escaped s = true -> exists t, s = ch_bslash :: ch_dash :: t.
Proof.
  intros [|b [|d t]] H; try discriminate. cbn [escaped] in H.
  apply andb_true_iff in H as [Hb Hd]. apply N.eqb_eq in Hb, Hd. subst. eauto.
Qed.

Lemma escaped_dash : forall t, escaped (ch_dash :: t) = false.
Proof. intros [|d t]; reflexivity. Qed.

Lemma pn_scan_dash_01 : forall t, pn_scan 0 (ch_dash :: t) = pn_scan 1 (ch_dash :: t).
Proof.
  intros t. rewrite !pn_scan_cons. cbn [Nat.eqb].
  replace (pn_brk true ch_dash (hd_error t)) with (pn_brk false ch_dash (hd_error t))
    by reflexivity.
  destruct (pn_brk false ch_dash (hd_error t)); [reflexivity|].
  f_equal. apply pn_scan_succ_indep.
Qed.

(* the name and the rest returned by patch_name_p re-parse to themselves *)
Lemma pnp_idem : forall s n r, patch_name_p s = POk n r -> patch_name_p (n ++ r) = POk n r.
Proof.
  intros s n r H. pose proof H as H0. rewrite patch_name_p_eq in H.
  destruct (escaped s) eqn:E.
  - apply escaped_inv in E as [t ->]. cbn [tl] in H.
    change (pn_scan 0 (ch_bslash :: ch_dash :: t)) with (S (pn_scan 1 (ch_dash :: t))) in H.
    cbn [Nat.pred] in H. destruct (finish_ok _ _ _ _ H) as [Hm _]. rewrite Hm.
    rewrite patch_name_p_eq, escaped_dash, pn_scan_dash_01. exact H.
  - destruct (finish_ok _ _ _ _ H) as [Hm _]. now rewrite Hm.
Qed.

Lemma pnp_not_at : forall s n r, patch_name_p s = POk n r -> n <> s_at.
Proof.
  intros s n r H. rewrite patch_name_p_eq in H.
  destruct (escaped s); now apply finish_ok in H.
Qed.

Lemma pnp_suffix : forall s n r, patch_name_p s = POk n r -> exists a, s = a ++ r.
Proof.
  intros s n r H. rewrite patch_name_p_eq in H. destruct (escaped s) eqn:E.
  - apply escaped_inv in E as [t ->]. cbn [tl] in H. apply finish_ok in H as [Hm _].
    exists (ch_bslash :: n). cbn [app]. now rewrite Hm.
  - apply finish_ok in H as [Hm _]. now exists n.
Qed.

Lemma pnp_first_break : forall c w,
  c <> ch_bslash -> pn_brk true c (hd_error w) = true -> patch_name_p (c :: w) = PBack.
Proof.
  intros c w Hc Hb. rewrite patch_name_p_eq.
  assert (escaped (c :: w) = false) as ->.
  { apply N.eqb_neq in Hc. destruct w; cbn [escaped]; [reflexivity|now rewrite Hc]. }
  rewrite pn_scan_cons. cbn [Nat.eqb]. rewrite Hb. reflexivity.
Qed.

Lemma loc_name_caret : forall w, loc_name (ch_caret :: w) = PBack.
Proof.
  intros w. unfold loc_name. rewrite pnp_first_break; [reflexivity|discriminate|reflexivity].
Qed.

Lemma loc_name_tilde : forall w, loc_name (ch_tilde :: w) = PBack.
Proof.
  intros w. unfold loc_name. rewrite pnp_first_break; [reflexivity|discriminate|reflexivity].
Qed.

Lemma loc_from_last_tilde : forall w, loc_from_last (ch_tilde :: w) = PBack.
Proof. reflexivity. Qed.

(* ---------------------------------------------------------------- the four alternatives *)

Lemma locator_p_cases : forall s l rest,
  patch_locator_p s = POk l rest ->
  loc_name s = POk l rest
  \/ (loc_name s = PBack /\ loc_from_last s = POk l rest)
  \/ (loc_name s = PBack /\ loc_from_last s = PBack /\ loc_top s = POk l rest)
  \/ (loc_name s = PBack /\ loc_from_last s = PBack /\ loc_top s = PBack
      /\ loc_base s = POk l rest).
Proof.
  intros s l rest H. unfold patch_locator_p, alt2 in H.
  destruct (loc_name s) eqn:E1; [now left| |discriminate].
  destruct (loc_from_last s) eqn:E2; [right; now left| |discriminate].
  destruct (loc_top s) eqn:E3; [right; right; now left| |discriminate].
  right; right; right. auto.
Qed.

(* what each alternative returns: shape of the result, text consumed *)

Lemma loc_name_inv : forall s l rest,
  loc_name s = POk l rest ->
  exists n r1 o, patch_name_p s = POk n r1 /\ patch_offsets r1 = (o, rest)
                 /\ l = mkLoc (IdName n) o.
Proof.
  intros s l rest H. unfold loc_name in H.
  destruct (patch_name_p s) as [n r1| |] eqn:Ep; try discriminate.
  destruct (patch_offsets r1) as [o r'] eqn:Eo. injection H as Hl Hr. subst.
  exists n, r1, o. auto.
Qed.

Lemma loc_from_last_inv : forall s l rest,
  loc_from_last s = POk l rest ->
  exists s' r o,
    s = ch_caret :: s' /\ patch_offsets r = (o, rest)
    /\ ((exists z, nonplussed_int s' = Some (z, r) /\ l = mkLoc (IdBelowLast (Some z)) o)
        \/ (nonplussed_int s' = None /\ r = s' /\ l = mkLoc (IdBelowLast None) o)).
Proof.
  intros s l rest H. unfold loc_from_last in H. destruct s as [|c s']; [discriminate|].
  destruct (c =? ch_caret) eqn:Ec; [|discriminate]. apply N.eqb_eq in Ec. subst c.
  destruct (nonplussed_int s') as [[z r]|] eqn:En.
  - destruct (patch_offsets r) as [o r'] eqn:Eo. injection H as Hl Hr. subst.
    exists s', r, o. split; [reflexivity|]. split; [exact Eo|]. left. eauto.
  - destruct (patch_offsets s') as [o r'] eqn:Eo. injection H as Hl Hr. subst.
    exists s', s', o. split; [reflexivity|]. split; [exact Eo|]. right. auto.
Qed.

Lemma loc_top_inv : forall s l rest,
  loc_top s = POk l rest ->
  (exists s' o, s = ch_at :: s' /\ patch_offsets s' = (o, rest) /\ l = mkLoc IdTop o)
  \/ exists s' r o,
       s = ch_tilde :: s' /\ patch_offsets r = (o, rest)
       /\ ((exists n, unsigned_int s' = Some (n, r) /\ l = mkLoc (IdBelowTop (Some n)) o)
           \/ (unsigned_int s' = None /\ r = s' /\ l = mkLoc (IdBelowTop None) o)).
Proof.
  intros s l rest H. unfold loc_top in H. destruct s as [|c s']; [discriminate|].
  destruct (c =? ch_at) eqn:Ea.
  - apply N.eqb_eq in Ea. subst c. left.
    destruct (patch_offsets s') as [o r'] eqn:Eo. injection H as Hl Hr. subst. eauto.
  - destruct (c =? ch_tilde) eqn:Ec; [|discriminate]. apply N.eqb_eq in Ec. subst c. right.
    destruct (unsigned_int s') as [[n r]|] eqn:En.
    + destruct (patch_offsets r) as [o r'] eqn:Eo. injection H as Hl Hr. subst.
      exists s', r, o. split; [reflexivity|]. split; [exact Eo|]. left. eauto.
    + destruct (patch_offsets s') as [o r'] eqn:Eo. injection H as Hl Hr. subst.
      exists s', s', o. split; [reflexivity|]. split; [exact Eo|]. right. auto.
Qed.

Lemma loc_base_inv : forall s l rest,
  loc_base s = POk l rest ->
  exists t o, s = s_base ++ t /\ patch_offsets t = (o, rest) /\ l = mkLoc IdBase o.
Proof.
  intros s l rest H. unfold loc_base in H.
  destruct (starts_with s_base s) eqn:Es; [|discriminate].
  apply starts_with_iff in Es as [t ->].
  change (skipn 6 (s_base ++ t)) with t in H.
  destruct (patch_offsets t) as [o r'] eqn:Eo. injection H as Hl Hr. subst. eauto.
Qed.

(* ---------------------------------------------------------------- parsed_wf *)

Lemma locator_p_wf : forall s l rest, patch_locator_p s = POk l rest -> wf_loc l.
Proof.
  intros s l rest H. apply wf_loc_iff.
  apply locator_p_cases in H as [H|[[_ H]|[[_ [_ H]]|[_ [_ [_ H]]]]]].
  - apply loc_name_inv in H as [n [r1 [o [Hp [Ho ->]]]]]. cbn [l_offs l_id].
    apply patch_offsets_spec in Ho as [_ Hok]. split; [exact Hok|].
    intros [= Hn]. now apply pnp_not_at in Hp.
  - apply loc_from_last_inv in H as [s' [r [o [_ [Ho [[z [_ ->]]|[_ [_ ->]]]]]]]];
      apply patch_offsets_spec in Ho as [_ Hok]; cbn [l_offs l_id]; split; auto; discriminate.
  - apply loc_top_inv in H as [[s' [o [_ [Ho ->]]]]|[s' [r [o [_ [Ho [[n [_ ->]]|[_ [_ ->]]]]]]]]];
      apply patch_offsets_spec in Ho as [_ Hok]; cbn [l_offs l_id]; split; auto; discriminate.
  - apply loc_base_inv in H as [t [o [_ [Ho ->]]]].
    apply patch_offsets_spec in Ho as [_ Hok]; cbn [l_offs l_id]; split; auto; discriminate.
Qed.

Lemma parse_locator_inv : forall s l, parse_locator s = Some l -> patch_locator_p s = POk l [].
Proof.
  intros s l H. unfold parse_locator in H.
  destruct (patch_locator_p s) as [l' [|c r]| |]; try discriminate. now injection H as ->.
Qed.

Theorem parsed_wf : forall s l, parse_locator s = Some l -> wf_loc l.
Proof. intros s l H. apply parse_locator_inv in H. now apply locator_p_wf in H. Qed.

(* ---------------------------------------------------------------- consumed text *)

Lemma locator_p_suffix : forall s l rest,
  patch_locator_p s = POk l rest -> exists a, s = a ++ rest.
Proof.
  intros s l rest H.
  apply locator_p_cases in H as [H|[[_ H]|[[_ [_ H]]|[_ [_ [_ H]]]]]].
  - apply loc_name_inv in H as [n [r1 [o [Hp [Ho _]]]]].
    apply pnp_suffix in Hp as [a ->]. apply patch_offsets_spec in Ho as [-> _].
    exists (a ++ o). now rewrite app_assoc.
  - apply loc_from_last_inv in H as [s' [r [o [-> [Ho [[z [Hn _]]|[_ [-> _]]]]]]]];
      apply patch_offsets_spec in Ho as [-> _].
    + apply nonplussed_rest_suffix in Hn as [a ->]. exists (ch_caret :: a ++ o).
      cbn [app]. now rewrite <- app_assoc.
    + now exists (ch_caret :: o).
  - apply loc_top_inv in H as [[s' [o [-> [Ho _]]]]|[s' [r [o [-> [Ho [[n [Hn _]]|[_ [-> _]]]]]]]]];
      apply patch_offsets_spec in Ho as [-> _].
    + now exists (ch_at :: o).
    + apply unsigned_int_spec in Hn as [ds [-> _]]. exists (ch_tilde :: ds ++ o).
      cbn [app]. now rewrite <- app_assoc.
    + now exists (ch_tilde :: o).
  - apply loc_base_inv in H as [t [o [-> [Ho _]]]]. apply patch_offsets_spec in Ho as [-> _].
    exists (s_base ++ o). now rewrite <- app_assoc.
Qed.

(* ---------------------------------------------------------------- display then parse *)

Lemma loc_name_rt : forall s l rest,
  loc_name s = POk l rest -> loc_name (display_loc l ++ rest) = POk l rest.
Proof.
  intros s l rest H. apply loc_name_inv in H as [n [r1 [o [Hp [Ho ->]]]]].
  pose proof (patch_offsets_spec _ _ _ Ho) as [Hr1 _].
  unfold display_loc. cbn [l_id l_offs display_id]. rewrite <- app_assoc, <- Hr1.
  unfold loc_name. rewrite (pnp_idem _ _ _ Hp), Ho. reflexivity.
Qed.

Lemma loc_from_last_rt : forall s l rest,
  loc_from_last s = POk l rest ->
  exists w, display_loc l ++ rest = ch_caret :: w /\ loc_from_last (ch_caret :: w) = POk l rest.
Proof.
  intros s l rest H. pose proof H as H0.
  apply loc_from_last_inv in H as [s' [r [o [-> [Ho [[z [Hn ->]]|[Hn [-> ->]]]]]]]];
    pose proof (patch_offsets_spec _ _ _ Ho) as [Hr _];
    unfold display_loc; cbn [l_id l_offs display_id].
  - exists (dec_of_Z z ++ r). split.
    + cbn [app]. now rewrite <- app_assoc, <- Hr.
    + unfold loc_from_last. rewrite N.eqb_refl, (nonplussed_roundtrip _ _ _ Hn), Ho.
      reflexivity.
  - exists s'. split; [|exact H0]. cbn [app]. now rewrite <- Hr.
Qed.

Lemma loc_top_rt : forall s l rest,
  loc_top s = POk l rest ->
  display_loc l ++ rest = s
  \/ exists w, display_loc l ++ rest = ch_tilde :: w /\ loc_top (ch_tilde :: w) = POk l rest.
Proof.
  intros s l rest H.
  apply loc_top_inv in H as [[s' [o [-> [Ho ->]]]]|[s' [r [o [-> [Ho [[n [Hn ->]]|[Hn [-> ->]]]]]]]]];
    pose proof (patch_offsets_spec _ _ _ Ho) as [Hr _];
    unfold display_loc; cbn [l_id l_offs display_id].
  - left. cbn [app]. now rewrite <- Hr.
  - right. exists (dec_of_N n ++ r). split.
    + cbn [app]. now rewrite <- app_assoc, <- Hr.
    + apply unsigned_int_spec in Hn as [ds [_ [_ [_ [_ [Hle Hnd]]]]]].
      unfold loc_top. change (ch_tilde =? ch_at) with false. rewrite N.eqb_refl.
      rewrite (unsigned_int_dec n r Hle Hnd), Ho. reflexivity.
  - left. cbn [app]. now rewrite <- Hr.
Qed.

Lemma loc_base_rt : forall s l rest, loc_base s = POk l rest -> display_loc l ++ rest = s.
Proof.
  intros s l rest H. apply loc_base_inv in H as [t [o [-> [Ho ->]]]].
  apply patch_offsets_spec in Ho as [-> _].
  unfold display_loc. cbn [l_id l_offs display_id]. now rewrite <- app_assoc.
Qed.

Lemma locator_p_rt : forall s l rest,
  patch_locator_p s = POk l rest -> patch_locator_p (display_loc l ++ rest) = POk l rest.
Proof.
  intros s l rest H.
  apply locator_p_cases in H as [H|[[H1 H]|[[H1 [H2 H]]|[H1 [H2 [H3 H]]]]]].
  - apply loc_name_rt in H. unfold patch_locator_p, alt2. now rewrite H.
  - apply loc_from_last_rt in H as [w [-> H]].
    unfold patch_locator_p, alt2. now rewrite loc_name_caret, H.
  - pose proof H as H0. apply loc_top_rt in H as [->|[w [-> H]]].
    + unfold patch_locator_p, alt2. now rewrite H1, H2, H0.
    + unfold patch_locator_p, alt2. now rewrite loc_name_tilde, loc_from_last_tilde, H.
  - pose proof H as H0. apply loc_base_rt in H as ->.
    unfold patch_locator_p, alt2. now rewrite H1, H2, H3, H0.
Qed.

Theorem display_parse_loc : forall s l,
  parse_locator s = Some l -> parse_locator (display_loc l) = Some l.
Proof.
  intros s l H. apply parse_locator_inv, locator_p_rt in H. rewrite app_nil_r in H.
  unfold parse_locator. now rewrite H.
Qed.

(* ---------------------------------------------------------------- ".." acts as end of input *)

Definition dd (x : str) : str := ch_dot :: ch_dot :: x.

Definition pres_app {A} (p : pres A) (w : str) : pres A :=
  match p with
  | POk v r => POk v (r ++ w)
  | PBack => PBack
  | PCut => PCut
  end.

Definition opt_app {A} (p : option (A * str)) (w : str) : option (A * str) :=
  match p with
  | Some (v, r) => Some (v, r ++ w)
  | None => None
  end.

Definition dd_stable {A} (p : str -> pres A) : Prop :=
  forall a x, p (a ++ dd x) = pres_app (p a) (dd x).

Lemma brk_none_dot : forall z c, pn_brk z c (Some ch_dot) = pn_brk z c None.
Proof. intros z c. reflexivity. Qed.

Lemma brk_dotdot : forall z, pn_brk z ch_dot (Some ch_dot) = true.
Proof. intros [|]; reflexivity. Qed.

Lemma scan_dd : forall a i x, pn_scan i (a ++ dd x) = pn_scan i a.
Proof.
  induction a as [|c a IH]; intros i x.
  - cbn [app]. unfold dd. rewrite pn_scan_cons. cbn [hd_error]. now rewrite brk_dotdot.
  - cbn [app]. rewrite !pn_scan_cons, IH.
    assert (Hb : pn_brk (Nat.eqb i 0) c (hd_error (a ++ dd x))
                 = pn_brk (Nat.eqb i 0) c (hd_error a)).
    { destruct a as [|y a']; [|reflexivity]. cbn [app dd hd_error]. apply brk_none_dot. }
    now rewrite Hb.
Qed.

Lemma escaped_dd : forall a x, escaped (a ++ dd x) = escaped a.
Proof.
  intros [|b [|d a']] x; try reflexivity. cbn [app dd escaped].
  change (ch_dot =? ch_dash) with false. apply andb_false_r.
Qed.

Lemma finish_app : forall m p w,
  (p <= length m)%nat -> finish (m ++ w) p = pres_app (finish m p) w.
Proof.
  intros m p w Hp. unfold finish. rewrite (firstn_app_le p m w Hp).
  set (split2 := if last_is_dot (firstn p m) then Nat.pred p else p).
  assert (Hs : (split2 <= length m)%nat) by (unfold split2; destruct (last_is_dot _); lia).
  rewrite (firstn_app_le _ m w Hs), (skipn_app_le _ m w Hs).
  destruct (firstn split2 m) as [|y nm]; [reflexivity|].
  destruct (ends_with s_dotlock (y :: nm)); [reflexivity|].
  destruct (str_eqb (y :: nm) s_at || str_eqb (y :: nm) s_base); reflexivity.
Qed.

Lemma pnp_dd : dd_stable patch_name_p.
Proof.
  intros a x. rewrite !patch_name_p_eq, escaped_dd, scan_dd.
  pose proof (pn_scan_le a 0) as Hle.
  destruct (escaped a) eqn:E.
  - apply escaped_inv in E as [t ->]. cbn [app tl].
    change (ch_dash :: t ++ dd x) with ((ch_dash :: t) ++ dd x). apply finish_app.
    cbn [length] in *. lia.
  - now apply finish_app.
Qed.

Lemma take_while_dd : forall a x,
  take_while is_ascii_digit (a ++ dd x) = take_while is_ascii_digit a.
Proof.
  induction a as [|c a IH]; intros x; [reflexivity|]. cbn [app take_while].
  now rewrite IH.
Qed.

Lemma drop_while_dd : forall a x,
  drop_while is_ascii_digit (a ++ dd x) = drop_while is_ascii_digit a ++ dd x.
Proof.
  intros a x. apply drop_while_app_keep; [discriminate|reflexivity].
Qed.

Lemma unsigned_int_dd : forall a x, unsigned_int (a ++ dd x) = opt_app (unsigned_int a) (dd x).
Proof.
  intros a x. unfold unsigned_int. rewrite take_while_dd, drop_while_dd.
  destruct (take_while is_ascii_digit a) as [|d ds]; [reflexivity|].
  destruct (parse_dec (d :: ds) <=? isize_max); reflexivity.
Qed.

Lemma negative_int_dd : forall a x, negative_int (a ++ dd x) = opt_app (negative_int a) (dd x).
Proof.
  intros [|c a] x; [reflexivity|]. cbn [app]. unfold negative_int.
  destruct (c =? ch_dash); [|reflexivity]. rewrite take_while_dd, drop_while_dd.
  destruct (take_while is_ascii_digit a) as [|d ds]; [reflexivity|].
  destruct (parse_dec (d :: ds) <=? isize_max + 1); reflexivity.
Qed.

Lemma nonplussed_int_dd : forall a x,
  nonplussed_int (a ++ dd x) = opt_app (nonplussed_int a) (dd x).
Proof.
  intros a x. unfold nonplussed_int. rewrite negative_int_dd.
  destruct (negative_int a) as [[z r]|]; [reflexivity|]. cbn [opt_app].
  destruct a as [|c a']; [reflexivity|]. cbn [app].
  destruct (c =? ch_dash); [reflexivity|].
  change (c :: a' ++ dd x) with ((c :: a') ++ dd x). rewrite unsigned_int_dd.
  destruct (unsigned_int (c :: a')) as [[n r]|]; reflexivity.
Qed.

Lemma offset_atom_dd : forall a x, offset_atom (a ++ dd x) = opt_app (offset_atom a) (dd x).
Proof.
  intros [|c a] x; [reflexivity|]. cbn [app]. unfold offset_atom.
  rewrite unsigned_int_dd.
  destruct (c =? ch_plus); [destruct (unsigned_int a) as [[n r]|]; reflexivity|].
  destruct (c =? ch_tilde); [destruct (unsigned_int a) as [[n r]|]; reflexivity|reflexivity].
Qed.

Lemma atoms_fuel_dd : forall fuel a x,
  offset_atoms_fuel fuel (a ++ dd x)
  = let '(atoms, m) := offset_atoms_fuel fuel a in (atoms, m ++ dd x).
Proof.
  induction fuel as [|fuel IH]; intros a x; [reflexivity|]. cbn [offset_atoms_fuel].
  rewrite offset_atom_dd. destruct (offset_atom a) as [[at1 r]|]; [|reflexivity].
  cbn [opt_app]. rewrite IH. destruct (offset_atoms_fuel fuel r). reflexivity.
Qed.

Lemma offset_atom_shorter : forall s a r,
  offset_atom s = Some (a, r) -> (length r < length s)%nat.
Proof.
  intros s a r H. apply offset_atom_spec in H as [c [ds [-> _]]].
  cbn [length]. rewrite app_length. lia.
Qed.

Lemma atoms_fuel_enough : forall f1 f2 s,
  (length s <= f1)%nat -> (length s <= f2)%nat ->
  offset_atoms_fuel f1 s = offset_atoms_fuel f2 s.
Proof.
  induction f1 as [|f1 IH]; intros f2 s H1 H2.
  - destruct s; [|cbn [length] in H1; lia]. destruct f2; reflexivity.
  - destruct f2 as [|f2].
    + destruct s; [reflexivity|cbn [length] in H2; lia].
    + cbn [offset_atoms_fuel]. destruct (offset_atom s) as [[a r]|] eqn:Ea; [|reflexivity].
      apply offset_atom_shorter in Ea. rewrite (IH f2 r); [reflexivity|lia|lia].
Qed.

Lemma patch_offsets_dd : forall a x,
  patch_offsets (a ++ dd x) = let '(o, m) := patch_offsets a in (o, m ++ dd x).
Proof.
  intros a x. unfold patch_offsets, offset_atoms. rewrite atoms_fuel_dd.
  rewrite (atoms_fuel_enough (length (a ++ dd x)) (length a) a);
    [|rewrite app_length; lia|lia].
  destruct (offset_atoms_fuel (length a) a) as [atoms m] eqn:Ea.
  apply atoms_consumed in Ea as [cons [-> _]].
  rewrite firstn_app_exact. rewrite <- app_assoc, firstn_app_exact. reflexivity.
Qed.

Lemma alt2_dd : forall A (p q : str -> pres A),
  dd_stable p -> dd_stable q -> dd_stable (alt2 p q).
Proof.
  intros A p q Hp Hq a x. unfold alt2. rewrite Hp, Hq. destruct (p a); reflexivity.
Qed.

Lemma loc_name_dd : dd_stable loc_name.
Proof.
  intros a x. unfold loc_name. rewrite pnp_dd.
  destruct (patch_name_p a) as [n r| |]; try reflexivity. cbn [pres_app].
  rewrite patch_offsets_dd. destruct (patch_offsets r). reflexivity.
Qed.

Lemma loc_from_last_dd : dd_stable loc_from_last.
Proof.
  intros [|c a] x; [reflexivity|]. cbn [app]. unfold loc_from_last.
  destruct (c =? ch_caret); [|reflexivity]. rewrite nonplussed_int_dd.
  destruct (nonplussed_int a) as [[z r]|]; cbn [opt_app]; rewrite patch_offsets_dd.
  - destruct (patch_offsets r). reflexivity.
  - destruct (patch_offsets a). reflexivity.
Qed.

Lemma loc_top_dd : dd_stable loc_top.
Proof.
  intros [|c a] x; [reflexivity|]. cbn [app]. unfold loc_top.
  destruct (c =? ch_at).
  { rewrite patch_offsets_dd. destruct (patch_offsets a). reflexivity. }
  destruct (c =? ch_tilde); [|reflexivity]. rewrite unsigned_int_dd.
  destruct (unsigned_int a) as [[n r]|]; cbn [opt_app]; rewrite patch_offsets_dd.
  - destruct (patch_offsets r). reflexivity.
  - destruct (patch_offsets a). reflexivity.
Qed.

Lemma starts_with_dd : forall p a x,
  ~ In ch_dot p -> starts_with p (a ++ dd x) = starts_with p a.
Proof.
  induction p as [|k p IH]; intros a x Hin; [reflexivity|].
  destruct a as [|c a].
  - cbn [app dd starts_with]. assert (k =? ch_dot = false) as ->; [|reflexivity].
    apply N.eqb_neq. intros ->. apply Hin. now left.
  - cbn [app starts_with]. rewrite IH; [reflexivity|]. intros H. apply Hin. now right.
Qed.

Lemma loc_base_dd : dd_stable loc_base.
Proof.
  intros a x. unfold loc_base. rewrite starts_with_dd.
  - destruct (starts_with s_base a) eqn:Es; [|reflexivity].
    apply starts_with_iff in Es as [t ->]. rewrite <- app_assoc.
    change (skipn 6 (s_base ++ t ++ dd x)) with (t ++ dd x).
    change (skipn 6 (s_base ++ t)) with t.
    rewrite patch_offsets_dd. destruct (patch_offsets t). reflexivity.
  - cbn. intros H. repeat (destruct H as [H|H]; [discriminate H|]). exact H.
Qed.

Lemma locator_p_dd : dd_stable patch_locator_p.
Proof.
  unfold patch_locator_p. apply alt2_dd; [apply loc_name_dd|].
  apply alt2_dd; [apply loc_from_last_dd|].
  apply alt2_dd; [apply loc_top_dd|apply loc_base_dd].
Qed.

(* a locator parsed in front of ".." prints back to text that parses the same way in
   front of any other ".."-continuation *)
Lemma locator_p_before_dd : forall s l r2 y,
  patch_locator_p s = POk l (dd r2) -> patch_locator_p (display_loc l ++ dd y) = POk l (dd y).
Proof.
  intros s l r2 y H. destruct (locator_p_suffix _ _ _ H) as [a ->].
  rewrite locator_p_dd in H. destruct (patch_locator_p a) as [l' m| |] eqn:Ea; try discriminate.
  cbn [pres_app] in H. injection H as -> Hm. apply app_eq_tail_nil in Hm. subst m.
  apply locator_p_rt in Ea. rewrite app_nil_r in Ea.
  rewrite locator_p_dd, Ea. reflexivity.
Qed.

Lemma locator_p_dd_back : forall y, patch_locator_p (dd y) = PBack.
Proof. intros y. exact (locator_p_dd [] y). Qed.

(* ---------------------------------------------------------------- ranges *)

Definition display_oloc (l : option ploc) : str :=
  match l with Some l => display_loc l | None => [] end.

Lemma display_range_eq : forall b e,
  display_range (RRange b e) = display_oloc b ++ dd (display_oloc e).
Proof. reflexivity. Qed.

Lemma opt_loc_end_rt : forall r2 e,
  opt_loc r2 = POk e [] -> opt_loc (display_oloc e) = POk e [].
Proof.
  intros r2 e H. unfold opt_loc in H.
  destruct (patch_locator_p r2) as [l r| |] eqn:Ep; try discriminate.
  - injection H as <- ->. apply locator_p_rt in Ep. rewrite app_nil_r in Ep.
    cbn [display_oloc]. unfold opt_loc. now rewrite Ep.
  - injection H as <- ->. reflexivity.
Qed.

Lemma opt_loc_begin_rt : forall s b r2 y,
  opt_loc s = POk b (dd r2) -> opt_loc (display_oloc b ++ dd y) = POk b (dd y).
Proof.
  intros s b r2 y H. unfold opt_loc in H.
  destruct (patch_locator_p s) as [l r| |] eqn:Ep; try discriminate.
  - injection H as <- ->. cbn [display_oloc]. unfold opt_loc.
    now rewrite (locator_p_before_dd _ _ _ y Ep).
  - injection H as <- _. cbn [display_oloc app]. unfold opt_loc.
    now rewrite locator_p_dd_back.
Qed.

Lemma range_bounds_inv : forall s b e,
  range_bounds s = POk (b, e) [] ->
  exists r2, opt_loc s = POk b (dd r2) /\ opt_loc r2 = POk e [].
Proof.
  intros s b e H. unfold range_bounds in H.
  destruct (opt_loc s) as [b' r| |] eqn:Eb; try discriminate.
  destruct r as [|d1 [|d2 r2]]; try discriminate.
  destruct ((d1 =? ch_dot) && (d2 =? ch_dot)) eqn:Ed; [|discriminate].
  apply andb_true_iff in Ed as [E1 E2]. apply N.eqb_eq in E1, E2. subst d1 d2.
  destruct (opt_loc r2) as [e' r3| |] eqn:Ee; try discriminate.
  injection H as -> -> ->. exists r2. auto.
Qed.

Lemma range_bounds_rt : forall s b e,
  range_bounds s = POk (b, e) [] ->
  range_bounds (display_oloc b ++ dd (display_oloc e)) = POk (b, e) [].
Proof.
  intros s b e H. apply range_bounds_inv in H as [r2 [Hb He]].
  unfold range_bounds. rewrite (opt_loc_begin_rt _ _ _ (display_oloc e) Hb).
  unfold dd at 1. rewrite !N.eqb_refl. cbn [andb].
  now rewrite (opt_loc_end_rt _ _ He).
Qed.

Lemma range_bounds_single : forall s l,
  patch_locator_p s = POk l [] -> range_bounds s = PBack.
Proof. intros s l H. unfold range_bounds, opt_loc. now rewrite H. Qed.

Theorem display_parse_range : forall s r,
  parse_range s = Some r -> parse_range (display_range r) = Some r.
Proof.
  intros s r H. unfold parse_range in H.
  destruct (patch_range_p s) as [r' [|c rest]| |] eqn:Ep; try discriminate.
  injection H as ->. unfold patch_range_p in Ep.
  destruct (range_bounds s) as [[b e] rest| |] eqn:Eb; try discriminate.
  - injection Ep as <- ->. rewrite display_range_eq.
    unfold parse_range, patch_range_p. now rewrite (range_bounds_rt _ _ _ Eb).
  - destruct (patch_locator_p s) as [l rest| |] eqn:El; try discriminate.
    injection Ep as <- ->. apply locator_p_rt in El. rewrite app_nil_r in El.
    cbn [display_range]. unfold parse_range, patch_range_p.
    now rewrite (range_bounds_single _ _ El), El.
Qed.
