(* C13 - whole-command theorems for `stg repair`: on a consistent stack repair changes nothing
   but the log.

   The statement as first pinned (repair_consistent_noop, hypotheses Inv6 / prev_decreasing /
   repair_consistent only) is FALSE on stores whose plain commits are not acyclic: Inv6 does
   not say that the parent of a plain commit is an older object, and on a commit that is its
   own parent the first-parent walk of repair meets the stack base again.  See
   [repair_consistent_noop_refuted] below (explicit two-object store satisfying Inv6,
   prev_decreasing and repair_consistent, on which repair creates a patch).

   Proved instead: [repair_consistent_noop_partial], the pinned statement under the extra
   hypothesis [plain_parents_older (w_objs w)] (a plain commit with exactly one parent is
   younger than that parent; true of every store built by appending commits whose parents
   exist, and preserved by every state commit since those are not plain). *)
From Coq Require Import List NArith ZArith Bool Arith Lia Permutation.
From StgV Require Import Model.RepairSpec.
From StgV Require Import Proofs.ChainBasics Proofs.ReachBase Proofs.RepairProofs.
From StgV Require Proofs.UndoStepProofs.
From Coq Require Export List.
Import ListNotations.
Local Open Scope nat_scope.
Local Open Scope list_scope.

(* the extra hypothesis *)
Definition plain_parents_older (objs : store) : Prop :=
  forall o p, is_plain objs o -> parents_of objs o = [p] -> p < o.

(* ---------------------------------------------------------------- lists *)

Lemma filter_all : forall (A : Type) (f : A -> bool) l,
    (forall x, In x l -> f x = true) -> filter f l = l.
Proof.
  intros A f. induction l as [|x l IH]; intros H; [reflexivity|].
  cbn [filter]. rewrite (H x (or_introl eq_refl)). f_equal. apply IH.
  intros y Hy. apply H. right. exact Hy.
Qed.

Lemma filter_none : forall (A : Type) (f : A -> bool) l,
    (forall x, In x l -> f x = false) -> filter f l = [].
Proof.
  intros A f. induction l as [|x l IH]; intros H; [reflexivity|].
  cbn [filter]. rewrite (H x (or_introl eq_refl)). apply IH.
  intros y Hy. apply H. right. exact Hy.
Qed.

Lemma nodup_app_disj : forall (A : Type) (a b : list A) x,
    NoDup (a ++ b) -> In x b -> ~ In x a.
Proof.
  intros A a. induction a as [|y a IH]; intros b x Hnd Hb Ha; [destruct Ha|].
  cbn [app] in Hnd. inversion Hnd as [|z zs Hnotin Hnd']; subst.
  destruct Ha as [->|Ha].
  - apply Hnotin. apply in_or_app. right. exact Hb.
  - exact (IH b x Hnd' Hb Ha).
Qed.

Lemma nodup_map_inj : forall (A B : Type) (f : A -> B) l a b,
    NoDup (map f l) -> In a l -> In b l -> f a = f b -> a = b.
Proof.
  intros A B f. induction l as [|x l IH]; intros a b Hnd Ha Hb E; [destruct Ha|].
  cbn [map] in Hnd. inversion Hnd as [|z zs Hnotin Hnd']; subst.
  destruct Ha as [->|Ha]; destruct Hb as [->|Hb].
  - reflexivity.
  - exfalso. apply Hnotin. rewrite E. apply in_map. exact Hb.
  - exfalso. apply Hnotin. rewrite <- E. apply in_map. exact Ha.
  - exact (IH a b Hnd' Ha Hb E).
Qed.

Lemma find_none_intro : forall (A : Type) (f : A -> bool) l,
    (forall x, In x l -> f x = false) -> find f l = None.
Proof.
  intros A f l H. destruct (find f l) as [x|] eqn:E; [|reflexivity].
  apply find_some in E. destruct E as [Hin Hf]. rewrite (H x Hin) in Hf. discriminate.
Qed.

Lemma find_app_first : forall (A : Type) (f : A -> bool) a b n,
    In n a -> f n = true -> (forall m, In m a -> f m = true -> m = n) ->
    find f (a ++ b) = Some n.
Proof.
  intros A f. induction a as [|x a IH]; intros b n Hin Hf Hu; [destruct Hin|].
  cbn [app find]. destruct (f x) eqn:Ex.
  - f_equal. apply Hu; [left; reflexivity|exact Ex].
  - destruct Hin as [->|Hin]; [congruence|].
    apply IH; [exact Hin|exact Hf|]. intros m Hm. apply Hu. right. exact Hm.
Qed.

Lemma nodup_lt_length : forall (l : list nat) n,
    NoDup l -> (forall x, In x l -> x < n) -> length l <= n.
Proof.
  intros l n Hnd Hlt. rewrite <- (seq_length n 0). apply NoDup_incl_length; [exact Hnd|].
  intros x Hx. apply in_seq. specialize (Hlt x Hx). lia.
Qed.

(* ---------------------------------------------------------------- chains, acyclic *)

Lemma chain_older : forall objs, plain_parents_older objs ->
  forall l base top, chain objs base l top -> (forall o, In o l -> is_plain objs o) ->
  forall o, In o l -> base < o.
Proof.
  intros objs A. induction l as [|p rest IH]; intros base top Hc Hpl o Hin; [destruct Hin|].
  cbn [chain] in Hc. destruct Hc as [Hp Hrest].
  assert (Hbp : base < p) by (apply A; [apply Hpl; left; reflexivity|exact Hp]).
  destruct Hin as [<-|Hin]; [exact Hbp|].
  assert (Hpo : p < o).
  { eapply IH; [exact Hrest| |exact Hin]. intros x Hx. apply Hpl. right. exact Hx. }
  lia.
Qed.

Lemma chain_nodup : forall objs, plain_parents_older objs ->
  forall l base top, chain objs base l top -> (forall o, In o l -> is_plain objs o) -> NoDup l.
Proof.
  intros objs A. induction l as [|p rest IH]; intros base top Hc Hpl; [constructor|].
  cbn [chain] in Hc. destruct Hc as [Hp Hrest].
  assert (Hpl' : forall x, In x rest -> is_plain objs x) by (intros x Hx; apply Hpl; right; exact Hx).
  constructor.
  - intro Hin. pose proof (chain_older objs A rest p top Hrest Hpl' p Hin). lia.
  - eapply IH; [exact Hrest|exact Hpl'].
Qed.

Lemma walked_trans : forall objs o x y, walked objs o x -> walked objs x y -> walked objs o y.
Proof.
  intros objs o x y H. induction H as [o p Hp|o p x Hp Hw IH]; intros Hxy; [exact Hxy|].
  eapply walked_down; [exact Hp|]. apply IH. exact Hxy.
Qed.

Lemma chain_walked_base : forall objs l base top q,
    chain objs base l top -> l <> [] -> parents_of objs base = [q] -> walked objs top base.
Proof.
  intros objs. induction l as [|p rest IH]; intros base top q Hc Hne Hq; [congruence|].
  cbn [chain] in Hc. destruct Hc as [Hp Hrest].
  assert (Hpb : walked objs p base).
  { eapply walked_down; [exact Hp|]. eapply walked_here. exact Hq. }
  destruct rest as [|p' rest'].
  - cbn [chain] in Hrest. subst top. exact Hpb.
  - eapply walked_trans; [|exact Hpb]. eapply (IH p top base); [exact Hrest|discriminate|exact Hp].
Qed.

Lemma chain_walked : forall objs l base top,
    chain objs base l top -> forall o, In o l -> walked objs top o.
Proof.
  intros objs. induction l as [|p rest IH]; intros base top Hc o Hin; [destruct Hin|].
  pose proof Hc as Hc0. cbn [chain] in Hc. destruct Hc as [Hp Hrest].
  destruct Hin as [<-|Hin]; [|eapply IH; [exact Hrest|exact Hin]].
  destruct rest as [|p' rest'].
  - cbn [chain] in Hrest. subst top. eapply walked_here. exact Hp.
  - eapply (chain_walked_base objs (p' :: rest') p top base); [exact Hrest|discriminate|exact Hp].
Qed.

(* ---------------------------------------------------------------- the walk on the applied chain *)

Section WalkChain2.
  Variables (objs : store) (s : sstate) (base : oid).
  Hypothesis Hchain : chain objs base (applied_oids s) (s_top s).
  Hypothesis Hpoc : forall n, In n (s_applied s) -> patch_of_commit s (patch_oid s n) = Some n.
  Hypothesis Hbase : forall n, In n (s_applied s) -> patch_oid s n <> base.

  Lemma walk_chain_gen2 : forall pre n suf fuel,
      s_applied s = pre ++ n :: suf -> length pre < fuel ->
      repair_walk fuel objs s base (patch_oid s n) (rev suf) [] []
      = (rev (s_applied s), [], base).
  Proof.
    intros pre. induction pre as [|m pre IH] using rev_ind; intros n suf fuel Happ Hfuel.
    - destruct fuel as [|fuel]; [cbn in Hfuel; lia|].
      assert (Hpar : parents_of objs (patch_oid s n) = [base]).
      { pose proof Hchain as Hc. unfold applied_oids in Hc. rewrite Happ in Hc.
        cbn [app map] in Hc. apply (chain_split_parent objs [] _ _ _ _ Hc). }
      cbn [repair_walk]. rewrite Hpar.
      rewrite Hpoc by (rewrite Happ; left; reflexivity).
      rewrite Nat.eqb_refl. rewrite Happ. cbn [app rev]. reflexivity.
    - destruct fuel as [|fuel]; [cbn in Hfuel; lia|].
      rewrite app_length in Hfuel. cbn [length] in Hfuel.
      assert (Happ' : s_applied s = pre ++ m :: n :: suf).
      { rewrite Happ, <- app_assoc. reflexivity. }
      assert (Hpar : parents_of objs (patch_oid s n) = [patch_oid s m]).
      { pose proof Hchain as Hc. unfold applied_oids in Hc. rewrite Happ in Hc.
        rewrite map_app in Hc. cbn [map] in Hc.
        rewrite (chain_split_parent _ _ _ _ _ _ Hc). rewrite map_app. cbn [map].
        rewrite last_last. reflexivity. }
      assert (Hm : In m (s_applied s)).
      { rewrite Happ'. apply in_or_app. right. left. reflexivity. }
      cbn [repair_walk]. rewrite Hpar.
      rewrite Hpoc by (rewrite Happ; apply in_or_app; right; left; reflexivity).
      destruct (Nat.eqb base (patch_oid s m)) eqn:E.
      + apply Nat.eqb_eq in E. exfalso. apply (Hbase m Hm). congruence.
      + cbn [app]. change (rev suf ++ [n]) with (rev (n :: suf)).
        apply (IH m (n :: suf) fuel Happ'). lia.
  Qed.
End WalkChain2.

Lemma walk_on_chain2 :
  forall objs s base fuel,
    chain objs base (applied_oids s) (s_top s) ->
    (forall n, In n (s_applied s) -> pm_get (s_patches s) n <> None) ->
    (forall n, In n (s_applied s) -> patch_of_commit s (patch_oid s n) = Some n) ->
    (forall n, In n (s_applied s) -> patch_oid s n <> base) ->
    length (s_applied s) < fuel ->
    s_applied s <> [] ->
    repair_walk fuel objs s base (s_top s) [] [] [] = (rev (s_applied s), [], base).
Proof.
  intros objs s base fuel Hchain Hpatch Hpoc Hbase Hfuel Hne.
  destruct (exists_last Hne) as [pre [n Happ]].
  assert (Htop : s_top s = patch_oid s n).
  { unfold s_top, last_error, patch_oid. rewrite Happ, rev_unit. cbn [hd_error].
    destruct (pm_get (s_patches s) n) eqn:E; [reflexivity|].
    exfalso. apply (Hpatch n); [|exact E]. rewrite Happ. apply in_or_app. right. left. reflexivity. }
  rewrite Htop. change (@nil name) with (rev (@nil name)) at 1.
  apply (walk_chain_gen2 objs s base Hchain Hpoc Hbase pre n [] fuel Happ).
  rewrite Happ, app_length in Hfuel. cbn [length] in Hfuel. lia.
Qed.

(* ---------------------------------------------------------------- the walk below a patchless head *)

Section WalkNoPatch.
  Variables (objs : store) (s : sstate) (base : oid).
  Hypothesis Hacyc : plain_parents_older objs.
  Hypothesis Hclosed : plain_closed objs.

  Definition nopatch_below (c : oid) : Prop :=
    forall x, walked objs c x -> patch_of_commit s x = None.

  Lemma nopatch_step : forall c p, nopatch_below c -> parents_of objs c = [p] ->
      patch_of_commit s c = None /\ nopatch_below p.
  Proof.
    intros c p H Hp. split.
    - apply H. eapply walked_here. exact Hp.
    - intros x Hx. apply H. eapply walked_down; [exact Hp|exact Hx].
  Qed.

  Lemma walk_nopatch : forall fuel c maybe,
      is_plain objs c -> c <= base -> nopatch_below c ->
      exists stop, repair_walk fuel objs s base c [] [] maybe = ([], [], stop).
  Proof.
    induction fuel as [|fuel IH]; intros c maybe Hpl Hle Hno; cbn [repair_walk].
    - exists c. reflexivity.
    - destruct (parents_of objs c) as [|p [|q r]] eqn:Hp; try (exists c; reflexivity).
      destruct (nopatch_step c p Hno Hp) as [Hc Hnp]. rewrite Hc.
      pose proof (Hacyc c p Hpl Hp) as Hlt.
      destruct (Nat.eqb base p) eqn:E; [apply Nat.eqb_eq in E; lia|].
      apply IH; [|lia|exact Hnp].
      apply (Hclosed c p Hpl). rewrite Hp. left. reflexivity.
  Qed.

  Lemma base_nopatch : forall fuel c nb mb,
      is_plain objs c -> c <= base -> nopatch_below c ->
      repair_base fuel objs s base c nb mb = nb.
  Proof.
    induction fuel as [|fuel IH]; intros c nb mb Hpl Hle Hno; cbn [repair_base]; [reflexivity|].
    destruct (parents_of objs c) as [|p [|q r]] eqn:Hp; try reflexivity.
    destruct (nopatch_step c p Hno Hp) as [Hc Hnp]. rewrite Hc.
    pose proof (Hacyc c p Hpl Hp) as Hlt.
    destruct (Nat.eqb base p) eqn:E; [apply Nat.eqb_eq in E; lia|].
    apply IH; [|lia|exact Hnp].
    apply (Hclosed c p Hpl). rewrite Hp. left. reflexivity.
  Qed.
End WalkNoPatch.

(* ---------------------------------------------------------------- execute, nothing updated *)

Lemma execute_plain_ok : forall w t msg w',
  execute w (TOk t) msg = (w', X0) ->
  t_updated t = [] -> t_head t = None ->
  s_head (t_stack t) = w_branch w ->
  o_set_head (t_opts t) = true -> o_use_iw (t_opts t) = false ->
  exists th prev so,
    t_top t = Some th /\ w_stack w = Some prev
    /\ state_commit (t_objs t)
         (mkState (Some prev) th (t_applied t) (t_unapplied t) (t_hidden t)
                  (s_patches (t_stack t))) msg = Some (w_objs w', so)
    /\ w_stack w' = Some so /\ w_branch w' = th /\ w_prefs w' = w_prefs w
    /\ w_wt w' = t_wt t /\ w_unmerged w' = t_wt_unmerged t.
Proof.
  intros w t msg w' H Hu Hh Hs Hsh Hiw. cbn [execute] in H.
  rewrite Hu in H. cbn [forallb negb] in H.
  unfold t_head_oid in H. rewrite Hh in H.
  destruct (t_top t) as [th|]; [|discriminate].
  rewrite Hs, Nat.eqb_refl in H. rewrite Hsh, Hiw in H. cbn [andb] in H.
  cbn [w_stack w_wt w_unmerged w_objs w_branch w_prefs w_base w_apc] in H.
  destruct (w_stack w) as [prev|]; [|discriminate].
  cbn [pm_apply fold_right] in H.
  destruct (state_commit _ _ _) as [[objs' so]|] eqn:C; [|discriminate].
  injection H as Hw'. subst w'. cbn [w_stack w_wt w_unmerged w_objs w_branch w_prefs].
  exists th, prev, so. repeat split; try reflexivity. exact C.
Qed.

(* ---------------------------------------------------------------- the transaction of repair *)

Definition repair_body (lower_s : str -> str) (applied unapplied hidden : list name)
           (new_base : oid) (patchify : list oid) : txn -> tres :=
  fun t =>
    tbind (repair_appliedness applied unapplied hidden t)
      (fun t0 =>
         let t1 := set_base t0 (Some new_base) in
         fold_left
           (fun r c =>
              tbind r (fun t =>
                match make lower_s (subj_of (t_objs t) c) true (Some 30%N) with
                | Ok nm =>
                    match uniquify nm [] (t_all t) with
                    | UOk pn => new_applied pn c t
                    | UFuel => TPanic
                    end
                | _ => TPanic
                end))
           patchify (TOk t1)).

Lemma run_repair_unfold : forall lower_s w op,
    open_stack PRequire w = Some op ->
    run_repair lower_s w =
    (let w1 := op_world op in
     let s := op_state op in
     let '(applied_rev, patchify_rev, _) :=
       repair_walk (S (length (w_objs w1))) (w_objs w1) s (op_base op) (w_branch w1) [] [] [] in
     let new_base :=
       repair_base (S (length (w_objs w1))) (w_objs w1) s (op_base op) (w_branch w1) (w_branch w1) false in
     let applied := rev applied_rev in
     let notin := fun n => negb (mem n applied) in
     transact op (opts CDisallow (w_apc (op_world op)) false false true false)
       (repair_body lower_s applied
          (filter notin (s_applied s) ++ filter notin (s_unapplied s))
          (filter notin (s_hidden s)) new_base (rev patchify_rev)) MOp).
Proof.
  intros lower_s w op Hop. unfold run_repair. rewrite Hop. reflexivity.
Qed.

(* the transaction when the walk found exactly the applied patches and nothing to patchify *)
Lemma repair_noop_txn : forall lower_s op nb w1,
    op_initialized op = true ->
    NoDup (all_of (op_state op)) ->
    s_head (op_state op) = w_branch (op_world op) ->
    s_top (op_state op) = s_head (op_state op) ->
    (forall n, In n (s_applied (op_state op)) -> pm_get (s_patches (op_state op)) n <> None) ->
    (s_applied (op_state op) = [] -> nb = w_branch (op_world op)) ->
    transact op (opts CDisallow (w_apc (op_world op)) false false true false)
      (repair_body lower_s (s_applied (op_state op))
         (filter (fun n => negb (mem n (s_applied (op_state op)))) (s_applied (op_state op))
          ++ filter (fun n => negb (mem n (s_applied (op_state op)))) (s_unapplied (op_state op)))
         (filter (fun n => negb (mem n (s_applied (op_state op)))) (s_hidden (op_state op)))
         nb []) MOp = (w1, X0) ->
    (exists st1, cur_state w1 = Some st1 /\ same_stack st1 (op_state op))
    /\ w_branch w1 = w_branch (op_world op) /\ w_wt w1 = w_wt (op_world op)
    /\ w_unmerged w1 = w_unmerged (op_world op)
    /\ w_prefs w1 = w_prefs (op_world op).
Proof.
  intros lower_s op nb w1 Hinit Hnd Hhead Htop Hpatch Hnb H.
  set (s := op_state op) in *.
  assert (Fa : filter (fun n => negb (mem n (s_applied s))) (s_applied s) = []).
  { apply filter_none. intros x Hx. apply mem_In in Hx. rewrite Hx. reflexivity. }
  assert (Fu : filter (fun n => negb (mem n (s_applied s))) (s_unapplied s) = s_unapplied s).
  { apply filter_all. intros x Hx. apply negb_true_iff. apply mem_false.
    apply (nodup_app_disj _ (s_applied s) (s_unapplied s ++ s_hidden s) x Hnd).
    apply in_or_app. left. exact Hx. }
  assert (Fh : filter (fun n => negb (mem n (s_applied s))) (s_hidden s) = s_hidden s).
  { apply filter_all. intros x Hx. apply negb_true_iff. apply mem_false.
    apply (nodup_app_disj _ (s_applied s) (s_unapplied s ++ s_hidden s) x Hnd).
    apply in_or_app. right. exact Hx. }
  rewrite Fa, Fu, Fh in H. cbn [app] in H.
  unfold transact in H. rewrite Hinit in H. cbn [negb] in H.
  unfold repair_body in H. unfold repair_appliedness in H.
  destruct (is_perm_of _ _); [|cbn [tbind execute] in H; discriminate].
  cbn [tbind fold_left] in H.
  apply execute_plain_ok in H; try reflexivity.
  2:{ cbn. exact Hhead. }
  destruct H as (th & prev & so & Hth & Hprev & Hsc & Hst & Hbr & Hpr & Hwt & Hum).
  cbn in Hwt, Hum.
  assert (Eth : th = s_head s).
  { unfold t_top in Hth. cbn [set_base set_lists begin_txn t_applied t_base t_stack_base t_updated
                              t_stack] in Hth.
    fold s in Hth. rewrite <- Htop. unfold s_top, last_error.
    destruct (hd_error (rev (s_applied s))) as [n|] eqn:El.
    - unfold t_patch in Hth. cbn [set_base set_lists begin_txn t_updated t_stack up_get] in Hth.
      fold s in Hth. rewrite Hth. reflexivity.
    - unfold t_base_oid in Hth. cbn [set_base set_lists begin_txn t_base] in Hth.
      injection Hth as <-. rewrite Hhead. apply Hnb.
      destruct (s_applied s) as [|a l] eqn:Ea; [reflexivity|].
      exfalso. destruct (rev (a :: l)) eqn:Er; [|discriminate].
      apply (f_equal (@length name)) in Er. rewrite rev_length in Er. discriminate. }
  cbn in Hsc. fold s in Hsc.
  destruct (UndoStepProofs.state_commit_get _ _ _ _ _ Hsc) as [_ [_ [c [G [C _]]]]].
  split.
  - eexists. split.
    + unfold cur_state. rewrite Hst. unfold state_of. rewrite G. exact C.
    + unfold same_stack. cbn. repeat split; try reflexivity. exact Eth.
  - split; [rewrite Hbr, Eth; exact Hhead|]. split; [exact Hwt|]. split; [exact Hum|exact Hpr].
Qed.

(* ---------------------------------------------------------------- repair on a consistent stack *)

Lemma consistent_walk : forall w so st b,
    plain_closed (w_objs w) -> plain_parents_older (w_objs w) ->
    is_plain (w_objs w) (w_branch w) ->
    wf_state (w_objs w) st -> chain_ok (w_objs w) st ->
    state_of (w_objs w) so = Some st ->
    w_branch w = s_head st -> s_top st = s_head st ->
    (s_applied st = [] -> nopatch_below (w_objs w) st (w_branch w)) ->
    stack_base (w_objs w) (w_branch w) st = Some b ->
    (exists stop,
        repair_walk (S (length (w_objs w))) (w_objs w) st b (w_branch w) [] [] []
        = (rev (s_applied st), [], stop))
    /\ (s_applied st = [] ->
        repair_base (S (length (w_objs w))) (w_objs w) st b (w_branch w) (w_branch w) false
        = w_branch w).
Proof.
  intros w so st b Hclosed Hacyc Hbpl Hwf Hch Hst Hbr Htop Hno Hb.
  destruct Hwf as [[Hnd _] [_ [Hin [Hpc _]]]].
  destruct (s_applied st) as [|a0 l0] eqn:Ea.
  - (* nothing applied: no patch below the head *)
    unfold stack_base in Hb. rewrite Ea in Hb. injection Hb as <-.
    assert (Hnp : nopatch_below (w_objs w) st (w_branch w)) by (apply Hno; reflexivity).
    split.
    + cbn [rev]. apply (walk_nopatch (w_objs w) st (w_branch w) Hacyc Hclosed);
        [exact Hbpl|lia|exact Hnp].
    + intros _. apply (base_nopatch (w_objs w) st (w_branch w) Hacyc Hclosed);
        [exact Hbpl|lia|exact Hnp].
  - split; [|discriminate]. rewrite <- Ea.
    assert (Hne : s_applied st <> []) by (rewrite Ea; discriminate).
    assert (Hpatch : forall n, In n (s_applied st) -> pm_get (s_patches st) n <> None).
    { intros n Hn. apply Hin. unfold all_of. apply in_or_app. left. exact Hn. }
    assert (Hpl : forall o, In o (applied_oids st) -> is_plain (w_objs w) o).
    { intros o Ho. unfold applied_oids in Ho. apply in_map_iff in Ho.
      destruct Ho as [n [<- Hn]]. unfold patch_oid.
      destruct (pm_get (s_patches st) n) as [po|] eqn:Ep; [|exfalso; exact (Hpatch n Hn Ep)].
      destruct (Hpc n po Ep) as [P _]. exact P. }
    destruct Hch as [base Hchain].
    assert (Eb : b = base).
    { unfold stack_base in Hb. rewrite Ea in Hb.
      unfold applied_oids in Hchain. rewrite Ea in Hchain. cbn [map chain] in Hchain.
      destruct Hchain as [Hp0 _]. unfold patch_oid in Hp0.
      destruct (pm_get (s_patches st) a0) as [po|] eqn:Ep; [|discriminate].
      unfold first_parent in Hb. rewrite Hp0 in Hb. cbn [hd_error] in Hb. congruence. }
    subst b.
    pose proof (chain_nodup _ Hacyc _ _ _ Hchain Hpl) as Hndo.
    pose proof (chain_older _ Hacyc _ _ _ Hchain Hpl) as Hold.
    exists base. rewrite Hbr, <- Htop.
    apply walk_on_chain2; [exact Hchain|exact Hpatch| | | |exact Hne].
    + (* the commit of an applied patch: the first name with that commit is the patch itself *)
      intros n Hn. unfold patch_of_commit, all_of. apply find_app_first.
      * exact Hn.
      * unfold patch_oid. destruct (pm_get (s_patches st) n) as [po|] eqn:Ep;
          [apply Nat.eqb_refl|exfalso; exact (Hpatch n Hn Ep)].
      * intros m Hm Hf.
        destruct (pm_get (s_patches st) m) as [po|] eqn:Ep; [|discriminate].
        apply Nat.eqb_eq in Hf. subst po.
        apply (nodup_map_inj _ _ (patch_oid st) (s_applied st) m n Hndo Hm Hn).
        unfold patch_oid at 1. rewrite Ep. reflexivity.
    + intros n Hn E.
      assert (Ho : In (patch_oid st n) (applied_oids st)) by (unfold applied_oids; apply in_map; exact Hn).
      specialize (Hold _ Ho). lia.
    + assert (Hlen : length (applied_oids st) <= length (w_objs w)).
      { apply nodup_lt_length; [exact Hndo|]. intros x Hx.
        destruct (Hpl x Hx) as [c [G _]]. eapply get_lt. exact G. }
      unfold applied_oids in Hlen. rewrite map_length in Hlen. lia.
Qed.

(* what repair needs of the stack to be a no-op: the branch sits on the recorded head, which is
   the top, and when nothing is applied no commit the walk visits is a patch *)
Definition repair_settled (w : world) (st : sstate) : Prop :=
  w_branch w = s_head st /\ s_top st = s_head st
  /\ (s_applied st = [] -> nopatch_below (w_objs w) st (w_branch w)).

Lemma consistent_settled : forall w st, repair_consistent w st -> repair_settled w st.
Proof.
  intros w st [Hbr [Htop Hno]]. split; [exact Hbr|]. split; [exact Htop|].
  intros Ea x Hx. unfold patch_of_commit. apply find_none_intro. intros n Hn.
  destruct (pm_get (s_patches st) n) as [po|] eqn:Ep; [|reflexivity].
  destruct (Nat.eqb po x) eqn:E; [|reflexivity]. apply Nat.eqb_eq in E. subst po.
  exfalso. apply (Hno n x); [|exact Ep|exact Hx].
  unfold all_of in Hn. rewrite Ea in Hn. exact Hn.
Qed.

Lemma repair_settled_noop :
  forall lower_s w st w1,
    Inv6 w -> plain_parents_older (w_objs w) ->
    cur_state w = Some st ->
    repair_settled w st ->
    run_repair lower_s w = (w1, X0) ->
    (exists st1, cur_state w1 = Some st1 /\ same_stack st1 st)
    /\ w_branch w1 = w_branch w /\ w_wt w1 = w_wt w /\ w_unmerged w1 = w_unmerged w
    /\ (forall n, pm_get (w_prefs w1) n = pm_get (s_patches st) n).
Proof.
  intros lower_s w st w1 I6 Hacyc Hcur Hcons H.
  destruct I6 as [[I Hch] _]. destruct I as [Hclosed [Hwf [Hbpl _]]].
  unfold cur_state in Hcur. destruct (w_stack w) as [so|] eqn:Es; [|discriminate].
  specialize (Hwf so st Hcur). specialize (Hch so st Hcur).
  destruct (open_stack PRequire w) as [op|] eqn:Hop.
  2:{ unfold run_repair in H. rewrite Hop in H. discriminate. }
  rewrite (run_repair_unfold _ _ _ Hop) in H.
  unfold open_stack in Hop. rewrite Es, Hcur in Hop.
  destruct (stack_base (w_objs w) (w_branch w) st) as [b|] eqn:Hb; [|discriminate].
  injection Hop as <-.
  destruct Hcons as [Hbr [Htop Hno]].
  destruct (consistent_walk w so st b Hclosed Hacyc Hbpl Hwf Hch Hcur Hbr Htop Hno Hb)
    as [[stop Hwalk] Hnb].
  cbv zeta in H.
  cbn [op_world op_state op_base ensure_patch_refs w_objs w_branch w_apc] in H.
  rewrite Hwalk in H. rewrite rev_involutive in H. cbn [rev] in H.
  destruct Hwf as [[Hnd _] [_ [Hin _]]].
  apply (repair_noop_txn lower_s (mkOpened (ensure_patch_refs w st) st b true) _ w1) in H.
  - cbn [op_world op_state ensure_patch_refs w_branch w_wt w_unmerged w_prefs] in H.
    destruct H as [H1 [H2 [H3 [H4 H5]]]].
    split; [exact H1|]. split; [exact H2|]. split; [exact H3|]. split; [exact H4|].
    intros n. rewrite H5. reflexivity.
  - reflexivity.
  - exact Hnd.
  - cbn [op_world op_state ensure_patch_refs w_branch]. symmetry. exact Hbr.
  - exact Htop.
  - cbn [op_state]. intros n Hn. apply Hin. unfold all_of. apply in_or_app. left. exact Hn.
  - cbn [op_world op_state ensure_patch_refs w_branch]. exact Hnb.
Qed.

(* the pinned statement, under the extra hypothesis plain_parents_older *)
Lemma repair_consistent_noop_partial :
  forall lower_s w st w1,
    Inv6 w -> prev_decreasing (w_objs w) ->
    plain_parents_older (w_objs w) ->
    cur_state w = Some st ->
    repair_consistent w st ->
    run_repair lower_s w = (w1, X0) ->
    (exists st1, cur_state w1 = Some st1 /\ same_stack st1 st)
    /\ w_branch w1 = w_branch w /\ w_wt w1 = w_wt w /\ w_unmerged w1 = w_unmerged w
    /\ (forall n, pm_get (w_prefs w1) n = pm_get (s_patches st) n).
Proof.
  intros lower_s w st w1 I6 _ Hacyc Hcur Hcons H.
  eapply repair_settled_noop; [exact I6|exact Hacyc|exact Hcur| |exact H].
  apply consistent_settled. exact Hcons.
Qed.

(* ---------------------------------------------------------------- the pinned statement is false *)

(* object 0 is a plain commit that is its own parent; object 1 records the empty stack on it *)
Definition cx_c0 : commit := plain [0] [] 0%N [].
Definition cx_st : sstate := empty_state 0.
Definition cx_c1 : commit := mkCommit [0] [] 0%N [] (Some cx_st) MOp.
Definition cx_w : world := mkWorld [cx_c0; cx_c1] 0 (Some 1) [] [] false 0 true.

Lemma cx_state_of : forall so s, state_of (w_objs cx_w) so = Some s -> so = 1 /\ s = cx_st.
Proof.
  intros so s H. destruct so as [|[|so]].
  - cbn in H. discriminate.
  - cbn in H. injection H as <-. split; reflexivity.
  - exfalso. unfold state_of, get in H. cbn [w_objs cx_w nth_error] in H.
    destruct so; discriminate.
Qed.

Lemma cx_plain0 : is_plain (w_objs cx_w) 0.
Proof. exists cx_c0. split; [reflexivity|]. split; [reflexivity|discriminate]. Qed.

Lemma cx_plain_inv : forall o, is_plain (w_objs cx_w) o -> o = 0.
Proof.
  intros o [c [G [S _]]]. destruct o as [|[|o]]; [reflexivity| |].
  - cbn in G. injection G as <-. discriminate.
  - exfalso. unfold get in G. cbn [w_objs cx_w nth_error] in G. destruct o; discriminate.
Qed.

Lemma cx_inv6 : Inv6 cx_w /\ prev_decreasing (w_objs cx_w).
Proof.
  split; [split; [split; [split; [|split; [|split]]|]|]|].
  - intros o p Ho Hp. apply cx_plain_inv in Ho. subst o. cbn in Hp.
    destruct Hp as [<-|[]]. exact cx_plain0.
  - intros so s Hs. apply cx_state_of in Hs. destruct Hs as [_ ->].
    split; [split; [constructor|split; [constructor|intros a b []]]|].
    split; [constructor|]. split.
    + intros n. split; [intros []|]. intros Hn. exfalso. apply Hn. reflexivity.
    + split; [intros n o Hn; discriminate|exact cx_plain0].
  - exact cx_plain0.
  - exists cx_st. reflexivity.
  - intros so s Hs. apply cx_state_of in Hs. destruct Hs as [_ ->]. exists 0. reflexivity.
  - cbn [w_stack cx_w]. intros so s _ Hs. apply cx_state_of in Hs. destruct Hs as [-> ->].
    split; [intros n o Hn; discriminate|]. split; [|apply reach_refl].
    eapply reach_step; [|apply reach_refl]. cbn. left. reflexivity.
  - intros so s p Hs Hp. apply cx_state_of in Hs. destruct Hs as [_ ->]. discriminate.
Qed.

Lemma cx_consistent : cur_state cx_w = Some cx_st /\ repair_consistent cx_w cx_st.
Proof.
  split; [reflexivity|]. split; [reflexivity|]. split; [reflexivity|]. intros n o [].
Qed.

(* ... and repair turns commit 0 into an applied patch "patch" *)
Lemma cx_repair :
  snd (run_repair (fun s => s) cx_w) = X0
  /\ option_map s_applied (cur_state (fst (run_repair (fun s => s) cx_w)))
     = Some [[112; 97; 116; 99; 104]%N].
Proof. vm_compute. split; reflexivity. Qed.

Theorem repair_consistent_noop_refuted :
  ~ (forall lower_s w st w1,
        Inv6 w -> prev_decreasing (w_objs w) ->
        cur_state w = Some st ->
        repair_consistent w st ->
        run_repair lower_s w = (w1, X0) ->
        (exists st1, cur_state w1 = Some st1 /\ same_stack st1 st)
        /\ w_branch w1 = w_branch w /\ w_wt w1 = w_wt w /\ w_unmerged w1 = w_unmerged w
        /\ (forall n, pm_get (w_prefs w1) n = pm_get (s_patches st) n)).
Proof.
  intros Hall.
  destruct cx_inv6 as [I6 PD]. destruct cx_consistent as [Hc Hr]. destruct cx_repair as [Hx Ha].
  destruct (run_repair (fun s => s) cx_w) as [w1 x] eqn:E. cbn [fst snd] in Hx, Ha. subst x.
  destruct (Hall (fun s => s) cx_w cx_st w1 I6 PD Hc Hr E) as [[st1 [Hc1 [Happ _]]] _].
  rewrite Hc1 in Ha. cbn [option_map] in Ha. rewrite Happ in Ha. discriminate.
Qed.

(* ---------------------------------------------------------------- non-vacuity *)

Definition nv_p0 : str := [112; 48]%N.
Definition nv_p1 : str := [112; 49]%N.
Definition nv_p2 : str := [112; 50]%N.
Definition rn_w : world :=
  run (fun s => s) (init_world [1; 1; 0]%N)
      [CInit; CNew nv_p0 1%N [120]%N; CNew nv_p1 2%N [121]%N; CNew nv_p2 3%N [122]%N;
       CPop None None false false false].

Example repair_noop_nonvacuous : exists w st w1,
    cur_state w = Some st /\ w_branch w = s_head st /\ s_top st = s_head st
    /\ length (s_applied st) = 2 /\ length (s_unapplied st) = 1
    /\ run_repair (fun s => s) w = (w1, X0).
Proof.
  exists rn_w.
  destruct (cur_state rn_w) as [st|] eqn:Ec; [|vm_compute in Ec; discriminate].
  exists st, (fst (run_repair (fun s => s) rn_w)).
  vm_compute in Ec. injection Ec as <-.
  split; [reflexivity|]. split; [vm_compute; reflexivity|]. split; [vm_compute; reflexivity|].
  split; [reflexivity|]. split; [reflexivity|].
  vm_compute. reflexivity.
Qed.
