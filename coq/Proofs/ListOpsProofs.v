(* C07, list part: pop_patches, delete_patches, push_patches, reorder_patches on the
   applied / unapplied / hidden lists; and a small-step decomposition of push_patch. *)
From Coq Require Import List NArith Bool Arith Lia.
From StgV Require Import Model.StackSpec Proofs.CharsProofs Proofs.MergeProofs.
Import ListNotations.

(* ---------------------------------------------------------------- record updaters *)

Ltac tsimp :=
  cbn [set_lists set_updated set_head set_base set_objs set_tmp set_wt set_conflict_mode
       t_stack t_stack_base t_branch_head t_opts t_applied t_unapplied t_hidden t_updated
       t_head t_base t_cur_tree t_objs t_tmp_id t_tmp_content t_wt t_wt_unmerged].

Tactic Notation "tsimp" "in" hyp(H) :=
  cbn [set_lists set_updated set_head set_base set_objs set_tmp set_wt set_conflict_mode
       t_stack t_stack_base t_branch_head t_opts t_applied t_unapplied t_hidden t_updated
       t_head t_base t_cur_tree t_objs t_tmp_id t_tmp_content t_wt t_wt_unmerged] in H.

(* ---------------------------------------------------------------- names, membership *)

Lemma name_eqb_eq : forall a b, name_eqb a b = true <-> a = b.
Proof. intros a b. unfold name_eqb. apply str_eqb_eq. Qed.

Lemma name_eqb_refl : forall a, name_eqb a a = true.
Proof. intro a. apply name_eqb_eq. reflexivity. Qed.

Lemma name_eqb_neq : forall a b, name_eqb a b = false <-> a <> b.
Proof.
  intros a b. split.
  - intros H He. apply name_eqb_eq in He. congruence.
  - intro H. destruct (name_eqb a b) eqn:E; [|reflexivity].
    apply name_eqb_eq in E. contradiction.
Qed.

Lemma mem_In : forall n l, mem n l = true <-> In n l.
Proof.
  intros n l. unfold mem. rewrite existsb_exists. split.
  - intros [x [Hin He]]. apply name_eqb_eq in He. subst. exact Hin.
  - intro Hin. exists n. split; [exact Hin|apply name_eqb_refl].
Qed.

Lemma mem_false : forall n l, mem n l = false <-> ~ In n l.
Proof.
  intros n l. split.
  - intros H Hin. apply mem_In in Hin. congruence.
  - intro H. destruct (mem n l) eqn:E; [|reflexivity]. apply mem_In in E. contradiction.
Qed.

Lemma list_name_eqb_eq : forall a b, list_name_eqb a b = true -> a = b.
Proof.
  induction a as [|x a IH]; intros [|y b] H; cbn [list_name_eqb] in H;
    try reflexivity; try discriminate.
  apply andb_true_iff in H. destruct H as [Hx Hr].
  apply name_eqb_eq in Hx. apply IH in Hr. subst. reflexivity.
Qed.

(* ---------------------------------------------------------------- filters *)

Lemma filter_false_id : forall (f : name -> bool) l,
    Forall (fun n => f n = false) l -> filter (fun n => negb (f n)) l = l.
Proof.
  intros f l H. induction H as [|x l Hx Hl IH]; cbn [filter]; [reflexivity|].
  rewrite Hx. cbn [negb]. rewrite IH. reflexivity.
Qed.

Lemma filter_true_nil : forall (f : name -> bool) l,
    Forall (fun n => f n = false) l -> filter f l = [].
Proof.
  intros f l H. induction H as [|x l Hx Hl IH]; cbn [filter]; [reflexivity|].
  rewrite Hx. exact IH.
Qed.

Lemma filter_neq_notin : forall n l,
    ~ In n l -> filter (fun m => negb (name_eqb m n)) l = l.
Proof.
  intros n l H. apply filter_false_id. apply Forall_forall. intros x Hx.
  apply name_eqb_neq. intro He. subst. contradiction.
Qed.

Lemma remove_first_filter : forall n l,
    NoDup l -> remove_first n l = filter (fun m => negb (name_eqb m n)) l.
Proof.
  intros n l H. induction H as [|x l Hx Hl IH]; cbn [remove_first filter]; [reflexivity|].
  destruct (name_eqb x n) eqn:E; cbn [negb].
  - apply name_eqb_eq in E. subst. symmetry. apply filter_neq_notin. exact Hx.
  - rewrite IH. reflexivity.
Qed.

Lemma filter_filter_mem : forall n ns (l : list name),
    filter (fun m => negb (mem m ns)) (filter (fun m => negb (name_eqb m n)) l)
    = filter (fun m => negb (mem m (n :: ns))) l.
Proof.
  intros n ns l. induction l as [|x l IH]; cbn [filter]; [reflexivity|].
  unfold mem at 2. cbn [existsb]. fold (mem x ns).
  destruct (name_eqb x n) eqn:E; cbn [negb orb filter].
  - exact IH.
  - destruct (mem x ns); cbn [negb]; rewrite IH; reflexivity.
Qed.

(* ---------------------------------------------------------------- split_at_first *)

Lemma position_spec : forall f l i,
    position f l = Some i ->
    Forall (fun n => f n = false) (firstn i l).
Proof.
  intros f l. induction l as [|x l IH]; intros i H; cbn [position] in H; [discriminate|].
  destruct (f x) eqn:Hx.
  - inversion H; subst. cbn [firstn]. constructor.
  - destruct (position f l) as [j|] eqn:Hp; cbn [option_map] in H; [|discriminate].
    inversion H; subst. cbn [firstn]. constructor; [exact Hx|]. apply IH. reflexivity.
Qed.

Lemma position_none : forall f l,
    position f l = None -> Forall (fun n => f n = false) l.
Proof.
  intros f l. induction l as [|x l IH]; intro H; cbn [position] in H; [constructor|].
  destruct (f x) eqn:Hx; [discriminate|].
  destruct (position f l) as [j|] eqn:Hp; cbn [option_map] in H; [discriminate|].
  constructor; [exact Hx|]. apply IH. reflexivity.
Qed.

Lemma split_at_first_spec : forall f l keep popped,
    split_at_first f l = (keep, popped) ->
    l = keep ++ popped /\ Forall (fun n => f n = false) keep.
Proof.
  intros f l keep popped H. unfold split_at_first in H.
  destruct (position f l) as [i|] eqn:Hp; inversion H; subst.
  - split; [symmetry; apply firstn_skipn|]. eapply position_spec. exact Hp.
  - split; [symmetry; apply app_nil_r|]. apply position_none. exact Hp.
Qed.

(* ---------------------------------------------------------------- pop / delete *)

Lemma pop_lists :
  forall f t t' inc,
    pop_patches f t = (t', inc) ->
    (exists keep popped, t_applied t = keep ++ popped /\ t_applied t' = keep
        /\ Forall (fun n => f n = false) keep
        /\ t_unapplied t' = filter (fun n => negb (f n)) popped ++ filter f popped ++ t_unapplied t)
    /\ t_hidden t' = t_hidden t
    /\ t_objs t' = t_objs t /\ t_updated t' = t_updated t.
Proof.
  intros f t t' inc H. unfold pop_patches in H.
  destruct (split_at_first f (t_applied t)) as [keep popped] eqn:Hs.
  apply split_at_first_spec in Hs. destruct Hs as [Happ Hkeep].
  inversion H; subst t' inc; clear H. tsimp.
  split; [|repeat split; reflexivity].
  exists keep, popped. repeat split; try assumption; reflexivity.
Qed.

Lemma delete_lists :
  forall f t t' inc,
    delete_patches f t = (t', inc) ->
    filter (fun n => negb (f n)) (t_applied t ++ t_unapplied t) = t_applied t' ++ t_unapplied t'
    /\ t_hidden t' = filter (fun n => negb (f n)) (t_hidden t)
    /\ t_objs t' = t_objs t.
Proof.
  intros f t t' inc H. unfold delete_patches in H.
  destruct (split_at_first f (t_applied t)) as [keep popped] eqn:Hs.
  apply split_at_first_spec in Hs. destruct Hs as [Happ Hkeep].
  inversion H; subst t' inc; clear H. tsimp.
  split; [|split; reflexivity].
  rewrite Happ, !filter_app, (filter_false_id f keep Hkeep), <- app_assoc. reflexivity.
Qed.

(* ---------------------------------------------------------------- tres *)

Lemma tbind_ok : forall r f t',
    tbind r f = TOk t' -> exists t1, r = TOk t1 /\ f t1 = TOk t'.
Proof.
  intros r f t' H. destruct r as [t1|t1 h|t1|]; cbn [tbind] in H; try discriminate.
  exists t1. split; [reflexivity|exact H].
Qed.

(* ---------------------------------------------------------------- push_patch, decomposed *)

(* tree selection: four shortcuts, then the temp index, then the work tree *)
Definition push_sel (am : bool) (t : txn) (ptree otree ntree : tree)
  : (txn * tree * pstatus) + tres :=
  if am then inl (t, ntree, PSMerged)
  else if tree_eqb otree ntree then inl (t, ptree, PSNormal)
  else if tree_eqb otree ptree then inl (t, ntree, PSNormal)
  else if tree_eqb ntree ptree then inl (t, ptree, PSNormal)
  else
    let swap := match t_tmp_id t with Some c => tree_eqb c ptree | None => false end in
    let ours := if swap then ptree else ntree in
    let theirs := if swap then ntree else ptree in
    let t1 :=
      match t_tmp_id t with
      | Some c => if tree_eqb c ours then t else set_tmp t (Some ours) ours
      | None => set_tmp t (Some ours) ours
      end in
    match apply3way (t_wt t1) otree (t_tmp_content t1) theirs with
    | Some merged => inl (set_tmp t1 (Some merged) merged, merged, PSNormal)
    | None =>
        let t1 := set_tmp t1 None (t_tmp_content t1) in
        if negb (o_use_iw (t_opts t1)) then inr (THalt t1 HNoConflict)
        else if negb (o_allow_push_conflicts (t_opts t1)) then inr (THalt t1 HNoConflict)
        else
          if t_wt_unmerged t1 then inr (THalt t1 HNoConflict)
          else
            match twoway (t_cur_tree t1) ours (t_wt t1) with
            | None => inr (THalt t1 HNoConflict)
            | Some wt1 =>
                let t2 := set_wt t1 ours wt1 false in
                match merge3 otree ours theirs with
                | Some merged =>
                    match twoway ours merged wt1 with
                    | Some wt2 => inl (set_wt t2 merged wt2 false, merged, PSNormal)
                    | None => inr (THalt t2 HNoConflict)
                    end
                | None => inl (set_wt t2 ours ours true, ours, PSConflict)
                end
            end
    end.

(* the commit step: a new commit unless tree and parent are unchanged *)
Definition push_commit (n : name) (t2 : txn) (new_tree ptree : tree) (st : pstatus)
           (pc new_parent old_parent : oid) : txn :=
  let needs_commit := negb (tree_eqb new_tree ptree) || negb (Nat.eqb new_parent old_parent) in
  if needs_commit then
    let '(t', o) := recommit t2 pc new_tree new_parent in
    let t'' := match st with PSConflict => set_head t' (Some o) | _ => t' end in
    set_updated t'' (up_set (t_updated t'') n (Some o))
  else t2.

Definition push_fin (n : name) (t3 : txn) (st : pstatus) : tres :=
  let t4 := match st with PSConflict => set_conflict_mode t3 CAllow | _ => t3 end in
  let t5 := move_to_applied t4 n in
  match st with
  | PSConflict => THalt t5 HConflict
  | _ => TOk t5
  end.

Lemma push_patch_eq : forall n am t,
    push_patch n am t =
    match t_patch t n, t_top t with
    | Some pc, Some new_parent =>
        match first_parent (t_objs t) pc with
        | None => TErr t
        | Some old_parent =>
            let ptree := tree_of (t_objs t) pc in
            let otree := tree_of (t_objs t) old_parent in
            let ntree := tree_of (t_objs t) new_parent in
            match push_sel am t ptree otree ntree with
            | inr r => r
            | inl (t2, new_tree, st) =>
                push_fin n (push_commit n t2 new_tree ptree st pc new_parent old_parent) st
            end
        end
    | _, _ => TPanic
    end.
Proof. intros n am t. reflexivity. Qed.

(* what the tree selection leaves alone *)
Definition core (t : txn) :=
  (t_stack t, t_stack_base t, t_base t, t_applied t, t_unapplied t, t_hidden t,
   t_updated t, t_objs t, t_head t).

Lemma core_set_tmp : forall t a b, core (set_tmp t a b) = core t.
Proof. reflexivity. Qed.

Lemma core_set_wt : forall t a b c, core (set_wt t a b c) = core t.
Proof. reflexivity. Qed.

Lemma core_set_conflict_mode : forall t m, core (set_conflict_mode t m) = core t.
Proof. reflexivity. Qed.

(* the intermediate transaction [t1] of the temp-index path *)
Definition tmp_prep (t : txn) (ours : tree) : txn :=
  match t_tmp_id t with
  | Some c => if tree_eqb c ours then t else set_tmp t (Some ours) ours
  | None => set_tmp t (Some ours) ours
  end.

Lemma core_tmp_prep : forall t ours, core (tmp_prep t ours) = core t.
Proof.
  intros t ours. unfold tmp_prep. destruct (t_tmp_id t) as [c|]; [|reflexivity].
  destruct (tree_eqb c ours); reflexivity.
Qed.

Lemma tmp_prep_content : forall t ours,
    tmp_coherent t -> t_tmp_content (tmp_prep t ours) = ours.
Proof.
  intros t ours Hc. unfold tmp_prep. destruct (t_tmp_id t) as [c|] eqn:Hid; [|reflexivity].
  destruct (tree_eqb c ours) eqn:E; [|reflexivity].
  apply tree_eqb_eq in E. subst. apply Hc. exact Hid.
Qed.

Lemma tmp_prep_coherent : forall t ours, tmp_coherent t -> tmp_coherent (tmp_prep t ours).
Proof.
  intros t ours Hc. unfold tmp_prep. destruct (t_tmp_id t) as [c|] eqn:Hid.
  - destruct (tree_eqb c ours); [exact Hc|].
    intros c' H. tsimp in H. tsimp. congruence.
  - intros c' H. tsimp in H. tsimp. congruence.
Qed.

(* push_sel with the intermediate transaction named *)
Lemma push_sel_eq : forall am t ptree otree ntree,
    push_sel am t ptree otree ntree =
    if am then inl (t, ntree, PSMerged)
    else if tree_eqb otree ntree then inl (t, ptree, PSNormal)
    else if tree_eqb otree ptree then inl (t, ntree, PSNormal)
    else if tree_eqb ntree ptree then inl (t, ptree, PSNormal)
    else
      let swap := match t_tmp_id t with Some c => tree_eqb c ptree | None => false end in
      let ours := if swap then ptree else ntree in
      let theirs := if swap then ntree else ptree in
      let t1 := tmp_prep t ours in
      match apply3way (t_wt t1) otree (t_tmp_content t1) theirs with
      | Some merged => inl (set_tmp t1 (Some merged) merged, merged, PSNormal)
      | None =>
          let t1 := set_tmp t1 None (t_tmp_content t1) in
          if negb (o_use_iw (t_opts t1)) then inr (THalt t1 HNoConflict)
          else if negb (o_allow_push_conflicts (t_opts t1)) then inr (THalt t1 HNoConflict)
          else
            if t_wt_unmerged t1 then inr (THalt t1 HNoConflict)
            else
              match twoway (t_cur_tree t1) ours (t_wt t1) with
              | None => inr (THalt t1 HNoConflict)
              | Some wt1 =>
                  let t2 := set_wt t1 ours wt1 false in
                  match merge3 otree ours theirs with
                  | Some merged =>
                      match twoway ours merged wt1 with
                      | Some wt2 => inl (set_wt t2 merged wt2 false, merged, PSNormal)
                      | None => inr (THalt t2 HNoConflict)
                      end
                  | None => inl (set_wt t2 ours ours true, ours, PSConflict)
                  end
              end
      end.
Proof. intros. reflexivity. Qed.

(* ---------------------------------------------------------------- push_sel: frame lemmas *)

Definition tmpc (t : txn) := (t_tmp_id t, t_tmp_content t).

Lemma tmp_coherent_ext : forall t t2, tmpc t2 = tmpc t -> tmp_coherent t -> tmp_coherent t2.
Proof.
  intros t t2 He Hc. unfold tmpc in He. inversion He as [[Hid Hct]].
  intros c H. rewrite Hct. apply Hc. rewrite <- Hid. exact H.
Qed.

Lemma tmp_coherent_some : forall t c, tmp_coherent (set_tmp t (Some c) c).
Proof. intros t c c' H. tsimp in H. tsimp. congruence. Qed.

Lemma tmp_coherent_none : forall t c, tmp_coherent (set_tmp t None c).
Proof. intros t c c' H. tsimp in H. discriminate. Qed.

Lemma tmpc_set_wt : forall t a b c, tmpc (set_wt t a b c) = tmpc t.
Proof. reflexivity. Qed.

Ltac name_prep H Hc1 t1 :=
  cbv zeta in H;
  match type of H with
  | context[tmp_prep ?t ?o] =>
      pose proof (core_tmp_prep t o) as Hc1; set (t1 := tmp_prep t o) in *
  end.

Ltac break_in H :=
  match type of H with
  | context[if ?c then _ else _] => destruct c eqn:?
  | context[match ?c with _ => _ end] => destruct c eqn:?
  end.

Lemma push_sel_core : forall am t ptree otree ntree t2 nt st,
    push_sel am t ptree otree ntree = inl (t2, nt, st) -> core t2 = core t.
Proof.
  intros am t ptree otree ntree t2 nt st H. rewrite push_sel_eq in H.
  destruct am; [inversion H; reflexivity|].
  destruct (tree_eqb otree ntree); [inversion H; reflexivity|].
  destruct (tree_eqb otree ptree); [inversion H; reflexivity|].
  destruct (tree_eqb ntree ptree); [inversion H; reflexivity|].
  name_prep H Hc1 t1.
  repeat break_in H; inversion H; subst;
    rewrite ?core_set_wt, ?core_set_tmp; exact Hc1.
Qed.

Lemma push_sel_halt : forall am t ptree otree ntree r,
    push_sel am t ptree otree ntree = inr r ->
    exists t2, r = THalt t2 HNoConflict /\ core t2 = core t
               /\ (tmp_coherent t -> tmp_coherent t2).
Proof.
  intros am t ptree otree ntree r H. rewrite push_sel_eq in H.
  destruct am; [discriminate|].
  destruct (tree_eqb otree ntree); [discriminate|].
  destruct (tree_eqb otree ptree); [discriminate|].
  destruct (tree_eqb ntree ptree); [discriminate|].
  name_prep H Hc1 t1.
  repeat break_in H; inversion H; subst;
    (eexists; split; [reflexivity|]; split;
     [rewrite ?core_set_wt, ?core_set_tmp; exact Hc1
     |intros _; try (apply (tmp_coherent_ext (set_tmp t1 None (t_tmp_content t1)));
                     [reflexivity|]); apply tmp_coherent_none]).
Qed.

Lemma push_sel_coherent : forall am t ptree otree ntree t2 nt st,
    tmp_coherent t ->
    push_sel am t ptree otree ntree = inl (t2, nt, st) -> tmp_coherent t2.
Proof.
  intros am t ptree otree ntree t2 nt st Hcoh H. rewrite push_sel_eq in H.
  destruct am; [inversion H; subst; exact Hcoh|].
  destruct (tree_eqb otree ntree); [inversion H; subst; exact Hcoh|].
  destruct (tree_eqb otree ptree); [inversion H; subst; exact Hcoh|].
  destruct (tree_eqb ntree ptree); [inversion H; subst; exact Hcoh|].
  name_prep H Hc1 t1.
  repeat break_in H; inversion H; subst;
    try apply tmp_coherent_some;
    (apply (tmp_coherent_ext (set_tmp t1 None (t_tmp_content t1)));
     [reflexivity|apply tmp_coherent_none]).
Qed.

(* the selected tree is the three-way merge (no conflict, not "already merged") *)
Lemma push_sel_merge : forall t ptree otree ntree t2 nt st,
    tmp_coherent t -> same_len otree ntree ptree ->
    push_sel false t ptree otree ntree = inl (t2, nt, st) ->
    st <> PSConflict ->
    merge3 otree ntree ptree = Some nt.
Proof.
  intros t ptree otree ntree t2 nt st Hcoh Hlen H Hst. rewrite push_sel_eq in H.
  destruct (shortcuts_sound otree ntree ptree Hlen) as [S1 [S2 S3]].
  destruct (tree_eqb otree ntree) eqn:E1.
  { inversion H; subst. apply S1. apply tree_eqb_eq. exact E1. }
  destruct (tree_eqb otree ptree) eqn:E2.
  { inversion H; subst. apply S2. apply tree_eqb_eq. exact E2. }
  destruct (tree_eqb ntree ptree) eqn:E3.
  { inversion H; subst. apply S3. apply tree_eqb_eq. exact E3. }
  cbv zeta in H.
  set (swap := match t_tmp_id t with Some c => tree_eqb c ptree | None => false end) in H.
  assert (Hswap : forall ours theirs,
             ours = (if swap then ptree else ntree) ->
             theirs = (if swap then ntree else ptree) ->
             merge3 otree ours theirs = merge3 otree ntree ptree).
  { intros ours theirs -> ->. destruct swap; [apply merge_sym|reflexivity]. }
  rewrite (tmp_prep_content t _ Hcoh) in H.
  set (ours := if swap then ptree else ntree) in *.
  set (theirs := if swap then ntree else ptree) in *.
  specialize (Hswap ours theirs eq_refl eq_refl).
  set (t1 := tmp_prep t ours) in *.
  destruct (apply3way _ otree ours theirs) as [merged|] eqn:Ha.
  { inversion H; subst. rewrite <- Hswap. apply (apply_is_merge _ _ _ _ _ Ha). }
  repeat break_in H; inversion H; subst; try congruence.
Qed.

(* ---------------------------------------------------------------- the commit step *)

Definition frame (t : txn) :=
  (t_stack t, t_stack_base t, t_base t, t_applied t, t_unapplied t, t_hidden t,
   t_tmp_id t, t_tmp_content t).

Lemma push_commit_frame : forall n t2 nt ptree st pc np op,
    frame (push_commit n t2 nt ptree st pc np op) = frame t2.
Proof.
  intros. unfold push_commit.
  destruct (negb (tree_eqb nt ptree) || negb (Nat.eqb np op)); [|reflexivity].
  unfold recommit, put. destruct st; reflexivity.
Qed.

Lemma frame_core_lists : forall t t2 t3,
    core t2 = core t -> frame t3 = frame t2 ->
    t_applied t3 = t_applied t /\ t_unapplied t3 = t_unapplied t /\ t_hidden t3 = t_hidden t.
Proof.
  intros t t2 t3 Hc Hf. unfold core in Hc. unfold frame in Hf.
  inversion Hc. inversion Hf. repeat split; congruence.
Qed.

Lemma move_to_applied_set_lists : forall t n,
    exists a u h, move_to_applied t n = set_lists t a u h.
Proof.
  intros t n. unfold move_to_applied.
  destruct (mem n (t_unapplied t)); [|destruct (mem n (t_hidden t))];
    do 3 eexists; reflexivity.
Qed.

Lemma push_fin_ok : forall n t3 st t',
    push_fin n t3 st = TOk t' -> st <> PSConflict /\ t' = move_to_applied t3 n.
Proof.
  intros n t3 st t' H. unfold push_fin in H.
  destruct st; inversion H; split; try reflexivity; discriminate.
Qed.

Lemma push_fin_halt : forall n t3 st t' h,
    push_fin n t3 st = THalt t' h ->
    st = PSConflict /\ t' = move_to_applied (set_conflict_mode t3 CAllow) n.
Proof.
  intros n t3 st t' h H. unfold push_fin in H.
  destruct st; inversion H; split; reflexivity.
Qed.

(* inversion of a successful push_patch *)
Lemma push_patch_ok : forall n am t t',
    push_patch n am t = TOk t' ->
    exists pc np op t2 nt st,
      t_patch t n = Some pc /\ t_top t = Some np /\ first_parent (t_objs t) pc = Some op
      /\ push_sel am t (tree_of (t_objs t) pc) (tree_of (t_objs t) op) (tree_of (t_objs t) np)
         = inl (t2, nt, st)
      /\ st <> PSConflict
      /\ t' = move_to_applied (push_commit n t2 nt (tree_of (t_objs t) pc) st pc np op) n.
Proof.
  intros n am t t' H. rewrite push_patch_eq in H.
  destruct (t_patch t n) as [pc|] eqn:Hpc; [|discriminate].
  destruct (t_top t) as [np|] eqn:Hnp; [|discriminate].
  destruct (first_parent (t_objs t) pc) as [op|] eqn:Hop; [|discriminate].
  cbv zeta in H.
  destruct (push_sel am t (tree_of (t_objs t) pc) (tree_of (t_objs t) op)
                     (tree_of (t_objs t) np)) as [[[t2 nt] st]|r] eqn:Hsel.
  - apply push_fin_ok in H. destruct H as [Hst Ht'].
    exists pc, np, op, t2, nt, st.
    exact (conj eq_refl (conj eq_refl (conj Hop (conj Hsel (conj Hst Ht'))))).
  - apply push_sel_halt in Hsel. destruct Hsel as [t2 [Hr _]]. subst r. discriminate.
Qed.

(* ---------------------------------------------------------------- push: the lists *)

Definition lists (t : txn) := (t_applied t, t_unapplied t, t_hidden t).

Lemma move_to_applied_ext : forall t s n,
    lists t = lists s -> lists (move_to_applied t n) = lists (move_to_applied s n).
Proof.
  intros t s n H. unfold lists in H. inversion H as [[Ha Hu Hh]].
  unfold move_to_applied. rewrite Ha, Hu, Hh.
  destruct (mem n (t_unapplied s)); [|destruct (mem n (t_hidden s))]; reflexivity.
Qed.

Lemma push_patch_lists : forall n am t t',
    push_patch n am t = TOk t' -> lists t' = lists (move_to_applied t n).
Proof.
  intros n am t t' H. apply push_patch_ok in H.
  destruct H as [pc [np [op [t2 [nt [st [_ [_ [_ [Hsel [_ Ht']]]]]]]]]]]. subst t'.
  apply move_to_applied_ext.
  apply push_sel_core in Hsel.
  destruct (frame_core_lists t t2 _ Hsel
              (push_commit_frame n t2 nt (tree_of (t_objs t) pc) st pc np op))
    as [Ha [Hu Hh]].
  unfold lists. rewrite Ha, Hu, Hh. reflexivity.
Qed.

Lemma NoDup_app_inv : forall (l l' : list name),
    NoDup (l ++ l') -> NoDup l /\ NoDup l' /\ (forall x, In x l -> ~ In x l').
Proof.
  induction l as [|a l IH]; intros l' H; cbn [app] in H.
  - repeat split; [constructor|exact H|intros x []].
  - inversion H as [|? ? Hna Hnd]; subst. destruct (IH l' Hnd) as [H1 [H2 H3]].
    repeat split.
    + constructor; [|exact H1]. intro Hin. apply Hna. apply in_or_app. left. exact Hin.
    + exact H2.
    + intros x [Hx|Hx] Hin'.
      * subst. apply Hna. apply in_or_app. right. exact Hin'.
      * exact (H3 x Hx Hin').
Qed.

Lemma move_to_applied_lists : forall t n,
    NoDup (t_unapplied t ++ t_hidden t) -> In n (t_unapplied t ++ t_hidden t) ->
    lists (move_to_applied t n)
    = (t_applied t ++ [n],
       filter (fun m => negb (name_eqb m n)) (t_unapplied t),
       filter (fun m => negb (name_eqb m n)) (t_hidden t)).
Proof.
  intros t n Hnd Hin. apply NoDup_app_inv in Hnd. destruct Hnd as [Hu [Hh Hdis]].
  unfold move_to_applied, lists.
  destruct (mem n (t_unapplied t)) eqn:Eu.
  - apply mem_In in Eu. tsimp.
    rewrite (remove_first_filter n _ Hu), (filter_neq_notin n (t_hidden t) (Hdis n Eu)).
    reflexivity.
  - apply mem_false in Eu. apply in_app_or in Hin. destruct Hin as [Hin|Hin]; [contradiction|].
    apply mem_In in Hin. rewrite Hin. tsimp.
    rewrite (remove_first_filter n _ Hh), (filter_neq_notin n (t_unapplied t) Eu).
    reflexivity.
Qed.

Lemma filter_mem_nil : forall l : list name, filter (fun m => negb (mem m [])) l = l.
Proof.
  induction l as [|x l IH]; [reflexivity|].
  cbn [filter]. unfold mem at 1. cbn [existsb negb]. rewrite IH. reflexivity.
Qed.

Lemma push_list_lists :
  forall ns t t',
    NoDup ns -> (forall n, In n ns -> In n (t_unapplied t ++ t_hidden t)) ->
    NoDup (t_unapplied t ++ t_hidden t) ->
    push_list ns [] t = TOk t' ->
    t_applied t' = t_applied t ++ ns
    /\ t_unapplied t' = filter (fun n => negb (mem n ns)) (t_unapplied t)
    /\ t_hidden t' = filter (fun n => negb (mem n ns)) (t_hidden t).
Proof.
  induction ns as [|n ns IH]; intros t t' Hns Hin Hnd H; cbn [push_list] in H.
  - inversion H; subst. rewrite app_nil_r, !filter_mem_nil. repeat split; reflexivity.
  - apply tbind_ok in H. destruct H as [t1 [Hp Hrest]].
    apply push_patch_lists in Hp.
    rewrite (move_to_applied_lists t n Hnd (Hin n (or_introl eq_refl))) in Hp.
    unfold lists in Hp. inversion Hp as [[Ha Hu Hh]]. clear Hp.
    inversion Hns as [|? ? Hnotin Hns']; subst.
    assert (Hnd1 : NoDup (t_unapplied t1 ++ t_hidden t1)).
    { rewrite Hu, Hh, <- filter_app. apply NoDup_filter. exact Hnd. }
    assert (Hin1 : forall m, In m ns -> In m (t_unapplied t1 ++ t_hidden t1)).
    { intros m Hm. rewrite Hu, Hh, <- filter_app. apply filter_In. split.
      - apply Hin. right. exact Hm.
      - apply negb_true_iff. apply name_eqb_neq. intro He. subst. contradiction. }
    destruct (IH t1 t' Hns' Hin1 Hnd1 Hrest) as [Ra [Ru Rh]].
    rewrite Ra, Ru, Rh, Ha, Hu, Hh, !filter_filter_mem, <- app_assoc.
    repeat split; reflexivity.
Qed.

Lemma push_lists :
  forall ns t t',
    NoDup ns -> (forall n, In n ns -> In n (t_unapplied t ++ t_hidden t)) ->
    NoDup (t_applied t ++ t_unapplied t ++ t_hidden t) ->
    push_patches ns false t = TOk t' ->
    t_applied t' = t_applied t ++ ns
    /\ t_unapplied t' = filter (fun n => negb (mem n ns)) (t_unapplied t)
    /\ t_hidden t' = filter (fun n => negb (mem n ns)) (t_hidden t).
Proof.
  intros ns t t' Hns Hin Hnd H. unfold push_patches in H.
  apply NoDup_app_inv in Hnd. destruct Hnd as [_ [Hnd _]].
  apply (push_list_lists ns (set_tmp t None []) t' Hns Hin Hnd H).
Qed.

(* ---------------------------------------------------------------- reorder *)

Lemma reorder_lists :
  forall a u h t t',
    reorder_patches a u h t = TOk t' ->
    (match a with Some l => t_applied t' = l | None => t_applied t' = t_applied t end)
    /\ (match u with Some l => t_unapplied t' = l | None => True end)
    /\ (match h with Some l => t_hidden t' = l | None => True end).
Proof.
  intros a u h t t' H. unfold reorder_patches in H.
  apply tbind_ok in H. destruct H as [t3 [H1 H2]].
  inversion H2 as [Ht']; clear H2.
  assert (Ha : match a with Some l => t_applied t3 = l | None => t_applied t3 = t_applied t end).
  { destruct a as [applied|]; [|inversion H1; reflexivity].
    destruct (pop_patches _ t) as [t1 inc] in H1.
    apply tbind_ok in H1. destruct H1 as [t2 [_ Hc]].
    destruct (list_name_eqb (t_applied t2) applied) eqn:E; [|discriminate].
    inversion Hc; subst. apply list_name_eqb_eq. exact E. }
  split; [|split].
  - destruct u, h; tsimp; exact Ha.
  - destruct u, h; tsimp; try reflexivity; exact I.
  - destruct h; tsimp; [reflexivity|exact I].
Qed.
