(* C15 range proofs: range expansion yields duplicate-free lists of allowed patches and
   never panics (ranges_sound, ranges_contiguous_sound); a single range is an interval of
   the allowed list (range_is_interval, range_contiguous_is_interval). *)
From Coq Require Import Lia ZifyBool PeanoNat ZArith.
From StgV Require Import Model.Chars Model.Name Model.NameSpec Model.Locator Model.LocatorSpec.
From StgV Require Import Proofs.CharsProofs Proofs.LocBasics Proofs.ResolveProofs.

(* ---------------------------------------------------------------- lists, slices *)

Lemma In_firstn : forall (k : nat) (l : list str) x, In x (firstn k l) -> In x l.
Proof.
  intros k l x H. rewrite <- (firstn_skipn k l). apply in_or_app. now left.
Qed.

Lemma In_skipn : forall (k : nat) (l : list str) x, In x (skipn k l) -> In x l.
Proof.
  intros k l x H. rewrite <- (firstn_skipn k l). apply in_or_app. now right.
Qed.

Lemma slice_incl : forall i j (l : list str), incl (slice i j l) l.
Proof. intros i j l x H. unfold slice in H. now apply In_firstn, In_skipn in H. Qed.

Lemma rev_slice_incl : forall i j (l : list str), incl (rev (slice i j l)) l.
Proof. intros i j l x H. apply in_rev in H. now apply slice_incl in H. Qed.

Lemma NoDup_snoc : forall (acc : list str) n, NoDup acc -> ~ In n acc -> NoDup (acc ++ [n]).
Proof.
  induction acc as [|a acc IH]; intros n Hnd Hn; cbn [app].
  - constructor; [intros []|constructor].
  - inversion Hnd as [|a' acc' Ha Hnd']; subst. constructor.
    + intros Hin. apply in_app_or in Hin as [Hin|[Hin|[]]]; [contradiction|].
      apply Hn. now left.
    + apply IH; [exact Hnd'|]. intros Hin. apply Hn. now right.
Qed.

Lemma skipn_add : forall (b a : nat) (l : list str), skipn a (skipn b l) = skipn (b + a) l.
Proof.
  induction b as [|b IH]; intros a l; [reflexivity|].
  destruct l as [|x l]; [now rewrite !skipn_nil|]. cbn [skipn Nat.add]. apply IH.
Qed.

Lemma firstn_add : forall (a b : nat) (l : list str),
  firstn a l ++ firstn b (skipn a l) = firstn (a + b) l.
Proof.
  induction a as [|a IH]; intros b l; [reflexivity|].
  destruct l as [|x l]; [now rewrite !firstn_nil|]. cbn [firstn skipn Nat.add app].
  now rewrite IH.
Qed.

Lemma nth_error_skipn_add : forall (i k : nat) (l : list str),
  nth_error (skipn i l) k = nth_error l (i + k).
Proof.
  induction i as [|i IH]; intros k l; [reflexivity|].
  destruct l as [|x l]; [now destruct k|]. cbn [skipn Nat.add nth_error]. apply IH.
Qed.

Lemma firstn_snoc : forall (k : nat) (l : list str) n,
  nth_error l k = Some n -> firstn k l ++ [n] = firstn (S k) l.
Proof.
  induction k as [|k IH]; intros l n H; destruct l as [|x l]; try discriminate.
  - cbn in H. now injection H as ->.
  - cbn [nth_error] in H. cbn [firstn app]. f_equal. now apply IH.
Qed.

Lemma slice_empty : forall (al : list str), [] = slice 1 0 al.
Proof. reflexivity. Qed.

Lemma slice_single : forall (al : list str) pos n,
  nth_error al pos = Some n -> [n] = slice pos pos al.
Proof.
  intros al pos n H. unfold slice. replace (S pos - pos)%nat with 1%nat by lia.
  rewrite <- (firstn_snoc 0 (skipn pos al) n); [reflexivity|].
  now rewrite nth_error_skipn_add, Nat.add_0_r.
Qed.

Lemma slice_snoc : forall (al : list str) i j n,
  (i <= S j)%nat -> nth_error al (S j) = Some n -> slice i j al ++ [n] = slice i (S j) al.
Proof.
  intros al i j n Hi H. unfold slice.
  replace (S (S j) - i)%nat with (S (S j - i)) by lia. apply firstn_snoc.
  rewrite nth_error_skipn_add. now replace (i + (S j - i))%nat with (S j) by lia.
Qed.

Lemma slice_app : forall (al : list str) i j ep,
  (i <= S j)%nat -> (j <= ep)%nat -> slice i j al ++ slice (S j) ep al = slice i ep al.
Proof.
  intros al i j ep Hi Hj. unfold slice.
  replace (skipn (S j) al) with (skipn (S j - i) (skipn i al)).
  - rewrite firstn_add. f_equal. lia.
  - rewrite skipn_add. f_equal. lia.
Qed.

(* ---------------------------------------------------------------- add_unique, constrain *)

Lemma add_unique_app : forall sel acc acc', add_unique acc sel = ROk acc' -> acc' = acc ++ sel.
Proof.
  induction sel as [|n sel IH]; intros acc acc' H; cbn [add_unique] in H.
  - injection H as <-. now rewrite app_nil_r.
  - destruct (in_list n acc); [discriminate|]. apply IH in H. rewrite H, <- app_assoc.
    reflexivity.
Qed.

Lemma add_unique_nodup : forall sel acc acc',
  NoDup acc -> add_unique acc sel = ROk acc' -> NoDup acc'.
Proof.
  induction sel as [|n sel IH]; intros acc acc' Hnd H; cbn [add_unique] in H.
  - now injection H as <-.
  - destruct (in_list n acc) eqn:E; [discriminate|]. apply in_list_false in E.
    apply (IH (acc ++ [n])); [now apply NoDup_snoc|exact H].
Qed.

Lemma add_unique_no_panic : forall sel acc, add_unique acc sel <> RPanic.
Proof.
  induction sel as [|n sel IH]; intros acc; cbn [add_unique]; [discriminate|].
  destruct (in_list n acc); [discriminate|apply IH].
Qed.

Lemma constrain_spec : forall v c n m,
  constrain v c n = ROk m -> m = n /\ In n (allowed v c).
Proof.
  intros v c n m H. unfold constrain in H.
  destruct (in_list n (v_applied v)) eqn:Ea; destruct (in_list n (v_unapplied v)) eqn:Eu;
    destruct (in_list n (v_hidden v)) eqn:Eh; cbn [orb negb andb] in H; try discriminate;
    destruct c; try discriminate; injection H as <-; (split; [reflexivity|]);
    cbn [allowed]; unfold v_all;
    try apply in_list_In in Ea; try apply in_list_In in Eu; try apply in_list_In in Eh;
    rewrite ?in_app_iff; tauto.
Qed.

Lemma constrain_no_panic : forall v c n, In n (v_all v) -> constrain v c n <> RPanic.
Proof.
  intros v c n Hin. unfold constrain.
  assert (Hor : in_list n (v_applied v) || in_list n (v_unapplied v) || in_list n (v_hidden v)
                = true).
  { unfold v_all in Hin. apply in_app_or in Hin as [Hin|Hin];
      [|apply in_app_or in Hin as [Hin|Hin]]; apply in_list_In in Hin; rewrite Hin;
      rewrite ?orb_true_r; reflexivity. }
  rewrite Hor. cbn [negb]. destruct (match c with LCAll => _ | _ => _ end); discriminate.
Qed.

Definition name_in_allowed (v : sview) (c : lconstraint) (r : rres str) : Prop :=
  match r with
  | ROk n => In n (allowed v c)
  | RErr _ => True
  | RPanic => False
  end.

Lemma resolve_constrained_ok : forall v c l,
  wf_loc l -> name_in_allowed v c (resolve_constrained v c l).
Proof.
  intros v c l Hwf. unfold resolve_constrained.
  pose proof (resolve_sound v l Hwf) as Hs.
  destruct (resolve_name v l) as [n|e|]; [|exact I|exact Hs]. cbn in Hs.
  destruct (constrain v c n) as [m|e|] eqn:Ec; [|exact I|].
  - apply constrain_spec in Ec as [-> Hin]. exact Hin.
  - now apply constrain_no_panic in Ec.
Qed.

Definition oname_in_allowed (v : sview) (c : lconstraint) (r : rres (option str)) : Prop :=
  match r with
  | ROk (Some n) => In n (allowed v c)
  | ROk None => True
  | RErr _ => True
  | RPanic => False
  end.

Lemma resolve_opt_ok : forall v c l, wf_oloc l -> oname_in_allowed v c (resolve_opt v c l).
Proof.
  intros v c [l|] Hwf; [|exact I]. cbn [wf_oloc] in Hwf. unfold resolve_opt.
  pose proof (resolve_constrained_ok v c l Hwf) as Hs.
  destruct (resolve_constrained v c l); exact Hs.
Qed.

(* ---------------------------------------------------------------- the front of a range *)

Definition range_pre (v : sview) (rc : rconstraint) (b e : option ploc)
  : rres (option str * nat) :=
  match resolve_opt v (lc_of rc) b with
  | RErr err => RErr err
  | RPanic => RPanic
  | ROk bn =>
      match resolve_opt v (lc_of rc) e with
      | RErr err => RErr err
      | RPanic => RPanic
      | ROk en =>
          match (match bn with
                 | Some n => index_of_str n (allowed v (lc_of rc))
                 | None => Some O
                 end) with
          | None => RPanic
          | Some bp => ROk (en, bp)
          end
      end
  end.

Definition names_tail (v : sview) (rc : rconstraint) (rest : list prange) (acc : list str)
           (en : option str) (bp : nat) : rres (list str) :=
  let al := allowed v (lc_of rc) in
  match end_position v rc al bp en with
  | RErr err => RErr err
  | RPanic => RPanic
  | ROk None => resolve_names_loop v rc rest acc
  | ROk (Some ep) =>
      if Nat.ltb (length al) (S (Nat.max bp ep)) then RPanic
      else
        match add_unique acc (if Nat.leb bp ep then slice bp ep al else rev (slice ep bp al)) with
        | ROk acc' => resolve_names_loop v rc rest acc'
        | RErr err => RErr err
        | RPanic => RPanic
        end
  end.

Lemma names_range_eq : forall v rc b e rest acc,
  resolve_names_loop v rc (RRange b e :: rest) acc
  = match range_pre v rc b e with
    | ROk (en, bp) => names_tail v rc rest acc en bp
    | RErr err => RErr err
    | RPanic => RPanic
    end.
Proof.
  intros v rc b e rest acc. cbn [resolve_names_loop]. unfold range_pre, names_tail.
  destruct (resolve_opt v (lc_of rc) b) as [bn|err|]; try reflexivity.
  destruct (resolve_opt v (lc_of rc) e) as [en|err|]; try reflexivity.
  destruct (match bn with Some n => _ | None => _ end); reflexivity.
Qed.

Definition contig_tail (v : sview) (rc : rconstraint) (rest : list prange) (acc : list str)
           (next_pos : option nat) (en : option str) (bp : nat) : rres (list str) :=
  let al := allowed v (lc_of rc) in
  let contiguous := match next_pos with Some np => Nat.eqb bp np | None => true end in
  if negb contiguous then RErr ENotContiguous
  else
    let order_ok :=
      match en with
      | Some n => match index_of_str n al with
                  | Some ep => negb (Nat.ltb ep bp)
                  | None => true end
      | None => true
      end in
    if negb order_ok then (if Nat.ltb bp (length al) then RErr EBoundaryOrder else RPanic)
    else
      match end_position v rc al bp en with
      | RErr err => RErr err
      | RPanic => RPanic
      | ROk None => resolve_contig_loop v rc rest acc next_pos
      | ROk (Some ep) =>
          if Nat.ltb (length al) (S ep) || Nat.ltb (S ep) bp then RPanic
          else
            match add_unique acc (slice bp ep al) with
            | ROk acc' => resolve_contig_loop v rc rest acc' (Some (S ep))
            | RErr err => RErr err
            | RPanic => RPanic
            end
      end.

Lemma contig_range_eq : forall v rc b e rest acc np,
  resolve_contig_loop v rc (RRange b e :: rest) acc np
  = match range_pre v rc b e with
    | ROk (en, bp) => contig_tail v rc rest acc np en bp
    | RErr err => RErr err
    | RPanic => RPanic
    end.
Proof.
  intros v rc b e rest acc np. cbn [resolve_contig_loop]. unfold range_pre, contig_tail.
  destruct (resolve_opt v (lc_of rc) b) as [bn|err|]; try reflexivity.
  destruct (resolve_opt v (lc_of rc) e) as [en|err|]; try reflexivity.
  destruct (match bn with Some n => _ | None => _ end); reflexivity.
Qed.

Definition range_pre_good (v : sview) (rc : rconstraint) (r : rres (option str * nat)) : Prop :=
  match r with
  | ROk (en, bp) =>
      (allowed v (lc_of rc) <> [] -> (bp < length (allowed v (lc_of rc)))%nat)
      /\ (forall n, en = Some n -> In n (allowed v (lc_of rc)))
  | RErr _ => True
  | RPanic => False
  end.

Lemma range_pre_ok : forall v rc b e,
  wf_oloc b -> wf_oloc e -> range_pre_good v rc (range_pre v rc b e).
Proof.
  intros v rc b e Hb He. unfold range_pre.
  pose proof (resolve_opt_ok v (lc_of rc) b Hb) as Hbn.
  pose proof (resolve_opt_ok v (lc_of rc) e He) as Hen.
  destruct (resolve_opt v (lc_of rc) b) as [bn|err|]; [|exact I|exact Hbn].
  destruct (resolve_opt v (lc_of rc) e) as [en|err|]; [|exact I|exact Hen].
  destruct bn as [n|]; cbn [oname_in_allowed] in Hbn.
  - destruct (index_of_str_In _ _ Hbn) as [bp Hbp]. rewrite Hbp. cbn [range_pre_good].
    split.
    + intros _. now apply index_of_str_lt in Hbp.
    + intros m ->. exact Hen.
  - cbn [range_pre_good]. split.
    + intros Hne. destruct (allowed v (lc_of rc)); [congruence|cbn [length]; lia].
    + intros m ->. exact Hen.
Qed.

(* ---------------------------------------------------------------- end_position *)

Lemma end_position_spec : forall v rc al bp en ep,
  end_position v rc al bp en = ROk (Some ep) ->
  (exists n, en = Some n /\ index_of_str n al = Some ep)
  \/ (en = None /\ use_applied_boundary rc = true /\ (bp < length (v_applied v))%nat
      /\ ep = (length (v_applied v) - 1)%nat)
  \/ (en = None /\ al <> [] /\ ep = (length al - 1)%nat).
Proof.
  intros v rc al bp en ep H. unfold end_position in H. destruct en as [n|].
  - left. exists n. destruct (index_of_str n al) as [i|]; [|discriminate].
    injection H as <-. auto.
  - right.
    destruct (use_applied_boundary rc
              && negb (match v_applied v with [] => true | _ => false end)
              && Nat.ltb bp (length (v_applied v))) eqn:Ec.
    + injection H as <-. left. apply andb_true_iff in Ec as [Ec E3].
      apply andb_true_iff in Ec as [E1 _]. apply Nat.ltb_lt in E3. auto.
    + right. destruct al as [|x al']; [discriminate|]. injection H as <-.
      split; [reflexivity|]. split; [discriminate|reflexivity].
Qed.

Lemma end_position_no_panic : forall v rc al bp en,
  (forall n, en = Some n -> In n al) -> end_position v rc al bp en <> RPanic.
Proof.
  intros v rc al bp en Hen. unfold end_position. destruct en as [n|].
  - destruct (index_of_str_In n al (Hen n eq_refl)) as [i ->]. discriminate.
  - destruct (_ && _ && _); [discriminate|]. destruct al; discriminate.
Qed.

Lemma applied_boundary_len : forall v rc,
  use_applied_boundary rc = true ->
  (length (v_applied v) <= length (allowed v (lc_of rc)))%nat.
Proof.
  intros v rc H. destruct rc; try discriminate H; cbn [lc_of allowed]; unfold v_all;
    rewrite !app_length; lia.
Qed.

Lemma end_position_lt : forall v rc bp en ep,
  end_position v rc (allowed v (lc_of rc)) bp en = ROk (Some ep) ->
  (ep < length (allowed v (lc_of rc)))%nat.
Proof.
  intros v rc bp en ep H.
  apply end_position_spec in H as [[n [_ Hi]]|[[_ [Hu [Hb ->]]]|[_ [Hne ->]]]].
  - now apply index_of_str_lt in Hi.
  - pose proof (applied_boundary_len v rc Hu). lia.
  - destruct (allowed v (lc_of rc)); [congruence|cbn [length]; lia].
Qed.

(* ---------------------------------------------------------------- ranges_sound *)

Definition acc_ok (v : sview) (rc : rconstraint) (acc : list str) : Prop :=
  NoDup acc /\ incl acc (allowed v (lc_of rc)).

Lemma acc_ok_snoc : forall v rc acc n,
  acc_ok v rc acc -> In n (allowed v (lc_of rc)) -> in_list n acc = false ->
  acc_ok v rc (acc ++ [n]).
Proof.
  intros v rc acc n [Hnd Hin] Hn Hf. apply in_list_false in Hf. split.
  - now apply NoDup_snoc.
  - apply incl_app; [exact Hin|]. intros x [<-|[]]. exact Hn.
Qed.

Lemma acc_ok_add : forall v rc acc sel acc',
  acc_ok v rc acc -> incl sel (allowed v (lc_of rc)) -> add_unique acc sel = ROk acc' ->
  acc_ok v rc acc'.
Proof.
  intros v rc acc sel acc' [Hnd Hin] Hsel H. split.
  - now apply (add_unique_nodup sel acc).
  - apply add_unique_app in H. subst acc'. now apply incl_app.
Qed.

Lemma names_loop_sound : forall v rc rs acc,
  Forall wf_range rs -> acc_ok v rc acc ->
  names_result_ok v rc (resolve_names_loop v rc rs acc).
Proof.
  intros v rc. induction rs as [|r rs IH]; intros acc Hwf Hacc.
  - exact Hacc.
  - inversion Hwf as [|r' rs' Hr Hrs]; subst. destruct r as [l|b e].
    + cbn [resolve_names_loop]. cbn [wf_range] in Hr.
      pose proof (resolve_constrained_ok v (lc_of rc) l Hr) as Hn.
      destruct (resolve_constrained v (lc_of rc) l) as [n|err|]; [|exact I|exact Hn].
      cbn [name_in_allowed] in Hn. destruct (in_list n acc) eqn:Ei; [exact I|].
      apply IH; [exact Hrs|]. now apply acc_ok_snoc.
    + rewrite names_range_eq. destruct Hr as [Hb He].
      pose proof (range_pre_ok v rc b e Hb He) as Hpre.
      destruct (range_pre v rc b e) as [[en bp]|err|]; [|exact I|exact Hpre].
      destruct Hpre as [Hbp Hen]. unfold names_tail.
      destruct (end_position v rc (allowed v (lc_of rc)) bp en) as [[ep|]|err|] eqn:Eend.
      * pose proof (end_position_lt _ _ _ _ _ Eend) as Hep.
        assert (Hne : allowed v (lc_of rc) <> []).
        { intros E0. rewrite E0 in Hep. cbn [length] in Hep. lia. }
        specialize (Hbp Hne).
        assert (Nat.ltb (length (allowed v (lc_of rc))) (S (Nat.max bp ep)) = false) as ->
          by (apply Nat.ltb_ge; lia).
        set (sel := if Nat.leb bp ep then _ else _).
        assert (Hsel : incl sel (allowed v (lc_of rc))).
        { unfold sel. destruct (Nat.leb bp ep); [apply slice_incl|apply rev_slice_incl]. }
        destruct (add_unique acc sel) as [acc'|err|] eqn:Ea; [|exact I|].
        -- apply IH; [exact Hrs|]. now apply (acc_ok_add v rc acc sel).
        -- now apply add_unique_no_panic in Ea.
      * now apply IH.
      * exact I.
      * now apply end_position_no_panic in Eend.
Qed.

Lemma acc_ok_nil : forall v rc, acc_ok v rc [].
Proof. intros v rc. split; [constructor|intros x []]. Qed.

Theorem ranges_sound : forall v rc rs,
  Forall wf_range rs -> names_result_ok v rc (resolve_names v rc rs).
Proof.
  intros v rc rs Hwf. unfold resolve_names. apply names_loop_sound; [exact Hwf|apply acc_ok_nil].
Qed.

(* ---------------------------------------------------------------- contiguous: soundness *)

Lemma contig_loop_sound : forall v rc rs acc np,
  Forall wf_range rs -> acc_ok v rc acc ->
  names_result_ok v rc (resolve_contig_loop v rc rs acc np).
Proof.
  intros v rc. induction rs as [|r rs IH]; intros acc np Hwf Hacc.
  - exact Hacc.
  - inversion Hwf as [|r' rs' Hr Hrs]; subst. destruct r as [l|b e].
    + cbn [resolve_contig_loop]. cbn [wf_range] in Hr.
      pose proof (resolve_constrained_ok v (lc_of rc) l Hr) as Hn.
      destruct (resolve_constrained v (lc_of rc) l) as [n|err|]; [|exact I|exact Hn].
      cbn [name_in_allowed] in Hn. destruct (in_list n acc) eqn:Ei; [exact I|].
      destruct (index_of_str_In _ _ Hn) as [pos ->].
      assert (Hnext : acc_ok v rc (acc ++ [n])) by now apply acc_ok_snoc.
      destruct np as [k|]; [destruct (Nat.eqb pos k); [|exact I]|]; now apply IH.
    + rewrite contig_range_eq. destruct Hr as [Hb He].
      pose proof (range_pre_ok v rc b e Hb He) as Hpre.
      destruct (range_pre v rc b e) as [[en bp]|err|]; [|exact I|exact Hpre].
      destruct Hpre as [Hbp Hen]. unfold contig_tail.
      destruct (negb (match np with Some k => Nat.eqb bp k | None => true end)); [exact I|].
      set (order_ok := match en with Some n => _ | None => true end).
      destruct (negb order_ok) eqn:Eord.
      { (* BoundaryOrder: the end is a found patch, so the allowed list is not empty *)
        apply negb_true_iff in Eord. unfold order_ok in Eord.
        destruct en as [n|]; [|discriminate].
        assert (Hne : allowed v (lc_of rc) <> []).
        { pose proof (Hen n eq_refl) as Hin. intros E0. now rewrite E0 in Hin. }
        specialize (Hbp Hne). apply Nat.ltb_lt in Hbp. rewrite Hbp. exact I. }
      apply negb_false_iff in Eord.
      destruct (end_position v rc (allowed v (lc_of rc)) bp en) as [[ep|]|err|] eqn:Eend.
      * pose proof (end_position_lt _ _ _ _ _ Eend) as Hep.
        assert (Hne : allowed v (lc_of rc) <> []).
        { intros E0. rewrite E0 in Hep. cbn [length] in Hep. lia. }
        specialize (Hbp Hne).
        assert (Hle : (bp <= S ep)%nat).
        { apply end_position_spec in Eend as [[n [-> Hi]]|[[_ [_ [Hb' ->]]]|[_ [_ ->]]]].
          - unfold order_ok in Eord. rewrite Hi in Eord. apply negb_true_iff in Eord.
            apply Nat.ltb_ge in Eord. lia.
          - lia.
          - lia. }
        assert (Nat.ltb (length (allowed v (lc_of rc))) (S ep) || Nat.ltb (S ep) bp = false)
          as ->.
        { apply orb_false_iff. split; apply Nat.ltb_ge; lia. }
        destruct (add_unique acc (slice bp ep (allowed v (lc_of rc)))) as [acc'|err|] eqn:Ea;
          [|exact I|].
        -- apply IH; [exact Hrs|].
           apply (acc_ok_add v rc acc _ acc' Hacc (slice_incl _ _ _) Ea).
        -- now apply add_unique_no_panic in Ea.
      * now apply IH.
      * exact I.
      * now apply end_position_no_panic in Eend.
Qed.

Theorem ranges_contiguous_sound : forall v rc rs,
  Forall wf_range rs -> names_result_ok v rc (resolve_names_contiguous v rc rs).
Proof.
  intros v rc rs Hwf. unfold resolve_names_contiguous.
  apply contig_loop_sound; [exact Hwf|apply acc_ok_nil].
Qed.

(* ---------------------------------------------------------------- intervals *)

Theorem range_is_interval : forall v rc b e l,
  resolve_names v rc [RRange b e] = ROk l ->
  is_interval_or_reversed (allowed v (lc_of rc)) l.
Proof.
  intros v rc b e l H. unfold resolve_names in H. rewrite names_range_eq in H.
  destruct (range_pre v rc b e) as [[en bp]|err|]; try discriminate.
  unfold names_tail in H.
  destruct (end_position v rc (allowed v (lc_of rc)) bp en) as [[ep|]|err|]; try discriminate.
  - destruct (Nat.ltb _ _); [discriminate|].
    destruct (add_unique [] _) as [acc'|err|] eqn:Ea; try discriminate.
    cbn [resolve_names_loop] in H. injection H as <-.
    apply add_unique_app in Ea. cbn [app] in Ea. subst acc'.
    destruct (Nat.leb bp ep).
    + exists bp, ep. now left.
    + exists ep, bp. now right.
  - cbn [resolve_names_loop] in H. injection H as <-. exists 1%nat, 0%nat. now left.
Qed.

(* acc is the interval of the allowed list that ends just before next_pos *)
Definition cinv (al acc : list str) (np : option nat) : Prop :=
  (np = None /\ acc = [])
  \/ exists i j, np = Some (S j) /\ (i <= S j)%nat /\ acc = slice i j al.

Lemma cinv_interval : forall al acc np, cinv al acc np -> is_interval al acc.
Proof.
  intros al acc np [[_ ->]|[i [j [_ [_ ->]]]]].
  - exists 1%nat, 0%nat. reflexivity.
  - now exists i, j.
Qed.

Lemma cinv_single : forall al acc np n pos,
  cinv al acc np -> nth_error al pos = Some n ->
  match np with Some k => pos = k | None => True end ->
  cinv al (acc ++ [n]) (Some (S pos)).
Proof.
  intros al acc np n pos [[-> ->]|[i [j [-> [Hi ->]]]]] Hn Hk; right.
  - exists pos, pos. split; [reflexivity|]. split; [lia|]. now apply slice_single.
  - subst pos. exists i, (S j). split; [reflexivity|]. split; [lia|].
    now apply slice_snoc.
Qed.

Lemma cinv_range : forall al acc np bp ep,
  cinv al acc np -> (bp <= S ep)%nat ->
  match np with Some k => bp = k | None => True end ->
  cinv al (acc ++ slice bp ep al) (Some (S ep)).
Proof.
  intros al acc np bp ep [[-> ->]|[i [j [-> [Hi ->]]]]] Hle Hk; right.
  - exists bp, ep. auto.
  - subst bp. exists i, ep. split; [reflexivity|]. split; [lia|].
    apply slice_app; lia.
Qed.

Lemma contig_loop_interval : forall v rc rs acc np l,
  cinv (allowed v (lc_of rc)) acc np ->
  resolve_contig_loop v rc rs acc np = ROk l ->
  is_interval (allowed v (lc_of rc)) l.
Proof.
  intros v rc. induction rs as [|r rs IH]; intros acc np l Hinv H.
  - cbn [resolve_contig_loop] in H. injection H as <-. now apply cinv_interval in Hinv.
  - destruct r as [loc|b e].
    + cbn [resolve_contig_loop] in H.
      destruct (resolve_constrained v (lc_of rc) loc) as [n|err|]; try discriminate.
      destruct (in_list n acc); [discriminate|].
      destruct (index_of_str n (allowed v (lc_of rc))) as [pos|] eqn:Ei; [|discriminate].
      apply index_of_str_nth in Ei.
      assert (Hstep : match np with Some k => pos = k | None => True end ->
                      cinv (allowed v (lc_of rc)) (acc ++ [n]) (Some (S pos)))
        by (now apply cinv_single).
      destruct np as [k|].
      * destruct (Nat.eqb pos k) eqn:Ek; [|discriminate]. apply Nat.eqb_eq in Ek.
        apply (IH _ _ _ (Hstep Ek) H).
      * apply (IH _ _ _ (Hstep I) H).
    + rewrite contig_range_eq in H.
      destruct (range_pre v rc b e) as [[en bp]|err|]; try discriminate.
      unfold contig_tail in H.
      destruct (negb (match np with Some k => Nat.eqb bp k | None => true end)) eqn:Ec;
        [discriminate|].
      destruct (negb (match en with Some n => _ | None => true end));
        [destruct (Nat.ltb bp _); discriminate|].
      destruct (end_position v rc (allowed v (lc_of rc)) bp en) as [[ep|]|err|];
        try discriminate.
      * destruct (Nat.ltb (length (allowed v (lc_of rc))) (S ep) || Nat.ltb (S ep) bp) eqn:Eb;
          [discriminate|].
        apply orb_false_iff in Eb as [_ Eb]. apply Nat.ltb_ge in Eb.
        destruct (add_unique acc (slice bp ep (allowed v (lc_of rc)))) as [acc'|err|] eqn:Ea;
          try discriminate.
        apply add_unique_app in Ea. subst acc'.
        apply (IH _ _ _ (cinv_range _ _ np bp ep Hinv Eb
                 ltac:(destruct np as [k|]; [|exact I];
                       apply negb_false_iff, Nat.eqb_eq in Ec; exact Ec)) H).
      * apply (IH _ _ _ Hinv H).
Qed.

Theorem range_contiguous_is_interval : forall v rc rs l,
  resolve_names_contiguous v rc rs = ROk l ->
  is_interval (allowed v (lc_of rc)) l.
Proof.
  intros v rc rs l H. unfold resolve_names_contiguous in H.
  apply (contig_loop_interval v rc rs [] None l); [|exact H]. left. auto.
Qed.
