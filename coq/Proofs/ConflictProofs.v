(* C09 - proofs: conflicting pushes halt in a well-defined state; commands refuse to run while
   the index is unmerged.  Also: frame lemmas for open_stack / execute that are reused by
   Proofs/CommitProofs.v and Proofs/RepairProofs.v. *)
From Coq Require Import List NArith ZArith Bool Arith Lia.
From StgV Require Import Model.CmdSpec Model.LocatorSpec.
From StgV Require Import Proofs.CharsProofs Proofs.ReorderProofs Proofs.ReachBase Proofs.ReachStep
  Proofs.LocatorProofs.
Import ListNotations.
Local Open Scope nat_scope.

(* ---------------------------------------------------------------- generic tactics *)

Ltac brk_in H :=
  match type of H with
  | context [match ?x with _ => _ end] =>
      lazymatch x with
      | context [match _ with _ => _ end] => fail
      | _ => destruct x eqn:?
      end
  end.

Ltac brk_any_in H :=
  first [ brk_in H
        | match type of H with
          | context [match ?x with _ => _ end] => destruct x eqn:?
          end ].

(* ---------------------------------------------------------------- halt_keeps_earlier *)

Lemma halt_keeps_earlier :
  forall ns merged t t',
    push_list ns merged t = THalt t' HConflict ->
    exists pre n post t1,
      ns = pre ++ n :: post
      /\ push_list pre merged t = TOk t1
      /\ push_patch n (mem n merged) t1 = THalt t' HConflict.
Proof.
  induction ns as [|n ns IH]; intros merged t t' H; cbn [push_list] in H; [discriminate|].
  destruct (push_patch n (mem n merged) t) as [t1|t1 h|t1|] eqn:Hp; cbn [tbind] in H;
    try discriminate.
  - destruct (IH merged t1 t' H) as [pre [m [post [t2 [Hns [Hpre Hm]]]]]].
    exists (n :: pre), m, post, t2. split; [|split].
    + rewrite Hns. reflexivity.
    + cbn [push_list]. rewrite Hp. cbn [tbind]. exact Hpre.
    + exact Hm.
  - inversion H; subst t1 h. exists [], n, ns, t. split; [reflexivity|]. split; [reflexivity|exact Hp].
Qed.

(* ---------------------------------------------------------------- halt_exit *)

Lemma execute_ok_body : forall w t msg, execute w (TOk t) msg = exec_body w t None msg.
Proof. reflexivity. Qed.

Lemma execute_halt_body : forall w t h msg, execute w (THalt t h) msg = exec_body w t (Some h) msg.
Proof. reflexivity. Qed.

Lemma halt_exit :
  forall w t h msg w' x, execute w (THalt t h) msg = (w', x) -> x <> X0.
Proof.
  intros w t h msg w' x H. rewrite execute_halt_body in H. unfold exec_body in H.
  cbv zeta in H.
  repeat brk_any_in H; inversion H; subst; try discriminate.
Qed.

(* ---------------------------------------------------------------- disallow_keeps_unapplied *)

(* what the temp-index preparation leaves alone besides [core] *)
Definition wtc (t : txn) := (t_opts t, t_wt t, t_wt_unmerged t, t_cur_tree t).

Lemma wtc_tmp_prep : forall t ours, wtc (tmp_prep t ours) = wtc t.
Proof.
  intros t ours. unfold tmp_prep. destruct (t_tmp_id t) as [c|]; [|reflexivity].
  destruct (tree_eqb c ours); reflexivity.
Qed.

Lemma wtc_set_tmp : forall t a b, wtc (set_tmp t a b) = wtc t.
Proof. reflexivity. Qed.

Lemma wtc_inv : forall a b, wtc a = wtc b ->
  t_opts a = t_opts b /\ t_wt a = t_wt b /\ t_wt_unmerged a = t_wt_unmerged b.
Proof. intros a b H. unfold wtc in H. inversion H. repeat split; assumption. Qed.

Lemma push_sel_halt_disallow : forall am t ptree otree ntree r,
    o_allow_push_conflicts (t_opts t) = false ->
    push_sel am t ptree otree ntree = inr r ->
    exists t2, r = THalt t2 HNoConflict /\ core t2 = core t /\ wtc t2 = wtc t.
Proof.
  intros am t ptree otree ntree r Hallow H. rewrite push_sel_eq in H.
  destruct am; [discriminate|].
  destruct (tree_eqb otree ntree); [discriminate|].
  destruct (tree_eqb otree ptree); [discriminate|].
  destruct (tree_eqb ntree ptree); [discriminate|].
  cbv zeta in H.
  match type of H with
  | context[tmp_prep ?t ?o] =>
      pose proof (core_tmp_prep t o) as Hc1; pose proof (wtc_tmp_prep t o) as Hw1;
      set (t1 := tmp_prep t o) in *
  end.
  destruct (apply3way _ _ _ _); [discriminate|].
  assert (Ho : t_opts (set_tmp t1 None (t_tmp_content t1)) = t_opts t).
  { apply wtc_inv in Hw1. destruct Hw1 as [Ho _]. exact Ho. }
  rewrite Ho, Hallow in H. cbn [negb] in H.
  destruct (negb (o_use_iw (t_opts t))); inversion H; subst;
    (eexists; split; [reflexivity|]; split;
     [rewrite core_set_tmp; exact Hc1|rewrite wtc_set_tmp; exact Hw1]).
Qed.

Lemma push_sel_conflict_allowed : forall am t ptree otree ntree t2 nt,
    push_sel am t ptree otree ntree = inl (t2, nt, PSConflict) ->
    o_allow_push_conflicts (t_opts t) = true.
Proof.
  intros am t ptree otree ntree t2 nt H. rewrite push_sel_eq in H.
  destruct am; [discriminate|].
  destruct (tree_eqb otree ntree); [discriminate|].
  destruct (tree_eqb otree ptree); [discriminate|].
  destruct (tree_eqb ntree ptree); [discriminate|].
  cbv zeta in H.
  match type of H with
  | context[tmp_prep ?t ?o] =>
      pose proof (wtc_tmp_prep t o) as Hw1; set (t1 := tmp_prep t o) in *
  end.
  destruct (apply3way _ _ _ _); [discriminate|].
  assert (Ho : t_opts (set_tmp t1 None (t_tmp_content t1)) = t_opts t).
  { apply wtc_inv in Hw1. destruct Hw1 as [Ho _]. exact Ho. }
  rewrite Ho in H.
  destruct (negb (o_use_iw (t_opts t))); [discriminate|].
  destruct (o_allow_push_conflicts (t_opts t)); [reflexivity|]. cbn [negb] in H. discriminate.
Qed.

Lemma disallow_keeps_unapplied :
  forall n am t t' h,
    o_allow_push_conflicts (t_opts t) = false ->
    push_patch n am t = THalt t' h ->
    h = HNoConflict
    /\ t_applied t' = t_applied t /\ t_unapplied t' = t_unapplied t /\ t_hidden t' = t_hidden t
    /\ t_updated t' = t_updated t /\ t_wt t' = t_wt t /\ t_wt_unmerged t' = t_wt_unmerged t.
Proof.
  intros n am t t' h Hallow H. apply push_patch_halt in H.
  destruct H as [[pc [np [op Hsel]]]|[pc [np [op [t2 [nt [Hsel _]]]]]]].
  - apply (push_sel_halt_disallow _ _ _ _ _ _ Hallow) in Hsel.
    destruct Hsel as [t2 [Hr [Hc Hw]]]. inversion Hr; subst t2 h.
    unfold core in Hc. inversion Hc. apply wtc_inv in Hw. destruct Hw as [_ [Hw1 Hw2]].
    repeat split; assumption.
  - apply push_sel_conflict_allowed in Hsel. congruence.
Qed.

(* ---------------------------------------------------------------- open_stack: frame *)

Lemma open_stack_frame : forall p w op,
    open_stack p w = Some op ->
    w_branch (op_world op) = w_branch w
    /\ w_wt (op_world op) = w_wt w
    /\ w_unmerged (op_world op) = w_unmerged w.
Proof.
  intros p w op H. unfold open_stack in H.
  repeat brk_any_in H; inversion H; subst; cbn; repeat split; reflexivity.
Qed.

(* an initialised stack is opened without touching the stack ref or the store *)
Lemma open_stack_frame_init : forall p w op,
    open_stack p w = Some op -> p <> PForce -> w_stack w <> None ->
    w_stack (op_world op) = w_stack w
    /\ w_objs (op_world op) = w_objs w
    /\ op_initialized op = true.
Proof.
  intros p w op H Hp Hs. unfold open_stack in H.
  destruct (w_stack w) as [so|] eqn:Hso; [|congruence].
  destruct p; try congruence;
    repeat brk_any_in H; inversion H; subst; cbn; repeat split; try reflexivity; assumption.
Qed.

(* ---------------------------------------------------------------- execute: frame *)

Lemma log_external_mods_frame : forall w s w1 s1,
    log_external_mods w s = Some (w1, s1) ->
    w_branch w1 = w_branch w /\ w_wt w1 = w_wt w /\ w_unmerged w1 = w_unmerged w.
Proof.
  intros w s w1 s1 H. unfold log_external_mods in H.
  repeat brk_any_in H; inversion H; subst; cbn; repeat split; reflexivity.
Qed.

Ltac use_log_frame :=
  repeat match goal with
         | Hl : log_external_mods _ _ = Some _ |- _ =>
             apply log_external_mods_frame in Hl;
             cbn [w_branch w_wt w_unmerged] in Hl;
             let a := fresh "Hlb" in let b := fresh "Hlw" in let c := fresh "Hlu" in
             destruct Hl as [a [b c]]
         end.

(* no checkout: the work tree and the index are whatever the transaction carries; without
   set_head the branch does not move *)
Lemma exec_body_frame : forall w t halted msg w' x,
    o_set_head (t_opts t) && o_use_iw (t_opts t) = false ->
    exec_body w t halted msg = (w', x) ->
    (t_wt t = w_wt w -> t_wt_unmerged t = w_unmerged w ->
     w_wt w' = w_wt w /\ w_unmerged w' = w_unmerged w)
    /\ (o_set_head (t_opts t) = false -> w_branch w' = w_branch w).
Proof.
  intros w t halted msg w' x Hco H. unfold exec_body in H. cbv zeta in H.
  rewrite Hco in H.
  repeat brk_any_in H; use_log_frame; inversion H; subst;
    cbn [w_branch w_wt w_unmerged];
    (split; [intros Hwt Hum; split; congruence|intros Hsh; try rewrite Hsh; congruence]).
Qed.

Definition txn_of (r : tres) : option txn :=
  match r with TOk t | THalt t _ | TErr t => Some t | TPanic => None end.

Lemma execute_frame : forall w r msg w' x,
    (forall t, txn_of r = Some t ->
               o_set_head (t_opts t) && o_use_iw (t_opts t) = false
               /\ t_wt t = w_wt w /\ t_wt_unmerged t = w_unmerged w) ->
    execute w r msg = (w', x) ->
    w_wt w' = w_wt w /\ w_unmerged w' = w_unmerged w
    /\ ((forall t, txn_of r = Some t -> o_set_head (t_opts t) = false) -> w_branch w' = w_branch w).
Proof.
  intros w r msg w' x Hr H. destruct r as [t|t h|t|].
  - destruct (Hr t eq_refl) as [Hco [Hwt Hum]].
    rewrite execute_ok_body in H. apply (exec_body_frame _ _ _ _ _ _ Hco) in H.
    destruct H as [H1 H2]. destruct (H1 Hwt Hum) as [H3 H4].
    split; [exact H3|]. split; [exact H4|]. intros Hsh. apply H2. apply Hsh. reflexivity.
  - destruct (Hr t eq_refl) as [Hco [Hwt Hum]].
    rewrite execute_halt_body in H. apply (exec_body_frame _ _ _ _ _ _ Hco) in H.
    destruct H as [H1 H2]. destruct (H1 Hwt Hum) as [H3 H4].
    split; [exact H3|]. split; [exact H4|]. intros Hsh. apply H2. apply Hsh. reflexivity.
  - destruct (Hr t eq_refl) as [Hco [Hwt Hum]].
    cbn [execute] in H. inversion H; subst. cbn. repeat split; try assumption. 
  - cbn [execute] in H. inversion H; subst. repeat split; reflexivity.
Qed.

(* ---------------------------------------------------------------- transact: frame *)

(* closures that leave the options and the (real) index / work tree of the transaction alone *)
Definition keeps_wt (f : txn -> tres) : Prop :=
  forall t t', txn_of (f t) = Some t' ->
               t_opts t' = t_opts t /\ t_wt t' = t_wt t /\ t_wt_unmerged t' = t_wt_unmerged t.

Lemma keeps_wt_tbind : forall f g, keeps_wt f -> keeps_wt g -> keeps_wt (fun t => tbind (f t) g).
Proof.
  intros f g Kf Kg t t' H. destruct (f t) as [t1|t1 h|t1|] eqn:Ef; cbn [tbind] in H.
  - destruct (Kf t t1) as [A [B C]]; [rewrite Ef; reflexivity|].
    destruct (Kg t1 t' H) as [A' [B' C']]. repeat split; congruence.
  - apply Kf. rewrite Ef. exact H.
  - apply Kf. rewrite Ef. exact H.
  - discriminate.
Qed.

Lemma transact_frame : forall op o f msg w' x,
    o_set_head o && o_use_iw o = false -> keeps_wt f ->
    transact op o f msg = (w', x) ->
    w_wt w' = w_wt (op_world op) /\ w_unmerged w' = w_unmerged (op_world op)
    /\ (o_set_head o = false -> w_branch w' = w_branch (op_world op)).
Proof.
  intros op o f msg w' x Hco Kf H. unfold transact in H.
  destruct (negb (op_initialized op)).
  - assert (E : w' = op_world op) by (destruct (f (begin_txn op o)); inversion H; reflexivity).
    subst w'. repeat split; reflexivity.
  - assert (Ht : forall t, txn_of (f (begin_txn op o)) = Some t ->
                           t_opts t = o /\ t_wt t = w_wt (op_world op)
                           /\ t_wt_unmerged t = w_unmerged (op_world op)).
    { intros t Ht. apply Kf in Ht. exact Ht. }
    apply execute_frame in H.
    + destruct H as [A [B C]]. split; [exact A|]. split; [exact B|].
      intros Hsh. apply C. intros t Ht'. apply Ht in Ht'. destruct Ht' as [-> _]. exact Hsh.
    + intros t Ht'. apply Ht in Ht'. destruct Ht' as [-> [A B]]. repeat split; assumption.
Qed.

(* ---------------------------------------------------------------- undo_needs_hard *)

Lemma checkout_unmerged : forall o st tt wt cur tgt,
    o_discard_changes o = false -> o_conflict_mode o = CDisallow ->
    checkout o st tt wt true cur tgt = None.
Proof.
  intros o st tt wt cur tgt Hd Hc. unfold checkout. rewrite Hd, Hc.
  destruct (tree_eqb cur tgt); reflexivity.
Qed.

(* a transaction that must check out its result (set_head, use_iw) without discarding changes
   is refused while the index is unmerged: no success, branch and index untouched *)
Lemma exec_body_unmerged_refused : forall w t halted msg w' x,
    o_set_head (t_opts t) = true -> o_use_iw (t_opts t) = true ->
    o_allow_bad_head (t_opts t) = true -> o_discard_changes (t_opts t) = false ->
    o_conflict_mode (t_opts t) = CDisallow ->
    t_wt_unmerged t = true -> w_unmerged w = true ->
    exec_body w t halted msg = (w', x) ->
    x <> X0 /\ w_branch w' = w_branch w /\ w_unmerged w' = true.
Proof.
  intros w t halted msg w' x Hsh Hiw Hbh Hd Hc Htu Hwu H. unfold exec_body in H. cbv zeta in H.
  rewrite Hsh, Hiw, Hbh in H. cbn [andb negb] in H.
  repeat brk_any_in H; use_log_frame;
    repeat match goal with
           | Hk : checkout _ _ _ _ ?u _ _ = Some _ |- _ =>
               cbn [w_unmerged] in Hk;
               first [ rewrite Htu in Hk | rewrite Hlu, Htu in Hk ];
               rewrite (checkout_unmerged _ _ _ _ _ _ Hd Hc) in Hk; discriminate Hk
           end;
    inversion H; subst; cbn [w_branch w_unmerged];
    (split; [discriminate|split; congruence]).
Qed.

Lemma reset_to_state_cases : forall st t,
    reset_to_state st t = TErr t
    \/ exists t', reset_to_state st t = TOk t' /\ t_opts t' = t_opts t
                  /\ t_wt_unmerged t' = t_wt_unmerged t /\ t_wt t' = t_wt t.
Proof.
  intros st t. unfold reset_to_state.
  match goal with
  | |- match ?nb with Some _ => _ | None => _ end = _ \/ _ => destruct nb as [b|]
  end; [|left; reflexivity].
  right. eexists. split; [reflexivity|]. repeat split; reflexivity.
Qed.

Lemma undo_needs_hard :
  forall w n,
    w_unmerged w = true ->
    let '(w', x) := run_undo w n false in
    x <> X0 /\ w_branch w' = w_branch w /\ w_unmerged w' = true.
Proof.
  intros w n Hu. destruct (run_undo w n false) as [w' x] eqn:H.
  unfold run_undo in H. destruct (n <? 1)%Z.
  { inversion H; subst. split; [discriminate|split; [reflexivity|exact Hu]]. }
  unfold run_undo_like in H.
  destruct (open_stack PRequire w) as [op0|] eqn:Hop.
  2:{ unfold err2 in H. inversion H; subst. split; [discriminate|split; [reflexivity|exact Hu]]. }
  destruct (open_stack_frame _ _ _ Hop) as [Hb0 [_ Hum0]].
  destruct (log_extmods_first op0) as [op|] eqn:Hlf.
  2:{ unfold err2 in H. inversion H; subst. split; [discriminate|split; [exact Hb0|congruence]]. }
  assert (Hfr : w_branch (op_world op) = w_branch (op_world op0)
                /\ w_unmerged (op_world op) = w_unmerged (op_world op0)).
  { unfold log_extmods_first in Hlf. destruct (Nat.eqb _ _); [inversion Hlf; subst; split; reflexivity|].
    destruct (log_external_mods _ _) as [[w1 s1]|] eqn:Hl; [|discriminate].
    apply log_external_mods_frame in Hl. destruct Hl as [A [_ C]].
    inversion Hlf; subst. cbn [op_world]. split; assumption. }
  destruct Hfr as [Hb1 Hum1].
  assert (Hb : w_branch (op_world op) = w_branch w) by congruence.
  assert (Hu1 : w_unmerged (op_world op) = true) by congruence.
  clear Hlf. unfold transact in H.
  set (t0 := begin_txn op (opts CDisallow true false true true true)) in *.
  assert (Ht0 : t_opts t0 = opts CDisallow true false true true true) by reflexivity.
  assert (Ht0u : t_wt_unmerged t0 = true) by exact Hu1.
  assert (Herr : forall w2 x2, execute (op_world op) (TErr t0) (MUndo n) = (w2, x2) ->
                              x2 <> X0 /\ w_branch w2 = w_branch w /\ w_unmerged w2 = true).
  { intros w2 x2 He. cbn [execute] in He. inversion He; subst.
    cbn [w_branch w_unmerged]. split; [discriminate|split; assumption]. }
  destruct (negb (op_initialized op)).
  { assert (Hx : x <> X0 /\ w' = op_world op).
    { repeat brk_any_in H; inversion H; subst; split; try discriminate; reflexivity. }
    destruct Hx as [Hx ->]. split; [exact Hx|split; assumption]. }
  destruct (w_stack (op_world op)) as [so|]; [|apply Herr; exact H].
  destruct (find_undo_state _ _ so n) as [st|]; [|apply Herr; exact H].
  destruct (reset_to_state_cases st t0) as [He|[t' [Hok [Ho [Htu _]]]]].
  { rewrite He in H. apply Herr. exact H. }
  rewrite Hok, execute_ok_body in H. rewrite Ht0 in Ho. rewrite Ht0u in Htu.
  apply exec_body_unmerged_refused in H; try (rewrite Ho; reflexivity); try assumption.
  rewrite Hb in H. exact H.
Qed.

(* ---------------------------------------------------------------- non-empty range expansion *)

Definition open_range (r : prange) : bool :=
  match r with RRange None None => true | _ => false end.

(* a range that certainly selects something (or fails): anything but `..`, or `..` over a
   non-empty list of allowed patches *)
Definition rprog (v : sview) (rc : rconstraint) (r : prange) : Prop :=
  open_range r = false \/ allowed v (lc_of rc) <> [].

Lemma names_loop_prefix : forall v rc prs acc l,
    resolve_names_loop v rc prs acc = ROk l -> exists ext, l = acc ++ ext.
Proof.
  intros v rc prs. induction prs as [|r prs IH]; intros acc l H.
  - cbn [resolve_names_loop] in H. inversion H; subst. exists []. now rewrite app_nil_r.
  - destruct r as [lc|b e].
    + cbn [resolve_names_loop] in H.
      destruct (resolve_constrained v (lc_of rc) lc) as [n|err|]; try discriminate.
      destruct (in_list n acc); [discriminate|].
      apply IH in H. destruct H as [ext ->]. exists ([n] ++ ext). now rewrite app_assoc.
    + rewrite names_range_eq in H.
      destruct (range_pre v rc b e) as [[en bp]|err|]; try discriminate.
      unfold names_tail in H. cbv zeta in H.
      destruct (end_position _ _ _ _ _) as [[ep|]|err|]; try discriminate.
      * destruct (Nat.ltb _ _); [discriminate|].
        destruct (add_unique acc _) as [acc'|err|] eqn:Ea; try discriminate.
        apply add_unique_app in Ea. apply IH in H. destruct H as [ext ->]. subst acc'.
        eexists. rewrite <- app_assoc. reflexivity.
      * apply IH in H. exact H.
Qed.

Lemma names_loop_acc_nonempty : forall v rc prs acc l,
    resolve_names_loop v rc prs acc = ROk l -> acc <> [] -> l <> [].
Proof.
  intros v rc prs acc l H Hacc. apply names_loop_prefix in H. destruct H as [ext ->].
  destruct acc; [congruence|discriminate].
Qed.

Lemma slice_nonempty : forall (l : list str) i j, i <= j -> j < length l -> slice i j l <> [].
Proof.
  intros l i j Hij Hj E. apply (f_equal (@length str)) in E. unfold slice in E.
  rewrite firstn_length, skipn_length in E. cbn [length] in E. lia.
Qed.

Lemma resolve_opt_some_in : forall v c lc x,
    resolve_opt v c (Some lc) = ROk x -> exists n, x = Some n /\ In n (allowed v c).
Proof.
  intros v c lc x H. unfold resolve_opt in H.
  destruct (resolve_constrained v c lc) as [n|err|] eqn:E; try discriminate.
  inversion H; subst. exists n. split; [reflexivity|].
  unfold resolve_constrained in E. destruct (resolve_name v lc) as [n0|err|]; try discriminate.
  apply constrain_spec in E. destruct E as [-> Hin]. exact Hin.
Qed.

Lemma end_position_none : forall v rc al bp en,
    end_position v rc al bp en = ROk None -> en = None /\ al = [].
Proof.
  intros v rc al bp en H. unfold end_position in H. destruct en as [n|].
  - destruct (index_of_str n al); discriminate.
  - split; [reflexivity|]. destruct (_ && _); [discriminate|]. destruct al; [reflexivity|discriminate].
Qed.

Lemma names_loop_nonempty : forall v rc prs acc l,
    resolve_names_loop v rc prs acc = ROk l ->
    acc <> [] \/ Exists (rprog v rc) prs -> l <> [].
Proof.
  intros v rc prs. induction prs as [|r prs IH]; intros acc l H Hp.
  - destruct Hp as [Hacc|Hex]; [|inversion Hex].
    eapply names_loop_acc_nonempty; eassumption.
  - destruct Hp as [Hacc|Hex]; [eapply names_loop_acc_nonempty; eassumption|].
    destruct r as [lc|b e].
    + cbn [resolve_names_loop] in H.
      destruct (resolve_constrained v (lc_of rc) lc) as [n|err|]; try discriminate.
      destruct (in_list n acc); [discriminate|].
      eapply names_loop_acc_nonempty; [exact H|]. destruct acc; discriminate.
    + rewrite names_range_eq in H.
      destruct (range_pre v rc b e) as [[en bp]|err|] eqn:Hpre; try discriminate.
      unfold names_tail in H. cbv zeta in H.
      destruct (end_position _ _ _ _ _) as [[ep|]|err|] eqn:Hend; try discriminate.
      * destruct (Nat.ltb _ _) eqn:Hlt; [discriminate|]. apply Nat.ltb_ge in Hlt.
        destruct (add_unique acc _) as [acc'|err|] eqn:Ea; try discriminate.
        apply add_unique_app in Ea. eapply names_loop_acc_nonempty; [exact H|].
        subst acc'. intro E. apply app_eq_nil in E. destruct E as [_ E].
        destruct (Nat.leb bp ep) eqn:Hle.
        -- apply Nat.leb_le in Hle. revert E. apply slice_nonempty; lia.
        -- apply Nat.leb_gt in Hle. apply (f_equal (@rev str)) in E.
           rewrite rev_involutive in E. cbn [rev] in E. revert E. apply slice_nonempty; lia.
      * apply end_position_none in Hend. destruct Hend as [-> Hal].
        inversion Hex as [r0 l0 Hr|r0 l0 Hr]; subst.
        -- exfalso. destruct Hr as [Hopen|Hne]; [|contradiction].
           unfold range_pre in Hpre.
           destruct b as [lb|].
           ++ destruct (resolve_opt v (lc_of rc) (Some lb)) as [bn|err|] eqn:Eb; try discriminate.
              apply resolve_opt_some_in in Eb. destruct Eb as [n [_ Hin]].
              rewrite Hal in Hin. destruct Hin.
           ++ destruct e as [le|]; [|discriminate].
              assert (Hn : resolve_opt v (lc_of rc) None = ROk None) by reflexivity.
              rewrite Hn in Hpre. cbv iota beta in Hpre.
              destruct (resolve_opt v (lc_of rc) (Some le)) as [en|err|] eqn:Ee; try discriminate.
              apply resolve_opt_some_in in Ee. destruct Ee as [n [-> Hin]].
              cbv iota beta in Hpre. inversion Hpre.
        -- eapply IH; [exact H|]. right. assumption.
Qed.

Lemma parse_ranges_wf : forall rs prs, parse_ranges rs = Some prs -> Forall wf_range prs.
Proof.
  induction rs as [|x rs IH]; intros prs H; cbn [parse_ranges] in H.
  - inversion H; subst. constructor.
  - destruct (parse_range x) as [r|] eqn:Hr; [|discriminate].
    destruct (parse_ranges rs) as [prs'|]; [|discriminate].
    inversion H; subst. constructor; [eapply parsed_range_wf; exact Hr|apply IH; reflexivity].
Qed.

Lemma parse_ranges_nonempty : forall rs prs, parse_ranges rs = Some prs -> rs <> [] -> prs <> [].
Proof.
  intros [|x rs] prs H Hne; [congruence|]. cbn [parse_ranges] in H.
  destruct (parse_range x); [|discriminate]. destruct (parse_ranges rs); [|discriminate].
  inversion H; subst. discriminate.
Qed.

Lemma resolve_names_no_panic : forall v rc rs prs,
    parse_ranges rs = Some prs -> resolve_names v rc prs <> RPanic.
Proof.
  intros v rc rs prs H E. pose proof (ranges_sound v rc prs (parse_ranges_wf _ _ H)) as Hs.
  rewrite E in Hs. exact Hs.
Qed.

(* ---------------------------------------------------------------- refuse_when_conflicted *)

(* The pinned statement (for every command of [conflict_guarded]) is false: a push / pop whose
   patch selection turns out empty returns before the conflict test.  Counterexamples on a
   concrete conflicted world, then the exact exclusions. *)

Definition cex_idf (s : str) : str := s.

(* two unapplied patches p0, p1 *)
Definition cex_world_unapplied : world :=
  let w := run cex_idf (init_world [1;1;0]%N)
              [CInit; CNew [112;48]%N 1%N [120]%N; GEdit 0 5%N; CRefresh;
               CNew [112;49]%N 2%N [121]%N; CPop None None true false false] in
  with_wt w (w_wt w) true.

(* two applied patches p0, p1 *)
Definition cex_world_applied : world :=
  let w := run cex_idf (init_world [1;1;0]%N)
              [CInit; CNew [112;48]%N 1%N [120]%N; GEdit 0 5%N; CRefresh;
               CNew [112;49]%N 2%N [121]%N] in
  with_wt w (w_wt w) true.

Definition cex_push_neg : cmd := CPush None (Some (-5)%Z) false false false false false false None.
Definition cex_push_nil : cmd := CPush (Some []) None false false false false false false None.
Definition cex_push_open : cmd :=
  CPush (Some [[46;46]%N]) None false false false false false false None.      (* stg push .. *)
Definition cex_pop_neg : cmd := CPop None (Some (-5)%Z) false false false.
Definition cex_pop_nil : cmd := CPop (Some []) None false false false.

(* `stg push -n -5` with two unapplied patches, `stg pop -n -5` with two applied patches:
   exit status 0 although the index is unmerged; `stg push ..` with no unapplied patch: 0;
   an empty range list: 0 resp. a panic *)
Lemma refuse_when_conflicted_counterexample :
  w_unmerged cex_world_unapplied = true /\ w_stack cex_world_unapplied <> None
  /\ w_unmerged cex_world_applied = true /\ w_stack cex_world_applied <> None
  /\ conflict_guarded cex_push_neg = true /\ snd (step cex_idf cex_world_unapplied cex_push_neg) = X0
  /\ conflict_guarded cex_push_nil = true /\ snd (step cex_idf cex_world_unapplied cex_push_nil) = X0
  /\ conflict_guarded cex_push_open = true /\ snd (step cex_idf cex_world_applied cex_push_open) = X0
  /\ conflict_guarded cex_pop_neg = true /\ snd (step cex_idf cex_world_applied cex_pop_neg) = X0
  /\ conflict_guarded cex_pop_nil = true /\ snd (step cex_idf cex_world_applied cex_pop_nil) = XPanic.
Proof. vm_compute. repeat split; discriminate. Qed.

Definition only_open_ranges (rs : list str) : bool :=
  match parse_ranges rs with
  | Some prs => forallb open_range prs
  | None => false
  end.

(* [conflict_guarded] minus:
   - push <ranges> where every range is the fully open `..` (in particular no range at all):
     nothing is selected when no patch is unapplied, exit 0;
   - push -n <negative> (without --all and without ranges): nothing is selected when the count
     exceeds the unapplied patches, exit 0;
   - pop -n <negative> (without --all): same, exit 0;
   - pop with an empty list of ranges (not expressible on the command line): panic. *)
Definition conflict_guarded2 (c : cmd) : bool :=
  conflict_guarded c
  && match c with
     | CPush (Some rs) _ _ _ _ _ _ _ _ => negb (only_open_ranges rs)
     | CPush None (Some z) false _ _ _ _ _ _ => (0 <? z)%Z
     | CPop _ (Some z) false _ _ => (0 <? z)%Z
     | CPop (Some rs) None false _ _ => negb (match rs with [] => true | _ => false end)
     | _ => true
     end.

Definition refused (w : world) (r : world * exitc) : Prop :=
  (snd r = X1 \/ snd r = X2) /\ same_refs w (fst r) /\ w_wt (fst r) = w_wt w
  /\ w_unmerged (fst r) = true.

Lemma forallb_false_exists : forall (f : prange -> bool) l,
    forallb f l = false -> Exists (fun r => f r = false) l.
Proof.
  induction l as [|x l IH]; intros H; cbn [forallb] in H; [discriminate|].
  destruct (f x) eqn:E; cbn [andb] in H.
  - right. apply IH. exact H.
  - left. exact E.
Qed.

Lemma num_to_take_pos : forall z m, (0 <? z)%Z = true -> exists k, num_to_take z (S m) = Some (S k).
Proof.
  intros z m Hz. apply Z.ltb_lt in Hz. unfold num_to_take.
  assert (Hle : (0 <=? z)%Z = true) by (apply Z.leb_le; lia). rewrite Hle.
  destruct (Z.to_nat z) as [|k] eqn:Hk; [lia|]. exists (Nat.min k m). reflexivity.
Qed.

Section Refuse.
  Variable w : world.
  Hypothesis Hu : w_unmerged w = true.
  Hypothesis Hs : w_stack w <> None.

  Lemma refused_x1 : refused w (w, X1).
  Proof. unfold refused, same_refs. cbn [fst snd]. tauto. Qed.

  Lemma refused_x2 : refused w (w, X2).
  Proof. unfold refused, same_refs. cbn [fst snd]. tauto. Qed.

  Lemma refused_open : forall p op,
      open_stack p w = Some op -> p <> PForce ->
      refused w (op_world op, X2) /\ w_unmerged (op_world op) = true.
  Proof.
    intros p op Hop Hp. destruct (open_stack_frame _ _ _ Hop) as [Hb [Hwt Hum]].
    destruct (open_stack_frame_init _ _ _ Hop Hp Hs) as [Hst _].
    unfold refused, same_refs. cbn [fst snd]. rewrite Hb, Hwt, Hum, Hst. tauto.
  Qed.

  Ltac opened op Hr Hu1 :=
    match goal with
    | |- context [open_stack ?p w] =>
        let Hop := fresh "Hop" in
        destruct (open_stack p w) as [op|] eqn:Hop; [|apply refused_x2];
        destruct (refused_open _ _ Hop ltac:(discriminate)) as [Hr Hu1]; cbv zeta
    end.

  Lemma run_goto_refused : forall l kp mg cf, refused w (run_goto w l kp mg cf).
  Proof.
    intros l kp mg cf. unfold run_goto. destruct (parse_locator l); [|apply refused_x1].
    opened op Hr Hu1. rewrite Hu1. exact Hr.
  Qed.

  Lemma run_float_refused : forall r na kp, refused w (run_float w r na kp).
  Proof.
    intros r na kp. unfold run_float. destruct (parse_ranges r); [|apply refused_x1].
    opened op Hr Hu1. rewrite Hu1. exact Hr.
  Qed.

  Lemma run_sink_refused : forall r tg np kp, refused w (run_sink w r tg np kp).
  Proof.
    intros r tg np kp. unfold run_sink. cbv zeta.
    destruct (match r with Some rs => parse_ranges rs | None => Some [] end); [|apply refused_x1].
    match goal with
    | |- refused w (match ?t with Some _ => _ | None => _ end) => destruct t; [|apply refused_x1]
    end.
    opened op Hr Hu1. rewrite Hu1. exact Hr.
  Qed.

  Lemma run_new_refused : forall nm meta msg, refused w (run_new w nm meta msg).
  Proof.
    intros nm meta msg. unfold run_new. destruct (from_str nm); [|apply refused_x1].
    opened op Hr Hu1. rewrite Hu1. exact Hr.
  Qed.

  Lemma run_spill_refused : refused w (run_spill w).
  Proof. unfold run_spill. opened op Hr Hu1. rewrite Hu1. exact Hr. Qed.

  Lemma run_refresh_refused : refused w (run_refresh w).
  Proof.
    unfold run_refresh. opened op Hr Hu1.
    destruct (negb (head_top_ok op)); [exact Hr|].
    destruct (last_error (s_applied (op_state op))); [|exact Hr].
    rewrite Hu1. exact Hr.
  Qed.

  Lemma run_squash_refused : forall r nm meta msg, refused w (run_squash w r nm meta msg).
  Proof.
    intros r nm meta msg. unfold run_squash.
    destruct (parse_ranges r); [|apply refused_x1].
    destruct (from_str nm); [|apply refused_x1].
    opened op Hr Hu1. rewrite Hu1. exact Hr.
  Qed.

  Lemma run_delete_refused : forall r tp al fa fu fh sp cf,
      refused w (run_delete w r tp al fa fu fh sp cf).
  Proof.
    intros r tp al fa fu fh sp cf. unfold run_delete. cbv zeta.
    destruct (match r with Some rs => parse_ranges rs | None => Some [] end) as [prs|] eqn:Hp;
      [|apply refused_x1].
    opened op Hr Hu1.
    match goal with
    | |- refused w (rres_bind _ ?pr _) => destruct pr as [ps|e|] eqn:Hpr
    end; unfold rres_bind.
    - destruct (sp && _); [exact Hr|]. rewrite Hu1. exact Hr.
    - exact Hr.
    - exfalso. destruct tp.
      + destruct (last_error (s_applied (op_state op))); discriminate.
      + destruct r as [rs|].
        * revert Hpr. eapply resolve_names_no_panic. exact Hp.
        * destruct al; discriminate.
  Qed.

  Lemma run_push_refused : forall r n al rv na st mg kp cf,
      conflict_guarded2 (CPush r n al rv na st mg kp cf) = true ->
      refused w (run_push w r n al rv na st mg kp cf).
  Proof.
    intros r n al rv na st mg kp cf Hg. unfold conflict_guarded2 in Hg.
    apply andb_true_iff in Hg. destruct Hg as [Hg1 Hg2].
    assert (Hz : match n with Some z => (z =? 0)%Z | None => false end = false).
    { destruct n as [[|p|p]|]; try reflexivity. cbn in Hg1. discriminate. }
    unfold run_push. opened op Hr Hu1. rewrite Hz.
    destruct r as [rs|].
    - unfold only_open_ranges in Hg2.
      destruct (parse_ranges rs) as [prs|] eqn:Hp; [|apply refused_x1].
      apply negb_true_iff in Hg2. apply forallb_false_exists in Hg2.
      destruct (resolve_names (view_of (op_state op)) RCUnapplied prs) as [l|e|] eqn:Hres.
      + assert (Hl : l <> []).
        { unfold resolve_names in Hres. eapply names_loop_nonempty; [exact Hres|]. right.
          eapply Exists_impl; [|exact Hg2]. intros a Ha. left. exact Ha. }
        destruct l as [|x l]; [congruence|]. rewrite Hu1. exact Hr.
      + exact Hr.
      + exfalso. revert Hres. eapply resolve_names_no_panic. exact Hp.
    - destruct (s_unapplied (op_state op)) as [|u us] eqn:Hun; [exact Hr|].
      destruct al.
      + rewrite Hu1. exact Hr.
      + destruct n as [z|].
        * destruct (num_to_take_pos z (length us) Hg2) as [k Hk].
          cbn [length]. rewrite Hk. cbn [firstn]. rewrite Hu1. exact Hr.
        * cbn [firstn]. rewrite Hu1. exact Hr.
  Qed.

  Lemma run_pop_refused : forall r n al kp sp,
      conflict_guarded2 (CPop r n al kp sp) = true ->
      refused w (run_pop w r n al kp sp).
  Proof.
    intros r n al kp sp Hg. unfold conflict_guarded2 in Hg.
    apply andb_true_iff in Hg. destruct Hg as [Hg1 Hg2].
    assert (Hz : match n with Some z => (z =? 0)%Z | None => false end = false).
    { destruct n as [[|p|p]|]; try reflexivity. cbn in Hg1. discriminate. }
    unfold run_pop. opened op Hr Hu1. rewrite Hz.
    destruct (s_applied (op_state op)) as [|a as_] eqn:Hap; [exact Hr|].
    assert (Hrev : exists y ys, rev (a :: as_) = y :: ys).
    { destruct (rev (a :: as_)) as [|y ys] eqn:E; [|eauto].
      apply (f_equal (@length name)) in E. rewrite rev_length in E. discriminate. }
    destruct Hrev as [y [ys Hrev]].
    destruct al.
    - rewrite Hu1. exact Hr.
    - destruct n as [z|].
      + assert (Hg3 : (0 <? z)%Z = true) by (destruct r; exact Hg2).
        destruct (num_to_take_pos z (length as_) Hg3) as [k Hk].
        cbn [length]. rewrite Hk, Hrev. cbn [firstn]. rewrite Hu1. exact Hr.
      + destruct r as [rs|].
        * destruct (parse_ranges rs) as [prs|] eqn:Hp; [|apply refused_x1].
          assert (Hne : prs <> []).
          { eapply parse_ranges_nonempty; [exact Hp|]. destruct rs; [discriminate|discriminate]. }
          destruct (resolve_names (view_of (op_state op)) RCApplied prs) as [l|e|] eqn:Hres.
          -- assert (Hl : l <> []).
             { unfold resolve_names in Hres. eapply names_loop_nonempty; [exact Hres|]. right.
               destruct prs as [|p0 prs]; [congruence|]. left. right.
               cbn [lc_of allowed view_of v_applied]. rewrite Hap. discriminate. }
             destruct l as [|x l]; [congruence|]. rewrite Hu1. exact Hr.
          -- exact Hr.
          -- exfalso. revert Hres. eapply resolve_names_no_panic. exact Hp.
        * rewrite Hrev. cbn [firstn]. rewrite Hu1. exact Hr.
  Qed.
End Refuse.

Lemma refuse_when_conflicted_partial :
  forall lower_s w c,
    conflict_guarded2 c = true -> w_unmerged w = true -> w_stack w <> None ->
    let '(w', x) := step lower_s w c in
    (x = X1 \/ x = X2) /\ same_refs w w' /\ w_wt w' = w_wt w /\ w_unmerged w' = true.
Proof.
  intros lower_s w c Hg Hu Hs.
  assert (H : refused w (step lower_s w c)).
  { destruct c; try (cbn in Hg; discriminate); cbn [step].
    - apply run_new_refused; assumption.
    - apply run_refresh_refused; assumption.
    - apply run_push_refused; assumption.
    - apply run_pop_refused; assumption.
    - apply run_goto_refused; assumption.
    - apply run_float_refused; assumption.
    - apply run_sink_refused; assumption.
    - apply run_delete_refused; assumption.
    - apply run_spill_refused; assumption.
    - apply run_squash_refused; assumption. }
  destruct (step lower_s w c) as [w' x]. exact H.
Qed.

(* Model/Cmd.v leaves N_scope open and Gen/CmdTable.v string_scope; the statements of
   Properties/C09.v use [++] on lists, so list_scope is put back on top for importers. *)
Global Open Scope list_scope.
