(* C09 - proofs: conflicting pushes halt in a well-defined state; commands refuse to run while
   the index is unmerged.  Also: frame lemmas for open_stack / execute that are reused by
   Proofs/CommitProofs.v and Proofs/RepairProofs.v. *)
From Coq Require Import List NArith ZArith Bool Arith Lia.
From StgV Require Import Model.CmdSpec Model.LocatorSpec.
From StgV Require Import Proofs.CharsProofs Proofs.ReorderProofs Proofs.ReachBase Proofs.ReachStep
  Proofs.LocatorProofs Proofs.PickBasics.
From StgV Require Proofs.WfFrame Proofs.WfCmd.
Import ListNotations.
Local Open Scope nat_scope.

(* ---------------------------------------------------------------- generic tactics *)

Ltac brk_in H :=
  match type of H with
  | context [match ?x with _ => _ end] =>
      lazymatch x with
      | context [match _ with _ => _ end] => fail
      | _ => destruct x eqn:?
      end
  end.

Ltac brk_any_in H :=
  first [ brk_in H
        | match type of H with
          | context [match ?x with _ => _ end] => destruct x eqn:?
          end ].

(* ---------------------------------------------------------------- halt_keeps_earlier *)

Lemma halt_keeps_earlier :
  forall ns merged t t',
    push_list ns merged t = THalt t' HConflict ->
    exists pre n post t1,
      ns = pre ++ n :: post
      /\ push_list pre merged t = TOk t1
      /\ push_patch n (mem n merged) t1 = THalt t' HConflict.
Proof.
  induction ns as [|n ns IH]; intros merged t t' H; cbn [push_list] in H; [discriminate|].
  destruct (push_patch n (mem n merged) t) as [t1|t1 h|t1|] eqn:Hp; cbn [tbind] in H;
    try discriminate.
  - destruct (IH merged t1 t' H) as [pre [m [post [t2 [Hns [Hpre Hm]]]]]].
    exists (n :: pre), m, post, t2. split; [|split].
    + rewrite Hns. reflexivity.
    + cbn [push_list]. rewrite Hp. cbn [tbind]. exact Hpre.
    + exact Hm.
  - inversion H; subst t1 h. exists [], n, ns, t. split; [reflexivity|]. split; [reflexivity|exact Hp].
Qed.

(* ---------------------------------------------------------------- halt_exit *)

Lemma execute_ok_body : forall w t msg, execute w (TOk t) msg = exec_body w t None msg.
Proof. reflexivity. Qed.

Lemma execute_halt_body : forall w t h msg, execute w (THalt t h) msg = exec_body w t (Some h) msg.
Proof. reflexivity. Qed.

Lemma halt_exit :
  forall w t h msg w' x, execute w (THalt t h) msg = (w', x) -> x <> X0.
Proof.
  intros w t h msg w' x H. rewrite execute_halt_body in H. unfold exec_body in H.
  cbv zeta in H.
  repeat brk_any_in H; inversion H; subst; try discriminate.
Qed.

(* ---------------------------------------------------------------- disallow_keeps_unapplied *)

(* what the temp-index preparation leaves alone besides [core] *)
Definition wtc (t : txn) := (t_opts t, t_wt t, t_wt_unmerged t, t_cur_tree t).

Lemma wtc_tmp_prep : forall t ours, wtc (tmp_prep t ours) = wtc t.
Proof.
  intros t ours. unfold tmp_prep. destruct (t_tmp_id t) as [c|]; [|reflexivity].
  destruct (tree_eqb c ours); reflexivity.
Qed.

Lemma wtc_set_tmp : forall t a b, wtc (set_tmp t a b) = wtc t.
Proof. reflexivity. Qed.

Lemma wtc_inv : forall a b, wtc a = wtc b ->
  t_opts a = t_opts b /\ t_wt a = t_wt b /\ t_wt_unmerged a = t_wt_unmerged b.
Proof. intros a b H. unfold wtc in H. inversion H. repeat split; assumption. Qed.

Lemma push_sel_halt_disallow : forall am t ptree otree ntree r,
    o_allow_push_conflicts (t_opts t) = false ->
    push_sel am t ptree otree ntree = inr r ->
    exists t2, r = THalt t2 HNoConflict /\ core t2 = core t /\ wtc t2 = wtc t.
Proof.
  intros am t ptree otree ntree r Hallow H. rewrite push_sel_eq in H.
  destruct am; [discriminate|].
  destruct (tree_eqb otree ntree); [discriminate|].
  destruct (tree_eqb otree ptree); [discriminate|].
  destruct (tree_eqb ntree ptree); [discriminate|].
  cbv zeta in H.
  match type of H with
  | context[tmp_prep ?t ?o] =>
      pose proof (core_tmp_prep t o) as Hc1; pose proof (wtc_tmp_prep t o) as Hw1;
      set (t1 := tmp_prep t o) in *
  end.
  destruct (apply3way _ _ _ _); [discriminate|].
  assert (Ho : t_opts (set_tmp t1 None (t_tmp_content t1)) = t_opts t).
  { apply wtc_inv in Hw1. destruct Hw1 as [Ho _]. exact Ho. }
  rewrite Ho, Hallow in H. cbn [negb] in H.
  destruct (negb (o_use_iw (t_opts t))); inversion H; subst;
    (eexists; split; [reflexivity|]; split;
     [rewrite core_set_tmp; exact Hc1|rewrite wtc_set_tmp; exact Hw1]).
Qed.

Lemma push_sel_conflict_allowed : forall am t ptree otree ntree t2 nt,
    push_sel am t ptree otree ntree = inl (t2, nt, PSConflict) ->
    o_allow_push_conflicts (t_opts t) = true.
Proof.
  intros am t ptree otree ntree t2 nt H. rewrite push_sel_eq in H.
  destruct am; [discriminate|].
  destruct (tree_eqb otree ntree); [discriminate|].
  destruct (tree_eqb otree ptree); [discriminate|].
  destruct (tree_eqb ntree ptree); [discriminate|].
  cbv zeta in H.
  match type of H with
  | context[tmp_prep ?t ?o] =>
      pose proof (wtc_tmp_prep t o) as Hw1; set (t1 := tmp_prep t o) in *
  end.
  destruct (apply3way _ _ _ _); [discriminate|].
  assert (Ho : t_opts (set_tmp t1 None (t_tmp_content t1)) = t_opts t).
  { apply wtc_inv in Hw1. destruct Hw1 as [Ho _]. exact Ho. }
  rewrite Ho in H.
  destruct (negb (o_use_iw (t_opts t))); [discriminate|].
  destruct (o_allow_push_conflicts (t_opts t)); [reflexivity|]. cbn [negb] in H. discriminate.
Qed.

Lemma disallow_keeps_unapplied :
  forall n am t t' h,
    o_allow_push_conflicts (t_opts t) = false ->
    push_patch n am t = THalt t' h ->
    h = HNoConflict
    /\ t_applied t' = t_applied t /\ t_unapplied t' = t_unapplied t /\ t_hidden t' = t_hidden t
    /\ t_updated t' = t_updated t /\ t_wt t' = t_wt t /\ t_wt_unmerged t' = t_wt_unmerged t.
Proof.
  intros n am t t' h Hallow H. apply push_patch_halt in H.
  destruct H as [[pc [np [op Hsel]]]|[pc [np [op [t2 [nt [Hsel _]]]]]]].
  - apply (push_sel_halt_disallow _ _ _ _ _ _ Hallow) in Hsel.
    destruct Hsel as [t2 [Hr [Hc Hw]]]. inversion Hr; subst t2 h.
    unfold core in Hc. inversion Hc. apply wtc_inv in Hw. destruct Hw as [_ [Hw1 Hw2]].
    repeat split; assumption.
  - apply push_sel_conflict_allowed in Hsel. congruence.
Qed.

(* ---------------------------------------------------------------- open_stack: frame *)

Lemma open_stack_frame : forall p w op,
    open_stack p w = Some op ->
    w_branch (op_world op) = w_branch w
    /\ w_wt (op_world op) = w_wt w
    /\ w_unmerged (op_world op) = w_unmerged w.
Proof.
  intros p w op H. unfold open_stack in H.
  repeat brk_any_in H; inversion H; subst; cbn; repeat split; reflexivity.
Qed.

(* an initialised stack is opened without touching the stack ref or the store *)
Lemma open_stack_frame_init : forall p w op,
    open_stack p w = Some op -> p <> PForce -> w_stack w <> None ->
    w_stack (op_world op) = w_stack w
    /\ w_objs (op_world op) = w_objs w
    /\ op_initialized op = true.
Proof.
  intros p w op H Hp Hs. unfold open_stack in H.
  destruct (w_stack w) as [so|] eqn:Hso; [|congruence].
  destruct p; try congruence;
    repeat brk_any_in H; inversion H; subst; cbn; repeat split; try reflexivity; assumption.
Qed.

(* ---------------------------------------------------------------- execute: frame *)

Lemma log_external_mods_frame : forall w s w1 s1,
    log_external_mods w s = Some (w1, s1) ->
    w_branch w1 = w_branch w /\ w_wt w1 = w_wt w /\ w_unmerged w1 = w_unmerged w.
Proof.
  intros w s w1 s1 H. unfold log_external_mods in H.
  repeat brk_any_in H; inversion H; subst; cbn; repeat split; reflexivity.
Qed.

Ltac use_log_frame :=
  repeat match goal with
         | Hl : log_external_mods _ _ = Some _ |- _ =>
             apply log_external_mods_frame in Hl;
             cbn [w_branch w_wt w_unmerged] in Hl;
             let a := fresh "Hlb" in let b := fresh "Hlw" in let c := fresh "Hlu" in
             destruct Hl as [a [b c]]
         end.

(* no checkout: the work tree and the index are whatever the transaction carries; without
   set_head the branch does not move *)
Lemma exec_body_frame : forall w t halted msg w' x,
    o_set_head (t_opts t) && o_use_iw (t_opts t) = false ->
    exec_body w t halted msg = (w', x) ->
    (t_wt t = w_wt w -> t_wt_unmerged t = w_unmerged w ->
     w_wt w' = w_wt w /\ w_unmerged w' = w_unmerged w)
    /\ (o_set_head (t_opts t) = false -> w_branch w' = w_branch w).
Proof.
  intros w t halted msg w' x Hco H. unfold exec_body in H. cbv zeta in H.
  rewrite Hco in H.
  repeat brk_any_in H; use_log_frame; inversion H; subst;
    cbn [w_branch w_wt w_unmerged];
    (split; [intros Hwt Hum; split; congruence|intros Hsh; try rewrite Hsh; congruence]).
Qed.

Definition txn_of (r : tres) : option txn :=
  match r with TOk t | THalt t _ | TErr t => Some t | TPanic => None end.

Lemma execute_frame : forall w r msg w' x,
    (forall t, txn_of r = Some t ->
               o_set_head (t_opts t) && o_use_iw (t_opts t) = false
               /\ t_wt t = w_wt w /\ t_wt_unmerged t = w_unmerged w) ->
    execute w r msg = (w', x) ->
    w_wt w' = w_wt w /\ w_unmerged w' = w_unmerged w
    /\ ((forall t, txn_of r = Some t -> o_set_head (t_opts t) = false) -> w_branch w' = w_branch w).
Proof.
  intros w r msg w' x Hr H. destruct r as [t|t h|t|].
  - destruct (Hr t eq_refl) as [Hco [Hwt Hum]].
    rewrite execute_ok_body in H. apply (exec_body_frame _ _ _ _ _ _ Hco) in H.
    destruct H as [H1 H2]. destruct (H1 Hwt Hum) as [H3 H4].
    split; [exact H3|]. split; [exact H4|]. intros Hsh. apply H2. apply Hsh. reflexivity.
  - destruct (Hr t eq_refl) as [Hco [Hwt Hum]].
    rewrite execute_halt_body in H. apply (exec_body_frame _ _ _ _ _ _ Hco) in H.
    destruct H as [H1 H2]. destruct (H1 Hwt Hum) as [H3 H4].
    split; [exact H3|]. split; [exact H4|]. intros Hsh. apply H2. apply Hsh. reflexivity.
  - destruct (Hr t eq_refl) as [Hco [Hwt Hum]].
    cbn [execute] in H. inversion H; subst. cbn. repeat split; try assumption. 
  - cbn [execute] in H. inversion H; subst. repeat split; reflexivity.
Qed.

(* ---------------------------------------------------------------- transact: frame *)

(* closures that leave the options and the (real) index / work tree of the transaction alone *)
Definition keeps_wt (f : txn -> tres) : Prop :=
  forall t t', txn_of (f t) = Some t' ->
               t_opts t' = t_opts t /\ t_wt t' = t_wt t /\ t_wt_unmerged t' = t_wt_unmerged t.

Lemma keeps_wt_tbind : forall f g, keeps_wt f -> keeps_wt g -> keeps_wt (fun t => tbind (f t) g).
Proof.
  intros f g Kf Kg t t' H. destruct (f t) as [t1|t1 h|t1|] eqn:Ef; cbn [tbind] in H.
  - destruct (Kf t t1) as [A [B C]]; [rewrite Ef; reflexivity|].
    destruct (Kg t1 t' H) as [A' [B' C']]. repeat split; congruence.
  - apply Kf. rewrite Ef. exact H.
  - apply Kf. rewrite Ef. exact H.
  - discriminate.
Qed.

Lemma transact_frame : forall op o f msg w' x,
    o_set_head o && o_use_iw o = false -> keeps_wt f ->
    transact op o f msg = (w', x) ->
    w_wt w' = w_wt (op_world op) /\ w_unmerged w' = w_unmerged (op_world op)
    /\ (o_set_head o = false -> w_branch w' = w_branch (op_world op)).
Proof.
  intros op o f msg w' x Hco Kf H. unfold transact in H.
  destruct (negb (op_initialized op)).
  - assert (E : w' = op_world op) by (destruct (f (begin_txn op o)); inversion H; reflexivity).
    subst w'. repeat split; reflexivity.
  - assert (Ht : forall t, txn_of (f (begin_txn op o)) = Some t ->
                           t_opts t = o /\ t_wt t = w_wt (op_world op)
                           /\ t_wt_unmerged t = w_unmerged (op_world op)).
    { intros t Ht. apply Kf in Ht. exact Ht. }
    apply execute_frame in H.
    + destruct H as [A [B C]]. split; [exact A|]. split; [exact B|].
      intros Hsh. apply C. intros t Ht'. apply Ht in Ht'. destruct Ht' as [-> _]. exact Hsh.
    + intros t Ht'. apply Ht in Ht'. destruct Ht' as [-> [A B]]. repeat split; assumption.
Qed.

(* ---------------------------------------------------------------- undo_needs_hard *)

Lemma checkout_unmerged : forall o st tt wt cur tgt,
    o_discard_changes o = false -> o_conflict_mode o = CDisallow ->
    checkout o st tt wt true cur tgt = None.
Proof.
  intros o st tt wt cur tgt Hd Hc. unfold checkout. rewrite Hd, Hc.
  destruct (tree_eqb cur tgt); reflexivity.
Qed.

(* a transaction that must check out its result (set_head, use_iw) without discarding changes
   is refused while the index is unmerged: no success, branch and index untouched *)
Lemma exec_body_unmerged_refused : forall w t halted msg w' x,
    o_set_head (t_opts t) = true -> o_use_iw (t_opts t) = true ->
    o_allow_bad_head (t_opts t) = true -> o_discard_changes (t_opts t) = false ->
    o_conflict_mode (t_opts t) = CDisallow ->
    t_wt_unmerged t = true -> w_unmerged w = true ->
    exec_body w t halted msg = (w', x) ->
    x <> X0 /\ w_branch w' = w_branch w /\ w_unmerged w' = true.
Proof.
  intros w t halted msg w' x Hsh Hiw Hbh Hd Hc Htu Hwu H. unfold exec_body in H. cbv zeta in H.
  rewrite Hsh, Hiw, Hbh in H. cbn [andb negb] in H.
  repeat brk_any_in H; use_log_frame;
    repeat match goal with
           | Hk : checkout _ _ _ _ ?u _ _ = Some _ |- _ =>
               cbn [w_unmerged] in Hk;
               first [ rewrite Htu in Hk | rewrite Hlu, Htu in Hk ];
               rewrite (checkout_unmerged _ _ _ _ _ _ Hd Hc) in Hk; discriminate Hk
           end;
    inversion H; subst; cbn [w_branch w_unmerged];
    (split; [discriminate|split; congruence]).
Qed.

Lemma reset_to_state_cases : forall st t,
    reset_to_state st t = TErr t
    \/ exists t', reset_to_state st t = TOk t' /\ t_opts t' = t_opts t
                  /\ t_wt_unmerged t' = t_wt_unmerged t /\ t_wt t' = t_wt t.
Proof.
  intros st t. unfold reset_to_state.
  match goal with
  | |- match ?nb with Some _ => _ | None => _ end = _ \/ _ => destruct nb as [b|]
  end; [|left; reflexivity].
  right. eexists. split; [reflexivity|]. repeat split; reflexivity.
Qed.

Lemma undo_needs_hard :
  forall w n,
    w_unmerged w = true ->
    let '(w', x) := run_undo w n false in
    x <> X0 /\ w_branch w' = w_branch w /\ w_unmerged w' = true.
Proof.
  intros w n Hu. destruct (run_undo w n false) as [w' x] eqn:H.
  unfold run_undo in H. destruct (n <? 1)%Z.
  { inversion H; subst. split; [discriminate|split; [reflexivity|exact Hu]]. }
  unfold run_undo_like in H.
  destruct (open_stack PRequire w) as [op0|] eqn:Hop.
  2:{ unfold err2 in H. inversion H; subst. split; [discriminate|split; [reflexivity|exact Hu]]. }
  destruct (open_stack_frame _ _ _ Hop) as [Hb0 [_ Hum0]].
  destruct (log_extmods_first op0) as [op|] eqn:Hlf.
  2:{ unfold err2 in H. inversion H; subst. split; [discriminate|split; [exact Hb0|congruence]]. }
  assert (Hfr : w_branch (op_world op) = w_branch (op_world op0)
                /\ w_unmerged (op_world op) = w_unmerged (op_world op0)).
  { unfold log_extmods_first in Hlf. destruct (Nat.eqb _ _); [inversion Hlf; subst; split; reflexivity|].
    destruct (log_external_mods _ _) as [[w1 s1]|] eqn:Hl; [|discriminate].
    apply log_external_mods_frame in Hl. destruct Hl as [A [_ C]].
    inversion Hlf; subst. cbn [op_world]. split; assumption. }
  destruct Hfr as [Hb1 Hum1].
  assert (Hb : w_branch (op_world op) = w_branch w) by congruence.
  assert (Hu1 : w_unmerged (op_world op) = true) by congruence.
  clear Hlf. unfold transact in H.
  set (t0 := begin_txn op (opts CDisallow (w_apc (op_world op)) false true true true)) in *.
  assert (Ht0 : t_opts t0 = opts CDisallow (w_apc (op_world op)) false true true true) by reflexivity.
  assert (Ht0u : t_wt_unmerged t0 = true) by exact Hu1.
  assert (Herr : forall w2 x2, execute (op_world op) (TErr t0) (MUndo n) = (w2, x2) ->
                              x2 <> X0 /\ w_branch w2 = w_branch w /\ w_unmerged w2 = true).
  { intros w2 x2 He. cbn [execute] in He. inversion He; subst.
    cbn [w_branch w_unmerged]. split; [discriminate|split; assumption]. }
  destruct (negb (op_initialized op)).
  { assert (Hx : x <> X0 /\ w' = op_world op).
    { repeat brk_any_in H; inversion H; subst; split; try discriminate; reflexivity. }
    destruct Hx as [Hx ->]. split; [exact Hx|split; assumption]. }
  destruct (w_stack (op_world op)) as [so|]; [|apply Herr; exact H].
  destruct (find_undo_state _ _ so n) as [st|]; [|apply Herr; exact H].
  destruct (reset_to_state_cases st t0) as [He|[t' [Hok [Ho [Htu _]]]]].
  { rewrite He in H. apply Herr. exact H. }
  rewrite Hok, execute_ok_body in H. rewrite Ht0 in Ho. rewrite Ht0u in Htu.
  apply exec_body_unmerged_refused in H; try (rewrite Ho; reflexivity); try assumption.
  rewrite Hb in H. exact H.
Qed.

(* ---------------------------------------------------------------- non-empty range expansion *)

Definition open_range (r : prange) : bool :=
  match r with RRange None None => true | _ => false end.

(* a range that certainly selects something (or fails): anything but `..`, or `..` over a
   non-empty list of allowed patches *)
Definition rprog (v : sview) (rc : rconstraint) (r : prange) : Prop :=
  open_range r = false \/ allowed v (lc_of rc) <> [].

Lemma names_loop_prefix : forall v rc prs acc l,
    resolve_names_loop v rc prs acc = ROk l -> exists ext, l = acc ++ ext.
Proof.
  intros v rc prs. induction prs as [|r prs IH]; intros acc l H.
  - cbn [resolve_names_loop] in H. inversion H; subst. exists []. now rewrite app_nil_r.
  - destruct r as [lc|b e].
    + cbn [resolve_names_loop] in H.
      destruct (resolve_constrained v (lc_of rc) lc) as [n|err|]; try discriminate.
      destruct (in_list n acc); [discriminate|].
      apply IH in H. destruct H as [ext ->]. exists ([n] ++ ext). now rewrite app_assoc.
    + rewrite names_range_eq in H.
      destruct (range_pre v rc b e) as [[en bp]|err|]; try discriminate.
      unfold names_tail in H. cbv zeta in H.
      destruct (end_position _ _ _ _ _) as [[ep|]|err|]; try discriminate.
      * destruct (Nat.ltb _ _); [discriminate|].
        destruct (add_unique acc _) as [acc'|err|] eqn:Ea; try discriminate.
        apply add_unique_app in Ea. apply IH in H. destruct H as [ext ->]. subst acc'.
        eexists. rewrite <- app_assoc. reflexivity.
      * apply IH in H. exact H.
Qed.

Lemma names_loop_acc_nonempty : forall v rc prs acc l,
    resolve_names_loop v rc prs acc = ROk l -> acc <> [] -> l <> [].
Proof.
  intros v rc prs acc l H Hacc. apply names_loop_prefix in H. destruct H as [ext ->].
  destruct acc; [congruence|discriminate].
Qed.

Lemma slice_nonempty : forall (l : list str) i j, i <= j -> j < length l -> slice i j l <> [].
Proof.
  intros l i j Hij Hj E. apply (f_equal (@length str)) in E. unfold slice in E.
  rewrite firstn_length, skipn_length in E. cbn [length] in E. lia.
Qed.

Lemma resolve_opt_some_in : forall v c lc x,
    resolve_opt v c (Some lc) = ROk x -> exists n, x = Some n /\ In n (allowed v c).
Proof.
  intros v c lc x H. unfold resolve_opt in H.
  destruct (resolve_constrained v c lc) as [n|err|] eqn:E; try discriminate.
  inversion H; subst. exists n. split; [reflexivity|].
  unfold resolve_constrained in E. destruct (resolve_name v lc) as [n0|err|]; try discriminate.
  apply constrain_spec in E. destruct E as [-> Hin]. exact Hin.
Qed.

Lemma end_position_none : forall v rc al bp en,
    end_position v rc al bp en = ROk None -> en = None /\ al = [].
Proof.
  intros v rc al bp en H. unfold end_position in H. destruct en as [n|].
  - destruct (index_of_str n al); discriminate.
  - split; [reflexivity|]. destruct (_ && _); [discriminate|]. destruct al; [reflexivity|discriminate].
Qed.

Lemma names_loop_nonempty : forall v rc prs acc l,
    resolve_names_loop v rc prs acc = ROk l ->
    acc <> [] \/ Exists (rprog v rc) prs -> l <> [].
Proof.
  intros v rc prs. induction prs as [|r prs IH]; intros acc l H Hp.
  - destruct Hp as [Hacc|Hex]; [|inversion Hex].
    eapply names_loop_acc_nonempty; eassumption.
  - destruct Hp as [Hacc|Hex]; [eapply names_loop_acc_nonempty; eassumption|].
    destruct r as [lc|b e].
    + cbn [resolve_names_loop] in H.
      destruct (resolve_constrained v (lc_of rc) lc) as [n|err|]; try discriminate.
      destruct (in_list n acc); [discriminate|].
      eapply names_loop_acc_nonempty; [exact H|]. destruct acc; discriminate.
    + rewrite names_range_eq in H.
      destruct (range_pre v rc b e) as [[en bp]|err|] eqn:Hpre; try discriminate.
      unfold names_tail in H. cbv zeta in H.
      destruct (end_position _ _ _ _ _) as [[ep|]|err|] eqn:Hend; try discriminate.
      * destruct (Nat.ltb _ _) eqn:Hlt; [discriminate|]. apply Nat.ltb_ge in Hlt.
        destruct (add_unique acc _) as [acc'|err|] eqn:Ea; try discriminate.
        apply add_unique_app in Ea. eapply names_loop_acc_nonempty; [exact H|].
        subst acc'. intro E. apply app_eq_nil in E. destruct E as [_ E].
        destruct (Nat.leb bp ep) eqn:Hle.
        -- apply Nat.leb_le in Hle. revert E. apply slice_nonempty; lia.
        -- apply Nat.leb_gt in Hle. apply (f_equal (@rev str)) in E.
           rewrite rev_involutive in E. cbn [rev] in E. revert E. apply slice_nonempty; lia.
      * apply end_position_none in Hend. destruct Hend as [-> Hal].
        inversion Hex as [r0 l0 Hr|r0 l0 Hr]; subst.
        -- exfalso. destruct Hr as [Hopen|Hne]; [|contradiction].
           unfold range_pre in Hpre.
           destruct b as [lb|].
           ++ destruct (resolve_opt v (lc_of rc) (Some lb)) as [bn|err|] eqn:Eb; try discriminate.
              apply resolve_opt_some_in in Eb. destruct Eb as [n [_ Hin]].
              rewrite Hal in Hin. destruct Hin.
           ++ destruct e as [le|]; [|discriminate].
              assert (Hn : resolve_opt v (lc_of rc) None = ROk None) by reflexivity.
              rewrite Hn in Hpre. cbv iota beta in Hpre.
              destruct (resolve_opt v (lc_of rc) (Some le)) as [en|err|] eqn:Ee; try discriminate.
              apply resolve_opt_some_in in Ee. destruct Ee as [n [-> Hin]].
              cbv iota beta in Hpre. inversion Hpre.
        -- eapply IH; [exact H|]. right. assumption.
Qed.

Lemma parse_ranges_wf : forall rs prs, parse_ranges rs = Some prs -> Forall wf_range prs.
Proof.
  induction rs as [|x rs IH]; intros prs H; cbn [parse_ranges] in H.
  - inversion H; subst. constructor.
  - destruct (parse_range x) as [r|] eqn:Hr; [|discriminate].
    destruct (parse_ranges rs) as [prs'|]; [|discriminate].
    inversion H; subst. constructor; [eapply parsed_range_wf; exact Hr|apply IH; reflexivity].
Qed.

Lemma parse_ranges_nonempty : forall rs prs, parse_ranges rs = Some prs -> rs <> [] -> prs <> [].
Proof.
  intros [|x rs] prs H Hne; [congruence|]. cbn [parse_ranges] in H.
  destruct (parse_range x); [|discriminate]. destruct (parse_ranges rs); [|discriminate].
  inversion H; subst. discriminate.
Qed.

Lemma resolve_names_no_panic : forall v rc rs prs,
    parse_ranges rs = Some prs -> resolve_names v rc prs <> RPanic.
Proof.
  intros v rc rs prs H E. pose proof (ranges_sound v rc prs (parse_ranges_wf _ _ H)) as Hs.
  rewrite E in Hs. exact Hs.
Qed.

(* ---------------------------------------------------------------- refuse_when_conflicted *)

(* The pinned statement (for every command of [conflict_guarded]) is false: a push / pop whose
   patch selection turns out empty returns before the conflict test.  Counterexamples on a
   concrete conflicted world, then the exact exclusions. *)

Definition cex_idf (s : str) : str := s.

(* two unapplied patches p0, p1 *)
Definition cex_world_unapplied : world :=
  let w := run cex_idf (init_world [1;1;0]%N)
              [CInit; CNew [112;48]%N 1%N [120]%N; GEdit 0 5%N; CRefresh None;
               CNew [112;49]%N 2%N [121]%N; CPop None None true false false] in
  with_wt w (w_wt w) true.

(* two applied patches p0, p1 *)
Definition cex_world_applied : world :=
  let w := run cex_idf (init_world [1;1;0]%N)
              [CInit; CNew [112;48]%N 1%N [120]%N; GEdit 0 5%N; CRefresh None;
               CNew [112;49]%N 2%N [121]%N] in
  with_wt w (w_wt w) true.

Definition cex_push_neg : cmd := CPush None (Some (-5)%Z) false false false false false false None.
Definition cex_push_nil : cmd := CPush (Some []) None false false false false false false None.
Definition cex_push_open : cmd :=
  CPush (Some [[46;46]%N]) None false false false false false false None.      (* stg push .. *)
Definition cex_pop_neg : cmd := CPop None (Some (-5)%Z) false false false.
Definition cex_pop_nil : cmd := CPop (Some []) None false false false.

(* `stg push -n -5` with two unapplied patches, `stg pop -n -5` with two applied patches:
   exit status 0 although the index is unmerged; `stg push ..` with no unapplied patch: 0;
   an empty range list: 0 resp. a panic *)
Lemma refuse_when_conflicted_counterexample :
  w_unmerged cex_world_unapplied = true /\ w_stack cex_world_unapplied <> None
  /\ w_unmerged cex_world_applied = true /\ w_stack cex_world_applied <> None
  /\ conflict_guarded cex_push_neg = true /\ snd (step cex_idf cex_world_unapplied cex_push_neg) = X0
  /\ conflict_guarded cex_push_nil = true /\ snd (step cex_idf cex_world_unapplied cex_push_nil) = X0
  /\ conflict_guarded cex_push_open = true /\ snd (step cex_idf cex_world_applied cex_push_open) = X0
  /\ conflict_guarded cex_pop_neg = true /\ snd (step cex_idf cex_world_applied cex_pop_neg) = X0
  /\ conflict_guarded cex_pop_nil = true /\ snd (step cex_idf cex_world_applied cex_pop_nil) = XPanic.
Proof. vm_compute. repeat split; discriminate. Qed.

Definition only_open_ranges (rs : list str) : bool :=
  match parse_ranges rs with
  | Some prs => forallb open_range prs
  | None => false
  end.

(* [conflict_guarded] minus:
   - push <ranges> where every range is the fully open `..` (in particular no range at all):
     nothing is selected when no patch is unapplied, exit 0;
   - push -n <negative> (without --all and without ranges): nothing is selected when the count
     exceeds the unapplied patches, exit 0;
   - pop -n <negative> (without --all): same, exit 0;
   - pop with an empty list of ranges (not expressible on the command line): panic. *)
Definition conflict_guarded2 (c : cmd) : bool :=
  conflict_guarded c
  && match c with
     | CPush (Some rs) _ _ _ _ _ _ _ _ => negb (only_open_ranges rs)
     | CPush None (Some z) false _ _ _ _ _ _ => (0 <? z)%Z
     | CPop _ (Some z) false _ _ => (0 <? z)%Z
     | CPop (Some rs) None false _ _ => negb (match rs with [] => true | _ => false end)
     | _ => true
     end.

Definition refused (w : world) (r : world * exitc) : Prop :=
  (snd r = X1 \/ snd r = X2) /\ same_refs w (fst r) /\ w_wt (fst r) = w_wt w
  /\ w_unmerged (fst r) = true.

Lemma forallb_false_exists : forall (f : prange -> bool) l,
    forallb f l = false -> Exists (fun r => f r = false) l.
Proof.
  induction l as [|x l IH]; intros H; cbn [forallb] in H; [discriminate|].
  destruct (f x) eqn:E; cbn [andb] in H.
  - right. apply IH. exact H.
  - left. exact E.
Qed.

Lemma num_to_take_pos : forall z m, (0 <? z)%Z = true -> exists k, num_to_take z (S m) = Some (S k).
Proof.
  intros z m Hz. apply Z.ltb_lt in Hz. unfold num_to_take.
  assert (Hle : (0 <=? z)%Z = true) by (apply Z.leb_le; lia). rewrite Hle.
  destruct (Z.to_nat z) as [|k] eqn:Hk; [lia|]. exists (Nat.min k m). reflexivity.
Qed.

Section Refuse.
  Variable w : world.
  Hypothesis Hu : w_unmerged w = true.
  Hypothesis Hs : w_stack w <> None.

  Lemma refused_x1 : refused w (w, X1).
  Proof. unfold refused, same_refs. cbn [fst snd]. tauto. Qed.

  Lemma refused_x2 : refused w (w, X2).
  Proof. unfold refused, same_refs. cbn [fst snd]. tauto. Qed.

  Lemma refused_open : forall p op,
      open_stack p w = Some op -> p <> PForce ->
      refused w (op_world op, X2) /\ w_unmerged (op_world op) = true.
  Proof.
    intros p op Hop Hp. destruct (open_stack_frame _ _ _ Hop) as [Hb [Hwt Hum]].
    destruct (open_stack_frame_init _ _ _ Hop Hp Hs) as [Hst _].
    unfold refused, same_refs. cbn [fst snd]. rewrite Hb, Hwt, Hum, Hst. tauto.
  Qed.

  Ltac opened op Hr Hu1 :=
    match goal with
    | |- context [open_stack ?p w] =>
        let Hop := fresh "Hop" in
        destruct (open_stack p w) as [op|] eqn:Hop; [|apply refused_x2];
        destruct (refused_open _ _ Hop ltac:(discriminate)) as [Hr Hu1]; cbv zeta
    end.

  Lemma run_goto_refused : forall l kp mg cf, refused w (run_goto w l kp mg cf).
  Proof.
    intros l kp mg cf. unfold run_goto. destruct (parse_locator l); [|apply refused_x1].
    opened op Hr Hu1. rewrite Hu1. exact Hr.
  Qed.

  Lemma run_float_refused : forall r na kp, refused w (run_float w r na kp).
  Proof.
    intros r na kp. unfold run_float. destruct (parse_ranges r); [|apply refused_x1].
    opened op Hr Hu1. rewrite Hu1. exact Hr.
  Qed.

  Lemma run_sink_refused : forall r tg np kp, refused w (run_sink w r tg np kp).
  Proof.
    intros r tg np kp. unfold run_sink. cbv zeta.
    destruct (match r with Some rs => parse_ranges rs | None => Some [] end); [|apply refused_x1].
    match goal with
    | |- refused w (match ?t with Some _ => _ | None => _ end) => destruct t; [|apply refused_x1]
    end.
    opened op Hr Hu1. rewrite Hu1. exact Hr.
  Qed.

  Lemma run_new_refused : forall nm meta msg, refused w (run_new w nm meta msg).
  Proof.
    intros nm meta msg. unfold run_new. destruct (from_str nm); [|apply refused_x1].
    opened op Hr Hu1. rewrite Hu1. exact Hr.
  Qed.

  Lemma run_spill_refused : refused w (run_spill w).
  Proof. unfold run_spill. opened op Hr Hu1. rewrite Hu1. exact Hr. Qed.

  Lemma run_refresh_refused : forall p, refused w (run_refresh w p).
  Proof.
    intros p. unfold run_refresh.
    destruct (match p with Some o => _ | None => _ end) as [loc_l|] eqn:Ep; [|apply refused_x1].
    pose proof (WfCmd.refresh_loc_wf p loc_l Ep) as Hwf. clear Ep.
    opened op Hr Hu1.
    destruct (negb (head_top_ok op)); [exact Hr|].
    assert (Hnp : forall l, loc_l = Some l ->
              resolve_constrained (view_of (op_state op)) LCVisible l <> RPanic).
    { intros l El E. pose proof (resolve_constrained_ok (view_of (op_state op)) LCVisible l (Hwf l El)) as Hk.
      now rewrite E in Hk. }
    match goal with |- refused w (rres_bind _ ?r _) => destruct r as [pn| |] eqn:Epn; cbn [rres_bind] end.
    - rewrite Hu1. exact Hr.
    - exact Hr.
    - exfalso. destruct loc_l as [l|]; [now apply (Hnp l eq_refl)|].
      destruct (last_error (s_applied (op_state op))); discriminate.
  Qed.

  Lemma run_squash_refused : forall r nm meta msg, refused w (run_squash w r nm meta msg).
  Proof.
    intros r nm meta msg. unfold run_squash.
    destruct (parse_ranges r); [|apply refused_x1].
    destruct (from_str nm); [|apply refused_x1].
    opened op Hr Hu1. rewrite Hu1. exact Hr.
  Qed.

  (* pick without --noapply tests for a clean work tree and index before anything else *)
  Lemma run_pick_refused : forall lower_s src nm, refused w (run_pick lower_s w src nm false).
  Proof.
    intros lower_s src nm.
    assert (Hd : forall op, open_stack PAuto w = Some op -> negb false && dirty (op_world op) = false -> False).
    { intros op Hop Hdirty. destruct (refused_open _ _ Hop ltac:(discriminate)) as [_ Hu1].
      unfold dirty in Hdirty. rewrite Hu1, orb_true_r in Hdirty. discriminate. }
    destruct (run_pick_case lower_s w src nm false) as
      [_|_|op Eo|op given o Eo _ Ed _ _|op given o pn0 Eo _ Ed _ _ _|op given o pn0 pn c par Eo _ Ed _ _ _ _ _ _].
    - apply refused_x1.
    - apply refused_x2.
    - now destruct (refused_open _ _ Eo ltac:(discriminate)) as [Hr _].
    - exfalso. eapply Hd; eassumption.
    - exfalso. eapply Hd; eassumption.
    - exfalso. eapply Hd; eassumption.
  Qed.

  Lemma run_delete_refused : forall r tp al fa fu fh sp cf,
      refused w (run_delete w r tp al fa fu fh sp cf).
  Proof.
    intros r tp al fa fu fh sp cf. unfold run_delete. cbv zeta.
    destruct (match r with Some rs => parse_ranges rs | None => Some [] end) as [prs|] eqn:Hp;
      [|apply refused_x1].
    opened op Hr Hu1.
    match goal with
    | |- refused w (rres_bind _ ?pr _) => destruct pr as [ps|e|] eqn:Hpr
    end; unfold rres_bind.
    - destruct (sp && _); [exact Hr|]. rewrite Hu1. exact Hr.
    - exact Hr.
    - exfalso. destruct tp.
      + destruct (last_error (s_applied (op_state op))); discriminate.
      + destruct r as [rs|].
        * revert Hpr. eapply resolve_names_no_panic. exact Hp.
        * destruct al; discriminate.
  Qed.

  Lemma run_push_refused : forall r n al rv na st mg kp cf,
      conflict_guarded2 (CPush r n al rv na st mg kp cf) = true ->
      refused w (run_push w r n al rv na st mg kp cf).
  Proof.
    intros r n al rv na st mg kp cf Hg. unfold conflict_guarded2 in Hg.
    apply andb_true_iff in Hg. destruct Hg as [Hg1 Hg2].
    assert (Hz : match n with Some z => (z =? 0)%Z | None => false end = false).
    { destruct n as [[|p|p]|]; try reflexivity. cbn in Hg1. discriminate. }
    unfold run_push. opened op Hr Hu1. rewrite Hz.
    destruct r as [rs|].
    - unfold only_open_ranges in Hg2.
      destruct (parse_ranges rs) as [prs|] eqn:Hp; [|apply refused_x1].
      apply negb_true_iff in Hg2. apply forallb_false_exists in Hg2.
      destruct (resolve_names (view_of (op_state op)) RCUnapplied prs) as [l|e|] eqn:Hres.
      + assert (Hl : l <> []).
        { unfold resolve_names in Hres. eapply names_loop_nonempty; [exact Hres|]. right.
          eapply Exists_impl; [|exact Hg2]. intros a Ha. left. exact Ha. }
        destruct l as [|x l]; [congruence|]. rewrite Hu1. exact Hr.
      + exact Hr.
      + exfalso. revert Hres. eapply resolve_names_no_panic. exact Hp.
    - destruct (s_unapplied (op_state op)) as [|u us] eqn:Hun; [exact Hr|].
      destruct al.
      + rewrite Hu1. exact Hr.
      + destruct n as [z|].
        * destruct (num_to_take_pos z (length us) Hg2) as [k Hk].
          cbn [length]. rewrite Hk. cbn [firstn]. rewrite Hu1. exact Hr.
        * cbn [firstn]. rewrite Hu1. exact Hr.
  Qed.

  Lemma run_pop_refused : forall r n al kp sp,
      conflict_guarded2 (CPop r n al kp sp) = true ->
      refused w (run_pop w r n al kp sp).
  Proof.
    intros r n al kp sp Hg. unfold conflict_guarded2 in Hg.
    apply andb_true_iff in Hg. destruct Hg as [Hg1 Hg2].
    assert (Hz : match n with Some z => (z =? 0)%Z | None => false end = false).
    { destruct n as [[|p|p]|]; try reflexivity. cbn in Hg1. discriminate. }
    unfold run_pop. opened op Hr Hu1. rewrite Hz.
    destruct (s_applied (op_state op)) as [|a as_] eqn:Hap; [exact Hr|].
    assert (Hrev : exists y ys, rev (a :: as_) = y :: ys).
    { destruct (rev (a :: as_)) as [|y ys] eqn:E; [|eauto].
      apply (f_equal (@length name)) in E. rewrite rev_length in E. discriminate. }
    destruct Hrev as [y [ys Hrev]].
    destruct al.
    - rewrite Hu1. exact Hr.
    - destruct n as [z|].
      + assert (Hg3 : (0 <? z)%Z = true) by (destruct r; exact Hg2).
        destruct (num_to_take_pos z (length as_) Hg3) as [k Hk].
        cbn [length]. rewrite Hk, Hrev. cbn [firstn]. rewrite Hu1. exact Hr.
      + destruct r as [rs|].
        * destruct (parse_ranges rs) as [prs|] eqn:Hp; [|apply refused_x1].
          assert (Hne : prs <> []).
          { eapply parse_ranges_nonempty; [exact Hp|]. destruct rs; [discriminate|discriminate]. }
          destruct (resolve_names (view_of (op_state op)) RCApplied prs) as [l|e|] eqn:Hres.
          -- assert (Hl : l <> []).
             { unfold resolve_names in Hres. eapply names_loop_nonempty; [exact Hres|]. right.
               destruct prs as [|p0 prs]; [congruence|]. left. right.
               cbn [lc_of allowed view_of v_applied]. rewrite Hap. discriminate. }
             destruct l as [|x l]; [congruence|]. rewrite Hu1. exact Hr.
          -- exact Hr.
          -- exfalso. revert Hres. eapply resolve_names_no_panic. exact Hp.
        * rewrite Hrev. cbn [firstn]. rewrite Hu1. exact Hr.
  Qed.
End Refuse.

Lemma refuse_when_conflicted_partial :
  forall lower_s w c,
    conflict_guarded2 c = true -> w_unmerged w = true -> w_stack w <> None ->
    let '(w', x) := step lower_s w c in
    (x = X1 \/ x = X2) /\ same_refs w w' /\ w_wt w' = w_wt w /\ w_unmerged w' = true.
Proof.
  intros lower_s w c Hg Hu Hs.
  assert (H : refused w (step lower_s w c)).
  { destruct c; try (cbn in Hg; discriminate); cbn [step].
    - apply run_new_refused; assumption.
    - apply run_refresh_refused; assumption.
    - apply run_push_refused; assumption.
    - apply run_pop_refused; assumption.
    - apply run_goto_refused; assumption.
    - apply run_float_refused; assumption.
    - apply run_sink_refused; assumption.
    - apply run_delete_refused; assumption.
    - apply run_spill_refused; assumption.
    - apply run_squash_refused; assumption.
    - destruct noapply; [cbn in Hg; discriminate|]. apply run_pick_refused; assumption. }
  destruct (step lower_s w c) as [w' x]. exact H.
Qed.

(* `stg pick --noapply` has no conflict pre-check of its own: it reaches the transaction, whose
   checkout refuses (exit 2) on the unmerged index -- but only after execute() has recorded an
   external move of the branch head in the stack log, so the stack ref does move.  Hence
   [conflict_guarded] holds only `CPick _ _ false`.  Witness: one patch, then `git commit`
   outside stg, an unmerged index, `stg pick --noapply HEAD`. *)
Definition cex_world_extmod : world :=
  let w := run cex_idf (init_world [1;1;0]%N)
              [CInit; CNew [112;48]%N 1%N [120]%N; GEdit 0 5%N; CRefresh None;
               GEdit 1 7%N; GCommit 3%N [121]%N] in
  with_wt w (w_wt w) true.

Lemma pick_noapply_conflicted_counterexample :
  w_unmerged cex_world_extmod = true /\ w_stack cex_world_extmod = Some 11
  /\ (let '(w', x) := step cex_idf cex_world_extmod (CPick (THeadAncestor 0) None true) in
      x = X2 /\ w_stack w' = Some 15 /\ w_branch w' = w_branch cex_world_extmod)
  /\ (let '(w', x) := step cex_idf cex_world_extmod (CPick (TPatch [112;48]%N) None true) in
      x = X2 /\ w_stack w' = Some 15).
Proof. vm_compute. repeat split; reflexivity. Qed.

(* ================================================================ the configuration variable *)

(* ---------------------------------------------------------------- transactions that stay calm *)

(* what decides whether a push may record conflicts, and whether any are recorded *)
Definition cm (t : txn) : bool * bool * bool :=
  (o_use_iw (t_opts t), o_allow_push_conflicts (t_opts t), t_wt_unmerged t).

(* options under which push_patch never writes conflicts: the merge fallback in the work
   tree is either not used or not allowed to leave conflicts *)
Definition quiet (o : topts) : Prop := o_use_iw o && o_allow_push_conflicts o = false.

Definition calm (t : txn) : Prop := t_wt_unmerged t = false /\ quiet (t_opts t).

Definition calm_res (r : tres) : Prop :=
  match r with
  | TOk t | THalt t _ | TErr t => calm t
  | TPanic => True
  end.

Definition calmf (f : txn -> tres) : Prop := forall t, calm t -> calm_res (f t).

Lemma calm_ext : forall b a, cm a = cm b -> calm b -> calm a.
Proof.
  intros b a H [H1 H2]. unfold cm in H. injection H as Ha Hb Hc.
  unfold calm, quiet in *. rewrite Ha, Hb, Hc. split; assumption.
Qed.

Lemma calm_tbind : forall r g, calm_res r -> calmf g -> calm_res (tbind r g).
Proof. intros [t|t h|t|] g Hr Hg; cbn [tbind calm_res] in *; auto. Qed.

Lemma wtc_cm : forall a b, wtc a = wtc b -> cm a = cm b.
Proof. intros a b H. apply wtc_inv in H as [Ho [_ Hu]]. unfold cm. now rewrite Ho, Hu. Qed.

Lemma cm_move : forall t n, cm (move_to_applied t n) = cm t.
Proof.
  intros t n. unfold move_to_applied.
  destruct (mem n (t_unapplied t)); [|destruct (mem n (t_hidden t))]; reflexivity.
Qed.

Lemma cm_push_commit : forall n t2 nt ptree st pc np op,
  cm (push_commit n t2 nt ptree st pc np op) = cm t2.
Proof.
  intros. unfold push_commit.
  destruct (negb (tree_eqb nt ptree) || negb (Nat.eqb np op)); [|reflexivity].
  unfold recommit, put. destruct st; reflexivity.
Qed.

Lemma cm_pop : forall f t, cm (fst (pop_patches f t)) = cm t.
Proof. intros f t. unfold pop_patches. destruct (split_at_first f (t_applied t)). reflexivity. Qed.

Lemma cm_delete : forall f t, cm (fst (delete_patches f t)) = cm t.
Proof. intros f t. unfold delete_patches. destruct (split_at_first f (t_applied t)). reflexivity. Qed.

(* the heart: under calm options the tree selection of push_patch never ends in a conflict
   and leaves the index merged *)
Lemma push_sel_calm : forall am t ptree otree ntree,
  calm t ->
  match push_sel am t ptree otree ntree with
  | inl (t2, _, st) => cm t2 = cm t /\ st <> PSConflict
  | inr r => calm_res r
  end.
Proof.
  intros am t ptree otree ntree Hc. rewrite push_sel_eq.
  destruct am; [split; [reflexivity|discriminate]|].
  destruct (tree_eqb otree ntree); [split; [reflexivity|discriminate]|].
  destruct (tree_eqb otree ptree); [split; [reflexivity|discriminate]|].
  destruct (tree_eqb ntree ptree); [split; [reflexivity|discriminate]|].
  cbv zeta.
  match goal with
  | |- context[tmp_prep ?t ?o] =>
      pose proof (wtc_tmp_prep t o) as Hw1; set (t1 := tmp_prep t o) in *
  end.
  apply wtc_cm in Hw1.
  destruct (apply3way _ _ _ _).
  - split; [exact Hw1|discriminate].
  - assert (Ho : cm (set_tmp t1 None (t_tmp_content t1)) = cm t) by exact Hw1.
    assert (Hcalm : calm (set_tmp t1 None (t_tmp_content t1))) by (now apply (calm_ext t)).
    destruct Hcalm as [Hu Hq]. unfold quiet in Hq.
    destruct (o_use_iw (t_opts (set_tmp t1 None (t_tmp_content t1)))) eqn:E1; cbn [negb];
      [|cbn [calm_res]; now apply (calm_ext t)].
    destruct (o_allow_push_conflicts (t_opts (set_tmp t1 None (t_tmp_content t1)))) eqn:E2;
      cbn [negb andb] in *; [discriminate|].
    cbn [calm_res]. now apply (calm_ext t).
Qed.

Lemma push_patch_calm : forall n am, calmf (push_patch n am).
Proof.
  intros n am t Hc. rewrite ListOpsProofs.push_patch_eq.
  destruct (t_patch t n) as [pc|]; [|exact I].
  destruct (t_top t) as [np|]; [|exact I].
  destruct (first_parent (t_objs t) pc) as [op|]; [|exact Hc].
  cbv zeta.
  pose proof (push_sel_calm am t (tree_of (t_objs t) pc) (tree_of (t_objs t) op)
                            (tree_of (t_objs t) np) Hc) as Hs.
  destruct (push_sel am t _ _ _) as [[[t2 nt] st]|r]; [|exact Hs].
  destruct Hs as [Hcm Hst]. unfold ListOpsProofs.push_fin.
  destruct st; try congruence; cbn [calm_res]; apply (calm_ext t); try exact Hc;
    rewrite cm_move, cm_push_commit; exact Hcm.
Qed.

Lemma push_list_calm : forall ns merged, calmf (push_list ns merged).
Proof.
  induction ns as [|n ns IH]; intros merged t Hc; cbn [push_list]; [exact Hc|].
  apply calm_tbind; [now apply push_patch_calm|apply IH].
Qed.

Lemma push_patches_calm : forall ns cmg, calmf (push_patches ns cmg).
Proof.
  intros ns cmg t Hc. unfold push_patches. cbv zeta. destruct cmg.
  - destruct (check_merged_loop _ _ _ _) as [[m c] i]. apply push_list_calm.
    now apply (calm_ext t).
  - apply push_list_calm. now apply (calm_ext t).
Qed.

Lemma push_tree_calm : forall n, calmf (push_tree n).
Proof.
  intros n t Hc. unfold push_tree.
  destruct (t_patch t n) as [pc|]; [|exact I].
  destruct (t_top t) as [top|]; [|exact I].
  destruct (first_parent (t_objs t) pc) as [par|]; [|exact Hc].
  cbv zeta.
  match goal with
  | |- calm_res (if mem n (t_unapplied ?t1) || _ then _ else _) =>
      assert (H1 : cm t1 = cm t);
      [|destruct (mem n (t_unapplied t1) || mem n (t_hidden t1)); [|exact I]]
  end.
  { destruct (Nat.eqb par top); reflexivity. }
  cbn [calm_res]. apply (calm_ext t); [|exact Hc]. now rewrite cm_move.
Qed.

Lemma push_tree_list_calm : forall ns, calmf (push_tree_list ns).
Proof.
  induction ns as [|n ns IH]; intros t Hc; cbn [push_tree_list]; [exact Hc|].
  apply calm_tbind; [now apply push_tree_calm|apply IH].
Qed.

Lemma reorder_calm : forall a u h, calmf (reorder_patches a u h).
Proof.
  intros a u h t Hc. unfold reorder_patches. cbv zeta. apply calm_tbind.
  - destruct a as [applied|]; [|exact Hc].
    match goal with |- context [pop_patches ?f t] =>
      pose proof (cm_pop f t) as Hp; destruct (pop_patches f t) as [t1 x] end.
    cbn [fst] in Hp. apply calm_tbind.
    + apply push_patches_calm. now apply (calm_ext t).
    + intros t2 H2. destruct (list_name_eqb _ _); [exact H2|exact I].
  - intros t3 H3. cbn [calm_res]. destruct u, h; now apply (calm_ext t3).
Qed.

Lemma commit_calm : forall tc, calmf (commit_patches tc).
Proof.
  intros tc t Hc. unfold commit_patches. cbv zeta. apply calm_tbind.
  - destruct (Nat.ltb _ _); [|exact Hc].
    match goal with |- context [pop_patches ?f t] =>
      pose proof (cm_pop f t) as Hp; destruct (pop_patches f t) as [t1 x] end.
    cbn [fst] in Hp. apply calm_tbind.
    + apply push_patches_calm. now apply (calm_ext t).
    + intros t2 H2. exact H2.
  - intros t2 H2. destruct (hd_error _); [|exact I].
    destruct (t_patch t2 _); [|exact I].
    destruct (Nat.ltb _ _); [exact I|].
    apply push_patches_calm. now apply (calm_ext t2).
Qed.

Ltac calm_brk :=
  repeat match goal with
         | |- calm_res (if ?b then _ else _) => destruct b
         | |- calm_res (match ?x with _ => _ end) => destruct x
         end.

Ltac calm_leaf t Hc :=
  first [ exact I | exact Hc | cbn [calm_res]; apply (calm_ext t); [reflexivity|exact Hc] ].

Lemma uncommit_calm : forall ps, calmf (uncommit_patches ps).
Proof. intros ps t Hc. unfold uncommit_patches. calm_leaf t Hc. Qed.

Lemma hide_calm : forall l, calmf (hide_patches l).
Proof. intros l t Hc. unfold hide_patches. now apply reorder_calm. Qed.

Lemma unhide_calm : forall l, calmf (unhide_patches l).
Proof. intros l t Hc. unfold unhide_patches. now apply reorder_calm. Qed.

Lemma rename_calm : forall old new, calmf (rename_patch old new).
Proof. intros old new t Hc. unfold rename_patch. cbv zeta. calm_brk; calm_leaf t Hc. Qed.

Lemma new_applied_calm : forall n o, calmf (new_applied n o).
Proof. intros n o t Hc. unfold new_applied. calm_brk; calm_leaf t Hc. Qed.

Lemma new_unapplied_calm : forall n o pos, calmf (new_unapplied n o pos).
Proof. intros n o pos t Hc. unfold new_unapplied. calm_brk; calm_leaf t Hc. Qed.

Lemma update_patch_calm : forall n o, calmf (update_patch n o).
Proof. intros n o t Hc. unfold update_patch. calm_brk; calm_leaf t Hc. Qed.

Lemma repair_appliedness_calm : forall a u h, calmf (repair_appliedness a u h).
Proof. intros a u h t Hc. unfold repair_appliedness. calm_brk; calm_leaf t Hc. Qed.

Lemma reset_calm : forall s, calmf (reset_to_state s).
Proof. intros s t Hc. unfold reset_to_state. cbv zeta. calm_brk; calm_leaf t Hc. Qed.

Lemma fold_cm : forall (A : Type) (g : txn -> A -> txn) l t,
  (forall t a, cm (g t a) = cm t) -> cm (fold_left g l t) = cm t.
Proof.
  intros A g. induction l as [|a l IH]; intros t Hg; cbn [fold_left]; [reflexivity|].
  rewrite IH by exact Hg. apply Hg.
Qed.

Lemma reset_partially_calm : forall s only, calmf (reset_to_state_partially s only).
Proof.
  intros s only t Hc. unfold reset_to_state_partially. cbv zeta.
  match goal with |- context [pop_patches ?f t] =>
    pose proof (cm_pop f t) as Hp; destruct (pop_patches f t) as [t1 x1] end.
  cbn [fst] in Hp.
  match goal with |- context [delete_patches ?f t1] =>
    pose proof (cm_delete f t1) as Hd; destruct (delete_patches f t1) as [t2 x2] end.
  cbn [fst] in Hd.
  apply push_patches_calm. apply (calm_ext t); [|exact Hc].
  rewrite fold_cm; [congruence|].
  intros t0 n0.
  repeat match goal with
         | |- context [if ?b then _ else _] => destruct b
         | |- context [match ?x with _ => _ end] => destruct x
         end; reflexivity.
Qed.

Lemma try_squash_cm : forall t ps meta msg t1 o,
  try_squash t ps meta msg = Some (t1, o) -> cm t1 = cm t.
Proof.
  intros t ps meta msg t1 o H. unfold try_squash in H.
  destruct ps as [|b rest]; [discriminate|].
  destruct (t_patch t b); [|discriminate].
  destruct (squash_tree _ _ _ _); [|discriminate].
  unfold put in H. injection H as <- _. reflexivity.
Qed.

Lemma squash_finish_calm : forall newn o to_push sp, calmf (squash_finish newn o to_push sp).
Proof.
  intros newn o to_push sp t Hc. unfold squash_finish.
  apply calm_tbind; [now apply new_unapplied_calm|apply push_patches_calm].
Qed.

Lemma squash_closure_calm : forall ps newn meta msg sp, calmf (squash_closure ps newn meta msg sp).
Proof.
  intros ps newn meta msg sp t Hc. unfold squash_closure.
  destruct (try_squash t ps meta msg) as [[t1 o]|] eqn:E1.
  - apply try_squash_cm in E1.
    match goal with |- context [delete_patches ?f t1] =>
      pose proof (cm_delete f t1) as Hd; destruct (delete_patches f t1) as [t2 x2] end.
    cbn [fst] in Hd. apply squash_finish_calm. apply (calm_ext t); [congruence|exact Hc].
  - match goal with |- context [pop_patches ?f t] =>
      pose proof (cm_pop f t) as Hp; destruct (pop_patches f t) as [t1 x1] end.
    cbn [fst] in Hp. apply calm_tbind.
    + apply push_patches_calm. now apply (calm_ext t).
    + intros t2 H2. destruct (try_squash t2 ps meta msg) as [[t3 o]|] eqn:E2; [|exact H2].
      apply try_squash_cm in E2.
      match goal with |- context [delete_patches ?f t3] =>
        pose proof (cm_delete f t3) as Hd; destruct (delete_patches f t3) as [t4 extra] end.
      cbn [fst] in Hd. destruct extra; [|exact I].
      apply squash_finish_calm. apply (calm_ext t2); [congruence|exact H2].
Qed.

Lemma cm_refresh_commit : forall t pc tr, cm (fst (refresh_commit t pc tr)) = cm t.
Proof.
  intros t pc tr. unfold refresh_commit. destruct (tree_eqb _ _); [reflexivity|].
  unfold put. reflexivity.
Qed.

Lemma refresh_absorb_calm : forall pn tmpname, calmf (refresh_absorb pn tmpname).
Proof.
  intros pn tmpname t Hc. unfold refresh_absorb. destruct (mem pn (t_applied t)).
  - cbv zeta. apply calm_tbind.
    + destruct (Nat.ltb _ _); [|exact Hc].
      match goal with |- context [pop_patches ?f t] =>
        pose proof (cm_pop f t) as Hp; destruct (pop_patches f t) as [t1 extra] end.
      cbn [fst] in Hp. destruct extra; [|exact I].
      apply push_patches_calm. now apply (calm_ext t).
    + intros t1 H1.
      destruct (t_patch t1 pn) as [pc|]; [|exact I].
      destruct (t_patch t1 tmpname) as [tc|]; [|exact I].
      destruct (last_error _) as [top|]; [|exact I]. destruct (negb _); [exact I|].
      pose proof (cm_refresh_commit t1 pc (tree_of (t_objs t1) tc)) as H2.
      destruct (refresh_commit t1 pc _) as [t2 newc]. cbn [fst] in H2.
      pose proof (cm_delete (fun n => name_eqb n tmpname) t2) as H3.
      destruct (delete_patches _ t2) as [t3 inc]. cbn [fst] in H3.
      assert (C3 : calm t3) by (apply (calm_ext t1); [congruence|exact H1]).
      apply calm_tbind; [|apply push_patches_calm].
      destruct newc; [now apply update_patch_calm|exact C3].
  - match goal with |- context [pop_patches ?f t] =>
      pose proof (cm_pop f t) as Hp; destruct (pop_patches f t) as [t1 extra] end.
    cbn [fst] in Hp. destruct extra; [|exact I].
    assert (C1 : calm t1) by (now apply (calm_ext t)).
    destruct (t_patch t1 pn) as [pc|]; [|exact I].
    destruct (t_patch t1 tmpname) as [tc|]; [|exact I].
    destruct (first_parent _ _) as [tpar|]; [|exact C1].
    destruct (apply3way _ _ _ _) as [tree'|]; [|exact C1].
    pose proof (cm_refresh_commit t1 pc tree') as H2.
    destruct (refresh_commit t1 pc tree') as [t2 newc]. cbn [fst] in H2.
    assert (C2 : calm t2) by (now apply (calm_ext t1)).
    apply calm_tbind.
    + destruct newc; [now apply update_patch_calm|exact C2].
    + intros t3 C3. cbn [calm_res]. apply (calm_ext t3); [apply cm_delete|exact C3].
Qed.

Lemma pick_body_calm : forall pn o na, calmf (pick_body pn o na).
Proof.
  intros pn o na t Hc. unfold pick_body. apply calm_tbind; [now apply new_unapplied_calm|].
  intros t1 H1. destruct na; [exact H1|now apply push_patches_calm].
Qed.

Lemma fold_tbind_calm : forall (A : Type) (g : A -> txn -> tres) l r,
  (forall a, calmf (g a)) -> calm_res r ->
  calm_res (fold_left (fun r c => tbind r (g c)) l r).
Proof.
  intros A g. induction l as [|a l IH]; intros r Hg Hr; cbn [fold_left]; [exact Hr|].
  apply IH; [exact Hg|]. apply calm_tbind; [exact Hr|apply Hg].
Qed.

(* ---------------------------------------------------------------- execute *)

Lemma checkout_merged : forall o st tt wt cur tgt wt' um',
  checkout o st tt wt false cur tgt = Some (wt', um') -> um' = false.
Proof.
  intros o st tt wt cur tgt wt' um' H. unfold checkout in H.
  repeat brk_any_in H; inversion H; reflexivity.
Qed.

Lemma log_external_mods_apc : forall w s w1 s1,
  log_external_mods w s = Some (w1, s1) -> w_apc w1 = w_apc w.
Proof.
  intros w s w1 s1 H. unfold log_external_mods in H.
  repeat brk_any_in H; inversion H; subst; reflexivity.
Qed.

Lemma exec_logged_facts : forall w t w1 st1,
  WfFrame.exec_logged w t = Some (w1, st1) ->
  w_unmerged w1 = t_wt_unmerged t /\ w_apc w1 = w_apc w.
Proof.
  intros w t w1 st1 H. unfold WfFrame.exec_logged in H. destruct (Nat.eqb _ _).
  - injection H as <- _. split; reflexivity.
  - pose proof (log_external_mods_apc _ _ _ _ H) as Ha.
    apply log_external_mods_frame in H as [_ [_ Hu]]. split; assumption.
Qed.

Lemma exec_co_merged : forall t th w1 st1,
  w_unmerged w1 = false ->
  match WfFrame.exec_co t th w1 st1 with
  | inl (_, um') => um' = false
  | inr (_, um', _) => um' = false
  end.
Proof.
  intros t th w1 st1 Hu. unfold WfFrame.exec_co. cbv zeta. rewrite Hu.
  destruct (o_set_head (t_opts t) && o_use_iw (t_opts t)); [|reflexivity].
  destruct (_ && _ && _); [reflexivity|].
  destruct (checkout _ _ _ _ false _ (tree_of (t_objs t) th)) as [[wt' um']|] eqn:E1.
  - apply checkout_merged in E1. exact E1.
  - destruct (checkout _ _ _ _ false _ (tree_of (w_objs w1) (w_branch w1))) as [[wt' um']|] eqn:E2;
      [|exact eq_refl].
    apply checkout_merged in E2. exact E2.
Qed.

Lemma exec_fin_facts : forall t th w1 st1 wt' um' halted msg,
  w_apc (fst (WfFrame.exec_fin t th w1 st1 wt' um' halted msg)) = w_apc w1
  /\ (w_unmerged w1 = false -> um' = false ->
      w_unmerged (fst (WfFrame.exec_fin t th w1 st1 wt' um' halted msg)) = false).
Proof.
  intros t th w1 st1 wt' um' halted msg. unfold WfFrame.exec_fin.
  destruct (w_stack w1); [|split; [reflexivity|auto]].
  destruct (state_commit _ _ _) as [[objs' so]|]; [|split; [reflexivity|auto]].
  destruct halted; split; cbn; auto.
Qed.

Lemma exec_body_facts : forall w t halted msg,
  w_apc (fst (WfFrame.exec_body w t halted msg)) = w_apc w
  /\ (w_unmerged w = false -> t_wt_unmerged t = false ->
      w_unmerged (fst (WfFrame.exec_body w t halted msg)) = false).
Proof.
  intros w t halted msg. unfold WfFrame.exec_body.
  destruct (negb (WfFrame.exec_consistent t)); [split; [reflexivity|auto]|].
  destruct (t_head_oid t) as [th|]; [|split; [reflexivity|auto]].
  destruct (WfFrame.exec_logged w t) as [[w1 st1]|] eqn:El; [|split; [reflexivity|cbn; auto]].
  apply exec_logged_facts in El as [Hu1 Ha1].
  pose proof (exec_co_merged t th w1 st1) as Hco.
  destruct (WfFrame.exec_co t th w1 st1) as [[wt' um']|[[wt' um'] x]].
  - destruct (exec_fin_facts t th w1 st1 wt' um' halted msg) as [Ha Hu]. split; [congruence|].
    intros Hw Ht. apply Hu; [congruence|]. apply Hco. congruence.
  - cbn [fst w_apc w_unmerged]. split; [exact Ha1|]. intros Hw Ht. apply Hco. congruence.
Qed.

Lemma execute_facts : forall w r msg,
  w_apc (fst (execute w r msg)) = w_apc w
  /\ (w_unmerged w = false -> calm_res r -> w_unmerged (fst (execute w r msg)) = false).
Proof.
  intros w r msg. rewrite WfFrame.execute_eq. destruct r as [t|t h|t|].
  - destruct (exec_body_facts w t None msg) as [Ha Hu]. split; [exact Ha|].
    intros Hw [Ht _]. now apply Hu.
  - destruct (exec_body_facts w t (Some h) msg) as [Ha Hu]. split; [exact Ha|].
    intros Hw [Ht _]. now apply Hu.
  - split; [reflexivity|]. intros _ [Ht _]. exact Ht.
  - split; [reflexivity|]. intros Hw _. exact Hw.
Qed.

Lemma transact_apc : forall op o f msg, w_apc (fst (transact op o f msg)) = w_apc (op_world op).
Proof.
  intros op o f msg. unfold transact. destruct (negb (op_initialized op)).
  - destruct (f (begin_txn op o)); reflexivity.
  - apply execute_facts.
Qed.

Lemma transact_merged : forall op o f msg,
  w_unmerged (op_world op) = false -> quiet o -> calmf f ->
  w_unmerged (fst (transact op o f msg)) = false.
Proof.
  intros op o f msg Hu Hq Hf. unfold transact. destruct (negb (op_initialized op)).
  - destruct (f (begin_txn op o)); exact Hu.
  - apply execute_facts; [exact Hu|]. apply Hf. split; [exact Hu|exact Hq].
Qed.

(* ---------------------------------------------------------------- closures *)

Ltac cm_solve :=
  rewrite ?cm_pop, ?cm_delete;
  first [ reflexivity | congruence
        | match goal with
          | H : cm ?a = ?rhs |- cm _ = _ =>
              transitivity (cm a); [reflexivity|];
              transitivity rhs; [exact H|]; first [reflexivity|congruence]
          end ].

Ltac calm_close :=
  match goal with
  | H : calm ?t |- calm _ => first [ exact H | apply (calm_ext t); [cm_solve|exact H] ]
  end.

Ltac calm_step :=
  match goal with
  | |- calm_res TPanic => exact I
  | |- calm_res (TOk _) => cbn [calm_res]; calm_close
  | |- calm_res (TErr _) => cbn [calm_res]; calm_close
  | |- calm_res (tbind _ _) =>
      apply calm_tbind;
      [|let t := fresh "t" in let H := fresh "Hc" in intros t H; cbv beta]
  | |- calm_res (push_patches _ _ _) => apply push_patches_calm; calm_close
  | |- calm_res (push_tree_list _ _) => apply push_tree_list_calm; calm_close
  | |- calm_res (reorder_patches _ _ _ _) => apply reorder_calm; calm_close
  | |- calm_res (commit_patches _ _) => apply commit_calm; calm_close
  | |- calm_res (uncommit_patches _ _) => apply uncommit_calm; calm_close
  | |- calm_res (hide_patches _ _) => apply hide_calm; calm_close
  | |- calm_res (unhide_patches _ _) => apply unhide_calm; calm_close
  | |- calm_res (rename_patch _ _ _) => apply rename_calm; calm_close
  | |- calm_res (new_applied _ _ _) => apply new_applied_calm; calm_close
  | |- calm_res (new_unapplied _ _ _ _) => apply new_unapplied_calm; calm_close
  | |- calm_res (update_patch _ _ _) => apply update_patch_calm; calm_close
  | |- calm_res (repair_appliedness _ _ _ _) => apply repair_appliedness_calm; calm_close
  | |- calm_res (reset_to_state _ _) => apply reset_calm; calm_close
  | |- calm_res (reset_to_state_partially _ _ _) => apply reset_partially_calm; calm_close
  | |- calm_res (squash_closure _ _ _ _ _ _) => apply squash_closure_calm; calm_close
  | |- calm_res (match delete_patches ?f ?t with _ => _ end) =>
      let H := fresh "Hd" in
      pose proof (cm_delete f t) as H; destruct (delete_patches f t) as [? ?]; cbn [fst] in H
  | |- calm_res (match pop_patches ?f ?t with _ => _ end) =>
      let H := fresh "Hp" in
      pose proof (cm_pop f t) as H; destruct (pop_patches f t) as [? ?]; cbn [fst] in H
  | |- calm_res (if ?b then _ else _) => destruct b
  | |- calm_res (match ?x with _ => _ end) => destruct x
  end.

Ltac calm_solve :=
  let t := fresh "t" in let Hc := fresh "Hc" in
  intros t Hc; cbv beta zeta; repeat calm_step.

(* ---------------------------------------------------------------- opening *)

Lemma open_stack_apc : forall p w op, open_stack p w = Some op -> w_apc (op_world op) = w_apc w.
Proof.
  intros p w op H. unfold open_stack in H.
  repeat brk_any_in H; inversion H; subst; reflexivity.
Qed.

Lemma log_extmods_first_facts : forall op0 op,
  log_extmods_first op0 = Some op ->
  w_apc (op_world op) = w_apc (op_world op0)
  /\ w_unmerged (op_world op) = w_unmerged (op_world op0).
Proof.
  intros op0 op H. unfold log_extmods_first in H. destruct (Nat.eqb _ _).
  - injection H as <-. split; reflexivity.
  - destruct (log_external_mods _ _) as [[w1 s1]|] eqn:El; [|discriminate].
    injection H as <-. cbn [op_world]. split.
    + eapply log_external_mods_apc; exact El.
    + apply log_external_mods_frame in El as [_ [_ Hu]]. exact Hu.
Qed.

(* ---------------------------------------------------------------- stg_keeps_config *)

Ltac ag_leaf :=
  cbn [fst err2 ok0 rres_bind];
  rewrite ?transact_apc; cbn [op_world with_objs w_apc];
  first [ reflexivity | assumption | congruence ].

Ltac ag_destruct :=
  match goal with
  | |- w_apc (fst (rres_bind _ ?r _)) = _ => destruct r; cbn [rres_bind]
  | |- context [match ?x with _ => _ end] =>
      lazymatch x with
      | context [match _ with _ => _ end] => fail
      | transact _ _ _ _ => fail
      | open_stack ?p ?w =>
          let E := fresh "Eo" in
          destruct (open_stack p w) as [?op|] eqn:E; [apply open_stack_apc in E|]
      | _ => destruct x
      end
  | |- w_apc (fst (if ?b then _ else _)) = _ => destruct b
  | |- w_apc (fst (match ?x with _ => _ end)) = _ =>
      lazymatch x with transact _ _ _ _ => fail | _ => destruct x end
  end.

Ltac apc_auto := cbv zeta; repeat (first [ag_leaf | ag_destruct]).

Lemma run_refresh_apc : forall w p, w_apc (fst (run_refresh w p)) = w_apc w.
Proof.
  intros w p. unfold run_refresh. cbv zeta.
  destruct (match p with Some o => _ | None => _ end) as [loc_l|]; [|reflexivity].
  destruct (open_stack PAllow w) as [op|] eqn:Eo; [apply open_stack_apc in Eo|reflexivity].
  destruct (negb (head_top_ok op)); [exact Eo|].
  match goal with |- w_apc (fst (rres_bind _ ?r _)) = _ =>
    destruct r as [pn| |]; cbn [rres_bind]; [|exact Eo|exact Eo] end.
  destruct (w_unmerged (op_world op)); [exact Eo|].
  unfold put. cbv zeta beta iota.
  match goal with |- context [transact ?o ?a ?f ?m] =>
    pose proof (transact_apc o a f m) as H1; destruct (transact o a f m) as [w2 x] end.
  cbn [fst op_world with_objs w_apc] in H1.
  destruct x; cbn [fst]; try congruence.
  destruct (open_stack PAllow w2) as [op2|] eqn:Eo2; [apply open_stack_apc in Eo2|cbn [fst err2]; congruence].
  rewrite transact_apc. congruence.
Qed.

Lemma run_rebase_apc : forall w tg, w_apc (fst (run_rebase w tg)) = w_apc w.
Proof.
  intros w tg. unfold run_rebase. cbv zeta.
  destruct (open_stack PRequire w) as [op|] eqn:Eo; [apply open_stack_apc in Eo|reflexivity].
  destruct (resolve_gtarget _ _) as [target|]; [|exact Eo].
  destruct (Nat.eqb _ _); [exact Eo|].
  destruct (negb (head_top_ok op)); [exact Eo|].
  destruct (dirty _); [exact Eo|].
  match goal with |- context [transact ?o ?a ?f ?m] =>
    pose proof (transact_apc o a f m) as H1; destruct (transact o a f m) as [w2 x] end.
  cbn [fst] in H1.
  destruct x; cbn [fst]; try congruence.
  match goal with |- context [open_stack PRequire ?w3] =>
    destruct (open_stack PRequire w3) as [op3|] eqn:Eo3;
    [apply open_stack_apc in Eo3; cbn [w_apc] in Eo3|cbn [fst err2 w_apc]; congruence] end.
  destruct (log_extmods_first op3) as [op4|] eqn:El; [|cbn [fst err2]; congruence].
  apply log_extmods_first_facts in El as [Ha4 _].
  destruct (negb (head_top_ok op4)); [cbn [fst err2]; congruence|].
  rewrite transact_apc. congruence.
Qed.

Lemma run_squash_apc : forall w r nm meta msg, w_apc (fst (run_squash w r nm meta msg)) = w_apc w.
Proof.
  intros w r nm meta msg. unfold run_squash.
  destruct (parse_ranges r) as [prs|]; [|reflexivity].
  destruct (from_str nm) as [newn|]; [|reflexivity].
  destruct (open_stack PAllow w) as [op|] eqn:Eo; [apply open_stack_apc in Eo|reflexivity].
  cbv zeta.
  destruct (w_unmerged (op_world op)); [exact Eo|].
  destruct (negb (head_top_ok op)); [exact Eo|].
  destruct (resolve_names _ _ _) as [ps| |]; cbn [rres_bind]; [|exact Eo|exact Eo].
  destruct (_ && _); [exact Eo|].
  destruct (Nat.ltb _ _); [exact Eo|].
  rewrite WfFrame.squash_exit_fst. rewrite transact_apc. exact Eo.
Qed.

Lemma run_undo_like_apc : forall w steps hard msg, w_apc (fst (run_undo_like w steps hard msg)) = w_apc w.
Proof.
  intros w steps hard msg. unfold run_undo_like.
  destruct (open_stack PRequire w) as [op0|] eqn:Eo; [apply open_stack_apc in Eo|reflexivity].
  destruct (log_extmods_first op0) as [op|] eqn:El; [|exact Eo].
  apply log_extmods_first_facts in El as [Ha _]. cbv zeta. rewrite transact_apc. congruence.
Qed.

Lemma stg_keeps_config :
  forall lower_s w c, is_stg c = true -> w_apc (fst (step lower_s w c)) = w_apc w.
Proof.
  intros lower_s w c Hs. destruct c; try discriminate Hs; cbn [step].
  - apc_auto.
  - unfold run_new, put. apc_auto.
  - apply run_refresh_apc.
  - unfold run_push. apc_auto.
  - unfold run_pop. apc_auto.
  - unfold run_goto. apc_auto.
  - unfold run_float. apc_auto.
  - unfold run_sink. apc_auto.
  - unfold run_delete. apc_auto.
  - unfold run_hide. apc_auto.
  - unfold run_unhide. apc_auto.
  - unfold run_rename. apc_auto.
  - unfold run_commit. apc_auto.
  - unfold run_uncommit. apc_auto.
  - unfold run_clean. apc_auto.
  - unfold run_spill, put. apc_auto.
  - unfold run_undo. destruct (n <? 1)%Z; [reflexivity|apply run_undo_like_apc].
  - unfold run_redo. destruct (n =? 0)%N; [reflexivity|]. destruct (isize_max <? n)%N; [reflexivity|].
    apply run_undo_like_apc.
  - unfold run_reset, with_wt. apc_auto.
  - unfold run_repair. apc_auto.
  - unfold run_log_clear. apc_auto.
  - unfold run_edit, put. apc_auto.
  - apply run_rebase_apc.
  - apply run_squash_apc.
  - destruct (run_pick_case lower_s w src nm noapply) as
      [_|_|op Eo|op given o Eo _ _ _ _|op given o pn0 Eo _ _ _ _ _|op given o pn0 pn c par Eo _ _ _ _ _ _ _ _];
      cbn [fst]; try reflexivity; apply open_stack_apc in Eo; try exact Eo.
    rewrite transact_apc. exact Eo.
  - apc_auto.
Qed.

(* ---------------------------------------------------------------- config_disallow_keeps_index_merged *)

Lemma quiet_off : forall cmode d iw sh bh, quiet (opts cmode false d iw sh bh).
Proof. intros. unfold quiet, opts. cbn [o_use_iw o_allow_push_conflicts]. apply andb_false_r. Qed.

Lemma quiet_default : quiet default_opts.
Proof. reflexivity. Qed.

Ltac quiet_solve :=
  cbn [op_world with_objs w_apc];
  repeat match goal with
         | H : w_apc _ = false |- _ => rewrite H
         | H : allow_conf false _ = false |- _ => rewrite H
         end;
  first [ apply quiet_off | apply quiet_default ].

Ltac mg_open :=
  match goal with
  | Ha : w_apc ?w = false, Hu : w_unmerged ?w = false |- context [open_stack ?p ?w] =>
      let E := fresh "Eo" in let op := fresh "op" in
      destruct (open_stack p w) as [op|] eqn:E;
      [ let Ha1 := fresh "Ha" in let Hu1 := fresh "Hu" in
        pose proof (open_stack_apc _ _ _ E) as Ha1; rewrite Ha in Ha1;
        destruct (open_stack_frame _ _ _ E) as [_ [_ Hu1]]; rewrite Hu in Hu1; clear E
      | ]
  end.

Ltac mg_leaf :=
  cbn [fst err2 ok0 rres_bind];
  first [ assumption
        | match goal with
          | |- w_unmerged (mkWorld _ _ _ _ _ false _ _) = false => reflexivity
          end
        | apply transact_merged;
          [ cbn [op_world with_objs w_unmerged]; assumption | quiet_solve | calm_solve ] ].

Ltac mg_destruct :=
  match goal with
  | H : w_unmerged ?x = false |- context [if w_unmerged ?x then _ else _] => rewrite H
  | |- w_unmerged (fst (rres_bind _ ?r _)) = false => destruct r; cbn [rres_bind]
  | |- context [match ?x with _ => _ end] =>
      lazymatch x with
      | context [match _ with _ => _ end] => fail
      | transact _ _ _ _ => fail
      | open_stack _ _ => mg_open
      | _ => destruct x
      end
  | |- w_unmerged (fst (if ?b then _ else _)) = false => destruct b
  | |- w_unmerged (fst (match ?x with _ => _ end)) = false =>
      lazymatch x with transact _ _ _ _ => fail | _ => destruct x end
  end.

Ltac merged_auto := cbv zeta; repeat (first [mg_leaf | mg_destruct]).

Section Merged.
  Variable w : world.
  Hypothesis Ha : w_apc w = false.
  Hypothesis Hu : w_unmerged w = false.

  Lemma run_new_merged : forall nm meta msg, w_unmerged (fst (run_new w nm meta msg)) = false.
  Proof. intros. unfold run_new, put. merged_auto. Qed.

  Lemma run_pop_merged : forall r n al kp sp, w_unmerged (fst (run_pop w r n al kp sp)) = false.
  Proof. intros. unfold run_pop. merged_auto. Qed.

  Lemma run_float_merged : forall r na kp, w_unmerged (fst (run_float w r na kp)) = false.
  Proof. intros. unfold run_float. merged_auto. Qed.

  Lemma run_sink_merged : forall r tg np kp, w_unmerged (fst (run_sink w r tg np kp)) = false.
  Proof. intros. unfold run_sink. merged_auto. Qed.

  Lemma run_hide_merged : forall r, w_unmerged (fst (run_hide w r)) = false.
  Proof. intros. unfold run_hide. merged_auto. Qed.

  Lemma run_unhide_merged : forall r, w_unmerged (fst (run_unhide w r)) = false.
  Proof. intros. unfold run_unhide. merged_auto. Qed.

  Lemma run_rename_merged : forall o n, w_unmerged (fst (run_rename w o n)) = false.
  Proof. intros. unfold run_rename. merged_auto. Qed.

  Lemma run_commit_merged : forall r n al ae, w_unmerged (fst (run_commit w r n al ae)) = false.
  Proof. intros. unfold run_commit. merged_auto. Qed.

  Lemma run_uncommit_merged : forall lower_s n names,
    w_unmerged (fst (run_uncommit lower_s w n names)) = false.
  Proof. intros. unfold run_uncommit. merged_auto. Qed.

  Lemma run_clean_merged : forall a u, w_unmerged (fst (run_clean w a u)) = false.
  Proof. intros. unfold run_clean. merged_auto. Qed.

  Lemma run_spill_merged : w_unmerged (fst (run_spill w)) = false.
  Proof. unfold run_spill, put. merged_auto. Qed.

  Lemma run_edit_merged : forall l m msg, w_unmerged (fst (run_edit w l m msg)) = false.
  Proof. intros. unfold run_edit, put. merged_auto. Qed.

  Lemma run_log_clear_merged : w_unmerged (fst (run_log_clear w)) = false.
  Proof. unfold run_log_clear. merged_auto. Qed.

  Lemma run_push_merged : forall r n al rv na st mg kp cf,
    no_explicit_allow (CPush r n al rv na st mg kp cf) = true ->
    w_unmerged (fst (run_push w r n al rv na st mg kp cf)) = false.
  Proof.
    intros r n al rv na st mg kp cf Hg.
    assert (Hcf : allow_conf false cf = false) by (destruct cf as [[|]|]; [discriminate Hg|reflexivity|reflexivity]).
    clear Hg. unfold run_push. merged_auto.
  Qed.

  Lemma run_goto_merged : forall l kp mg cf,
    no_explicit_allow (CGoto l kp mg cf) = true ->
    w_unmerged (fst (run_goto w l kp mg cf)) = false.
  Proof.
    intros l kp mg cf Hg.
    assert (Hcf : allow_conf false cf = false) by (destruct cf as [[|]|]; [discriminate Hg|reflexivity|reflexivity]).
    clear Hg. unfold run_goto. merged_auto.
  Qed.

  Lemma run_delete_merged : forall r tp al fa fu fh sp cf,
    no_explicit_allow (CDelete r tp al fa fu fh sp cf) = true ->
    w_unmerged (fst (run_delete w r tp al fa fu fh sp cf)) = false.
  Proof.
    intros r tp al fa fu fh sp cf Hg.
    assert (Hcf : allow_conf false cf = false) by (destruct cf as [[|]|]; [discriminate Hg|reflexivity|reflexivity]).
    clear Hg. unfold run_delete. merged_auto.
  Qed.

  Lemma run_undo_like_merged : forall steps hard msg,
    w_unmerged (fst (run_undo_like w steps hard msg)) = false.
  Proof.
    intros steps hard msg. unfold run_undo_like. mg_open; [|exact Hu].
    destruct (log_extmods_first op) as [op1|] eqn:El; [|exact Hu0].
    apply log_extmods_first_facts in El as [Ha1 Hu1]. rewrite Ha0 in Ha1. rewrite Hu0 in Hu1.
    merged_auto.
  Qed.

  Lemma run_reset_merged : forall e r h, w_unmerged (fst (run_reset w e r h)) = false.
  Proof. intros. unfold run_reset, with_wt. merged_auto. Qed.

  Lemma run_repair_merged : forall lower_s, w_unmerged (fst (run_repair lower_s w)) = false.
  Proof.
    intros lower_s. unfold run_repair. mg_open; [|exact Hu]. cbv zeta.
    destruct (repair_walk _ _ _ _ _ _ _ _) as [[applied_rev patchify_rev] stop].
    apply transact_merged; [exact Hu0|quiet_solve|].
    intros t Hc. apply calm_tbind; [now apply repair_appliedness_calm|].
    intros t0 H0.
    apply (fold_tbind_calm _ (fun c t =>
             match make lower_s (subj_of (t_objs t) c) true (Some 30%N) with
             | Ok nm => match uniquify nm [] (t_all t) with
                        | UOk pn => new_applied pn c t
                        | UFuel => TPanic
                        end
             | _ => TPanic
             end)).
    - intros c t1 H1. cbv beta. repeat calm_step.
    - cbn [calm_res]. now apply (calm_ext t0).
  Qed.

  Lemma run_refresh_merged : forall p, w_unmerged (fst (run_refresh w p)) = false.
  Proof.
    intros p. unfold run_refresh. cbv zeta.
    destruct (match p with Some o => _ | None => _ end) as [loc_l|]; [|exact Hu].
    mg_open; [|exact Hu].
    destruct (negb (head_top_ok op)); [exact Hu0|].
    match goal with |- w_unmerged (fst (rres_bind _ ?r _)) = _ =>
      destruct r as [pn| |]; cbn [rres_bind]; [|exact Hu0|exact Hu0] end.
    rewrite Hu0. unfold put. cbv zeta beta iota.
    match goal with |- context [transact ?o ?a ?f ?m] =>
      pose proof (transact_apc o a f m) as A1;
      assert (U1 : w_unmerged (fst (transact o a f m)) = false);
      [|destruct (transact o a f m) as [w2 x]] end.
    { apply transact_merged; [exact Hu0|quiet_solve|calm_solve]. }
    cbn [fst op_world with_objs w_apc] in A1, U1. rewrite Ha0 in A1.
    destruct x; cbn [fst]; try exact U1.
    destruct (open_stack PAllow w2) as [op2|] eqn:Eo2; [|exact U1].
    pose proof (open_stack_apc _ _ _ Eo2) as A2. rewrite A1 in A2.
    destruct (open_stack_frame _ _ _ Eo2) as [_ [_ U2]]. rewrite U1 in U2.
    apply transact_merged; [exact U2|quiet_solve|apply refresh_absorb_calm].
  Qed.

  Lemma run_rebase_merged : forall tg, w_unmerged (fst (run_rebase w tg)) = false.
  Proof.
    intros tg. unfold run_rebase. cbv zeta. mg_open; [|exact Hu].
    destruct (resolve_gtarget _ _) as [target|]; [|exact Hu0].
    destruct (Nat.eqb _ _); [exact Hu0|].
    destruct (negb (head_top_ok op)); [exact Hu0|].
    destruct (dirty _); [exact Hu0|].
    match goal with |- context [transact ?o ?a ?f ?m] =>
      pose proof (transact_apc o a f m) as A1;
      assert (U1 : w_unmerged (fst (transact o a f m)) = false);
      [|destruct (transact o a f m) as [w2 x]] end.
    { apply transact_merged; [exact Hu0|quiet_solve|calm_solve]. }
    cbn [fst] in A1, U1. rewrite Ha0 in A1.
    destruct x; cbn [fst]; try exact U1.
    match goal with |- context [open_stack PRequire ?w3] =>
      destruct (open_stack PRequire w3) as [op3|] eqn:Eo3; [|reflexivity] end.
    pose proof (open_stack_apc _ _ _ Eo3) as A3. cbn [w_apc] in A3. rewrite A1 in A3.
    destruct (open_stack_frame _ _ _ Eo3) as [_ [_ U3]]. cbn [w_unmerged] in U3.
    destruct (log_extmods_first op3) as [op4|] eqn:El; [|exact U3].
    apply log_extmods_first_facts in El as [A4 U4]. rewrite A3 in A4. rewrite U3 in U4.
    destruct (negb (head_top_ok op4)); [exact U4|].
    apply transact_merged; [exact U4|quiet_solve|calm_solve].
  Qed.

  Lemma run_squash_merged : forall r nm meta msg, w_unmerged (fst (run_squash w r nm meta msg)) = false.
  Proof.
    intros r nm meta msg. unfold run_squash.
    destruct (parse_ranges r) as [prs|]; [|exact Hu].
    destruct (from_str nm) as [newn|]; [|exact Hu].
    mg_open; [|exact Hu]. cbv zeta. rewrite Hu0.
    destruct (negb (head_top_ok op)); [exact Hu0|].
    destruct (resolve_names _ _ _) as [ps| |]; cbn [rres_bind]; [|exact Hu0|exact Hu0].
    destruct (_ && _); [exact Hu0|].
    destruct (Nat.ltb _ _); [exact Hu0|].
    rewrite WfFrame.squash_exit_fst.
    apply transact_merged; [exact Hu0|quiet_solve|calm_solve].
  Qed.

  Lemma run_pick_merged : forall lower_s src nm na,
    w_unmerged (fst (run_pick lower_s w src nm na)) = false.
  Proof.
    intros lower_s src nm na.
    destruct (run_pick_case lower_s w src nm na) as
      [_|_|op Eo|op given o Eo _ _ _ _|op given o pn0 Eo _ _ _ _ _|op given o pn0 pn c par Eo _ _ _ _ _ _ _ _];
      cbn [fst]; try exact Hu;
      pose proof (open_stack_apc _ _ _ Eo) as Ha0; rewrite Ha in Ha0;
      destruct (open_stack_frame _ _ _ Eo) as [_ [_ Hu0]]; rewrite Hu in Hu0; try exact Hu0.
    apply transact_merged; [exact Hu0| |apply pick_body_calm].
    rewrite Ha0. apply quiet_off.
  Qed.
End Merged.

Lemma config_disallow_keeps_index_merged :
  forall lower_s w c,
    w_apc w = false -> w_unmerged w = false -> is_stg c = true -> no_explicit_allow c = true ->
    w_unmerged (fst (step lower_s w c)) = false.
Proof.
  intros lower_s w c Ha Hu Hs Hg. destruct c; try discriminate Hs; cbn [step].
  - merged_auto.
  - now apply run_new_merged.
  - now apply run_refresh_merged.
  - now apply run_push_merged.
  - now apply run_pop_merged.
  - now apply run_goto_merged.
  - now apply run_float_merged.
  - now apply run_sink_merged.
  - now apply run_delete_merged.
  - now apply run_hide_merged.
  - now apply run_unhide_merged.
  - now apply run_rename_merged.
  - now apply run_commit_merged.
  - now apply run_uncommit_merged.
  - now apply run_clean_merged.
  - now apply run_spill_merged.
  - unfold run_undo. destruct (n <? 1)%Z; [exact Hu|now apply run_undo_like_merged].
  - unfold run_redo. destruct (n =? 0)%N; [exact Hu|]. destruct (isize_max <? n)%N; [exact Hu|].
    now apply run_undo_like_merged.
  - now apply run_reset_merged.
  - now apply run_repair_merged.
  - now apply run_log_clear_merged.
  - now apply run_edit_merged.
  - now apply run_rebase_merged.
  - now apply run_squash_merged.
  - now apply run_pick_merged.
  - merged_auto.
Qed.

Lemma config_disallow_session :
  forall lower_s cs w,
    forallb (fun c => is_stg c && no_explicit_allow c) cs = true ->
    w_apc w = false -> w_unmerged w = false -> w_unmerged (run lower_s w cs) = false.
Proof.
  intros lower_s. induction cs as [|c cs IH]; intros w Hall Ha Hu; [exact Hu|].
  cbn [forallb] in Hall. apply andb_true_iff in Hall as [Hc Hall].
  apply andb_true_iff in Hc as [Hs Hg].
  unfold run. cbn [fold_left]. apply IH; [exact Hall| |].
  - rewrite stg_keeps_config; assumption.
  - now apply config_disallow_keeps_index_merged.
Qed.

(* Model/Cmd.v leaves N_scope open and Gen/CmdTable.v string_scope; the statements of
   Properties/C09.v use [++] on lists, so list_scope is put back on top for importers. *)
Global Open Scope list_scope.
