(* C15 proofs: entry point.  The nine lemmas used by Properties/C15.v are proved in the
   files below and re-exported here:

     parsed_wf, display_parse_loc,
     display_parse_range                  Proofs/LocParseProofs.v
     existing_name_wins, resolve_sound    Proofs/ResolveProofs.v
     ranges_sound, ranges_contiguous_sound,
     range_is_interval,
     range_contiguous_is_interval         Proofs/RangeProofs.v

   Proofs/LocBasics.v holds the integer parsers, decimal round trips and the
   characterisation [offs_ok] of completely parsed offsets text. *)
From StgV Require Import Model.Chars Model.Name Model.Locator Model.LocatorSpec.
From StgV Require Export Proofs.LocBasics Proofs.LocParseProofs Proofs.ResolveProofs
  Proofs.RangeProofs.

(* The statements, as pinned by Properties/C15.v (checked here, nothing is defined). *)
Section StatementCheck.
Let chk_existing_name_wins : forall v s, validate s = true -> v_has v s = true ->
         exists l, parse_locator s = Some l /\ resolve_name v l = ROk s := existing_name_wins.
Let chk_parsed_wf : forall s l, parse_locator s = Some l -> wf_loc l := parsed_wf.
Let chk_resolve_sound : forall v l, wf_loc l -> name_result_ok v (resolve_name v l)
  := resolve_sound.
Let chk_display_parse_loc : forall s l,
         parse_locator s = Some l -> parse_locator (display_loc l) = Some l := display_parse_loc.
Let chk_display_parse_range : forall s r,
         parse_range s = Some r -> parse_range (display_range r) = Some r := display_parse_range.
Let chk_ranges_sound : forall v rc rs,
         Forall wf_range rs -> names_result_ok v rc (resolve_names v rc rs) := ranges_sound.
Let chk_ranges_contiguous_sound : forall v rc rs,
         Forall wf_range rs -> names_result_ok v rc (resolve_names_contiguous v rc rs)
  := ranges_contiguous_sound.
Let chk_range_is_interval : forall v rc b e l,
         resolve_names v rc [RRange b e] = ROk l ->
         is_interval_or_reversed (allowed v (lc_of rc)) l := range_is_interval.
Let chk_range_contiguous_is_interval : forall v rc rs l,
         resolve_names_contiguous v rc rs = ROk l ->
         is_interval (allowed v (lc_of rc)) l := range_contiguous_is_interval.
End StatementCheck.

(* Corollaries for parsed input: whatever parses is well formed, so it resolves soundly. *)
Corollary resolve_sound_parsed : forall v s l,
  parse_locator s = Some l -> name_result_ok v (resolve_name v l).
Proof. intros v s l H. apply resolve_sound. now apply parsed_wf in H. Qed.

Lemma parsed_range_wf : forall s r, parse_range s = Some r -> wf_range r.
Proof.
  intros s r H. unfold parse_range in H.
  destruct (patch_range_p s) as [r' [|c rest]| |] eqn:Ep; try discriminate.
  injection H as ->. unfold patch_range_p in Ep.
  destruct (range_bounds s) as [[b e] rest| |] eqn:Eb; try discriminate.
  - injection Ep as <- ->. apply range_bounds_inv in Eb as [r2 [Hb He]].
    unfold opt_loc in Hb, He. cbn [wf_range]. split.
    + destruct (patch_locator_p s) as [l r| |] eqn:El; try discriminate;
        injection Hb as <- _; cbn [wf_oloc]; [now apply locator_p_wf in El|exact I].
    + destruct (patch_locator_p r2) as [l r| |] eqn:El; try discriminate;
        injection He as <- _; cbn [wf_oloc]; [now apply locator_p_wf in El|exact I].
  - destruct (patch_locator_p s) as [l rest| |] eqn:El; try discriminate.
    injection Ep as <- ->. cbn [wf_range]. now apply locator_p_wf in El.
Qed.

Corollary ranges_sound_parsed : forall v rc ss rs,
  Forall2 (fun s r => parse_range s = Some r) ss rs ->
  names_result_ok v rc (resolve_names v rc rs)
  /\ names_result_ok v rc (resolve_names_contiguous v rc rs).
Proof.
  intros v rc ss rs H. assert (Hwf : Forall wf_range rs).
  { induction H as [|s r ss rs Hp _ IH]; constructor; [now apply parsed_range_wf in Hp|exact IH]. }
  split; [now apply ranges_sound|now apply ranges_contiguous_sound].
Qed.
