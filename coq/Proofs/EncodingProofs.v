(* C08, the text side: what re-creating a commit does to the message as git shows it
   (Model/Encoding.v). *)
From Coq Require Import List NArith ZArith Bool Lia ZifyBool ZifyN PeanoNat.
From StgV Require Import Model.Chars Model.Export Model.Encoding Proofs.ExportBasics.
Import ListNotations.
Open Scope N_scope.
Ltac Zify.zify_post_hook ::= Z.div_mod_to_equations.

Definition is_byte (b : N) : Prop := b < 256.
Definition utf8_cfg (c : config) : Prop := c = CfgNone \/ c = CfgUtf8.

(* ---------------------------------------------------------------- UTF-8 of one scalar *)

Lemma utf8_of_cp_valid : forall c, c < 55296 -> utf8_valid (utf8_of_cp c) = true.
Proof.
  intros c Hc. unfold utf8_of_cp.
  destruct (c <? 128) eqn:E1.
  { cbn [utf8_valid]. rewrite E1. reflexivity. }
  destruct (c <? 2048) eqn:E2.
  { cbn [utf8_valid].
    replace (192 + c / 64 <? 128) with false by lia.
    replace ((194 <=? 192 + c / 64) && (192 + c / 64 <=? 223)) with true by lia.
    unfold cont. replace ((128 <=? 128 + c mod 64) && (128 + c mod 64 <=? 191)) with true by lia.
    reflexivity. }
  replace (c <? 65536) with true by lia.
  cbn [utf8_valid]. unfold cont.
  replace (224 + c / 4096 <? 128) with false by lia.
  replace ((194 <=? 224 + c / 4096) && (224 + c / 4096 <=? 223)) with false by lia.
  replace ((128 <=? 128 + c mod 64) && (128 + c mod 64 <=? 191)) with true by lia.
  destruct (224 + c / 4096 =? 224) eqn:E3.
  { replace ((160 <=? 128 + (c / 64) mod 64) && (128 + (c / 64) mod 64 <=? 191)) with true by lia.
    reflexivity. }
  destruct (((225 <=? 224 + c / 4096) && (224 + c / 4096 <=? 236)) || (224 + c / 4096 =? 238)
            || (224 + c / 4096 =? 239)) eqn:E4.
  { replace ((128 <=? 128 + (c / 64) mod 64) && (128 + (c / 64) mod 64 <=? 191)) with true by lia.
    reflexivity. }
  replace (224 + c / 4096 =? 237) with true by lia.
  replace ((128 <=? 128 + (c / 64) mod 64) && (128 + (c / 64) mod 64 <=? 159)) with true by lia.
  reflexivity.
Qed.

Lemma utf8_to_text_cp : forall f c r, c < 65536 ->
  utf8_to_text (S f) (utf8_of_cp c ++ r) = c :: utf8_to_text f r.
Proof.
  intros f c r Hc. unfold utf8_of_cp.
  destruct (c <? 128) eqn:E1.
  { cbn [app utf8_to_text]. rewrite E1. reflexivity. }
  destruct (c <? 2048) eqn:E2.
  { cbn [app utf8_to_text].
    replace (192 + c / 64 <? 128) with false by lia.
    replace (192 + c / 64 <? 224) with true by lia.
    f_equal. lia. }
  replace (c <? 65536) with true by lia.
  cbn [app utf8_to_text].
  replace (224 + c / 4096 <? 128) with false by lia.
  replace (224 + c / 4096 <? 224) with false by lia.
  replace (224 + c / 4096 <? 240) with true by lia.
  f_equal. lia.
Qed.

Lemma utf8_of_cp_nonempty : forall c, (1 <= length (utf8_of_cp c))%nat.
Proof.
  intros c. unfold utf8_of_cp.
  destruct (c <? 128); [cbn; lia|]. destruct (c <? 2048); [cbn; lia|].
  destruct (c <? 65536); cbn; lia.
Qed.

Lemma utf8_of_text_valid : forall t,
  Forall (fun c => c < 55296) t -> utf8_valid (utf8_of_text t) = true.
Proof.
  induction t as [|c t IH]; intros H; [reflexivity|].
  inversion H as [|? ? Hc Ht]; subst.
  unfold utf8_of_text. cbn [map concat].
  apply utf8_valid_app; [apply utf8_of_cp_valid; exact Hc|apply IH; exact Ht].
Qed.

Lemma utf8_of_text_length : forall t, (length t <= length (utf8_of_text t))%nat.
Proof.
  induction t as [|c t IH]; [cbn; lia|].
  unfold utf8_of_text in *. cbn [map concat length]. rewrite app_length.
  pose proof (utf8_of_cp_nonempty c). lia.
Qed.

Lemma utf8_to_text_of_text : forall t f,
  Forall (fun c => c < 55296) t -> (length t <= f)%nat ->
  utf8_to_text f (utf8_of_text t) = t.
Proof.
  induction t as [|c t IH]; intros f H Hf.
  - destruct f; reflexivity.
  - inversion H as [|? ? Hc Ht]; subst.
    destruct f as [|f]; [cbn [length] in Hf; lia|].
    unfold utf8_of_text. cbn [map concat].
    rewrite utf8_to_text_cp by lia. f_equal.
    apply IH; [exact Ht|cbn [length] in Hf; lia].
Qed.

(* ---------------------------------------------------------------- windows-1252 *)

Lemma w1252_high_small : Forall (fun c => c < 8483) w1252_high.
Proof. repeat constructor. Qed.

Lemma dec_w1252_small : forall b, is_byte b -> dec_w1252 b < 55296.
Proof.
  intros b Hb. unfold is_byte in Hb. unfold dec_w1252.
  destruct ((128 <=? b) && (b <=? 159)); [|lia].
  destruct (nth_in_or_default (N.to_nat (b - 128)) w1252_high b) as [Hin|Hd].
  - pose proof (proj1 (Forall_forall _ _) w1252_high_small _ Hin) as Hs. cbv beta in Hs. lia.
  - rewrite Hd. lia.
Qed.

Lemma dec_w1252_text_small : forall bytes,
  Forall is_byte bytes -> Forall (fun c => c < 55296) (map dec_w1252 bytes).
Proof.
  induction bytes as [|b r IH]; intros H; [constructor|].
  inversion H; subst. cbn [map]. constructor; [apply dec_w1252_small; assumption|apply IH; assumption].
Qed.

Lemma dec_w1252_outside_c1 : forall b, (b < 128 \/ 159 < b) -> dec_w1252 b = b.
Proof.
  intros b Hb. unfold dec_w1252.
  replace ((128 <=? b) && (b <=? 159)) with false by lia. reflexivity.
Qed.

(* git reading the re-encoded UTF-8 sees exactly the text encoding_rs decoded *)
Lemma git_text_of_w1252 : forall h' bytes,
  (h' = HAbsent \/ h' = HUtf8) -> Forall is_byte bytes ->
  git_text h' (utf8_of_text (map dec_w1252 bytes)) = Some (map dec_w1252 bytes).
Proof.
  intros h' bytes Hh Hb.
  pose proof (dec_w1252_text_small bytes Hb) as Hs.
  assert (git_text HAbsent (utf8_of_text (map dec_w1252 bytes)) = Some (map dec_w1252 bytes)) as G.
  { unfold git_text. rewrite utf8_of_text_valid by exact Hs.
    rewrite utf8_to_text_of_text; [reflexivity|exact Hs|apply utf8_of_text_length]. }
  destruct Hh as [->| ->]; exact G.
Qed.

(* ---------------------------------------------------------------- the re-creation *)

(* UTF-8 (or undeclared) commits keep their bytes exactly, and the new header is
   none or UTF-8. *)
Lemma recreate_utf8_exact : forall h bytes c h' out,
  (h = HAbsent \/ h = HUtf8) -> utf8_cfg c ->
  recreate h bytes c = Some (h', out) ->
  out = bytes /\ (h' = HAbsent \/ h' = HUtf8).
Proof.
  intros h bytes c h' out Hh Hc H.
  unfold recreate, message_ex in H.
  destruct Hh as [->| ->]; destruct Hc as [->| ->]; cbn [declared_single_byte negb] in H;
    rewrite andb_true_r in H; destruct (utf8_valid bytes) eqn:Ev;
    cbn [encode_with codec_of_config codec_of_header codec_eqb] in H;
    try rewrite Ev in H; try discriminate; inversion H; subst; split; auto.
Qed.

(* the shown text of such a commit is unchanged *)
Lemma recreate_utf8_text : forall h bytes c h' out,
  (h = HAbsent \/ h = HUtf8) -> utf8_cfg c ->
  recreate h bytes c = Some (h', out) ->
  git_text h' out = git_text h bytes.
Proof.
  intros h bytes c h' out Hh Hc H.
  destruct (recreate_utf8_exact h bytes c h' out) as [-> Hh']; [exact Hh|exact Hc|exact H|].
  destruct Hh as [->| ->]; destruct Hh' as [->| ->]; reflexivity.
Qed.

(* a declared windows-1252 commit: re-encoded to UTF-8, the shown text is unchanged *)
Lemma existsb_undefined_false : forall bytes,
  Forall (fun b => w1252_undefined b = false) bytes -> existsb w1252_undefined bytes = false.
Proof.
  induction bytes as [|b r IH]; intros H; [reflexivity|].
  inversion H as [|? ? Hb Hr]; subst. cbn [existsb]. rewrite Hb. apply IH. exact Hr.
Qed.

Lemma recreate_w1252_text : forall bytes c,
  utf8_cfg c -> Forall is_byte bytes -> Forall (fun b => w1252_undefined b = false) bytes ->
  exists h' out, recreate HW1252 bytes c = Some (h', out) /\
                 git_text h' out = git_text HW1252 bytes.
Proof.
  intros bytes c Hc Hb Hu.
  exists (match c with CfgNone => HAbsent | CfgUtf8 => HUtf8 | CfgLatin1 => HLatin1 | CfgW1252 => HW1252 end),
         (utf8_of_text (map dec_w1252 bytes)).
  split.
  - unfold recreate, message_ex. cbn [declared_single_byte negb]. rewrite andb_false_r.
    destruct Hc as [->| ->]; reflexivity.
  - cbn [git_text]. rewrite (existsb_undefined_false bytes Hu). destruct Hc as [->| ->]; apply git_text_of_w1252; auto.
Qed.

(* a declared latin-1 commit none of whose bytes lies in 0x80-0x9f: likewise *)
Lemma recreate_latin1_text : forall bytes c,
  utf8_cfg c -> Forall is_byte bytes -> Forall (fun b => b < 128 \/ 159 < b) bytes ->
  exists h' out, recreate HLatin1 bytes c = Some (h', out) /\
                 git_text h' out = git_text HLatin1 bytes.
Proof.
  intros bytes c Hc Hb Ho.
  exists (match c with CfgNone => HAbsent | CfgUtf8 => HUtf8 | CfgLatin1 => HLatin1 | CfgW1252 => HW1252 end),
         (utf8_of_text (map dec_w1252 bytes)).
  split.
  - unfold recreate, message_ex. cbn [declared_single_byte negb]. rewrite andb_false_r.
    destruct Hc as [->| ->]; reflexivity.
  - assert (map dec_w1252 bytes = map dec_latin1 bytes) as E.
    { apply map_ext_in. intros b Hin. unfold dec_latin1. apply dec_w1252_outside_c1.
      exact (proj1 (Forall_forall _ _) Ho _ Hin). }
    cbn [git_text]. rewrite <- E. destruct Hc as [->| ->]; apply git_text_of_w1252; auto.
Qed.

(* i18n.commitEncoding naming the commit's own single-byte encoding: bytes kept, header is
   the configured label *)
Lemma recreate_same_single_byte_exact : forall bytes,
  recreate HLatin1 bytes CfgLatin1 = Some (HLatin1, bytes) /\
  recreate HW1252 bytes CfgW1252 = Some (HW1252, bytes).
Proof.
  intros bytes. unfold recreate, message_ex. cbn [declared_single_byte negb].
  rewrite andb_false_r. split; reflexivity.
Qed.

(* F40: the full statement - every decodable declared encoding keeps its shown text - is
   false: a latin-1 commit with a byte in 0x80-0x9f *)
Definition text_kept (h : header) (bytes : list N) (c : config) : Prop :=
  forall h' out, recreate h bytes c = Some (h', out) -> git_text h' out = git_text h bytes.

Lemma f40_latin1_c1_refuted :
  exists bytes, Forall is_byte bytes /\ ~ text_kept HLatin1 bytes CfgNone.
Proof.
  exists [99; 147; 113; 148].
  split; [repeat constructor|].
  intros K. specialize (K HAbsent (utf8_of_text (map dec_w1252 [99; 147; 113; 148])) eq_refl).
  vm_compute in K. discriminate.
Qed.

(* and nothing else in the modelled domain fails: the class of F40 is exactly the latin-1
   labels with a byte in the C1 range *)
Lemma text_kept_outside_f40 : forall h bytes c,
  utf8_cfg c -> Forall is_byte bytes ->
  (h = HAbsent \/ h = HUtf8 \/
   (h = HW1252 /\ Forall (fun b => w1252_undefined b = false) bytes) \/
   (h = HLatin1 /\ Forall (fun b => b < 128 \/ 159 < b) bytes)) ->
  text_kept h bytes c.
Proof.
  intros h bytes c Hc Hb Hh h' out H.
  destruct Hh as [->|[->|[[-> Hu]|[-> Ho]]]].
  - eapply recreate_utf8_text; eauto.
  - eapply recreate_utf8_text; eauto.
  - destruct (recreate_w1252_text bytes c Hc Hb Hu) as (h2 & o2 & E & G).
    rewrite E in H. inversion H; subst. exact G.
  - destruct (recreate_latin1_text bytes c Hc Hb Ho) as (h2 & o2 & E & G).
    rewrite E in H. inversion H; subst. exact G.
Qed.

(* a label encoding_rs does not know: the re-creation is refused *)
Lemma recreate_unknown_refused : forall bytes c, recreate HUnknown bytes c = None.
Proof. reflexivity. Qed.

(* non-vacuity: a windows-1252 commit is re-created and the text is a real change of bytes *)
Example recreate_w1252_example :
  recreate HW1252 [147; 233] CfgNone = Some (HAbsent, [226; 128; 156; 195; 169]).
Proof. vm_compute. reflexivity. Qed.

(* ---------------------------------------------------------------- the author / committer names *)

Lemma index_of_spec : forall l x k i d,
  index_of x l k = Some i ->
  k <= i /\ nth (N.to_nat (i - k)) l d = x /\ i - k < N.of_nat (length l).
Proof.
  induction l as [|y r IH]; intros x k i d H; [discriminate H|].
  cbn [index_of] in H. destruct (x =? y) eqn:E.
  - inversion H; subst i. replace (k - k) with 0 by lia.
    cbn [N.to_nat nth length]. repeat split; lia.
  - destruct (IH x (k + 1) i d H) as (Hle & Hn & Hlen).
    replace (N.to_nat (i - k)) with (S (N.to_nat (i - (k + 1)))) by lia.
    cbn [nth length]. repeat split; [lia|exact Hn|lia].
Qed.

Lemma w1252_high_length : length w1252_high = 32%nat.
Proof. reflexivity. Qed.

Lemma enc_w1252_cp_inv : forall c b, enc_w1252_cp c = Some b -> dec_w1252 b = c.
Proof.
  intros c b H. unfold enc_w1252_cp in H.
  destruct ((c <? 128) || ((160 <=? c) && (c <=? 255))) eqn:E.
  - inversion H; subst b. apply dec_w1252_outside_c1. lia.
  - destruct (index_of c w1252_high 0) as [i|] eqn:Ei; [|discriminate H].
    assert (b = 128 + i) as -> by congruence.
    destruct (index_of_spec w1252_high c 0 i (128 + i) Ei) as (_ & Hn & Hlen).
    rewrite w1252_high_length in Hlen.
    unfold dec_w1252.
    replace ((128 <=? 128 + i) && (128 + i <=? 159)) with true by lia.
    replace (128 + i - 128) with (i - 0) by lia. exact Hn.
Qed.

Lemma enc_w1252_inv : forall t out, enc_w1252 t = Some out -> map dec_w1252 out = t.
Proof.
  induction t as [|c r IH]; intros out H.
  - cbn [enc_w1252] in H. inversion H; subst out. reflexivity.
  - cbn [enc_w1252] in H.
    destruct (enc_w1252_cp c) as [b|] eqn:Eb; [|discriminate H].
    destruct (enc_w1252 r) as [bs|] eqn:Ebs; [|discriminate H].
    inversion H; subst out. cbn [map].
    rewrite (enc_w1252_cp_inv c b Eb), (IH bs eq_refl). reflexivity.
Qed.

(* git reading UTF-8 written from a text below the surrogates sees that text *)
Lemma git_text_of_utf8_text : forall h' t,
  (h' = HAbsent \/ h' = HUtf8) -> Forall (fun c => c < 55296) t ->
  git_text h' (utf8_of_text t) = Some t.
Proof.
  intros h' t Hh Hs.
  assert (git_text HAbsent (utf8_of_text t) = Some t) as G.
  { unfold git_text. rewrite utf8_of_text_valid by exact Hs.
    rewrite utf8_to_text_of_text; [reflexivity|exact Hs|apply utf8_of_text_length]. }
  destruct Hh as [->| ->]; exact G.
Qed.

Lemma map_dec_w1252_latin1 : forall bytes,
  Forall (fun b => b < 128 \/ 159 < b) bytes -> map dec_w1252 bytes = map dec_latin1 bytes.
Proof.
  intros bytes Ho. apply map_ext_in. intros b Hin. unfold dec_latin1.
  apply dec_w1252_outside_c1. exact (proj1 (Forall_forall _ _) Ho _ Hin).
Qed.

(* the text author_strict decodes is the text git shows, and it lies below the surrogates *)
Lemma name_text_is_git_text : forall h bytes,
  Forall is_byte bytes ->
  ((h = HAbsent \/ h = HUtf8) /\ Forall (fun cp => cp < 55296) (utf8_to_text (length bytes) bytes))
  \/ (h = HW1252 /\ Forall (fun b => w1252_undefined b = false) bytes)
  \/ (h = HLatin1 /\ Forall (fun b => b < 128 \/ 159 < b) bytes) ->
  forall t,
    match h with
    | HAbsent | HUtf8 => if utf8_valid bytes then Some (utf8_to_text (length bytes) bytes) else None
    | HLatin1 | HW1252 => Some (map dec_w1252 bytes)
    | HUnknown => None
    end = Some t ->
    git_text h bytes = Some t /\ Forall (fun cp => cp < 55296) t.
Proof.
  intros h bytes Hb Hh t Ht.
  destruct Hh as [[Hu Hs]|[[-> Hu]|[-> Ho]]].
  - destruct Hu as [->| ->]; cbn [git_text]; destruct (utf8_valid bytes); try discriminate Ht;
      inversion Ht; subst t; split; [reflexivity|exact Hs|reflexivity|exact Hs].
  - inversion Ht; subst t. cbn [git_text]. rewrite (existsb_undefined_false bytes Hu).
    split; [reflexivity|apply dec_w1252_text_small; exact Hb].
  - inversion Ht; subst t. cbn [git_text]. rewrite <- (map_dec_w1252_latin1 bytes Ho).
    split; [reflexivity|apply dec_w1252_text_small; exact Hb].
Qed.

Lemma author_kept :
  forall h bytes c out,
    utf8_cfg c -> Forall is_byte bytes ->
    ((h = HAbsent \/ h = HUtf8) /\ Forall (fun cp => cp < 55296) (utf8_to_text (length bytes) bytes))
    \/ (h = HW1252 /\ Forall (fun b => w1252_undefined b = false) bytes)
    \/ (h = HLatin1 /\ Forall (fun b => b < 128 \/ 159 < b) bytes) ->
    recreate_name h bytes c = Some out ->
    git_text (match c with CfgUtf8 => HUtf8 | _ => HAbsent end) out = git_text h bytes.
Proof.
  intros h bytes c out Hc Hb Hh H.
  unfold recreate_name in H.
  pose proof (name_text_is_git_text h bytes Hb Hh) as K.
  destruct (match h with
            | HAbsent | HUtf8 => if utf8_valid bytes then Some (utf8_to_text (length bytes) bytes) else None
            | HLatin1 | HW1252 => Some (map dec_w1252 bytes)
            | HUnknown => None
            end) as [t|]; [|discriminate H].
  destruct (K t eq_refl) as [G Hs]. rewrite G.
  destruct Hc as [->| ->]; cbn [codec_of_config] in H; inversion H; subst out;
    apply git_text_of_utf8_text; auto.
Qed.

Lemma author_encoded_with_commit_encoding :
  forall h bytes out,
    Forall is_byte bytes ->
    ((h = HAbsent \/ h = HUtf8) /\ Forall (fun cp => cp < 55296) (utf8_to_text (length bytes) bytes))
    \/ (h = HW1252 /\ Forall (fun b => w1252_undefined b = false) bytes)
    \/ (h = HLatin1 /\ Forall (fun b => b < 128 \/ 159 < b) bytes) ->
    recreate_name h bytes CfgW1252 = Some out ->
    Forall (fun b => w1252_undefined b = false) out ->
    git_text HW1252 out = git_text h bytes.
Proof.
  intros h bytes out Hb Hh H Hu.
  unfold recreate_name in H.
  pose proof (name_text_is_git_text h bytes Hb Hh) as K.
  destruct (match h with
            | HAbsent | HUtf8 => if utf8_valid bytes then Some (utf8_to_text (length bytes) bytes) else None
            | HLatin1 | HW1252 => Some (map dec_w1252 bytes)
            | HUnknown => None
            end) as [t|]; [|discriminate H].
  destruct (K t eq_refl) as [G _]. rewrite G.
  cbn [codec_of_config] in H.
  cbn [git_text]. rewrite (existsb_undefined_false out Hu).
  rewrite (enc_w1252_inv t out H). reflexivity.
Qed.

(* non-vacuity: a UTF-8 name written under i18n.commitEncoding = windows-1252 *)
Example recreate_name_w1252_example :
  recreate_name HAbsent [226; 128; 156; 195; 169] CfgW1252 = Some [147; 233].
Proof. vm_compute. reflexivity. Qed.
