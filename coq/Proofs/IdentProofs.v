(* C08 proofs, part 2: the commands.  Generic commands (push, pop, goto, float, sink, delete,
   hide, unhide, commit, clean) keep any monotone, recommit-closed predicate on the patches;
   the others are treated one by one. *)
From Coq Require Import Lia List NArith Bool.
From StgV Require Import Model.StackSpec Model.IdentSpec.
From StgV Require Import Proofs.WfBasics Proofs.WfFrame Proofs.MirrorProofs Proofs.WfTxn Proofs.WfCmd.
From StgV Require Import Proofs.IdentTxn.
From StgV Require Proofs.ReachBase Proofs.ReachEvolve Proofs.ReachStep Proofs.CommitProofs.
Import ListNotations.
Local Open Scope nat_scope.

(* ---------------------------------------------------------------- C08_commits_immutable *)

Lemma step_extends : forall lower_s w c, store_extends (w_objs w) (w_objs (fst (step lower_s w c))).
Proof.
  intros lower_s w c. exact (ReachEvolve.evolve_extends _ _ _ _ _ (ReachStep.step_ev lower_s w c)).
Qed.

Lemma commits_immutable :
  forall lower_s w c o cm,
    get (w_objs w) o = Some cm -> get (w_objs (fst (step lower_s w c))) o = Some cm.
Proof.
  intros lower_s w c o cm H. eapply ReachBase.get_ext; [apply step_extends|exact H].
Qed.

(* ---------------------------------------------------------------- driver *)

#[export] Hint Resolve push_patches_sat push_tree_list_sat reorder_sat commit_sat hide_sat unhide_sat
  push_patch_sat push_list_sat push_tree_sat repair_appliedness_sat : sat.

Ltac sat_closure :=
  cbv beta;
  repeat match goal with
  | |- rsat _ (match delete_patches ?f ?t with _ => _ end) => apply delete_push_sat; assumption
  | |- rsat _ (if ?b then _ else _) => destruct b
  | |- rsat _ (match ?x with _ => _ end) => destruct x
  end; first [exact I | solve [auto with sat]].

Ltac sat_transact :=
  match goal with
  | HQ : Qok ?Q, Hm : op_mir ?op, Hw : wsat ?Q (op_world ?op) |- wsat ?Q (fst (transact ?op _ _ _)) =>
      let T := fresh "T" in
      apply transact_sat; [exact (q_mono Q HQ)|exact Hm|frame_auto|exact Hw|intros _ T; sat_closure]
  end.

Ltac sat_leaf :=
  cbn [fst err2 ok0]; first [assumption | sat_transact].

Ltac sat_destruct :=
  match goal with
  | |- wsat _ (fst (rres_bind _ ?r _)) => destruct r; cbn [rres_bind]
  | HQ : Qok ?Q, Hw : wsat ?Q ?w |- context [match open_stack ?p ?w with _ => _ end] =>
      let E := fresh "Eo" in let Hw' := fresh "Hw" in
      destruct (open_stack p w) as [?op|] eqn:E;
      [pose proof (open_sat Q p w _ (q_mono Q HQ) E ltac:(discriminate) Hw) as Hw'; apply open_op_mir in E|]
  | |- context [match ?x with _ => _ end] =>
      lazymatch x with
      | context [match _ with _ => _ end] => fail
      | _ => destruct x
      end
  | |- wsat _ (fst (if ?b then _ else _)) => destruct b
  | |- wsat _ (fst (match ?x with _ => _ end)) => destruct x
  end.

Ltac sat := repeat (first [sat_leaf | sat_destruct]).

Section Generic.
  Variable Q : pred.
  Hypothesis HQ : Qok Q.

  Lemma run_push_sat : forall w r n al rv na st mg kp cf,
    wsat Q w -> wsat Q (fst (run_push w r n al rv na st mg kp cf)).
  Proof. intros. unfold run_push. sat. Qed.

  Lemma run_pop_sat : forall w r n al kp sp, wsat Q w -> wsat Q (fst (run_pop w r n al kp sp)).
  Proof. intros. unfold run_pop. sat. Qed.

  Lemma run_goto_sat : forall w l kp mg cf, wsat Q w -> wsat Q (fst (run_goto w l kp mg cf)).
  Proof. intros. unfold run_goto. sat. Qed.

  Lemma run_float_sat : forall w r na kp, wsat Q w -> wsat Q (fst (run_float w r na kp)).
  Proof. intros. unfold run_float. sat. Qed.

  Lemma run_sink_sat : forall w r t np kp, wsat Q w -> wsat Q (fst (run_sink w r t np kp)).
  Proof. intros. unfold run_sink. sat. Qed.

  Lemma run_delete_sat : forall w r tp al a u h sp cf,
    wsat Q w -> wsat Q (fst (run_delete w r tp al a u h sp cf)).
  Proof. intros. unfold run_delete. sat. Qed.

  Lemma run_hide_sat : forall w r, wsat Q w -> wsat Q (fst (run_hide w r)).
  Proof. intros. unfold run_hide. sat. Qed.

  Lemma run_unhide_sat : forall w r, wsat Q w -> wsat Q (fst (run_unhide w r)).
  Proof. intros. unfold run_unhide. sat. Qed.

  Lemma run_commit_sat : forall w r n al ae, wsat Q w -> wsat Q (fst (run_commit w r n al ae)).
  Proof. intros. unfold run_commit. sat. Qed.

  Lemma run_clean_sat : forall w a u, wsat Q w -> wsat Q (fst (run_clean w a u)).
  Proof. intros. unfold run_clean. sat. Qed.
End Generic.

(* ---------------------------------------------------------------- facts from the invariant *)

Lemma inv_patch : forall w n o, Inv w -> patch_commit w n = Some o -> is_patch_commit (w_objs w) o.
Proof.
  intros w n o [_ [Hs _]] E. unfold patch_commit, cur_state in E.
  destruct (w_stack w) as [so|]; [|discriminate].
  destruct (state_of (w_objs w) so) as [s|] eqn:Es; [|discriminate].
  destruct (Hs so s Es) as [_ [_ [_ [Hp _]]]]. now apply (Hp n).
Qed.

Lemma inv_patch_get : forall w n o, Inv w -> patch_commit w n = Some o -> exists c, get (w_objs w) o = Some c.
Proof. intros w n o Hi E. destruct (inv_patch w n o Hi E) as [[c [Hc _]] _]. eauto. Qed.

Lemma get_lt : forall objs o c, get objs o = Some c -> o < length objs.
Proof. intros objs o c H. apply nth_error_Some. unfold get in H. congruence. Qed.

Lemma plain_lt : forall objs o, is_plain objs o -> o < length objs.
Proof. intros objs o [c [H _]]. now apply get_lt in H. Qed.

Lemma open_cur : forall p w op,
  open_stack p w = Some op -> op_initialized op = true -> cur_state (op_world op) = Some (op_state op).
Proof.
  intros p w op H Hi. apply open_op_mir in H as [_ [H|[_ H]]]; [exact H|congruence].
Qed.

(* ---------------------------------------------------------------- the identity predicate *)

Section Ident.
  Variable w : world.

  (* [o'] exists and carries the author/message of the commit patch [n] had in [w] *)
  Definition Qid : pred := fun objs n o' =>
    exists c o c0, get objs o' = Some c /\ patch_commit w n = Some o /\ get (w_objs w) o = Some c0
                   /\ c_meta c = c_meta c0 /\ c_subj c = c_subj c0.

  Lemma Qid_mono : Qmono Qid.
  Proof.
    intros a b n o' [e ->] [c [o [c0 [H1 H2]]]]. exists c, o, c0. split; [|exact H2]. now apply get_app_l.
  Qed.

  Lemma Qid_ok : Qok Qid.
  Proof.
    split; [exact Qid_mono|].
    intros objs n o' ps tr [c [o [c0 [H1 [H2 [H3 [H4 H5]]]]]]].
    eexists _, o, c0. split; [apply get_put_new|]. split; [exact H2|]. split; [exact H3|].
    unfold subj_of. rewrite H1. cbn. auto.
  Qed.

  Lemma Qid_init : Inv w -> wsat Qid w.
  Proof.
    intros Hi n o E. destruct (inv_patch_get w n o Hi E) as [c Hc]. exists c, o, c. auto.
  Qed.

  Lemma Qid_ident : forall objs n o',
    Qid objs n o' ->
    exists o, patch_commit w n = Some o /\ ident_of objs o' = ident_of (w_objs w) o.
  Proof.
    intros objs n o' [c [o [c0 [H1 [H2 [H3 [H4 H5]]]]]]]. exists o. split; [exact H2|].
    unfold ident_of. now rewrite H1, H3, H4, H5.
  Qed.

  (* under rename: some patch of [w] had this very commit *)
  Definition Qren : pred := fun _ _ o' => exists a, patch_commit w a = Some o'.

  Lemma Qren_mono : Qmono Qren.
  Proof. intros a b n o _ H. exact H. Qed.

  (* under uncommit: the identity is kept, or the name is new *)
  Definition Qunc : pred := fun objs n o' => Qid objs n o' \/ patch_commit w n = None.

  Lemma Qunc_mono : Qmono Qunc.
  Proof. intros a b n o He [H|H]; [left; now apply (Qid_mono a b)|now right]. Qed.
End Ident.

(* ---------------------------------------------------------------- init / inspect / log --clear *)

Lemma open_only_sat : forall Q p w,
  Qmono Q -> p <> PForce -> wsat Q w ->
  wsat Q (fst (match open_stack p w with Some op => (op_world op, X0) | None => err2 w end)).
Proof.
  intros Q p w HQ Hp Hw. destruct (open_stack p w) as [op|] eqn:Eo; [|exact Hw].
  cbn [fst]. now apply (open_sat Q p w).
Qed.

Lemma run_log_clear_sat : forall Q w, Qmono Q -> wsat Q w -> wsat Q (fst (run_log_clear w)).
Proof.
  intros Q w HQ Hw. unfold run_log_clear.
  destruct (open_stack PRequire w) as [op|] eqn:Eo; [|exact Hw].
  pose proof (open_sat Q _ _ _ HQ Eo ltac:(discriminate) Hw) as Hw1.
  assert (Hc : cur_state (op_world op) = Some (op_state op)).
  { apply (open_cur _ _ _ Eo). unfold open_stack in Eo. destruct (w_stack w); [|discriminate].
    destruct (state_of _ _); [|discriminate]. destruct (stack_base _ _ _); [|discriminate].
    now injection Eo as <-. }
  destruct (state_commit _ _ _) as [[objs' so]|] eqn:Ec; [|exact Hw1].
  apply state_commit_state in Ec as [Hx Ec]. cbn [fst].
  apply (wsat_kept Q (op_world op)); [exact HQ|exact Hx| |exact Hw1].
  eapply kept_cur; [exact Hc| |]; [unfold cur_state; cbn; exact Ec|reflexivity].
Qed.

(* ---------------------------------------------------------------- spill *)

Lemma cur_put_plain : forall w ps tr m sj,
  cur_state (with_objs w (w_objs w ++ [plain ps tr m sj])) = cur_state w.
Proof.
  intros w ps tr m sj. unfold cur_state, with_objs. cbn.
  destruct (w_stack w); [|reflexivity]. apply state_of_put_plain.
Qed.

Lemma run_spill_sat : forall Q w, Qok Q -> wsat Q w -> wsat Q (fst (run_spill w)).
Proof.
  intros Q w HQ Hw. unfold run_spill.
  destruct (open_stack PAllow w) as [op|] eqn:Eo; [|exact Hw].
  pose proof (open_sat Q _ _ _ (q_mono Q HQ) Eo ltac:(discriminate) Hw) as Hw1.
  apply open_op_mir in Eo.
  destruct (w_unmerged (op_world op)); [exact Hw1|].
  destruct (dirty (op_world op)); [exact Hw1|].
  destruct (negb (head_top_ok op)); [exact Hw1|].
  destruct (last_error (s_applied (op_state op))) as [pn|]; [|exact Hw1].
  destruct (pm_get (s_patches (op_state op)) pn) as [pc|] eqn:Epc; [|exact Hw1].
  destruct (first_parent (w_objs (op_world op)) pc) as [par|]; [|exact Hw1].
  unfold put. cbv beta iota zeta.
  apply transact_sat.
  - exact (q_mono Q HQ).
  - apply op_mir_with_objs; [exact Eo|apply store_extends_put].
  - frame_auto.
  - cbn [op_world]. now apply wsat_put_plain; [apply (q_mono Q HQ)|].
  - cbn [op_world op_state]. intros Hc T. rewrite cur_put_plain in Hc.
    apply update_patch_sat; [exact T|]. cbn [begin_txn t_objs op_world with_objs w_objs].
    apply (q_recommit Q HQ). apply Hw1. rewrite (patch_commit_cur _ _ Hc). exact Epc.
Qed.

(* ---------------------------------------------------------------- rename *)

Lemma run_rename_sat : forall w0 w o n, wsat (Qren w0) w -> wsat (Qren w0) (fst (run_rename w o n)).
Proof.
  intros w0 w o n Hw. unfold run_rename.
  destruct (from_str n) as [newn|]; [|exact Hw].
  destruct (match o with Some _ => _ | None => _ end) as [old_l|]; [|exact Hw].
  destruct (open_stack PAllow w) as [op|] eqn:Eo; [|exact Hw].
  pose proof (open_sat _ _ _ _ (Qren_mono w0) Eo ltac:(discriminate) Hw) as Hw1.
  apply open_op_mir in Eo.
  assert (K : forall oldn, wsat (Qren w0) (fst (transact op (opts CAllow true false false true false)
                                                 (rename_patch oldn newn) MOp))).
  { intros oldn. apply transact_sat; [apply Qren_mono|exact Eo|frame_auto|exact Hw1|].
    intros Hc T. destruct (rename_patch oldn newn (begin_txn op _)) as [t'| | |] eqn:Er; try exact I.
    - intros m p E. destruct (rename_patch_src _ _ _ _ _ _ Er E) as [a [Ha|Ha]]; [now apply (T a)|].
      apply (Hw1 a). rewrite (patch_commit_cur _ _ Hc). exact Ha.
    - unfold rename_patch in Er.
      repeat match type of Er with
             | (if ?b then _ else _) = _ => destruct b
             | match ?x with _ => _ end = _ => destruct x
             end; discriminate. }
  destruct (match old_l with Some _ => _ | None => _ end); cbn [rres_bind fst]; try exact Hw1.
  destruct (stack_collides (op_state op) newn); [|apply K].
  destruct (mem newn (all_of (op_state op))); [exact Hw1|].
  destruct (negb _); [exact Hw1|apply K].
Qed.

(* ---------------------------------------------------------------- uncommit *)

Lemma run_uncommit_sat : forall w n names, Inv w -> wsat (Qunc w) (fst (run_uncommit w n names)).
Proof.
  intros w n names Hi. pose proof (Qid_init w Hi) as Hw0.
  assert (Hw : wsat (Qunc w) w) by (intros m o E; left; now apply Hw0).
  unfold run_uncommit.
  destruct (fold_right _ _ names) as [pnames|] eqn:Ep; [|exact Hw]. apply parsed_names_valid in Ep.
  destruct (open_stack PAuto w) as [op|] eqn:Eo; [|exact Hw].
  pose proof (open_sat _ _ _ _ (Qunc_mono w) Eo ltac:(discriminate) Hw) as Hw1.
  destruct (open_patches _ _ _ Eo ltac:(discriminate)) as [_ Hk].
  pose proof (open_ok _ _ _ Hi Eo) as Hok. pose proof (open_op_mir _ _ _ Eo) as Hm.
  destruct (negb (head_top_ok op)); [exact Hw1|].
  pose proof Hok as [Hiw [Hs Hb]]. pose proof Hs as [Hn _].
  match goal with |- wsat _ (fst (match ?p with inl _ => _ | inr _ => _ end)) =>
    assert (Hplan : forall commits pns, p = inr (commits, pns) ->
              names_ok (pns ++ all_of (op_state op)));
    [|destruct p as [res|[commits pns]] eqn:Epl] end.
  { intros commits pns E. destruct n as [k|].
    - destruct (walk_down _ _ _) as [cs|] eqn:Ew; [|discriminate].
      destruct pnames as [|prefix [|? ?]]; try discriminate.
      destruct (forallb _ _) eqn:Ef; [|discriminate].
      destruct (check_patchnames _ _) eqn:Ec; [|discriminate]. injection E as <- <-.
      apply check_patchnames_ok; [exact Hn| |exact Ec].
      apply Forall_forall. intros x Hx. now apply (proj1 (forallb_forall _ _) Ef).
    - destruct (check_patchnames _ _) eqn:Ec; [|discriminate]. cbn [negb] in E.
      destruct (walk_down _ _ _) as [cs|] eqn:Ew; [|discriminate]. injection E as <- <-.
      now apply check_patchnames_ok. }
  - clear Hplan. revert Epl.
    repeat match goal with
           | |- (if ?b then _ else _) = _ -> _ => destruct b
           | |- match ?x with _ => _ end = _ -> _ => destruct x
           end; intros Epl; first [discriminate | injection Epl as <-; exact Hw1].
  - specialize (Hplan commits pns eq_refl). clear Epl.
    destruct (negb (Nat.eqb (length commits) (length pns))); [exact Hw1|].
    apply transact_sat; [apply Qunc_mono|exact Hm|frame_auto|exact Hw1|].
    intros Hc T. apply uncommit_sat; [exact T|].
    intros m o Hin. right. apply in_rev in Hin. apply in_combine_l in Hin.
    rewrite <- Hk, (patch_commit_cur _ _ Hc).
    destruct (pm_get (s_patches (op_state op)) m) eqn:Eg; [|reflexivity]. exfalso.
    destruct Hs as [_ [_ [Hd _]]].
    assert (Hall : In m (all_of (op_state op))) by (apply Hd; congruence).
    destruct Hplan as [Hnd _]. apply NoDup_app_iff in Hnd as [_ [_ Hdis]]. exact (Hdis m Hin Hall).
Qed.

(* ---------------------------------------------------------------- undo / redo / reset *)

Notation np_extends := CommitProofs.np_extends.

Lemma np_refl : forall a, np_extends a a.
Proof. intros a. apply ReachBase.ext_by_refl. Qed.

Lemma np_trans : forall a b c, np_extends a b -> np_extends b c -> np_extends a c.
Proof. intros a b c. apply ReachBase.ext_by_trans. Qed.

(* a transaction whose closure leaves the store alone adds state and grouping commits only *)
Lemma transact_np : forall op o f msg,
  (forall t', f (begin_txn op o) = TOk t' \/ (exists h, f (begin_txn op o) = THalt t' h)
              \/ f (begin_txn op o) = TErr t' -> t_objs t' = w_objs (op_world op)) ->
  np_extends (w_objs (op_world op)) (w_objs (fst (transact op o f msg))).
Proof.
  intros op o f msg Hf. unfold transact. destruct (negb (op_initialized op)).
  - destruct (f (begin_txn op o)); apply np_refl.
  - destruct (f (begin_txn op o)) as [t|t h|t|] eqn:Er.
    + destruct (execute (op_world op) (TOk t) msg) as [w' x] eqn:E. cbn [fst].
      refine (CommitProofs.exec_body_np (op_world op) t None msg w' x _ E).
      rewrite (Hf t) by auto. apply np_refl.
    + destruct (execute (op_world op) (THalt t h) msg) as [w' x] eqn:E. cbn [fst].
      refine (CommitProofs.exec_body_np (op_world op) t (Some h) msg w' x _ E).
      rewrite (Hf t) by eauto. apply np_refl.
    + cbn [execute fst w_objs]. rewrite (Hf t) by auto. apply np_refl.
    + apply np_refl.
Qed.

Lemma reset_to_state_objs : forall s t t',
  reset_to_state s t = TOk t' \/ (exists h, reset_to_state s t = THalt t' h)
  \/ reset_to_state s t = TErr t' -> t_objs t' = t_objs t.
Proof.
  intros s t t' H. unfold reset_to_state in H.
  destruct (match s_applied s with [] => _ | _ => _ end) as [b|].
  - destruct H as [H|[[h H]|H]]; try discriminate. injection H as <-. reflexivity.
  - destruct H as [H|[[h H]|H]]; try discriminate. injection H as <-. reflexivity.
Qed.

Lemma run_undo_like_np : forall w steps hard msg,
  np_extends (w_objs w) (w_objs (fst (run_undo_like w steps hard msg))).
Proof.
  intros w steps hard msg. unfold run_undo_like.
  destruct (open_stack PRequire w) as [op0|] eqn:Eo; [|apply np_refl].
  apply CommitProofs.open_stack_np in Eo.
  destruct (log_extmods_first op0) as [op|] eqn:El; [|exact Eo].
  assert (Hl : np_extends (w_objs (op_world op0)) (w_objs (op_world op))).
  { unfold log_extmods_first in El. destruct (Nat.eqb _ _); [injection El as <-; apply np_refl|].
    destruct (log_external_mods _ _) as [[w' s']|] eqn:Em; [|discriminate]. injection El as <-.
    now apply CommitProofs.log_external_mods_np in Em. }
  eapply np_trans; [exact Eo|]. eapply np_trans; [exact Hl|]. apply transact_np.
  intros t' H. destruct (w_stack (op_world op)) as [so|].
  - destruct (find_undo_state _ _ _ _) as [st|].
    + now apply reset_to_state_objs in H.
    + destruct H as [H|[[h H]|H]]; try discriminate. now injection H as <-.
  - destruct H as [H|[[h H]|H]]; try discriminate. now injection H as <-.
Qed.

Lemma restore_np : forall lower_s w c,
  is_restore c = true -> in_scope c = true ->
  np_extends (w_objs w) (w_objs (fst (step lower_s w c))).
Proof.
  intros lower_s w c Hr Hs. destruct c; try discriminate; cbn [step].
  - unfold run_undo. destruct (n <? 1)%Z; [apply np_refl|apply run_undo_like_np].
  - unfold run_redo. destruct (n =? 0)%N; [apply np_refl|].
    destruct (isize_max <? n)%N; [apply np_refl|apply run_undo_like_np].
  - destruct ranges; [discriminate|]. unfold run_reset. destruct entry as [k|].
    + destruct (open_stack PRequire w) as [op|] eqn:Eo; [|apply np_refl].
      apply CommitProofs.open_stack_np in Eo.
      destruct (w_stack (op_world op)) as [so|]; [|exact Eo].
      destruct (nth_prev_state _ _ _ _) as [st|]; [|exact Eo].
      eapply np_trans; [exact Eo|]. apply transact_np. intros t' H.
      now apply reset_to_state_objs in H.
    + destruct hard; apply np_refl.
Qed.

Lemma restore_reuses_commits :
  forall lower_s, LowerOK lower_s ->
  forall w c w' x n o',
    Inv w -> is_restore c = true -> in_scope c = true -> step lower_s w c = (w', x) ->
    patch_commit w' n = Some o' -> o' < length (w_objs w).
Proof.
  intros lower_s HL w c w' x n o' Hi Hr Hs E Ep.
  pose proof (step_inv lower_s HL w c Hs Hi) as Hi'. pose proof (restore_np lower_s w c Hr Hs) as Hnp.
  rewrite E in Hi', Hnp. cbn [fst] in Hi', Hnp.
  apply CommitProofs.np_extends_no_new_plain in Hnp as [_ Hnn].
  destruct (inv_patch w' n o' Hi' Ep) as [Hpl _].
  destruct (Nat.lt_ge_cases o' (length (w_objs w))) as [Hlt|Hge]; [exact Hlt|].
  exfalso. exact (Hnn o' Hge Hpl).
Qed.
